import BadgerModel.Spec.Mvcc
import BadgerProofs.Lemmas.Bytes
/-!
# The structural invariant of the LSM model and the list-level facts the lifting needs

Definitions asked for by C01 / C12 / C14 live in `namespace Badger`; every helper lemma lives
in `namespace Badger.LL` so that its name cannot clash with other lemma files.
-/
namespace Badger
namespace LL

/-! ## Order facts: `cmpBytes`, `kvCmp`, `entCmp` -/

theorem cmpBytes_trans {a b c : Bytes} (h1 : cmpBytes a b = .lt) (h2 : cmpBytes b c = .lt) :
    cmpBytes a c = .lt := by
  induction a generalizing b c with
  | nil =>
    cases b with
    | nil => simp [cmpBytes] at h1
    | cons y ys => cases c with
      | nil => simp [cmpBytes] at h2
      | cons z zs => simp [cmpBytes]
  | cons x xs ih =>
    cases b with
    | nil => simp [cmpBytes] at h1
    | cons y ys =>
      cases c with
      | nil => simp [cmpBytes] at h2
      | cons z zs =>
        simp only [cmpBytes] at h1 h2 ⊢
        split at h1
        · split at h2
          · rw [if_pos (by omega)]
          · split at h2
            · cases h2
            · rw [if_pos (by omega)]
        · split at h1
          · cases h1
          · split at h2
            · rw [if_pos (by omega)]
            · split at h2
              · cases h2
              · rw [if_neg (by omega), if_neg (by omega)]
                exact ih h1 h2

/-- strict byte order on user keys -/
def klt (a b : Bytes) : Prop := cmpBytes a b = .lt

theorem klt_trans {a b c : Bytes} (h1 : klt a b) (h2 : klt b c) : klt a c := cmpBytes_trans h1 h2

theorem klt_irrefl (a : Bytes) : ¬ klt a a := by
  unfold klt; rw [cmpBytes_refl]; simp

theorem klt_asymm {a b : Bytes} (h : klt a b) : ¬ klt b a := fun h' => klt_irrefl a (klt_trans h h')

theorem klt_ne {a b : Bytes} (h : klt a b) : a ≠ b := fun e => klt_irrefl a (e ▸ h)

theorem cmpBytes_gt_iff (a b : Bytes) : cmpBytes a b = .gt ↔ klt b a := by
  unfold klt; rw [← cmpBytes_swap a b]; cases cmpBytes a b <;> simp [Ordering.swap]

theorem klt_tri (a b : Bytes) : klt a b ∨ a = b ∨ klt b a := by
  cases h : cmpBytes a b with
  | lt => exact .inl h
  | eq => exact .inr (.inl ((cmpBytes_eq_iff a b).mp h))
  | gt => exact .inr (.inr ((cmpBytes_gt_iff a b).mp h))

theorem kvCmp_lt_iff (k1 : Bytes) (v1 : Nat) (k2 : Bytes) (v2 : Nat) :
    kvCmp k1 v1 k2 v2 = .lt ↔ klt k1 k2 ∨ (k1 = k2 ∧ v2 < v1) := by
  unfold kvCmp
  rcases klt_tri k1 k2 with h | h | h
  · have h' : cmpBytes k1 k2 = .lt := h
    rw [h']; simp [h]
  · subst h
    rw [cmpBytes_refl]; simp [klt_irrefl, Nat.compare_eq_lt]
  · have h' : cmpBytes k1 k2 = .gt := (cmpBytes_gt_iff _ _).mpr h
    rw [h']; simp [klt_asymm h]
    intro e; exact absurd h (e ▸ klt_irrefl k1)

theorem kvCmp_eq_iff (k1 : Bytes) (v1 : Nat) (k2 : Bytes) (v2 : Nat) :
    kvCmp k1 v1 k2 v2 = .eq ↔ k1 = k2 ∧ v1 = v2 := by
  unfold kvCmp
  rcases klt_tri k1 k2 with h | h | h
  · have h' : cmpBytes k1 k2 = .lt := h
    rw [h']; simp [klt_ne h]
  · subst h
    rw [cmpBytes_refl]; simp; exact eq_comm
  · have h' : cmpBytes k1 k2 = .gt := (cmpBytes_gt_iff _ _).mpr h
    rw [h']; simp
    intro e; exact absurd h (e ▸ klt_irrefl k1)

theorem kvCmp_gt_iff (k1 : Bytes) (v1 : Nat) (k2 : Bytes) (v2 : Nat) :
    kvCmp k1 v1 k2 v2 = .gt ↔ klt k2 k1 ∨ (k1 = k2 ∧ v1 < v2) := by
  unfold kvCmp
  rcases klt_tri k1 k2 with h | h | h
  · have h' : cmpBytes k1 k2 = .lt := h
    rw [h']; simp [klt_asymm h, klt_ne h]
  · subst h
    rw [cmpBytes_refl]; simp [klt_irrefl, Nat.compare_eq_gt]
  · have h' : cmpBytes k1 k2 = .gt := (cmpBytes_gt_iff _ _).mpr h
    rw [h']; simp [h]

/-- `(k1,v1)` strictly before `(k2,v2)` in the internal-key order -/
def kvlt (k1 : Bytes) (v1 : Nat) (k2 : Bytes) (v2 : Nat) : Prop := klt k1 k2 ∨ (k1 = k2 ∧ v2 < v1)

theorem kvlt_trans {k1 k2 k3 : Bytes} {v1 v2 v3 : Nat} (h1 : kvlt k1 v1 k2 v2) (h2 : kvlt k2 v2 k3 v3) :
    kvlt k1 v1 k3 v3 := by
  rcases h1 with h1 | ⟨rfl, h1⟩ <;> rcases h2 with h2 | ⟨rfl, h2⟩
  · exact .inl (klt_trans h1 h2)
  · exact .inl h1
  · exact .inl h2
  · exact .inr ⟨rfl, by omega⟩

theorem kvlt_irrefl (k : Bytes) (v : Nat) : ¬ kvlt k v k v := by
  rintro (h | ⟨_, h⟩)
  · exact klt_irrefl k h
  · omega

theorem kvlt_tri (k1 : Bytes) (v1 : Nat) (k2 : Bytes) (v2 : Nat) :
    kvlt k1 v1 k2 v2 ∨ (k1 = k2 ∧ v1 = v2) ∨ kvlt k2 v2 k1 v1 := by
  rcases klt_tri k1 k2 with h | h | h
  · exact .inl (.inl h)
  · subst h
    rcases Nat.lt_trichotomy v1 v2 with h | h | h
    · exact .inr (.inr (.inr ⟨rfl, h⟩))
    · exact .inr (.inl ⟨rfl, h⟩)
    · exact .inl (.inr ⟨rfl, h⟩)
  · exact .inr (.inr (.inl h))

/-- strict internal-key order on entries -/
def elt (a b : Ent) : Prop := kvlt a.key a.ver b.key b.ver

theorem entCmp_lt_iff (a b : Ent) : entCmp a b = .lt ↔ elt a b := kvCmp_lt_iff _ _ _ _
theorem entCmp_gt_iff (a b : Ent) : entCmp a b = .gt ↔ elt b a := by
  unfold entCmp elt kvlt; rw [kvCmp_gt_iff]
  constructor
  · rintro (h | ⟨h1, h2⟩)
    · exact .inl h
    · exact .inr ⟨h1.symm, h2⟩
  · rintro (h | ⟨h1, h2⟩)
    · exact .inl h
    · exact .inr ⟨h1.symm, h2⟩
theorem entCmp_eq_iff (a b : Ent) : entCmp a b = .eq ↔ a.key = b.key ∧ a.ver = b.ver :=
  kvCmp_eq_iff _ _ _ _

theorem elt_trans {a b c : Ent} (h1 : elt a b) (h2 : elt b c) : elt a c := kvlt_trans h1 h2
theorem elt_irrefl (a : Ent) : ¬ elt a a := kvlt_irrefl _ _
theorem elt_asymm {a b : Ent} (h : elt a b) : ¬ elt b a := fun h' => elt_irrefl a (elt_trans h h')

/-! ## `pick`: left-biased maximum by version; `newestLE` is a `pick`-fold -/

/-- the better of two candidates: larger version, the left one on ties -/
def pick : Option Ent → Option Ent → Option Ent
  | none, y => y
  | some a, none => some a
  | some a, some b => if a.ver < b.ver then some b else some a

@[simp] theorem pick_none_left (y : Option Ent) : pick none y = y := rfl
@[simp] theorem pick_none_right (x : Option Ent) : pick x none = x := by cases x <;> rfl

theorem pick_assoc (x y z : Option Ent) : pick (pick x y) z = pick x (pick y z) := by
  cases x with
  | none => rfl
  | some a =>
    cases y with
    | none => rfl
    | some b =>
      cases z with
      | none => rw [pick_none_right, pick_none_right]
      | some c =>
        simp only [pick]
        by_cases h1 : a.ver < b.ver <;> by_cases h2 : b.ver < c.ver <;> simp [h1, h2]
        · intro h; omega
        · omega

/-- the candidate an entry contributes to a read of `k` at `ts` -/
def cand (k : Bytes) (ts : Nat) (e : Ent) : Option Ent := if e.key = k ∧ e.ver ≤ ts then some e else none

theorem newestLE_eq_foldl (es : List Ent) (k : Bytes) (ts : Nat) :
    newestLE es k ts = es.foldl (fun b e => pick b (cand k ts e)) none := by
  unfold newestLE
  congr 1
  funext b e
  unfold cand
  split
  · cases b <;> simp [betterOf, pick]
  · simp

theorem foldl_pick_init (k : Bytes) (ts : Nat) (es : List Ent) (init : Option Ent) :
    es.foldl (fun b e => pick b (cand k ts e)) init =
      pick init (es.foldl (fun b e => pick b (cand k ts e)) none) := by
  induction es generalizing init with
  | nil => simp
  | cons x xs ih =>
    simp only [List.foldl_cons, pick_none_left]
    rw [ih (pick init (cand k ts x)), ih (cand k ts x), pick_assoc]

@[simp] theorem newestLE_nil (k : Bytes) (ts : Nat) : newestLE [] k ts = none := rfl

theorem newestLE_cons (x : Ent) (xs : List Ent) (k : Bytes) (ts : Nat) :
    newestLE (x :: xs) k ts = pick (cand k ts x) (newestLE xs k ts) := by
  simp only [newestLE_eq_foldl, List.foldl_cons, pick_none_left]
  rw [foldl_pick_init]

theorem newestLE_append (a b : List Ent) (k : Bytes) (ts : Nat) :
    newestLE (a ++ b) k ts = pick (newestLE a k ts) (newestLE b k ts) := by
  induction a with
  | nil => simp
  | cons x xs ih => simp only [List.cons_append, newestLE_cons, ih, pick_assoc]

theorem newestLE_flatten_foldl (ls : List (List Ent)) (k : Bytes) (ts : Nat) (init : Option Ent) :
    ls.foldl (fun b l => pick b (newestLE l k ts)) init = pick init (newestLE ls.flatten k ts) := by
  induction ls generalizing init with
  | nil => simp
  | cons l ls ih => simp only [List.foldl_cons, List.flatten_cons, newestLE_append, ih, pick_assoc]

theorem pick_eq_none {x y : Option Ent} : pick x y = none ↔ x = none ∧ y = none := by
  cases x <;> cases y <;> simp [pick]
  split <;> simp

theorem pick_some {x y : Option Ent} {e : Ent} (h : pick x y = some e) :
    (x = some e ∧ ∀ b, y = some b → b.ver ≤ e.ver) ∨ (y = some e ∧ ∀ a, x = some a → a.ver < e.ver) := by
  cases x with
  | none => simp at h; exact .inr ⟨h, by simp⟩
  | some a =>
    cases y with
    | none => simp at h; exact .inl ⟨by simp [h], by simp⟩
    | some b =>
      simp only [pick] at h
      split at h
      · simp at h; subst h; right; simpa
      · simp at h; subst h; left; simp; omega

theorem cand_some {k : Bytes} {ts : Nat} {x e : Ent} (h : cand k ts x = some e) :
    e = x ∧ x.key = k ∧ x.ver ≤ ts := by
  unfold cand at h
  split at h
  · simp at h; rename_i hc; exact ⟨h.symm, hc⟩
  · simp at h

theorem newestLE_eq_none {es : List Ent} {k : Bytes} {ts : Nat} :
    newestLE es k ts = none ↔ ∀ x ∈ es, ¬ (x.key = k ∧ x.ver ≤ ts) := by
  induction es with
  | nil => simp
  | cons x xs ih =>
    rw [newestLE_cons, pick_eq_none, ih]
    unfold cand
    by_cases hx : x.key = k ∧ x.ver ≤ ts
    · rw [if_pos hx]; simp
      intro h; have := h hx.1; omega
    · rw [if_neg hx]; simp
      intro _ hk; exact Nat.lt_of_not_le (fun h => hx ⟨hk, h⟩)

/-- the result of `newestLE`, when present, is a maximal admissible member -/
theorem newestLE_some {es : List Ent} {k : Bytes} {ts : Nat} {e : Ent} (h : newestLE es k ts = some e) :
    e ∈ es ∧ e.key = k ∧ e.ver ≤ ts ∧ ∀ x ∈ es, x.key = k → x.ver ≤ ts → x.ver ≤ e.ver := by
  induction es generalizing e with
  | nil => simp at h
  | cons x xs ih =>
    rw [newestLE_cons] at h
    rcases pick_some h with ⟨h1, h2⟩ | ⟨h1, h2⟩
    · obtain ⟨rfl, hk, hv⟩ := cand_some h1
      refine ⟨by simp, hk, hv, ?_⟩
      intro y hy hyk hyv
      rcases List.mem_cons.mp hy with rfl | hy
      · exact Nat.le_refl _
      · cases hr : newestLE xs k ts with
        | none => exact absurd ⟨hyk, hyv⟩ (newestLE_eq_none.mp hr y hy)
        | some r =>
          have := (ih hr).2.2.2 y hy hyk hyv
          have := h2 r hr
          omega
    · obtain ⟨m1, m2, m3, m4⟩ := ih h1
      refine ⟨List.mem_cons_of_mem _ m1, m2, m3, ?_⟩
      intro y hy hyk hyv
      rcases List.mem_cons.mp hy with rfl | hy
      · have : cand k ts y = some y := by simp [cand, hyk, hyv]
        have := h2 y this
        omega
      · exact m4 y hy hyk hyv

/-! ## sorted sources -/

theorem sorted_iff (es : List Ent) : SortedEnts es ↔ es.Pairwise elt := by
  unfold SortedEnts
  constructor <;> intro h <;> exact h.imp (fun h => by first | exact (entCmp_lt_iff _ _).mp h | exact (entCmp_lt_iff _ _).mpr h)

theorem sorted_cons {x : Ent} {xs : List Ent} :
    SortedEnts (x :: xs) ↔ (∀ y ∈ xs, elt x y) ∧ SortedEnts xs := by
  simp only [sorted_iff, List.pairwise_cons]

theorem sorted_append {a b : List Ent} :
    SortedEnts (a ++ b) ↔ SortedEnts a ∧ SortedEnts b ∧ ∀ x ∈ a, ∀ y ∈ b, elt x y := by
  simp only [sorted_iff, List.pairwise_append]

theorem sorted_nil : SortedEnts [] := List.Pairwise.nil

/-- in a sorted source an internal key occurs once -/
theorem sorted_unique {es : List Ent} (hs : SortedEnts es) {x y : Ent} (hx : x ∈ es) (hy : y ∈ es)
    (hk : x.key = y.key) (hv : x.ver = y.ver) : x = y := by
  induction es with
  | nil => simp at hx
  | cons z zs ih =>
    obtain ⟨h1, h2⟩ := sorted_cons.mp hs
    rcases List.mem_cons.mp hx with hxz | hxz <;> rcases List.mem_cons.mp hy with hyz | hyz
    · rw [hxz, hyz]
    · exfalso; have := h1 y hyz; rw [← hxz] at this; unfold elt at this; rw [hk, hv] at this; exact kvlt_irrefl _ _ this
    · exfalso; have := h1 x hxz; rw [← hyz] at this; unfold elt at this; rw [hk, hv] at this; exact kvlt_irrefl _ _ this
    · exact ih h2 hxz hyz

theorem seekGE_append_lt {k : Bytes} {ts : Nat} {a b : List Ent}
    (h : ∀ x ∈ a, kvlt x.key x.ver k ts) : seekGE k ts (a ++ b) = seekGE k ts b := by
  induction a with
  | nil => rfl
  | cons x xs ih =>
    have hx : kvCmp x.key x.ver k ts = .lt := (kvCmp_lt_iff _ _ _ _).mpr (h x (by simp))
    simp only [List.cons_append, seekGE, hx, beq_self_eq_true, if_true]
    exact ih (fun y hy => h y (List.mem_cons_of_mem _ hy))

theorem seekGE_append_ge {k : Bytes} {ts : Nat} {a b : List Ent}
    (h : ∃ x ∈ a, ¬ kvlt x.key x.ver k ts) : seekGE k ts (a ++ b) = seekGE k ts a := by
  induction a with
  | nil => simp at h
  | cons x xs ih =>
    by_cases hx : kvlt x.key x.ver k ts
    · have hx' : kvCmp x.key x.ver k ts = .lt := (kvCmp_lt_iff _ _ _ _).mpr hx
      simp only [List.cons_append, seekGE, hx', beq_self_eq_true, if_true]
      apply ih
      obtain ⟨y, hy, hny⟩ := h
      rcases List.mem_cons.mp hy with rfl | hy
      · exact absurd hx hny
      · exact ⟨y, hy, hny⟩
    · have hx' : ¬ kvCmp x.key x.ver k ts = .lt := fun h => hx ((kvCmp_lt_iff _ _ _ _).mp h)
      simp [seekGE, hx']

/-- Seek + SameKey on a sorted source is the newest version `≤ ts`. -/
theorem srcGet_eq_newestLE {es : List Ent} (hs : SortedEnts es) (k : Bytes) (ts : Nat) :
    srcGet es k ts = newestLE es k ts := by
  induction es with
  | nil => rfl
  | cons x xs ih =>
    obtain ⟨h1, h2⟩ := sorted_cons.mp hs
    rw [newestLE_cons]
    by_cases hx : kvlt x.key x.ver k ts
    · have hx' : kvCmp x.key x.ver k ts = .lt := (kvCmp_lt_iff _ _ _ _).mpr hx
      have hc : cand k ts x = none := by
        unfold cand; rw [if_neg]
        rintro ⟨hk, hv⟩
        rcases hx with hx | ⟨_, hx⟩
        · exact klt_irrefl _ (hk ▸ hx)
        · omega
      rw [hc, pick_none_left, ← ih h2]
      simp [srcGet, seekGE, hx']
    · have hx' : ¬ kvCmp x.key x.ver k ts = .lt := fun h => hx ((kvCmp_lt_iff _ _ _ _).mp h)
      have hsrc : srcGet (x :: xs) k ts = if x.key == k then some x else none := by
        simp [srcGet, seekGE, hx']
      rw [hsrc]
      by_cases hk : x.key = k
      · have hv : x.ver ≤ ts := by
          apply Nat.le_of_not_lt; intro hlt; exact hx (.inr ⟨hk, hlt⟩)
        have hc : cand k ts x = some x := by simp [cand, hk, hv]
        rw [hc]; simp [hk]
        cases hr : newestLE xs k ts with
        | none => simp
        | some r =>
          obtain ⟨m1, m2, _, _⟩ := newestLE_some hr
          have := h1 r m1
          rcases this with h | ⟨_, h⟩
          · exact absurd h (by rw [hk, m2]; exact klt_irrefl _)
          · simp [pick]; omega
      · have hkx : klt k x.key := by
          rcases kvlt_tri x.key x.ver k ts with h | ⟨h, _⟩ | h
          · exact absurd h hx
          · exact absurd h hk
          · rcases h with h | ⟨h, _⟩
            · exact h
            · exact absurd h.symm hk
        have hc : cand k ts x = none := by simp [cand, hk]
        have hn : newestLE xs k ts = none := by
          apply newestLE_eq_none.mpr
          rintro y hy ⟨hyk, _⟩
          rcases h1 y hy with h | ⟨h, _⟩
          · exact klt_irrefl _ (klt_trans hkx (hyk ▸ h))
          · exact klt_irrefl _ (hyk ▸ h ▸ hkx)
        rw [hc, hn]; simp [hk]

theorem mem_zip_range' {α : Type} (l : List α) (n i : Nat) (t : α) :
    (i, t) ∈ (List.range' n l.length).zip l ↔ n ≤ i ∧ l[i - n]? = some t := by
  induction l generalizing n with
  | nil => simp
  | cons x xs ih =>
    simp only [List.length_cons, List.range'_succ, List.zip_cons_cons, List.mem_cons, Prod.mk.injEq, ih]
    constructor
    · rintro (⟨rfl, rfl⟩ | ⟨h1, h2⟩)
      · simp
      · refine ⟨by omega, ?_⟩
        have : i - n = (i - (n + 1)) + 1 := by omega
        rw [this]; simpa using h2
    · rintro ⟨h1, h2⟩
      by_cases hi : i = n
      · subst hi; simp at h2; exact .inl ⟨rfl, h2.symm⟩
      · right
        refine ⟨by omega, ?_⟩
        have : i - n = (i - (n + 1)) + 1 := by omega
        rw [this] at h2; simpa using h2

theorem mem_zipIdx {α : Type} (l : List α) (i : Nat) (t : α) : (i, t) ∈ zipIdx l ↔ l[i]? = some t := by
  unfold zipIdx
  rw [List.range_eq_range', mem_zip_range']
  simp

end LL

/-! ## The structural invariant -/

/-- a table is non-empty and strictly sorted by internal key -/
def TblOk (t : Tbl) : Prop := t.ents ≠ [] ∧ SortedEnts t.ents

/-- tables ordered and disjoint by USER key: every user key of an earlier table is strictly
    below every user key of a later table (property C14). -/
def KeyDisjoint (tbls : List Tbl) : Prop :=
  tbls.Pairwise (fun a b => ∀ x ∈ a.ents, ∀ y ∈ b.ents, cmpBytes x.key y.key = .lt)

def LevelOk (i : Nat) (tbls : List Tbl) : Prop :=
  (∀ t ∈ tbls, TblOk t) ∧ (1 ≤ i → KeyDisjoint tbls)

/-- versions are commit timestamps `≥ 1` -/
def PosVer (s : Lsm) : Prop := ∀ e ∈ s.allEntries, 0 < e.ver

def LsmInv (s : Lsm) : Prop :=
  SortedEnts s.mem ∧ (∀ m ∈ s.imm, SortedEnts m) ∧
  (∀ p ∈ zipIdx s.levels, LevelOk p.1 p.2) ∧ PosVer s

/-- the weaker shape that `get` needs: the concatenation of a level `≥ 1` is sorted by internal key
    (a user key may straddle a table boundary). -/
def LevelOkW (i : Nat) (tbls : List Tbl) : Prop :=
  (∀ t ∈ tbls, SortedEnts t.ents) ∧ (1 ≤ i → SortedEnts (tbls.map (·.ents)).flatten)

def LsmInvW (s : Lsm) : Prop :=
  SortedEnts s.mem ∧ (∀ m ∈ s.imm, SortedEnts m) ∧
  (∀ p ∈ zipIdx s.levels, LevelOkW p.1 p.2) ∧ PosVer s

instance (s : Lsm) : Decidable (PosVer s) := by unfold PosVer; infer_instance
instance (t : Tbl) : Decidable (TblOk t) := by unfold TblOk SortedEnts; infer_instance
instance (l : List Tbl) : Decidable (KeyDisjoint l) := by unfold KeyDisjoint; infer_instance
instance (i : Nat) (l : List Tbl) : Decidable (LevelOk i l) := by unfold LevelOk; infer_instance
instance (s : Lsm) : Decidable (LsmInv s) := by unfold LsmInv SortedEnts; infer_instance

theorem LsmInv.level {s : Lsm} (h : LsmInv s) {i : Nat} {tbls : List Tbl} (hi : s.levels[i]? = some tbls) :
    LevelOk i tbls := h.2.2.1 (i, tbls) ((LL.mem_zipIdx _ _ _).mpr hi)

theorem LsmInvW.level {s : Lsm} (h : LsmInvW s) {i : Nat} {tbls : List Tbl} (hi : s.levels[i]? = some tbls) :
    LevelOkW i tbls := h.2.2.1 (i, tbls) ((LL.mem_zipIdx _ _ _).mpr hi)

namespace LL

theorem flatten_sorted_of_keyDisjoint {tbls : List Tbl} (h1 : ∀ t ∈ tbls, SortedEnts t.ents)
    (h2 : KeyDisjoint tbls) : SortedEnts (tbls.map (·.ents)).flatten := by
  induction tbls with
  | nil => exact sorted_nil
  | cons t rest ih =>
    obtain ⟨hd, hr⟩ := List.pairwise_cons.mp h2
    simp only [List.map_cons, List.flatten_cons]
    refine sorted_append.mpr ⟨h1 t (by simp), ih (fun t ht => h1 t (List.mem_cons_of_mem _ ht)) hr, ?_⟩
    intro x hx y hy
    obtain ⟨l, hl, hyl⟩ := List.mem_flatten.mp hy
    obtain ⟨t', ht', rfl⟩ := List.mem_map.mp hl
    exact .inl (hd t' ht' x hx y hyl)

theorem levelOk_weaken {i : Nat} {tbls : List Tbl} (h : LevelOk i tbls) : LevelOkW i tbls :=
  ⟨fun t ht => (h.1 t ht).2, fun hi => flatten_sorted_of_keyDisjoint (fun t ht => (h.1 t ht).2) (h.2 hi)⟩

theorem lsmInv_weaken {s : Lsm} (h : LsmInv s) : LsmInvW s :=
  ⟨h.1, h.2.1, fun p hp => levelOk_weaken (h.2.2.1 p hp), h.2.2.2⟩

/-! ## level reads -/

theorem sorted_getLast {l : List Ent} (hs : SortedEnts l) {b : Ent} (hb : l.getLast? = some b) :
    ∀ x ∈ l, x = b ∨ elt x b := by
  obtain ⟨ys, hl⟩ := List.getLast?_eq_some_iff.mp hb
  intro x hx
  rw [hl] at hs hx
  obtain ⟨_, _, h3⟩ := sorted_append.mp hs
  rcases List.mem_append.mp hx with h | h
  · exact .inr (h3 x h b (by simp))
  · simp at h; exact .inl h

/-- the table `levelHandler.get` searches on a level `≥ 1` -/
def liFind (tables : List Tbl) (k : Bytes) (ts : Nat) : Option Tbl :=
  tables.find? (fun t => match t.biggest with
      | some b => kvCmp b.key b.ver k ts != .lt
      | none => false)

theorem seekGE_flatten {tbls : List Tbl} (hs : SortedEnts (tbls.map (·.ents)).flatten) (k : Bytes) (ts : Nat) :
    seekGE k ts (tbls.map (·.ents)).flatten =
      match liFind tbls k ts with
      | some t => seekGE k ts t.ents
      | none => none := by
  induction tbls with
  | nil => rfl
  | cons t rest ih =>
    simp only [List.map_cons, List.flatten_cons] at hs ⊢
    obtain ⟨h1, h2, h3⟩ := sorted_append.mp hs
    unfold liFind
    rw [List.find?_cons]
    cases hb : t.biggest with
    | none =>
      simp only
      have : t.ents = [] := by
        unfold Tbl.biggest at hb; simpa using hb
      rw [this]; simp only [List.nil_append]
      exact ih h2
    | some b =>
      simp only
      have hbm : b ∈ t.ents := List.mem_of_getLast? hb
      by_cases hc : kvlt b.key b.ver k ts
      · have hc' : kvCmp b.key b.ver k ts = .lt := (kvCmp_lt_iff _ _ _ _).mpr hc
        simp only [hc', bne_self_eq_false]
        rw [seekGE_append_lt]
        · exact ih h2
        · intro x hx
          rcases sorted_getLast h1 hb x hx with rfl | h
          · exact hc
          · exact kvlt_trans h hc
      · have hc' : (kvCmp b.key b.ver k ts != .lt) = true := by
          simp; intro h; exact hc ((kvCmp_lt_iff _ _ _ _).mp h)
        simp only [hc']
        exact seekGE_append_ge ⟨b, hbm, hc⟩

theorem liGet_eq {tbls : List Tbl} (hs : SortedEnts (tbls.map (·.ents)).flatten)
    (hp : ∀ e ∈ (tbls.map (·.ents)).flatten, 0 < e.ver) (k : Bytes) (ts : Nat) :
    liGet tbls k ts = newestLE (tbls.map (·.ents)).flatten k ts := by
  rw [← srcGet_eq_newestLE hs]
  have hseek := seekGE_flatten hs k ts
  have hpos : ∀ e, srcGet (tbls.map (·.ents)).flatten k ts = some e → 0 < e.ver := by
    intro e he
    rw [srcGet_eq_newestLE hs] at he
    exact hp e (newestLE_some he).1
  unfold liGet
  change (match liFind tbls k ts with | some t => _ | none => _) = _
  revert hpos
  unfold srcGet
  rw [hseek]
  cases liFind tbls k ts with
  | none => simp
  | some t =>
    simp only
    cases seekGE k ts t.ents with
    | none => simp
    | some e =>
      simp only
      by_cases hk : (e.key == k) = true
      · simp only [hk, if_true]
        intro hpos
        simp [hpos e rfl]
      · simp [hk]

theorem foldl_congr_mem {α β : Type} {f g : β → α → β} {l : List α} (h : ∀ b, ∀ x ∈ l, f b x = g b x)
    (init : β) : l.foldl f init = l.foldl g init := by
  induction l generalizing init with
  | nil => rfl
  | cons x xs ih =>
    simp only [List.foldl_cons]
    rw [h init x (by simp)]
    exact ih (fun b y hy => h b y (List.mem_cons_of_mem _ hy)) _

theorem l0Get_eq {tbls : List Tbl} (hs : ∀ t ∈ tbls, SortedEnts t.ents)
    (hp : ∀ e ∈ (tbls.reverse.map (·.ents)).flatten, 0 < e.ver) (k : Bytes) (ts : Nat) :
    l0Get tbls k ts = newestLE (tbls.reverse.map (·.ents)).flatten k ts := by
  unfold l0Get
  rw [foldl_congr_mem (g := fun b t => pick b (newestLE t.ents k ts))]
  · have := newestLE_flatten_foldl (tbls.reverse.map (·.ents)) k ts none
    rw [List.foldl_map] at this
    simpa using this
  · intro best t ht
    have hts : SortedEnts t.ents := hs t (List.mem_reverse.mp ht)
    rw [srcGet_eq_newestLE hts]
    cases hr : newestLE t.ents k ts with
    | none => simp
    | some e =>
      have hpos : 0 < e.ver := by
        apply hp
        exact List.mem_flatten.mpr ⟨t.ents, List.mem_map.mpr ⟨t, ht, rfl⟩, (newestLE_some hr).1⟩
      cases best with
      | none => simp [hpos]
      | some b => simp only [pick]

/-! ## the running maximum of `DB.get` -/

/-- every candidate handed to `accStep` is a positive version `≤ ts` -/
def ResOk (ts : Nat) (r : Option Ent) : Prop := ∀ e, r = some e → 0 < e.ver ∧ e.ver ≤ ts

def AccOk (ts : Nat) (a : GetAcc) : Prop :=
  (∀ e, a.best = some e → 0 < e.ver ∧ e.ver ≤ ts) ∧
  (a.done = true → ∃ e, a.best = some e ∧ e.ver = ts) ∧
  (a.done = false → ∀ e, a.best = some e → e.ver < ts)

theorem accStep_ok {ts : Nat} {a : GetAcc} {r : Option Ent} (ha : AccOk ts a) (hr : ResOk ts r) :
    AccOk ts (accStep ts a r) ∧ (accStep ts a r).best = pick a.best r := by
  unfold accStep
  by_cases hd : a.done = true
  · rw [if_pos hd]
    refine ⟨ha, ?_⟩
    obtain ⟨e, he, hv⟩ := ha.2.1 hd
    cases r with
    | none => simp
    | some x =>
      have := (hr x rfl).2
      rw [he]; simp only [pick]; rw [if_neg (by omega)]
  · have hd' : a.done = false := by simpa using hd
    rw [if_neg hd]
    cases r with
    | none => exact ⟨ha, by simp⟩
    | some x =>
      simp only
      obtain ⟨hx0, hxts⟩ := hr x rfl
      by_cases hx : x.ver = ts
      · have : (x.ver == ts) = true := by simpa using hx
        rw [if_pos this]
        refine ⟨⟨?_, ?_, ?_⟩, ?_⟩
        · intro e he; simp at he; subst he; exact ⟨hx0, hxts⟩
        · intro _; exact ⟨x, rfl, hx⟩
        · intro h; simp at h
        · simp only
          cases hb : a.best with
          | none => rfl
          | some b =>
            have := ha.2.2 hd' b hb
            simp only [pick]; rw [if_pos (by omega)]
      · have : ¬ (x.ver == ts) = true := by simpa using hx
        rw [if_neg this]
        cases hb : a.best with
        | none =>
          have hav : a.ver = 0 := by simp [GetAcc.ver, hb]
          rw [hav, if_pos hx0]
          refine ⟨⟨?_, ?_, ?_⟩, ?_⟩
          · intro e he; simp at he; subst he; exact ⟨hx0, hxts⟩
          · intro h; simp [hd'] at h
          · intro _ e he; simp at he; subst he; omega
          · rfl
        | some b =>
          have hav : a.ver = b.ver := by simp [GetAcc.ver, hb]
          rw [hav]
          by_cases hlt : b.ver < x.ver
          · rw [if_pos hlt]
            refine ⟨⟨?_, ?_, ?_⟩, ?_⟩
            · intro e he; simp at he; subst he; exact ⟨hx0, hxts⟩
            · intro h; simp [hd'] at h
            · intro _ e he; simp at he; subst he; omega
            · simp [pick, hlt]
          · rw [if_neg hlt]
            refine ⟨ha, ?_⟩
            rw [hb]; simp [pick, hlt]

theorem foldl_accStep {ts : Nat} (rs : List (Option Ent)) (hrs : ∀ r ∈ rs, ResOk ts r) (a : GetAcc)
    (ha : AccOk ts a) : (rs.foldl (accStep ts) a).best = rs.foldl pick a.best := by
  induction rs generalizing a with
  | nil => rfl
  | cons r rs ih =>
    simp only [List.foldl_cons]
    obtain ⟨h1, h2⟩ := accStep_ok ha (hrs r (by simp))
    rw [ih (fun r hr => hrs r (List.mem_cons_of_mem _ hr)) _ h1, h2]

theorem accOk_init (ts : Nat) : AccOk ts {} := by
  refine ⟨?_, ?_, ?_⟩ <;> simp

theorem lvlRes_range' (rest : List (List Tbl)) (n : Nat) (hn : 1 ≤ n) (k : Bytes) (ts : Nat) :
    ((List.range' n rest.length).zip rest).map (fun (p : Nat × List Tbl) => levelGet p.1 p.2 k ts) =
      rest.map (fun tbls => liGet tbls k ts) := by
  induction rest generalizing n with
  | nil => rfl
  | cons l ls ih =>
    simp only [List.length_cons, List.range'_succ, List.zip_cons_cons, List.map_cons]
    rw [ih (n + 1) (by omega)]
    congr 1
    unfold levelGet
    have : (n == 0) = false := by simp; omega
    simp [this]

theorem lvlRes_cons (l0 : List Tbl) (rest : List (List Tbl)) (k : Bytes) (ts : Nat) :
    (zipIdx (l0 :: rest)).map (fun (p : Nat × List Tbl) => levelGet p.1 p.2 k ts) =
      l0Get l0 k ts :: rest.map (fun tbls => liGet tbls k ts) := by
  unfold zipIdx
  rw [List.range_eq_range']
  simp only [List.length_cons, List.range'_succ, List.zip_cons_cons, List.map_cons]
  rw [lvlRes_range' rest (0 + 1) (by omega)]
  rfl

/-- the sources of a state, each level as one chunk (level 0: newest table first) -/
def chunks (s : Lsm) : List (List Ent) :=
  (s.mem :: s.imm.reverse) ++
  (match s.levels with
   | [] => []
   | l0 :: rest => (l0.reverse.map (·.ents)).flatten :: rest.map (fun tbls => (tbls.map (·.ents)).flatten))

theorem chunks_flatten (s : Lsm) : (chunks s).flatten = s.allEntries := by
  unfold chunks Lsm.allEntries Lsm.sources
  cases s.levels with
  | nil => rfl
  | cons l0 rest => simp

theorem mem_allEntries_of_chunk {s : Lsm} {c : List Ent} (hc : c ∈ chunks s) {e : Ent} (he : e ∈ c) :
    e ∈ s.allEntries := by
  rw [← chunks_flatten]; exact List.mem_flatten.mpr ⟨c, hc, he⟩

theorem get_results {s : Lsm} (h : LsmInvW s) (k : Bytes) (ts : Nat) :
    (s.mem :: s.imm.reverse).map (fun m => srcGet m k ts) ++
      (zipIdx s.levels).map (fun (p : Nat × List Tbl) => levelGet p.1 p.2 k ts) =
    (chunks s).map (fun c => newestLE c k ts) := by
  have hl : ∀ i tbls, s.levels[i]? = some tbls → LevelOkW i tbls := fun i tbls hi => h.level hi
  obtain ⟨hm, hi, _, hp⟩ := h
  unfold chunks
  rw [List.map_append]
  congr 1
  · simp only [List.map_cons]
    rw [srcGet_eq_newestLE hm]
    congr 1
    apply List.map_congr_left
    intro m hmm
    exact srcGet_eq_newestLE (hi m (List.mem_reverse.mp hmm)) k ts
  · cases hlv : s.levels with
    | nil => rfl
    | cons l0 rest =>
      have hc : ∀ c ∈ chunks s, ∀ e ∈ c, 0 < e.ver := fun c hc e he => hp e (mem_allEntries_of_chunk hc he)
      rw [lvlRes_cons]
      simp only [List.map_cons, List.map_map]
      have h0 := hl 0 l0 (by rw [hlv]; rfl)
      rw [l0Get_eq h0.1]
      · congr 1
        apply List.map_congr_left
        intro tbls ht
        obtain ⟨j, hj, rfl⟩ := List.getElem_of_mem ht
        have hlj := hl (j + 1) rest[j] (by rw [hlv]; simp)
        simp only [Function.comp]
        apply liGet_eq (hlj.2 (by omega))
        apply hc
        unfold chunks; rw [hlv]; simp
        right; right; right; exact ⟨rest[j], List.getElem_mem hj, rfl⟩
      · apply hc
        unfold chunks; rw [hlv]; simp

theorem get_eq_newestLE {s : Lsm} (h : LsmInvW s) (k : Bytes) (ts : Nat) :
    s.get k ts = newestLE s.allEntries k ts := by
  have hres := get_results h k ts
  unfold Lsm.get
  simp only
  rw [show (List.map (fun x => match x with | (i, tbls) => levelGet i tbls k ts) (zipIdx s.levels)) =
      (zipIdx s.levels).map (fun (p : Nat × List Tbl) => levelGet p.1 p.2 k ts) from rfl]
  rw [hres, foldl_accStep _ _ _ (accOk_init ts)]
  · rw [List.foldl_map]
    have := newestLE_flatten_foldl (chunks s) k ts none
    simp only [pick_none_left] at this
    rw [← chunks_flatten]
    exact this
  · intro r hr e he
    obtain ⟨c, hc, rfl⟩ := List.mem_map.mp hr
    obtain ⟨m1, _, m3, _⟩ := newestLE_some he
    exact ⟨h.2.2.2 e (mem_allEntries_of_chunk hc m1), m3⟩

end LL

/-! ## recency, flush -/

/-- recency: along the read-precedence order of the sources, a source searched earlier holds, for
    every user key, only versions `≥` those of any source searched later -/
def Layered (s : Lsm) : Prop :=
  s.sources.Pairwise (fun A B => ∀ a ∈ A, ∀ b ∈ B, a.key = b.key → b.ver ≤ a.ver)

instance (s : Lsm) : Decidable (Layered s) := by unfold Layered; infer_instance

/-- the memtable shares no internal key with an immutable memtable (trivially true when there is
    no immutable memtable, the only situation the model's `flush` is used in) -/
def FlushOk (s : Lsm) : Prop := ∀ e ∈ s.mem, ∀ m ∈ s.imm, ∀ e' ∈ m, e.key = e'.key → e.ver ≠ e'.ver

namespace LL

theorem flush_eq_self_or (s : Lsm) (id : Nat) :
    s.flush id = s ∨ ∃ l0 rest, s.levels = l0 :: rest ∧ s.mem ≠ [] ∧
      s.flush id = { s with mem := [], levels := (l0 ++ [{ ents := s.mem, id := id }]) :: rest } := by
  unfold Lsm.flush
  by_cases hm : s.mem.isEmpty = true
  · simp [hm]
  · cases hl : s.levels with
    | nil => simp
    | cons l0 rest =>
      right
      refine ⟨l0, rest, rfl, ?_, ?_⟩
      · intro h; simp [h] at hm
      · simp [hm]

theorem allEntries_flush {s : Lsm} {l0 : List Tbl} {rest : List (List Tbl)} (id : Nat) :
    ({ s with mem := [], levels := (l0 ++ [{ ents := s.mem, id := id }]) :: rest } : Lsm).allEntries =
      s.imm.reverse.flatten ++ (s.mem ++ ((l0.reverse.map (·.ents)).flatten ++
        (rest.map (fun tbls => (tbls.map (·.ents)).flatten)).flatten)) := by
  simp [Lsm.allEntries, Lsm.sources]

theorem allEntries_cons {s : Lsm} {l0 : List Tbl} {rest : List (List Tbl)} (hl : s.levels = l0 :: rest) :
    s.allEntries = s.mem ++ (s.imm.reverse.flatten ++ ((l0.reverse.map (·.ents)).flatten ++
        (rest.map (fun tbls => (tbls.map (·.ents)).flatten)).flatten)) := by
  simp [Lsm.allEntries, Lsm.sources, hl]

theorem mem_allEntries_flush (s : Lsm) (id : Nat) (e : Ent) : e ∈ (s.flush id).allEntries ↔ e ∈ s.allEntries := by
  rcases flush_eq_self_or s id with h | ⟨l0, rest, hl, _, h⟩
  · rw [h]
  · rw [h, allEntries_flush, allEntries_cons hl]
    simp only [List.mem_append]
    constructor
    · rintro (h | h | h | h)
      · exact .inr (.inl h)
      · exact .inl h
      · exact .inr (.inr (.inl h))
      · exact .inr (.inr (.inr h))
    · rintro (h | h | h | h)
      · exact .inr (.inl h)
      · exact .inl h
      · exact .inr (.inr (.inl h))
      · exact .inr (.inr (.inr h))

theorem pick_comm_of_ne {a b : Option Ent} (h : ∀ x y, a = some x → b = some y → x.ver ≠ y.ver) :
    pick a b = pick b a := by
  cases a with
  | none => simp
  | some x =>
    cases b with
    | none => simp
    | some y =>
      have := h x y rfl rfl
      simp only [pick]
      by_cases h1 : x.ver < y.ver
      · rw [if_pos h1, if_neg (by omega)]
      · rw [if_neg h1, if_pos (by omega)]

end LL

end Badger
