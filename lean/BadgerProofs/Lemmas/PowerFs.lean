import BadgerProofs.Lemmas.CrashFs
/-!
# The power-loss view of the file system

For every name four candidates for "what a power loss leaves in the file called `p`":
bound as in the directory (`f…`) or as in the durable directory (`d…`), with the page-cache
(`…v`) or the durable (`…d`) content of that inode; `lk` says that both directories bind the
name to the same inode. Without `rename` (the protocol renames during the very first `Open`
only) and under `Fs.WF2` every `FsOp` acts on this view pointwise (`qstep`).
-/
namespace Badger

@[ext] structure PV where
  fv : Option Inode := none
  fd : Option Inode := none
  dv : Option Inode := none
  dd : Option Inode := none
  lk : Bool := true

abbrev QFs := Path → PV

def PV.setV (v : PV) (f : Option Inode) : PV := { v with fv := f, dv := if v.lk then f else v.dv }
def PV.setD (v : PV) (f : Option Inode) : PV := { v with fd := f, dd := if v.lk then f else v.dd }

def cOf (d : List (Nat × Inode)) (i : Nat) : Inode := (aget i d).getD {}

def Fs.quad (s : Fs) : QFs := fun p =>
  { fv := (aget p s.dir).map (cOf s.data), fd := (aget p s.dir).map (cOf s.ddata),
    dv := (aget p s.ddir).map (cOf s.data), dd := (aget p s.ddir).map (cOf s.ddata),
    lk := decide (aget p s.dir = aget p s.ddir) }

def fvOf (Q : QFs) : KFs := fun p => (Q p).fv

theorem Fs.quad_fv (s : Fs) : fvOf s.quad = s.file := by
  funext p; simp only [fvOf, Fs.quad, Fs.file_def]; rfl

def qstep (Q : QFs) : FsOp → QFs
  | .create p => fun q => if q = p then { Q p with fv := some {}, fd := some {}, lk := false } else Q q
  | .extend p => fun q => if q = p then
      (match (Q p).fv with
       | some f => ((Q p).setV (some { f with size := .alloc })).setD (some { chunks := [], size := .alloc })
       | none => Q p) else Q q
  | .append p c => fun q => if q = p then (Q p).setV ((Q p).fv.map (appendChunk c)) else Q q
  | .zero _ => Q
  | .truncate p n => fun q => if q = p then (Q p).setV ((Q p).fv.map (truncChunks n)) else Q q
  | .sync p => fun q => if q = p then (Q p).setD (Q p).fv else Q q
  | .rename a b => fun q =>
    match (Q a).fv with
    | some f => if q = b then { Q q with fv := some f } else if q = a then { Q q with fv := none } else Q q
    | none => Q q
  | .unlink p => fun q => if q = p then { Q p with fv := none, fd := none, lk := (Q p).dv.isNone } else Q q
  | .syncDir => fun q => { Q q with dv := (Q q).fv, dd := (Q q).fd, lk := true }

def qrun (Q : QFs) (ops : List FsOp) : QFs := ops.foldl qstep Q

@[simp] theorem qrun_nil (Q : QFs) : qrun Q [] = Q := rfl
@[simp] theorem qrun_cons (Q : QFs) (op : FsOp) (ops : List FsOp) :
    qrun Q (op :: ops) = qrun (qstep Q op) ops := rfl

theorem fvOf_qstep (Q : QFs) (op : FsOp) : fvOf (qstep Q op) = kstep (fvOf Q) op := by
  funext q
  cases op with
  | create p => simp only [fvOf, qstep, kstep]; by_cases h : q = p <;> simp [h]
  | extend p =>
    simp only [fvOf, qstep, kstep]
    by_cases h : q = p
    · subst h
      cases hf : (Q q).fv <;> simp [hf, PV.setV, PV.setD]
    · simp [h]
  | append p c => simp only [fvOf, qstep, kstep]; by_cases h : q = p <;> simp [h, PV.setV]
  | zero p => rfl
  | truncate p n => simp only [fvOf, qstep, kstep]; by_cases h : q = p <;> simp [h, PV.setV]
  | sync p => simp only [fvOf, qstep, kstep]; by_cases h : q = p <;> simp [h, PV.setD]
  | rename a b =>
    simp only [fvOf, qstep, kstep]
    cases hf : (Q a).fv with
    | none => simp
    | some f =>
      simp only
      by_cases h1 : q = b
      · simp [h1]
      · by_cases h2 : q = a
        · subst h2; simp [h1]
        · simp [h1, h2]
  | unlink p => simp only [fvOf, qstep, kstep]; by_cases h : q = p <;> simp [h]
  | syncDir => rfl

theorem fvOf_qrun (Q : QFs) (ops : List FsOp) : fvOf (qrun Q ops) = krun (fvOf Q) ops := by
  induction ops generalizing Q with
  | nil => rfl
  | cons op ops ih => simp only [qrun_cons, krun_cons, ih, fvOf_qstep]

/-! ## well-formedness for the power view -/

structure Fs.WF2 (s : Fs) : Prop where
  inj : ∀ p q i, aget p s.dir = some i → aget q s.dir = some i → p = q
  fresh : ∀ p i, aget p s.dir = some i → i < s.next
  dfresh : ∀ p i, aget p s.ddir = some i → i < s.next
  xinj : ∀ p q i, aget p s.dir = some i → aget q s.ddir = some i → p = q
  ddfresh : ∀ i, s.next ≤ i → aget i s.ddata = none

theorem Fs.WF2.wf {s : Fs} (h : s.WF2) : s.WF := ⟨h.inj, h.fresh⟩

def FsOp.isRename : FsOp → Bool
  | .rename _ _ => true
  | _ => false

/-- the page-cache content of the inode of `p` is replaced -/
theorem quad_setData (s : Fs) (h : s.WF2) (p : Path) (i : Nat) (hp : aget p s.dir = some i) (x : Inode) :
    Fs.quad { s with data := aset i x s.data } = fun q => if q = p then (s.quad p).setV (some x) else s.quad q := by
  funext q
  have hvc : ∀ j, cOf (aset i x s.data) j = if i = j then x else (cOf s.data) j := by
    intro j; simp only [cOf, aget_aset]; by_cases hj : i = j <;> simp [hj]
  by_cases hq : q = p
  · subst hq
    simp only [if_true]
    apply PV.ext
    · simp [Fs.quad, PV.setV, hp, hvc]
    · simp [Fs.quad, PV.setV, cOf]
    · simp only [Fs.quad, PV.setV, hp]
      cases hd : aget q s.ddir with
      | none => simp
      | some j =>
        by_cases hj : i = j
        · subst hj; simp [hvc]
        · have : ¬ some i = some j := by simpa using hj
          simp [hvc, hj, this]
    · simp [Fs.quad, PV.setV, cOf]
    · simp [Fs.quad, PV.setV]
  · simp only [hq, if_false]
    apply PV.ext
    · simp only [Fs.quad]
      cases hd : aget q s.dir with
      | none => rfl
      | some j =>
        have : i ≠ j := fun e => hq (h.inj q p j hd (e ▸ hp))
        simp [hvc, this]
    · simp [Fs.quad, cOf]
    · simp only [Fs.quad]
      cases hd : aget q s.ddir with
      | none => rfl
      | some j =>
        have : i ≠ j := fun e => hq (h.xinj p q j (e ▸ hp) hd).symm
        simp [hvc, this]
    · simp [Fs.quad, cOf]
    · simp [Fs.quad]

/-- the durable content of the inode of `p` is replaced -/
theorem quad_setDData (s : Fs) (h : s.WF2) (p : Path) (i : Nat) (hp : aget p s.dir = some i) (x : Inode) :
    Fs.quad { s with ddata := aset i x s.ddata } = fun q => if q = p then (s.quad p).setD (some x) else s.quad q := by
  funext q
  have hdc : ∀ j, cOf (aset i x s.ddata) j = if i = j then x else (cOf s.ddata) j := by
    intro j; simp only [cOf, aget_aset]; by_cases hj : i = j <;> simp [hj]
  by_cases hq : q = p
  · subst hq
    simp only [if_true]
    apply PV.ext
    · simp [Fs.quad, PV.setD, cOf]
    · simp [Fs.quad, PV.setD, hp, hdc]
    · simp [Fs.quad, PV.setD, cOf]
    · simp only [Fs.quad, PV.setD, hp]
      cases hd : aget q s.ddir with
      | none => simp
      | some j =>
        by_cases hj : i = j
        · subst hj; simp [hdc]
        · have : ¬ some i = some j := by simpa using hj
          simp [hdc, hj, this]
    · simp [Fs.quad, PV.setD]
  · simp only [hq, if_false]
    apply PV.ext
    · simp [Fs.quad, cOf]
    · simp only [Fs.quad]
      cases hd : aget q s.dir with
      | none => rfl
      | some j =>
        have : i ≠ j := fun e => hq (h.inj q p j hd (e ▸ hp))
        simp [hdc, this]
    · simp [Fs.quad, cOf]
    · simp only [Fs.quad]
      cases hd : aget q s.ddir with
      | none => rfl
      | some j =>
        have : i ≠ j := fun e => hq (h.xinj p q j (e ▸ hp) hd).symm
        simp [hdc, this]
    · simp [Fs.quad]

theorem quad_fv_none (s : Fs) (p : Path) (hp : aget p s.dir = none) :
    (s.quad p).fv = none ∧ (s.quad p).fd = none := by simp [Fs.quad, hp]

theorem PV_setV_self (s : Fs) (p : Path) : (s.quad p).setV (s.quad p).fv = s.quad p := by
  apply PV.ext <;> simp only [PV.setV]
  by_cases h : aget p s.dir = aget p s.ddir
  · simp [Fs.quad, h]
  · simp [Fs.quad, h]

theorem PV_setD_self (s : Fs) (p : Path) : (s.quad p).setD (s.quad p).fd = s.quad p := by
  apply PV.ext <;> simp only [PV.setD]
  by_cases h : aget p s.dir = aget p s.ddir
  · simp [Fs.quad, h]
  · simp [Fs.quad, h]

theorem Fs.quad_modify (s : Fs) (h : s.WF2) (p : Path) (g : Inode → Inode) :
    (s.modify p g).quad = fun q => if q = p then (s.quad p).setV ((s.quad p).fv.map g) else s.quad q := by
  unfold Fs.modify
  cases hp : aget p s.dir with
  | none =>
    funext q
    by_cases hq : q = p
    · subst hq
      simp only [if_true]
      rw [(quad_fv_none s q hp).1]
      have := PV_setV_self s q
      rw [(quad_fv_none s q hp).1] at this
      exact this.symm
    · simp [hq]
  | some i =>
    simp only
    rw [quad_setData s h p i hp]
    funext q
    by_cases hq : q = p
    · simp only [hq, if_true]
      congr 1
      simp [Fs.quad, hp, cOf]
    · simp [hq]

theorem Fs.quad_step (s : Fs) (h : s.WF2) (op : FsOp) (hr : op.isRename = false) :
    (s.step op).quad = qstep s.quad op := by
  cases op with
  | rename a b => cases hr
  | create p =>
    funext q
    simp only [Fs.step, qstep]
    have hvc : ∀ j, j < s.next → cOf (aset s.next {} s.data) j = (cOf s.data) j := by
      intro j hj
      have : s.next ≠ j := by omega
      simp [cOf, aget_aset, this]
    by_cases hq : q = p
    · subst hq
      simp only [if_true]
      apply PV.ext
      · simp [Fs.quad, aget_aset, cOf]
      · simp [Fs.quad, aget_aset, cOf, h.ddfresh s.next (Nat.le_refl _)]
      · simp only [Fs.quad]
        cases hd : aget q s.ddir with
        | none => rfl
        | some j => simp [hvc j (h.dfresh q j hd)]
      · simp [Fs.quad, cOf]
      · simp only [Fs.quad, aget_aset, if_true]
        cases hd : aget q s.ddir with
        | none => simp
        | some j =>
          have := h.dfresh q j hd
          have : s.next ≠ j := by omega
          simp [this]
    · have hpq : ¬ p = q := fun e => hq e.symm
      simp only [hq, if_false]
      apply PV.ext
      · simp only [Fs.quad, aget_aset, hpq, if_false]
        cases hd : aget q s.dir with
        | none => rfl
        | some j => simp [hvc j (h.fresh q j hd)]
      · simp [Fs.quad, aget_aset, hpq, cOf]
      · simp only [Fs.quad]
        cases hd : aget q s.ddir with
        | none => rfl
        | some j => simp [hvc j (h.dfresh q j hd)]
      · simp [Fs.quad, cOf]
      · simp [Fs.quad, aget_aset, hpq]
  | extend p =>
    simp only [Fs.step, qstep]
    cases hp : aget p s.dir with
    | none =>
      funext q
      by_cases hq : q = p
      · subst hq; simp [(quad_fv_none s q hp).1]
      · simp [hq]
    | some i =>
      simp only
      have h1 := quad_setData s h p i hp { (aget i s.data).getD {} with size := .alloc }
      have hwf' : Fs.WF2 { s with data := aset i { (aget i s.data).getD {} with size := .alloc } s.data } :=
        ⟨h.inj, h.fresh, h.dfresh, h.xinj, h.ddfresh⟩
      have h2 := quad_setDData _ hwf' p i hp { chunks := [], size := .alloc }
      funext q
      have h2q := congrFun h2 q
      simp only at h2q
      rw [h2q, h1]
      by_cases hq : q = p
      · subst hq
        have : (s.quad q).fv = some ((cOf s.data) i) := by simp [Fs.quad, hp]
        simp [this, cOf]
      · simp [hq]
  | append p c => simp only [Fs.step, qstep]; exact Fs.quad_modify s h p _
  | zero p => rfl
  | truncate p n => simp only [Fs.step, qstep]; exact Fs.quad_modify s h p _
  | sync p =>
    simp only [Fs.step, qstep]
    cases hp : aget p s.dir with
    | none =>
      funext q
      by_cases hq : q = p
      · subst hq
        simp only [if_true]
        have := PV_setD_self s q
        rw [(quad_fv_none s q hp).2] at this
        rw [(quad_fv_none s q hp).1]
        exact this.symm
      · simp [hq]
    | some i =>
      simp only
      rw [quad_setDData s h p i hp]
      funext q
      by_cases hq : q = p
      · simp only [hq, if_true]
        congr 1
        simp [Fs.quad, hp, cOf]
      · simp [hq]
  | unlink p =>
    funext q
    simp only [Fs.step, qstep]
    by_cases hq : q = p
    · subst hq
      simp only [if_true]
      apply PV.ext
      · simp [Fs.quad, aget_aerase]
      · simp [Fs.quad, aget_aerase]
      · simp [Fs.quad, cOf]
      · simp [Fs.quad, cOf]
      · simp only [Fs.quad, aget_aerase, if_true]
        cases hd : aget q s.ddir <;> simp
    · simp only [hq, if_false]
      apply PV.ext <;> simp [Fs.quad, aget_aerase, hq, cOf, cOf]
  | syncDir =>
    funext q
    simp only [Fs.step, qstep]
    apply PV.ext <;> simp [Fs.quad, cOf, cOf]

theorem Fs.WF2_step (s : Fs) (h : s.WF2) (op : FsOp) (hr : op.isRename = false) : (s.step op).WF2 := by
  have hw := Fs.WF_step s h.wf op
  cases op with
  | rename a b => cases hr
  | create p =>
    refine ⟨hw.inj, hw.fresh, ?_, ?_, ?_⟩
    · intro a i ha
      have := h.dfresh a i ha
      show i < s.next + 1
      omega
    · intro a b i ha hb
      simp only [Fs.step, aget_aset] at ha hb
      by_cases h1 : p = a
      · rw [if_pos h1] at ha; injection ha with ha; subst ha
        have := h.dfresh b _ hb; omega
      · rw [if_neg h1] at ha; exact h.xinj a b i ha hb
    · intro i hi
      exact h.ddfresh i (by have : s.next + 1 ≤ i := hi; omega)
  | extend p =>
    simp only [Fs.step]
    cases hp : aget p s.dir with
    | none => exact h
    | some i =>
      refine ⟨h.inj, h.fresh, h.dfresh, h.xinj, ?_⟩
      intro j hj
      have := h.fresh p i hp
      have hne : i ≠ j := by have : s.next ≤ j := hj; omega
      simp only [aget_aset, hne, if_false]
      exact h.ddfresh j hj
  | append p c =>
    simp only [Fs.step, Fs.modify]
    cases hp : aget p s.dir with
    | none => exact h
    | some i => exact ⟨h.inj, h.fresh, h.dfresh, h.xinj, h.ddfresh⟩
  | zero p => exact h
  | truncate p n =>
    simp only [Fs.step, Fs.modify]
    cases hp : aget p s.dir with
    | none => exact h
    | some i => exact ⟨h.inj, h.fresh, h.dfresh, h.xinj, h.ddfresh⟩
  | sync p =>
    simp only [Fs.step]
    cases hp : aget p s.dir with
    | none => exact h
    | some i =>
      refine ⟨h.inj, h.fresh, h.dfresh, h.xinj, ?_⟩
      intro j hj
      have := h.fresh p i hp
      have hne : i ≠ j := by have : s.next ≤ j := hj; omega
      simp only [aget_aset, hne, if_false]
      exact h.ddfresh j hj
  | unlink p =>
    refine ⟨hw.inj, hw.fresh, h.dfresh, ?_, h.ddfresh⟩
    intro a b i ha hb
    simp only [Fs.step, aget_aerase] at ha
    by_cases h1 : a = p
    · simp [h1] at ha
    · simp [h1] at ha; exact h.xinj a b i ha hb
  | syncDir =>
    exact ⟨h.inj, h.fresh, h.fresh, h.inj, h.ddfresh⟩

theorem Fs.quad_run (s : Fs) (h : s.WF2) (ops : List FsOp) (hr : ∀ op ∈ ops, op.isRename = false) :
    (s.run ops).WF2 ∧ (s.run ops).quad = qrun s.quad ops := by
  induction ops generalizing s with
  | nil => exact ⟨h, rfl⟩
  | cons op ops ih =>
    have h1 := hr op List.mem_cons_self
    have := ih (s.step op) (Fs.WF2_step s h op h1) (fun o ho => hr o (List.mem_cons_of_mem _ ho))
    simp only [Fs.run, List.foldl_cons, qrun] at this ⊢
    rw [← Fs.quad_step s h op h1]
    exact this

/-! ## the power-loss image, pointwise -/

theorem aget_append {α β : Type} [DecidableEq α] (k : α) (a b : List (α × β)) :
    aget k (a ++ b) = match aget k a with | some v => some v | none => aget k b := by
  induction a with
  | nil => rfl
  | cons x xs ih =>
    obtain ⟨a', b'⟩ := x
    simp only [List.cons_append, aget]
    by_cases h : a' = k
    · simp [h]
    · simp [h, ih]

theorem aget_filter_map {α β γ : Type} [DecidableEq α] (k : α) (c : α → Bool) (g : β → γ) (l : List (α × β)) :
    aget k ((l.filter (fun x => c x.1)).map (fun x => (x.1, g x.2))) = if c k then (aget k l).map g else none := by
  induction l with
  | nil => simp [aget]
  | cons x xs ih =>
    obtain ⟨a, b⟩ := x
    by_cases hc : c a = true
    · simp only [List.filter, hc, List.map, aget]
      by_cases h : a = k
      · subst h; simp [hc]
      · simp only [h, if_false]; exact ih
    · have hc' : c a = false := by simpa using hc
      simp only [List.filter, hc', aget]
      by_cases h : a = k
      · subst h; simp [hc', ih]
      · simp only [h, if_false]; exact ih

/-- what a power loss leaves in the file called `p` is one of the four candidates -/
theorem crashPowerWith_file (s : Fs) (kd : Path → Bool) (ks : Nat → Bool) (p : Path) :
    Image.file (crashPowerWith s kd ks) p = (s.quad p).fv ∨ Image.file (crashPowerWith s kd ks) p = (s.quad p).fd ∨
    Image.file (crashPowerWith s kd ks) p = (s.quad p).dv ∨ Image.file (crashPowerWith s kd ks) p = (s.quad p).dd := by
  unfold Image.file crashPowerWith
  simp only
  have e1 := aget_filter_map p kd (fun i => if ks i = true then (aget i s.data).getD ({} : Inode) else (aget i s.ddata).getD {}) s.dir
  have e2 := aget_filter_map p (fun q => !kd q) (fun i => if ks i = true then (aget i s.data).getD ({} : Inode) else (aget i s.ddata).getD {}) s.ddir
  rw [aget_append, e1, e2]
  by_cases hk : kd p = true
  · simp only [hk, if_true, Bool.not_true, Bool.false_eq_true, if_false]
    cases hd : aget p s.dir with
    | none =>
      left
      simp [Fs.quad, hd]
    | some i =>
      by_cases hs : ks i = true
      · left; simp [Fs.quad, hd, hs, cOf]
      · right; left; simp [Fs.quad, hd, hs, cOf]
  · have hk' : kd p = false := by simpa using hk
    simp only [hk', Bool.false_eq_true, if_false, Bool.not_false, if_true]
    cases hd : aget p s.ddir with
    | none =>
      right; right; left
      simp [Fs.quad, hd]
    | some i =>
      by_cases hs : ks i = true
      · right; right; left; simp [Fs.quad, hd, hs, cOf]
      · right; right; right; simp [Fs.quad, hd, hs, cOf]

end Badger
