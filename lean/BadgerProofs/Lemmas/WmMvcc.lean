import BadgerModel.Mvcc
/-!
# The read watermark of `Mvcc.lean` (`Wm`): what `begin` / `done` preserve

`Wm` is `y.WaterMark` after its channel has been drained: a sorted list of (index, pending count)
and `doneUntil`. Facts used by the database-level snapshot theorem (`Props/C01Db.lean`):
* `doneUntil` never decreases,
* it never passes an index that still has a positive pending count,
* the pending count of an index only changes by the `±1` of its own `begin` / `done`, except that
  counts `≤ 0` may be forgotten.
-/
namespace Badger
namespace WmL

/-- total pending count recorded for index `i` -/
def pendSum (p : List (Nat × Int)) (i : Nat) : Int := ((p.filter (fun x => x.1 == i)).map (·.2)).sum

def Sorted (p : List (Nat × Int)) : Prop := p.Pairwise (fun a b => a.1 < b.1)

structure Ok (w : Wm) : Prop where
  sorted : Sorted w.pend
  lower : ∀ x ∈ w.pend, w.doneUntil ≤ x.1

@[simp] theorem pendSum_nil (i : Nat) : pendSum [] i = 0 := rfl

theorem pendSum_cons (x : Nat × Int) (p : List (Nat × Int)) (i : Nat) :
    pendSum (x :: p) i = (if x.1 = i then x.2 else 0) + pendSum p i := by
  unfold pendSum
  by_cases h : x.1 = i
  · simp [h]
  · have : (x.1 == i) = false := by simpa using h
    simp [this, h]

theorem pendSum_append (a b : List (Nat × Int)) (i : Nat) :
    pendSum (a ++ b) i = pendSum a i + pendSum b i := by
  induction a with
  | nil => simp
  | cons x xs ih => simp only [List.cons_append, pendSum_cons, ih]; omega

/-! ## `bump` -/

theorem ins_mem {idx : Nat} {d : Int} {p : List (Nat × Int)} {x : Nat × Int}
    (h : x ∈ Wm.bump.ins idx d p) : x.1 = idx ∨ x ∈ p := by
  induction p with
  | nil => simp [Wm.bump.ins] at h; left; rw [h]
  | cons y ys ih =>
    obtain ⟨i, c⟩ := y
    simp only [Wm.bump.ins] at h
    split at h
    · rcases List.mem_cons.mp h with rfl | h'
      · left; rfl
      · right; exact h'
    · split at h
      · rename_i heq
        have heq : idx = i := by simpa using heq
        rcases List.mem_cons.mp h with rfl | h'
        · left; exact heq.symm
        · right; exact List.mem_cons_of_mem _ h'
      · rcases List.mem_cons.mp h with rfl | h'
        · right; simp
        · rcases ih h' with h1 | h1
          · left; exact h1
          · right; exact List.mem_cons_of_mem _ h1

theorem ins_sorted {idx : Nat} {d : Int} {p : List (Nat × Int)} (hs : Sorted p) :
    Sorted (Wm.bump.ins idx d p) := by
  induction p with
  | nil => simp [Wm.bump.ins, Sorted]
  | cons y ys ih =>
    obtain ⟨i, c⟩ := y
    obtain ⟨h1, h2⟩ := List.pairwise_cons.mp hs
    simp only [Wm.bump.ins]
    split
    · rename_i hlt
      refine List.pairwise_cons.mpr ⟨?_, hs⟩
      intro b hb
      rcases List.mem_cons.mp hb with rfl | hb'
      · exact hlt
      · have := h1 b hb'; simp at this ⊢; omega
    · split
      · exact List.pairwise_cons.mpr ⟨fun b hb => h1 b hb, h2⟩
      · rename_i hnlt hne
        have hne : ¬ idx = i := by simpa using hne
        refine List.pairwise_cons.mpr ⟨?_, ih h2⟩
        intro b hb
        rcases ins_mem hb with hb1 | hb1
        · simp at hnlt ⊢; omega
        · exact h1 b hb1

theorem ins_sum (idx : Nat) (d : Int) (p : List (Nat × Int)) (i : Nat) :
    pendSum (Wm.bump.ins idx d p) i = pendSum p i + (if i = idx then d else 0) := by
  induction p with
  | nil =>
    simp only [Wm.bump.ins, pendSum_cons, pendSum_nil]
    by_cases h : idx = i
    · simp [h]
    · have : ¬ i = idx := fun h' => h h'.symm
      simp [h, this]
  | cons y ys ih =>
    obtain ⟨j, c⟩ := y
    simp only [Wm.bump.ins]
    split
    · simp only [pendSum_cons]
      by_cases h : idx = i
      · have : i = idx := h.symm
        simp [h]; omega
      · have : ¬ i = idx := fun h' => h h'.symm
        simp [h, this]
    · split
      · rename_i heq
        have heq : idx = j := by simpa using heq
        simp only [pendSum_cons]
        by_cases h : j = i
        · have : i = idx := by omega
          simp [h, this]; omega
        · have : ¬ i = idx := by omega
          simp [h, this]
      · simp only [pendSum_cons, ih]; omega

/-! ## `advance` -/

theorem go_spec (p : List (Nat × Int)) (u : Nat) (hs : Sorted p) (hl : ∀ x ∈ p, u ≤ x.1) :
    ∃ pre, p = pre ++ (Wm.advance.go p u).1 ∧ (∀ x ∈ pre, x.2 ≤ 0) ∧ u ≤ (Wm.advance.go p u).2 ∧
      (∀ x ∈ (Wm.advance.go p u).1, (Wm.advance.go p u).2 ≤ x.1) := by
  induction p generalizing u with
  | nil => exact ⟨[], by simp [Wm.advance.go]⟩
  | cons y ys ih =>
    obtain ⟨i, c⟩ := y
    obtain ⟨h1, h2⟩ := List.pairwise_cons.mp hs
    simp only [Wm.advance.go]
    split
    · exact ⟨[], by simp, by simp, Nat.le_refl _, hl⟩
    · rename_i hc
      have hui : u ≤ i := hl (i, c) (by simp)
      obtain ⟨pre, hp, hpre, hu, hlow⟩ := ih i h2 (fun x hx => Nat.le_of_lt (h1 x hx))
      refine ⟨(i, c) :: pre, ?_, ?_, by omega, hlow⟩
      · simp only [List.cons_append]; rw [← hp]
      · intro x hx
        rcases List.mem_cons.mp hx with rfl | hx'
        · simp; omega
        · exact hpre x hx'

theorem sorted_suffix {a b : List (Nat × Int)} (h : Sorted (a ++ b)) : Sorted b :=
  (List.pairwise_append.mp h).2.1

theorem pendSum_nonpos {pre : List (Nat × Int)} (h : ∀ x ∈ pre, x.2 ≤ 0) (i : Nat) : pendSum pre i ≤ 0 := by
  induction pre with
  | nil => simp
  | cons x xs ih =>
    rw [pendSum_cons]
    have h1 := h x (by simp)
    have h2 := ih (fun y hy => h y (List.mem_cons_of_mem _ hy))
    split <;> omega

theorem advance_ok {w : Wm} (h : Ok w) : Ok w.advance := by
  obtain ⟨pre, hp, _, _, hlow⟩ := go_spec w.pend w.doneUntil h.sorted h.lower
  refine ⟨?_, ?_⟩
  · show Sorted (Wm.advance.go w.pend w.doneUntil).1
    have := h.sorted
    rw [hp] at this
    exact sorted_suffix this
  · exact hlow

theorem advance_mono {w : Wm} (h : Ok w) : w.doneUntil ≤ w.advance.doneUntil := by
  obtain ⟨_, _, _, hu, _⟩ := go_spec w.pend w.doneUntil h.sorted h.lower
  exact hu

/-- forgetting counts `≤ 0` only raises what is recorded -/
theorem advance_sum {w : Wm} (h : Ok w) (i : Nat) : pendSum w.pend i ≤ pendSum w.advance.pend i := by
  obtain ⟨pre, hp, hpre, _, _⟩ := go_spec w.pend w.doneUntil h.sorted h.lower
  have e : pendSum w.pend i = pendSum pre i + pendSum (Wm.advance.go w.pend w.doneUntil).1 i := by
    rw [← pendSum_append, ← hp]
  have := pendSum_nonpos hpre i
  show pendSum w.pend i ≤ pendSum (Wm.advance.go w.pend w.doneUntil).1 i
  omega

theorem advance_mem {w : Wm} {x : Nat × Int} (hx : x ∈ w.advance.pend) (h : Ok w) : x ∈ w.pend := by
  obtain ⟨pre, hp, _, _, _⟩ := go_spec w.pend w.doneUntil h.sorted h.lower
  rw [hp]
  exact List.mem_append_right _ hx

theorem bump_ok {w : Wm} (h : Ok w) (idx : Nat) (d : Int) (hi : w.doneUntil ≤ idx) : Ok (w.bump idx d) := by
  refine ⟨ins_sorted h.sorted, ?_⟩
  intro x hx
  rcases ins_mem hx with h1 | h1
  · show w.doneUntil ≤ x.1; omega
  · exact h.lower x h1

/-- an index with a positive recorded count holds `doneUntil` back -/
theorem doneUntil_le_of_pos {w : Wm} (h : Ok w) {i : Nat} (hp : 0 < pendSum w.pend i) : w.doneUntil ≤ i := by
  have : ∃ x ∈ w.pend, x.1 = i := by
    apply Classical.byContradiction
    intro hn
    have hz : pendSum w.pend i = 0 := by
      unfold pendSum
      have : w.pend.filter (fun x => x.1 == i) = [] := by
        apply List.filter_eq_nil_iff.mpr
        intro x hx hxi
        exact hn ⟨x, hx, by simpa using hxi⟩
      rw [this]; rfl
    omega
  obtain ⟨x, hx, rfl⟩ := this
  exact h.lower x hx

/-! ## `begin` / `done` -/

theorem begin_ok {w : Wm} (h : Ok w) (idx : Nat) (hi : w.doneUntil ≤ idx) : Ok (w.begin idx) :=
  advance_ok (bump_ok h idx 1 hi)

theorem done_ok {w : Wm} (h : Ok w) (idx : Nat) (hi : w.doneUntil ≤ idx) : Ok (w.done idx) :=
  advance_ok (bump_ok h idx (-1) hi)

theorem begin_mono {w : Wm} (h : Ok w) (idx : Nat) (hi : w.doneUntil ≤ idx) :
    w.doneUntil ≤ (w.begin idx).doneUntil :=
  advance_mono (bump_ok h idx 1 hi)

theorem done_mono {w : Wm} (h : Ok w) (idx : Nat) (hi : w.doneUntil ≤ idx) :
    w.doneUntil ≤ (w.done idx).doneUntil :=
  advance_mono (bump_ok h idx (-1) hi)

theorem begin_sum {w : Wm} (h : Ok w) (idx : Nat) (hi : w.doneUntil ≤ idx) (i : Nat) :
    pendSum w.pend i + (if i = idx then 1 else 0) ≤ pendSum (w.begin idx).pend i := by
  have := advance_sum (bump_ok h idx 1 hi) i
  have e := ins_sum idx 1 w.pend i
  show _ ≤ pendSum (w.bump idx 1).advance.pend i
  have : pendSum (w.bump idx 1).pend i = pendSum (Wm.bump.ins idx 1 w.pend) i := rfl
  omega

theorem done_sum {w : Wm} (h : Ok w) (idx : Nat) (hi : w.doneUntil ≤ idx) (i : Nat) :
    pendSum w.pend i - (if i = idx then 1 else 0) ≤ pendSum (w.done idx).pend i := by
  have := advance_sum (bump_ok h idx (-1) hi) i
  have e := ins_sum idx (-1) w.pend i
  show _ ≤ pendSum (w.bump idx (-1)).advance.pend i
  have : pendSum (w.bump idx (-1)).pend i = pendSum (Wm.bump.ins idx (-1) w.pend) i := rfl
  split <;> split at e <;> omega

theorem begin_mem {w : Wm} (h : Ok w) (idx : Nat) (hi : w.doneUntil ≤ idx) {x : Nat × Int}
    (hx : x ∈ (w.begin idx).pend) : x.1 = idx ∨ x ∈ w.pend := by
  have := advance_mem hx (bump_ok h idx 1 hi)
  exact ins_mem this

theorem done_mem {w : Wm} (h : Ok w) (idx : Nat) (hi : w.doneUntil ≤ idx) {x : Nat × Int}
    (hx : x ∈ (w.done idx).pend) : x.1 = idx ∨ x ∈ w.pend := by
  have := advance_mem hx (bump_ok h idx (-1) hi)
  exact ins_mem this

/-- `doneUntil` is an index that was recorded, or unchanged -/
theorem go_until (p : List (Nat × Int)) (u : Nat) :
    (Wm.advance.go p u).2 = u ∨ ∃ x ∈ p, x.1 = (Wm.advance.go p u).2 := by
  induction p generalizing u with
  | nil => left; rfl
  | cons y ys ih =>
    obtain ⟨i, c⟩ := y
    simp only [Wm.advance.go]
    split
    · left; rfl
    · rcases ih i with h | ⟨x, hx, he⟩
      · right; exact ⟨(i, c), by simp, h.symm⟩
      · right; exact ⟨x, List.mem_cons_of_mem _ hx, he⟩

theorem advance_until (w : Wm) : w.advance.doneUntil = w.doneUntil ∨ ∃ x ∈ w.pend, x.1 = w.advance.doneUntil :=
  go_until w.pend w.doneUntil

end WmL
end Badger
