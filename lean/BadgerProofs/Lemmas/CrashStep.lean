import BadgerProofs.Lemmas.CrashInv
/-!
# Every step of the protocol machine preserves `Inv` (part 1: the writer's WAL / vlog atoms)
-/
namespace Badger

theorem appendChunk_size_ne_zero (c : Chunk) (f : Inode) : (appendChunk c f).size ≠ .zero := by
  unfold appendChunk; split <;> simp

/-- an update of a `.vlog` file that leaves it non-empty -/
theorem Inv_upd_vlog (R : ViewRel) (s : PState) (F : KFs) (h : Inv R s F) (n : Nat) (v : Option Inode)
    (hv : ∀ f, v = some f → f.size ≠ .zero) : Inv R s (upd F (.vlog n) v) where
  logic := h.logic
  manifest := ManifestOk_upd F _ v _ (by simp) h.manifest
  mem := by rw [memView_upd_vlog]; exact h.mem
  sst := by rw [sstView_upd_vlog]; exact h.sst
  vlogNZ := by
    intro m f hf
    by_cases hm : m = n
    · subst hm; simp at hf; exact hv f hf
    · rw [upd_ne _ _ _ _ (by simp [hm])] at hf; exact h.vlogNZ m f hf

theorem walChunks_nil_pts (hdr : Bool) (ts : List Txn) (p q : Nat) :
    walChunks hdr ts p [] = walChunks hdr ts q [] := by simp [walChunks]

theorem txnsEnts_append (a b : List Txn) : txnsEnts (a ++ b) = txnsEnts a ++ txnsEnts b := by
  simp [txnsEnts]

theorem txnsChunks_append (a b : List Txn) : txnsChunks (a ++ b) = txnsChunks a ++ txnsChunks b := by
  simp [txnsChunks]

theorem head?_append_of_ne_nil {α : Type} (a b : List α) (h : a ≠ []) : (a ++ b).head? = a.head? := by
  cases a with
  | nil => exact absurd rfl h
  | cons x xs => rfl

/-- `pushImm`: the active memtable becomes the newest immutable one -/
theorem InvMem_pushImm (imm : List Nat) (curHdr : Bool) (cur nextMem : Nat)
    (mtxns : List (Nat × List Txn)) (pts : Nat) (Fm : Nat → Option Inode)
    (h : InvMem imm true curHdr cur nextMem mtxns pts [] Fm) :
    InvMem (imm ++ [cur]) false curHdr cur nextMem mtxns pts [] Fm where
  memNZ := h.memNZ
  memKnown := by
    intro n hn
    rcases h.memKnown n hn with h1 | ⟨_, h1⟩
    · exact Or.inl (List.mem_append_left _ h1)
    · exact Or.inl (by simp [h1])
  immFiles := by
    intro k hk
    rcases List.mem_append.mp hk with h1 | h1
    · exact h.immFiles k h1
    · have : k = cur := by simpa using h1
      subst this
      obtain ⟨f, hf, hc⟩ := h.curFile rfl
      refine ⟨f, hf, ?_⟩
      rw [hc, replayLog_walChunks _ _ h.curTxns _ _ (fun e => (h.noHdr e).1)]
      rfl
  curFile := by intro h1; cases h1
  curTxns := h.curTxns
  noHdr := h.noHdr
  memFresh := h.memFresh
  curLt := h.curLt
  immLt := by
    intro k hk
    rcases List.mem_append.mp hk with h1 | h1
    · exact h.immLt k h1
    · have : k = cur := by simpa using h1
      subst this; exact h.curLt
  curNotImm := by intro h1; cases h1
  immNodup := by
    rw [List.nodup_append]
    exact ⟨h.immNodup, by simp, by intro a ha b hb; have : b = cur := by simpa using hb
                                   subst this; exact fun e => h.curNotImm rfl (e ▸ ha)⟩

theorem InvSst_imm_append (R : ViewRel) (tset : List (Nat × Nat)) (tcont : List (Nat × List CEnt))
    (imm : List Nat) (c : Nat) (mtxns : List (Nat × List Txn)) (fpc fsst nextSst : Nat)
    (kins : List Nat) (kout : List KOut) (Fs : Nat → Option Inode)
    (h : InvSst R tset tcont imm mtxns fpc fsst nextSst kins kout Fs) :
    InvSst R tset tcont (imm ++ [c]) mtxns fpc fsst nextSst kins kout Fs := by
  by_cases hi : imm = []
  · have hf := h.idle hi
    subst hi
    exact { h with
      idle := by intro h1; simp at h1
      fsstLt := by intro _ h2; omega
      flush1 := by intro _ h2; omega
      flush2 := by intro k _ h2 _; omega
      flush5 := by intro k _ h2; omega }
  · exact { h with
      idle := by intro h1; simp at h1
      fsstLt := fun _ h2 => h.fsstLt hi h2
      flush1 := fun _ h2 => h.flush1 hi h2
      flush2 := by intro k hk; rw [head?_append_of_ne_nil _ _ hi] at hk; exact h.flush2 k hk
      flush5 := by intro k hk; rw [head?_append_of_ne_nil _ _ hi] at hk; exact h.flush5 k hk }

theorem Inv_pushImm (R : ViewRel) (s : PState) (F : KFs) (h : Inv R s F)
    (ho : s.curOpen = true) (hp : s.pending = []) :
    Inv R { s with imm := s.imm ++ [s.cur], curOpen := false } F where
  logic := by
    have hl : ({ s with imm := s.imm ++ [s.cur], curOpen := false } : PState).lsmEnts = s.lsmEnts := by
      show (s.tset.map (fun x => s.tableEnts x.1)).flatten ++ ((s.imm ++ [s.cur]).map s.memEnts).flatten ++ [] = _
      simp [PState.lsmEnts, ho]
    have := h.logic
    exact ⟨by rw [hl]; exact this.view, this.acked_le, this.done_le, this.infl⟩
  manifest := h.manifest
  mem := by
    have hm := h.mem
    rw [ho, hp] at hm
    have := InvMem_pushImm _ _ _ _ _ _ _ hm
    show InvMem (s.imm ++ [s.cur]) false s.curHdr s.cur s.nextMem s.mtxns s.pts s.pending (memView F)
    rw [hp]; exact this
  sst := InvSst_imm_append R _ _ _ _ _ _ _ _ _ _ _ h.sst
  vlogNZ := h.vlogNZ

/-! ### `newMem` -/

theorem InvMem_newMem (imm : List Nat) (curHdr : Bool) (cur nextMem : Nat)
    (mtxns : List (Nat × List Txn)) (pts : Nat) (Fm : Nat → Option Inode)
    (h : InvMem imm false curHdr cur nextMem mtxns pts [] Fm) :
    InvMem imm true false nextMem (nextMem + 1) mtxns pts []
      (fun n => if n = nextMem then some { chunks := [], size := .alloc } else Fm n) where
  memNZ := by
    intro n f hf
    by_cases hn : n = nextMem
    · simp [hn] at hf; subst hf; simp
    · simp [hn] at hf; exact h.memNZ n f hf
  memKnown := by
    intro n hn
    by_cases hn2 : n = nextMem
    · exact Or.inr ⟨rfl, hn2⟩
    · simp [hn2] at hn
      rcases h.memKnown n hn with h1 | ⟨h1, _⟩
      · exact Or.inl h1
      · cases h1
  immFiles := by
    intro k hk
    have : k ≠ nextMem := by have := h.immLt k hk; omega
    simp only [this, if_false]
    exact h.immFiles k hk
  curFile := by
    intro _
    exact ⟨{ chunks := [], size := .alloc }, by simp, by simp [walChunks]⟩
  curTxns := by
    rw [(h.memFresh nextMem (Nat.le_refl _)).2]
    intro t ht; simp at ht
  noHdr := by
    intro _
    rw [(h.memFresh nextMem (Nat.le_refl _)).2]
    simp
  memFresh := by
    intro n hn
    have h1 := h.memFresh n (by omega)
    have : n ≠ nextMem := by omega
    simp [this, h1.1, h1.2]
  curLt := by omega
  immLt := by intro k hk; have := h.immLt k hk; omega
  curNotImm := by
    intro _ hk
    have := h.immLt _ hk; omega
  immNodup := h.immNodup

theorem Inv_newMem (R : ViewRel) (s : PState) (F : KFs) (h : Inv R s F)
    (ho : s.curOpen = false) (hp : s.pending = []) :
    Inv R { s with cur := s.nextMem, curOpen := true, curHdr := false, nextMem := s.nextMem + 1 }
      (upd F (.mem s.nextMem) (some { chunks := [], size := .alloc })) where
  logic := by
    have hfresh := (h.mem.memFresh s.nextMem (Nat.le_refl _)).2
    have hl : ({ s with cur := s.nextMem, curOpen := true, curHdr := false, nextMem := s.nextMem + 1 } : PState).lsmEnts
        = s.lsmEnts := by
      show (s.tset.map (fun x => s.tableEnts x.1)).flatten ++ (s.imm.map s.memEnts).flatten ++ s.memEnts s.nextMem = _
      simp [PState.lsmEnts, ho, PState.memEnts, PState.memTxns, hfresh, txnsEnts]
    have := h.logic
    exact ⟨by rw [hl]; exact this.view, this.acked_le, this.done_le, this.infl⟩
  manifest := ManifestOk_upd F _ _ _ (by simp) h.manifest
  mem := by
    have hm := h.mem
    rw [ho, hp] at hm
    have := InvMem_newMem _ _ _ _ _ _ _ hm
    rw [memView_upd_mem]
    show InvMem s.imm true false s.nextMem (s.nextMem + 1) s.mtxns s.pts s.pending _
    rw [hp]; exact this
  sst := by rw [sstView_upd_mem]; exact h.sst
  vlogNZ := by
    intro n f hf
    rw [upd_ne _ _ _ _ (by simp)] at hf
    exact h.vlogNZ n f hf

/-! ### appends to the active WAL: `mhdr`, `wput`, `fin` -/

/-- an append to the active WAL that turns its chunk list into the next protocol shape -/
theorem InvMem_curAppend (imm : List Nat) (curHdr curHdr' : Bool) (cur nextMem : Nat)
    (mtxns mtxns' : List (Nat × List Txn)) (pts pts' : Nat) (pending pending' : List CEnt)
    (Fm : Nat → Option Inode) (c : Chunk)
    (h : InvMem imm true curHdr cur nextMem mtxns pts pending Fm)
    (hshape : walChunks curHdr ((aget cur mtxns).getD []) pts pending ++ [c] =
      walChunks curHdr' ((aget cur mtxns').getD []) pts' pending')
    (hother : ∀ k, k ≠ cur → aget k mtxns' = aget k mtxns)
    (hok : TxnsOk ((aget cur mtxns').getD []))
    (hnh : curHdr' = false → (aget cur mtxns').getD [] = [] ∧ pending' = []) :
    InvMem imm true curHdr' cur nextMem mtxns' pts' pending'
      (fun n => if n = cur then (Fm cur).map (appendChunk c) else Fm n) where
  memNZ := by
    intro n f hf
    by_cases hn : n = cur
    · simp only [hn, if_true] at hf
      cases hF : Fm cur with
      | none => simp [hF] at hf
      | some f0 => simp [hF] at hf; subst hf; exact appendChunk_size_ne_zero c f0
    · simp only [hn, if_false] at hf; exact h.memNZ n f hf
  memKnown := by
    intro n hn
    by_cases hn2 : n = cur
    · exact Or.inr ⟨rfl, hn2⟩
    · simp only [hn2, if_false] at hn; exact h.memKnown n hn
  immFiles := by
    intro k hk
    have hne : k ≠ cur := fun e => h.curNotImm rfl (e ▸ hk)
    simp only [hne, if_false]
    obtain ⟨f, hf, he⟩ := h.immFiles k hk
    refine ⟨f, hf, ?_⟩
    rw [he]; unfold entsOfMem; rw [hother k hne]
  curFile := by
    intro _
    obtain ⟨f, hf, hc⟩ := h.curFile rfl
    refine ⟨appendChunk c f, by simp [hf], ?_⟩
    simp only [appendChunk, hc]
    exact hshape
  curTxns := hok
  noHdr := hnh
  memFresh := by
    intro n hn
    have h1 := h.memFresh n hn
    have hne : n ≠ cur := by have := h.curLt; omega
    simp only [hne, if_false]
    exact ⟨h1.1, by rw [hother n hne]; exact h1.2⟩
  curLt := h.curLt
  immLt := h.immLt
  curNotImm := h.curNotImm
  immNodup := h.immNodup

theorem InvSst_mtxns (R : ViewRel) (tset : List (Nat × Nat)) (tcont : List (Nat × List CEnt))
    (imm : List Nat) (mtxns mtxns' : List (Nat × List Txn)) (fpc fsst nextSst : Nat)
    (kins : List Nat) (kout : List KOut) (Fs : Nat → Option Inode)
    (h : InvSst R tset tcont imm mtxns fpc fsst nextSst kins kout Fs)
    (hsame : ∀ k ∈ imm, aget k mtxns' = aget k mtxns) :
    InvSst R tset tcont imm mtxns' fpc fsst nextSst kins kout Fs :=
  { h with
    flush2 := by
      intro k hk h2 h4
      have hm : k ∈ imm := by cases imm with
        | nil => simp at hk
        | cons x xs => simp at hk; subst hk; simp
      have := h.flush2 k hk h2 h4
      unfold entsOfMem at this ⊢; rw [hsame k hm]; exact this
    flush5 := by
      intro k hk h5
      have hm : k ∈ imm := by cases imm with
        | nil => simp at hk
        | cons x xs => simp at hk; subst hk; simp
      have := h.flush5 k hk h5
      unfold entsOfMem at this ⊢; rw [hsame k hm]; exact this }

theorem Inv_mhdr (R : ViewRel) (s : PState) (F : KFs) (h : Inv R s F)
    (ho : s.curOpen = true) (hh : s.curHdr = false) :
    Inv R { s with curHdr := true } (upd F (.mem s.cur) ((F (.mem s.cur)).map (appendChunk .hdr))) where
  logic := h.logic
  manifest := ManifestOk_upd F _ _ _ (by simp) h.manifest
  mem := by
    have hm := h.mem
    rw [ho] at hm
    have hn := hm.noHdr hh
    have := InvMem_curAppend _ _ true _ _ _ s.mtxns _ s.pts _ s.pending _ .hdr hm
      (by rw [hh, hn.1, hn.2]; simp [walChunks, txnsChunks]) (fun _ _ => rfl) hm.curTxns (by intro e; cases e)
    rw [memView_upd_mem]
    show InvMem s.imm s.curOpen true s.cur s.nextMem s.mtxns s.pts s.pending _
    rw [ho]; exact this
  sst := by rw [sstView_upd_mem]; exact h.sst
  vlogNZ := by
    intro n f hf
    rw [upd_ne _ _ _ _ (by simp)] at hf
    exact h.vlogNZ n f hf

theorem Inv_wput (R : ViewRel) (s : PState) (F : KFs) (h : Inv R s F) (e : CEnt)
    (ho : s.curOpen = true) (hh : s.curHdr = true) :
    Inv R { s with pending := s.pending ++ [e] }
      (upd F (.mem s.cur) ((F (.mem s.cur)).map (appendChunk (.walEnt s.pts e)))) where
  logic := h.logic
  manifest := ManifestOk_upd F _ _ _ (by simp) h.manifest
  mem := by
    have hm := h.mem
    rw [ho] at hm
    have := InvMem_curAppend _ _ s.curHdr _ _ _ s.mtxns _ s.pts _ (s.pending ++ [e]) _ (.walEnt s.pts e) hm
      (by rw [hh]; simp [walChunks]) (fun _ _ => rfl) hm.curTxns (by intro e; rw [hh] at e; cases e)
    rw [memView_upd_mem]
    show InvMem s.imm s.curOpen s.curHdr s.cur s.nextMem s.mtxns s.pts (s.pending ++ [e]) _
    rw [ho]; exact this
  sst := by rw [sstView_upd_mem]; exact h.sst
  vlogNZ := by
    intro n f hf
    rw [upd_ne _ _ _ _ (by simp)] at hf
    exact h.vlogNZ n f hf

theorem Inv_fin (R : ViewRel) (s : PState) (F : KFs) (h : Inv R s F) (t : Txn)
    (hinf : s.inflight = some t) (ho : s.curOpen = true) (hh : s.curHdr = true)
    (hp : s.pending = t.ents) (hne : t.ents ≠ []) (hts : t.ts ≠ 0) :
    Inv R { s with mtxns := aset s.cur (s.memTxns s.cur ++ [t]) s.mtxns, pending := [],
                   inflight := none, done := s.done + 1 }
      (upd F (.mem s.cur) ((F (.mem s.cur)).map (appendChunk (.walFin s.pts)))) := by
  have hpts : s.pts = t.ts := by simp [PState.pts, hinf]
  have hcommits : s.commits = s.commits.take s.done ++ [t] := by
    have := h.logic.infl; simp only [hinf] at this; exact this
  have hlen : s.commits.length = s.done + 1 := by
    have h1 : (s.commits.take s.done).length = s.done := by
      simp [List.length_take, Nat.min_eq_left h.logic.done_le]
    have h2 := congrArg List.length hcommits
    simp only [List.length_append, List.length_cons, List.length_nil, h1] at h2
    omega
  have htake : s.commits.take (s.done + 1) = s.commits.take s.done ++ [t] := by
    have : s.commits.take (s.done + 1) = s.commits := by
      rw [← hlen]; exact List.take_length
    rw [this]; exact hcommits
  have hmk : ∀ k, k ≠ s.cur → aget k (aset s.cur (s.memTxns s.cur ++ [t]) s.mtxns) = aget k s.mtxns := by
    intro k hk
    rw [aget_aset]; simp [Ne.symm hk]
  have hmc : aget s.cur (aset s.cur (s.memTxns s.cur ++ [t]) s.mtxns) = some (s.memTxns s.cur ++ [t]) := by
    rw [aget_aset]; simp
  refine ⟨?_, ?_, ?_, ?_, ?_⟩
  · -- logic
    have hl : PState.lsmEnts { s with mtxns := aset s.cur (s.memTxns s.cur ++ [t]) s.mtxns, pending := [], inflight := none, done := s.done + 1 } = s.lsmEnts ++ t.ents := by
      show (s.tset.map (fun x => s.tableEnts x.1)).flatten ++
          (s.imm.map (fun k => txnsEnts ((aget k (aset s.cur (s.memTxns s.cur ++ [t]) s.mtxns)).getD []))).flatten ++
          (if s.curOpen then txnsEnts ((aget s.cur (aset s.cur (s.memTxns s.cur ++ [t]) s.mtxns)).getD []) else []) = _
      have himm : s.imm.map (fun k => txnsEnts ((aget k (aset s.cur (s.memTxns s.cur ++ [t]) s.mtxns)).getD []))
          = s.imm.map s.memEnts := by
        apply List.map_congr_left
        intro k hk
        have : k ≠ s.cur := fun e => h.mem.curNotImm ho (e ▸ hk)
        rw [hmk k this]; rfl
      rw [himm, hmc, ho]
      simp [PState.lsmEnts, ho, txnsEnts_append, txnsEnts, PState.memEnts, List.append_assoc]
    refine ⟨?_, ?_, ?_, ?_⟩
    · show R.r _ (txnsEnts (s.commits.take (s.done + 1)))
      rw [hl, htake, txnsEnts_append]
      have : txnsEnts [t] = t.ents := by simp [txnsEnts]
      rw [this]
      exact R.app_congr _ _ _ _ h.logic.view (R.refl _)
    · show s.acked ≤ s.done + 1
      have := h.logic.acked_le; omega
    · show s.done + 1 ≤ s.commits.length
      omega
    · show s.done + 1 = s.commits.length
      omega
  · exact ManifestOk_upd F _ _ _ (by simp) h.manifest
  · -- mem
    have hm := h.mem
    rw [ho] at hm
    have hshape : walChunks s.curHdr ((aget s.cur s.mtxns).getD []) s.pts s.pending ++ [Chunk.walFin s.pts] =
        walChunks s.curHdr ((aget s.cur (aset s.cur (s.memTxns s.cur ++ [t]) s.mtxns)).getD []) 0 [] := by
      rw [hmc, hh, hp, hpts]
      simp [walChunks, txnsChunks_append, txnsChunks, txnChunks, PState.memTxns, List.append_assoc]
    have hok : TxnsOk ((aget s.cur (aset s.cur (s.memTxns s.cur ++ [t]) s.mtxns)).getD []) := by
      rw [hmc]
      intro x hx
      rcases List.mem_append.mp hx with h1 | h1
      · exact hm.curTxns x h1
      · have : x = t := by simpa using h1
        subst this; exact ⟨hts, hne⟩
    have := InvMem_curAppend _ _ s.curHdr _ _ _ _ _ 0 _ [] _ (Chunk.walFin s.pts) hm hshape hmk hok
      (by intro e; rw [hh] at e; cases e)
    rw [memView_upd_mem]
    show InvMem s.imm s.curOpen s.curHdr s.cur s.nextMem _ (PState.pts { s with inflight := none }) [] _
    rw [ho]
    exact this
  · rw [sstView_upd_mem]
    exact InvSst_mtxns R _ _ _ _ _ _ _ _ _ _ _ h.sst
      (fun k hk => hmk k (fun e => h.mem.curNotImm ho (e ▸ hk)))
  · intro n f hf
    rw [upd_ne _ _ _ _ (by simp)] at hf
    exact h.vlogNZ n f hf

end Badger
