import BadgerModel.Oracle
import BadgerProofs.Lemmas.Oracle
/-!
Managed mode (`OpenManaged`): invariant of the oracle with conflict detection. The watermarks are
unused (`doneRead`/`doneCommit` do nothing, `readTs` is never called); the conflict log is pruned
by `SetDiscardTs`.
-/
namespace Badger

/-- The conflict log is pruned only at or below `lastCleanupTs ≤ discardTs`, and contains nothing
    that is not in the history. -/
structure MgdInv (s : Sys) : Prop where
  managed : s.o.isManaged = true
  detect : s.o.detectConflicts = true
  lcLe : s.o.lastCleanupTs ≤ s.o.discardTs
  kept : ∀ c ∈ s.hist, s.o.lastCleanupTs < c.ts → toCommitted c ∈ s.o.committedTxns
  fromHist : ∀ c ∈ s.o.committedTxns, ∃ h ∈ s.hist, toCommitted h = c

/-- The six components the invariant talks about. -/
theorem MgdInv.congr {s s' : Sys} (h : MgdInv s) (e1 : s'.o.isManaged = s.o.isManaged)
    (e2 : s'.o.detectConflicts = s.o.detectConflicts) (e3 : s'.o.lastCleanupTs = s.o.lastCleanupTs)
    (e4 : s'.o.discardTs = s.o.discardTs) (e5 : s'.o.committedTxns = s.o.committedTxns)
    (e6 : s'.hist = s.hist) : MgdInv s' := by
  refine ⟨by rw [e1]; exact h.managed, by rw [e2]; exact h.detect, by rw [e3, e4]; exact h.lcLe, ?_, ?_⟩
  · intro c hc hlt; rw [e5]; rw [e6] at hc; rw [e3] at hlt; exact h.kept c hc hlt
  · intro c hc; rw [e5] at hc; rw [e6]; exact h.fromHist c hc

/-- `cleanupCommittedTransactions` in managed mode with conflict detection, as a case table. -/
theorem Oracle.cleanup_managed (o : Oracle) (hm : o.isManaged = true) (hd : o.detectConflicts = true) :
    o.cleanup =
      if o.discardTs < o.lastCleanupTs then none
      else if o.discardTs = o.lastCleanupTs then some o
      else some { o with lastCleanupTs := o.discardTs,
                         committedTxns := o.committedTxns.filter (fun c => !(decide (c.ts ≤ o.discardTs))) } := by
  obtain ⟨m, dc, nx, tm, rm, dt, ct, lc⟩ := o
  simp only at hm hd
  subst hm hd
  simp [Oracle.cleanup]

/-- Pruning at a bound `b ≥ lastCleanupTs` keeps the invariant. -/
theorem MgdInv.prune {s : Sys} (h : MgdInv s) (o' : Oracle) (b : Nat) (hb : s.o.lastCleanupTs ≤ b)
    (e1 : o'.isManaged = s.o.isManaged) (e2 : o'.detectConflicts = s.o.detectConflicts)
    (e3 : o'.lastCleanupTs = b) (e4 : o'.discardTs = b)
    (e5 : o'.committedTxns = s.o.committedTxns.filter (fun c => !(decide (c.ts ≤ b)))) :
    MgdInv { s with o := o' } := by
  refine ⟨by simp only [e1]; exact h.managed, by simp only [e2]; exact h.detect,
    by simp only [e3, e4]; exact Nat.le_refl _, ?_, ?_⟩
  · intro c hc hlt
    simp only [e3] at hlt
    simp only [e5]
    apply List.mem_filter.mpr
    refine ⟨h.kept c hc (by omega), ?_⟩
    have : ¬ c.ts ≤ b := by omega
    simp [toCommitted, this]
  · intro c hc
    simp only [e5] at hc
    exact h.fromHist c (List.mem_filter.mp hc).1

theorem MgdInv.cleanup {s : Sys} (h : MgdInv s) (o' : Oracle) (ho : s.o.cleanup = some o') :
    MgdInv { s with o := o' } := by
  rw [Oracle.cleanup_managed _ h.managed h.detect] at ho
  split at ho
  · cases ho
  · split at ho
    · simp only [Option.some.injEq] at ho; subst ho; exact h
    · simp only [Option.some.injEq] at ho; subst ho
      exact h.prune _ s.o.discardTs h.lcLe rfl rfl rfl rfl rfl

theorem Oracle.newCommitTs_managed (o : Oracle) (t : Txn) (hm : o.isManaged = true)
    (hd : o.detectConflicts = true) :
    o.newCommitTs t =
      if o.hasConflict t then (o, t, .conflict)
      else if t.commitTs < o.lastCleanupTs then (o, t, .fatal)
      else ({ o with committedTxns := o.committedTxns ++ [⟨t.commitTs, t.conflictKeys⟩] }, t, .ok t.commitTs) := by
  unfold Oracle.newCommitTs
  split
  · rfl
  · rw [if_neg (by simp [hm])]

theorem ReachM.inv {n : Nat} {s : Sys} (h : OReach true true n s) : MgdInv s := by
  induction h with
  | init =>
    exact ⟨rfl, rfl, Nat.le_refl _, by simp [Sys.opened], by simp [Sys.opened, Oracle.opened]⟩
  | @step s s' l _ hstep ih =>
    have hm := ih.managed
    have same : ∀ s2 : Sys, some s2 = some s' → s2.o.isManaged = s.o.isManaged →
        s2.o.detectConflicts = s.o.detectConflicts →
        s2.o.lastCleanupTs = s.o.lastCleanupTs → s2.o.discardTs = s.o.discardTs →
        s2.o.committedTxns = s.o.committedTxns → s2.hist = s.hist → MgdInv s' := by
      intro s2 g a b c d e f
      simp only [Option.some.injEq] at g; subst g
      exact ih.congr a b c d e f
    cases l with
    | begin u => simp [Sys.step, hm] at hstep
    | commit tid => simp [Sys.step, hm] at hstep
    | waitCheck tid =>
      simp only [Sys.step] at hstep
      split at hstep
      · simp at hstep
      · cases hx : s.txns[tid]? with
        | none => rw [hx] at hstep; simp at hstep
        | some x =>
          rw [hx] at hstep; simp only at hstep
          split at hstep
          · simp at hstep
          · simp only [Oracle.readTsWait] at hstep
            split at hstep
            · simp only [if_true] at hstep; exact same _ hstep rfl rfl rfl rfl rfl rfl
            · simp only [Bool.false_eq_true, if_false] at hstep; exact same _ hstep rfl rfl rfl rfl rfl rfl
    | procTxnMark =>
      simp only [Sys.step] at hstep
      split at hstep
      · simp at hstep
      · cases hp : s.o.txnMark.process with
        | none => rw [hp] at hstep; simp at hstep
        | some r => obtain ⟨a, wk⟩ := r; rw [hp] at hstep; exact same _ hstep rfl rfl rfl rfl rfl rfl
    | procReadMark =>
      simp only [Sys.step] at hstep
      split at hstep
      · simp at hstep
      · cases hp : s.o.readMark.process with
        | none => rw [hp] at hstep; simp at hstep
        | some r => obtain ⟨a, wk⟩ := r; rw [hp] at hstep; exact same _ hstep rfl rfl rfl rfl rfl rfl
    | read tid fp =>
      simp only [Sys.step] at hstep
      split at hstep
      · simp at hstep
      · cases hx : s.txns[tid]? with
        | none => rw [hx] at hstep; simp at hstep
        | some x =>
          rw [hx] at hstep; simp only at hstep
          split at hstep
          · simp at hstep
          · split at hstep <;> exact same _ hstep rfl rfl rfl rfl rfl rfl
    | write tid fp =>
      simp only [Sys.step] at hstep
      split at hstep
      · simp at hstep
      · cases hx : s.txns[tid]? with
        | none => rw [hx] at hstep; simp at hstep
        | some x =>
          rw [hx] at hstep; simp only at hstep
          split at hstep
          · simp at hstep
          · exact same _ hstep rfl rfl rfl rfl rfl rfl
    | discard tid =>
      simp only [Sys.step] at hstep
      split at hstep
      · simp at hstep
      · cases hx : s.txns[tid]? with
        | none => rw [hx] at hstep; simp at hstep
        | some x =>
          rw [hx] at hstep; simp only at hstep
          split at hstep
          · simp at hstep
          · first
              | exact same _ hstep rfl rfl rfl rfl rfl rfl
              | (split at hstep
                 · exact same _ hstep rfl rfl rfl rfl rfl rfl
                 · rename_i hnm; exact absurd hm hnm)
    | doneCommit ts =>
      simp only [Sys.step] at hstep
      split at hstep
      · simp at hstep
      · have e : s.o.doneCommit ts = s.o := by simp [Oracle.doneCommit, hm]
        rw [e] at hstep
        exact same _ hstep rfl rfl rfl rfl rfl rfl
    | beginAt r u =>
      simp only [Sys.step] at hstep
      split at hstep
      · simp at hstep
      · exact same _ hstep rfl rfl rfl rfl rfl rfl
    | commitAt tid ts =>
      simp only [Sys.step] at hstep
      split at hstep
      · simp at hstep
      · cases hx : s.txns[tid]? with
        | none => rw [hx] at hstep; simp at hstep
        | some x =>
          rw [hx] at hstep; simp only at hstep
          split at hstep
          · simp at hstep
          · have hnc := Oracle.newCommitTs_managed s.o { x.t with commitTs := ts } hm ih.detect
            by_cases hcf : s.o.hasConflict { x.t with commitTs := ts } = true
            · rw [if_pos hcf] at hnc
              rw [hnc] at hstep
              exact same _ hstep rfl rfl rfl rfl rfl rfl
            · rw [if_neg hcf] at hnc
              by_cases hlt : ts < s.o.lastCleanupTs
              · rw [if_pos hlt] at hnc
                rw [hnc] at hstep
                exact same _ hstep rfl rfl rfl rfl rfl rfl
              · rw [if_neg hlt] at hnc
                rw [hnc] at hstep
                simp only [Option.some.injEq] at hstep; subst hstep
                refine ⟨hm, ih.detect, ih.lcLe, ?_, ?_⟩
                · intro c hc hlt'
                  simp only at hlt' hc ⊢
                  rcases List.mem_append.mp hc with hc | hc
                  · exact List.mem_append.mpr (.inl (ih.kept c hc hlt'))
                  · simp at hc; subst hc; simp [toCommitted]
                · intro c hc
                  simp only at hc ⊢
                  rcases List.mem_append.mp hc with hc | hc
                  · obtain ⟨h0, hh0, e⟩ := ih.fromHist c hc
                    exact ⟨h0, List.mem_append.mpr (.inl hh0), e⟩
                  · simp at hc; subst hc
                    exact ⟨_, List.mem_append.mpr (.inr (List.mem_singleton.mpr rfl)), rfl⟩
    | setDiscardTs ts =>
      simp only [Sys.step] at hstep
      split at hstep
      · simp at hstep
      · cases hc : s.o.setDiscardTs ts with
        | none => rw [hc] at hstep; exact same _ hstep rfl rfl rfl rfl rfl rfl
        | some o' =>
          rw [hc] at hstep; simp only [Option.some.injEq] at hstep; subst hstep
          -- `setDiscardTs` = set the field, then cleanup
          unfold Oracle.setDiscardTs at hc
          rw [Oracle.cleanup_managed { s.o with discardTs := ts } hm ih.detect] at hc
          simp only at hc
          split at hc
          · cases hc
          · split at hc
            · rename_i h1 h2
              simp only [Option.some.injEq] at hc; subst hc
              exact ⟨hm, ih.detect, by simp only; omega, ih.kept, ih.fromHist⟩
            · rename_i h1 h2
              simp only [Option.some.injEq] at hc; subst hc
              exact ih.prune _ ts (by omega) rfl rfl rfl rfl rfl
    | cleanup =>
      simp only [Sys.step] at hstep
      split at hstep
      · simp at hstep
      · cases hc : s.o.cleanup with
        | none => rw [hc] at hstep; exact same _ hstep rfl rfl rfl rfl rfl rfl
        | some o' =>
          rw [hc] at hstep; simp only [Option.some.injEq] at hstep; subst hstep
          exact ih.cleanup o' hc

end Badger
