import BadgerModel.Watermark
/-!
Invariants of the watermark `process` loop (`BadgerModel/Watermark.lean`) and the lemmas used by
`Props/C34.lean`.
-/
namespace Badger

/-! ## `Pending` -/

@[simp] theorem Pending.set_same (p : Pending) (i : Nat) (v : Int) : p.set i v i = some v := by
  simp [Pending.set]

theorem Pending.set_other (p : Pending) (i j : Nat) (v : Int) (h : j ≠ i) : p.set i v j = p j := by
  simp [Pending.set, h]

@[simp] theorem Pending.del_same (p : Pending) (i : Nat) : p.del i i = none := by
  simp [Pending.del]

theorem Pending.del_other (p : Pending) (i j : Nat) (h : j ≠ i) : p.del i j = p j := by
  simp [Pending.del, h]

theorem Pending.val_set_same (p : Pending) (i : Nat) (v : Int) : (p.set i v).val i = v := by
  simp [Pending.val]

theorem Pending.val_set_other (p : Pending) (i j : Nat) (v : Int) (h : j ≠ i) :
    (p.set i v).val j = p.val j := by
  simp [Pending.val, Pending.set_other _ _ _ _ h]

theorem Pending.val_pos_isSome (p : Pending) (i : Nat) (h : p.val i > 0) : (p i).isSome := by
  unfold Pending.val at h
  cases hp : p i with
  | none => rw [hp] at h; simp at h
  | some v => rfl

/-! ## the heap as a strictly sorted list -/

theorem mem_heapPush (x y : Nat) (h : List Nat) : y ∈ heapPush x h ↔ y = x ∨ y ∈ h := by
  induction h with
  | nil => simp [heapPush]
  | cons z zs ih =>
    simp only [heapPush]
    split
    · simp
    · simp [ih]; constructor
      · rintro (h | h | h) <;> simp [h]
      · rintro (h | h | h) <;> simp [h]

theorem heapPush_sorted (x : Nat) (h : List Nat) (hs : h.Pairwise (· < ·)) (hx : x ∉ h) :
    (heapPush x h).Pairwise (· < ·) := by
  induction h with
  | nil => simp [heapPush]
  | cons z zs ih =>
    simp only [heapPush]
    have hz := List.pairwise_cons.mp hs
    have hne : x ≠ z := by intro e; apply hx; simp [e]
    split
    · rename_i hle
      apply List.pairwise_cons.mpr
      refine ⟨?_, hs⟩
      intro a ha
      rcases List.mem_cons.mp ha with rfl | ha
      · omega
      · have := hz.1 a ha; omega
    · rename_i hle
      apply List.pairwise_cons.mpr
      refine ⟨?_, ih hz.2 (by intro hm; apply hx; simp [hm])⟩
      intro a ha
      rcases (mem_heapPush x a zs).mp ha with rfl | ha
      · omega
      · exact hz.1 a ha

/-! ## the pop loop -/

/-- What the pop loop guarantees, given a strictly sorted heap whose members are exactly the
    keys of `pending` and are all `≥ til`. -/
structure PopSpec (p : Pending) (h : List Nat) (t : Nat) (r : List Nat × Pending × Nat) : Prop where
  sorted : r.1.Pairwise (· < ·)
  sync : ∀ x, x ∈ r.1 ↔ (r.2.1 x).isSome
  ge : ∀ x ∈ r.1, r.2.2 ≤ x
  mono : t ≤ r.2.2
  headPos : ∀ x rest, r.1 = x :: rest → r.2.1.val x > 0
  keep : ∀ x ∈ r.1, r.2.1 x = p x
  sub : ∀ x ∈ r.1, x ∈ h
  popped : ∀ x ∈ h, x ∈ r.1 ∨ x ≤ r.2.2
  /-- either nothing was popped, or the watermark moved strictly below everything left -/
  strict : (r.1 = h ∧ r.2.2 = t) ∨ (∀ x ∈ r.1, r.2.2 < x)
  /-- the new watermark is the old one or a member of the old heap -/
  tilFrom : r.2.2 = t ∨ r.2.2 ∈ h
  /-- counts are untouched, except that entries with a count `≤ 0` may have been deleted -/
  vals : ∀ x, r.2.1.val x = p.val x ∨ (p.val x ≤ 0 ∧ r.2.1.val x = 0)

theorem popLoop_spec (p : Pending) (h : List Nat) (t : Nat)
    (hs : h.Pairwise (· < ·)) (hsync : ∀ x, x ∈ h ↔ (p x).isSome) (hge : ∀ x ∈ h, t ≤ x) :
    PopSpec p h t (popLoop p h t) := by
  induction h generalizing p t with
  | nil =>
    simp only [popLoop]
    exact ⟨hs, hsync, by simp, Nat.le_refl _, by simp, by simp, by simp, by simp, .inl ⟨rfl, rfl⟩, .inl rfl,
      fun x => .inl rfl⟩
  | cons m rest ih =>
    have hm := List.pairwise_cons.mp hs
    simp only [popLoop]
    split
    · rename_i hpos
      refine ⟨hs, hsync, hge, Nat.le_refl _, ?_, by simp, by simp, ?_, .inl ⟨rfl, rfl⟩, .inl rfl,
        fun x => .inl rfl⟩
      · intro x r e; cases e; exact hpos
      · intro x hx; exact .inl hx
    · rename_i hnpos
      have hsync' : ∀ x, x ∈ rest ↔ ((p.del m) x).isSome := by
        intro x
        by_cases hx : x = m
        · subst hx; simp
          intro hmem; have := hm.1 x hmem; omega
        · rw [Pending.del_other _ _ _ hx, ← hsync]; simp [hx]
      have hge' : ∀ x ∈ rest, m ≤ x := fun x hx => Nat.le_of_lt (hm.1 x hx)
      have r := ih (p.del m) m hm.2 hsync' hge'
      have hmt : t ≤ m := hge m (by simp)
      refine ⟨r.sorted, r.sync, r.ge, Nat.le_trans hmt r.mono, r.headPos, ?_, ?_, ?_, .inr ?_, .inr ?_, ?_⟩
      · intro x hx
        rw [r.keep x hx]
        have : x ≠ m := by
          intro e; subst e; have := hm.1 x (r.sub x hx); omega
        exact Pending.del_other _ _ _ this
      · intro x hx; exact List.mem_cons_of_mem _ (r.sub x hx)
      · intro x hx
        rcases List.mem_cons.mp hx with rfl | hx
        · exact .inr r.mono
        · exact r.popped x hx
      · rcases r.strict with ⟨e1, e2⟩ | hlt
        · intro x hx; rw [e2]; rw [e1] at hx; exact hm.1 x hx
        · exact hlt
      · rcases r.tilFrom with e | hmem
        · rw [e]; simp
        · exact List.mem_cons_of_mem _ hmem
      · intro x
        by_cases hx : x = m
        · subst hx
          have h0 : (p.del x).val x = 0 := by simp [Pending.val]
          right
          refine ⟨by omega, ?_⟩
          rcases r.vals x with e | ⟨_, e⟩
          · rw [e, h0]
          · exact e
        · have h0 : (p.del m).val x = p.val x := by simp [Pending.val, Pending.del_other _ _ _ hx]
          rcases r.vals x with e | ⟨e1, e2⟩
          · left; rw [e, h0]
          · right; exact ⟨by omega, e2⟩

/-! ## waiters -/

def Waiters.Sorted (ws : Waiters) : Prop := ws.Pairwise (fun a b => a.1 < b.1)

theorem Waiters.mem_add (idx w : Nat) (ws : Waiters) (p : Nat × List Nat) (h : p ∈ Waiters.add idx w ws) :
    p.1 = idx ∨ p ∈ ws := by
  induction ws with
  | nil => simp [Waiters.add] at h; left; rw [h]
  | cons q rest ih =>
    obtain ⟨k, l⟩ := q
    simp only [Waiters.add] at h
    split at h
    · rcases List.mem_cons.mp h with rfl | h
      · left; rfl
      · right; exact h
    · split at h
      · rename_i _ heq
        rcases List.mem_cons.mp h with rfl | h
        · left; exact heq.symm
        · right; exact List.mem_cons_of_mem _ h
      · rcases List.mem_cons.mp h with rfl | h
        · right; simp
        · rcases ih h with e | hm
          · left; exact e
          · right; exact List.mem_cons_of_mem _ hm

theorem Waiters.add_sorted (idx w : Nat) (ws : Waiters) (hs : ws.Sorted) : (Waiters.add idx w ws).Sorted := by
  induction ws with
  | nil => simp [Waiters.add, Waiters.Sorted]
  | cons q rest ih =>
    obtain ⟨k, l⟩ := q
    have hq := List.pairwise_cons.mp hs
    simp only [Waiters.add]
    split
    · rename_i hlt
      apply List.pairwise_cons.mpr
      refine ⟨?_, hs⟩
      intro a ha
      rcases List.mem_cons.mp ha with rfl | ha
      · exact hlt
      · have := hq.1 a ha; simp at this ⊢; omega
    · split
      · apply List.pairwise_cons.mpr
        exact ⟨hq.1, hq.2⟩
      · rename_i h1 h2
        apply List.pairwise_cons.mpr
        refine ⟨?_, ih hq.2⟩
        intro a ha
        rcases Waiters.mem_add idx w rest a ha with e | hm
        · simp; omega
        · exact hq.1 a hm

/-- Flattened view: which (waiter, idx) pairs are stored. -/
def Waiters.flat (ws : Waiters) : List Wakeup := ws.flatMap (fun p => wakeAll p.1 p.2)

theorem Waiters.mem_flat (ws : Waiters) (k : Wakeup) :
    k ∈ ws.flat ↔ ∃ p ∈ ws, p.1 = k.idx ∧ k.waiter ∈ p.2 := by
  unfold Waiters.flat wakeAll
  simp only [List.mem_flatMap, List.mem_map]
  constructor
  · rintro ⟨p, hp, w, hw, rfl⟩; exact ⟨p, hp, rfl, hw⟩
  · rintro ⟨p, hp, e, hw⟩; exact ⟨p, hp, k.waiter, hw, by cases k; simp at e ⊢; exact e⟩

theorem mem_wakeAll (i : Nat) (l : List Nat) (k : Wakeup) : k ∈ wakeAll i l ↔ k.idx = i ∧ k.waiter ∈ l := by
  unfold wakeAll
  simp only [List.mem_map]
  constructor
  · rintro ⟨w, hw, rfl⟩; exact ⟨rfl, hw⟩
  · rintro ⟨e, hw⟩; exact ⟨k.waiter, hw, by cases k; simp at e ⊢; exact e.symm⟩

theorem Waiters.flat_cons (q : Nat × List Nat) (l : Waiters) :
    Waiters.flat (q :: l) = wakeAll q.1 q.2 ++ Waiters.flat l := by
  simp [Waiters.flat]

theorem wakeup_eq_iff (k : Wakeup) (w idx : Nat) : k = ⟨w, idx⟩ ↔ k.idx = idx ∧ k.waiter = w := by
  cases k; simp; constructor <;> (rintro ⟨a, b⟩; exact ⟨b, a⟩)

theorem Waiters.flat_add (idx w : Nat) (ws : Waiters) (k : Wakeup) :
    k ∈ (Waiters.add idx w ws).flat ↔ k = ⟨w, idx⟩ ∨ k ∈ ws.flat := by
  have hk := wakeup_eq_iff k w idx
  induction ws with
  | nil =>
    simp only [Waiters.add, Waiters.flat_cons, List.mem_append, mem_wakeAll, hk]
    simp [Waiters.flat]
  | cons q rest ih =>
    obtain ⟨q1, q2⟩ := q
    simp only [Waiters.add]
    split
    · simp only [Waiters.flat_cons, List.mem_append, mem_wakeAll, hk]
      simp
    · split
      · rename_i _ heq
        subst heq
        simp only [Waiters.flat_cons, List.mem_append, mem_wakeAll, hk, List.mem_append]
        simp
        constructor
        · rintro (⟨e, h | h⟩ | h)
          · right; left; exact ⟨e, h⟩
          · left; exact ⟨e, h⟩
          · right; right; exact h
        · rintro (⟨e, h⟩ | ⟨e, h⟩ | h)
          · left; exact ⟨e, .inr h⟩
          · left; exact ⟨e, .inl h⟩
          · right; exact h
      · simp only [Waiters.flat_cons, List.mem_append]
        constructor
        · rintro (h | h)
          · right; left; exact h
          · rcases ih.mp h with h | h
            · left; exact h
            · right; right; exact h
        · rintro (h | h | h)
          · right; exact ih.mpr (.inl h)
          · left; exact h
          · right; exact ih.mpr (.inr h)

/-! ## the two notification paths -/

theorem lookup_none_of_lt (ws : Waiters) (lo : Nat) (h : ∀ p ∈ ws, lo < p.1) : ws.get lo = none := by
  induction ws with
  | nil => rfl
  | cons q rest ih =>
    obtain ⟨k, l⟩ := q
    have hk : lo < k := h (k, l) (by simp)
    unfold Waiters.get
    rw [List.lookup_cons]
    have : (lo == k) = false := by simp; omega
    rw [this]
    exact ih (fun p hp => h p (List.mem_cons_of_mem _ hp))

theorem del_of_lt (ws : Waiters) (lo : Nat) (h : ∀ p ∈ ws, lo < p.1) : ws.del lo = ws := by
  unfold Waiters.del
  apply List.filter_eq_self.mpr
  intro p hp
  have := h p hp
  simp; omega

/-- On a sorted waiter map whose keys are all `≥ lo`, walking the `n` indices `lo, lo+1, …`
    (first path) releases exactly the entries with key `< lo + n` and keeps the others (which is
    what the second path computes with `til = lo + n - 1`). -/
theorem notifyRange_eq (ws : Waiters) (lo n : Nat) (hs : ws.Sorted) (hlo : ∀ p ∈ ws, lo ≤ p.1) :
    notifyRange ws lo n =
      (ws.filter (fun p => !(decide (p.1 < lo + n))),
       (ws.filter (fun p => decide (p.1 < lo + n))).flatMap (fun p => wakeAll p.1 p.2)) := by
  induction n generalizing ws lo with
  | zero =>
    simp only [notifyRange, Nat.add_zero]
    have h1 : ws.filter (fun p => !(decide (p.1 < lo))) = ws := by
      apply List.filter_eq_self.mpr
      intro p hp; have := hlo p hp; simp; omega
    have h2 : ws.filter (fun p => decide (p.1 < lo)) = [] := by
      apply List.filter_eq_nil_iff.mpr
      intro p hp; have := hlo p hp; simp; omega
    rw [h1, h2]; rfl
  | succ n ih =>
    cases ws with
    | nil =>
      simp only [notifyRange, Waiters.get, List.lookup]
      rw [ih [] (lo + 1) hs (by simp)]
      simp
    | cons q rest =>
      obtain ⟨k, l⟩ := q
      have hq := List.pairwise_cons.mp hs
      have hk : lo ≤ k := hlo (k, l) (by simp)
      by_cases hkl : k = lo
      · subst hkl
        have hrest : ∀ p ∈ rest, k + 1 ≤ p.1 := fun p hp => hq.1 p hp
        have hget : Waiters.get ((k, l) :: rest) k = some l := by
          simp [Waiters.get]
        have hdel : Waiters.del ((k, l) :: rest) k = rest := by
          unfold Waiters.del
          rw [List.filter_cons]
          simp
          intro a b hab
          have := hq.1 (a, b) hab
          simp at this; omega
        simp only [notifyRange, hget, hdel]
        rw [ih rest (k + 1) hq.2 hrest]
        have e : k + 1 + n = k + (n + 1) := by omega
        rw [e]
        simp
      · have hlt : lo < k := by omega
        have hall : ∀ p ∈ (k, l) :: rest, lo < p.1 := by
          intro p hp
          rcases List.mem_cons.mp hp with rfl | hp
          · exact hlt
          · have := hq.1 p hp; simp at this; omega
        have hget := lookup_none_of_lt _ lo hall
        simp only [notifyRange, hget]
        rw [ih ((k, l) :: rest) (lo + 1) hs (fun p hp => hall p hp)]
        have e : lo + 1 + n = lo + (n + 1) := by omega
        rw [e]

theorem notifyMap_eq_lt (ws : Waiters) (til : Nat) :
    notifyMap ws til =
      (ws.filter (fun p => !(decide (p.1 < til + 1))),
       (ws.filter (fun p => decide (p.1 < til + 1))).flatMap (fun p => wakeAll p.1 p.2)) := by
  unfold notifyMap
  have : (fun p : Nat × List Nat => decide (p.1 ≤ til)) = (fun p => decide (p.1 < til + 1)) := by
    funext p; simp [Nat.lt_succ_iff]
  have h2 : (fun p : Nat × List Nat => !decide (p.1 ≤ til)) = (fun p => !decide (p.1 < til + 1)) := by
    funext p; simp [Nat.lt_succ_iff]
  rw [this, h2]

/-- **The two notification paths compute the same thing** whenever the stored waiters are
    sorted, all strictly above the old `doneUntil`, and `doneUntil ≤ til`. -/
theorem notifyRange_eq_notifyMap (ws : Waiters) (d til : Nat) (hs : ws.Sorted)
    (hw : ∀ p ∈ ws, d < p.1) (hd : d ≤ til) :
    notifyRange ws (d + 1) (til - d) = notifyMap ws til := by
  rw [notifyRange_eq ws (d + 1) (til - d) hs (fun p hp => hw p hp), notifyMap_eq_lt]
  have : d + 1 + (til - d) = til + 1 := by omega
  rw [this]

theorem notify_eq_notifyMap (ws : Waiters) (d til : Nat) (hs : ws.Sorted)
    (hw : ∀ p ∈ ws, d < p.1) (hd : d ≤ til) : notify ws d til = notifyMap ws til := by
  unfold notify
  split
  · exact notifyRange_eq_notifyMap ws d til hs hw hd
  · rfl

end Badger
