import BadgerProofs.Lemmas.CrashStep2
/-!
# Preservation of `Inv` (part 3: the flusher, the start of a logical step, and the dispatch)
-/
namespace Badger

/-! ### flusher -/

theorem head?_mem {α : Type} (l : List α) (k : α) (h : l.head? = some k) : k ∈ l := by
  cases l with
  | nil => simp at h
  | cons x xs => simp at h; subst h; simp

/-- fpc 0 → 1: the table file is created -/
theorem Inv_flush0 (R : ViewRel) (s : PState) (F : KFs) (h : Inv R s F) (hi : s.imm ≠ []) (hp : s.fpc = 0) :
    Inv R { s with fpc := 1, fsst := s.nextSst, nextSst := s.nextSst + 1 }
      (upd F (.sst s.nextSst) (some { chunks := [], size := .alloc })) where
  logic := h.logic
  manifest := ManifestOk_upd F _ _ _ (by simp) h.manifest
  mem := by rw [memView_upd_sst]; exact h.mem
  sst := by
    rw [sstView_upd_sst]
    have hs := h.sst
    have hfr := hs.sstFresh s.nextSst (Nat.le_refl _)
    exact {
      tables := by
        intro x hx
        have : x.1 ≠ s.nextSst := (aget_none_iff _ _).mp hfr.2 x hx
        simp only [this, if_false]; exact hs.tables x hx
      sstFresh := by
        intro n hn
        have hn' : s.nextSst + 1 ≤ n := hn
        have h1 := hs.sstFresh n (by omega)
        have : n ≠ s.nextSst := by omega
        simp [this, h1.1, h1.2]
      idle := by intro e; exact absurd e hi
      fsstLt := by intro _ _; show s.nextSst < s.nextSst + 1; omega
      flush1 := by intro _ _; exact ⟨{ chunks := [], size := .alloc }, by simp, rfl⟩
      flush2 := by intro k _ h2 _; exact absurd h2 (by show ¬ 2 ≤ 1; omega)
      flush5 := by intro k _ h5; exact absurd h5 (by show ¬ 5 ≤ 1; omega)
      koutLt := by intro o ho; have := hs.koutLt o ho; show o.id < s.nextSst + 1; omega
      koutNodup := hs.koutNodup
      koutFiles := by
        intro o ho
        have : o.id ≠ s.nextSst := by have := hs.koutLt o ho; omega
        constructor
        · intro h1; simp only [this, if_false]; exact (hs.koutFiles o ho).1 h1
        · intro h1; simp only [this, if_false]; exact (hs.koutFiles o ho).2 h1
      kview := hs.kview
      kinsIn := hs.kinsIn }
  vlogNZ := by
    intro n f hf
    rw [upd_ne _ _ _ _ (by simp)] at hf
    exact h.vlogNZ n f hf

/-- fpc 1 → 2: the table content is stored -/
theorem Inv_flush1 (R : ViewRel) (s : PState) (F : KFs) (h : Inv R s F) (k : Nat) (rest : List Nat)
    (hi : s.imm = k :: rest) (hp : s.fpc = 1) (hts : aget s.fsst s.tset = none)
    (hko : ∀ o ∈ s.kout, o.id ≠ s.fsst) :
    Inv R { s with fpc := 2 }
      (upd F (.sst s.fsst) ((F (.sst s.fsst)).map (appendChunk (.table (s.memEnts k))))) where
  logic := h.logic
  manifest := ManifestOk_upd F _ _ _ (by simp) h.manifest
  mem := by rw [memView_upd_sst]; exact h.mem
  sst := by
    rw [sstView_upd_sst]
    have hs := h.sst
    have hne : s.imm ≠ [] := by rw [hi]; simp
    obtain ⟨f, hf, hc⟩ := hs.flush1 hne hp
    exact {
      tables := by
        intro x hx
        have : x.1 ≠ s.fsst := (aget_none_iff _ _).mp hts x hx
        simp only [this, if_false]; exact hs.tables x hx
      sstFresh := by
        intro n hn
        have h1 := hs.sstFresh n hn
        have : n ≠ s.fsst := by have := hs.fsstLt hne (by omega); have hn' : s.nextSst ≤ n := hn; omega
        simp [this, h1.1, h1.2]
      idle := by intro e; exact absurd e hne
      fsstLt := fun a _ => hs.fsstLt a (by omega)
      flush1 := by intro _ h1; exact absurd h1 (by show ¬ 2 = 1; omega)
      flush2 := by
        intro k' hk' _ _
        have : k' = k := by rw [hi] at hk'; simpa using hk'.symm
        subst this
        have hf' : F (.sst s.fsst) = some f := hf
        exact ⟨appendChunk (.table (s.memEnts k')) f, by simp [hf'], by simp [appendChunk, hc]; rfl⟩
      flush5 := by intro k' _ h5; exact absurd h5 (by show ¬ 5 ≤ 2; omega)
      koutLt := hs.koutLt
      koutNodup := hs.koutNodup
      koutFiles := by
        intro o ho
        have := hko o ho
        constructor
        · intro h1; simp only [this, if_false]; exact (hs.koutFiles o ho).1 h1
        · intro h1; simp only [this, if_false]; exact (hs.koutFiles o ho).2 h1
      kview := hs.kview
      kinsIn := hs.kinsIn }
  vlogNZ := by
    intro n f hf
    rw [upd_ne _ _ _ _ (by simp)] at hf
    exact h.vlogNZ n f hf

/-- fpc moves inside 2..4 (msync of the table, directory fsync of the fixed variant) -/
theorem Inv_flushMid (R : ViewRel) (s : PState) (F : KFs) (h : Inv R s F) (p' : Nat)
    (h2 : 2 ≤ s.fpc) (h4 : s.fpc ≤ 4) (h2' : 2 ≤ p') (h4' : p' ≤ 4) :
    Inv R { s with fpc := p' } F where
  logic := h.logic
  manifest := h.manifest
  mem := h.mem
  sst := by
    have hs := h.sst
    have hne : s.imm ≠ [] := by intro e; have := hs.idle e; omega
    exact { hs with
      idle := by intro e; exact absurd e hne
      fsstLt := fun a _ => hs.fsstLt a (by omega)
      flush1 := by intro _ h1; have : p' = 1 := h1; omega
      flush2 := by intro k hk _ _; exact hs.flush2 k hk h2 h4
      flush5 := by intro k _ h5; have : 5 ≤ p' := h5; omega }
  vlogNZ := h.vlogNZ

/-- fpc 4 → 5: the MANIFEST records the table -/
theorem Inv_flush4 (R : ViewRel) (s : PState) (F : KFs) (h : Inv R s F) (k : Nat) (rest : List Nat)
    (hi : s.imm = k :: rest) (hp : s.fpc = 4) (hts : aget s.fsst s.tset = none) :
    Inv R { s with fpc := 5, tset := aset s.fsst 0 s.tset, tcont := (s.fsst, s.memEnts k) :: s.tcont }
      (upd F .manifest ((F .manifest).map (appendChunk (.mset [.create s.fsst 0])))) := by
  have hs := h.sst
  have hne : s.imm ≠ [] := by rw [hi]; simp
  have hhead : s.imm.head? = some k := by rw [hi]; rfl
  have hmemT : ∀ x, x ∈ aset s.fsst 0 s.tset ↔ x = (s.fsst, 0) ∨ x ∈ s.tset := fun x => mem_aset_of_none _ _ _ _ hts
  have hcontNew : entsOfTable ((s.fsst, s.memEnts k) :: s.tcont) s.fsst = s.memEnts k := by
    simp [entsOfTable, aget]
  have hcontOld : ∀ id, id ≠ s.fsst → entsOfTable ((s.fsst, s.memEnts k) :: s.tcont) id = entsOfTable s.tcont id := by
    intro id hid
    have : ¬ s.fsst = id := fun e => hid e.symm
    simp [entsOfTable, aget, this]
  refine ⟨?_, ?_, ?_, ?_, ?_⟩
  · have hl := h.logic
    refine ⟨?_, hl.acked_le, hl.done_le, hl.infl⟩
    show R.r (((aset s.fsst 0 s.tset).map (fun x => entsOfTable ((s.fsst, s.memEnts k) :: s.tcont) x.1)).flatten ++
      (s.imm.map s.memEnts).flatten ++ (if s.curOpen then s.memEnts s.cur else [])) _
    refine R.trans _ _ _ (R.of_mem_iff _ _ ?_) hl.view
    intro e
    unfold PState.lsmEnts
    simp only [List.mem_append, mem_flatten_map]
    constructor
    · rintro ((⟨x, hx, he⟩ | h2) | h2)
      · rcases (hmemT x).mp hx with hx | hx
        · subst hx
          rw [hcontNew] at he
          exact Or.inl (Or.inr ⟨k, by rw [hi]; simp, he⟩)
        · have : x.1 ≠ s.fsst := (aget_none_iff _ _).mp hts x hx
          rw [hcontOld _ this] at he
          exact Or.inl (Or.inl ⟨x, hx, he⟩)
      · exact Or.inl (Or.inr h2)
      · exact Or.inr h2
    · rintro ((⟨x, hx, he⟩ | h2) | h2)
      · have : x.1 ≠ s.fsst := (aget_none_iff _ _).mp hts x hx
        exact Or.inl (Or.inl ⟨x, (hmemT x).mpr (Or.inr hx), by rw [hcontOld _ this]; exact he⟩)
      · exact Or.inl (Or.inr h2)
      · exact Or.inr h2
  · have := ManifestOk_append F s.tset (aset s.fsst 0 s.tset) [.create s.fsst 0] h.manifest
      (by simp [applyMSet, applyMChange, hts])
    rw [← krun_append1]; exact this
  · rw [memView_upd_manifest]; exact h.mem
  · rw [sstView_upd_manifest]
    exact {
      tables := by
        intro x hx
        rcases (hmemT x).mp hx with hx | hx
        · subst hx
          obtain ⟨f, hf, hc⟩ := hs.flush2 k hhead (by omega) (by omega)
          exact ⟨f, hf, by rw [hc]; show _ = [Chunk.table (entsOfTable ((s.fsst, s.memEnts k) :: s.tcont) s.fsst)]; rw [hcontNew]; rfl⟩
        · have : x.1 ≠ s.fsst := (aget_none_iff _ _).mp hts x hx
          obtain ⟨f, hf, hc⟩ := hs.tables x hx
          exact ⟨f, hf, by rw [hc]; show _ = [Chunk.table (entsOfTable ((s.fsst, s.memEnts k) :: s.tcont) x.1)]; rw [hcontOld _ this]⟩
      sstFresh := by
        intro n hn
        have h1 := hs.sstFresh n hn
        refine ⟨h1.1, ?_⟩
        have : s.fsst ≠ n := by have := hs.fsstLt hne (by omega); have hn' : s.nextSst ≤ n := hn; omega
        show aget n (aset s.fsst 0 s.tset) = none
        rw [aget_aset]; simp [this, h1.2]
      idle := by intro e; exact absurd e hne
      fsstLt := fun a _ => hs.fsstLt a (by omega)
      flush1 := by intro _ h1; exact absurd h1 (by show ¬ 5 = 1; omega)
      flush2 := by intro k' _ _ h4; exact absurd h4 (by show ¬ 5 ≤ 4; omega)
      flush5 := by
        intro k' hk' _
        have : k' = k := by rw [hi] at hk'; simpa using hk'.symm
        subst this
        refine ⟨?_, ?_⟩
        · show (aget s.fsst (aset s.fsst 0 s.tset)).isSome = true
          rw [aget_aset]; simp
        · show entsOfTable ((s.fsst, s.memEnts k') :: s.tcont) s.fsst = _
          rw [hcontNew]; rfl
      koutLt := hs.koutLt
      koutNodup := hs.koutNodup
      koutFiles := hs.koutFiles
      kview := by
        intro hk
        have := hs.kview hk
        have e : s.kins.map (entsOfTable ((s.fsst, s.memEnts k) :: s.tcont)) = s.kins.map (entsOfTable s.tcont) := by
          apply List.map_congr_left
          intro id hid
          apply hcontOld
          intro e2
          have := hs.kinsIn id hid
          rw [e2, hts] at this; cases this
        show R.r _ (s.kins.map (entsOfTable ((s.fsst, s.memEnts k) :: s.tcont))).flatten
        rw [e]; exact this
      kinsIn := by
        intro id hid
        show (aget id (aset s.fsst 0 s.tset)).isSome = true
        rw [aget_aset]
        by_cases e : s.fsst = id
        · simp [e]
        · simp [e, hs.kinsIn id hid] }
  · intro n f hf
    rw [upd_ne _ _ _ _ (by simp)] at hf
    exact h.vlogNZ n f hf

/-- fpc 5 → 6: fsync of the MANIFEST -/
theorem Inv_flush5 (R : ViewRel) (s : PState) (F : KFs) (h : Inv R s F) (hp : s.fpc = 5) :
    Inv R { s with fpc := 6 } F where
  logic := h.logic
  manifest := h.manifest
  mem := h.mem
  sst := by
    have hs := h.sst
    have hne : s.imm ≠ [] := by intro e; have := hs.idle e; omega
    exact { hs with
      idle := by intro e; exact absurd e hne
      fsstLt := fun a _ => hs.fsstLt a (by omega)
      flush1 := by intro _ h1; exact absurd h1 (by show ¬ 6 = 1; omega)
      flush2 := by intro k _ _ h4; exact absurd h4 (by show ¬ 6 ≤ 4; omega)
      flush5 := by intro k hk _; exact hs.flush5 k hk (by omega) }
  vlogNZ := h.vlogNZ

/-- the last atom of a flush: the WAL of the flushed memtable is deleted -/
theorem Inv_flushDel (R : ViewRel) (s : PState) (F : KFs) (h : Inv R s F) (k : Nat) (rest : List Nat)
    (hi : s.imm = k :: rest)
    (hcov : ∀ e ∈ s.memEnts k, e ∈ (s.tset.map (fun x => s.tableEnts x.1)).flatten) :
    Inv R { s with imm := rest, fpc := 0 } (upd F (.mem k) none) := by
  have hm := h.mem
  have hnd : k ∉ rest ∧ rest.Nodup := by have := hm.immNodup; rw [hi] at this; simpa using this
  refine ⟨?_, ?_, ?_, ?_, ?_⟩
  · have hl := h.logic
    refine ⟨?_, hl.acked_le, hl.done_le, hl.infl⟩
    show R.r ((s.tset.map (fun x => s.tableEnts x.1)).flatten ++ (rest.map s.memEnts).flatten ++
      (if s.curOpen then s.memEnts s.cur else [])) _
    refine R.trans _ _ _ (R.of_mem_iff _ _ ?_) hl.view
    intro e
    unfold PState.lsmEnts
    rw [hi]
    simp only [List.map, List.flatten_cons, List.mem_append]
    constructor
    · rintro ((h1 | h1) | h1)
      · exact Or.inl (Or.inl h1)
      · exact Or.inl (Or.inr (Or.inr h1))
      · exact Or.inr h1
    · rintro ((h1 | h1 | h1) | h1)
      · exact Or.inl (Or.inl h1)
      · exact Or.inl (Or.inl (hcov e h1))
      · exact Or.inl (Or.inr h1)
      · exact Or.inr h1
  · exact ManifestOk_upd F _ _ _ (by simp) h.manifest
  · rw [memView_upd_mem]
    have hkc : s.curOpen = true → k ≠ s.cur := by
      intro ho e; exact hm.curNotImm ho (by rw [hi, ← e]; simp)
    exact {
      memNZ := by
        intro n f hf
        by_cases hn : n = k
        · simp [hn] at hf
        · simp only [hn, if_false] at hf; exact hm.memNZ n f hf
      memKnown := by
        intro n hn
        by_cases hnk : n = k
        · simp [hnk] at hn
        · simp only [hnk, if_false] at hn
          rcases hm.memKnown n hn with h1 | h1
          · rw [hi] at h1
            rcases List.mem_cons.mp h1 with h1 | h1
            · exact absurd h1 hnk
            · exact Or.inl h1
          · exact Or.inr h1
      immFiles := by
        intro k' hk'
        have : k' ≠ k := fun e => hnd.1 (e ▸ hk')
        simp only [this, if_false]
        exact hm.immFiles k' (by rw [hi]; exact List.mem_cons_of_mem _ hk')
      curFile := by
        intro ho
        have : s.cur ≠ k := fun e => hkc ho e.symm
        simp only [this, if_false]
        exact hm.curFile ho
      curTxns := hm.curTxns
      noHdr := hm.noHdr
      memFresh := by
        intro n hn
        have h1 := hm.memFresh n hn
        by_cases hnk : n = k <;> simp [hnk, h1.1, h1.2]
        exact hnk ▸ h1.2
      curLt := hm.curLt
      immLt := by intro k' hk'; exact hm.immLt k' (by rw [hi]; exact List.mem_cons_of_mem _ hk')
      curNotImm := by
        intro ho hin; exact hm.curNotImm ho (by rw [hi]; exact List.mem_cons_of_mem _ hin)
      immNodup := hnd.2 }
  · rw [sstView_upd_mem]
    have hs := h.sst
    exact { hs with
      idle := by intro _; rfl
      fsstLt := by intro _ h1; exact absurd h1 (by show ¬ 1 ≤ 0; omega)
      flush1 := by intro _ h1; exact absurd h1 (by show ¬ 0 = 1; omega)
      flush2 := by intro k' _ h2 _; exact absurd h2 (by show ¬ 2 ≤ 0; omega)
      flush5 := by intro k' _ h5; exact absurd h5 (by show ¬ 5 ≤ 0; omega) }
  · intro n f hf
    rw [upd_ne _ _ _ _ (by simp)] at hf
    exact h.vlogNZ n f hf

/-! ### starting a logical step -/

theorem Inv_wq (R : ViewRel) (s : PState) (F : KFs) (h : Inv R s F) (w : List Atom) :
    Inv R { s with wq := w } F := ⟨h.logic, h.manifest, h.mem, h.sst, h.vlogNZ⟩

theorem InvMem_pts_nil (imm : List Nat) (curOpen curHdr : Bool) (cur nextMem : Nat)
    (mtxns : List (Nat × List Txn)) (pts pts' : Nat) (Fm : Nat → Option Inode)
    (h : InvMem imm curOpen curHdr cur nextMem mtxns pts [] Fm) :
    InvMem imm curOpen curHdr cur nextMem mtxns pts' [] Fm :=
  { h with curFile := by intro ho; rw [walChunks_nil_pts _ _ pts' pts]; exact h.curFile ho }

theorem Inv_commitStart (R : ViewRel) (s : PState) (F : KFs) (h : Inv R s F) (t : Txn) (w : List Atom) (n : Nat)
    (hinf : s.inflight = none) (hp : s.pending = []) :
    Inv R { s with wq := w, nextTs := n, commits := s.commits ++ [t], inflight := some t } F where
  logic := by
    have hl := h.logic
    have hd : s.done = s.commits.length := by have := hl.infl; simp only [hinf] at this; exact this
    refine ⟨?_, hl.acked_le, ?_, ?_⟩
    · show R.r s.lsmEnts (txnsEnts ((s.commits ++ [t]).take s.done))
      rw [List.take_append_of_le_length hl.done_le]; exact hl.view
    · show s.done ≤ (s.commits ++ [t]).length
      simp; omega
    · show s.commits ++ [t] = (s.commits ++ [t]).take s.done ++ [t]
      rw [hd]; simp
  manifest := h.manifest
  mem := by
    have hm := h.mem
    rw [hp] at hm
    have := InvMem_pts_nil _ _ _ _ _ _ _ (PState.pts { s with inflight := some t }) _ hm
    show InvMem s.imm s.curOpen s.curHdr s.cur s.nextMem s.mtxns _ s.pending _
    rw [hp]; exact this
  sst := h.sst
  vlogNZ := h.vlogNZ

theorem map_snd_zip_eq {α β : Type} (a : List α) (b : List β) (h : a.length = b.length) :
    (a.zip b).map Prod.snd = b := by
  induction a generalizing b with
  | nil => cases b with
    | nil => rfl
    | cons _ _ => simp at h
  | cons x xs ih => cases b with
    | nil => simp at h
    | cons y ys => simp at h; simp [ih ys h]

theorem map_fst_zip_eq {α β : Type} (a : List α) (b : List β) (h : a.length = b.length) :
    (a.zip b).map Prod.fst = a := by
  induction a generalizing b with
  | nil => rfl
  | cons x xs ih => cases b with
    | nil => simp at h
    | cons y ys => simp at h; simp [ih ys h]

theorem nodup_range_add (n k : Nat) : ((List.range n).map (· + k)).Nodup := by
  have h : (List.range n).Pairwise (· ≠ ·) := List.nodup_range
  exact List.Pairwise.map _ (fun a b (hab : a ≠ b) => by show a + k ≠ b + k; omega) h

theorem Inv_compactStart (R : ViewRel) (s : PState) (F : KFs) (h : Inv R s F) (w : List Atom)
    (ins : List Nat) (outs : List (Nat × List CEnt))
    (hins : ∀ id ∈ ins, (aget id s.tset).isSome = true)
    (hR : R.r (outs.map (·.2)).flatten (ins.map s.tableEnts).flatten) :
    Inv R { s with wq := w, nextSst := s.nextSst + outs.length, kins := ins,
                   kout := (((List.range outs.length).map (· + s.nextSst)).zip outs).map
                     (fun (id, o) => { id := id, level := o.1, ents := o.2 }) } F where
  logic := h.logic
  manifest := h.manifest
  mem := h.mem
  sst := by
    have hs := h.sst
    have hlen : ((List.range outs.length).map (· + s.nextSst)).length = outs.length := by simp
    have hids : ((((List.range outs.length).map (· + s.nextSst)).zip outs).map
        (fun (x : Nat × Nat × List CEnt) => ({ id := x.1, level := x.2.1, ents := x.2.2 } : KOut))).map (·.id) =
        (List.range outs.length).map (· + s.nextSst) := by
      rw [List.map_map]
      have : ((fun (o : KOut) => o.id) ∘ fun (x : Nat × Nat × List CEnt) => ({ id := x.1, level := x.2.1, ents := x.2.2 } : KOut)) = Prod.fst := by
        funext x; rfl
      rw [this]; exact map_fst_zip_eq _ _ hlen
    have hents : ((((List.range outs.length).map (· + s.nextSst)).zip outs).map
        (fun (x : Nat × Nat × List CEnt) => ({ id := x.1, level := x.2.1, ents := x.2.2 } : KOut))).map (·.ents) =
        outs.map (·.2) := by
      rw [List.map_map]
      have : ((fun (o : KOut) => o.ents) ∘ fun (x : Nat × Nat × List CEnt) => ({ id := x.1, level := x.2.1, ents := x.2.2 } : KOut)) = (fun p => p.2) ∘ Prod.snd := by
        funext x; rfl
      rw [this, ← List.map_map, map_snd_zip_eq _ _ hlen]
    exact {
      tables := hs.tables
      sstFresh := by intro n hn; have hn' : s.nextSst + outs.length ≤ n := hn; exact hs.sstFresh n (by omega)
      idle := hs.idle
      fsstLt := by intro a b; have := hs.fsstLt a b; show s.fsst < s.nextSst + outs.length; omega
      flush1 := hs.flush1
      flush2 := hs.flush2
      flush5 := hs.flush5
      koutLt := by
        intro o ho
        have : o.id ∈ (List.range outs.length).map (· + s.nextSst) := by rw [← hids]; exact List.mem_map_of_mem ho
        obtain ⟨i, hi, he⟩ := List.mem_map.mp this
        have := List.mem_range.mp hi
        show o.id < s.nextSst + outs.length
        omega
      koutNodup := by rw [hids]; exact nodup_range_add _ _
      koutFiles := by
        intro o ho
        obtain ⟨x, _, he⟩ := List.mem_map.mp ho
        have : o.stage = 0 := by rw [← he]
        constructor <;> intro h1 <;> omega
      kview := by intro _; rw [hents]; exact hR
      kinsIn := hins }
  vlogNZ := h.vlogNZ

/-! ### fields the invariant does not look at -/

/-- `s2` agrees with `s1` on everything `Inv` mentions (it may differ in the writer's program and
    in the durability bookkeeping: `curDirty curDurEntry mdirty tsetD kdir pendU wq …`) -/
structure CoreEq (s1 s2 : PState) : Prop where
  imm : s2.imm = s1.imm
  curOpen : s2.curOpen = s1.curOpen
  curHdr : s2.curHdr = s1.curHdr
  cur : s2.cur = s1.cur
  nextMem : s2.nextMem = s1.nextMem
  mtxns : s2.mtxns = s1.mtxns
  inflight : s2.inflight = s1.inflight
  pending : s2.pending = s1.pending
  fpc : s2.fpc = s1.fpc
  fsst : s2.fsst = s1.fsst
  nextSst : s2.nextSst = s1.nextSst
  tset : s2.tset = s1.tset
  tcont : s2.tcont = s1.tcont
  kins : s2.kins = s1.kins
  kout : s2.kout = s1.kout
  commits : s2.commits = s1.commits
  done : s2.done = s1.done
  acked : s2.acked = s1.acked

theorem Inv_of_eq (R : ViewRel) (s1 s2 : PState) (F : KFs) (h : Inv R s1 F) (e : CoreEq s1 s2) : Inv R s2 F := by
  obtain ⟨e1, e2, e3, e4, e5, e6, e7, e8, e9, e10, e11, e12, e13, e14, e15, e16, e17, e18⟩ := e
  cases s1; cases s2
  simp only at e1 e2 e3 e4 e5 e6 e7 e8 e9 e10 e11 e12 e13 e14 e15 e16 e17 e18
  subst e1 e2 e3 e4 e5 e6 e7 e8 e9 e10 e11 e12 e13 e14 e15 e16 e17 e18
  exact ⟨h.logic, h.manifest, h.mem, h.sst, h.vlogNZ⟩

/-! ### msync of a compaction output: stage 2 → 3 -/

def syncStage (id : Nat) (o : KOut) : KOut := if o.id == id && o.stage == 2 then { o with stage := 3 } else o

@[simp] theorem syncStage_id (id : Nat) (o : KOut) : (syncStage id o).id = o.id := by
  unfold syncStage; split <;> rfl
@[simp] theorem syncStage_ents (id : Nat) (o : KOut) : (syncStage id o).ents = o.ents := by
  unfold syncStage; split <;> rfl
theorem syncStage_stage (id : Nat) (o : KOut) :
    ((syncStage id o).stage = 1 → o.stage = 1) ∧ (2 ≤ (syncStage id o).stage → 2 ≤ o.stage) := by
  unfold syncStage
  split
  · rename_i h
    have : o.stage = 2 := by simp at h; exact h.2
    constructor
    · intro h1; simp at h1
    · intro _; omega
  · exact ⟨fun h1 => h1, fun h1 => h1⟩

theorem Inv_ksync (R : ViewRel) (s : PState) (F : KFs) (h : Inv R s F) (id : Nat) :
    Inv R { s with kout := s.kout.map (syncStage id) } F where
  logic := h.logic
  manifest := h.manifest
  mem := h.mem
  sst := by
    have hs := h.sst
    have hids : (s.kout.map (syncStage id)).map (·.id) = s.kout.map (·.id) := by
      simp [List.map_map, Function.comp_def]
    have hents : (s.kout.map (syncStage id)).map (·.ents) = s.kout.map (·.ents) := by
      simp [List.map_map, Function.comp_def]
    exact { hs with
      koutLt := by
        intro o ho
        obtain ⟨o2, ho2, he⟩ := List.mem_map.mp ho
        subst he; simp only [syncStage_id]; exact hs.koutLt o2 ho2
      koutNodup := by rw [hids]; exact hs.koutNodup
      koutFiles := by
        intro o ho
        obtain ⟨o2, ho2, he⟩ := List.mem_map.mp ho
        subst he
        have hst := syncStage_stage id o2
        constructor
        · intro h1; simp only [syncStage_id]; exact (hs.koutFiles o2 ho2).1 (hst.1 h1)
        · intro h1; simp only [syncStage_id, syncStage_ents]; exact (hs.koutFiles o2 ho2).2 (hst.2 h1)
      kview := by intro hk; rw [hents]; exact hs.kview hk }
  vlogNZ := h.vlogNZ

end Badger
