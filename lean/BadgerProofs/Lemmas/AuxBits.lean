import BadgerModel.Bloom
namespace Badger

theorem nat_and_two_pow_ne_zero (n i : Nat) : (n &&& 2 ^ i ≠ 0) ↔ n.testBit i = true := by
  constructor
  · intro h
    apply Classical.byContradiction
    intro hb
    apply h
    apply Nat.eq_of_testBit_eq
    intro j
    rw [Nat.testBit_and, Nat.testBit_two_pow, Nat.zero_testBit]
    by_cases hij : i = j
    · subst hij; simp at hb; simp [hb]
    · simp [hij]
  · intro hb h
    have := congrArg (fun x => x.testBit i) h
    simp [Nat.testBit_and, hb] at this

theorem u8_mask_toNat (i : Nat) (hi : i < 8) : ((1 : UInt8) <<< UInt8.ofNat i).toNat = 2 ^ i := by
  rw [UInt8.toNat_shiftLeft, UInt8.toNat_ofNat', UInt8.toNat_one, Nat.one_shiftLeft]
  have h1 : i % 2 ^ 8 % 8 = i := by omega
  rw [h1]
  have : 2 ^ i < 2 ^ 8 := Nat.pow_lt_pow_right (by decide) hi
  exact Nat.mod_eq_of_lt this

/-- The Go test `b & (1 << i) != 0` is bit `i` of `b`. -/
theorem u8_testMask (b : UInt8) (i : Nat) (hi : i < 8) :
    ((b &&& ((1 : UInt8) <<< UInt8.ofNat i)) != 0) = b.toNat.testBit i := by
  have h : (b &&& ((1 : UInt8) <<< UInt8.ofNat i)) = 0 ↔ (b.toNat &&& 2 ^ i) = 0 := by
    rw [← UInt8.toNat_inj, UInt8.toNat_and, u8_mask_toNat i hi]; simp
  by_cases hb : b.toNat.testBit i = true
  · rw [hb]
    have := (nat_and_two_pow_ne_zero b.toNat i).mpr hb
    simp [bne_iff_ne, h, this]
  · have hb' : b.toNat.testBit i = false := by simpa using hb
    rw [hb']
    have : b.toNat &&& 2 ^ i = 0 := by
      apply Classical.byContradiction
      intro hne
      exact hb ((nat_and_two_pow_ne_zero b.toNat i).mp hne)
    simp [h, this]

theorem u8_setMask_testBit (b : UInt8) (i j : Nat) (hi : i < 8) :
    (b ||| ((1 : UInt8) <<< UInt8.ofNat i)).toNat.testBit j = (b.toNat.testBit j || decide (i = j)) := by
  rw [UInt8.toNat_or, u8_mask_toNat i hi, Nat.testBit_or, Nat.testBit_two_pow]

end Badger
