import BadgerProofs.Props.C24
import BadgerProofs.Props.C25
/-!
# C24 ∘ C25: the key-range split of a backup run is irrelevant — all producers read at the run's one
timestamp (commit 5000444) — `C24_full` / `C24_incremental` (stated for the unsplit run `backupKVs`) therefore
speak about every `backupRun` whose producers share their read timestamp.
-/
namespace Badger

/-- C24_split_irrelevant: for any split points and any `NumGo`, a `DB.Backup(w, since)` whose
    producers all read at the run's timestamp `R` (`Stream.beginRun`) writes, range by range, exactly the KVs of `backupKVs`, and
    returns the maximum version among them. -/
theorem C24_split_irrelevant (view : List Ent) (hs : SortedEnts view) (since R now : Nat)
    (splits : List Bytes) (hne : ∀ s ∈ splits, s ≠ [])
 :
    (backupRun view [] since since now (splitRanges splits) R).lists.flatten = backupKVs view since R now ∧
    (backupRun view [] since since now (splitRanges splits) R).maxVersion =
      maxVersionOf (backupKVs view since R now) := by
  have h : (backupRun view [] since since now (splitRanges splits) R).lists.flatten =
      backupKVs view since R now := by
    unfold backupRun backupKVs
    simp only
    unfold streamRun
    exact C25_concat view hs (backupCfg [] since since now) R now splits hne (fun s _ => by simp [backupCfg])
  refine ⟨h, ?_⟩
  show maxVersionOf _ = _
  unfold backupRun at h
  simp only at h
  rw [h]

example : (backupRun C24Aux.exView [] 0 0 0 (splitRanges [[2]]) 5).lists.flatten = backupKVs C24Aux.exView 0 5 0 := by
  decide

end Badger
