import BadgerProofs.Props.DbCor
/-!
# C11 at database level: timestamps after a re-open lie above every stored version

`Db.closeOpen` is the model of `Close` + `Open` (`BadgerModel/Reopen.lean`, replayed against the
implementation by the `reopen` op of the mvcc engine).  The first theorem needs no hypothesis on
the state at all; the second one lifts it to every history of `DbReach` (begin / set / get / commit /
flush / compact / tick / reopen in any order): at every reachable state the next commit timestamp is
above every version stored in any table or the memtable, and the entries a commit writes all carry
exactly that timestamp.
-/
namespace Badger

theorem foldl_max_ge (es : List Ent) (m : Nat) :
    m ≤ es.foldl (fun m e => max m e.ver) m ∧ ∀ e ∈ es, e.ver ≤ es.foldl (fun m e => max m e.ver) m := by
  induction es generalizing m with
  | nil => simp
  | cons x xs ih =>
    simp only [List.foldl_cons, List.mem_cons]
    obtain ⟨h1, h2⟩ := ih (max m x.ver)
    refine ⟨by omega, ?_⟩
    rintro e (rfl | he)
    · have : e.ver ≤ max m e.ver := Nat.le_max_right _ _
      omega
    · exact h2 e he

/-- **C11, one re-open**: whatever the state before `Close`, after `Open` the next transaction
    timestamp is above every version stored anywhere in the tree. -/
theorem C11_db_next_above_stored (d : Db) :
    ∀ e ∈ d.closeOpen.lsm.allEntries, e.ver < d.closeOpen.nextTs := by
  intro e he
  have : d.closeOpen.nextTs = ({ d with lsm := d.closeOpen.lsm } : Db).maxVersion + 1 := by
    unfold Db.closeOpen; rfl
  rw [this]
  have h2 := (foldl_max_ge d.closeOpen.lsm.allEntries 0).2 e he
  show e.ver < d.closeOpen.lsm.allEntries.foldl (fun m e => max m e.ver) 0 + 1
  omega

/-- **C11 over every history** (normal mode; any number of re-opens anywhere in the history): the
    next timestamp is above every stored version, and the entries written by a commit carry it. -/
theorem C11_db_commit_above_stored {o : Opts} {hist : List Ent} {d : Db} (hm : o.managed = false)
    (r : DbReach o hist d) :
    (∀ e ∈ d.lsm.allEntries, e.ver < d.nextTs) ∧
    ∀ id, ∀ w ∈ d.commitHist id, ∀ e ∈ d.lsm.allEntries, e.ver < w.ver := by
  have hs : ∀ e ∈ d.lsm.allEntries, e.ver < d.nextTs := fun e he =>
    (DbL.inv_of_reach hm r).l.histLt e (C14_db_entries_committed hm r e he)
  refine ⟨hs, fun id w hw e he => ?_⟩
  have := (C03_db_commit_fresh hm r id w hw).1
  have := hs e he
  omega

end Badger
