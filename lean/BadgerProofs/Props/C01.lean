import BadgerProofs.Lemmas.LsmInv
/-!
# C01 — `DB.get` returns the newest version `≤ ts` over all sources

`Lsm.get` mirrors `DB.get` / `levelsController.get` / `levelHandler.get`: memtables newest
first, level 0 newest table first with a strict `<` on versions, levels `≥ 1` by the "first
table whose biggest key is `≥ key@ts`" search + seek + `SameKey`, an early exit on an exact
version match and a running maximum with strict `<`. Under the structural invariant `LsmInv`
(`Lemmas/LsmInv.lean`) it equals the specification `newestLE` over all entries in
read-precedence order (the earliest source wins ties).
-/
namespace Badger

/-- (A) `DB.get` = newest version `≤ ts`, earliest source winning ties. (No hypothesis on `ts` is
    needed: for `ts = 0` both sides are `none` because versions are positive.) -/
theorem C01_get_spec {s : Lsm} (h : LsmInv s) (k : Bytes) (ts : Nat) :
    s.get k ts = newestLE s.allEntries k ts :=
  LL.get_eq_newestLE (LL.lsmInv_weaken h) k ts

/-- the same under the weaker invariant (levels `≥ 1` sorted by *internal* key only) -/
theorem C01_get_spec_weak {s : Lsm} (h : LsmInvW s) (k : Bytes) (ts : Nat) :
    s.get k ts = newestLE s.allEntries k ts :=
  LL.get_eq_newestLE h k ts

/-- what the user sees: delete markers and expired entries read as absent -/
theorem C01_read_spec {s : Lsm} (h : LsmInv s) (k : Bytes) (ts now : Nat) :
    visible now (s.get k ts) = s.specGet k ts now := by
  rw [C01_get_spec h]; rfl

/-- the entry returned is a stored entry of `k` with version `≤ ts`, and no stored version of `k`
    lies strictly between it and `ts` -/
theorem C01_get_some {s : Lsm} (h : LsmInv s) {k : Bytes} {ts : Nat} {e : Ent} (hg : s.get k ts = some e) :
    e ∈ s.allEntries ∧ e.key = k ∧ e.ver ≤ ts ∧ ∀ x ∈ s.allEntries, x.key = k → x.ver ≤ ts → x.ver ≤ e.ver := by
  rw [C01_get_spec h] at hg; exact LL.newestLE_some hg

/-- `get` finds nothing iff no stored version of `k` is `≤ ts` -/
theorem C01_get_none {s : Lsm} (h : LsmInv s) (k : Bytes) (ts : Nat) :
    s.get k ts = none ↔ ∀ x ∈ s.allEntries, ¬ (x.key = k ∧ x.ver ≤ ts) := by
  rw [C01_get_spec h]; exact LL.newestLE_eq_none

/-- The invariant is needed: the version-0 entry below is stored and admissible, but `get`
    (`maxVs.Version < vs.Version` with an empty `maxVs`) does not return it. -/
theorem C01_version_zero_not_returned :
    ∃ s : Lsm, (∀ p ∈ zipIdx s.levels, LevelOk p.1 p.2) ∧ ¬ PosVer s ∧
      s.get [1] 5 ≠ newestLE s.allEntries [1] 5 := by
  refine ⟨{ mem := [], imm := [], levels := [[], [{ ents := [⟨[1], 0, 0, 0, 0, [7]⟩] }]] }, ?_, ?_, ?_⟩ <;> decide

/-! non-vacuity: a three-source state satisfying the invariant, and its reads -/
def C01_exState : Lsm :=
  { mem := [⟨[1], 5, 0, 0, 0, [50]⟩], imm := [[⟨[1], 4, 1, 0, 0, []⟩]],
    levels := [[{ ents := [⟨[1], 3, 0, 0, 0, [30]⟩] }, { ents := [⟨[1], 3, 0, 0, 0, [31]⟩, ⟨[2], 2, 0, 0, 0, [20]⟩] }],
               [{ ents := [⟨[1], 1, 0, 0, 0, [10]⟩] }, { ents := [⟨[2], 2, 0, 0, 0, [21]⟩, ⟨[2], 1, 0, 0, 0, [11]⟩] }]] }

example : LsmInv C01_exState := by decide
-- the tie (key 1, version 3) is won by the newer L0 table (value 31)
example : C01_exState.get [1] 3 = some ⟨[1], 3, 0, 0, 0, [31]⟩ := by decide
example : C01_exState.get [2] 9 = some ⟨[2], 2, 0, 0, 0, [20]⟩ := by decide
example : visible 0 (C01_exState.get [1] 4) = none := by decide

end Badger
