import BadgerModel.Trie
/-!
# C32 (trie part) — `Trie.Get` returns exactly the ids that have a live matching pattern
(`trie/trie.go`: `AddMatch`, `DeleteMatch` incl. `removeEmpty`, `Get`).

A *pattern* is the canonical form of a `pb.Match`: the prefix with its ignored positions
replaced by holes (`mkPattern`). Two matches with the same pattern are the same trie path
(the prefix bytes at ignored positions are irrelevant), so "live" is defined per
(pattern, id): the last operation on that pair was an `AddMatch` (a `DeleteMatch` removes
*every* copy of the id stored at the node, whatever the number of earlier `AddMatch`es).

The publisher (`publisher.go`) is not part of this file; finding F10 concerns the key it passes
to `Get`, not the trie.
-/
namespace Badger

/-- `p` matches `key`: `len(key) ≥ len(p)` and every non-hole position agrees. -/
def patMatches : Pattern → Bytes → Bool
  | [], _ => true
  | _ :: _, [] => false
  | none :: p, _ :: ks => patMatches p ks
  | some b :: p, k :: ks => b == k && patMatches p ks

/-- The ids stored at the node reached from `n` along `p` (`[]` when the path is absent). -/
def idsAt : Node → Pattern → List Nat
  | .nil, _ => []
  | .node ids _ _, [] => ids
  | .node _ ig _, none :: p => idsAt ig p
  | .node _ _ ch, some b :: p => idsAt (ch b) p

@[simp] theorem idsAt_nil (p : Pattern) : idsAt .nil p = [] := by
  cases p <;> rfl

/-! ## `Get` collects the ids along every matching path -/

theorem mem_trieGet (n : Node) (key : Bytes) (id : Nat) :
    id ∈ trieGet n key ↔ ∃ p, patMatches p key = true ∧ id ∈ idsAt n p := by
  induction key generalizing n with
  | nil =>
    cases n with
    | nil => simp [trieGet]
    | node ids ig ch =>
      simp only [trieGet]
      constructor
      · intro h; exact ⟨[], rfl, h⟩
      · rintro ⟨p, hp, hid⟩
        cases p with
        | nil => exact hid
        | cons a p => cases a <;> simp [patMatches] at hp
  | cons k ks ih =>
    cases n with
    | nil => simp [trieGet]
    | node ids ig ch =>
      simp only [trieGet, List.mem_append]
      constructor
      · rintro ((h | h) | h)
        · exact ⟨[], rfl, h⟩
        · obtain ⟨p, hp, hid⟩ := (ih ig).mp h
          exact ⟨none :: p, by simpa [patMatches] using hp, by simpa [idsAt] using hid⟩
        · obtain ⟨p, hp, hid⟩ := (ih (ch k)).mp h
          exact ⟨some k :: p, by simpa [patMatches] using hp, by simpa [idsAt] using hid⟩
      · rintro ⟨p, hp, hid⟩
        cases p with
        | nil => exact Or.inl (Or.inl hid)
        | cons a p =>
          cases a with
          | none =>
            exact Or.inl (Or.inr ((ih ig).mpr ⟨p, by simpa [patMatches] using hp, by simpa [idsAt] using hid⟩))
          | some b =>
            simp only [patMatches, Bool.and_eq_true, beq_iff_eq] at hp
            obtain ⟨hb, hp⟩ := hp
            subst hb
            exact Or.inr ((ih (ch b)).mpr ⟨p, hp, by simpa [idsAt] using hid⟩)

/-! ## `fix(set)` -/

theorem idsAt_go (p q : Pattern) (id : Nat) :
    idsAt (fixSet.go p id) q = if q = p then [id] else [] := by
  induction p generalizing q with
  | nil =>
    cases q with
    | nil => simp [fixSet.go, idsAt]
    | cons a q => cases a <;> simp [fixSet.go, idsAt]
  | cons a p ih =>
    cases a with
    | none =>
      cases q with
      | nil => simp [fixSet.go, idsAt]
      | cons c q =>
        cases c with
        | none => simp [fixSet.go, idsAt, ih]
        | some c => simp [fixSet.go, idsAt]
    | some b =>
      cases q with
      | nil => simp [fixSet.go, idsAt]
      | cons c q =>
        cases c with
        | none => simp [fixSet.go, idsAt]
        | some c =>
          simp only [fixSet.go, idsAt]
          by_cases hc : c = b
          · subst hc; simp [ih]
          · simp [hc]

theorem idsAt_fixSet (n : Node) (p q : Pattern) (id : Nat) :
    idsAt (fixSet n p id) q = if q = p then idsAt n p ++ [id] else idsAt n q := by
  induction p generalizing n q with
  | nil =>
    cases n with
    | nil => simp [fixSet, idsAt_go]
    | node ids ig ch =>
      cases q with
      | nil => simp [fixSet, idsAt]
      | cons a q => cases a <;> simp [fixSet, idsAt]
  | cons a p ih =>
    cases n with
    | nil => simp [fixSet, idsAt_go]
    | node ids ig ch =>
      cases a with
      | none =>
        cases q with
        | nil => simp [fixSet, idsAt]
        | cons c q =>
          cases c with
          | none => simp [fixSet, idsAt, ih]
          | some c => simp [fixSet, idsAt]
      | some b =>
        cases q with
        | nil => simp [fixSet, idsAt]
        | cons c q =>
          cases c with
          | none => simp [fixSet, idsAt]
          | some c =>
            simp only [fixSet, idsAt]
            by_cases hc : c = b
            · subst hc; simp [ih]
            · simp [hc]

/-! ## `fix(del)` -/

theorem idsAt_fixDel (n : Node) (p q : Pattern) (id : Nat) :
    idsAt (fixDel n p id) q =
      if q = p then (idsAt n p).filter (fun c => id != c) else idsAt n q := by
  induction p generalizing n q with
  | nil =>
    cases n with
    | nil => simp [fixDel]
    | node ids ig ch =>
      cases q with
      | nil => simp [fixDel, idsAt]
      | cons a q => cases a <;> simp [fixDel, idsAt]
  | cons a p ih =>
    cases n with
    | nil => simp [fixDel]
    | node ids ig ch =>
      cases a with
      | none =>
        cases q with
        | nil => simp [fixDel, idsAt]
        | cons c q =>
          cases c with
          | none => simp [fixDel, idsAt, ih]
          | some c => simp [fixDel, idsAt]
      | some b =>
        cases q with
        | nil => simp [fixDel, idsAt]
        | cons c q =>
          cases c with
          | none => simp [fixDel, idsAt]
          | some c =>
            simp only [fixDel, idsAt]
            by_cases hc : c = b
            · subst hc; simp [ih]
            · simp [hc]

/-! ## `removeEmpty` keeps every stored id -/

theorem mem_allBytes (b : UInt8) : b ∈ Node.allBytes := by
  unfold Node.allBytes
  rw [List.mem_map]
  exact ⟨b.toNat, List.mem_range.mpr b.toNat_lt, UInt8.ofNat_toNat⟩

theorem isNil_eq (n : Node) (h : n.isNil = true) : n = .nil := by
  cases n with
  | nil => rfl
  | node _ _ _ => simp [Node.isNil] at h

theorem idsAt_of_isEmpty (n : Node) (h : n.isEmpty = true) (q : Pattern) : idsAt n q = [] := by
  cases n with
  | nil => simp
  | node ids ig ch =>
    simp only [Node.isEmpty, Bool.and_eq_true, List.isEmpty_iff, List.all_eq_true] at h
    obtain ⟨⟨hids, hig⟩, hch⟩ := h
    cases q with
    | nil => simpa [idsAt] using hids
    | cons a q =>
      cases a with
      | none => simp [idsAt, isNil_eq ig hig]
      | some b => simp [idsAt, isNil_eq (ch b) (hch b (mem_allBytes b))]

theorem idsAt_removeEmpty (n : Node) (q : Pattern) : idsAt (removeEmpty n) q = idsAt n q := by
  induction q generalizing n with
  | nil =>
    cases n with
    | nil => rfl
    | node ids ig ch => simp [removeEmpty, idsAt]
  | cons a q ih =>
    cases n with
    | nil => rfl
    | node ids ig ch =>
      cases a with
      | none =>
        simp only [removeEmpty, idsAt]
        split
        · rename_i he
          rw [idsAt_nil, ← ih ig, idsAt_of_isEmpty _ he]
        · exact ih ig
      | some b =>
        simp only [removeEmpty, idsAt]
        split
        · rename_i he
          rw [idsAt_nil, ← ih (ch b), idsAt_of_isEmpty _ he]
        · exact ih (ch b)

/-- `removeEmpty` does not change `Get`. -/
theorem trieGet_removeEmpty (n : Node) (key : Bytes) (id : Nat) :
    id ∈ trieGet (removeEmpty n) key ↔ id ∈ trieGet n key := by
  simp only [mem_trieGet, idsAt_removeEmpty]

/-! ## sequences of operations -/

/-- An operation on canonical patterns. -/
inductive TrieOp where
  | add (p : Pattern) (id : Nat)
  | del (p : Pattern) (id : Nat)

/-- `AddMatch` is `fix(set)`; `DeleteMatch` is `fix(del)` followed by `removeEmpty(root)`. -/
def runOp (n : Node) : TrieOp → Node
  | .add p id => fixSet n p id
  | .del p id => removeEmpty (fixDel n p id)

def runOps (ops : List TrieOp) : Node := ops.foldl runOp Node.new

/-- `(p, id)` is live after `ops`: the last operation on that pair is an add. -/
def isLive (ops : List TrieOp) (p : Pattern) (id : Nat) : Bool :=
  ops.foldl (fun b op => match op with
    | .add p' id' => if p' = p ∧ id' = id then true else b
    | .del p' id' => if p' = p ∧ id' = id then false else b) false

theorem mem_idsAt_runOp (n : Node) (op : TrieOp) (q : Pattern) (id : Nat) (b : Bool)
    (h : id ∈ idsAt n q ↔ b = true) :
    id ∈ idsAt (runOp n op) q ↔
      (match op with
        | .add p' id' => if p' = q ∧ id' = id then true else b
        | .del p' id' => if p' = q ∧ id' = id then false else b) = true := by
  cases op with
  | add p' id' =>
    simp only [runOp, idsAt_fixSet]
    by_cases hq : q = p'
    · subst hq
      simp only [if_true, List.mem_append, List.mem_singleton, true_and]
      by_cases hid : id' = id
      · simp [hid]
      · simp [hid, h, Ne.symm hid]
    · have : ¬ (p' = q ∧ id' = id) := fun hc => hq hc.1.symm
      simp [hq, this, h]
  | del p' id' =>
    simp only [runOp, idsAt_removeEmpty, idsAt_fixDel]
    by_cases hq : q = p'
    · subst hq
      simp only [if_true, List.mem_filter, true_and, bne_iff_ne, ne_eq]
      by_cases hid : id' = id
      · simp [hid]
      · simp [hid, h]
    · have : ¬ (p' = q ∧ id' = id) := fun hc => hq hc.1.symm
      simp [hq, this, h]

theorem mem_idsAt_runOps (ops : List TrieOp) (q : Pattern) (id : Nat) :
    id ∈ idsAt (runOps ops) q ↔ isLive ops q id = true := by
  unfold runOps isLive
  suffices hgen : ∀ (n : Node) (b : Bool), (id ∈ idsAt n q ↔ b = true) →
      (id ∈ idsAt (ops.foldl runOp n) q ↔
        ops.foldl (fun b op => match op with
          | .add p' id' => if p' = q ∧ id' = id then true else b
          | .del p' id' => if p' = q ∧ id' = id then false else b) b = true) by
    apply hgen
    cases q with
    | nil => simp [Node.new, idsAt]
    | cons a q => cases a <;> simp [Node.new, idsAt]
  induction ops with
  | nil => intro n b h; simpa using h
  | cons op ops ih =>
    intro n b h
    simp only [List.foldl_cons]
    exact ih _ _ (mem_idsAt_runOp n op q id b h)

/-- **Trie spec.** After any sequence of `AddMatch`/`DeleteMatch` operations, `Get(key)`
    returns exactly the ids that have a live pattern matching `key` (as a set). -/
theorem C32_trie_get_spec (ops : List TrieOp) (key : Bytes) (id : Nat) :
    id ∈ trieGet (runOps ops) key ↔ ∃ p, patMatches p key = true ∧ isLive ops p id = true := by
  rw [mem_trieGet]
  constructor
  · rintro ⟨p, hp, hid⟩; exact ⟨p, hp, (mem_idsAt_runOps ops p id).mp hid⟩
  · rintro ⟨p, hp, hl⟩; exact ⟨p, hp, (mem_idsAt_runOps ops p id).mpr hl⟩

/-! ## the exported API (`pb.Match` with an ignore string) -/

inductive ApiOp where
  | addMatch (pfx ig : Bytes) (id : Nat)
  | deleteMatch (pfx ig : Bytes) (id : Nat)

/-- An ignore string that does not parse makes the call return an error and leaves the trie
    unchanged. -/
def Trie.apply (t : Trie) : ApiOp → Trie
  | .addMatch pfx ig id => (t.addMatch pfx ig id).getD t
  | .deleteMatch pfx ig id => (t.deleteMatch pfx ig id).getD t

/-- The canonical operation of an API call (`none` = the call fails). -/
def ApiOp.canon : ApiOp → Option TrieOp
  | .addMatch pfx ig id => (parseIgnoreBytes ig).map (fun bs => .add (mkPattern pfx bs) id)
  | .deleteMatch pfx ig id => (parseIgnoreBytes ig).map (fun bs => .del (mkPattern pfx bs) id)

theorem apply_root (ops : List ApiOp) (t : Trie) :
    (ops.foldl Trie.apply t).root = (ops.filterMap ApiOp.canon).foldl runOp t.root := by
  induction ops generalizing t with
  | nil => rfl
  | cons op ops ih =>
    simp only [List.foldl_cons, ih, List.filterMap_cons]
    cases op with
    | addMatch pfx ig id =>
      simp only [Trie.apply, Trie.addMatch, ApiOp.canon]
      cases parseIgnoreBytes ig <;> simp [runOp]
    | deleteMatch pfx ig id =>
      simp only [Trie.apply, Trie.deleteMatch, ApiOp.canon]
      cases parseIgnoreBytes ig <;> simp [runOp]

/-- The same at the level of `Trie.AddMatch` / `Trie.DeleteMatch` / `Trie.Get`. -/
theorem C32_trie_api_spec (ops : List ApiOp) (key : Bytes) (id : Nat) :
    id ∈ (ops.foldl Trie.apply Trie.empty).get key ↔
      ∃ p, patMatches p key = true ∧ isLive (ops.filterMap ApiOp.canon) p id = true := by
  unfold Trie.get
  rw [apply_root]
  exact C32_trie_get_spec _ key id

/-- What "a pattern matches a key" means in terms of prefix, ignored positions and key:
    the key is at least as long as the prefix and agrees with it outside the ignored positions. -/
theorem patMatches_mkPattern (pfx : Bytes) (ig : List Bool) (key : Bytes) :
    patMatches (mkPattern pfx ig) key = true ↔
      pfx.length ≤ key.length ∧
      ∀ i, i < pfx.length → ig.getD i false = true ∨ key[i]? = pfx[i]? := by
  induction pfx generalizing ig key with
  | nil => simp [mkPattern, patMatches]
  | cons b bs ih =>
    cases key with
    | nil => cases ig <;> simp [mkPattern, patMatches] <;> split <;> simp [patMatches]
    | cons k ks =>
      cases ig with
      | nil =>
        simp only [mkPattern, patMatches, Bool.and_eq_true, beq_iff_eq, ih, List.length_cons,
          Nat.add_le_add_iff_right]
        constructor
        · rintro ⟨hb, hl, hall⟩
          refine ⟨hl, ?_⟩
          intro i hi
          cases i with
          | zero => right; simp [hb]
          | succ i =>
            have := hall i (by omega)
            simpa using this
        · rintro ⟨hl, hall⟩
          refine ⟨?_, hl, ?_⟩
          · have := hall 0 (by omega); simpa [eq_comm] using this
          · intro i hi
            have := hall (i + 1) (by omega)
            simpa using this
      | cons g gs =>
        cases g with
        | true =>
          simp only [mkPattern, if_true, patMatches, ih, List.length_cons, Nat.add_le_add_iff_right]
          constructor
          · rintro ⟨hl, hall⟩
            refine ⟨hl, ?_⟩
            intro i hi
            cases i with
            | zero => left; simp
            | succ i => have := hall i (by omega); simpa using this
          · rintro ⟨hl, hall⟩
            refine ⟨hl, ?_⟩
            intro i hi
            have := hall (i + 1) (by omega)
            simpa using this
        | false =>
          simp only [mkPattern, Bool.false_eq_true, if_false, patMatches, Bool.and_eq_true, beq_iff_eq,
            ih, List.length_cons, Nat.add_le_add_iff_right]
          constructor
          · rintro ⟨hb, hl, hall⟩
            refine ⟨hl, ?_⟩
            intro i hi
            cases i with
            | zero => right; simp [hb]
            | succ i => have := hall i (by omega); simpa using this
          · rintro ⟨hl, hall⟩
            refine ⟨?_, hl, ?_⟩
            · have := hall 0 (by omega); simpa [eq_comm] using this
            · intro i hi
              have := hall (i + 1) (by omega)
              simpa using this

/-! ## non-vacuity -/

-- prefix "ab" with position 0 ignored, id 7; prefix "a" id 3; then id 7 deleted through a
-- different byte at the ignored position
private def demoOps : List ApiOp :=
  [.addMatch [0x61, 0x62] [0x30] 7, .addMatch [0x61] [] 3, .addMatch [0x61, 0x62] [0x30] 7]

example : (demoOps.foldl Trie.apply Trie.empty).get [0x7a, 0x62, 0x63] = [7, 7] := by decide
example : (demoOps.foldl Trie.apply Trie.empty).get [0x61, 0x62] = [7, 7, 3] := by decide
set_option maxRecDepth 8000 in
example : ((demoOps ++ [ApiOp.deleteMatch [0x78, 0x62] [0x30] 7]).foldl Trie.apply Trie.empty).get [0x61, 0x62] = [3] := by
  decide
set_option maxRecDepth 8000 in
example : numNodes ((demoOps ++ [ApiOp.deleteMatch [0x78, 0x62] [0x30] 7]).foldl Trie.apply Trie.empty).root = 2 := by
  decide
example : isLive [.add [none, some 0x62] 7, .del [none, some 0x62] 7] [none, some 0x62] 7 = false := by decide
-- "3, 5-8, 10"
example : parseIgnoreBytes [0x33, 0x2c, 0x20, 0x35, 0x2d, 0x38, 0x2c, 0x20, 0x31, 0x30] =
    some [false, false, false, true, false, true, true, true, true, false, true] := by decide

end Badger
