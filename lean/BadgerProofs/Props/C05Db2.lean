import BadgerProofs.Props.C05Db
/-!
# C05 composed, general form: forward scans with `Prefix` / `Seek`, and reverse scans

For a read-only transaction in any reachable state (`DbReach`, normal mode), one version per key,
`SinceTs = 0`:
* `C05_db_scan_fwd` — forward iteration from `Seek(k)` / `Rewind` with a `Prefix` option (the seek
  key inside the prefix): the items are exactly the live newest committed versions `≤ readTs` (over
  the commit history) of the keys `≥` the seek key that have the prefix, in strictly increasing key
  order;
* `C05_db_scan_rev` — reverse iteration (no prefix) from `Seek(k)` / `Rewind`: the same for the keys
  `≤` the seek key, in strictly decreasing key order.
-/
namespace Badger

theorem takeWhile_eq_self {α : Type} (p : α → Bool) (l : List α) (h : ∀ x ∈ l, p x = true) : l.takeWhile p = l := by
  induction l with
  | nil => rfl
  | cons a l ih =>
    rw [List.takeWhile_cons, h a (by simp), if_pos rfl, ih (fun x hx => h x (List.mem_cons_of_mem _ hx))]

/-- shared set-up: the merged stream of a read-only transaction and its link to the history -/
theorem C05_db_core {o : Opts} {hist : List Ent} {d : Db} (hm : o.managed = false)
    (r : DbReach o hist d) {id : Nat} {t : TxnM} (hf : d.findTxn id = some t)
    (hupd : t.update = false) (hdisc : t.discarded = false) :
    (∀ s ∈ d.lsm.sources, SortedEnts s) ∧
    SortedEnts (mergeAll (pendingSource t :: d.lsm.sources)) ∧
    (∀ e ∈ mergeAll (pendingSource t :: d.lsm.sources), e ∈ hist) ∧
    (∀ k, newestLE (mergeAll (pendingSource t :: d.lsm.sources)) k t.readTs = d.lsm.get k t.readTs) ∧
    (∀ k, visible d.now (d.lsm.get k t.readTs) = visible d.now (newestLE hist k t.readTs)) := by
  have h := DbL.inv_of_reach hm r
  obtain ⟨dm, nm, R, h1, h2⟩ := h.l.reach
  have R' : Reach d.opts.maxLevels hist dm nm d.lsm := by rw [h.l.opts]; exact R
  have hgood := C01_reach_good R'
  have hsub := (C01_reach_inv R').2.2
  have hle := C34_db_discard_below_open hm r hf hdisc
  unfold Db.discardAtOrBelow at hle
  rw [DbL.managed_false hm h] at hle
  have hle : d.readMark.doneUntil ≤ t.readTs := by simpa using hle
  have hsrc := sources_sorted hgood.1
  have hps : pendingSource t = [] := by simp [pendingSource, hupd]
  have hsrcs : ∀ s ∈ pendingSource t :: d.lsm.sources, SortedEnts s := by
    intro s hs
    rcases List.mem_cons.mp hs with rfl | hs
    · rw [hps]; exact List.Pairwise.nil
    · exact hsrc s hs
  have hflat : (pendingSource t :: d.lsm.sources).flatten = d.lsm.allEntries := by
    rw [hps]; simp [Lsm.allEntries]
  refine ⟨hsrc, mergeAll_sorted hsrcs, ?_, ?_, ?_⟩
  · intro e he
    have := C12_merge_mem_flatten he
    rw [hflat] at this
    exact hsub e this
  · intro k
    rw [newestLE_mergeAll hsrcs, hflat, ← C01_reach_get_spec R']
  · intro k
    exact C01_reach_reads R' (by omega) h2 k

theorem visible_some_iff {now : Nat} {g : Option Ent} {x : Ent} :
    visible now g = some x ↔ g = some x ∧ deletedOrExpired x.emeta x.exp now = false := by
  cases g with
  | none => simp [visible]
  | some e =>
    simp only [visible]
    constructor
    · intro h
      split at h
      · cases h
      · rename_i hl
        have : e = x := by simpa using h
        subst this
        exact ⟨rfl, by simpa using hl⟩
    · rintro ⟨h1, h2⟩
      have : e = x := by simpa using h1
      subst this
      simp [h2]

theorem C05_db_scan_fwd {o : Opts} {hist : List Ent} {d : Db} (hm : o.managed = false)
    (r : DbReach o hist d) {id : Nat} {t : TxnM} (hf : d.findTxn id = some t)
    (hupd : t.update = false) (hdisc : t.discarded = false)
    (io : IterOpts) (seek : Option Bytes) (hrev : io.reverse = false) (hall : io.allVersions = false)
    (hsince : io.sinceTs = 0) (hpk : io.prefixIsKey = false)
    (hsk : io.prefix_.isPrefixOf (seekKeyOf io seek) = true)
    (hh : io.internalAccess = true ∨ ∀ e ∈ hist, badgerPrefix.isPrefixOf e.ikey = false) :
    ∃ L, d.iterate id io seek = some L ∧
      (∀ x, x ∈ L ↔ (visible d.now (newestLE hist x.key t.readTs) = some x ∧
        cmpBytes x.key (seekKeyOf io seek) ≠ .lt ∧ io.prefix_.isPrefixOf x.key = true)) ∧
      L.Pairwise (fun a b => cmpBytes a.key b.key = .lt) := by
  obtain ⟨hsrc, hmerged, hmh, hnew, hvis⟩ := C05_db_core hm r hf hupd hdisc
  have hn : NoHidden io (mergeAll (pendingSource t :: d.lsm.sources)) := by
    rcases hh with hh | hh
    · exact .inl hh
    · exact .inr (fun e he => hh e (hmh e he))
  have hsound := (C05_sound (mergeAll (pendingSource t :: d.lsm.sources)) hmerged t.readTs 0 d.now
    io.prefix_ (seekKeyOf io seek)).1
  have hvp : validPrefix io (specScanFwd (mergeAll (pendingSource t :: d.lsm.sources)) t.readTs 0 d.now
      io.prefix_ (seekKeyOf io seek)) = specScanFwd (mergeAll (pendingSource t :: d.lsm.sources)) t.readTs 0 d.now
      io.prefix_ (seekKeyOf io seek) := by
    unfold validPrefix
    apply takeWhile_eq_self
    intro x hx
    simp only [hpk, Bool.false_eq_true, if_false]
    exact (hsound x hx).2.2.2.2
  have hit := C05_iterate_forward d id t io seek hf hsrc hrev hall hn hsk
  rw [hsince, hvp] at hit
  refine ⟨_, hit, ?_, C05_exactly_once_fwd _ hmerged _ _ _ _ _⟩
  intro x
  constructor
  · intro hx
    obtain ⟨_, hnv, hlive, hge, hp⟩ := hsound x hx
    rw [C05_newestVisible_since_zero, hnew] at hnv
    exact ⟨by rw [← hvis]; exact visible_some_iff.mpr ⟨hnv, hlive⟩, hge, hp⟩
  · rintro ⟨hv, hge, hp⟩
    rw [← hvis] at hv
    obtain ⟨hg, hlive⟩ := visible_some_iff.mp hv
    apply C05_complete_fwd _ hmerged t.readTs 0 d.now io.prefix_ _ hsk x _ hlive hge hp
    rw [C05_newestVisible_since_zero, hnew]; exact hg

theorem C05_db_scan_rev {o : Opts} {hist : List Ent} {d : Db} (hm : o.managed = false)
    (r : DbReach o hist d) {id : Nat} {t : TxnM} (hf : d.findTxn id = some t)
    (hupd : t.update = false) (hdisc : t.discarded = false)
    (io : IterOpts) (seek : Option Bytes) (hrev : io.reverse = true) (hall : io.allVersions = false)
    (hsince : io.sinceTs = 0) (hpk : io.prefixIsKey = false) (hpfx : io.prefix_ = [])
    (hh : io.internalAccess = true ∨ ∀ e ∈ hist, badgerPrefix.isPrefixOf e.ikey = false) :
    ∃ L, d.iterate id io seek = some L ∧
      (∀ x, x ∈ L ↔ (visible d.now (newestLE hist x.key t.readTs) = some x ∧
        ((seekKeyOf io seek).isEmpty = true ∨ cmpBytes x.key (seekKeyOf io seek) ≠ .gt))) ∧
      L.Pairwise (fun a b => cmpBytes b.key a.key = .lt) := by
  obtain ⟨hsrc, hmerged, hmh, hnew, hvis⟩ := C05_db_core hm r hf hupd hdisc
  have hn : NoHidden io (mergeAll (pendingSource t :: d.lsm.sources)).reverse := by
    rcases hh with hh | hh
    · exact .inl hh
    · exact .inr (fun e he => hh e (hmh e (List.mem_reverse.mp he)))
  have hvp : ∀ l : List Ent, validPrefix io l = l := by
    intro l; unfold validPrefix
    apply takeWhile_eq_self
    intro x _
    simp [hpk, hpfx]
  have hit := C05_iterate_reverse d id t io seek hf hsrc hrev hall hn
  rw [hsince, hvp] at hit
  refine ⟨_, hit, ?_, C05_exactly_once_rev _ hmerged _ _ _ _⟩
  intro x
  rw [mem_specScanRev hmerged, C05_newestVisible_since_zero, hnew]
  constructor
  · rintro ⟨_, hle, hg, hlive⟩
    exact ⟨by rw [← hvis]; exact visible_some_iff.mpr ⟨hg, hlive⟩, hle⟩
  · rintro ⟨hv, hle⟩
    rw [← hvis] at hv
    obtain ⟨hg, hlive⟩ := visible_some_iff.mp hv
    have hm' : newestLE (mergeAll (pendingSource t :: d.lsm.sources)) x.key t.readTs = some x := by
      rw [hnew]; exact hg
    exact ⟨(newestLE_some_mem hm').1, hle, hg, hlive⟩

end Badger
