import BadgerProofs.Props.C27
import BadgerProofs.Lemmas.Txn
/-!
# C27 — the buffer theorems carried over to the database model `Db` of `Mvcc.lean`

The driver runs `wbHandleEntry` / `wbCommit` / `wbFlush` (BadgerModel/Batch.lean), which are
`Db.modify` and `Db.commit` on the batch's current internal transaction. This file shows that
one internal transaction of that concrete machine *is* the buffer of `C27.lean`:

* `C27_modify_refines`: an accepted `Txn.modify` is `Buf.add` on `(pendingWrites, duplicateWrites)`;
* `C27_commit_refines`: a commit that reaches the write path applies `Buf.emit`, finalised by
  `finEnt` (version resolution, `bitTxn`, value-pointer bit), to the memtable;
* `C27_commit_last_wins`: hence, when the transaction received exactly the operations `ops`,
  every read of the memtable after the commit equals the read after applying `ops` one by one
  in issue order.
-/
namespace Badger

/-- the transaction's write buffer -/
def TxnM.buf (t : TxnM) : Buf := { pending := t.pending, dups := t.dups }

theorem finEnt_resolves (d : Db) (keep : Bool) (cts : Nat) : Resolves cts (finEnt d keep cts) := by
  constructor
  · intro e
    unfold finEnt Db.lsmForm
    dsimp only
    split <;> split <;> split <;> rfl
  · intro e
    unfold finEnt Db.lsmForm effVer
    dsimp only
    by_cases hv : e.ver = 0
    · simp only [hv, beq_self_eq_true, if_true]
      split <;> split <;> rfl
    · have : (e.ver == 0) = false := by simpa using hv
      simp only [this, Bool.false_eq_true, if_false]
      split <;> split <;> rfl

/-- an accepted `Txn.modify` is `Buf.add`; the LSM is untouched -/
theorem C27_modify_refines {d : Db} {id : Nat} {t : TxnM} (e : Ent) (h : d.findTxn id = some t)
    (hok : (d.modify id e).2 = none) :
    ∃ t', (d.modify id e).1.findTxn id = some t' ∧ t'.buf = t.buf.add e ∧
      (d.modify id e).1.lsm = d.lsm := by
  rw [modify_eq e h] at hok ⊢
  cases hc : modCheck d t e with
  | some err => rw [hc] at hok; cases hok
  | none =>
    refine ⟨modTxn d t e, ?_, rfl, rfl⟩
    have hid : (modTxn d t e).id = id := findTxn_id (d := d) (t := t) h
    simp only []
    rw [← hid]
    exact findTxn_setTxn_self d (modTxn d t e)

/-- a refused `Txn.modify` changes nothing -/
theorem C27_modify_refused {d : Db} {id : Nat} {t : TxnM} (e : Ent) (h : d.findTxn id = some t)
    (err : ModErr) (hr : (d.modify id e).2 = some err) : (d.modify id e).1 = d := by
  rw [modify_eq e h] at hr ⊢
  cases hc : modCheck d t e with
  | some err' => rfl
  | none => rw [hc] at hr; cases hr

/-- a commit that reaches the write path applies `Buf.emit` (duplicates, then pending), finalised,
    to the memtable, in that order -/
theorem C27_commit_refines {d : Db} {id : Nat} {t : TxnM} (mts : Nat) (h : d.findTxn id = some t)
    (hg : commitGoes d t mts = true) :
    (d.commit id mts).1.lsm.mem =
      applyWrites d.lsm.mem (t.buf.emit.map (finEnt d (keepTogetherOf t) (commitTsOf d mts))) := by
  rw [(commit_goes mts h hg).2.1]
  rfl

/-- **one internal transaction of the concrete machine**: the transaction received exactly the
    operations `ops` (its buffer is `Buf.addAll {} ops` — by `C27_modify_refines` that is what
    a sequence of accepted `modify` calls produces) and the commit reaches the write path: then
    every read of the memtable equals the read after applying the issued operations one by one,
    in issue order (later ones winning). No side condition. -/
theorem C27_commit_last_wins {d : Db} {id : Nat} {t : TxnM} (mts : Nat) (ops : List Ent)
    (h : d.findTxn id = some t) (hg : commitGoes d t mts = true) (hb : t.buf = Buf.addAll {} ops)
    (k : Bytes) (ts : Nat) :
    newestLE (d.commit id mts).1.lsm.mem k ts =
      newestLE (applyWrites d.lsm.mem (ops.map (finEnt d (keepTogetherOf t) (commitTsOf d mts)))) k ts := by
  rw [C27_commit_refines mts h hg, hb, newestLE_applyWrites, newestLE_applyWrites, newestLE_append,
    newestLE_append]
  congr 1
  exact C27_buf_last_wins (finEnt_resolves d _ _) ops k ts

end Badger
