import BadgerProofs.Props.C27
/-!
# C27 — the side condition `Buf.NoClash` in terms of the operation history

(`Buf.NoClash` is the condition under which the emission order BEFORE badger commit 2dbbdab was
harmless — finding F8; today's order needs no side condition, see `C27_last_wins`. The
characterisations of `pendingWrites` / `duplicateWrites` below hold for today's `Txn.modify`.)

`Buf.addAll {} ops` is the buffer (`pendingWrites`, `duplicateWrites`) of one internal transaction
after the operations `ops` (`Txn.modify` each). This file characterises both lists by the history:

* `C27_pending_is_last`: `pendingWrites[k]` is the last operation on `k`;
* `C27_dups_mem`: `duplicateWrites` holds exactly the operations that were overwritten (directly
  followed, among the operations on their key) by an operation of a different raw version;
* `C27_noClash_iff_history`: `Buf.NoClash` ⇔ `HistNoClash` (no overwritten operation resolves to
  the version of its key's last operation).
-/
namespace Badger

/-- the last operation on key `k` -/
def lastOn (ops : List Ent) (k : Bytes) : Option Ent := ops.reverse.find? (·.key == k)

/-- the side condition of the old emission order in terms of the history of one internal transaction: whenever an operation `d`
    on a key is directly followed, among the operations on that key, by an operation `e'` with a different
    (raw) version, the resolved version of `d` differs from the resolved version of the key's last operation -/
def HistNoClash (cts : Nat) (ops : List Ent) : Prop :=
  ∀ (a b c : List Ent) (d e' : Ent), ops = a ++ d :: (b ++ e' :: c) → e'.key = d.key →
    (∀ x ∈ b, x.key ≠ d.key) → d.ver ≠ e'.ver →
    ∀ p, lastOn ops d.key = some p → effVer cts d.ver ≠ effVer cts p.ver

/-! ## list helpers -/

/-- "snoc induction" on lists -/
theorem list_snoc_induction {α : Type} {P : List α → Prop} (hnil : P [])
    (hsnoc : ∀ l x, P l → P (l ++ [x])) (l : List α) : P l := by
  have h : ∀ r : List α, P r.reverse := by
    intro r
    induction r with
    | nil => exact hnil
    | cons x r ih => rw [List.reverse_cons]; exact hsnoc _ _ ih
  have := h l.reverse
  rwa [List.reverse_reverse] at this

theorem find?_filter_of_imp {α : Type} (p q : α → Bool) (l : List α) (h : ∀ x, p x = true → q x = true) :
    (l.filter q).find? p = l.find? p := by
  induction l with
  | nil => rfl
  | cons x xs ih =>
    rw [List.filter_cons]
    by_cases hq : q x = true
    · rw [if_pos hq, List.find?_cons, List.find?_cons, ih]
    · rw [if_neg hq, ih, List.find?_cons]
      have : p x = false := by
        cases hp : p x with
        | false => rfl
        | true => exact absurd (h x hp) hq
      rw [this]

theorem Buf.addAll_snoc (b : Buf) (l : List Ent) (e : Ent) : b.addAll (l ++ [e]) = (b.addAll l).add e := by
  unfold Buf.addAll; rw [List.foldl_append]; rfl

/-! ## `lastOn` -/

theorem lastOn_nil (k : Bytes) : lastOn [] k = none := rfl

theorem lastOn_snoc (l : List Ent) (e : Ent) (k : Bytes) :
    lastOn (l ++ [e]) k = if e.key == k then some e else lastOn l k := by
  unfold lastOn
  rw [List.reverse_append, List.reverse_singleton, List.singleton_append, List.find?_cons]
  cases (e.key == k) <;> rfl

/-- `lastOn l k = some o`: `o` is an operation on `k` and no operation on `k` follows it -/
theorem lastOn_eq_some_iff (l : List Ent) (k : Bytes) (o : Ent) :
    lastOn l k = some o ↔ o.key = k ∧ ∃ a b, l = a ++ o :: b ∧ ∀ x ∈ b, x.key ≠ k := by
  unfold lastOn
  rw [List.find?_eq_some_iff_append]
  constructor
  · rintro ⟨hk, as, bs, hl, hno⟩
    refine ⟨by simpa using hk, bs.reverse, as.reverse, ?_, ?_⟩
    · have := congrArg List.reverse hl
      rw [List.reverse_reverse] at this
      rw [this]; simp
    · intro x hx
      have := hno x (List.mem_reverse.mp hx)
      simpa using this
  · rintro ⟨hk, a, b, hl, hno⟩
    refine ⟨by simpa using hk, b.reverse, a.reverse, ?_, ?_⟩
    · rw [hl]; simp
    · intro x hx
      have := hno x (List.mem_reverse.mp hx)
      simpa using this

/-! ## `pendingWrites` -/

theorem Buf.add_pending_find (b : Buf) (e : Ent) (k : Bytes) :
    (b.add e).pending.find? (·.key == k) =
      if e.key == k then some e else b.pending.find? (·.key == k) := by
  show (b.pending.filter (fun x => x.key != e.key) ++ [e]).find? (fun x => x.key == k) = _
  rw [List.find?_append]
  by_cases hk : e.key = k
  · have hb : (e.key == k) = true := by simpa using hk
    have hnone : (b.pending.filter (fun x => x.key != e.key)).find? (fun x => x.key == k) = none := by
      rw [List.find?_eq_none]
      intro x hx
      have := (List.mem_filter.mp hx).2
      rw [← hk]
      simpa using this
    rw [hnone, Option.none_or, List.find?_cons, hb]
    rfl
  · have hb : (e.key == k) = false := by simpa using hk
    rw [find?_filter_of_imp, List.find?_cons, hb]
    · simp
    · intro x hx
      have hxk : x.key = k := by simpa using hx
      have : x.key ≠ e.key := fun h => hk (h.symm.trans hxk)
      simpa using this

/-- `pendingWrites[k]` is the last operation on `k` -/
theorem C27_pending_is_last (ops : List Ent) (k : Bytes) :
    (Buf.addAll {} ops).pending.find? (·.key == k) = lastOn ops k := by
  induction ops using list_snoc_induction with
  | hnil => rfl
  | hsnoc l e ih => rw [Buf.addAll_snoc, Buf.add_pending_find, lastOn_snoc, ih]

/-! ## `duplicateWrites` -/

/-- `d` was overwritten in `ops` by an operation of a different (raw) version -/
def Overwritten (ops : List Ent) (d : Ent) : Prop :=
  ∃ (a b c : List Ent) (e' : Ent), ops = a ++ d :: (b ++ e' :: c) ∧ e'.key = d.key ∧
    (∀ x ∈ b, x.key ≠ d.key) ∧ d.ver ≠ e'.ver

theorem overwritten_nil (d : Ent) : ¬ Overwritten [] d := by
  rintro ⟨a, b, c, e', h, _⟩
  have := congrArg List.length h
  simp at this

theorem overwritten_snoc (l : List Ent) (e d : Ent) :
    Overwritten (l ++ [e]) d ↔ Overwritten l d ∨ (lastOn l e.key = some d ∧ d.ver ≠ e.ver) := by
  constructor
  · rintro ⟨a, b, c, e', h, hk, hno, hv⟩
    rcases List.eq_nil_or_concat c with rfl | ⟨c', x, rfl⟩
    · right
      have h' : l ++ [e] = (a ++ d :: b) ++ [e'] := by rw [h]; simp
      obtain ⟨hl, he⟩ := List.append_inj' h' rfl
      have he : e = e' := by simpa using he
      subst he
      refine ⟨?_, hv⟩
      rw [lastOn_eq_some_iff]
      exact ⟨hk.symm, a, b, hl, fun x hx => hk ▸ hno x hx⟩
    · left
      have h' : l ++ [e] = (a ++ d :: (b ++ e' :: c')) ++ [x] := by
        rw [h, List.concat_eq_append]; simp
      obtain ⟨hl, _⟩ := List.append_inj' h' rfl
      exact ⟨a, b, c', e', hl, hk, hno, hv⟩
  · rintro (⟨a, b, c, e', h, hk, hno, hv⟩ | ⟨hlast, hv⟩)
    · exact ⟨a, b, c ++ [e], e', by rw [h]; simp, hk, hno, hv⟩
    · rw [lastOn_eq_some_iff] at hlast
      obtain ⟨hk, a, b, hl, hno⟩ := hlast
      exact ⟨a, b, [], e, by rw [hl]; simp, hk.symm, fun x hx => hk ▸ hno x hx, hv⟩

theorem Buf.add_dups_mem (b : Buf) (e d : Ent) :
    d ∈ (b.add e).dups ↔ d ∈ b.dups ∨ (b.pending.find? (·.key == e.key) = some d ∧ d.ver ≠ e.ver) := by
  have hd : (b.add e).dups = (match b.pending.find? (fun x => x.key == e.key) with
      | some o => if o.ver != e.ver then b.dups ++ [o] else b.dups
      | none => b.dups) := rfl
  rw [hd]
  cases hold : b.pending.find? (fun x => x.key == e.key) with
  | none => simp
  | some o =>
    simp only []
    by_cases hv : o.ver = e.ver
    · have hne : (o.ver != e.ver) = false := by simp [hv]
      rw [hne]
      simp only [Bool.false_eq_true, if_false, Option.some.injEq]
      constructor
      · exact fun h => .inl h
      · rintro (h | ⟨rfl, h⟩)
        · exact h
        · exact absurd hv h
    · have hne : (o.ver != e.ver) = true := by simp [hv]
      rw [hne]
      simp only [if_true, List.mem_append, List.mem_singleton, Option.some.injEq]
      constructor
      · rintro (h | rfl)
        · exact .inl h
        · exact .inr ⟨rfl, hv⟩
      · rintro (h | ⟨rfl, _⟩)
        · exact .inl h
        · exact .inr rfl

/-- `duplicateWrites` holds exactly the operations overwritten by an operation of a different version -/
theorem C27_dups_mem (ops : List Ent) (d : Ent) :
    d ∈ (Buf.addAll {} ops).dups ↔
      ∃ (a b c : List Ent) (e' : Ent), ops = a ++ d :: (b ++ e' :: c) ∧ e'.key = d.key ∧
        (∀ x ∈ b, x.key ≠ d.key) ∧ d.ver ≠ e'.ver := by
  show _ ↔ Overwritten ops d
  induction ops using list_snoc_induction with
  | hnil =>
    constructor
    · intro h; cases h
    · intro h; exact absurd h (overwritten_nil d)
  | hsnoc l e ih =>
    rw [Buf.addAll_snoc, Buf.add_dups_mem, overwritten_snoc, ih, C27_pending_is_last]

/-! ## the side condition -/

theorem find?_key_of_mem {l : List Ent} (h : l.Pairwise (fun x y => x.key ≠ y.key)) {p : Ent} (hp : p ∈ l) :
    l.find? (·.key == p.key) = some p := by
  induction l with
  | nil => cases hp
  | cons x xs ih =>
    rw [List.pairwise_cons] at h
    rw [List.find?_cons]
    rcases List.mem_cons.mp hp with rfl | hp'
    · simp
    · have hne : x.key ≠ p.key := h.1 p hp'
      have hb : (x.key == p.key) = false := by simpa using hne
      rw [hb]
      exact ih h.2 hp'

/-- membership in `pendingWrites` is being the last operation on one's key -/
theorem pending_mem_iff_last (ops : List Ent) (p : Ent) (k : Bytes) :
    (p ∈ (Buf.addAll {} ops).pending ∧ p.key = k) ↔ lastOn ops k = some p := by
  rw [← C27_pending_is_last]
  constructor
  · rintro ⟨hp, rfl⟩
    exact find?_key_of_mem (Buf.addAll_keysDistinct Buf.empty_keysDistinct ops) hp
  · intro h
    exact ⟨List.mem_of_find?_eq_some h, by simpa using List.find?_some h⟩

theorem C27_noClash_iff_history (cts : Nat) (ops : List Ent) :
    (Buf.addAll {} ops).NoClash cts ↔ HistNoClash cts ops := by
  unfold Buf.NoClash HistNoClash
  constructor
  · intro h a b c d e' hops hk hno hv p hp
    have hd : d ∈ (Buf.addAll {} ops).dups := (C27_dups_mem ops d).mpr ⟨a, b, c, e', hops, hk, hno, hv⟩
    obtain ⟨hpm, hpk⟩ := (pending_mem_iff_last ops p d.key).mpr hp
    exact h d hd p hpm hpk.symm
  · intro h d hd p hp hk
    obtain ⟨a, b, c, e', hops, hk', hno, hv⟩ := (C27_dups_mem ops d).mp hd
    exact h a b c d e' hops hk' hno hv p ((pending_mem_iff_last ops p d.key).mp ⟨hp, hk.symm⟩)

/-! ## non-vacuity -/

def h27Key : Bytes := [0x6b]
def h27e5a : Ent := { key := h27Key, ver := 5, emeta := 0, umeta := 0, exp := 0, val := [1] }
def h27e7 : Ent := { key := h27Key, ver := 7, emeta := 0, umeta := 0, exp := 0, val := [2] }
def h27e5b : Ent := { key := h27Key, ver := 5, emeta := 0, umeta := 0, exp := 0, val := [3] }
def h27e9 : Ent := { key := h27Key, ver := 9, emeta := 0, umeta := 0, exp := 0, val := [4] }
def h27other : Ent := { key := [0x6c], ver := 5, emeta := 0, umeta := 0, exp := 0, val := [5] }

-- `pendingWrites[k]` / `lastOn` on a concrete history with two keys
example : lastOn [h27e5a, h27other, h27e7, h27e5b] h27Key = some h27e5b := by decide
example : (Buf.addAll {} [h27e5a, h27other, h27e7, h27e5b]).pending = [h27other, h27e5b] := by decide
-- `duplicateWrites` is non-empty there: both overwritten operations are recorded
example : (Buf.addAll {} [h27e5a, h27other, h27e7, h27e5b]).dups = [h27e5a, h27e7] := by decide
-- an operation overwritten by one of the SAME version is not recorded
example : (Buf.addAll {} [h27e5a, h27e5b]).dups = [] := by decide

/-- the A-B-A version pattern (finding F8) violates the history condition … -/
example : ¬ HistNoClash 0 [h27e5a, h27e7, h27e5b] := by
  rw [← C27_noClash_iff_history]; decide

/-- … and directly: the witness is `d = e5a`, `e' = e7`, last operation `e5b` -/
example : ¬ HistNoClash 0 [h27e5a, h27e7, h27e5b] := by
  intro h
  exact h [] [] [h27e5b] h27e5a h27e7 rfl rfl (by intro x hx; cases hx) (by decide) h27e5b (by decide) rfl

/-- A-B-A-C is harmless: the repeated version is not the key's last one -/
example : HistNoClash 0 [h27e5a, h27e7, h27e5b, h27e9] := by
  rw [← C27_noClash_iff_history]; decide

/-- version 0 resolves to the commit timestamp: `Set; DeleteAt 9; Set` clashes (both `ver = 0` operations
    resolve to `cts`, the first one is in `duplicateWrites`, the second is the key's last operation) -/
example : ¬ HistNoClash 3 [{ h27e5a with ver := 0 }, h27e9, { h27e5b with ver := 0 }] := by
  rw [← C27_noClash_iff_history]; decide

end Badger
