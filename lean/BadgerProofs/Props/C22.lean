import BadgerModel.Skiplist
import BadgerProofs.Lemmas.SkipList
import BadgerProofs.Props.C21
/-!
# C22 — the memtable skiplist behaves as a sorted map (sequential half)

Model: `BadgerModel/Skiplist.lean` (`skl/skl.go`: `Put`, `findSpliceForLevel`, `findNear`,
`findLast`, `Get`, `Iterator`, `UniIterator`; tower structure = one key chain per level).
Spec: `sortedInsert` / `sortedInsertAll` (sorted association list under `compareKeys` with
insert-or-replace), `lowerBound / upperBound / lastLE / lastLT`.

Proved here, for every sequence of `Put`s with every choice of tower heights in
`1 … maxHeight`:
* `C22_seq_inv`      structural invariant (every level strictly sorted, level `i+1` a sub-chain
                     of level `i`, nothing above `height`), no assertion of `Put` fails;
* `C22_seq_toList`   level 0 = `sortedInsertAll` of the puts (later put of a key replaces);
* `C22_seq_findNear` the four modes are the four bounds; `C22_seq_get`;
* `C22_seq_iter_fwd / _rev`  `SeekToFirst/Seek/Next` and `SeekToLast/SeekForPrev/Prev`;
* `C22_seq_uni_cursor`  a `UniIterator` satisfies `IterSpec` (the assumption C21 makes about
                     the leaves of a `MergeIterator`), hence `C22_merge_of_skiplists`.

The concurrent half (CAS interleavings) is **not** proved; see props/C22.json `partial`.
-/
namespace Badger
open Skiplist

/-- entry shown by an iterator positioned on the node with key `k` -/
def Skiplist.entryOf (s : Skiplist) (k : Bytes) : ItEntry := ⟨k, s.valueOf k⟩

theorem Skiplist.toList_eq (s : Skiplist) : s.toList = (s.level 0).map s.entryOf := rfl

theorem Skiplist.keys_toList (s : Skiplist) : s.toList.map ItEntry.key = s.level 0 := by
  simp [Skiplist.toList, Function.comp_def]

/-! ## Structural invariant and level 0 -/

/-- **Invariant**: `NewSkiplist` satisfies it and every `Put` (any key, value, tower height
    `1 ≤ h ≤ maxHeight`) completes without a failed assertion and preserves it. -/
theorem C22_seq_inv :
    Inv Skiplist.empty ∧
    ∀ (s : Skiplist) (key v : Bytes) (h : Nat), Inv s → 1 ≤ h → h ≤ sklMaxHeight →
      ∃ s', s.put key v h = some s' ∧ Inv s' := by
  refine ⟨inv_empty, ?_⟩
  intro s key v h hi h1 h2
  obtain ⟨s', e, _⟩ := put_spec s hi key v h h1
  exact ⟨s', e, put_inv s hi key v h h1 h2 e⟩

/-- what the invariant says, spelled out -/
theorem C22_seq_inv_unfold (s : Skiplist) (hi : Inv s) :
    1 ≤ s.height ∧ s.height ≤ sklMaxHeight ∧
    (∀ i, (s.level i).Pairwise (fun a b => compareKeys a b = .lt)) ∧
    (∀ i, (s.level (i + 1)).Sublist (s.level i)) ∧
    (∀ i, s.height ≤ i → s.level i = []) :=
  ⟨hi.height_pos, hi.height_le, hi.sorted, hi.sublist, hi.above⟩

/-- one `Put` is one `sortedInsert` on level 0 -/
theorem C22_seq_put (s : Skiplist) (hi : Inv s) (key v : Bytes) (h : Nat) (h1 : 1 ≤ h)
    (s' : Skiplist) (hput : s.put key v h = some s') :
    s'.toList = sortedInsert key v s.toList :=
  put_toList s hi key v h h1 hput

/-- value slots are immutable: a `Put` adds exactly one fresh slot in front of the value log
    and leaves every existing slot as it is -/
theorem C22_seq_value_immutable (s : Skiplist) (hi : Inv s) (key v : Bytes) (h : Nat) (h1 : 1 ≤ h)
    (s' : Skiplist) (hput : s.put key v h = some s') : s'.vals = (key, v) :: s.vals := by
  obtain ⟨s'', e, hv, _⟩ := put_spec s hi key v h h1
  rw [e] at hput
  injection hput with hput
  subst hput
  exact hv

theorem putAll_spec (s : Skiplist) (hi : Inv s) (ops : List (Bytes × Bytes × Nat))
    (hh : ∀ o ∈ ops, 1 ≤ o.2.2 ∧ o.2.2 ≤ sklMaxHeight) :
    ∃ s', s.putAll ops = some s' ∧ Inv s' ∧
      s'.toList = (ops.map (fun o => (o.1, o.2.1))).foldl (fun acc p => sortedInsert p.1 p.2 acc)
        s.toList := by
  induction ops generalizing s with
  | nil => exact ⟨s, rfl, hi, rfl⟩
  | cons o ops ih =>
    obtain ⟨k, v, h⟩ := o
    have ho := hh (k, v, h) (by simp)
    obtain ⟨s1, e1, hi1⟩ := C22_seq_inv.2 s k v h hi ho.1 ho.2
    obtain ⟨s', e2, hi2, ht⟩ := ih s1 hi1 (fun o h => hh o (List.mem_cons_of_mem _ h))
    refine ⟨s', by simp [putAll, e1, e2], hi2, ?_⟩
    rw [ht, C22_seq_put s hi k v h ho.1 s1 e1]
    rfl

/-- **Sorted map**: after any sequence of puts, with any tower heights, the level-0 chain
    (keys with their current values) is `sortedInsertAll` of the puts. -/
theorem C22_seq_toList (ops : List (Bytes × Bytes × Nat))
    (hh : ∀ o ∈ ops, 1 ≤ o.2.2 ∧ o.2.2 ≤ sklMaxHeight) :
    ∃ s, Skiplist.empty.putAll ops = some s ∧ Inv s ∧
      s.toList = sortedInsertAll (ops.map (fun o => (o.1, o.2.1))) := by
  obtain ⟨s, e, hi, ht⟩ := putAll_spec Skiplist.empty inv_empty ops hh
  exact ⟨s, e, hi, ht⟩

/-! ## `findNear`, `Get` -/

/-- **findNear**: `(less, allowEqual)` = `(false,true)`: first key `≥ key`; `(false,false)`:
    first `> key`; `(true,true)`: last `≤ key`; `(true,false)`: last `< key`; `nil` when there
    is none.  The flag is true iff `allowEqual` and `key` itself is in the list. -/
theorem C22_seq_findNear (s : Skiplist) (hi : Inv s) (key : Bytes) (less allowEqual : Bool) :
    s.findNear key less allowEqual =
      (refOfOpt (nearSpec (s.toList.map ItEntry.key) key less allowEqual),
        allowEqual && (s.toList.map ItEntry.key).contains key) := by
  rw [s.keys_toList]
  exact findNear_spec s hi key less allowEqual

/-- **Get**: the first entry with internal key `≥ key` if it has the same user key (that is
    the newest version `≤` the version encoded in `key`), with `Version = ParseTs` of the
    found key; otherwise the zero `ValueStruct`. -/
theorem C22_seq_get (s : Skiplist) (hi : Inv s) (key : Bytes) :
    s.get key =
      match s.toList.find? (fun e => compareKeys key e.key != .gt) with
      | some e => if sameKey key e.key then (e.val, parseTs e.key) else (Skiplist.emptyValue, 0)
      | none => (Skiplist.emptyValue, 0) := by
  unfold Skiplist.get
  rw [findNear_spec s hi key false true]
  simp only [nearResult, nearSpec, lowerBound, s.toList_eq, List.find?_map]
  cases h : (s.level 0).find? (fun k => compareKeys key k != .gt) with
  | none =>
    have : List.find? ((fun e => compareKeys key e.key != Ordering.gt) ∘ s.entryOf) (s.level 0) = none := h
    simp [this]
  | some k =>
    have : List.find? ((fun e => compareKeys key e.key != Ordering.gt) ∘ s.entryOf) (s.level 0) = some k := h
    simp [this, Skiplist.entryOf]

/-! ## `UniIterator` is a cursor (`IterSpec`) over `toList` -/

theorem sortedBy_toList (s : Skiplist) (hi : Inv s) : SortedBy compareKeys s.toList := by
  unfold SortedBy Skiplist.toList
  rw [List.pairwise_map]
  exact hi.sorted 0

/-- every key splits a sorted chain into smaller / equal / greater -/
theorem chain_decomp {c : List Bytes} (hs : KSorted c) (key : Bytes) :
    ∃ lo mid hi, c = lo ++ (mid ++ hi) ∧ (∀ a ∈ lo, compareKeys key a = .gt) ∧
      (mid = [] ∨ mid = [key]) ∧ (∀ b ∈ hi, compareKeys key b = .lt) := by
  by_cases hm : key ∈ c
  · obtain ⟨lo, hi, hc, h1, h2⟩ := split_of_mem hs hm
    exact ⟨lo, [key], hi, by simp [hc], h1, .inr rfl, h2⟩
  · exact ⟨kLo key c, [], kHi key c, by simp [kLo_append_kHi hs hm],
      fun a ha => (mem_kLo.mp ha).2, .inl rfl, fun b hb => (mem_kHi.mp hb).2⟩

theorem dropWhile_all_append {α : Type} (p : α → Bool) (l r : List α) (h : ∀ a ∈ l, p a = true) :
    (l ++ r).dropWhile p = r.dropWhile p := by
  induction l with
  | nil => rfl
  | cons a l ih =>
    simp only [List.cons_append, List.dropWhile_cons, h a (by simp), if_true]
    exact ih (fun x hx => h x (List.mem_cons_of_mem _ hx))

theorem dropWhile_head_neg {α : Type} (p : α → Bool) (r : List α)
    (h : ∀ a, r.head? = some a → p a = false) : r.dropWhile p = r := by
  cases r with
  | nil => rfl
  | cons a r => simp [h a rfl]

theorem isNode_refOfList (l : List Bytes) : isNode (refOfList l) = !l.isEmpty := by
  cases l <;> rfl

theorem isNode_refOfOpt_getLast? (l : List Bytes) : isNode (refOfOpt l.getLast?) = !l.isEmpty := by
  cases l with
  | nil => rfl
  | cons a l => simp [List.getLast?_cons, isNode]

/-- forward `UniIterator` -/
def uniSpecFwd (s : Skiplist) (hi : Inv s) : IterSpec (uniOps s false) (dcmp false) s.toList where
  R n L := ∃ pre rest, s.level 0 = pre ++ rest ∧ L = rest.map s.entryOf ∧ n = refOfList rest
  sorted_all := by rw [dcmp_false]; exact sortedBy_toList s hi
  R_sorted := by
    rintro n L ⟨pre, rest, hc, rfl, _⟩
    rw [dcmp_false]
    refine (sortedBy_toList s hi).sublist ?_
    rw [s.toList_eq, hc, List.map_append]
    exact List.sublist_append_right _ _
  rewind := by
    rintro n L _
    exact ⟨[], s.level 0, rfl, rfl, rfl⟩
  seek := by
    rintro n L k _
    obtain ⟨lo, mid, hi', hc, hlo, hmid, hhi⟩ := chain_decomp (hi.sorted 0) k
    refine ⟨lo, mid ++ hi', hc, ?_, ?_⟩
    · rw [s.toList_eq, hc, List.map_append, dropWhile_all_append, dropWhile_head_neg]
      · intro a ha
        rcases hmid with rfl | rfl
        · cases hi' with
          | nil => simp at ha
          | cons b bs =>
            simp only [List.nil_append, List.map_cons, List.head?_cons, Option.some.injEq] at ha
            subst ha
            simp [dcmp, entryOf, ck_gt_of_lt (hhi b (by simp))]
        · simp only [List.singleton_append, List.map_cons, List.head?_cons, Option.some.injEq] at ha
          subst ha
          simp [dcmp, entryOf, ck_refl]
      · intro a ha
        obtain ⟨x, hx, rfl⟩ := List.mem_map.mp ha
        simp [dcmp, entryOf, ck_lt_of_gt (hlo x hx)]
    · show s.uniSeek false k = _
      have hsome : ∀ a ∈ mid, a = k := by rcases hmid with rfl | rfl <;> simp
      have := (nearSpec_decomp (c := s.level 0) hc hlo hsome hhi).1
      simp only [uniSeek, Bool.not_false, if_true, Skiplist.seek, findNear_spec s hi, nearResult,
        nearSpec, this, refOfOpt_head?]
  next := by
    rintro n e L ⟨pre, rest, hc, hL, rfl⟩
    cases rest with
    | nil => simp at hL
    | cons k rest' =>
      simp only [List.map_cons, List.cons.injEq] at hL
      refine ⟨pre ++ [k], rest', by simp [hc], hL.2, ?_⟩
      show (s.uniNext false (.node k)).getD (.node k) = _
      simp only [uniNext, Bool.not_false, if_true, iterNext, Option.getD_some, getNext]
      rw [hc, after_sorted (hc ▸ hi.sorted 0)]
  next_nil := by
    rintro n ⟨pre, rest, hc, hL, rfl⟩
    have : rest = [] := by simpa using hL.symm
    subst this
    exact ⟨pre, [], hc, rfl, rfl⟩
  valid := by
    rintro n L ⟨pre, rest, hc, rfl, rfl⟩
    show isNode _ = _
    rw [isNode_refOfList]; simp
  key := by
    rintro n e L ⟨pre, rest, hc, hL, rfl⟩
    cases rest with
    | nil => simp at hL
    | cons k rest' => simp only [List.map_cons, List.cons.injEq] at hL; rw [hL.1]; rfl
  value := by
    rintro n e L ⟨pre, rest, hc, hL, rfl⟩
    cases rest with
    | nil => simp at hL
    | cons k rest' => simp only [List.map_cons, List.cons.injEq] at hL; rw [hL.1]; rfl

/-- reversed `UniIterator` -/
def uniSpecRev (s : Skiplist) (hi : Inv s) :
    IterSpec (uniOps s true) (dcmp true) s.toList.reverse where
  R n L := ∃ pre rest, s.level 0 = pre ++ rest ∧ L = pre.reverse.map s.entryOf ∧
    n = refOfOpt pre.getLast?
  sorted_all := by rw [dcmp_true]; exact sortedBy_reverse.mpr (sortedBy_toList s hi)
  R_sorted := by
    rintro n L ⟨pre, rest, hc, rfl, _⟩
    rw [dcmp_true, List.map_reverse]
    apply sortedBy_reverse.mpr
    refine (sortedBy_toList s hi).sublist ?_
    rw [s.toList_eq, hc, List.map_append]
    exact List.sublist_append_left _ _
  rewind := by
    rintro n L _
    refine ⟨s.level 0, [], by simp, by rw [s.toList_eq, List.map_reverse], ?_⟩
    show s.uniRewind true = _
    simp only [uniRewind, Bool.not_true, Bool.false_eq_true, if_false, seekToLast, findLast]
    exact findLastFrom_spec s hi _ .head (.inl rfl)
  seek := by
    rintro n L k _
    obtain ⟨lo, mid, hi', hc, hlo, hmid, hhi⟩ := chain_decomp (hi.sorted 0) k
    have hsome : ∀ a ∈ mid, a = k := by rcases hmid with rfl | rfl <;> simp
    refine ⟨lo ++ mid, hi', by simp [hc], ?_, ?_⟩
    · rw [s.toList_eq, hc, ← List.map_reverse]
      simp only [List.reverse_append, List.append_assoc, List.map_append]
      rw [dropWhile_all_append, ← List.map_append, ← List.reverse_append, dropWhile_head_neg]
      · intro a ha
        rw [List.map_reverse, List.head?_reverse, List.getLast?_map] at ha
        cases hl : (lo ++ mid).getLast? with
        | none => rw [hl] at ha; simp at ha
        | some x =>
          rw [hl] at ha
          simp only [Option.map_some, Option.some.injEq] at ha
          subst ha
          have hx := List.mem_of_getLast? hl
          rcases List.mem_append.mp hx with h | h
          · simp [dcmp, entryOf, hlo x h]
          · rw [hsome x h]; simp [dcmp, entryOf, ck_refl]
      · intro a ha
        obtain ⟨x, hx, rfl⟩ := List.mem_map.mp ha
        simp [dcmp, entryOf, hhi x (List.mem_reverse.mp hx)]
    · show s.uniSeek true k = _
      have := (nearSpec_decomp (c := s.level 0) hc hlo hsome hhi).2.2.1
      simp only [uniSeek, Bool.not_true, Bool.false_eq_true, if_false, Skiplist.seekForPrev,
        findNear_spec s hi, nearResult, nearSpec, this]
  next := by
    rintro n e L ⟨pre, rest, hc, hL, rfl⟩
    rcases List.eq_nil_or_concat pre with rfl | ⟨pre', k, rfl⟩
    · simp at hL
    · rw [List.concat_eq_append] at hc hL ⊢
      simp only [List.reverse_append, List.reverse_cons, List.reverse_nil, List.nil_append,
        List.singleton_append, List.map_cons, List.cons.injEq] at hL
      refine ⟨pre', k :: rest, by simp [hc], hL.2, ?_⟩
      show (s.uniNext true _).getD _ = _
      have hs : KSorted (pre' ++ ([k] ++ rest)) := by
        have := hi.sorted 0; rw [hc] at this; simpa using this
      have hlo : ∀ a ∈ pre', compareKeys k a = .gt :=
        fun a ha => ck_gt_of_lt (hs.append_lt a ha k (by simp))
      have hhi : ∀ b ∈ rest, compareKeys k b = .lt := fun b hb => hs.right.head_lt b hb
      have := (nearSpec_decomp (c := s.level 0) (lo := pre') (mid := [k]) (hi := rest) (key := k)
        (by simp [hc]) hlo (by simp) hhi).2.2.2
      have hn : refOfOpt (pre' ++ [k]).getLast? = .node k := by simp
      rw [hn]
      simp only [uniNext, Bool.not_true, Bool.false_eq_true, if_false, iterPrev, Option.getD_some,
        findNear_spec s hi, nearResult, nearSpec]
      rw [this]
  next_nil := by
    rintro n ⟨pre, rest, hc, hL, rfl⟩
    have : pre = [] := by simpa using hL.symm
    subst this
    exact ⟨[], rest, hc, rfl, rfl⟩
  valid := by
    rintro n L ⟨pre, rest, hc, rfl, rfl⟩
    show isNode _ = _
    rw [isNode_refOfOpt_getLast?]; simp
  key := by
    rintro n e L ⟨pre, rest, hc, hL, rfl⟩
    rcases List.eq_nil_or_concat pre with rfl | ⟨pre', k, rfl⟩
    · simp at hL
    · rw [List.concat_eq_append] at hL ⊢
      simp only [List.reverse_append, List.reverse_cons, List.reverse_nil, List.nil_append,
        List.singleton_append, List.map_cons, List.cons.injEq] at hL
      rw [hL.1]; simp [uniOps, refKey, entryOf]
  value := by
    rintro n e L ⟨pre, rest, hc, hL, rfl⟩
    rcases List.eq_nil_or_concat pre with rfl | ⟨pre', k, rfl⟩
    · simp at hL
    · rw [List.concat_eq_append] at hL ⊢
      simp only [List.reverse_append, List.reverse_cons, List.reverse_nil, List.nil_append,
        List.singleton_append, List.map_cons, List.cons.injEq] at hL
      rw [hL.1]; simp [uniOps, refKey, entryOf]

/-- **UniIterator is a cursor**: a fresh `NewUniIterator(reversed)` on a skiplist satisfying
    the invariant (and not modified during the iteration) satisfies the leaf assumption of
    C21 for the list `toList` (reversed for a reversed iterator). -/
theorem C22_seq_uni_cursor (s : Skiplist) (hi : Inv s) (reversed : Bool) :
    Sat (dcmp reversed) (s.uniIter reversed) (dirList reversed s.toList) := by
  cases reversed
  · exact ⟨uniSpecFwd s hi, ⟨s.level 0, [], by simp, rfl, rfl⟩⟩
  · exact ⟨uniSpecRev s hi, ⟨[], s.level 0, by simp, rfl, rfl⟩⟩

/-! ## Iterators -/

theorem collectFwd_eq (s : Skiplist) (n : Nat) (x : SkRef) :
    s.collectFwd n x = (uniOps s false).collect n x := by
  induction n generalizing x with
  | zero => cases x <;> rfl
  | succ n ih =>
    cases x with
    | node k => simp only [collectFwd, IterOps.collect, ih]; rfl
    | head => rfl
    | nil => rfl

theorem collectRev_eq (s : Skiplist) (n : Nat) (x : SkRef) :
    s.collectRev n x = (uniOps s true).collect n x := by
  induction n generalizing x with
  | zero => cases x <;> rfl
  | succ n ih =>
    cases x with
    | node k => simp only [collectRev, IterOps.collect, ih]; rfl
    | head => rfl
    | nil => rfl

/-- **Forward iteration**: `SeekToFirst` then `Next` enumerates `toList`; `Seek(target)` then
    `Next` enumerates the entries with key `≥ target`. -/
theorem C22_seq_iter_fwd (s : Skiplist) (hi : Inv s) (n : Nat) :
    s.collectFwd n s.seekToFirst = s.toList.take n ∧
    ∀ target, s.collectFwd n (s.seek target) =
      (s.toList.dropWhile (fun e => compareKeys e.key target == .lt)).take n := by
  obtain ⟨S, h0⟩ := C22_seq_uni_cursor s hi false
  refine ⟨?_, ?_⟩
  · rw [collectFwd_eq]
    exact S.collect_eq (S.rewind h0) n
  · intro target
    rw [collectFwd_eq]
    have := S.collect_eq (S.seek target h0) n
    show (uniOps s false).collect n ((uniOps s false).seek target .nil) = _
    simpa [dirList, dcmp_false, uniIter] using this

/-- **Reverse iteration**: `SeekToLast` then `Prev` enumerates `toList` backwards;
    `SeekForPrev(target)` then `Prev` enumerates the entries with key `≤ target` backwards. -/
theorem C22_seq_iter_rev (s : Skiplist) (hi : Inv s) (n : Nat) :
    s.collectRev n s.seekToLast = s.toList.reverse.take n ∧
    ∀ target, s.collectRev n (s.seekForPrev target) =
      (s.toList.reverse.dropWhile (fun e => compareKeys e.key target == .gt)).take n := by
  obtain ⟨S, h0⟩ := C22_seq_uni_cursor s hi true
  refine ⟨?_, ?_⟩
  · rw [collectRev_eq]
    exact S.collect_eq (S.rewind h0) n
  · intro target
    rw [collectRev_eq]
    have := S.collect_eq (S.seek target h0) n
    show (uniOps s true).collect n ((uniOps s true).seek target .nil) = _
    have hgt : ∀ e : ItEntry, (dcmp true e.key target == .lt) = (compareKeys e.key target == .gt) := by
      intro e
      simp only [dcmp, if_true]
      rw [← compareKeys_total.swap e.key target]
      cases compareKeys e.key target <;> rfl
    simpa [dirList, hgt, uniIter] using this

/-- C21 ∘ C22: a `MergeIterator` over the `UniIterator`s of any number of skiplists (newest
    first) iterates `mergeSpec` of their contents — the memtable part of badger's read path. -/
theorem C22_merge_of_skiplists (lists : List Skiplist) (hne : lists ≠ [])
    (hinv : ∀ s ∈ lists, Inv s) (reversed : Bool) :
    ∃ it, newMergeIterator (lists.map (fun s => s.uniIter reversed)) reversed = some it ∧
      ∀ (hist : List IterOp) (n : Nat),
        ((it.run hist).rewind).collect n =
          (dirList reversed (mergeSpec (lists.map Skiplist.toList))).take n := by
  let ps : List (AnyIter × List ItEntry) :=
    lists.map (fun s => (s.uniIter reversed, dirList reversed s.toList))
  have h1 : ps.map Prod.fst = lists.map (fun s => s.uniIter reversed) := by simp [ps]
  have h2 : ps.map Prod.snd = (lists.map Skiplist.toList).map (dirList reversed) := by simp [ps]
  have key := C21_newMergeIterator reversed ps (by simpa [ps] using hne) (by
    intro p hp
    obtain ⟨s, hs, rfl⟩ := List.mem_map.mp hp
    exact C22_seq_uni_cursor s (hinv s hs) reversed)
  rw [h1, h2, mergeSpecG_dir reversed _ (by
    intro l hl
    obtain ⟨s, hs, rfl⟩ := List.mem_map.mp hl
    exact sortedBy_toList s (hinv s hs))] at key
  obtain ⟨it, hit, S, hR⟩ := key
  refine ⟨it, hit, ?_⟩
  intro hist n
  obtain ⟨L', h⟩ := S.run_R hR hist
  exact S.collect_eq (S.rewind h) n

/-! ## Non-vacuity -/

section Examples
private def k (c : UInt8) (ts : Nat) : Bytes := keyWithTs [c] ts

private def demoOps : List (Bytes × Bytes × Nat) :=
  [(k 0x62 5, [0, 0, 0, 1], 2), (k 0x61 5, [0, 0, 0, 2], 1), (k 0x62 7, [0, 0, 0, 3], 4),
   (k 0x61 5, [0, 0, 0, 4], 3), (k 0x63 1, [0, 0, 0, 5], 1)]

-- towers of different heights, an overwrite, and what Get/findNear/iterators answer
example : (Skiplist.empty.putAll demoOps).map (fun s => s.toList) =
    some [⟨k 0x61 5, [0, 0, 0, 4]⟩, ⟨k 0x62 7, [0, 0, 0, 3]⟩, ⟨k 0x62 5, [0, 0, 0, 1]⟩,
          ⟨k 0x63 1, [0, 0, 0, 5]⟩] := by decide

example : (Skiplist.empty.putAll demoOps).map (fun s => (s.height, s.level 1, s.level 3)) =
    some (4, [k 0x62 7, k 0x62 5], [k 0x62 7]) := by decide

example : (Skiplist.empty.putAll demoOps).map (fun s => s.get (k 0x62 6)) =
    some ([0, 0, 0, 1], 5) := by decide

example : (Skiplist.empty.putAll demoOps).map (fun s => (s.findNear (k 0x62 6) true false).1) =
    some (.node (k 0x62 7)) := by decide

-- the hypotheses of the theorems above (`Inv s`, heights in range) hold for this instance
example : ∃ s, Skiplist.empty.putAll demoOps = some s ∧ Inv s ∧ s.toList.length = 4 := by
  obtain ⟨s, e, hi, ht⟩ := C22_seq_toList demoOps (by decide)
  refine ⟨s, e, hi, ?_⟩
  rw [ht]; decide
end Examples

end Badger
