import BadgerModel.Mvcc
import BadgerProofs.Lemmas.Txn
import BadgerProofs.Lemmas.Sorted
/-!
# C04 — a read-write transaction sees its own pending writes; nobody else does.
(Get part. The iterator overlay is `C04_iter_pending_first`: pending writes are source 0 of
the merged iterator, so they win over every snapshot entry of the same key — the merge and
scan theorems are in C21/C05.)
-/
namespace Badger

/-- `Txn.Get` on a key with a live pending write returns exactly that write, at version
    `readTs`, whatever the snapshot holds. -/
theorem C04_get_pending_live (d : Db) (id : Nat) (t : TxnM) (k : Bytes) (e : Ent)
    (ht : d.findTxn id = some t) (hk : k ≠ []) (hu : t.update = true) (hd : t.discarded = false)
    (hp : t.pending.find? (·.key == k) = some e)
    (hl : deletedOrExpired e.emeta e.exp d.now = false) :
    ∃ d', d.txnGet id k = (d', .found e t.readTs) := by
  unfold Db.txnGet
  have hk' : k.isEmpty = false := by cases k <;> simp_all
  simp [ht, hk', hd, hu, hp, hl]

/-- …and a pending delete (or an already expired pending entry) reads as absent, even when
    the snapshot holds a live version. -/
theorem C04_get_pending_dead (d : Db) (id : Nat) (t : TxnM) (k : Bytes) (e : Ent)
    (ht : d.findTxn id = some t) (hk : k ≠ []) (hu : t.update = true) (hd : t.discarded = false)
    (hp : t.pending.find? (·.key == k) = some e)
    (hl : deletedOrExpired e.emeta e.exp d.now = true) :
    ∃ d', d.txnGet id k = (d', .notfound) := by
  unfold Db.txnGet
  have hk' : k.isEmpty = false := by cases k <;> simp_all
  simp [ht, hk', hd, hu, hp, hl]

/-- A key with no pending write is served from the snapshot at `readTs` (`DB.get`). -/
theorem C04_get_snapshot (d : Db) (id : Nat) (t : TxnM) (k : Bytes)
    (ht : d.findTxn id = some t) (hk : k ≠ []) (hd : t.discarded = false)
    (hp : t.update = true → t.pending.find? (·.key == k) = none) :
    ∃ d', (d.txnGet id k).1 = d' ∧ d'.lsm = d.lsm ∧
      (d.txnGet id k).2 = (match d.lsm.get k t.readTs with
        | none => GetRes.notfound
        | some e => if deletedOrExpired e.emeta e.exp d.now then .notfound else .found e e.ver) := by
  unfold Db.txnGet
  have hk' : k.isEmpty = false := by cases k <;> simp_all
  cases hu : t.update
  · simp [ht, hk', hd, hu]
    cases d.lsm.get k t.readTs <;> simp
    split <;> simp
  · have := hp hu
    simp [ht, hk', hd, hu, this, Db.setTxn]
    cases d.lsm.get k t.readTs <;> simp
    split <;> simp

/-- Isolation: `Set`/`Delete` in one transaction changes neither the LSM tree, nor the oracle,
    nor any other transaction (pending writes live only in the writing transaction). -/
theorem C04_modify_isolated (d : Db) (id : Nat) (e : Ent) :
    (d.modify id e).1.lsm = d.lsm ∧ (d.modify id e).1.nextTs = d.nextTs ∧
    (d.modify id e).1.committed = d.committed ∧
    ∀ id', id' ≠ id → (d.modify id e).1.findTxn id' = d.findTxn id' := by
  cases h : d.findTxn id with
  | none => simp [modify_none e h]
  | some t =>
    rcases modify_shape e h with h1 | ⟨t', hid, h1⟩
    · simp [h1]
    · rw [h1]
      refine ⟨rfl, rfl, rfl, ?_⟩
      intro id' hne
      exact findTxn_setTxn_ne d t' id' (by rw [hid]; exact hne)

/-- Pending writes are invisible to every other transaction before the commit: a `Set`/`Delete`
    in transaction `id` changes no `Get` answer and no iteration of any other transaction
    `id'` (the LSM tree, the clock and the other transaction records are untouched). -/
theorem C04_commit_invisible_before (d : Db) (id : Nat) (e : Ent) :
    (d.modify id e).1.lsm = d.lsm ∧
    ∀ id', id' ≠ id →
      (∀ k, ((d.modify id e).1.txnGet id' k).2 = (d.txnGet id' k).2) ∧
      (∀ o seek, (d.modify id e).1.iterate id' o seek = d.iterate id' o seek) := by
  have hl := modify_lsm d id e
  have hn := modify_now d id e
  refine ⟨hl, ?_⟩
  intro id' hne
  have hf := (C04_modify_isolated d id e).2.2.2 id' hne
  constructor
  · intro k
    cases ht : d.findTxn id' with
    | none =>
      have ht' : (d.modify id e).1.findTxn id' = none := by rw [hf, ht]
      simp only [Db.txnGet, ht, ht']
    | some t =>
      have ht' : (d.modify id e).1.findTxn id' = some t := by rw [hf, ht]
      rw [txnGet_eq k ht, txnGet_eq k ht', hl, hn]
  · intro o seek
    simp only [Db.iterate, hf, hl, hn]

/-- …and so does any sequence of writes of transaction `id`. -/
theorem C04_pending_invisible_seq (d : Db) (id : Nat) (ws : List Ent) (id' : Nat) (hne : id' ≠ id) :
    let d' := ws.foldl (fun d e => (d.modify id e).1) d
    d'.lsm = d.lsm ∧ (∀ k, (d'.txnGet id' k).2 = (d.txnGet id' k).2) ∧
    (∀ o seek, d'.iterate id' o seek = d.iterate id' o seek) := by
  induction ws generalizing d with
  | nil => exact ⟨rfl, fun _ => rfl, fun _ _ => rfl⟩
  | cons e ws ih =>
    simp only [List.foldl_cons]
    obtain ⟨h1, h2, h3⟩ := ih (d.modify id e).1
    obtain ⟨g1, g2⟩ := C04_commit_invisible_before d id e
    obtain ⟨g3, g4⟩ := g2 id' hne
    exact ⟨h1.trans g1, fun k => (h2 k).trans (g3 k), fun o seek => (h3 o seek).trans (g4 o seek)⟩

/-! ## the iterator overlay: pending writes are input 0 of the merge -/

theorem pendingSource_sorted (t : TxnM) : SortedEnts (pendingSource t) := by
  unfold pendingSource
  split
  · exact sortedEnts_nil
  · exact foldl_memPut_sorted sortedEnts_nil

theorem pendingSource_mem {t : TxnM} {p : Ent} (hp : p ∈ pendingSource t) :
    t.update = true ∧ ∃ e ∈ t.pending, p = { e with ver := t.readTs } := by
  unfold pendingSource at hp
  split at hp
  · cases hp
  · rename_i hu
    refine ⟨by simpa using hu, ?_⟩
    rcases mem_foldl_memPut hp with h | h
    · obtain ⟨e, he, rfl⟩ := List.mem_map.mp h
      exact ⟨e, he, rfl⟩
    · cases h

/-- every pending write (one per key) is in the pending source, at version `readTs` -/
theorem pendingSource_complete {t : TxnM} (hu : t.update = true)
    (hpk : t.pending.Pairwise (fun a b => a.key ≠ b.key)) {e : Ent} (he : e ∈ t.pending) :
    ({ e with ver := t.readTs } : Ent) ∈ pendingSource t := by
  unfold pendingSource
  simp only [hu, Bool.not_true, Bool.false_eq_true, if_false]
  apply mem_foldl_memPut_of_distinct
  · rw [List.pairwise_map]
    exact hpk.imp (fun hab hc => hab hc.1)
  · exact List.mem_map_of_mem he

/-- **Read your own writes in iterators.** In `Db.iterate` the pending source is the first input
    of `mergeAll`, so for every pending write `p` (read at version `readTs`):
    * the merged stream contains `p`;
    * `p` is the newest version `≤ readTs` of its key in the merged stream — every snapshot
      version of that key, also one with version exactly `readTs`, is shadowed;
    * `p` is the *first* entry of its key with version `≤ readTs` in stream order (so the
      forward scan, which takes the first such entry of each key, takes `p`).
    Combined with `C05_forward` / `C05_reverse` (the scan yields, per key, the newest version
    `≤ readTs` of the merged stream, if live) this is the overlay semantics: value, user meta,
    expiry and deletion of the pending write replace the snapshot's. -/
theorem C04_iter_pending_first (d : Db) (t : TxnM) (p : Ent)
    (hs : ∀ s ∈ d.lsm.sources, SortedEnts s) (hp : p ∈ pendingSource t) :
    p ∈ mergeAll (pendingSource t :: d.lsm.sources) ∧ p.ver = t.readTs ∧
    SortedEnts (mergeAll (pendingSource t :: d.lsm.sources)) ∧
    newestLE (mergeAll (pendingSource t :: d.lsm.sources)) p.key t.readTs = some p ∧
    (mergeAll (pendingSource t :: d.lsm.sources)).find?
      (fun x => decide (x.key = p.key ∧ x.ver ≤ t.readTs)) = some p := by
  have hall : ∀ s ∈ pendingSource t :: d.lsm.sources, SortedEnts s := by
    intro s hs'
    rcases List.mem_cons.mp hs' with rfl | hs'
    · exact pendingSource_sorted t
    · exact hs s hs'
  have hsorted := mergeAll_sorted hall
  have hmem : p ∈ mergeAll (pendingSource t :: d.lsm.sources) := by
    rw [mergeAll_cons, mem_merge2 (pendingSource_sorted t) (mergeAll_sorted hs)]
    exact .inl hp
  have hver : p.ver = t.readTs := by
    obtain ⟨-, e, -, rfl⟩ := pendingSource_mem hp
    rfl
  have hnew : newestLE (mergeAll (pendingSource t :: d.lsm.sources)) p.key t.readTs = some p := by
    rw [newestLE_sorted_some_iff hsorted]
    refine ⟨hmem, rfl, by omega, ?_⟩
    intro x _ _ hx
    omega
  refine ⟨hmem, hver, hsorted, hnew, ?_⟩
  rw [← newestLE_sorted_eq_find? hsorted]
  exact hnew

-- non-vacuity: a concrete transaction with a pending write over a snapshot value
example :
    let d0 := Db.init { maxBatchCount := 100, maxBatchSize := 100000 } 0
    let d1 := (d0.begin 1 true 0).1
    let d2 := (d1.modify 1 { key := [0x61], ver := 0, emeta := 0, umeta := 7, exp := 0, val := [1, 2] }).1
    (match (d2.txnGet 1 [0x61]).2 with | .found e v => e.val == [1, 2] && v == 0 | _ => false) = true := by
  decide

-- non-vacuity of `C04_iter_pending_first`: a committed value for `a`, then a pending overwrite in
-- transaction 2: every source is sorted and the pending copy (at version readTs = 1) is in the
-- pending source. (`mergeAll` itself is defined by well-founded recursion and does not reduce
-- under `decide`; the end-to-end behaviour on concrete histories is the differential harness.)
example :
    let d0 := Db.init { maxBatchCount := 100, maxBatchSize := 100000 } 0
    let d1 := (d0.begin 1 true 0).1
    let e : Ent := { key := [0x61], ver := 0, emeta := 0, umeta := 7, exp := 0, val := [1] }
    let d2 := ((d1.modify 1 e).1.commit 1 0).1
    let d3 := ((d2.begin 2 true 0).1.begin 3 false 0).1
    let d4 := (d3.modify 2 { e with val := [2] }).1
    (∀ s ∈ d4.lsm.sources, List.Pairwise (fun a b => entCmp a b = .lt) s) ∧
    ((d4.findTxn 2).any (fun t =>
        decide (({ e with val := [2], ver := 1 } : Ent) ∈ pendingSource t) && t.readTs == 1) = true) ∧
    d4.lsm.mem.map (·.val) = [[1]] := by
  decide

end Badger
