import BadgerModel.Mvcc
import BadgerProofs.Lemmas.Txn
/-!
# C04 — a read-write transaction sees its own pending writes; nobody else does.
(Get part. The iterator overlay is `C04_iter_pending_first`: pending writes are source 0 of
the merged iterator, so they win over every snapshot entry of the same key — the merge and
scan theorems are in C21/C05.)
-/
namespace Badger

/-- `Txn.Get` on a key with a live pending write returns exactly that write, at version
    `readTs`, whatever the snapshot holds. -/
theorem C04_get_pending_live (d : Db) (id : Nat) (t : TxnM) (k : Bytes) (e : Ent)
    (ht : d.findTxn id = some t) (hk : k ≠ []) (hu : t.update = true) (hd : t.discarded = false)
    (hp : t.pending.find? (·.key == k) = some e)
    (hl : deletedOrExpired e.emeta e.exp d.now = false) :
    ∃ d', d.txnGet id k = (d', .found e t.readTs) := by
  unfold Db.txnGet
  have hk' : k.isEmpty = false := by cases k <;> simp_all
  simp [ht, hk', hd, hu, hp, hl]

/-- …and a pending delete (or an already expired pending entry) reads as absent, even when
    the snapshot holds a live version. -/
theorem C04_get_pending_dead (d : Db) (id : Nat) (t : TxnM) (k : Bytes) (e : Ent)
    (ht : d.findTxn id = some t) (hk : k ≠ []) (hu : t.update = true) (hd : t.discarded = false)
    (hp : t.pending.find? (·.key == k) = some e)
    (hl : deletedOrExpired e.emeta e.exp d.now = true) :
    ∃ d', d.txnGet id k = (d', .notfound) := by
  unfold Db.txnGet
  have hk' : k.isEmpty = false := by cases k <;> simp_all
  simp [ht, hk', hd, hu, hp, hl]

/-- A key with no pending write is served from the snapshot at `readTs` (`DB.get`). -/
theorem C04_get_snapshot (d : Db) (id : Nat) (t : TxnM) (k : Bytes)
    (ht : d.findTxn id = some t) (hk : k ≠ []) (hd : t.discarded = false)
    (hp : t.update = true → t.pending.find? (·.key == k) = none) :
    ∃ d', (d.txnGet id k).1 = d' ∧ d'.lsm = d.lsm ∧
      (d.txnGet id k).2 = (match d.lsm.get k t.readTs with
        | none => GetRes.notfound
        | some e => if deletedOrExpired e.emeta e.exp d.now then .notfound else .found e e.ver) := by
  unfold Db.txnGet
  have hk' : k.isEmpty = false := by cases k <;> simp_all
  cases hu : t.update
  · simp [ht, hk', hd, hu]
    cases d.lsm.get k t.readTs <;> simp
    split <;> simp
  · have := hp hu
    simp [ht, hk', hd, hu, this, Db.setTxn]
    cases d.lsm.get k t.readTs <;> simp
    split <;> simp

/-- Isolation: `Set`/`Delete` in one transaction changes neither the LSM tree, nor the oracle,
    nor any other transaction (pending writes live only in the writing transaction). -/
theorem C04_modify_isolated (d : Db) (id : Nat) (e : Ent) :
    (d.modify id e).1.lsm = d.lsm ∧ (d.modify id e).1.nextTs = d.nextTs ∧
    (d.modify id e).1.committed = d.committed ∧
    ∀ id', id' ≠ id → (d.modify id e).1.findTxn id' = d.findTxn id' := by
  cases h : d.findTxn id with
  | none => simp [modify_none e h]
  | some t =>
    rcases modify_shape e h with h1 | ⟨t', hid, h1⟩
    · simp [h1]
    · rw [h1]
      refine ⟨rfl, rfl, rfl, ?_⟩
      intro id' hne
      exact findTxn_setTxn_ne d t' id' (by rw [hid]; exact hne)

-- non-vacuity: a concrete transaction with a pending write over a snapshot value
example :
    let d0 := Db.init { maxBatchCount := 100, maxBatchSize := 100000 } 0
    let d1 := (d0.begin 1 true 0).1
    let d2 := (d1.modify 1 { key := [0x61], ver := 0, emeta := 0, umeta := 7, exp := 0, val := [1, 2] }).1
    (match (d2.txnGet 1 [0x61]).2 with | .found e v => e.val == [1, 2] && v == 0 | _ => false) = true := by
  decide

end Badger
