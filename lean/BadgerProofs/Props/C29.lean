import BadgerModel.Drop
import BadgerProofs.Props.C12Filter
/-!
# C29 — DropPrefix / DropAll remove exactly the requested data (list and table level)

* the compaction filter with `dropPrefixes` writes no entry whose user key has a dropped prefix
  (`C29_filter_no_prefix`) and leaves the reads of every other key alone (`C29_filter_other_keys`);
* `containsPrefix` is *exact* on a sorted table (`C29_containsPrefix_iff`): no table holding a key
  with the prefix is skipped (`C29_containsPrefix_complete`), none is rewritten for nothing, and
  the unchecked `ti.Key()` after the seek is never reached with an exhausted iterator
  (`C29_containsPrefix_seek_valid`);
* the `tableGroups` loop covers exactly the tables that `containsAnyPrefixes`, in maximal runs of
  consecutive indices (`C29_dropGroups_*`);
* a bottom table skipped by `keepTable` holds only keys with the prefix (`C29_keepTable_sound`);
* `DropAll` leaves no entry and does not touch the timestamp oracle (`C29_dropAll_*`).

The state-level theorems (`C29_prefix_gone`, …) are in `Props/C29State.lean`.
-/
namespace Badger

/-! ## byte-string prefixes and the lexicographic order -/

theorem isPrefixOf_nil_left' (k : Bytes) : List.isPrefixOf ([] : Bytes) k = true := by
  cases k <;> rfl

/-- a prefix is `≤` the string -/
theorem cmpBytes_of_isPrefixOf {p k : Bytes} (h : p.isPrefixOf k = true) : cmpBytes p k ≠ .gt := by
  induction p generalizing k with
  | nil => cases k <;> simp [cmpBytes]
  | cons a p ih =>
    cases k with
    | nil => simp [List.isPrefixOf] at h
    | cons b k =>
      simp only [List.isPrefixOf, Bool.and_eq_true, beq_iff_eq] at h
      obtain ⟨rfl, h2⟩ := h
      simp only [cmpBytes, Nat.lt_irrefl, if_false]
      exact ih h2

/-- the strings with prefix `p` form an interval that starts at `p`: anything between `p` and a
    string with prefix `p` has prefix `p` -/
theorem isPrefixOf_squeeze {p x y : Bytes} (h1 : cmpBytes p x ≠ .gt) (h2 : cmpBytes x y ≠ .gt)
    (h3 : p.isPrefixOf y = true) : p.isPrefixOf x = true := by
  induction p generalizing x y with
  | nil => exact isPrefixOf_nil_left' x
  | cons a p ih =>
    cases y with
    | nil => simp [List.isPrefixOf] at h3
    | cons c y =>
      simp only [List.isPrefixOf, Bool.and_eq_true, beq_iff_eq] at h3
      obtain ⟨rfl, h3⟩ := h3
      cases x with
      | nil => simp [cmpBytes] at h1
      | cons b x =>
        simp only [cmpBytes] at h1 h2
        by_cases c1 : a.toNat < b.toNat
        · -- then `b > a`, so `x > y`
          rw [if_neg (by omega), if_pos c1] at h2
          exact absurd rfl h2
        · by_cases c2 : b.toNat < a.toNat
          · rw [if_neg c1, if_pos c2] at h1; exact absurd rfl h1
          · rw [if_neg c1, if_neg c2] at h1
            rw [if_neg c2, if_neg c1] at h2
            have : a = b := UInt8.toNat_inj.mp (by omega)
            subst this
            simp only [List.isPrefixOf, beq_self_eq_true, Bool.true_and]
            exact ih h1 h2 h3

theorem cmpBytes_ne_lt_iff (a b : Bytes) : cmpBytes a b ≠ .lt ↔ cmpBytes b a ≠ .gt := by
  rw [Ne, Ne, cmpBytes_lt_iff_gt]

/-! ## (1) the filter with `dropPrefixes` -/

/-- **C29** — nothing with a dropped prefix is written by a compaction (any stream) -/
theorem C29_filter_no_prefix (p : CParams) (es : List Ent) :
    ∀ e ∈ subcompact p es, hasAnyPrefix e.key p.dropPrefixes = false := by
  intro e he
  rw [subcompact_dropPrefixes] at he
  have := (List.mem_filter.mp (C12_filter_mem he)).2
  simpa using this

/-- removing entries of *other* keys does not change what a read of `k` finds -/
theorem newestLE_filter_of_key {q : Ent → Bool} {k : Bytes} (hq : ∀ e : Ent, e.key = k → q e = true)
    (es : List Ent) (ts : Nat) : newestLE (es.filter q) k ts = newestLE es k ts := by
  induction es with
  | nil => rfl
  | cons x xs ih =>
    rw [List.filter_cons]
    cases hx : q x with
    | true => simp only [if_true]; rw [newestLE_cons, newestLE_cons, ih]
    | false =>
      simp only [Bool.false_eq_true, if_false]
      rw [newestLE_cons, ih, cand_neg, pick_none_left]
      intro h
      rw [hq x h.1] at hx; cases hx

theorem hasAnyPrefix_congr_key {k : Bytes} {ps : List Bytes} (h : hasAnyPrefix k ps = false) (e : Ent)
    (he : e.key = k) : (!hasAnyPrefix e.key ps) = true := by rw [he, h]; rfl

/-- **C29 (refined)** — through a compaction with `dropPrefixes`, a read of a key *without* a
    dropped prefix at `ts ≥ discardTs` finds the very same entry, except when that entry was a
    marker dead at `p.now` dropped because `hasOverlap = false` (and then nothing is found). -/
theorem C29_filter_other_keys_refined {p : CParams} {es : List Ent} (hs : SortedEnts es) {ts : Nat}
    (hts : p.discardTs ≤ ts) {k : Bytes} (hk : hasAnyPrefix k p.dropPrefixes = false) :
    newestLE (subcompact p es) k ts = newestLE es k ts ∨
      (newestLE (subcompact p es) k ts = none ∧ p.hasOverlap = false ∧
        ∃ e, newestLE es k ts = some e ∧ deletedOrExpired e.emeta e.exp p.now = true) := by
  have hF := newestLE_filter_of_key (q := fun e => !hasAnyPrefix e.key p.dropPrefixes)
    (hasAnyPrefix_congr_key hk) es ts
  rw [subcompact_dropPrefixes, ← hF]
  exact C12_filter_reads_refined (p := p.noPrefixes) (hs.filter _) rfl hts k

/-- **C29** — a compaction with `dropPrefixes` leaves the reads of every key without a dropped
    prefix unchanged (at or above the discard watermark, on a clock not before the compaction's) -/
theorem C29_filter_other_keys {p : CParams} {es : List Ent} (hs : SortedEnts es) {ts now : Nat}
    (hts : p.discardTs ≤ ts) (hnow : p.now ≤ now) {k : Bytes}
    (hk : hasAnyPrefix k p.dropPrefixes = false) :
    visible now (newestLE (subcompact p es) k ts) = visible now (newestLE es k ts) := by
  rcases C29_filter_other_keys_refined hs hts hk with h | ⟨h, _, e, he, hd⟩
  · rw [h]
  · rw [h, he]
    simp only [visible, deletedOrExpired_mono hnow hd, if_true]

/-- and a read of a key *with* a dropped prefix finds nothing in the output -/
theorem C29_filter_prefix_keys (p : CParams) (es : List Ent) {k : Bytes}
    (hk : hasAnyPrefix k p.dropPrefixes = true) (ts : Nat) : newestLE (subcompact p es) k ts = none := by
  rw [newestLE_eq_none_iff]
  intro x hx hq
  have := C29_filter_no_prefix p es x hx
  rw [hq.1, hk] at this; cases this

/-! ## (2) `containsPrefix` -/

theorem seekGE_eq_find? (k : Bytes) (ts : Nat) (es : List Ent) :
    seekGE k ts es = es.find? (fun x => kvCmp x.key x.ver k ts != .lt) := by
  induction es with
  | nil => rfl
  | cons x xs ih =>
    rw [seekGE, List.find?_cons, ih]
    cases h : kvCmp x.key x.ver k ts <;> rfl

/-- with `uint64` versions, `Seek(KeyWithTs(p, MaxUint64))` stops at the first user key `≥ p` -/
theorem seek_max_pred {p : Bytes} {x : Ent} (hv : x.ver ≤ maxU64) :
    (kvCmp x.key x.ver p maxU64 != .lt) = true ↔ cmpBytes x.key p ≠ .lt := by
  rw [bne_iff_ne, Ne, kvCmp_lt_iff]
  constructor
  · intro h h'; exact h (.inl h')
  · intro h h'
    rcases h' with h' | ⟨_, h'⟩
    · exact h h'
    · omega

theorem SortedEnts.le_getLast {l : List Ent} (hs : SortedEnts l) {b e : Ent} (hb : l.getLast? = some b)
    (he : e ∈ l) : e = b ∨ entCmp e b = .lt := by
  obtain ⟨ini, rfl⟩ := List.getLast?_eq_some_iff.mp hb
  rcases List.mem_append.mp he with h | h
  · exact .inr ((sortedEnts_append.mp hs).2.2 e h b (by simp))
  · exact .inl (by simpa using h)

theorem Tbl.smallKey_le {t : Tbl} (hs : SortedEnts t.ents) {e : Ent} (he : e ∈ t.ents) :
    cmpBytes t.smallKey e.key ≠ .gt := by
  unfold Tbl.smallKey Tbl.smallest
  cases hl : t.ents with
  | nil => rw [hl] at he; cases he
  | cons a l =>
    rw [hl] at hs he
    simp only [List.head?_cons]
    rcases List.mem_cons.mp he with rfl | h
    · rw [cmpBytes_refl]; simp
    · exact entCmp_lt_key_le (hs.head_lt e h)

theorem Tbl.le_bigKey {t : Tbl} (hs : SortedEnts t.ents) {e : Ent} (he : e ∈ t.ents) :
    cmpBytes e.key t.bigKey ≠ .gt := by
  unfold Tbl.bigKey Tbl.biggest
  cases hb : t.ents.getLast? with
  | none => rw [List.getLast?_eq_none_iff] at hb; rw [hb] at he; cases he
  | some b =>
    simp only
    rcases hs.le_getLast hb he with rfl | h
    · rw [cmpBytes_refl]; simp
    · exact entCmp_lt_key_le h

theorem Tbl.smallKey_mem {t : Tbl} (hne : t.ents ≠ []) : ∃ e ∈ t.ents, e.key = t.smallKey := by
  unfold Tbl.smallKey Tbl.smallest
  cases hl : t.ents with
  | nil => exact absurd hl hne
  | cons a l => exact ⟨a, List.mem_cons_self, rfl⟩

theorem Tbl.bigKey_mem {t : Tbl} (hne : t.ents ≠ []) : ∃ e ∈ t.ents, e.key = t.bigKey := by
  unfold Tbl.bigKey Tbl.biggest
  cases hb : t.ents.getLast? with
  | none => rw [List.getLast?_eq_none_iff] at hb; exact absurd hb hne
  | some b => exact ⟨b, List.mem_of_getLast? hb, rfl⟩

/-- **C29** — where `isPresent` is called (`prefix < biggest user key`) the seek always lands on an
    entry: the unchecked `ti.Key()` never reads an exhausted iterator. -/
theorem C29_containsPrefix_seek_valid {t : Tbl} {p : Bytes}
    (hlt : cmpBytes p t.bigKey = .lt) : ∃ e ∈ t.ents, seekGE p maxU64 t.ents = some e := by
  have hne : t.ents ≠ [] := by
    intro h
    simp only [Tbl.bigKey, Tbl.biggest, h, List.getLast?_nil] at hlt
    cases p <;> simp [cmpBytes] at hlt
  obtain ⟨b, hb, hbk⟩ := Tbl.bigKey_mem hne
  rw [seekGE_eq_find?]
  cases hf : t.ents.find? (fun x => kvCmp x.key x.ver p maxU64 != .lt) with
  | some e => exact ⟨e, List.mem_of_find?_eq_some hf, rfl⟩
  | none =>
    exfalso
    have := List.find?_eq_none.mp hf b hb
    simp only [bne_iff_ne, ne_eq, Decidable.not_not] at this
    rw [kvCmp_lt_iff, hbk] at this
    rcases this with h | ⟨h, _⟩
    · rw [(cmpBytes_lt_iff_gt _ _).mp hlt] at h; cases h
    · rw [h, cmpBytes_refl] at hlt; cases hlt

/-- `isPresent` on a sorted table with `uint64` versions: the first entry with user key `≥ p`
    has the prefix iff some entry has -/
theorem seekHasPrefix_iff {t : Tbl} (hs : SortedEnts t.ents) (hv : ∀ e ∈ t.ents, e.ver ≤ maxU64)
    (p : Bytes) : t.seekHasPrefix p = true ↔ ∃ e ∈ t.ents, p.isPrefixOf e.key = true := by
  unfold Tbl.seekHasPrefix
  rw [seekGE_eq_find?]
  constructor
  · intro h
    cases hf : t.ents.find? (fun x => kvCmp x.key x.ver p maxU64 != .lt) with
    | none => rw [hf] at h; cases h
    | some x => rw [hf] at h; exact ⟨x, List.mem_of_find?_eq_some hf, h⟩
  · rintro ⟨e, he, hpe⟩
    have hple : cmpBytes p e.key ≠ .gt := cmpBytes_of_isPrefixOf hpe
    have hqe : (kvCmp e.key e.ver p maxU64 != .lt) = true :=
      (seek_max_pred (hv e he)).mpr ((cmpBytes_ne_lt_iff _ _).mpr hple)
    cases hf : t.ents.find? (fun x => kvCmp x.key x.ver p maxU64 != .lt) with
    | none =>
      have := List.find?_eq_none.mp hf e he
      simp [hqe] at this
    | some x =>
      simp only
      obtain ⟨hqx, as, bs, hl, hnot⟩ := List.find?_eq_some_iff_append.mp hf
      have hxm : x ∈ t.ents := List.mem_of_find?_eq_some hf
      have hpx : cmpBytes p x.key ≠ .gt :=
        (cmpBytes_ne_lt_iff _ _).mp ((seek_max_pred (hv x hxm)).mp hqx)
      -- `e` is `x` or comes after it
      have hxe : cmpBytes x.key e.key ≠ .gt := by
        rw [hl] at he hs
        rcases List.mem_append.mp he with h | h
        · have := hnot e h; simp [hqe] at this
        · rcases List.mem_cons.mp h with rfl | h
          · rw [cmpBytes_refl]; simp
          · exact entCmp_lt_key_le ((sortedEnts_append.mp hs).2.1.head_lt e h)
      exact isPrefixOf_squeeze hpx hxe hpe

/-- **C29** — no table holding a key with the prefix is skipped by `dropPrefixes` -/
theorem C29_containsPrefix_complete {t : Tbl} (hs : SortedEnts t.ents)
    (hv : ∀ e ∈ t.ents, e.ver ≤ maxU64) {p : Bytes} (h : ∃ e ∈ t.ents, p.isPrefixOf e.key = true) :
    t.containsPrefix p = true := by
  obtain ⟨e, he, hpe⟩ := h
  unfold Tbl.containsPrefix
  by_cases h1 : p.isPrefixOf t.smallKey = true
  · rw [if_pos h1]
  · rw [if_neg h1]
    by_cases h2 : p.isPrefixOf t.bigKey = true
    · rw [if_pos h2]
    · rw [if_neg h2]
      have hple : cmpBytes p e.key ≠ .gt := cmpBytes_of_isPrefixOf hpe
      have hgt : cmpBytes p t.smallKey = .gt := by
        cases hc : cmpBytes p t.smallKey with
        | gt => rfl
        | lt => exact absurd (isPrefixOf_squeeze (by rw [hc]; simp) (Tbl.smallKey_le hs he) hpe) h1
        | eq => exact absurd (isPrefixOf_squeeze (by rw [hc]; simp) (Tbl.smallKey_le hs he) hpe) h1
      have hlt : cmpBytes p t.bigKey = .lt := by
        cases hc : cmpBytes p t.bigKey with
        | lt => rfl
        | eq =>
          rw [cmpBytes_eq_iff] at hc
          rw [← hc] at h2
          exact absurd (isPrefixOf_squeeze (by rw [cmpBytes_refl]; simp) hple hpe) h2
        | gt =>
          -- `p ≤ e.key ≤ big < p`
          exact absurd hc (cmpBytes_le_trans hple (Tbl.le_bigKey hs he))
      rw [hgt, hlt]
      simp only [beq_self_eq_true, Bool.and_self, if_true]
      exact (seekHasPrefix_iff hs hv p).mpr ⟨e, he, hpe⟩

/-- **C29** — and none is rewritten for nothing: `containsPrefix` never over-approximates -/
theorem C29_containsPrefix_sound {t : Tbl} (hne : t.ents ≠ []) (hs : SortedEnts t.ents)
    (hv : ∀ e ∈ t.ents, e.ver ≤ maxU64) {p : Bytes} (h : t.containsPrefix p = true) :
    ∃ e ∈ t.ents, p.isPrefixOf e.key = true := by
  unfold Tbl.containsPrefix at h
  split at h
  · rename_i h1
    obtain ⟨e, he, hk⟩ := Tbl.smallKey_mem hne
    exact ⟨e, he, hk ▸ h1⟩
  · split at h
    · rename_i _ h2
      obtain ⟨e, he, hk⟩ := Tbl.bigKey_mem hne
      exact ⟨e, he, hk ▸ h2⟩
    · split at h
      · exact (seekHasPrefix_iff hs hv p).mp h
      · cases h

/-- **C29** — `containsPrefix` is exact on a non-empty sorted table -/
theorem C29_containsPrefix_iff {t : Tbl} (hne : t.ents ≠ []) (hs : SortedEnts t.ents)
    (hv : ∀ e ∈ t.ents, e.ver ≤ maxU64) (p : Bytes) :
    t.containsPrefix p = true ↔ ∃ e ∈ t.ents, p.isPrefixOf e.key = true :=
  ⟨C29_containsPrefix_sound hne hs hv, C29_containsPrefix_complete hs hv⟩

theorem C29_containsAnyPrefixes_iff {t : Tbl} (hne : t.ents ≠ []) (hs : SortedEnts t.ents)
    (hv : ∀ e ∈ t.ents, e.ver ≤ maxU64) (ps : List Bytes) :
    t.containsAnyPrefixes ps = true ↔ ∃ e ∈ t.ents, hasAnyPrefix e.key ps = true := by
  unfold Tbl.containsAnyPrefixes hasAnyPrefix
  simp only [List.any_eq_true, C29_containsPrefix_iff hne hs hv]
  constructor
  · rintro ⟨p, hp, e, he, h⟩; exact ⟨e, he, p, hp, h⟩
  · rintro ⟨e, he, p, hp, h⟩; exact ⟨p, hp, e, he, h⟩

/-! ## (3) the `tableGroups` loop -/

theorem mem_finishGroup {cur g : List Nat} : g ∈ finishGroup cur ↔ g = cur ∧ cur ≠ [] := by
  unfold finishGroup
  cases cur <;> simp

/-- what the loop returns, for any start index and open group -/
theorem dropGroupsAux_spec (ps : List Bytes) (ts : List Tbl) (i : Nat) (cur : List Nat) :
    -- every open index and every index whose table contains a prefix lands in a group
    ((∀ x ∈ cur, ∃ g ∈ dropGroupsAux ps i ts cur, x ∈ g) ∧
     (∀ j t, ts[j]? = some t → t.containsAnyPrefixes ps = true →
        ∃ g ∈ dropGroupsAux ps i ts cur, i + j ∈ g)) ∧
    -- and nothing else
    (∀ g ∈ dropGroupsAux ps i ts cur, ∀ x ∈ g,
        x ∈ cur ∨ ∃ j t, x = i + j ∧ ts[j]? = some t ∧ t.containsAnyPrefixes ps = true) := by
  induction ts generalizing i cur with
  | nil =>
    simp only [dropGroupsAux, mem_finishGroup]
    refine ⟨⟨?_, ?_⟩, ?_⟩
    · intro x hx; exact ⟨cur, ⟨rfl, List.ne_nil_of_mem hx⟩, hx⟩
    · intro j t h; simp at h
    · rintro g ⟨rfl, _⟩ x hx; exact .inl hx
  | cons t ts ih =>
    rw [dropGroupsAux]
    by_cases hc : t.containsAnyPrefixes ps = true
    · rw [if_pos hc]
      obtain ⟨⟨ih1, ih2⟩, ih3⟩ := ih (i + 1) (cur ++ [i])
      refine ⟨⟨?_, ?_⟩, ?_⟩
      · intro x hx; exact ih1 x (List.mem_append_left _ hx)
      · intro j t' hj hct
        cases j with
        | zero => exact ih1 i (by simp)
        | succ j =>
          obtain ⟨g, hg, hm⟩ := ih2 j t' (by simpa using hj) hct
          exact ⟨g, hg, by rw [show i + (j + 1) = i + 1 + j by omega]; exact hm⟩
      · intro g hg x hx
        rcases ih3 g hg x hx with h | ⟨j, t', rfl, hj, hct⟩
        · rcases List.mem_append.mp h with h | h
          · exact .inl h
          · simp only [List.mem_singleton] at h
            exact .inr ⟨0, t, by omega, rfl, hc⟩
        · exact .inr ⟨j + 1, t', by omega, by simpa using hj, hct⟩
    · rw [if_neg hc]
      obtain ⟨⟨_, ih2⟩, ih3⟩ := ih (i + 1) []
      refine ⟨⟨?_, ?_⟩, ?_⟩
      · intro x hx
        exact ⟨cur, List.mem_append_left _ (mem_finishGroup.mpr ⟨rfl, List.ne_nil_of_mem hx⟩), hx⟩
      · intro j t' hj hct
        cases j with
        | zero => simp at hj; subst hj; exact absurd hct hc
        | succ j =>
          obtain ⟨g, hg, hm⟩ := ih2 j t' (by simpa using hj) hct
          exact ⟨g, List.mem_append_right _ hg, by rw [show i + (j + 1) = i + 1 + j by omega]; exact hm⟩
      · intro g hg x hx
        rcases List.mem_append.mp hg with hg | hg
        · obtain ⟨rfl, _⟩ := mem_finishGroup.mp hg; exact .inl hx
        · rcases ih3 g hg x hx with h | ⟨j, t', rfl, hj, hct⟩
          · cases h
          · exact .inr ⟨j + 1, t', by omega, by simpa using hj, hct⟩

/-- every group is a non-empty run of consecutive indices, provided the open group is one that
    ends just before the current index -/
theorem dropGroupsAux_consecutive (ps : List Bytes) (ts : List Tbl) (i a n : Nat) (h : a + n = i) :
    ∀ g ∈ dropGroupsAux ps i ts (List.range' a n), g ≠ [] ∧ g = List.range' (g.headD 0) g.length := by
  induction ts generalizing i a n with
  | nil =>
    intro g hg
    simp only [dropGroupsAux, mem_finishGroup] at hg
    obtain ⟨rfl, hne⟩ := hg
    refine ⟨hne, ?_⟩
    cases n with
    | zero => simp at hne
    | succ n => simp [List.range'_succ]
  | cons t ts ih =>
    intro g hg
    rw [dropGroupsAux] at hg
    split at hg
    · have : List.range' a n ++ [i] = List.range' a (n + 1) := by
        rw [List.range'_concat, Nat.one_mul, h]
      rw [this] at hg
      exact ih (i + 1) a (n + 1) (by omega) g hg
    · rcases List.mem_append.mp hg with hg | hg
      · obtain ⟨rfl, hne⟩ := mem_finishGroup.mp hg
        refine ⟨hne, ?_⟩
        cases n with
        | zero => simp at hne
        | succ n => simp [List.range'_succ]
      · exact ih (i + 1) (i + 1) 0 (by omega) g (by simpa using hg)

/-- **C29** — every table that `containsAnyPrefixes` is in some group … -/
theorem C29_dropGroups_cover {tbls : List Tbl} {ps : List Bytes} {j : Nat} {t : Tbl}
    (hj : tbls[j]? = some t) (hc : t.containsAnyPrefixes ps = true) :
    ∃ g ∈ dropGroups tbls ps, j ∈ g := by
  have := (dropGroupsAux_spec ps tbls 0 []).1.2 j t hj hc
  simpa [dropGroups] using this

/-- … the groups hold nothing else … -/
theorem C29_dropGroups_sound {tbls : List Tbl} {ps : List Bytes} {g : List Nat}
    (hg : g ∈ dropGroups tbls ps) {j : Nat} (hj : j ∈ g) :
    ∃ t, tbls[j]? = some t ∧ t.containsAnyPrefixes ps = true := by
  rcases (dropGroupsAux_spec ps tbls 0 []).2 g hg j hj with h | ⟨j', t, rfl, h1, h2⟩
  · cases h
  · exact ⟨t, by simpa using h1, h2⟩

/-- … and each group is a non-empty run of consecutive table indices (the "bottom tables are
    consecutive" requirement of the compaction). -/
theorem C29_dropGroups_consecutive {tbls : List Tbl} {ps : List Bytes} {g : List Nat}
    (hg : g ∈ dropGroups tbls ps) : g ≠ [] ∧ g = List.range' (g.headD 0) g.length :=
  dropGroupsAux_consecutive ps tbls 0 0 0 rfl g (by simpa [dropGroups] using hg)

/-- the groups are maximal: the table just before a group's first index does not contain a prefix
    (so two groups are never adjacent). Stated through soundness/cover: an index next to a group
    that contains a prefix belongs to a group as well — which by consecutiveness and the loop is
    the same one; we record the simple half that is used downstream. -/
theorem C29_dropGroups_mem_iff {tbls : List Tbl} {ps : List Bytes} {j : Nat} :
    (∃ g ∈ dropGroups tbls ps, j ∈ g) ↔ ∃ t, tbls[j]? = some t ∧ t.containsAnyPrefixes ps = true :=
  ⟨fun ⟨_, hg, hj⟩ => C29_dropGroups_sound hg hj, fun ⟨_, h1, h2⟩ => C29_dropGroups_cover h1 h2⟩

/-! ## (4) `keepTable` -/

/-- the `keepTable` test of `compactBuildTables`, as it appears in `compactOutput` -/
def skippedByKeepTable (ps : List Bytes) (t : Tbl) : Bool :=
  ps.any (fun p => match t.smallest, t.biggest with
    | some a, some b => p.isPrefixOf a.key && p.isPrefixOf b.key
    | _, _ => false)

/-- **C29** — a bottom table that `keepTable` drops without reading it holds only keys with a
    dropped prefix -/
theorem C29_keepTable_sound {ps : List Bytes} {t : Tbl} (hs : SortedEnts t.ents)
    (h : skippedByKeepTable ps t = true) : ∀ e ∈ t.ents, hasAnyPrefix e.key ps = true := by
  intro e he
  simp only [skippedByKeepTable, List.any_eq_true] at h
  obtain ⟨p, hp, hm⟩ := h
  simp only [hasAnyPrefix, List.any_eq_true]
  refine ⟨p, hp, ?_⟩
  cases ha : t.smallest with
  | none => rw [ha] at hm; cases hm
  | some a =>
    cases hb : t.biggest with
    | none => rw [ha, hb] at hm; cases hm
    | some b =>
      rw [ha, hb] at hm
      simp only [Bool.and_eq_true] at hm
      have h1 : cmpBytes a.key e.key ≠ .gt := by
        have := Tbl.smallKey_le hs he
        simpa [Tbl.smallKey, ha] using this
      have h2 : cmpBytes e.key b.key ≠ .gt := by
        have := Tbl.le_bigKey hs he
        simpa [Tbl.bigKey, hb] using this
      exact isPrefixOf_squeeze (cmpBytes_le_trans (cmpBytes_of_isPrefixOf hm.1) h1) h2 hm.2

/-- `compactOutput` uses exactly this test -/
theorem compactOutput_validBots (s : Lsm) (cd : CompactDef) (d n now : Nat) :
    (compactOutput s cd d n now).1 =
      subcompact { discardTs := d, numKeep := n,
                   hasOverlap := (cd.thisLevel == 0 && cd.nextLevel == 0) ||
                     checkOverlap s (pickIdx (s.levels.getD cd.thisLevel []) cd.top ++
                       pickIdx (s.levels.getD cd.nextLevel []) cd.bot) (cd.nextLevel + 1),
                   now := now, dropPrefixes := cd.dropPrefixes }
        (mergeAll ((if cd.thisLevel == 0
            then (pickIdx (s.levels.getD cd.thisLevel []) cd.top).reverse.map (·.ents)
            else (pickIdx (s.levels.getD cd.thisLevel []) cd.top).map (·.ents)) ++
          [(((pickIdx (s.levels.getD cd.nextLevel []) cd.bot).filter
              (fun t => !skippedByKeepTable cd.dropPrefixes t)).map (·.ents)).flatten])) := rfl

/-! ## (5) DropAll -/

theorem Lsm.dropAll_eq_init (s : Lsm) : s.dropAll = Lsm.init s.levels.length := by
  simp only [Lsm.dropAll, Lsm.init, Lsm.mk.injEq, true_and]
  induction s.levels with
  | nil => rfl
  | cons l ls ih => simp [List.replicate_succ, ih]

/-- **C29** — after `DropAll` the tree holds no entry … -/
theorem C29_dropAll_empty (s : Lsm) : s.dropAll.allEntries = [] := by
  unfold Lsm.allEntries Lsm.sources Lsm.dropAll
  cases s.levels with
  | nil => rfl
  | cons l0 rest =>
    simp only [List.map_cons, List.reverse_nil, List.map_nil, List.nil_append, List.map_map]
    simp

/-- … so every read finds nothing … -/
theorem C29_dropAll_reads (s : Lsm) (k : Bytes) (ts now : Nat) : s.dropAll.specGet k ts now = none := by
  unfold Lsm.specGet; rw [C29_dropAll_empty]; rfl

/-- … the number of levels is unchanged, and on the database model neither the timestamp oracle
    nor the transactions are touched (writes keep being accepted with fresh timestamps). -/
theorem C29_dropAll_levels (s : Lsm) : s.dropAll.levels.length = s.levels.length := by
  simp [Lsm.dropAll]

theorem C29_dropAll_db (d : Db) :
    d.dropAll.lsm.allEntries = [] ∧ d.dropAll.nextTs = d.nextTs ∧ d.dropAll.readMark = d.readMark ∧
      d.dropAll.txns = d.txns ∧ d.dropAll.committed = d.committed := by
  refine ⟨C29_dropAll_empty d.lsm, rfl, rfl, rfl, rfl⟩

/-! ## sanity -/

section Sanity

private def mk (k : List Nat) (v : Nat) : Ent :=
  { key := k.map UInt8.ofNat, ver := v, emeta := 0, umeta := 0, exp := 0, val := [] }

private def lvl : List Tbl :=
  [{ ents := [mk [1] 1, mk [1, 5] 1], id := 1 }, { ents := [mk [2] 1, mk [2, 0] 1], id := 2 },
   { ents := [mk [2, 1] 1, mk [2, 2] 1], id := 3 }, { ents := [mk [3] 1, mk [4] 1], id := 4 },
   { ents := [mk [5] 1, mk [7] 1], id := 5 }, { ents := [mk [8] 1, mk [9] 1], id := 6 }]

-- prefix inside a table but at neither end (`isPresent` decides), present and absent
example : (lvl.map (fun t => t.containsPrefix [6])) = [false, false, false, false, false, false] := by decide
example : ({ ents := [mk [5] 1, mk [6, 1] 1, mk [7] 1] } : Tbl).containsPrefix [6] = true := by decide
example : (lvl.map (fun t => t.containsPrefix [2])) = [false, true, true, false, false, false] := by decide
example : dropGroups lvl [[2], [8]] = [[1, 2], [5]] := by decide
example : dropGroups lvl [[1], [2], [9]] = [[0, 1, 2], [5]] := by decide
example : skippedByKeepTable [[2]] { ents := [mk [2] 1, mk [2, 0] 1] } = true := by decide
-- hypotheses of C29_containsPrefix_iff / C29_filter_other_keys are satisfiable
example : ∀ t ∈ lvl, t.ents ≠ [] ∧ SortedEnts t.ents ∧ ∀ e ∈ t.ents, e.ver ≤ maxU64 := by decide
example : subcompact { discardTs := 0, numKeep := 1, hasOverlap := false, now := 0, dropPrefixes := [[2]] }
    [mk [1] 1, mk [2] 3, mk [2, 0] 1, mk [3] 1] = [mk [1] 1, mk [3] 1] := by decide

end Sanity

end Badger
