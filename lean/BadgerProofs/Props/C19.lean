import BadgerModel.Bloom
import BadgerProofs.Lemmas.AuxBits
import BadgerProofs.Lemmas.Bytes
/-!
# C19 — bloom filters never hide a key that is present (`y/bloom.go`, `table.DoesNotHave`).

`appendFilter` and `mayContain` are two separate loops in the model, exactly as in the Go code;
the theorems show that they visit the same bit positions, for every list of key hashes, every
`bitsPerKey : Int` (hence every `BloomFalsePositive`) and with exact `uint32` wrap-around.
The only side condition is the one under which the Go code itself does not panic:
`uint32(nBits) ≠ 0` (a filter whose size is not a multiple of 512 MiB).
-/
namespace Badger

/-! ## bits of a byte string -/

theorem testBit_eq (f : Bytes) (p : Nat) :
    testBit f p = (f.getD (p / 8) 0).toNat.testBit (p % 8) :=
  u8_testMask _ _ (Nat.mod_lt _ (by decide))

@[simp] theorem setBit_length (f : Bytes) (p : Nat) : (setBit f p).length = f.length := by
  simp [setBit]

theorem getD_setBit (f : Bytes) (p q : Nat) :
    (setBit f p).getD q 0 =
      if p / 8 = q ∧ q < f.length then f.getD q 0 ||| ((1 : UInt8) <<< UInt8.ofNat (p % 8))
      else f.getD q 0 := by
  unfold setBit
  simp only [List.getD_eq_getElem?_getD, List.getElem?_set]
  by_cases h1 : p / 8 = q
  · subst h1
    by_cases h2 : p / 8 < f.length
    · simp [h2]
    · simp [h2]
  · simp [h1]

theorem testBit_setBit_self (f : Bytes) (p : Nat) (h : p / 8 < f.length) :
    testBit (setBit f p) p = true := by
  rw [testBit_eq, getD_setBit, if_pos ⟨rfl, h⟩, u8_setMask_testBit _ _ _ (Nat.mod_lt _ (by decide))]
  simp

theorem testBit_setBit_mono (f : Bytes) (p q : Nat) (h : testBit f q = true) :
    testBit (setBit f p) q = true := by
  rw [testBit_eq] at *
  rw [getD_setBit]
  split
  · rw [u8_setMask_testBit _ _ _ (Nat.mod_lt _ (by decide)), h]; rfl
  · exact h

/-- Every bit set in `f` is set in `g`. -/
def Covers (f g : Bytes) : Prop := ∀ q, testBit f q = true → testBit g q = true

theorem Covers.refl (f : Bytes) : Covers f f := fun _ h => h

theorem Covers.trans {f g h : Bytes} (a : Covers f g) (b : Covers g h) : Covers f h :=
  fun q hq => b q (a q hq)

/-! ## the two loops -/

@[simp] theorem addKeyLoop_length (nb d j h : Nat) (f : Bytes) :
    (addKeyLoop nb d j h f).length = f.length := by
  induction j generalizing h f with
  | zero => rfl
  | succ j ih => simp [addKeyLoop, ih]

theorem addKeyLoop_covers (nb d j h : Nat) (f : Bytes) : Covers f (addKeyLoop nb d j h f) := by
  induction j generalizing h f with
  | zero => exact Covers.refl f
  | succ j ih =>
    simp only [addKeyLoop]
    exact Covers.trans (fun q hq => testBit_setBit_mono f _ q hq) (ih _ _)

theorem mayLoop_mono {f g : Bytes} (c : Covers f g) (nb d j h : Nat)
    (hm : mayLoop f nb d j h = true) : mayLoop g nb d j h = true := by
  induction j generalizing h with
  | zero => rfl
  | succ j ih =>
    simp only [mayLoop] at *
    split at hm
    · rename_i hb
      rw [if_pos (c _ hb)]
      exact ih _ hm
    · exact absurd hm (by simp)

/-- The probe loop succeeds on what the insertion loop wrote. -/
theorem mayLoop_addKeyLoop (nb d j h : Nat) (f : Bytes) (hnb : 0 < nb) (hlen : nb ≤ 8 * f.length) :
    mayLoop (addKeyLoop nb d j h f) nb d j h = true := by
  induction j generalizing h f with
  | zero => rfl
  | succ j ih =>
    have hp : h % nb / 8 < f.length := by
      have := Nat.mod_lt h hnb
      omega
    have hset : testBit (addKeyLoop nb d j ((h + d) % u32) (setBit f (h % nb))) (h % nb) = true :=
      addKeyLoop_covers _ _ _ _ _ _ (testBit_setBit_self f _ hp)
    show mayLoop (addKeyLoop nb d j ((h + d) % u32) (setBit f (h % nb))) nb d (j + 1) h = true
    rw [mayLoop, if_pos hset]
    exact ih _ _ (by simpa using hlen)

/-- The outer loop of `appendFilter`. -/
def bloomBuild (nb k : Nat) (keys : List Nat) (f : Bytes) : Bytes :=
  keys.foldl (fun f h => addKeyLoop nb (bloomDelta h) k h f) f

@[simp] theorem bloomBuild_length (nb k : Nat) (keys : List Nat) (f : Bytes) :
    (bloomBuild nb k keys f).length = f.length := by
  induction keys generalizing f with
  | nil => rfl
  | cons x xs ih => simp [bloomBuild, List.foldl_cons] at *; rw [ih]; simp

theorem bloomBuild_covers (nb k : Nat) (keys : List Nat) (f : Bytes) :
    Covers f (bloomBuild nb k keys f) := by
  induction keys generalizing f with
  | nil => exact Covers.refl f
  | cons x xs ih =>
    simp only [bloomBuild, List.foldl_cons]
    exact Covers.trans (addKeyLoop_covers _ _ _ _ _) (ih _)

theorem mayLoop_bloomBuild (nb k : Nat) (keys : List Nat) (f : Bytes) (h : Nat)
    (hnb : 0 < nb) (hlen : nb ≤ 8 * f.length) (hmem : h ∈ keys) :
    mayLoop (bloomBuild nb k keys f) nb (bloomDelta h) k h = true := by
  induction keys generalizing f with
  | nil => cases hmem
  | cons x xs ih =>
    simp only [bloomBuild, List.foldl_cons]
    rcases List.mem_cons.mp hmem with rfl | hx
    · exact mayLoop_mono (bloomBuild_covers nb k xs _) _ _ _ _ (mayLoop_addKeyLoop _ _ _ _ _ hnb hlen)
    · exact ih _ (by simpa using hlen) hx

/-- Probing never looks at the trailing `k` byte: positions are `< nb ≤ 8·len`. -/
theorem testBit_append (f g : Bytes) (p : Nat) (hp : p / 8 < f.length) :
    testBit (f ++ g) p = testBit f p := by
  unfold testBit
  simp only [List.getD_eq_getElem?_getD, List.getElem?_append_left hp]

theorem mayLoop_append (f g : Bytes) (nb d j h : Nat) (hnb : 0 < nb) (hlen : nb ≤ 8 * f.length) :
    mayLoop (f ++ g) nb d j h = mayLoop f nb d j h := by
  induction j generalizing h with
  | zero => rfl
  | succ j ih =>
    simp only [mayLoop]
    have hp : h % nb / 8 < f.length := by
      have := Nat.mod_lt h hnb
      omega
    rw [testBit_append f g _ hp, ih]

/-! ## parameters -/

theorem bloomK_bounds (bpk : Int) : 1 ≤ bloomK bpk ∧ bloomK bpk ≤ 30 := by
  unfold bloomK
  simp only
  split
  · omega
  · split <;> omega

theorem bloomNBytes_ge (n : Nat) (bpk : Int) : 8 ≤ bloomNBytes n bpk := by
  unfold bloomNBytes
  simp only
  split <;> omega

/-! ## the property -/

/-- Shape of the filter: `nBytes` data bytes followed by the byte `k ∈ [1, 30]`. -/
theorem C19_filter_last_byte_k (keys : List Nat) (bpk : Int) (f : Bytes)
    (hf : appendFilter keys bpk = some f) :
    f.length = bloomNBytes keys.length bpk + 1 ∧
    f.getLast? = some (UInt8.ofNat (bloomK bpk)) ∧
    (f.getD (f.length - 1) 0).toNat = bloomK bpk ∧
    1 ≤ bloomK bpk ∧ bloomK bpk ≤ 30 := by
  unfold appendFilter at hf
  simp only at hf
  split at hf
  · cases hf
  · have hf' := Option.some.inj hf
    have hb := bloomK_bounds bpk
    have hlen : (List.foldl (fun f h => addKeyLoop (bloomNBytes keys.length bpk * 8 % u32) (bloomDelta h) (bloomK bpk) h f)
        (List.replicate (bloomNBytes keys.length bpk) (0 : UInt8)) keys).length = bloomNBytes keys.length bpk := by
      have := bloomBuild_length (bloomNBytes keys.length bpk * 8 % u32) (bloomK bpk) keys
        (List.replicate (bloomNBytes keys.length bpk) (0 : UInt8))
      simpa [bloomBuild] using this
    subst hf'
    refine ⟨by simp [hlen], by simp, ?_, hb.1, hb.2⟩
    simp only [List.length_append, hlen, List.length_singleton, Nat.add_sub_cancel,
      List.getD_eq_getElem?_getD]
    rw [List.getElem?_append_right (by omega)]
    simp [hlen, UInt8.toNat_ofNat']
    omega

/-- `appendFilter` panics (division by zero) exactly when `uint32(nBits) = 0` with a key. -/
theorem appendFilter_isSome (keys : List Nat) (bpk : Int)
    (hnb : bloomNBytes keys.length bpk * 8 % u32 ≠ 0) : ∃ f, appendFilter keys bpk = some f := by
  unfold appendFilter
  simp only
  rw [if_neg (by intro h; exact hnb h.1)]
  exact ⟨_, rfl⟩

/-- **No false negatives.** For every list of key hashes, every `bitsPerKey` and every hash `h`
    in the list: the filter built by `appendFilter` answers `true` to `MayContain(h)`.
    `hf` says that `appendFilter` did not panic (see `appendFilter_isSome`). -/
theorem C19_no_false_negative (keys : List Nat) (bpk : Int) (f : Bytes) (h : Nat)
    (hf : appendFilter keys bpk = some f) (hmem : h ∈ keys) :
    mayContain f h = some true := by
  have hshape := C19_filter_last_byte_k keys bpk f hf
  obtain ⟨hlen, _, hk, hk1, hk30⟩ := hshape
  have hnB := bloomNBytes_ge keys.length bpk
  unfold appendFilter at hf
  simp only at hf
  have hne : keys ≠ [] := by intro h0; subst h0; cases hmem
  split at hf
  · cases hf
  · rename_i hcond
    have hnb : bloomNBytes keys.length bpk * 8 % u32 ≠ 0 := by
      intro h0; exact hcond ⟨h0, hne⟩
    have hf' := Option.some.inj hf
    unfold mayContain
    rw [if_neg (by omega)]
    simp only [hk]
    rw [if_neg (by omega)]
    have hnbeq : 8 * (f.length - 1) % u32 = bloomNBytes keys.length bpk * 8 % u32 := by
      rw [hlen, Nat.add_sub_cancel, Nat.mul_comm]
    rw [hnbeq, if_neg (by intro hc; exact hnb hc.1)]
    subst hf'
    have hF : (bloomBuild (bloomNBytes keys.length bpk * 8 % u32) (bloomK bpk) keys
        (List.replicate (bloomNBytes keys.length bpk) (0 : UInt8))).length = bloomNBytes keys.length bpk := by
      simp
    have hle : bloomNBytes keys.length bpk * 8 % u32 ≤ 8 * bloomNBytes keys.length bpk := by
      have := Nat.mod_le (bloomNBytes keys.length bpk * 8) u32
      omega
    have hmay := mayLoop_bloomBuild (bloomNBytes keys.length bpk * 8 % u32) (bloomK bpk) keys
      (List.replicate (bloomNBytes keys.length bpk) (0 : UInt8)) h (Nat.pos_of_ne_zero hnb)
      (by simpa using hle) hmem
    have happ := mayLoop_append
      (bloomBuild (bloomNBytes keys.length bpk * 8 % u32) (bloomK bpk) keys
        (List.replicate (bloomNBytes keys.length bpk) (0 : UInt8)))
      [UInt8.ofNat (bloomK bpk)] (bloomNBytes keys.length bpk * 8 % u32) (bloomDelta h) (bloomK bpk) h
      (Nat.pos_of_ne_zero hnb) (by rw [hF]; exact hle)
    unfold bloomBuild at happ hmay
    rw [happ, hmay]

/-- Table level: `table.Builder` adds `Hash(ParseKey(key))` for every internal key, and
    `Table.DoesNotHave(Hash(ParseKey(key)))` is `false` for each of them. -/
theorem C19_doesNotHave_sound (internalKeys : List Bytes) (bpk : Int) (f : Bytes) (ik : Bytes)
    (hf : tableFilter internalKeys bpk = some f) (hmem : ik ∈ internalKeys) :
    doesNotHave f (hash (parseKey ik)) = some false := by
  unfold doesNotHave
  rw [C19_no_false_negative _ bpk f _ hf (List.mem_map.mpr ⟨ik, hmem, rfl⟩)]
  rfl

/-- In terms of user keys and versions (what `Get` and key iterators probe with). -/
theorem C19_doesNotHave_userKey (entries : List (Bytes × Nat)) (bpk : Int) (f : Bytes)
    (k : Bytes) (ts : Nat)
    (hf : tableFilter (entries.map (fun e => keyWithTs e.1 e.2)) bpk = some f)
    (hmem : (k, ts) ∈ entries) :
    doesNotHave f (hash k) = some false := by
  have h := C19_doesNotHave_sound _ bpk f (keyWithTs k ts) hf
    (List.mem_map.mpr ⟨(k, ts), hmem, rfl⟩)
  have hp : parseKey (keyWithTs k ts) = k := by
    simp [parseKey, keyWithTs]
    omega
  rwa [hp] at h

/-! ## non-vacuity -/

-- a concrete filter: 3 key hashes, 10 bits per key (k = 6, 64 bits + the k byte)
example : (appendFilter [1, 0xdeadbeef, 0xffffffff] 10).map List.length = some 9 := by decide
example : ∃ f, appendFilter [1, 0xdeadbeef, 0xffffffff] 10 = some f ∧
    mayContain f 0xdeadbeef = some true ∧ mayContain f 12345 = some false := by
  refine ⟨_, rfl, ?_, ?_⟩ <;> decide
-- the side condition of `appendFilter_isSome` holds for every realistic size
example : bloomNBytes 1000 10 * 8 % u32 ≠ 0 := by decide
-- negative bitsPerKey is clamped: k = 1, 64 bits
example : appendFilter [7] (-5) = some [0x80, 0, 0, 0, 0, 0, 0, 0, 1] := by decide
-- `Hash` on the four tail lengths
example : hash [] = 0xbc9f1d34 := by decide
example : hash [0x61] ≠ hash [0x62] := by decide

end Badger
