import BadgerProofs.Props.C08
import BadgerProofs.Lemmas.PowerMain
/-!
# C10 — with SyncWrites, acknowledged commits survive the loss of unsynced data

Power loss (`Fs.lean`): every inode independently keeps its page-cache content or the content
of its last `sync`; every name independently is bound as in the directory or as in the directory
of the last `syncDir` (`crashPowerWith`, all choices). The size a fresh file gets from
`ftruncate` right after `open(O_CREAT)` is taken to be durable with its directory entry.

* `C10_power_safe` (statement: `C10_power_safeStatement`) — the property for the code as it is
  (`Cfg.dirSyncFix = true`: the directory is fsynced after a `.mem` / `.vlog` file is created and
  between the msync of a flushed table and its MANIFEST record): for SyncWrites, every history,
  every power-loss choice, `Open` succeeds and finds the first `k` commits, `acked ≤ k ≤ issued`.
  Proof: `BadgerProofs/Lemmas/Power*.lean` — per name the four candidates a power loss can leave
  (`Fs.quad`), an invariant `PInv` over them on top of the kill invariant `Inv`, preserved by
  every step (`PInv_step`), and `power_recover`.
* Regression witnesses for the protocol *before* the repair of finding F4 (`dirSyncFix = false`:
  no directory fsync at those three places):
  - `C10_counterexample` : a commit acknowledged right after a memtable rotation is lost when
    the new `.mem`'s directory entry does not survive (recovered: nothing; acknowledged: 1);
  - `C10_counterexample_table` : a flushed table is recorded in the fsynced MANIFEST while its
    own directory entry is not durable: `Open` fails with "file does not exist for table 1".
  `C10_fixed_witness_wal` / `C10_fixed_witness_table`: the same two scenarios under the repaired
  protocol survive the loss of *everything* unsynced. Replay on the real code: corpus/C10/f4.ops.
-/
namespace Badger

def PowerSafe (R : ViewRel) (c : Cfg) : Prop :=
  ∀ (h : List Sched), SchedHistOk R (MState.init c).p h →
    ∀ (keepDir : Path → Bool) (keepData : Nat → Bool),
      ∃ r, recover false (crashPowerWith ((MState.init c).exec h).fs keepDir keepData) = .ok r ∧
        ∃ k, ((MState.init c).exec h).p.acked ≤ k ∧ k ≤ ((MState.init c).exec h).p.commits.length ∧
          R.r r.entries (txnsEnts (((MState.init c).exec h).p.commits.take k))

/-- C10 for the code as it is -/
def C10_power_safeStatement (R : ViewRel) : Prop :=
  ∀ c : Cfg, c.syncWrites = true → c.dirSyncFix = true → PowerSafe R c

/-- **C10**: with SyncWrites, after every history and for every power-loss choice (which directory
    entries and which file contents fall back to their last-synced state), `Open` succeeds and finds
    a commit prefix that holds every acknowledged commit. -/
theorem C10_power_safe (R : ViewRel) : C10_power_safeStatement R := by
  intro c hsw hfix h hok kd ks
  obtain ⟨hwf, hI, hP⟩ := init_pinv R c hfix hsw
  obtain ⟨_, hI', hP'⟩ := exec_pinv R (MState.init c) h hwf hI hP hok
  exact power_recover R _ _ hI' hP' kd ks

/-- the same claim for the protocol before the repair of F4 (false: `C10_counterexample`) -/
def C10_power_safe_oldStatement (R : ViewRel) : Prop :=
  ∀ c : Cfg, c.syncWrites = true → c.dirSyncFix = false → PowerSafe R c

def f4Ent : CEnt := { key := [1], ver := 0, del := false, val := [1] }

/-- rotate the (empty) memtable, let the flusher drop it, commit one entry into the new
    `.mem` 2 and wait for the acknowledgement (SyncWrites: the WAL is msynced) -/
def f4History : List Sched :=
  [.flushReq, .w, .w, .w, .w, .f, .commit [f4Ent] false, .w, .w, .w, .w, .w, .w, .w]

def entsOf : Except RecErr RState → Option (List CEnt)
  | .ok r => some r.entries
  | .error _ => none

set_option maxHeartbeats 1000000 in
theorem C10_f4_facts :
    ((MState.init { dirSyncFix := false }).exec f4History).p.acked = 1 ∧
    ((MState.init { dirSyncFix := false }).exec f4History).p.commits = [{ ts := 1, ents := [{ f4Ent with ver := 1 }] }] ∧
    entsOf (recover false (crashPowerWith ((MState.init { dirSyncFix := false }).exec f4History).fs (fun p => p != .mem 2) (fun _ => true)))
      = some [] := by
  decide +kernel

/-- F4, first form: the acknowledged commit is gone after a power loss that takes the
    never-fsynced directory entry of the new WAL file -/
theorem C10_counterexample : ¬ C10_power_safe_oldStatement setView := by
  intro h
  obtain ⟨r, hr, k, hk1, hk2, hv⟩ := h { dirSyncFix := false } rfl rfl f4History (by simp [f4History, SchedHistOk])
    (fun p => p != .mem 2) (fun _ => true)
  obtain ⟨ha, hc, he⟩ := C10_f4_facts
  rw [hr] at he
  simp only [entsOf, Option.some.injEq] at he
  rw [ha] at hk1
  rw [hc] at hk2 hv
  have hk : k = 1 := by simp at hk2; omega
  subst hk
  have := (hv { f4Ent with ver := 1 }).mpr (by simp [txnsEnts])
  rw [he] at this
  simp at this

/-- commit, rotate, flush up to the fsync of the MANIFEST -/
def f4TableHistory : List Sched :=
  [.commit [f4Ent] false, .w, .w, .w, .w, .w, .w, .w, .flushReq, .w, .w, .w, .w, .f, .f, .f, .f, .f]

set_option maxHeartbeats 1000000 in
/-- F4, second form: the MANIFEST (fsynced) lists table 1, whose directory entry was never
    fsynced: `Open` fails with "file does not exist for table 1" -/
theorem C10_counterexample_table :
    errOf (recover false (crashPowerWith ((MState.init { dirSyncFix := false }).exec f4TableHistory).fs (fun p => p != .sst 1) (fun _ => true)))
      = some (.missingTable 1) := by
  decide +kernel

/-! ### the fixed protocol on the same two scenarios -/

/-- the rotation of the repaired protocol has one more atom (fsync of the directory); the flush has one more (fsync of the directory before the MANIFEST record) -/
def f4HistoryFixed : List Sched :=
  [.flushReq, .w, .w, .w, .w, .w, .f, .commit [f4Ent] false, .w, .w, .w, .w, .w, .w, .w]

def f4TableHistoryFixed : List Sched :=
  [.commit [f4Ent] false, .w, .w, .w, .w, .w, .w, .w, .flushReq, .w, .w, .w, .w, .w, .f, .f, .f, .f, .f, .f]

set_option maxHeartbeats 1000000 in
/-- under the fixed protocol the commit of the first scenario survives even when *nothing*
    unsynced survives -/
theorem C10_fixed_witness_wal :
    entsOf (recover false (crashPowerWith ((MState.init {}).exec f4HistoryFixed).fs
      (fun _ => false) (fun _ => false))) = some [{ f4Ent with ver := 1 }] := by
  decide +kernel

set_option maxHeartbeats 1000000 in
/-- … and the second scenario re-opens (the entry is found in the table and in the not yet
    deleted WAL) -/
theorem C10_fixed_witness_table :
    entsOf (recover false (crashPowerWith ((MState.init {}).exec f4TableHistoryFixed).fs
      (fun _ => false) (fun _ => false))) = some [{ f4Ent with ver := 1 }, { f4Ent with ver := 1 }] := by
  decide +kernel

end Badger
