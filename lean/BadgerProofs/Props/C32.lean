import BadgerModel.Publisher
import BadgerProofs.Props.C32Trie
/-!
# C32 — subscribers get every matching committed write exactly once, in commit order, and
nothing else (`publisher.go`, `DB.Subscribe`), on top of the trie theorems of `C32Trie.lean`.

The system is the state machine of `BadgerModel/Publisher.lean`; the write pipeline is the
sequence of `publish reqs` steps (requests reach `publishUpdates` in the order of `writeRequests`,
which is commit-timestamp order — C03). The specification (`Spec`) does not mention the trie:
subscriber `id`, registered with patterns `pats`, is owed the `pb.KV` of every entry published
while it is subscribed whose **user key** matches one of its patterns, in publish order.

* `C32_exactly_once_in_order`: for every sequence of steps, what the callback has received plus
  what waits in its channel is exactly that list while subscribed; after a cancellation the
  callback has received a prefix of it (the Go code drops the pending batches: `drain()`), after
  a DB close all of it.
* `C32_only_matching`: every delivered KV is the KV of a published entry whose user key matches a
  pattern of the subscriber.
-/
namespace Badger

/-! ## specification -/

/-- The canonical patterns `newSubscriber` adds to the trie: those before the first ignore string
    that does not parse (all of them for a successful registration). -/
def addedPats : List (Bytes × Bytes) → List Pattern
  | [] => []
  | (p, ig) :: r =>
    match parseIgnoreBytes ig with
    | none => []
    | some b => mkPattern p b :: addedPats r

def allParse : List (Bytes × Bytes) → Bool
  | [] => true
  | (_, ig) :: r => (parseIgnoreBytes ig).isSome && allParse r

def matchesAny (pats : List Pattern) (key : Bytes) : Bool := pats.any (fun q => patMatches q key)

/-- What subscriber with patterns `pats` is owed for the requests `reqs`. -/
def owed (pats : List Pattern) (reqs : List (List PubEntry)) : List KV :=
  (reqs.flatten.filter (fun e => matchesAny pats (parseKey e.ikey))).map kvOf

structure Spec where
  nextID : Nat
  live : Nat → Option (List Pattern)     -- subscribed (successfully registered, not yet removed)
  expected : Nat → List KV
  closed : Nat → Bool                     -- removed by a DB close (everything pending delivered)
  regs : List (List (Bytes × Bytes))      -- history: the matches of the i-th `Subscribe` call
  published : List PubEntry               -- history: every entry handed to `publishUpdates`

def Spec.init : Spec :=
  { nextID := 0, live := fun _ => none, expected := fun _ => [], closed := fun _ => false,
    regs := [], published := [] }

def Spec.step (s : Spec) : PubStep → Spec
  | .subscribe ms =>
    { s with nextID := s.nextID + 1
             live := fun i => if i = s.nextID ∧ allParse ms = true then some (addedPats ms) else s.live i
             regs := s.regs ++ [ms] }
  | .publish reqs =>
    { s with expected := fun i =>
               match s.live i with
               | some pats => s.expected i ++ owed pats reqs
               | none => s.expected i
             published := s.published ++ reqs.flatten }
  | .deliver _ _ => s
  | .cancel id => { s with live := fun i => if i = id then none else s.live i }
  | .close id =>
    { s with live := fun i => if i = id then none else s.live i
             closed := fun i => if i = id ∧ (s.live id).isSome then true else s.closed i }

def Spec.run (steps : List PubStep) : Spec := steps.foldl Spec.step Spec.init

/-! ## trie lemmas at the level of stored ids -/

theorem mem_idsAt_fixSet (n : Node) (p q : Pattern) (id id' : Nat) :
    id' ∈ idsAt (fixSet n p id) q ↔ id' ∈ idsAt n q ∨ (q = p ∧ id' = id) := by
  rw [idsAt_fixSet]
  by_cases h : q = p
  · subst h; simp
  · simp [h]

theorem mem_idsAt_del (n : Node) (p q : Pattern) (id id' : Nat) :
    id' ∈ idsAt (removeEmpty (fixDel n p id)) q ↔ id' ∈ idsAt n q ∧ ¬ (q = p ∧ id' = id) := by
  rw [idsAt_removeEmpty, idsAt_fixDel]
  by_cases h : q = p
  · subst h
    simp only [if_true, List.mem_filter, bne_iff_ne, ne_eq, true_and]
    constructor
    · rintro ⟨h1, h2⟩; exact ⟨h1, fun h => h2 h.symm⟩
    · rintro ⟨h1, h2⟩; exact ⟨h1, fun h => h2 h.symm⟩
  · simp [h]

theorem addMatchesFor_spec (t : Trie) (id : Nat) (ms : List (Bytes × Bytes)) :
    (addMatchesFor t id ms).2 = allParse ms ∧
    ∀ q id', id' ∈ idsAt (addMatchesFor t id ms).1.root q ↔
      id' ∈ idsAt t.root q ∨ (id' = id ∧ q ∈ addedPats ms) := by
  induction ms generalizing t with
  | nil => simp [addMatchesFor, allParse, addedPats]
  | cons m ms ih =>
    obtain ⟨p, ig⟩ := m
    simp only [addMatchesFor, Trie.addMatch, allParse, addedPats]
    cases hp : parseIgnoreBytes ig with
    | none => simp
    | some b =>
      simp only [Option.isSome_some, Bool.true_and]
      obtain ⟨h1, h2⟩ := ih ⟨fixSet t.root (mkPattern p b) id⟩
      refine ⟨h1, ?_⟩
      intro q id'
      rw [h2 q id', mem_idsAt_fixSet]
      simp only [List.mem_cons]
      constructor
      · rintro ((h | ⟨h, h'⟩) | ⟨h, h'⟩)
        · exact Or.inl h
        · exact Or.inr ⟨h', Or.inl h⟩
        · exact Or.inr ⟨h, Or.inr h'⟩
      · rintro (h | ⟨h, (h' | h')⟩)
        · exact Or.inl (Or.inl h)
        · exact Or.inl (Or.inr ⟨h', h⟩)
        · exact Or.inr ⟨h, h'⟩

theorem delMatchesFor_spec (t : Trie) (id : Nat) (ms : List (Bytes × Bytes)) (hall : allParse ms = true) :
    ∀ q id', id' ∈ idsAt (delMatchesFor t id ms).root q ↔
      id' ∈ idsAt t.root q ∧ ¬ (id' = id ∧ q ∈ addedPats ms) := by
  induction ms generalizing t with
  | nil => simp [delMatchesFor, addedPats]
  | cons m ms ih =>
    obtain ⟨p, ig⟩ := m
    simp only [allParse, Bool.and_eq_true] at hall
    obtain ⟨hp, hrest⟩ := hall
    cases hpb : parseIgnoreBytes ig with
    | none => simp [hpb] at hp
    | some b =>
      intro q id'
      simp only [delMatchesFor, Trie.deleteMatch, hpb, Option.getD_some, addedPats]
      rw [ih _ hrest q id', mem_idsAt_del]
      simp only [List.mem_cons]
      constructor
      · rintro ⟨⟨h1, h2⟩, h3⟩
        refine ⟨h1, ?_⟩
        rintro ⟨hid, (hq | hq)⟩
        · exact h2 ⟨hq, hid⟩
        · exact h3 ⟨hid, hq⟩
      · rintro ⟨h1, h2⟩
        exact ⟨⟨h1, fun h => h2 ⟨h.2, Or.inl h.1⟩⟩, fun h => h2 ⟨h.1, Or.inr h.2⟩⟩

/-! ## list lemmas -/

theorem filterMap_ite_eq_map_filter {α β : Type} (l : List α) (c : α → Prop) [DecidablePred c]
    (d : α → Bool) (f : α → β) (h : ∀ a, c a ↔ d a = true) :
    l.filterMap (fun a => if c a then some (f a) else none) = (l.filter d).map f := by
  induction l with
  | nil => rfl
  | cons a l ih =>
    by_cases hc : c a
    · have hd : d a = true := (h a).mp hc
      simp [List.filterMap_cons, hc, List.filter_cons, hd, ih]
    · have hd : d a = false := by
        cases hda : d a with
        | false => rfl
        | true => exact absurd ((h a).mpr hda) hc
      simp [List.filterMap_cons, hc, List.filter_cons, hd, ih]

theorem proj_map_same (id : Nat) (l : List KV) :
    (l.map (fun kv => (id, kv))).filterMap (fun x : Nat × KV => if x.1 = id then some x.2 else none) = l := by
  induction l with
  | nil => rfl
  | cons a l ih => simp [List.filterMap_cons, ih]

theorem proj_map_other (id id' : Nat) (h : id' ≠ id) (l : List KV) :
    (l.map (fun kv => (id, kv))).filterMap (fun x : Nat × KV => if x.1 = id' then some x.2 else none) = [] := by
  induction l with
  | nil => rfl
  | cons a l ih => simp [List.filterMap_cons, ih, Ne.symm h]

/-! ## the invariant -/

structure PInv (p : Publisher) (s : Spec) : Prop where
  next : p.nextID = s.nextID
  lt : ∀ x, x ∈ p.subs → x.id < p.nextID
  nodup : p.subs.Pairwise (fun a b => a.id ≠ b.id)
  trie : ∀ q id, id ∈ idsAt p.trie.root q ↔ ∃ x, x ∈ p.subs ∧ x.id = id ∧ q ∈ addedPats x.matchList
  okp : ∀ x, x ∈ p.subs → x.ok = allParse x.matchList
  live : ∀ x, x ∈ p.subs → x.ok = true →
    s.live x.id = some (addedPats x.matchList) ∧ s.closed x.id = false
  live' : ∀ id pats, s.live id = some pats → ∃ x, x ∈ p.subs ∧ x.id = id ∧ x.ok = true
  sum : ∀ x, x ∈ p.subs → x.ok = true → p.deliveredTo x.id ++ x.queue.flatten = s.expected x.id
  gone : ∀ id, s.live id = none →
    p.deliveredTo id <+: s.expected id ∧ (s.closed id = true → p.deliveredTo id = s.expected id)
  fresh : ∀ id, p.nextID ≤ id →
    p.deliveredTo id = [] ∧ s.expected id = [] ∧ s.live id = none ∧ s.closed id = false

theorem pairwise_unique {l : List Sub} (h : l.Pairwise (fun a b => a.id ≠ b.id)) {x y : Sub}
    (hx : x ∈ l) (hy : y ∈ l) (hid : x.id = y.id) : x = y := by
  induction l with
  | nil => cases hx
  | cons a l ih =>
    rw [List.pairwise_cons] at h
    rcases List.mem_cons.mp hx with rfl | hx'
    · rcases List.mem_cons.mp hy with rfl | hy'
      · rfl
      · exact absurd hid (h.1 y hy')
    · rcases List.mem_cons.mp hy with rfl | hy'
      · exact absurd hid.symm (h.1 x hx')
      · exact ih h.2 hx' hy'

theorem find_iff {p : Publisher} (hnd : p.subs.Pairwise (fun a b => a.id ≠ b.id)) (id : Nat) (x : Sub) :
    p.find id = some x ↔ x ∈ p.subs ∧ x.id = id := by
  unfold Publisher.find
  constructor
  · intro h
    exact ⟨List.mem_of_find?_eq_some h, by simpa using List.find?_some h⟩
  · rintro ⟨hx, hid⟩
    cases hf : p.subs.find? (fun s => s.id == id) with
    | none =>
      rw [List.find?_eq_none] at hf
      exact absurd (by simpa using hid) (hf x hx)
    | some y =>
      have hy := List.mem_of_find?_eq_some hf
      have hyid : y.id = id := by simpa using List.find?_some hf
      rw [pairwise_unique hnd hx hy (hid.trans hyid.symm)]

theorem find_none_iff {p : Publisher} (id : Nat) :
    p.find id = none ↔ ∀ x, x ∈ p.subs → x.id ≠ id := by
  unfold Publisher.find
  rw [List.find?_eq_none]
  constructor
  · intro h x hx hid; exact h x hx (by simpa using hid)
  · intro h x hx hid; exact h x hx (by simpa using hid)

/-- For a registered subscriber, membership of its id in `trie.Get(key)` is exactly "one of its
    patterns matches `key`" — this is where the trie theorem enters. -/
theorem get_iff_matchesAny {p : Publisher} {s : Spec} (h : PInv p s) {x : Sub} (hx : x ∈ p.subs)
    (key : Bytes) : x.id ∈ p.trie.get key ↔ matchesAny (addedPats x.matchList) key = true := by
  unfold Trie.get matchesAny
  rw [mem_trieGet, List.any_eq_true]
  constructor
  · rintro ⟨q, hq, hid⟩
    obtain ⟨y, hy, hyid, hqy⟩ := (h.trie q x.id).mp hid
    rw [pairwise_unique h.nodup hy hx hyid] at hqy
    exact ⟨q, hqy, hq⟩
  · rintro ⟨q, hq, hm⟩
    exact ⟨q, hm, (h.trie q x.id).mpr ⟨x, hx, rfl, hq⟩⟩

theorem batchFor_eq_owed {p : Publisher} {s : Spec} (h : PInv p s) {x : Sub} (hx : x ∈ p.subs)
    (reqs : List (List PubEntry)) : batchFor p.trie x.id reqs = owed (addedPats x.matchList) reqs := by
  unfold batchFor owed
  exact filterMap_ite_eq_map_filter _ _ _ _ (fun e => get_iff_matchesAny h hx (parseKey e.ikey))

theorem PInv_init : PInv Publisher.empty Spec.init where
  next := rfl
  lt := by intro x hx; cases hx
  nodup := List.Pairwise.nil
  trie := by
    intro q id
    simp only [Publisher.empty, Trie.empty, List.not_mem_nil, false_and, exists_false, iff_false]
    cases q with
    | nil => simp [Node.new, idsAt]
    | cons a q => cases a <;> simp [Node.new, idsAt]
  okp := by intro x hx; cases hx
  live := by intro x hx; cases hx
  live' := by intro id pats h; simp [Spec.init] at h
  sum := by intro x hx; cases hx
  gone := by
    intro id _
    simp [Publisher.empty, Publisher.deliveredTo, Spec.init]
  fresh := by intro id _; simp [Publisher.empty, Publisher.deliveredTo, Spec.init]

/-! ## every step preserves the invariant -/

theorem okPrefix_spec (ms : List (Bytes × Bytes)) :
    allParse (okPrefix ms) = true ∧ addedPats (okPrefix ms) = addedPats ms := by
  induction ms with
  | nil => simp [okPrefix, allParse, addedPats]
  | cons m ms ih =>
    obtain ⟨p, ig⟩ := m
    simp only [okPrefix]
    cases hp : parseIgnoreBytes ig with
    | none => simp [allParse, addedPats, hp]
    | some b => simp [allParse, addedPats, hp, ih.1, ih.2]

theorem PInv_subscribe {p : Publisher} {s : Spec} (h : PInv p s) (ms : List (Bytes × Bytes)) :
    PInv (p.subscribe ms).1 (s.step (.subscribe ms)) := by
  obtain ⟨hok, htrie⟩ := addMatchesFor_spec p.trie p.nextID ms
  have hn := h.next
  unfold Publisher.subscribe
  simp only
  by_cases hall : (addMatchesFor p.trie p.nextID ms).2 = true
  · rw [if_pos hall]
    have hallp : allParse ms = true := by rw [← hok]; exact hall
    refine
      { next := by simp [Spec.step, hn]
        lt := ?_, nodup := ?_, trie := ?_, okp := ?_, live := ?_, live' := ?_, sum := ?_, gone := ?_, fresh := ?_ }
    · intro x hx
      simp only [List.mem_append, List.mem_singleton] at hx ⊢
      rcases hx with hx | rfl
      · have := h.lt x hx; omega
      · simp
    · simp only
      rw [List.pairwise_append]
      refine ⟨h.nodup, List.pairwise_singleton _ _, ?_⟩
      intro a ha b hb
      simp only [List.mem_singleton] at hb
      subst hb
      have := h.lt a ha
      simp only
      omega
    · intro q id
      simp only
      rw [htrie q id, h.trie q id]
      constructor
      · rintro (⟨x, hx, hid, hq⟩ | ⟨hid, hq⟩)
        · exact ⟨x, List.mem_append_left _ hx, hid, hq⟩
        · exact ⟨_, List.mem_append_right _ (List.mem_singleton.mpr rfl), hid.symm, hq⟩
      · rintro ⟨x, hx, hid, hq⟩
        rcases List.mem_append.mp hx with hx | hx
        · exact Or.inl ⟨x, hx, hid, hq⟩
        · simp only [List.mem_singleton] at hx
          subst hx
          exact Or.inr ⟨hid.symm, hq⟩
    · intro x hx
      simp only [List.mem_append, List.mem_singleton] at hx
      rcases hx with hx | rfl
      · exact h.okp x hx
      · exact hallp.symm
    · intro x hx hxok
      simp only [List.mem_append, List.mem_singleton] at hx
      simp only [Spec.step]
      rcases hx with hx | rfl
      · have hlt := h.lt x hx
        have hne : ¬ (x.id = s.nextID ∧ allParse ms = true) := by intro hc; omega
        rw [if_neg hne]
        exact h.live x hx hxok
      · simp only
        rw [if_pos ⟨hn, hallp⟩]
        exact ⟨rfl, (h.fresh p.nextID (Nat.le_refl _)).2.2.2⟩
    · intro id pats hl
      simp only [Spec.step] at hl
      simp only
      split at hl
      · rename_i hc
        refine ⟨_, List.mem_append_right _ (List.mem_singleton.mpr rfl), ?_, rfl⟩
        simp [hc.1, hn]
      · obtain ⟨x, hx, hid, hxok⟩ := h.live' id pats hl
        exact ⟨x, List.mem_append_left _ hx, hid, hxok⟩
    · intro x hx hxok
      simp only [List.mem_append, List.mem_singleton] at hx
      simp only [Publisher.deliveredTo, Spec.step]
      rcases hx with hx | rfl
      · exact h.sum x hx hxok
      · have hf := h.fresh p.nextID (Nat.le_refl _)
        simp only [Publisher.deliveredTo] at hf
        simp [hf.1, hf.2.1]
    · intro id hl
      simp only [Spec.step] at hl
      have hl' : s.live id = none := by
        split at hl
        · cases hl
        · exact hl
      simpa [Publisher.deliveredTo, Spec.step] using h.gone id hl'
    · intro id hid
      simp only at hid
      have hf := h.fresh id (by omega)
      simp only [Publisher.deliveredTo, Spec.step]
      simp only [Publisher.deliveredTo] at hf
      refine ⟨hf.1, hf.2.1, ?_, hf.2.2.2⟩
      have hne : ¬ (id = s.nextID ∧ allParse ms = true) := by intro hc; omega
      rw [if_neg hne]
      exact hf.2.2.1
  · rw [if_neg hall]
    have hallp : ¬ allParse ms = true := by rw [← hok]; exact hall
    obtain ⟨hpre1, hpre2⟩ := okPrefix_spec ms
    have hdel := delMatchesFor_spec (addMatchesFor p.trie p.nextID ms).1 p.nextID (okPrefix ms) hpre1
    have hlive : ∀ i, (s.step (.subscribe ms)).live i = s.live i := by
      intro i
      simp only [Spec.step]
      rw [if_neg (fun hc => hallp hc.2)]
    refine
      { next := by simp [Spec.step, hn]
        lt := ?_, nodup := h.nodup, trie := ?_, okp := h.okp, live := ?_, live' := ?_, sum := ?_, gone := ?_, fresh := ?_ }
    · intro x hx
      have := h.lt x hx
      simp only
      omega
    · intro q id
      simp only
      rw [hdel q id, htrie q id, hpre2, ← h.trie q id]
      constructor
      · rintro ⟨(h1 | h1), h2⟩
        · exact h1
        · exact absurd h1 h2
      · intro h1
        refine ⟨Or.inl h1, ?_⟩
        rintro ⟨hid, _⟩
        obtain ⟨x, hx, hxid, _⟩ := (h.trie q id).mp h1
        have := h.lt x hx
        omega
    · intro x hx hxok
      rw [hlive]
      exact h.live x hx hxok
    · intro id pats hl
      rw [hlive] at hl
      exact h.live' id pats hl
    · intro x hx hxok
      exact h.sum x hx hxok
    · intro id hl
      rw [hlive] at hl
      exact h.gone id hl
    · intro id hid
      simp only at hid
      have hf := h.fresh id (by omega)
      refine ⟨hf.1, hf.2.1, ?_, hf.2.2.2⟩
      rw [hlive]; exact hf.2.2.1

/-- The queue update of `publishUpdates` for one subscriber. -/
def pubSub (t : Trie) (reqs : List (List PubEntry)) (x : Sub) : Sub :=
  if (batchFor t x.id reqs).isEmpty then x else { x with queue := x.queue ++ [batchFor t x.id reqs] }

theorem pubSub_id (t : Trie) (reqs : List (List PubEntry)) (x : Sub) :
    (pubSub t reqs x).id = x.id ∧ (pubSub t reqs x).matchList = x.matchList ∧ (pubSub t reqs x).ok = x.ok ∧
    (pubSub t reqs x).queue.flatten = x.queue.flatten ++ batchFor t x.id reqs := by
  unfold pubSub
  split
  · rename_i he
    have : batchFor t x.id reqs = [] := by simpa using he
    simp [this]
  · simp

theorem publish_subs (p : Publisher) (reqs : List (List PubEntry)) :
    (p.publish reqs).subs = p.subs.map (pubSub p.trie reqs) := rfl

theorem PInv_publish {p : Publisher} {s : Spec} (h : PInv p s) (reqs : List (List PubEntry)) :
    PInv (p.publish reqs) (s.step (.publish reqs)) := by
  have hmem : ∀ y, y ∈ (p.publish reqs).subs ↔ ∃ x, x ∈ p.subs ∧ pubSub p.trie reqs x = y := by
    intro y; rw [publish_subs, List.mem_map]
  refine
    { next := h.next
      lt := ?_, nodup := ?_, trie := ?_, okp := ?_, live := ?_, live' := ?_, sum := ?_, gone := ?_, fresh := ?_ }
  · intro y hy
    obtain ⟨x, hx, rfl⟩ := (hmem y).mp hy
    rw [(pubSub_id _ _ x).1]
    exact h.lt x hx
  · rw [publish_subs, List.pairwise_map]
    refine h.nodup.imp ?_
    intro a b hab
    rw [(pubSub_id _ _ a).1, (pubSub_id _ _ b).1]
    exact hab
  · intro q id
    show id ∈ idsAt p.trie.root q ↔ _
    rw [h.trie q id]
    constructor
    · rintro ⟨x, hx, hid, hq⟩
      refine ⟨pubSub p.trie reqs x, (hmem _).mpr ⟨x, hx, rfl⟩, ?_, ?_⟩
      · rw [(pubSub_id _ _ x).1]; exact hid
      · rw [(pubSub_id _ _ x).2.1]; exact hq
    · rintro ⟨y, hy, hid, hq⟩
      obtain ⟨x, hx, rfl⟩ := (hmem y).mp hy
      rw [(pubSub_id _ _ x).1] at hid
      rw [(pubSub_id _ _ x).2.1] at hq
      exact ⟨x, hx, hid, hq⟩
  · intro y hy
    obtain ⟨x, hx, rfl⟩ := (hmem y).mp hy
    rw [(pubSub_id _ _ x).2.2.1, (pubSub_id _ _ x).2.1]
    exact h.okp x hx
  · intro y hy hyok
    obtain ⟨x, hx, rfl⟩ := (hmem y).mp hy
    rw [(pubSub_id _ _ x).2.2.1] at hyok
    rw [(pubSub_id _ _ x).1, (pubSub_id _ _ x).2.1]
    exact h.live x hx hyok
  · intro id pats hl
    obtain ⟨x, hx, hid, hxok⟩ := h.live' id pats hl
    refine ⟨pubSub p.trie reqs x, (hmem _).mpr ⟨x, hx, rfl⟩, ?_, ?_⟩
    · rw [(pubSub_id _ _ x).1]; exact hid
    · rw [(pubSub_id _ _ x).2.2.1]; exact hxok
  · intro y hy hyok
    obtain ⟨x, hx, rfl⟩ := (hmem y).mp hy
    rw [(pubSub_id _ _ x).2.2.1] at hyok
    rw [(pubSub_id _ _ x).1, (pubSub_id _ _ x).2.2.2]
    have hl := (h.live x hx hyok).1
    simp only [Spec.step, hl]
    show p.deliveredTo x.id ++ (x.queue.flatten ++ batchFor p.trie x.id reqs) = _
    rw [← List.append_assoc, h.sum x hx hyok, batchFor_eq_owed h hx]
  · intro id hl
    have hl' : s.live id = none := hl
    simp only [Spec.step, hl']
    exact h.gone id hl'
  · intro id hid
    have hf := h.fresh id hid
    simp only [Spec.step, hf.2.2.1]
    exact ⟨hf.1, hf.2.1, trivial, hf.2.2.2⟩

theorem deliveredTo_append (p : Publisher) (extra : List (Nat × KV)) (id : Nat) :
    ({ p with delivered := p.delivered ++ extra } : Publisher).deliveredTo id =
      p.deliveredTo id ++ extra.filterMap (fun x => if x.1 = id then some x.2 else none) := by
  simp [Publisher.deliveredTo, List.filterMap_append]

theorem deliveredTo_extra (p : Publisher) (t : Trie) (nx : Nat) (sb : List Sub) (id : Nat) (extra : List KV)
    (i : Nat) :
    (Publisher.mk t nx sb (p.delivered ++ extra.map (fun kv => (id, kv)))).deliveredTo i =
      p.deliveredTo i ++ (if i = id then extra else []) := by
  simp only [Publisher.deliveredTo, List.filterMap_append]
  by_cases hi : i = id
  · subst hi; rw [proj_map_same]; simp
  · rw [proj_map_other id i hi]; simp [hi]

/-- A step that does nothing in the model does nothing in the specification either: the id is
    not subscribed. -/
theorem live_none_of_noop {p : Publisher} {s : Spec} (h : PInv p s) (id : Nat)
    (hno : ∀ x, p.find id = some x → x.ok = false) : s.live id = none := by
  cases hl : s.live id with
  | none => rfl
  | some pats =>
    obtain ⟨x, hx, hid, hxok⟩ := h.live' id pats hl
    have := hno x ((find_iff h.nodup id x).mpr ⟨hx, hid⟩)
    rw [hxok] at this; cases this

theorem Spec.remove_noop (s : Spec) (id : Nat) (hl : s.live id = none) :
    (fun i => if i = id then none else s.live i) = s.live := by
  funext i
  by_cases hi : i = id
  · subst hi; simp [hl]
  · simp [hi]

theorem PInv_deliver {p : Publisher} {s : Spec} (h : PInv p s) (id n : Nat) :
    PInv (p.deliver id n) (s.step (.deliver id n)) := by
  show PInv (p.deliver id n) s
  unfold Publisher.deliver
  cases hf : p.find id with
  | none => exact h
  | some x0 =>
    simp only
    by_cases hok : x0.ok = true
    · rw [if_pos hok]
      obtain ⟨hx0, hx0id⟩ := (find_iff h.nodup id x0).mp hf
      let g : Sub → Sub := fun x => if x.id == id then { x with queue := x.queue.drop n } else x
      have hg : ∀ x, (g x).id = x.id ∧ (g x).matchList = x.matchList ∧ (g x).ok = x.ok := by
        intro x; simp only [g]; split <;> simp
      have hmem : ∀ y, y ∈ p.subs.map g ↔ ∃ x, x ∈ p.subs ∧ g x = y := by
        intro y; rw [List.mem_map]
      have hdel := deliveredTo_extra p p.trie p.nextID (p.subs.map g) id (x0.queue.take n).flatten
      show PInv (Publisher.mk p.trie p.nextID (p.subs.map g)
        (p.delivered ++ (x0.queue.take n).flatten.map (fun kv => (id, kv)))) s
      refine
        { next := h.next
          lt := ?_, nodup := ?_, trie := ?_, okp := ?_, live := ?_, live' := ?_, sum := ?_, gone := ?_, fresh := ?_ }
      · intro y hy
        obtain ⟨x, hx, rfl⟩ := (hmem y).mp hy
        rw [(hg x).1]; exact h.lt x hx
      · show (p.subs.map g).Pairwise _
        rw [List.pairwise_map]
        refine h.nodup.imp ?_
        intro a b hab
        rw [(hg a).1, (hg b).1]; exact hab
      · intro q i
        show i ∈ idsAt p.trie.root q ↔ _
        rw [h.trie q i]
        constructor
        · rintro ⟨x, hx, hid, hq⟩
          exact ⟨g x, (hmem _).mpr ⟨x, hx, rfl⟩, by rw [(hg x).1]; exact hid, by rw [(hg x).2.1]; exact hq⟩
        · rintro ⟨y, hy, hid, hq⟩
          obtain ⟨x, hx, rfl⟩ := (hmem y).mp hy
          rw [(hg x).1] at hid; rw [(hg x).2.1] at hq
          exact ⟨x, hx, hid, hq⟩
      · intro y hy
        obtain ⟨x, hx, rfl⟩ := (hmem y).mp hy
        rw [(hg x).2.2, (hg x).2.1]; exact h.okp x hx
      · intro y hy hyok
        obtain ⟨x, hx, rfl⟩ := (hmem y).mp hy
        rw [(hg x).2.2] at hyok
        rw [(hg x).1, (hg x).2.1]; exact h.live x hx hyok
      · intro i pats hl
        obtain ⟨x, hx, hid, hxok⟩ := h.live' i pats hl
        exact ⟨g x, (hmem _).mpr ⟨x, hx, rfl⟩, by rw [(hg x).1]; exact hid, by rw [(hg x).2.2]; exact hxok⟩
      · intro y hy hyok
        obtain ⟨x, hx, rfl⟩ := (hmem y).mp hy
        rw [(hg x).2.2] at hyok
        rw [(hg x).1, hdel]
        by_cases hxi : x.id = id
        · have hxx : x = x0 := pairwise_unique h.nodup hx hx0 (hxi.trans hx0id.symm)
          subst hxx
          have : (g x).queue = x.queue.drop n := by simp [g, hxi]
          rw [this, if_pos hxi, List.append_assoc, ← List.flatten_append, List.take_append_drop]
          exact h.sum x hx hyok
        · have : (g x).queue = x.queue := by simp [g, hxi]
          rw [this, if_neg hxi, List.append_nil]
          exact h.sum x hx hyok
      · intro i hl
        have hne : i ≠ id := by
          intro hi; subst hi
          have := (h.live x0 hx0 hok).1
          rw [hx0id, hl] at this; cases this
        rw [hdel, if_neg hne, List.append_nil]
        exact h.gone i hl
      · intro i hi
        have hne : i ≠ id := by
          intro hc; subst hc
          have := h.lt x0 hx0
          rw [hx0id] at this
          have : p.nextID ≤ i := hi
          omega
        rw [hdel, if_neg hne, List.append_nil]
        exact h.fresh i hi
    · rw [if_neg hok]; exact h

/-- Removal of a subscriber (cancel: `extra = []`, close: `extra` = its pending batches). -/
theorem PInv_remove {p : Publisher} {s : Spec} (h : PInv p s) (id : Nat) (x0 : Sub)
    (hx0 : x0 ∈ p.subs) (hx0id : x0.id = id) (hok : x0.ok = true) (extra : List KV) (cl : Bool)
    (hextra : extra = [] ∨ (extra = x0.queue.flatten ∧ cl = true))
    (hcl : cl = true → extra = x0.queue.flatten) :
    PInv { p with trie := delMatchesFor p.trie id x0.matchList
                  subs := p.subs.filter (fun x => x.id != id)
                  delivered := p.delivered ++ extra.map (fun kv => (id, kv)) }
         { s with live := fun i => if i = id then none else s.live i
                  closed := fun i => if i = id ∧ cl = true then true else s.closed i } := by
  have hall : allParse x0.matchList = true := by rw [← h.okp x0 hx0]; exact hok
  have hdel := delMatchesFor_spec p.trie id x0.matchList hall
  have hmem : ∀ y, y ∈ p.subs.filter (fun x => x.id != id) ↔ y ∈ p.subs ∧ y.id ≠ id := by
    intro y; rw [List.mem_filter]; simp
  have hdl := deliveredTo_extra p (delMatchesFor p.trie id x0.matchList) p.nextID
    (p.subs.filter (fun x => x.id != id)) id extra
  show PInv (Publisher.mk (delMatchesFor p.trie id x0.matchList) p.nextID (p.subs.filter (fun x => x.id != id))
      (p.delivered ++ extra.map (fun kv => (id, kv)))) _
  refine
    { next := h.next
      lt := ?_, nodup := ?_, trie := ?_, okp := ?_, live := ?_, live' := ?_, sum := ?_, gone := ?_, fresh := ?_ }
  · intro y hy; exact h.lt y ((hmem y).mp hy).1
  · exact h.nodup.sublist List.filter_sublist
  · intro q i
    show i ∈ idsAt (delMatchesFor p.trie id x0.matchList).root q ↔ _
    rw [hdel q i, h.trie q i]
    constructor
    · rintro ⟨⟨x, hx, hid, hq⟩, hnot⟩
      refine ⟨x, (hmem x).mpr ⟨hx, ?_⟩, hid, hq⟩
      intro hxid
      have hxx : x = x0 := pairwise_unique h.nodup hx hx0 (hxid.trans hx0id.symm)
      subst hxx
      exact hnot ⟨hid.symm.trans hxid, hq⟩
    · rintro ⟨x, hx, hid, hq⟩
      obtain ⟨hx', hne⟩ := (hmem x).mp hx
      exact ⟨⟨x, hx', hid, hq⟩, fun hc => hne (hid.trans hc.1)⟩
  · intro y hy; exact h.okp y ((hmem y).mp hy).1
  · intro y hy hyok
    obtain ⟨hy', hne⟩ := (hmem y).mp hy
    have := h.live y hy' hyok
    simp only [hne, if_false, false_and]
    exact this
  · intro i pats hl
    simp only at hl
    split at hl
    · cases hl
    · rename_i hne
      obtain ⟨x, hx, hid, hxok⟩ := h.live' i pats hl
      exact ⟨x, (hmem x).mpr ⟨hx, by rw [hid]; exact hne⟩, hid, hxok⟩
  · intro y hy hyok
    obtain ⟨hy', hne⟩ := (hmem y).mp hy
    rw [hdl, if_neg hne, List.append_nil]
    exact h.sum y hy' hyok
  · intro i hl
    rw [hdl]
    by_cases hi : i = id
    · subst hi
      simp only [if_true, true_and]
      have hs := h.sum x0 hx0 hok
      rw [hx0id] at hs
      constructor
      · rcases hextra with he | ⟨he, _⟩
        · rw [he, List.append_nil, ← hs]; exact List.prefix_append _ _
        · rw [he, hs]; exact List.prefix_refl _
      · intro hc
        have hcl' : cl = true := by
          by_cases hcc : cl = true
          · exact hcc
          · have hclosed := (h.live x0 hx0 hok).2
            rw [hx0id] at hclosed
            simp [hcc, hclosed] at hc
        rw [hcl hcl', hs]
    · simp only [hi, if_false, List.append_nil, false_and]
      simp only [hi, if_false] at hl
      exact h.gone i hl
  · intro i hi
    have hne : i ≠ id := by
      intro hc; subst hc
      have := h.lt x0 hx0
      rw [hx0id] at this
      have : p.nextID ≤ i := hi
      omega
    rw [hdl]
    simp only [hne, if_false, List.append_nil, false_and]
    exact h.fresh i hi

theorem PInv_cancel {p : Publisher} {s : Spec} (h : PInv p s) (id : Nat) :
    PInv (p.cancel id) (s.step (.cancel id)) := by
  unfold Publisher.cancel
  cases hf : p.find id with
  | none =>
    have hl := live_none_of_noop h id (by intro x hx; rw [hf] at hx; cases hx)
    simp only [Spec.step, Spec.remove_noop s id hl]
    exact h
  | some x0 =>
    simp only
    by_cases hok : x0.ok = true
    · rw [if_pos hok]
      obtain ⟨hx0, hx0id⟩ := (find_iff h.nodup id x0).mp hf
      have := PInv_remove h id x0 hx0 hx0id hok [] false (Or.inl rfl) (by intro hc; cases hc)
      simpa [Spec.step] using this
    · rw [if_neg hok]
      have hl := live_none_of_noop h id (by
        intro x hx; rw [hf] at hx; cases hx; simpa using hok)
      simp only [Spec.step, Spec.remove_noop s id hl]
      exact h

theorem PInv_close {p : Publisher} {s : Spec} (h : PInv p s) (id : Nat) :
    PInv (p.close id) (s.step (.close id)) := by
  unfold Publisher.close
  cases hf : p.find id with
  | none =>
    have hl := live_none_of_noop h id (by intro x hx; rw [hf] at hx; cases hx)
    simp only [Spec.step, Spec.remove_noop s id hl, hl, Option.isSome_none, Bool.false_eq_true, and_false,
      if_false]
    exact h
  | some x0 =>
    simp only
    by_cases hok : x0.ok = true
    · rw [if_pos hok]
      obtain ⟨hx0, hx0id⟩ := (find_iff h.nodup id x0).mp hf
      have hlive := (h.live x0 hx0 hok).1
      rw [hx0id] at hlive
      have := PInv_remove h id x0 hx0 hx0id hok x0.queue.flatten true (Or.inr ⟨rfl, rfl⟩) (fun _ => rfl)
      simpa [Spec.step, hlive] using this
    · rw [if_neg hok]
      have hl := live_none_of_noop h id (by
        intro x hx; rw [hf] at hx; cases hx; simpa using hok)
      simp only [Spec.step, Spec.remove_noop s id hl, hl, Option.isSome_none, Bool.false_eq_true, and_false,
        if_false]
      exact h

theorem PInv_step {p : Publisher} {s : Spec} (h : PInv p s) (st : PubStep) :
    PInv (p.step st) (s.step st) := by
  cases st with
  | subscribe ms => exact PInv_subscribe h ms
  | publish reqs => exact PInv_publish h reqs
  | deliver id n => exact PInv_deliver h id n
  | cancel id => exact PInv_cancel h id
  | close id => exact PInv_close h id

theorem PInv_run (steps : List PubStep) : PInv (Publisher.run steps) (Spec.run steps) := by
  unfold Publisher.run Spec.run
  suffices hgen : ∀ p s, PInv p s → PInv (steps.foldl Publisher.step p) (steps.foldl Spec.step s) from
    hgen _ _ PInv_init
  induction steps with
  | nil => intro p s h; exact h
  | cons st steps ih => intro p s h; exact ih _ _ (PInv_step h st)

/-! ## the specification only owes KVs of published entries that match a registered pattern -/

structure SInv (s : Spec) : Prop where
  len : s.nextID = s.regs.length
  liveReg : ∀ id pats, s.live id = some pats → ∃ ms, s.regs[id]? = some ms ∧ pats = addedPats ms
  sound : ∀ id kv, kv ∈ s.expected id → ∃ ms e, s.regs[id]? = some ms ∧ e ∈ s.published ∧ kv = kvOf e ∧
    matchesAny (addedPats ms) (parseKey e.ikey) = true

theorem SInv_step {s : Spec} (h : SInv s) (st : PubStep) : SInv (s.step st) := by
  cases st with
  | subscribe ms =>
    refine ⟨by simp [Spec.step, h.len], ?_, ?_⟩
    · intro id pats hl
      simp only [Spec.step] at hl ⊢
      split at hl
      · rename_i hc
        cases hl
        refine ⟨ms, ?_, rfl⟩
        rw [hc.1, h.len]; simp
      · obtain ⟨ms', hr, hp⟩ := h.liveReg id pats hl
        have hlt : id < s.regs.length := (List.getElem?_eq_some_iff.mp hr).1
        exact ⟨ms', by rw [List.getElem?_append_left hlt]; exact hr, hp⟩
    · intro id kv hk
      obtain ⟨ms', e, hr, he, hkv, hm⟩ := h.sound id kv hk
      have hlt : id < s.regs.length := (List.getElem?_eq_some_iff.mp hr).1
      exact ⟨ms', e, by simp only [Spec.step]; rw [List.getElem?_append_left hlt]; exact hr, he, hkv, hm⟩
  | publish reqs =>
    refine ⟨h.len, h.liveReg, ?_⟩
    intro id kv hk
    simp only [Spec.step] at hk ⊢
    cases hl : s.live id with
    | none =>
      rw [hl] at hk
      obtain ⟨ms', e, hr, he, hkv, hm⟩ := h.sound id kv hk
      exact ⟨ms', e, hr, List.mem_append_left _ he, hkv, hm⟩
    | some pats =>
      rw [hl] at hk
      rcases List.mem_append.mp hk with hk | hk
      · obtain ⟨ms', e, hr, he, hkv, hm⟩ := h.sound id kv hk
        exact ⟨ms', e, hr, List.mem_append_left _ he, hkv, hm⟩
      · obtain ⟨ms', hr, hp⟩ := h.liveReg id pats hl
        unfold owed at hk
        obtain ⟨e, he, hkv⟩ := List.mem_map.mp hk
        obtain ⟨he1, he2⟩ := List.mem_filter.mp he
        exact ⟨ms', e, hr, List.mem_append_right _ he1, hkv.symm, by rw [← hp]; exact he2⟩
  | deliver id n => exact h
  | cancel id =>
    refine ⟨h.len, ?_, h.sound⟩
    intro i pats hl
    simp only [Spec.step] at hl
    split at hl
    · cases hl
    · exact h.liveReg i pats hl
  | close id =>
    refine ⟨h.len, ?_, h.sound⟩
    intro i pats hl
    simp only [Spec.step] at hl
    split at hl
    · cases hl
    · exact h.liveReg i pats hl

theorem SInv_run (steps : List PubStep) : SInv (Spec.run steps) := by
  unfold Spec.run
  suffices hgen : ∀ s, SInv s → SInv (steps.foldl Spec.step s) from
    hgen _ ⟨rfl, by intro id pats h; simp [Spec.init] at h, by intro id kv h; simp [Spec.init] at h⟩
  induction steps with
  | nil => intro s h; exact h
  | cons st steps ih => intro s h; exact ih _ (SInv_step h st)

/-- The history fields are what they say. -/
def regsOf (steps : List PubStep) : List (List (Bytes × Bytes)) :=
  steps.filterMap (fun st => match st with | .subscribe ms => some ms | _ => none)

def publishedOf (steps : List PubStep) : List PubEntry :=
  steps.flatMap (fun st => match st with | .publish reqs => reqs.flatten | _ => [])

theorem Spec.run_history (steps : List PubStep) :
    (Spec.run steps).regs = regsOf steps ∧ (Spec.run steps).published = publishedOf steps := by
  unfold Spec.run regsOf publishedOf
  suffices hgen : ∀ s : Spec, (steps.foldl Spec.step s).regs = s.regs ++
        steps.filterMap (fun st => match st with | .subscribe ms => some ms | _ => none) ∧
      (steps.foldl Spec.step s).published = s.published ++
        steps.flatMap (fun st => match st with | .publish reqs => reqs.flatten | _ => []) by
    simpa [Spec.init] using hgen Spec.init
  induction steps with
  | nil => intro s; simp
  | cons st steps ih =>
    intro s
    obtain ⟨h1, h2⟩ := ih (s.step st)
    simp only [List.foldl_cons, h1, h2]
    cases st <;> simp [Spec.step]

/-! ## the property -/

/-- **Exactly once, in order.** After any sequence of Subscribe / publish / deliver / cancel /
    close steps, with `p` the publisher state and `s` the specification state:
    * a subscribed id: what its callback received so far followed by what waits in its channel is
      exactly the list it is owed — the KVs of the entries published since its registration
      whose user key matches one of its patterns, in publish (= commit) order, each once;
    * a cancelled id: its callback received a prefix of that list (pending batches are dropped
      by `drain()`), never anything else, never out of order;
    * an id removed by a DB close: its callback received the whole list. -/
theorem C32_exactly_once_in_order (steps : List PubStep) :
    let p := Publisher.run steps
    let s := Spec.run steps
    (∀ id pats, s.live id = some pats →
        ∃ x, x ∈ p.subs ∧ x.id = id ∧ p.deliveredTo id ++ x.queue.flatten = s.expected id) ∧
    (∀ id, s.live id = none → p.deliveredTo id <+: s.expected id) ∧
    (∀ id, s.closed id = true → p.deliveredTo id = s.expected id) := by
  intro p s
  have h := PInv_run steps
  refine ⟨?_, ?_, ?_⟩
  · intro id pats hl
    obtain ⟨x, hx, hid, hxok⟩ := h.live' id pats hl
    exact ⟨x, hx, hid, by rw [← hid]; exact h.sum x hx hxok⟩
  · intro id hl
    exact (h.gone id hl).1
  · intro id hc
    cases hl : (Spec.run steps).live id with
    | none => exact (h.gone id hl).2 hc
    | some pats =>
      obtain ⟨x, hx, hid, hxok⟩ := h.live' id pats hl
      have := (h.live x hx hxok).2
      rw [hid] at this
      rw [this] at hc; cases hc

/-- Everything a callback receives is owed. -/
theorem delivered_mem_expected (steps : List PubStep) (id : Nat) (kv : KV)
    (hk : kv ∈ (Publisher.run steps).deliveredTo id) : kv ∈ (Spec.run steps).expected id := by
  have h := PInv_run steps
  cases hl : (Spec.run steps).live id with
  | none =>
    obtain ⟨t, ht⟩ := (h.gone id hl).1
    rw [← ht]; exact List.mem_append_left _ hk
  | some pats =>
    obtain ⟨x, hx, hid, hxok⟩ := h.live' id pats hl
    have := h.sum x hx hxok
    rw [hid] at this
    rw [← this]; exact List.mem_append_left _ hk

/-- **Only matching.** Every KV handed to the callback of subscriber `id` is the KV (user key,
    value, user meta, expiry, version) of an entry that was published, and the user key of that
    entry matches one of the patterns `id` registered with (`regsOf steps` lists the matches of
    the Subscribe calls in order; ids are handed out in that order). -/
theorem C32_only_matching (steps : List PubStep) (id : Nat) (kv : KV)
    (hk : kv ∈ (Publisher.run steps).deliveredTo id) :
    ∃ ms e, (regsOf steps)[id]? = some ms ∧ e ∈ publishedOf steps ∧ kv = kvOf e ∧
      matchesAny (addedPats ms) (parseKey e.ikey) = true := by
  have h := (SInv_run steps).sound id kv (delivered_mem_expected steps id kv hk)
  rw [(Spec.run_history steps).1, (Spec.run_history steps).2] at h
  exact h

/-- `matchesAny` in terms of prefix, ignored positions and user key (see `patMatches_mkPattern`). -/
theorem matchesAny_addedPats (ms : List (Bytes × Bytes)) (hall : allParse ms = true) (key : Bytes) :
    matchesAny (addedPats ms) key = true ↔
      ∃ pfx ig bools, (pfx, ig) ∈ ms ∧ parseIgnoreBytes ig = some bools ∧
        patMatches (mkPattern pfx bools) key = true := by
  unfold matchesAny
  rw [List.any_eq_true]
  induction ms with
  | nil => simp [addedPats]
  | cons m ms ih =>
    obtain ⟨p, ig⟩ := m
    simp only [allParse, Bool.and_eq_true] at hall
    cases hp : parseIgnoreBytes ig with
    | none => simp [hp] at hall
    | some b =>
      simp only [addedPats, hp, List.mem_cons]
      constructor
      · rintro ⟨q, (rfl | hq), hm⟩
        · exact ⟨p, ig, b, Or.inl rfl, hp, hm⟩
        · obtain ⟨pfx, ig', bools, hmem, hpb, hmm⟩ := (ih hall.2).mp ⟨q, hq, hm⟩
          exact ⟨pfx, ig', bools, Or.inr hmem, hpb, hmm⟩
      · rintro ⟨pfx, ig', bools, (heq | hmem), hpb, hmm⟩
        · cases heq
          rw [hp] at hpb; cases hpb
          exact ⟨_, Or.inl rfl, hmm⟩
        · obtain ⟨q, hq, hm⟩ := (ih hall.2).mpr ⟨pfx, ig', bools, hmem, hpb, hmm⟩
          exact ⟨q, Or.inr hq, hm⟩

/-! ## non-vacuity -/

private def demoEntry (k : Bytes) (ts : Nat) (v : UInt8) : PubEntry :=
  { ikey := keyWithTs k ts, value := [v], userMeta := 0, expiresAt := 0 }

-- subscriber 0: prefix "a" with position 1 ignored ("a?b…" via ignore "1" needs 3 bytes: "a", hole, "b");
-- subscriber 1: prefix "b". Writes: "axb"@1, "b"@2, "ayb"@3, then subscriber 0 is cancelled with one
-- batch still pending, "azb"@4 is published afterwards.
private def demoSteps : List PubStep :=
  [.subscribe [([0x61, 0x00, 0x62], [0x31])], .subscribe [([0x62], [])],
   .publish [[demoEntry [0x61, 0x78, 0x62] 1 1], [demoEntry [0x62] 2 2]],
   .deliver 0 1,
   .publish [[demoEntry [0x61, 0x79, 0x62] 3 3]],
   .cancel 0,
   .publish [[demoEntry [0x61, 0x7a, 0x62] 4 4]],
   .close 1]

set_option maxRecDepth 20000 in
example : ((Publisher.run demoSteps).deliveredTo 0).map (fun kv => (kv.key, kv.version)) =
    [([0x61, 0x78, 0x62], 1)] := by decide
set_option maxRecDepth 20000 in
example : ((Publisher.run demoSteps).deliveredTo 1).map (fun kv => (kv.key, kv.version)) =
    [([0x62], 2)] := by decide

end Badger
