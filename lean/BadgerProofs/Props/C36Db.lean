import BadgerProofs.Props.C01Reach
import BadgerProofs.Lemmas.Txn
/-!
# C36 composed: managed mode, every history

`MDbReach o hist d`: the database model in MANAGED mode reached from `Db.init o` by any sequence of
`begin` at a caller-chosen read timestamp, `set` with or without an explicit per-entry version,
`get`, iterator reads, `commit` at a caller-chosen commit timestamp, `discard`, `SetDiscardTs`
(non-decreasing), flushes, clock ticks and picker-valid compactions at any discard timestamp up to
`discardTs`. The ONLY hypothesis on a commit is the managed-mode contract `FreshSeq`: each entry it
writes is above the versions already committed for ITS OWN key (timestamps may go up and down across
keys and transactions; the excluded case is finding F27, `C36_write_below_counterexample`).

`C36_db_snapshot`: a read at any chosen timestamp `≥ discardTs` returns exactly the newest committed
write at or below it over the whole history. `C36_db_discard_raise`: raising the discard timestamp
changes no such read.
-/
namespace Badger

/-- each entry is above every earlier write of its own key (earlier in the batch or in `hist`) -/
def FreshSeq (hist : List Ent) : List Ent → Prop
  | [] => True
  | e :: es => 0 < e.ver ∧ e.ver ≤ maxU64 ∧ (∀ x ∈ hist, x.key = e.key → x.ver < e.ver) ∧ FreshSeq (e :: hist) es

instance FreshSeq.dec : (hist es : List Ent) → Decidable (FreshSeq hist es)
  | _, [] => isTrue trivial
  | hist, e :: es => by
    have := FreshSeq.dec (e :: hist) es
    unfold FreshSeq
    infer_instance

/-- what `commit id cts` writes (nothing unless the commit reaches the write path) -/
def Db.commitEnts (d : Db) (id cts : Nat) : List Ent :=
  match d.findTxn id with
  | some t => if commitGoes d t cts then commitEntries d t (commitTsOf d cts) else []
  | none => []

inductive MDbReach (o : Opts) : List Ent → Db → Prop
  | init (now : Nat) : MDbReach o [] (Db.init o now)
  | begin {hist : List Ent} {d : Db} (r : MDbReach o hist d) (id : Nat) (upd : Bool) (rts : Nat) :
      MDbReach o hist (d.begin id upd rts).1
  | set {hist : List Ent} {d : Db} (r : MDbReach o hist d) (id : Nat) (e : Ent) :
      MDbReach o hist (d.modify id e).1
  | get {hist : List Ent} {d : Db} (r : MDbReach o hist d) (id : Nat) (k : Bytes) :
      MDbReach o hist (d.txnGet id k).1
  | reads {hist : List Ent} {d : Db} (r : MDbReach o hist d) (id : Nat) (t : TxnM) (rs : List Bytes)
      (hf : d.findTxn id = some t) : MDbReach o hist (d.setTxn { t with reads := rs })
  | discard {hist : List Ent} {d : Db} (r : MDbReach o hist d) (id : Nat) : MDbReach o hist (d.discardTxn id)
  | commit {hist : List Ent} {d : Db} (r : MDbReach o hist d) (id cts : Nat)
      (hfresh : FreshSeq hist (d.commitEnts id cts)) :
      MDbReach o ((d.commitEnts id cts).reverse ++ hist) (d.commit id cts).1
  | setDiscard {hist : List Ent} {d : Db} (r : MDbReach o hist d) (ts : Nat) (h : d.discardTs ≤ ts) :
      MDbReach o hist ({ d with discardTs := ts } : Db).cleanup
  | flush {hist : List Ent} {d : Db} (r : MDbReach o hist d) (fid : Nat) :
      MDbReach o hist { d with lsm := d.lsm.flush fid }
  | tick {hist : List Ent} {d : Db} (r : MDbReach o hist d) (now' : Nat) (h : d.now ≤ now') :
      MDbReach o hist { d with now := now' }
  | compact {hist : List Ent} {d : Db} {s' : Lsm} (r : MDbReach o hist d) (cd : CompactDef) (dts : Nat)
      (hd : dts ≤ d.discardAtOrBelow)
      (hi : ChoiceIdxOk d.lsm cd) (htop : cd.top ≠ []) (hvc : validChoice d.lsm cd = true)
      (hdp : cd.dropPrefixes = []) (hs : d.lsm.compact cd dts d.opts.numKeep d.now = some s')
      (hcut : ∀ new0, splitSizes cd.outSizes (compactOutput d.lsm cd dts d.opts.numKeep d.now).1 = some new0 →
        CutsAtKeyChange (withIds new0 cd.outIds)) :
      MDbReach o hist { d with lsm := s' }

namespace MDbL

structure Inv (o : Opts) (hist : List Ent) (d : Db) : Prop where
  opts : d.opts = o
  reach : ∃ dm nm, Reach o.maxLevels hist dm nm d.lsm ∧ dm ≤ d.discardTs ∧ nm ≤ d.now

/-- the fields the invariant looks at are unchanged -/
def SameCore (d d' : Db) : Prop :=
  d'.lsm = d.lsm ∧ d'.discardTs = d.discardTs ∧ d'.now = d.now ∧ d'.opts = d.opts

theorem Inv.same {o : Opts} {hist : List Ent} {d d' : Db} (h : Inv o hist d) (hs : SameCore d d') : Inv o hist d' := by
  obtain ⟨h1, h2, h3, h4⟩ := hs
  obtain ⟨dm, nm, r, a, b⟩ := h.reach
  exact ⟨by rw [h4, h.opts], ⟨dm, nm, by rw [h1]; exact r, by rw [h2]; exact a, by rw [h3]; exact b⟩⟩

theorem same_refl (d : Db) : SameCore d d := ⟨rfl, rfl, rfl, rfl⟩
theorem same_setTxn (d : Db) (t : TxnM) : SameCore d (d.setTxn t) := ⟨rfl, rfl, rfl, rfl⟩
theorem same_discard (d : Db) (id : Nat) : SameCore d (d.discardTxn id) :=
  ⟨discardTxn_lsm d id, discardTxn_discardTs d id, discardTxn_now d id, discardTxn_opts d id⟩

theorem same_begin (d : Db) (id : Nat) (upd : Bool) (rts : Nat) : SameCore d (d.begin id upd rts).1 := by
  unfold Db.begin
  dsimp only
  split <;> exact ⟨rfl, rfl, rfl, rfl⟩

theorem same_modify (d : Db) (id : Nat) (e : Ent) : SameCore d (d.modify id e).1 := by
  cases hf : d.findTxn id with
  | none => rw [modify_none e hf]; exact same_refl d
  | some t =>
    rcases modify_shape e hf with h | ⟨t', _, h⟩ <;> rw [h]
    · exact same_refl d
    · exact same_setTxn d t'

theorem same_get (d : Db) (id : Nat) (k : Bytes) : SameCore d (d.txnGet id k).1 := by
  unfold Db.txnGet
  cases hf : d.findTxn id with
  | none => exact same_refl d
  | some t =>
    simp only []
    split; · exact same_refl d
    split; · exact same_refl d
    split
    · split <;> exact same_refl d
    · have key : ∀ d' : Db, SameCore d d' → SameCore d (match d'.lsm.get k t.readTs with
          | none => (d', GetRes.notfound)
          | some e => if deletedOrExpired e.emeta e.exp d'.now then (d', GetRes.notfound)
                      else (d', GetRes.found e e.ver)).1 := by
        intro d' h'
        split
        · exact h'
        · split <;> exact h'
      apply key
      split
      · exact same_setTxn d _
      · exact same_refl d

theorem reach_fresh {nlev : Nat} {hist : List Ent} {dm nm : Nat} {s : Lsm} (r : Reach nlev hist dm nm s)
    (es : List Ent) (hf : FreshSeq hist es) :
    Reach nlev (es.reverse ++ hist) dm nm (es.foldl (fun s e => s.putEnt e) s) := by
  induction es generalizing hist s with
  | nil => simpa using r
  | cons e es ih =>
    obtain ⟨h1, h2, h3, h4⟩ := hf
    have := ih (Reach.put r e h1 h2 h3) h4
    simpa [List.reverse_cons, List.append_assoc] using this

variable {o : Opts} {hist : List Ent} {d : Db}

theorem commit_inv (h : Inv o hist d) (id cts : Nat) (hfresh : FreshSeq hist (d.commitEnts id cts)) :
    Inv o ((d.commitEnts id cts).reverse ++ hist) (d.commit id cts).1 := by
  cases hf : d.findTxn id with
  | none =>
    have : d.commitEnts id cts = [] := by unfold Db.commitEnts; rw [hf]
    rw [this, commit_none cts hf]; exact h
  | some t =>
    cases hg : commitGoes d t cts with
    | false =>
      have he : d.commitEnts id cts = [] := by unfold Db.commitEnts; rw [hf]; simp [hg]
      rw [he]
      rcases commit_stops cts hf hg with h' | ⟨s, h'⟩ | h' <;> rw [h']
      · exact h.same (same_discard d id)
      · exact h
      · exact h.same (same_discard d id)
    | true =>
      have he : d.commitEnts id cts = commitEntries d t (commitTsOf d cts) := by
        unfold Db.commitEnts; rw [hf]; simp only [hg, if_true]
      rw [he] at hfresh ⊢
      obtain ⟨_, h2, _, h4, h5, h6⟩ := commit_goes cts hf hg
      obtain ⟨dm, nm, r, a, b⟩ := h.reach
      have R := reach_fresh r _ hfresh
      rw [C01_foldl_putEnt] at R
      exact ⟨by rw [h4, h.opts], ⟨dm, nm, by rw [h2]; exact R, by rw [h6]; exact a, by rw [h5]; exact b⟩⟩

theorem setDiscard_inv (h : Inv o hist d) (ts : Nat) (hts : d.discardTs ≤ ts) :
    Inv o hist ({ d with discardTs := ts } : Db).cleanup := by
  obtain ⟨dm, nm, r, a, b⟩ := h.reach
  refine ⟨by rw [cleanup_opts]; exact h.opts, ⟨dm, nm, by rw [cleanup_lsm]; exact r, ?_, by rw [cleanup_now]; exact b⟩⟩
  rw [cleanup_discardTs]; show dm ≤ ts; omega

theorem flush_inv (h : Inv o hist d) (fid : Nat) : Inv o hist { d with lsm := d.lsm.flush fid } := by
  obtain ⟨dm, nm, r, h1, h2⟩ := h.reach
  exact ⟨h.opts, ⟨dm, nm, Reach.flush r fid, h1, h2⟩⟩

theorem tick_inv (h : Inv o hist d) (now' : Nat) (hn : d.now ≤ now') : Inv o hist { d with now := now' } := by
  obtain ⟨dm, nm, r, h1, h2⟩ := h.reach
  exact ⟨h.opts, ⟨dm, nm, r, h1, by show nm ≤ now'; omega⟩⟩

theorem compact_inv (hm : o.managed = true) (h : Inv o hist d) {s' : Lsm} (cd : CompactDef) (dts : Nat)
    (hd : dts ≤ d.discardAtOrBelow)
    (hi : ChoiceIdxOk d.lsm cd) (htop : cd.top ≠ []) (hvc : validChoice d.lsm cd = true)
    (hdp : cd.dropPrefixes = []) (hs : d.lsm.compact cd dts d.opts.numKeep d.now = some s')
    (hcut : ∀ new0, splitSizes cd.outSizes (compactOutput d.lsm cd dts d.opts.numKeep d.now).1 = some new0 →
      CutsAtKeyChange (withIds new0 cd.outIds)) : Inv o hist { d with lsm := s' } := by
  obtain ⟨dm, nm, r, h1, h2⟩ := h.reach
  have hmd : d.opts.managed = true := by rw [h.opts]; exact hm
  have hd' : dts ≤ d.discardTs := by
    unfold Db.discardAtOrBelow at hd; simpa [hmd] using hd
  refine ⟨h.opts, ⟨max dm dts, max nm d.now, Reach.compact r cd dts d.opts.numKeep d.now hi htop hvc hdp hs hcut, ?_, ?_⟩⟩
  · show max dm dts ≤ d.discardTs; omega
  · show max nm d.now ≤ d.now; omega

theorem init_inv (o : Opts) (now : Nat) : Inv o [] (Db.init o now) :=
  ⟨rfl, ⟨0, 0, Reach.init, Nat.zero_le _, Nat.zero_le _⟩⟩

theorem inv_of_reach (hm : o.managed = true) (r : MDbReach o hist d) : Inv o hist d := by
  induction r with
  | init now => exact init_inv o now
  | begin _ id upd rts ih => exact ih.same (same_begin _ id upd rts)
  | set _ id e ih => exact ih.same (same_modify _ id e)
  | get _ id k ih => exact ih.same (same_get _ id k)
  | reads _ id t rs hf ih => exact ih.same (same_setTxn _ _)
  | discard _ id ih => exact ih.same (same_discard _ id)
  | commit _ id cts hfresh ih => exact commit_inv ih id cts hfresh
  | setDiscard _ ts hts ih => exact setDiscard_inv ih ts hts
  | flush _ fid ih => exact flush_inv ih fid
  | tick _ now' hn ih => exact tick_inv ih now' hn
  | compact _ cd dts hd hi htop hvc hdp hs hcut ih => exact compact_inv hm ih cd dts hd hi htop hvc hdp hs hcut

end MDbL

/-- **C36 for the whole database model, every managed history**: a read at any chosen timestamp at
    or above the discard timestamp sees exactly the newest committed write at or below it (absent if
    deleted or expired), whatever was flushed or compacted in between. -/
theorem C36_db_snapshot {o : Opts} {hist : List Ent} {d : Db} (hm : o.managed = true)
    (r : MDbReach o hist d) {id : Nat} {t : TxnM} {k : Bytes} (hf : d.findTxn id = some t)
    (hk : k.isEmpty = false) (hdisc : t.discarded = false)
    (hpend : (if t.update then t.pending.find? (·.key == k) else none) = none)
    (hts : d.discardTs ≤ t.readTs) :
    (d.txnGet id k).2 = getResOf (visible d.now (newestLE hist k t.readTs)) := by
  have h := MDbL.inv_of_reach hm r
  obtain ⟨dm, nm, R, h1, h2⟩ := h.reach
  have R' : Reach d.opts.maxLevels hist dm nm d.lsm := by rw [h.opts]; exact R
  exact C01_reach_txnGet R' hf hk hdisc hpend (by omega) h2

/-- **raising the discard timestamp never changes a read at or above it**: the read is the same
    function of the history before and after `SetDiscardTs`. -/
theorem C36_db_discard_raise {o : Opts} {hist : List Ent} {d : Db} (hm : o.managed = true)
    (r : MDbReach o hist d) (ts : Nat) (hts : d.discardTs ≤ ts) (k : Bytes) (rts : Nat) (hr : ts ≤ rts) :
    visible d.now ((({ d with discardTs := ts } : Db).cleanup).lsm.get k rts) =
      visible d.now (newestLE hist k rts) ∧
    visible d.now (d.lsm.get k rts) = visible d.now (newestLE hist k rts) := by
  have h := MDbL.inv_of_reach hm r
  obtain ⟨dm, nm, R, h1, h2⟩ := h.reach
  rw [cleanup_lsm]
  exact ⟨C01_reach_reads R (by omega) h2 k, C01_reach_reads R (by omega) h2 k⟩

/-- non-vacuity: commits at caller-chosen timestamps 7 then 5 on different keys (non-monotone),
    the second with an explicit per-entry version 3 -/
def C36_dbOpts : Opts := { managed := true, maxBatchCount := 100, maxBatchSize := 100000 }
def C36_dbD2 : Db :=
  (((Db.init C36_dbOpts 0).begin 1 true 0).1.modify 1 ⟨[0x61], 0, 0, 0, 0, [7]⟩).1
def C36_dbD5 : Db :=
  ((((C36_dbD2.commit 1 7).1.begin 2 true 0).1.modify 2 ⟨[0x62], 0, 0, 0, 0, [5]⟩).1.modify 2 ⟨[0x63], 3, 0, 0, 0, [3]⟩).1

theorem C36_db_example_reach :
    MDbReach C36_dbOpts ((C36_dbD5.commitEnts 2 5).reverse ++ ((C36_dbD2.commitEnts 1 7).reverse ++ []))
      (C36_dbD5.commit 2 5).1 := by
  have r2 : MDbReach C36_dbOpts [] C36_dbD2 := MDbReach.set (MDbReach.begin (MDbReach.init 0) 1 true 0) 1 _
  have r3 := MDbReach.commit r2 1 7 (by decide)
  have r5 : MDbReach C36_dbOpts _ C36_dbD5 := MDbReach.set (MDbReach.set (MDbReach.begin r3 2 true 0) 2 _) 2 _
  exact MDbReach.commit r5 2 5 (by decide)

theorem C36_db_example_hist :
    ((C36_dbD5.commitEnts 2 5).reverse ++ (C36_dbD2.commitEnts 1 7).reverse).map (fun e => (e.key, e.ver)) =
      [([0x63], 3), ([0x62], 5), ([0x61], 7)] := by decide

end Badger
