import BadgerProofs.Props.C01Db
/-!
# C04, second half: pending writes are invisible to every other transaction

A `Set` / `Delete` (`Db.modify`) of transaction `id'` changes nothing any OTHER transaction can
observe through `Get`: the result depends only on the other transaction's own record, the LSM tree
and the clock. Together with `C01_db_snapshot` (a `Get` is a function of the COMMIT history) this
is "pending writes are never visible to any other transaction before the commit".
-/
namespace Badger

/-- the answer of `Txn.Get` is a function of the transaction's record, the LSM state and the clock -/
theorem txnGet_snd_congr (d d' : Db) (id : Nat) (k : Bytes) (hf : d'.findTxn id = d.findTxn id)
    (hl : d'.lsm = d.lsm) (hn : d'.now = d.now) : (d'.txnGet id k).2 = (d.txnGet id k).2 := by
  unfold Db.txnGet
  rw [hf]
  cases d.findTxn id with
  | none => rfl
  | some t =>
    simp only []
    split; · rfl
    split; · rfl
    split
    · rw [hn]; split <;> rfl
    · have key : ∀ a b : Db, a.lsm = b.lsm → a.now = b.now →
          (match a.lsm.get k t.readTs with
            | none => (a, GetRes.notfound)
            | some e => if deletedOrExpired e.emeta e.exp a.now then (a, GetRes.notfound)
                        else (a, GetRes.found e e.ver)).2 =
          (match b.lsm.get k t.readTs with
            | none => (b, GetRes.notfound)
            | some e => if deletedOrExpired e.emeta e.exp b.now then (b, GetRes.notfound)
                        else (b, GetRes.found e e.ver)).2 := by
        intro a b h1 h2
        rw [h1, h2]
        cases b.lsm.get k t.readTs with
        | none => rfl
        | some e => simp only []; split <;> rfl
      apply key
      · split <;> simp [hl]
      · split <;> simp [hn]

/-- **C04**: a pending write of transaction `id'` is invisible to a `Get` of any other transaction -/
theorem C04_db_pending_invisible (d : Db) (id id' : Nat) (hne : id ≠ id') (e : Ent) (k : Bytes) :
    ((d.modify id' e).1.txnGet id k).2 = (d.txnGet id k).2 := by
  cases hf : d.findTxn id' with
  | none => rw [modify_none e hf]
  | some t =>
    rcases modify_shape e hf with h | ⟨t', ht', h⟩ <;> rw [h]
    apply txnGet_snd_congr
    · exact findTxn_setTxn_ne d t' id (by rw [ht']; exact hne)
    · rfl
    · rfl

end Badger
