import BadgerProofs.Props.C01Db
import BadgerProofs.Props.C05
import BadgerProofs.Props.C05Pick
/-!
# C05 composed with the reachability theorem: a full forward scan of a read-only transaction

In every state reachable in normal mode (`DbReach`), a forward iterator with default options
(`Rewind`, no prefix, `SinceTs = 0`, one version per key) opened by a read-only transaction yields
exactly the entries `x` that are the newest committed write `≤ readTs` of their key over the whole
commit HISTORY and are live — each key once, in strictly increasing key order.
-/
namespace Badger

theorem C05_db_scan {o : Opts} {hist : List Ent} {d : Db} (hm : o.managed = false)
    (r : DbReach o hist d) {id : Nat} {t : TxnM} (hf : d.findTxn id = some t)
    (hupd : t.update = false) (hdisc : t.discarded = false)
    (io : IterOpts) (hrev : io.reverse = false) (hall : io.allVersions = false)
    (hsince : io.sinceTs = 0) (hpfx : io.prefix_ = []) (hpk : io.prefixIsKey = false)
    (hh : io.internalAccess = true ∨ ∀ e ∈ hist, badgerPrefix.isPrefixOf e.ikey = false) :
    ∃ L, d.iterate id io none = some L ∧
      (∀ x, x ∈ L ↔ visible d.now (newestLE hist x.key t.readTs) = some x) ∧
      L.Pairwise (fun a b => cmpBytes a.key b.key = .lt) := by
  have h := DbL.inv_of_reach hm r
  obtain ⟨dm, nm, R, h1, h2⟩ := h.l.reach
  have R' : Reach d.opts.maxLevels hist dm nm d.lsm := by rw [h.l.opts]; exact R
  have hgood := C01_reach_good R'
  have hsub := (C01_reach_inv R').2.2
  have hle := C34_db_discard_below_open hm r hf hdisc
  unfold Db.discardAtOrBelow at hle
  rw [DbL.managed_false hm h] at hle
  have hle : d.readMark.doneUntil ≤ t.readTs := by simpa using hle
  have hsrc := sources_sorted hgood.1
  have hps : pendingSource t = [] := by simp [pendingSource, hupd]
  have hsrcs : ∀ s ∈ pendingSource t :: d.lsm.sources, SortedEnts s := by
    intro s hs
    rcases List.mem_cons.mp hs with rfl | hs
    · rw [hps]; exact List.Pairwise.nil
    · exact hsrc s hs
  have hmerged : SortedEnts (mergeAll (pendingSource t :: d.lsm.sources)) := mergeAll_sorted hsrcs
  have hflat : (pendingSource t :: d.lsm.sources).flatten = d.lsm.allEntries := by
    rw [hps]; simp [Lsm.allEntries]
  have hn : NoHidden io (mergeAll (pendingSource t :: d.lsm.sources)) := by
    rcases hh with hh | hh
    · exact .inl hh
    · right
      intro e he
      have := C12_merge_mem_flatten he
      rw [hflat] at this
      exact hh e (hsub e this)
  have hsk : io.prefix_.isPrefixOf (seekKeyOf io none) = true := C05_rewind_key io none (.inl rfl)
  refine ⟨_, C05_iterate_forward d id t io none hf hsrc hrev hall hn hsk, ?_, ?_⟩
  · intro x
    have hvp : ∀ l : List Ent, validPrefix io l = l := by
      intro l; unfold validPrefix
      simp only [hpk, hpfx, Bool.false_eq_true, if_false, List.isPrefixOf]
      induction l with
      | nil => rfl
      | cons a l ih => simp [ih]
    rw [hvp, mem_specScanFwd hmerged, hsince, C05_newestVisible_since_zero, newestLE_mergeAll hsrcs, hflat,
      ← C01_reach_get_spec R', hpfx]
    have hvis := C01_reach_reads R' (ts := t.readTs) (now := d.now) (by omega) h2 x.key
    constructor
    · rintro ⟨_, _, _, hnew, hlive⟩
      rw [← hvis, hnew]
      simp [visible, hlive]
    · intro hv
      rw [← hvis] at hv
      cases hg : d.lsm.get x.key t.readTs with
      | none => rw [hg] at hv; simp [visible] at hv
      | some e =>
        rw [hg] at hv
        simp only [visible] at hv
        split at hv
        · cases hv
        · rename_i hlive
          have hex : e = x := by simpa using hv
          subst hex
          refine ⟨?_, ?_, ?_, rfl, by simpa using hlive⟩
          · have hm' : newestLE (mergeAll (pendingSource t :: d.lsm.sources)) e.key t.readTs = some e := by
              rw [newestLE_mergeAll hsrcs, hflat, ← C01_reach_get_spec R']; exact hg
            exact (newestLE_some_mem hm').1
          · simp only [seekKeyOf, hpfx]; cases e.key <;> simp [cmpBytes]
          · intro y _ _ _; simp
  · have hvp : ∀ l : List Ent, validPrefix io l = l := by
      intro l; unfold validPrefix
      simp only [hpk, hpfx, Bool.false_eq_true, if_false, List.isPrefixOf]
      induction l with
      | nil => rfl
      | cons a l ih => simp [ih]
    rw [hvp]
    exact C05_exactly_once_fwd _ hmerged _ _ _ _ _

end Badger
