import BadgerProofs.Props.C26
import BadgerProofs.Lemmas.LsmInv
/-!
# C26 ↔ the LSM invariant of `Lemmas/LsmInv.lean`
`SwLevelOk` (C26.lean) is `LevelOk` (the C14 shape used by C01/C12/C14) spelled out; this module
restates `C26_levels_valid` with `LevelOk`. Kept separate so that `Props/C26.lean` does not
depend on `LsmInv.lean`.
-/
namespace Badger

theorem swLevelOk_iff_levelOk (i : Nat) (tbls : List Tbl) : SwLevelOk i tbls ↔ LevelOk i tbls := by
  unfold SwLevelOk LevelOk TblOk KeyDisjoint
  exact Iff.rfl

/-- `C26_levels_valid` in terms of `LevelOk`. -/
theorem C26_levels_valid_LevelOk (d : Db) (st0 st : SwState) (bufs : List (List SKV)) (sizes ids : List Nat)
    (d' : Db) (valid : Bool) (h0 : SwFresh d st0) (hin : SwInputOk bufs.flatten)
    (hempty : d.lsm.levels.getD (swTarget d st0) [] = [])
    (hdata : dataEnts bufs.flatten ≠ [])
    (hw : d.swWriteAll st0 bufs = (st, .ok)) (hf : d.swFlush st sizes ids = some (d', valid)) :
    LevelOk (swTarget d st0) (d'.lsm.levels.getD (swTarget d st0) []) :=
  (swLevelOk_iff_levelOk _ _).mp (C26_levels_valid d st0 st bufs sizes ids d' valid h0 hin hempty hdata hw hf).1

end Badger
