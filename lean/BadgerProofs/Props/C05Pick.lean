import BadgerModel.IterPick
import BadgerProofs.Props.C05
import BadgerProofs.Lemmas.LsmInv
/-!
# C05 (table picking) — `pickTable`/`pickTables` drop only tables that cannot matter

Model: `BadgerModel/IterPick.lean`. Results:

* `C05_pickTable_complete`: a level-0 table that is not picked contains no *relevant* entry
  (inside the window `since < ver ≤ readTs`, acceptable to `Valid()`: has the prefix, or for a
  key iterator *is* the key) — entries with `ver = SinceTs` stay in a picked table but are
  hidden by `parseItem` anyway;
* `C05_pickTables_eq_filter`: on a well-formed level (non-empty tables, disjoint ascending key
  ranges — `LevelOk`, C14) the two `sort.Search` binary searches, the bloom loop and the
  `SinceTs` filter select exactly `tables.filter pickTable` — in particular
  `C05_pickTables_complete`; `compareToPrefix`'s truncation is monotone in the key
  (`cmpBytes_take_mono`), also for keys shorter than the prefix, so the searches never skip a
  table holding a prefixed key: no finding here;
* `C05_iteratePicked_eq`: under `LsmInv`, a sound bloom answer and the side conditions below,
  `Db.iteratePicked = Db.iterate`, for forward, reverse, `AllVersions` and key iterators.

Side conditions of the equality (`PickOk`): the seek key has the prefix (always true for
`Rewind` and for an empty prefix), and for a REVERSE key iterator the seek key is the key
itself. Outside them the two really differ, because a non-picked table can hold the entry the
unfiltered scan would stop at (`Valid()` false) or pass over:
* forward, `Seek(k)` with `k` below the prefix range: the full scan stops at once at a
  non-prefixed visible key (no prefix ⇒ `parseItem` returns), the picked one may not contain
  that key and continue into the prefix range;
* reverse, `Seek(k)` with `k` above the prefix range (and not of the form `prefix…`): the full
  scan yields a non-prefixed key first and `Valid()` fails, the picked one may start inside
  the prefix range;
* reverse key iterator seeking above the key: a table the bloom filter excludes may hold
  `key ++ suffix`, which the full scan yields first.
The real code is `iteratePicked`; these cases are model-vs-model differences, not defects.
-/
namespace Badger

/-! ## byte-order helpers -/

theorem cmpBytes_lt_of_le_of_lt {a b c : Bytes} (h1 : cmpBytes a b ≠ .gt) (h2 : cmpBytes b c = .lt) :
    cmpBytes a c = .lt := by
  cases hab : cmpBytes a b with
  | gt => exact absurd hab h1
  | eq => rw [(cmpBytes_eq_iff _ _).mp hab]; exact h2
  | lt => exact cmpBytes_lt_trans hab h2

theorem cmpBytes_lt_of_lt_of_le {a b c : Bytes} (h1 : cmpBytes a b = .lt) (h2 : cmpBytes b c ≠ .gt) :
    cmpBytes a c = .lt := by
  cases hbc : cmpBytes b c with
  | gt => exact absurd hbc h2
  | eq => rw [← (cmpBytes_eq_iff _ _).mp hbc]; exact h1
  | lt => exact cmpBytes_lt_trans h1 hbc

/-- truncation to a fixed length is monotone for the byte order -/
theorem cmpBytes_take_mono (n : Nat) (a b : Bytes) (h : cmpBytes a b ≠ .gt) :
    cmpBytes (a.take n) (b.take n) ≠ .gt := by
  induction n generalizing a b with
  | zero => simp [cmpBytes]
  | succ n ih =>
    cases a with
    | nil => cases b <;> simp [cmpBytes]
    | cons x xs =>
      cases b with
      | nil => simp [cmpBytes] at h
      | cons y ys =>
        simp only [List.take_succ_cons, cmpBytes] at h ⊢
        split
        · simp
        · split
          · rename_i h1 h2; rw [if_neg h1, if_pos h2] at h; exact absurd rfl h
          · rename_i h1 h2; rw [if_neg h1, if_neg h2] at h; exact ih xs ys h

theorem take_of_isPrefixOf {p k : Bytes} (h : p.isPrefixOf k = true) : k.take p.length = p := by
  induction p generalizing k with
  | nil => simp
  | cons x xs ih =>
    cases k with
    | nil => simp at h
    | cons y ys =>
      simp only [List.isPrefixOf_cons_cons, Bool.and_eq_true, beq_iff_eq] at h
      simp [h.1, ih h.2]

theorem compareToPrefix_of_prefix {p k : Bytes} (h : p.isPrefixOf k = true) :
    compareToPrefix p k = .eq := by
  unfold compareToPrefix; rw [take_of_isPrefixOf h, cmpBytes_refl]

/-- a key at or below a key whose truncation is below the prefix does not have the prefix -/
theorem no_prefix_of_le_of_cmp_lt {p a b : Bytes} (hab : cmpBytes a b ≠ .gt)
    (hb : compareToPrefix p b = .lt) : p.isPrefixOf a = false := by
  cases h : p.isPrefixOf a with
  | false => rfl
  | true =>
    have h1 := cmpBytes_take_mono p.length a b hab
    rw [take_of_isPrefixOf h] at h1
    unfold compareToPrefix at hb
    exact absurd ((cmpBytes_gt_iff_lt _ _).mpr hb) h1

theorem no_prefix_of_ge_of_cmp_gt {p a s : Bytes} (hsa : cmpBytes s a ≠ .gt)
    (hs : compareToPrefix p s = .gt) : p.isPrefixOf a = false := by
  cases h : p.isPrefixOf a with
  | false => rfl
  | true =>
    have h1 := cmpBytes_take_mono p.length s a hsa
    rw [take_of_isPrefixOf h] at h1
    unfold compareToPrefix at hs
    exact absurd hs h1

/-- monotonicity of `compareToPrefix` results along the key order -/
theorem compareToPrefix_gt_mono {p a b : Bytes} (hab : cmpBytes a b ≠ .gt)
    (ha : compareToPrefix p a = .gt) : compareToPrefix p b = .gt := by
  unfold compareToPrefix at *
  have h1 := cmpBytes_take_mono p.length a b hab
  have : cmpBytes p (b.take p.length) = .lt :=
    cmpBytes_lt_of_lt_of_le ((cmpBytes_gt_iff_lt _ _).mp ha) h1
  exact (cmpBytes_gt_iff_lt _ _).mpr this

theorem compareToPrefix_lt_mono {p a b : Bytes} (hab : cmpBytes a b ≠ .gt)
    (hb : compareToPrefix p b = .lt) : compareToPrefix p a = .lt := by
  unfold compareToPrefix at *
  exact cmpBytes_lt_of_le_of_lt (cmpBytes_take_mono p.length a b hab) hb

theorem prefix_le {p k : Bytes} (h : p.isPrefixOf k = true) : cmpBytes p k ≠ .gt := by
  induction p generalizing k with
  | nil => cases k <;> simp [cmpBytes]
  | cons x xs ih =>
    cases k with
    | nil => simp at h
    | cons y ys =>
      simp only [List.isPrefixOf_cons_cons, Bool.and_eq_true, beq_iff_eq] at h
      simp only [cmpBytes, h.1, Nat.lt_irrefl, if_false]
      exact ih h.2

/-! ## tables -/

theorem le_maxVersion (t : Tbl) : ∀ e ∈ t.ents, e.ver ≤ t.maxVersion := by
  unfold Tbl.maxVersion
  have : ∀ (l : List Ent) (m : Nat), m ≤ l.foldl (fun m e => max m e.ver) m ∧
      ∀ e ∈ l, e.ver ≤ l.foldl (fun m e => max m e.ver) m := by
    intro l
    induction l with
    | nil => intro m; exact ⟨Nat.le_refl _, fun e he => by cases he⟩
    | cons x xs ih =>
      intro m
      obtain ⟨h1, h2⟩ := ih (max m x.ver)
      refine ⟨by simp only [List.foldl_cons]; omega, ?_⟩
      intro e he
      simp only [List.foldl_cons]
      rcases List.mem_cons.mp he with rfl | he
      · omega
      · exact h2 e he
  exact (this t.ents 0).2

/-- in a sorted table every user key lies between `Smallest` and `Biggest` -/
theorem key_bounds {t : Tbl} (hs : SortedEnts t.ents) (e : Ent) (he : e ∈ t.ents) :
    cmpBytes t.smallestKey e.key ≠ .gt ∧ cmpBytes e.key t.biggestKey ≠ .gt := by
  constructor
  · unfold Tbl.smallestKey Tbl.smallest
    cases hl : t.ents with
    | nil => rw [hl] at he; cases he
    | cons a r =>
      rw [hl] at he hs
      simp only [List.head?_cons]
      rcases List.mem_cons.mp he with rfl | he
      · rw [cmpBytes_refl]; simp
      · exact entCmp_lt_key_le (hs.head_lt e he)
  · unfold Tbl.biggestKey Tbl.biggest
    cases hb : t.ents.getLast? with
    | none =>
      have : t.ents = [] := by simpa using hb
      rw [this] at he; cases he
    | some b =>
      obtain ⟨ys, hl⟩ := List.getLast?_eq_some_iff.mp hb
      rw [hl] at he hs
      simp only
      rcases List.mem_append.mp he with h | h
      · have := (sortedEnts_append.mp hs).2.2 e h b (by simp)
        exact entCmp_lt_key_le this
      · simp at h; rw [h, cmpBytes_refl]; simp


/-! ## relevance -/

/-- what `Valid()` requires of a key -/
def vpOk (o : IterOpts) (k : Bytes) : Bool :=
  if o.prefixIsKey then k == o.prefix_ else o.prefix_.isPrefixOf k

/-- the entries a scan with options `o` at `readTs` can yield or be influenced by: inside the
    version window and acceptable to `Valid()` -/
def relevant (o : IterOpts) (readTs : Nat) (e : Ent) : Bool :=
  inWindow readTs o.sinceTs e && vpOk o e.key

theorem vpOk_prefix {o : IterOpts} {k : Bytes} (h : vpOk o k = true) : o.prefix_.isPrefixOf k = true := by
  unfold vpOk at h
  split at h
  · have : k = o.prefix_ := by simpa using h
    rw [this]; simp
  · exact h

/-- `dnh` has no false negatives for the key `o.prefix_` -/
def BloomSound (o : IterOpts) (dnh : Tbl → Bool) : Prop :=
  ∀ t, dnh t = true → ∀ e ∈ t.ents, e.key ≠ o.prefix_

/-- **`pickTable` is complete**: a table that is not picked holds no relevant entry. -/
theorem C05_pickTable_complete (o : IterOpts) (dnh : Tbl → Bool) (readTs : Nat) (t : Tbl)
    (hs : SortedEnts t.ents) (hb : BloomSound o dnh) (hp : pickTable o dnh t = false) :
    ∀ e ∈ t.ents, relevant o readTs e = false := by
  intro e he
  unfold pickTable at hp
  unfold relevant
  split at hp
  · -- MaxVersion < SinceTs: every version is ≤ SinceTs − 1, outside the window
    rename_i hlt
    have := le_maxVersion t e he
    have hw : inWindow readTs o.sinceTs e = false := by
      simp only [inWindow, Bool.and_eq_false_iff, decide_eq_false_iff_not, Bool.or_eq_false_iff,
        beq_eq_false_iff_ne]
      right; constructor <;> omega
    simp [hw]
  split at hp
  · cases hp
  have hnp : vpOk o e.key = false := by
    obtain ⟨hlo, hhi⟩ := key_bounds hs e he
    split at hp
    · rename_i h; simp only [beq_iff_eq] at h
      cases hv : vpOk o e.key with
      | false => rfl
      | true => exact absurd (vpOk_prefix hv) (by simp [no_prefix_of_ge_of_cmp_gt hlo h])
    split at hp
    · rename_i h; simp only [beq_iff_eq] at h
      cases hv : vpOk o e.key with
      | false => rfl
      | true => exact absurd (vpOk_prefix hv) (by simp [no_prefix_of_le_of_cmp_lt hhi h])
    split at hp
    · rename_i h
      simp only [Bool.and_eq_true] at h
      unfold vpOk
      simp only [h.1, if_true, beq_eq_false_iff_ne]
      exact hb t h.2 e he
    · cases hp
  simp [hnp]


/-! ## `sort.Search` -/

theorem sortSearch_go_spec (n : Nat) (f : Nat → Bool)
    (hmono : ∀ i j, i ≤ j → j < n → f i = true → f j = true) :
    ∀ fuel i j, i ≤ j → j ≤ n → j - i ≤ fuel → (∀ k, k < i → f k = false) →
      (∀ k, j ≤ k → k < n → f k = true) →
      i ≤ sortSearch.go f fuel i j ∧ sortSearch.go f fuel i j ≤ j ∧
      (∀ k, k < sortSearch.go f fuel i j → f k = false) ∧
      (∀ k, sortSearch.go f fuel i j ≤ k → k < n → f k = true) := by
  intro fuel
  induction fuel with
  | zero =>
    intro i j hij hjn hf hlo hhi
    have : i = j := by omega
    subst this
    simp only [sortSearch.go]
    exact ⟨Nat.le_refl _, Nat.le_refl _, hlo, hhi⟩
  | succ fuel ih =>
    intro i j hij hjn hf hlo hhi
    unfold sortSearch.go
    by_cases hlt : i < j
    · simp only [hlt, if_true]
      have hh1 : i ≤ (i + j) / 2 := by omega
      have hh2 : (i + j) / 2 < j := by omega
      cases hfh : f ((i + j) / 2) with
      | false =>
        simp only [Bool.not_false, if_true]
        have := ih ((i + j) / 2 + 1) j (by omega) hjn (by omega)
          (by
            intro k hk
            cases hfk : f k with
            | false => rfl
            | true => rw [hmono k ((i + j) / 2) (by omega) (by omega) hfk] at hfh; cases hfh)
          hhi
        exact ⟨by omega, this.2.1, this.2.2.1, this.2.2.2⟩
      | true =>
        simp only [Bool.not_true, Bool.false_eq_true, if_false]
        have := ih i ((i + j) / 2) hh1 (by omega) (by omega) hlo
          (by intro k hk hkn; exact hmono _ k hk hkn hfh)
        exact ⟨this.1, by omega, this.2.2.1, this.2.2.2⟩
    · have : i = j := by omega
      subst this
      simp only [Nat.lt_irrefl, if_false]
      exact ⟨Nat.le_refl _, Nat.le_refl _, hlo, hhi⟩

theorem sortSearch_spec (n : Nat) (f : Nat → Bool)
    (hmono : ∀ i j, i ≤ j → j < n → f i = true → f j = true) :
    sortSearch n f ≤ n ∧ (∀ k, k < sortSearch n f → f k = false) ∧
    (∀ k, sortSearch n f ≤ k → k < n → f k = true) := by
  have := sortSearch_go_spec n f hmono n 0 n (Nat.zero_le _) (Nat.le_refl _) (by omega)
    (by intro k hk; omega) (by intro k hk hkn; omega)
  exact ⟨this.2.1, this.2.2.1, this.2.2.2⟩

/-- on a list along which `F` is monotone, `sort.Search` finds the length of the `¬F` prefix -/
theorem sortSearch_list {α : Type} (l : List α) (d : α) (F : α → Bool)
    (hF : l.Pairwise (fun a b => F a = true → F b = true)) :
    sortSearch l.length (fun i => F (l.getD i d)) = (l.takeWhile (fun t => !F t)).length := by
  have hmono : ∀ i j, i ≤ j → j < l.length → F (l.getD i d) = true → F (l.getD j d) = true := by
    intro i j hij hj hfi
    rcases Nat.eq_or_lt_of_le hij with rfl | hlt
    · exact hfi
    · have hi : i < l.length := by omega
      rw [List.getD_eq_getElem?_getD, List.getElem?_eq_getElem hi] at hfi
      rw [List.getD_eq_getElem?_getD, List.getElem?_eq_getElem hj]
      exact (List.pairwise_iff_getElem.mp hF) i j hi hj hlt hfi
  obtain ⟨h1, h2, h3⟩ := sortSearch_spec l.length _ hmono
  -- properties of the takeWhile length
  have tw : ∀ (l : List α), (∀ k, k < (l.takeWhile (fun t => !F t)).length → F (l.getD k d) = false) ∧
      ((l.takeWhile (fun t => !F t)).length ≤ l.length) ∧
      ((l.takeWhile (fun t => !F t)).length < l.length →
        F (l.getD (l.takeWhile (fun t => !F t)).length d) = true) := by
    intro l
    induction l with
    | nil => simp
    | cons a r ih =>
      cases hfa : F a with
      | true => simp [hfa]
      | false =>
        simp only [List.takeWhile_cons, hfa, Bool.not_false, if_true, List.length_cons]
        obtain ⟨i1, i2, i3⟩ := ih
        refine ⟨?_, by omega, ?_⟩
        · intro k hk
          cases k with
          | zero => simpa using hfa
          | succ k => simpa using i1 k (by omega)
        · intro h; simpa using i3 (by omega)
  obtain ⟨t1, t2, t3⟩ := tw l
  generalize (l.takeWhile (fun t => !F t)).length = m at *
  generalize sortSearch l.length (fun i => F (l.getD i d)) = r at *
  rcases Nat.lt_trichotomy r m with h | h | h
  · have := t1 r h
    rw [h3 r (Nat.le_refl _) (by omega)] at this; cases this
  · exact h
  · have := t3 (by omega)
    rw [h2 m h] at this; cases this

theorem drop_length_takeWhile {α : Type} (p : α → Bool) (l : List α) :
    l.drop (l.takeWhile p).length = l.dropWhile p := by
  induction l with
  | nil => rfl
  | cons a r ih =>
    simp only [List.takeWhile_cons, List.dropWhile_cons]
    split <;> simp [ih]

theorem take_length_takeWhile {α : Type} (p : α → Bool) (l : List α) :
    l.take (l.takeWhile p).length = l.takeWhile p := by
  induction l with
  | nil => rfl
  | cons a r ih =>
    simp only [List.takeWhile_cons]
    split <;> simp [ih]

/-- `dropWhile` by a prefix-closed predicate on a pairwise-related list is a filter -/
theorem dropWhile_eq_filter {α : Type} (p : α → Bool) (l : List α)
    (h : l.Pairwise (fun a b => p b = true → p a = true)) :
    l.dropWhile p = l.filter (fun x => !p x) := by
  induction l with
  | nil => rfl
  | cons a r ih =>
    rw [List.pairwise_cons] at h
    simp only [List.dropWhile_cons, List.filter_cons]
    cases hpa : p a with
    | true => simp [ih h.2]
    | false =>
      simp only [Bool.false_eq_true, if_false, Bool.not_false, if_true, List.cons.injEq, true_and]
      symm
      rw [List.filter_eq_self]
      intro x hx
      cases hpx : p x with
      | false => rfl
      | true => rw [h.1 x hx hpx] at hpa; cases hpa

theorem takeWhile_eq_filter {α : Type} (p : α → Bool) (l : List α)
    (h : l.Pairwise (fun a b => p b = true → p a = true)) :
    l.takeWhile p = l.filter p := by
  induction l with
  | nil => rfl
  | cons a r ih =>
    rw [List.pairwise_cons] at h
    simp only [List.takeWhile_cons, List.filter_cons]
    cases hpa : p a with
    | true => simp [ih h.2]
    | false =>
      simp only [Bool.false_eq_true, if_false]
      symm
      rw [List.filter_eq_nil_iff]
      intro x hx hpx
      rw [h.1 x hx hpx] at hpa; cases hpa

/-! ## `pickTables` on a well-formed level is the filter by `pickTable` -/

theorem biggestKey_mem {t : Tbl} (h : t.ents ≠ []) : ∃ e ∈ t.ents, e.key = t.biggestKey := by
  unfold Tbl.biggestKey Tbl.biggest
  cases hb : t.ents.getLast? with
  | none => exact absurd (by simpa using hb) h
  | some b => exact ⟨b, List.mem_of_getLast? hb, rfl⟩

theorem smallestKey_mem {t : Tbl} (h : t.ents ≠ []) : ∃ e ∈ t.ents, e.key = t.smallestKey := by
  unfold Tbl.smallestKey Tbl.smallest
  cases hl : t.ents with
  | nil => exact absurd hl h
  | cons a r => exact ⟨a, List.mem_cons_self .., rfl⟩

theorem C05_pickTables_eq_filter (o : IterOpts) (dnh : Tbl → Bool) (tbls : List Tbl)
    (hne : ∀ t ∈ tbls, t.ents ≠ []) (hd : KeyDisjoint tbls) :
    pickTables o dnh tbls = tbls.filter (pickTable o dnh) := by
  -- the order of `Biggest` / `Smallest` along the level
  have hbig : tbls.Pairwise (fun a b => cmpBytes a.biggestKey b.biggestKey ≠ .gt) := by
    refine List.Pairwise.imp_of_mem ?_ hd
    intro a b ha hb hab
    obtain ⟨x, hx, hxk⟩ := biggestKey_mem (hne a ha)
    obtain ⟨y, hy, hyk⟩ := biggestKey_mem (hne b hb)
    rw [← hxk, ← hyk, hab x hx y hy]; simp
  have hsmall : tbls.Pairwise (fun a b => cmpBytes a.smallestKey b.smallestKey ≠ .gt) := by
    refine List.Pairwise.imp_of_mem ?_ hd
    intro a b ha hb hab
    obtain ⟨x, hx, hxk⟩ := smallestKey_mem (hne a ha)
    obtain ⟨y, hy, hyk⟩ := smallestKey_mem (hne b hb)
    rw [← hxk, ← hyk, hab x hx y hy]; simp
  have hsince : ∀ l : List Tbl, filterSince o l = l.filter (fun t => !decide (t.maxVersion < o.sinceTs)) := by
    intro l
    unfold filterSince
    split
    · rfl
    · rename_i h
      have h0 : o.sinceTs = 0 := by omega
      symm; rw [List.filter_eq_self]
      intro t _; simp [h0]
  unfold pickTables
  by_cases hpe : o.prefix_.isEmpty = true
  · simp only [hpe, if_true, hsince]
    apply List.filter_congr
    intro t _
    unfold pickTable
    by_cases hlt : t.maxVersion < o.sinceTs <;> simp [hlt, hpe]
  · simp only [hpe, Bool.false_eq_true, if_false]
    -- F1: Biggest is not below the prefix; monotone along the level
    have hF1 : tbls.Pairwise (fun a b =>
        (compareToPrefix o.prefix_ a.biggestKey != .lt) = true →
        (compareToPrefix o.prefix_ b.biggestKey != .lt) = true) := by
      refine hbig.imp ?_
      intro a b hab ha
      simp only [bne_iff_ne, ne_eq] at ha ⊢
      exact fun hb => ha (compareToPrefix_lt_mono hab hb)
    rw [sortSearch_list tbls { ents := [] } (fun t => compareToPrefix o.prefix_ t.biggestKey != .lt) hF1]
    have hdrop : tbls.drop (tbls.takeWhile (fun t => !(compareToPrefix o.prefix_ t.biggestKey != .lt))).length =
        tbls.filter (fun t => compareToPrefix o.prefix_ t.biggestKey != .lt) := by
      rw [drop_length_takeWhile, dropWhile_eq_filter]
      · apply List.filter_congr; intro t _; simp
      · refine hF1.imp ?_
        intro a b hab hb
        cases ha : (compareToPrefix o.prefix_ a.biggestKey != .lt) with
        | false => rfl
        | true => rw [hab ha] at hb; simp at hb
    -- the final filter in terms of `pickTable`
    have hfinal : ∀ t, pickTable o dnh t =
        ((compareToPrefix o.prefix_ t.biggestKey != .lt) &&
         ((compareToPrefix o.prefix_ t.smallestKey != .gt) && !(o.prefixIsKey && dnh t)) &&
         !decide (t.maxVersion < o.sinceTs)) := by
      intro t
      unfold pickTable
      by_cases hlt : t.maxVersion < o.sinceTs
      · simp [hlt]
      · simp only [hlt, if_false, hpe, Bool.false_eq_true, decide_false, Bool.not_false, Bool.and_true]
        cases compareToPrefix o.prefix_ t.smallestKey <;> cases compareToPrefix o.prefix_ t.biggestKey <;>
          cases (o.prefixIsKey && dnh t) <;> rfl
    by_cases hall : ((tbls.takeWhile (fun t => !(compareToPrefix o.prefix_ t.biggestKey != .lt))).length == tbls.length) = true
    · -- nothing reaches the prefix: every table is below it
      simp only [hall, if_true]
      have hlen : (tbls.takeWhile (fun t => !(compareToPrefix o.prefix_ t.biggestKey != .lt))).length = tbls.length := by
        simpa using hall
      have : tbls.filter (fun t => compareToPrefix o.prefix_ t.biggestKey != .lt) = [] := by
        rw [← hdrop, hlen, List.drop_length]
      symm
      rw [List.filter_eq_nil_iff]
      intro t ht
      have := (List.filter_eq_nil_iff.mp this) t ht
      rw [hfinal]; simp only [Bool.not_eq_true] at this; simp [this]
    · simp only [hall, Bool.false_eq_true, if_false, hdrop]
      have hsub : (tbls.filter (fun t => compareToPrefix o.prefix_ t.biggestKey != .lt)).Sublist tbls :=
        List.filter_sublist
      have hG : (tbls.filter (fun t => compareToPrefix o.prefix_ t.biggestKey != .lt)).Pairwise (fun a b =>
          (compareToPrefix o.prefix_ a.smallestKey == .gt) = true →
          (compareToPrefix o.prefix_ b.smallestKey == .gt) = true) := by
        refine (hsmall.sublist hsub).imp ?_
        intro a b hab ha
        simp only [beq_iff_eq] at ha ⊢
        exact compareToPrefix_gt_mono hab ha
      have hGn : (tbls.filter (fun t => compareToPrefix o.prefix_ t.biggestKey != .lt)).Pairwise (fun a b =>
          (compareToPrefix o.prefix_ b.smallestKey != .gt) = true →
          (compareToPrefix o.prefix_ a.smallestKey != .gt) = true) := by
        refine hG.imp ?_
        intro a b hab hb
        cases ha : (compareToPrefix o.prefix_ a.smallestKey == .gt) with
        | false => simp [bne, ha]
        | true => have := hab ha; simp [bne, this] at hb
      by_cases hik : o.prefixIsKey = true
      · simp only [hik, Bool.not_true, Bool.false_eq_true, if_false, hsince]
        rw [takeWhile_eq_filter _ _ hGn]
        simp only [List.filter_filter]
        apply List.filter_congr
        intro t _
        rw [hfinal, hik]
        cases (compareToPrefix o.prefix_ t.biggestKey != .lt) <;>
          cases (compareToPrefix o.prefix_ t.smallestKey != .gt) <;> cases dnh t <;>
          cases (decide (t.maxVersion < o.sinceTs)) <;> rfl
      · have hik' : o.prefixIsKey = false := by simpa using hik
        simp only [hik', Bool.not_false, if_true, hsince]
        have hss := sortSearch_list _ ({ ents := [] } : Tbl)
          (fun t : Tbl => compareToPrefix o.prefix_ t.smallestKey == .gt) hG
        rw [hss, take_length_takeWhile]
        have : (fun t : Tbl => !(compareToPrefix o.prefix_ t.smallestKey == .gt)) =
            (fun t : Tbl => compareToPrefix o.prefix_ t.smallestKey != .gt) := rfl
        rw [this, takeWhile_eq_filter _ _ hGn]
        simp only [List.filter_filter]
        apply List.filter_congr
        intro t _
        rw [hfinal, hik']
        cases (compareToPrefix o.prefix_ t.biggestKey != .lt) <;>
          cases (compareToPrefix o.prefix_ t.smallestKey != .gt) <;>
          cases (decide (t.maxVersion < o.sinceTs)) <;> rfl


/-! ## filters commute with merges -/

/-- a predicate that does not distinguish the copies of one internal key -/
def SlotPred (p : Ent → Bool) : Prop := ∀ a b : Ent, a.key = b.key → a.ver = b.ver → p a = p b

theorem filter_head_ge {p : Ent → Bool} {y : Ent} {ys : List Ent} (hs : SortedEnts (y :: ys))
    (x : Ent) (hx : entCmp x y = .lt) :
    ∀ z ∈ (y :: ys).filter p, entCmp x z = .lt := by
  intro z hz
  have hzm := (List.mem_filter.mp hz).1
  rcases List.mem_cons.mp hzm with rfl | hz'
  · exact hx
  · exact entCmp_lt_trans hx (hs.head_lt z hz')

theorem merge2_cons_all_lt (x : Ent) (xs l : List Ent) (h : ∀ z ∈ l, entCmp x z = .lt) :
    merge2 (x :: xs) l = x :: merge2 xs l := by
  cases l with
  | nil => cases xs <;> simp
  | cons z zs => rw [merge2, h z (List.mem_cons_self ..)]

theorem merge2_all_gt_cons (y : Ent) (ys l : List Ent) (h : ∀ z ∈ l, entCmp z y = .gt) :
    merge2 l (y :: ys) = y :: merge2 l ys := by
  cases l with
  | nil => simp
  | cons z zs => rw [merge2, h z (List.mem_cons_self ..)]

theorem filter_merge2 (p : Ent → Bool) (hp : SlotPred p) (a b : List Ent)
    (ha : SortedEnts a) (hb : SortedEnts b) :
    (merge2 a b).filter p = merge2 (a.filter p) (b.filter p) := by
  fun_induction merge2 a b with
  | case1 ys => simp
  | case2 xs h =>
    cases hf : xs.filter p with
    | nil => simp
    | cons z zs => simp
  | case3 x xs y ys hlt ih =>
    rw [List.filter_cons (x := x) (xs := merge2 xs (y :: ys)), ih ha.tail hb, List.filter_cons (x := x) (xs := xs)]
    by_cases hpx : p x = true
    · simp only [hpx, if_true]
      rw [merge2_cons_all_lt x _ _ (filter_head_ge hb x hlt)]
    · simp only [hpx, Bool.false_eq_true, if_false]
  | case4 x xs y ys heq ih =>
    obtain ⟨hk, hv⟩ := (entCmp_eq_iff x y).mp heq
    have hpxy := hp x y hk hv
    rw [List.filter_cons (x := x) (xs := merge2 xs ys), ih ha.tail hb.tail, List.filter_cons (x := x) (xs := xs),
      List.filter_cons (x := y) (xs := ys), ← hpxy]
    by_cases hpx : p x = true
    · simp only [hpx, if_true]
      rw [merge2, heq]
    · simp only [hpx, Bool.false_eq_true, if_false]
  | case5 x xs y ys hgt ih =>
    rw [List.filter_cons (x := y) (xs := merge2 (x :: xs) ys), ih ha hb.tail, List.filter_cons (x := y) (xs := ys)]
    by_cases hpy : p y = true
    · simp only [hpy, if_true]
      rw [merge2_all_gt_cons y _ _]
      intro z hz
      have hyx : entCmp y x = .lt := (entCmp_gt_iff_lt _ _).mp hgt
      exact (entCmp_gt_iff_lt _ _).mpr (filter_head_ge ha y hyx z hz)
    · simp only [hpy, Bool.false_eq_true, if_false]

theorem filter_mergeAll (p : Ent → Bool) (hp : SlotPred p) (srcs : List (List Ent))
    (hs : ∀ s ∈ srcs, SortedEnts s) :
    (mergeAll srcs).filter p = mergeAll (srcs.map (·.filter p)) := by
  induction srcs with
  | nil => rfl
  | cons s rest ih =>
    have hrest : ∀ s' ∈ rest, SortedEnts s' := fun s' h => hs s' (List.mem_cons_of_mem _ h)
    rw [mergeAll_cons, List.map_cons, mergeAll_cons,
      filter_merge2 p hp _ _ (hs s (List.mem_cons_self ..)) (mergeAll_sorted hrest), ih hrest]

/-- empty sources do not matter -/
theorem mergeAll_filter_nonempty (srcs : List (List Ent)) :
    mergeAll (srcs.filter (fun s => !s.isEmpty)) = mergeAll srcs := by
  induction srcs with
  | nil => rfl
  | cons s rest ih =>
    cases s with
    | nil => simp only [List.filter_cons, List.isEmpty_nil, Bool.not_true, Bool.false_eq_true, if_false,
        mergeAll_cons, merge2_nil_left, ih]
    | cons a r => simp only [List.filter_cons, List.isEmpty_cons, Bool.not_false, if_true, mergeAll_cons, ih]


theorem relevant_slot (o : IterOpts) (readTs : Nat) : SlotPred (relevant o readTs) := by
  intro a b hk hv
  simp only [relevant, inWindow, hk, hv]

theorem filter_flatten_map {α : Type} (p : α → Bool) (L : List (List α)) :
    L.flatten.filter p = (L.map (·.filter p)).flatten := by
  induction L with
  | nil => rfl
  | cons a r ih => simp [List.filter_append, ih]

/-- dropping tables without relevant entries does not change the relevant part of a run -/
theorem flatten_filter_pick (pick : Tbl → Bool) (g : Tbl → List Ent) (L : List Tbl)
    (h : ∀ t ∈ L, pick t = false → g t = []) :
    ((L.filter pick).map g).flatten = (L.map g).flatten := by
  induction L with
  | nil => rfl
  | cons t r ih =>
    have ihr := ih (fun x hx => h x (List.mem_cons_of_mem _ hx))
    simp only [List.filter_cons]
    cases hp : pick t with
    | true => simp [ihr]
    | false => simp [ihr, h t (List.mem_cons_self ..) hp]

theorem nonempty_filter_pick (pick : Tbl → Bool) (g : Tbl → List Ent) (L : List Tbl)
    (h : ∀ t ∈ L, pick t = false → g t = []) :
    ((L.filter pick).map g).filter (fun s => !s.isEmpty) = (L.map g).filter (fun s => !s.isEmpty) := by
  induction L with
  | nil => rfl
  | cons t r ih =>
    have ihr := ih (fun x hx => h x (List.mem_cons_of_mem _ hx))
    simp only [List.filter_cons]
    cases hp : pick t with
    | true => simp only [if_true, List.map_cons, List.filter_cons, ihr]
    | false =>
      simp only [Bool.false_eq_true, if_false, List.map_cons, List.filter_cons,
        h t (List.mem_cons_self ..) hp, List.isEmpty_nil, Bool.not_true, ihr]

theorem mem_rest_levelOk {s : Lsm} (hinv : LsmInv s) {l0 : List Tbl} {rest : List (List Tbl)}
    (hl : s.levels = l0 :: rest) :
    LevelOk 0 l0 ∧ ∀ tbls ∈ rest, ∃ i, 1 ≤ i ∧ LevelOk i tbls := by
  constructor
  · exact hinv.level (i := 0) (by rw [hl]; rfl)
  · intro tbls ht
    obtain ⟨i, hi⟩ := List.mem_iff_getElem?.mp ht
    exact ⟨i + 1, by omega, hinv.level (i := i + 1) (by rw [hl]; simpa using hi)⟩

/-- every source of a state satisfying `LsmInv` is sorted -/
theorem sources_sorted {s : Lsm} (hinv : LsmInv s) : ∀ src ∈ s.sources, SortedEnts src := by
  intro src hsrc
  unfold Lsm.sources at hsrc
  rcases List.mem_append.mp hsrc with h | h
  · rcases List.mem_cons.mp h with rfl | h
    · exact hinv.1
    · exact hinv.2.1 src (List.mem_reverse.mp h)
  · cases hl : s.levels with
    | nil => rw [hl] at h; cases h
    | cons l0 rest =>
      rw [hl] at h
      obtain ⟨h0, hr⟩ := mem_rest_levelOk hinv hl
      rcases List.mem_append.mp h with h | h
      · obtain ⟨t, ht, rfl⟩ := List.mem_map.mp h
        exact (h0.1 t (List.mem_reverse.mp ht)).2
      · obtain ⟨tbls, ht, rfl⟩ := List.mem_map.mp h
        obtain ⟨i, hi, hok⟩ := hr tbls ht
        exact LL.flatten_sorted_of_keyDisjoint (fun t ht => (hok.1 t ht).2) (hok.2 hi)

theorem pickedSources_sorted {s : Lsm} (hinv : LsmInv s) (o : IterOpts) (dnh : Tbl → Bool) :
    ∀ src ∈ s.pickedSources o dnh, SortedEnts src := by
  intro src hsrc
  unfold Lsm.pickedSources at hsrc
  rcases List.mem_append.mp hsrc with h | h
  · rcases List.mem_cons.mp h with rfl | h
    · exact hinv.1
    · exact hinv.2.1 src (List.mem_reverse.mp h)
  · cases hl : s.levels with
    | nil => rw [hl] at h; cases h
    | cons l0 rest =>
      rw [hl] at h
      obtain ⟨h0, hr⟩ := mem_rest_levelOk hinv hl
      rcases List.mem_append.mp h with h | h
      · obtain ⟨t, ht, rfl⟩ := List.mem_map.mp h
        exact (h0.1 t (List.mem_filter.mp (List.mem_reverse.mp ht)).1).2
      · obtain ⟨tbls, ht, rfl⟩ := List.mem_map.mp h
        obtain ⟨i, hi, hok⟩ := hr tbls ht
        rw [C05_pickTables_eq_filter o dnh tbls (fun t ht => (hok.1 t ht).1) (hok.2 hi)]
        exact LL.flatten_sorted_of_keyDisjoint
          (fun t ht => (hok.1 t (List.mem_filter.mp ht).1).2)
          (List.Pairwise.sublist List.filter_sublist (hok.2 hi))

/-- **the picked stream and the full stream have the same relevant entries** -/
theorem relevant_stream_eq {s : Lsm} (hinv : LsmInv s) (o : IterOpts) (dnh : Tbl → Bool) (readTs : Nat)
    (hb : BloomSound o dnh) (P : List Ent) (hP : SortedEnts P) :
    (mergeAll (P :: s.pickedSources o dnh)).filter (relevant o readTs) =
      (mergeAll (P :: s.sources)).filter (relevant o readTs) := by
  have hs1 : ∀ src ∈ P :: s.sources, SortedEnts src := by
    intro src h; rcases List.mem_cons.mp h with rfl | h
    · exact hP
    · exact sources_sorted hinv src h
  have hs2 : ∀ src ∈ P :: s.pickedSources o dnh, SortedEnts src := by
    intro src h; rcases List.mem_cons.mp h with rfl | h
    · exact hP
    · exact pickedSources_sorted hinv o dnh src h
  rw [filter_mergeAll _ (relevant_slot o readTs) _ hs1, filter_mergeAll _ (relevant_slot o readTs) _ hs2,
    ← mergeAll_filter_nonempty, ← mergeAll_filter_nonempty ((P :: s.sources).map _)]
  congr 1
  unfold Lsm.pickedSources Lsm.sources
  cases hl : s.levels with
  | nil => rfl
  | cons l0 rest =>
    obtain ⟨h0, hr⟩ := mem_rest_levelOk hinv hl
    have hL0 : (((l0.filter (pickTable o dnh)).reverse.map (·.ents)).map
          (·.filter (relevant o readTs))).filter (fun s => !s.isEmpty) =
        ((l0.reverse.map (·.ents)).map (·.filter (relevant o readTs))).filter (fun s => !s.isEmpty) := by
      have hg : ∀ t ∈ l0.reverse, pickTable o dnh t = false →
          (t.ents.filter (relevant o readTs)) = [] := by
        intro t ht hp
        rw [List.filter_eq_nil_iff]
        intro e he
        have := C05_pickTable_complete o dnh readTs t (h0.1 t (List.mem_reverse.mp ht)).2 hb hp e he
        simp [this]
      have := nonempty_filter_pick (pickTable o dnh) (fun t => t.ents.filter (relevant o readTs))
        l0.reverse hg
      rw [← List.filter_reverse, List.map_map, List.map_map]
      exact this
    have hLv : (rest.map (fun tbls => ((pickTables o dnh tbls).map (·.ents)).flatten)).map
          (·.filter (relevant o readTs)) =
        (rest.map (fun tbls => (tbls.map (·.ents)).flatten)).map (·.filter (relevant o readTs)) := by
      rw [List.map_map, List.map_map]
      apply List.map_congr_left
      intro tbls ht
      obtain ⟨i, hi, hok⟩ := hr tbls ht
      simp only [Function.comp]
      rw [C05_pickTables_eq_filter o dnh tbls (fun t ht => (hok.1 t ht).1) (hok.2 hi),
        filter_flatten_map, filter_flatten_map, List.map_map, List.map_map]
      apply flatten_filter_pick
      intro t ht hp
      simp only [Function.comp]
      rw [List.filter_eq_nil_iff]
      intro e he
      have := C05_pickTable_complete o dnh readTs t (hok.1 t ht).2 hb hp e he
      simp [this]
    simp only [List.map_cons, List.map_append, List.filter_append, List.filter_cons]
    rw [hL0, hLv]


/-! ## the output of a scan depends only on the relevant part of the stream -/

section Ext
variable {α : Type} {R : α → α → Prop}

/-- two strictly sorted lists with the same members are equal -/
theorem pairwise_ext (hirr : ∀ a, ¬ R a a) (htr : ∀ a b c, R a b → R b c → R a c)
    {l1 l2 : List α} (h1 : l1.Pairwise R) (h2 : l2.Pairwise R) (h : ∀ x, x ∈ l1 ↔ x ∈ l2) : l1 = l2 := by
  induction l1 generalizing l2 with
  | nil =>
    cases l2 with
    | nil => rfl
    | cons b r => exact absurd ((h b).mpr (List.mem_cons_self ..)) (by simp)
  | cons a r1 ih =>
    cases l2 with
    | nil => exact absurd ((h a).mp (List.mem_cons_self ..)) (by simp)
    | cons b r2 =>
      rw [List.pairwise_cons] at h1 h2
      have hab : a = b := by
        rcases List.mem_cons.mp ((h a).mp (List.mem_cons_self ..)) with e | ha
        · exact e
        · rcases List.mem_cons.mp ((h b).mpr (List.mem_cons_self ..)) with e | hb
          · exact e.symm
          · exact absurd (htr _ _ _ (h1.1 b hb) (h2.1 a ha)) (hirr a)
      subst hab
      congr 1
      apply ih h1.2 h2.2
      intro x
      constructor
      · intro hx
        rcases List.mem_cons.mp ((h x).mp (List.mem_cons_of_mem _ hx)) with e | hx'
        · subst e; exact absurd (h1.1 x hx) (hirr x)
        · exact hx'
      · intro hx
        rcases List.mem_cons.mp ((h x).mpr (List.mem_cons_of_mem _ hx)) with e | hx'
        · subst e; exact absurd (h2.1 x hx) (hirr x)
        · exact hx'

theorem takeWhile_eq_filter_mem (p : α → Bool) (l : List α) (hpw : l.Pairwise R)
    (h : ∀ a ∈ l, ∀ b ∈ l, R a b → p b = true → p a = true) : l.takeWhile p = l.filter p :=
  takeWhile_eq_filter p l (List.Pairwise.imp_of_mem (fun ha hb hab => h _ ha _ hb hab) hpw)

end Ext

/-- the side of the seek key an entry must lie on -/
def seekSide (o : IterOpts) (sk : Bytes) (x : Ent) : Prop :=
  if o.reverse then (sk.isEmpty = true ∨ cmpBytes x.key sk ≠ .gt) else cmpBytes x.key sk ≠ .lt

/-- side conditions under which table picking is invisible -/
def PickOk (o : IterOpts) (seek : Option Bytes) : Prop :=
  o.prefix_.isPrefixOf (seekKeyOf o seek) = true ∧
  (o.prefixIsKey = true → o.reverse = true → seekKeyOf o seek = o.prefix_ ∧ o.prefix_ ≠ [])

/-- what `Db.iterate` computes from the merged stream -/
def scanOut (o : IterOpts) (readTs now : Nat) (seek : Option Bytes) (M : List Ent) : List Ent :=
  validPrefix o (parseItems o readTs now (2 * (seekList M o readTs seek).length + 2) none
    (seekList M o readTs seek))

theorem validPrefix_eq (o : IterOpts) (items : List Ent) :
    validPrefix o items = items.takeWhile (fun e => vpOk o e.key) := rfl

/-- the newest in-window version of a relevant key, over the relevant part only -/
theorem newestVisible_relevant (o : IterOpts) (readTs : Nat) (M : List Ent) (k : Bytes)
    (hk : vpOk o k = true) :
    newestVisible M readTs o.sinceTs k = newestLE (M.filter (relevant o readTs)) k readTs := by
  unfold newestVisible
  apply newestLE_congr_filter
  rw [List.filter_filter, List.filter_filter]
  apply List.filter_congr
  intro x _
  unfold relevant
  by_cases hx : x.key = k
  · simp [hx, hk]
  · simp [hx]

theorem closure_fwd (o : IterOpts) (a b : Ent) (ha : o.prefix_.isPrefixOf a.key = true)
    (hab : entCmp a b = .lt) (hb : vpOk o b.key = true) : vpOk o a.key = true := by
  unfold vpOk at *
  split at hb
  · rename_i hik
    simp only [hik, if_true, beq_iff_eq] at hb ⊢
    have h1 := entCmp_lt_key_le hab
    rw [hb] at h1
    exact cmpBytes_antisymm h1 (prefix_le ha)
  · rename_i hik
    simp only [hik, Bool.false_eq_true, if_false]; exact ha

theorem closure_rev (o : IterOpts) (seek : Option Bytes) (hok : PickOk o seek) (hrev : o.reverse = true)
    (a b : Ent) (ha : (seekKeyOf o seek).isEmpty = true ∨ cmpBytes a.key (seekKeyOf o seek) ≠ .gt)
    (hba : entCmp b a = .lt) (hb : vpOk o b.key = true) : vpOk o a.key = true := by
  have hle := entCmp_lt_key_le hba
  unfold vpOk at *
  split at hb
  · rename_i hik
    obtain ⟨hsk, hne⟩ := hok.2 hik hrev
    simp only [hik, if_true, beq_iff_eq] at hb ⊢
    rcases ha with ha | ha
    · rw [hsk] at ha; exact absurd (by simpa using ha) hne
    · rw [hsk] at ha; rw [hb] at hle
      exact cmpBytes_antisymm ha hle
  · rename_i hik
    simp only [hik, Bool.false_eq_true, if_false]
    rcases ha with ha | ha
    · have : seekKeyOf o seek = [] := by simpa using ha
      have h2 := hok.1
      rw [this] at h2
      have : o.prefix_ = [] := by cases hp : o.prefix_ <;> simp_all
      rw [this]; simp
    · exact prefix_convex o.prefix_ b.key a.key (seekKeyOf o seek) hb hok.1 hle ha


theorem NoHidden.of_mem {o : IterOpts} {l l' : List Ent} (h : NoHidden o l) (hs : ∀ x ∈ l', x ∈ l) :
    NoHidden o l' := by
  rcases h with h | h
  · exact .inl h
  · exact .inr (fun x hx => h x (hs x hx))

/-- the forward seek position followed by the prefix stop, member-wise (seek key has the prefix) -/
theorem mem_seekPrefix_fwd {M : List Ent} (hs : SortedEnts M) (readTs : Nat) (pfx sk : Bytes)
    (hsk : pfx.isPrefixOf sk = true) (x : Ent) (hv : x.ver ≤ readTs) :
    x ∈ (seekFrom M false readTs sk).takeWhile (fun e => pfx.isPrefixOf e.key) ↔
      x ∈ M ∧ cmpBytes x.key sk ≠ .lt ∧ pfx.isPrefixOf x.key = true := by
  have hirr : ∀ a : Ent, ¬ entCmp a a = .lt := entCmp_lt_irrefl
  have htr : ∀ a b c : Ent, entCmp a b = .lt → entCmp b c = .lt → entCmp a c = .lt :=
    fun _ _ _ => entCmp_lt_trans
  have hcutsub : (seekFrom M false readTs sk).Sublist M := by
    unfold seekFrom
    split
    · exact List.Sublist.refl _
    · exact List.dropWhile_sublist _
  rw [mem_takeWhile_of_pairwise hirr htr (hs.sublist hcutsub), mem_seekFrom_fwd hs]
  have c2_imp_c1 : ∀ y : Ent, (sk.isEmpty = true ∨ kvCmp y.key y.ver sk readTs ≠ .lt) →
      cmpBytes y.key sk ≠ .lt := by
    intro y h hc
    rcases h with h | h
    · have : sk = [] := by simpa using h
      subst this
      cases hyk : y.key <;> rw [hyk] at hc <;> simp [cmpBytes] at hc
    · exact h ((kvCmp_lt_iff ..).mpr (.inl hc))
  constructor
  · rintro ⟨⟨hm, hc2⟩, hall⟩
    exact ⟨hm, c2_imp_c1 x hc2, hall x ((mem_seekFrom_fwd hs readTs sk x).mpr ⟨hm, hc2⟩) (.inl rfl)⟩
  · rintro ⟨hm, hc1, hp⟩
    have hc2 : sk.isEmpty = true ∨ kvCmp x.key x.ver sk readTs ≠ .lt := by
      right; intro hc
      rcases (kvCmp_lt_iff ..).mp hc with hc | hc
      · exact hc1 hc
      · omega
    refine ⟨⟨hm, hc2⟩, ?_⟩
    intro y hy hyx
    obtain ⟨hym, hyc2⟩ := (mem_seekFrom_fwd hs readTs sk y).mp hy
    apply prefix_convex pfx sk y.key x.key hsk hp (cmpBytes_ne_lt_swap (c2_imp_c1 y hyc2))
    rcases hyx with rfl | hyx
    · rw [cmpBytes_refl]; simp
    · exact entCmp_lt_key_le hyx

/-- the reverse seek position, member-wise -/
theorem mem_seekFrom_rev {M : List Ent} (hs : SortedEnts M) (readTs : Nat) (sk : Bytes) (x : Ent) :
    x ∈ seekFrom M true readTs sk ↔ x ∈ M ∧ (sk.isEmpty = true ∨ cmpBytes x.key sk ≠ .gt) := by
  rw [seekFrom_rev_eq]
  by_cases he : sk.isEmpty = true
  · simp only [he, if_true, List.mem_reverse, true_or, and_true]
  · simp only [he, Bool.false_eq_true, if_false, false_or]
    have hdesc : SortedDesc M.reverse := sortedDesc_reverse hs
    have hp : ∀ a b : Ent, entCmp b a = .lt → (cmpBytes b.key sk == .gt) = true →
        (cmpBytes a.key sk == .gt) = true := by
      intro a b hab hb
      simp only [beq_iff_eq] at hb ⊢
      have h1 := entCmp_lt_key_le hab
      rw [cmpBytes_gt_iff_lt] at hb ⊢
      cases hc : cmpBytes b.key a.key with
      | lt => exact cmpBytes_lt_trans hb hc
      | eq => rw [← (cmpBytes_eq_iff _ _).mp hc]; exact hb
      | gt => exact absurd hc h1
    rw [mem_dropWhile_of_pairwise hdesc _ hp]
    simp only [List.mem_reverse, beq_eq_false_iff_ne, ne_eq]


/-- membership in the result of a scan, as a property of the relevant part of the stream -/
def scanMem (o : IterOpts) (readTs now : Nat) (seek : Option Bytes) (W : List Ent) (x : Ent) : Prop :=
  x ∈ W ∧ seekSide o (seekKeyOf o seek) x ∧
  (o.allVersions = true ∨
    (newestLE W x.key readTs = some x ∧ deletedOrExpired x.emeta x.exp now = false))

theorem scanOut_fwd (o : IterOpts) (readTs now : Nat) (seek : Option Bytes) (M : List Ent)
    (hs : SortedEnts M) (hn : NoHidden o M) (hok : PickOk o seek) (hrev : o.reverse = false)
    (hall : o.allVersions = false) :
    SortedEnts (scanOut o readTs now seek M) ∧
    ∀ x, x ∈ scanOut o readTs now seek M ↔ scanMem o readTs now seek (M.filter (relevant o readTs)) x := by
  unfold scanOut
  rw [C05_forward M o readTs now _ seek hs hrev hall hn hok.1 (by omega), validPrefix_eq]
  have hsub : (specScanFwd M readTs o.sinceTs now o.prefix_ (seekKeyOf o seek)).Sublist M :=
    List.filter_sublist.trans ((List.takeWhile_sublist _).trans (List.dropWhile_sublist _))
  have hsp : SortedEnts (specScanFwd M readTs o.sinceTs now o.prefix_ (seekKeyOf o seek)) := hs.sublist hsub
  have hsound := (C05_sound M hs readTs o.sinceTs now o.prefix_ (seekKeyOf o seek)).1
  rw [takeWhile_eq_filter_mem (R := fun a b => entCmp a b = .lt) _ _ hsp
    (fun a ha b _ hab hb => closure_fwd o a b (hsound a ha).2.2.2.2 hab hb)]
  refine ⟨hsp.filter _, ?_⟩
  intro x
  simp only [List.mem_filter, scanMem, seekSide, hrev, hall, Bool.false_eq_true, if_false, false_or]
  constructor
  · rintro ⟨hx, hvp⟩
    obtain ⟨hm, hnew, hlive, hge, _⟩ := hsound x hx
    have hw : inWindow readTs o.sinceTs x = true :=
      (List.mem_filter.mp (newestLE_some_mem hnew).1).2
    rw [newestVisible_relevant o readTs M x.key hvp] at hnew
    exact ⟨⟨hm, by simp [relevant, hw, hvp]⟩, hge, hnew, hlive⟩
  · rintro ⟨⟨hm, hrel⟩, hge, hnew, hlive⟩
    simp only [relevant, Bool.and_eq_true] at hrel
    rw [← newestVisible_relevant o readTs M x.key hrel.2] at hnew
    exact ⟨C05_complete_fwd M hs readTs o.sinceTs now o.prefix_ _ hok.1 x hnew hlive hge
      (vpOk_prefix hrel.2), hrel.2⟩

theorem scanOut_rev (o : IterOpts) (readTs now : Nat) (seek : Option Bytes) (M : List Ent)
    (hs : SortedEnts M) (hn : NoHidden o M) (hok : PickOk o seek) (hrev : o.reverse = true)
    (hall : o.allVersions = false) :
    SortedDesc (scanOut o readTs now seek M) ∧
    ∀ x, x ∈ scanOut o readTs now seek M ↔ scanMem o readTs now seek (M.filter (relevant o readTs)) x := by
  unfold scanOut
  rw [C05_reverse M o readTs now _ seek hs hrev hall (hn.of_mem (fun x hx => List.mem_reverse.mp hx))
    (by omega), validPrefix_eq]
  have hsub : (specScanRev M readTs o.sinceTs now (seekKeyOf o seek)).Sublist M.reverse := by
    unfold specScanRev
    refine List.filter_sublist.trans ?_
    split
    · exact List.Sublist.refl _
    · exact List.dropWhile_sublist _
  have hsp : SortedDesc (specScanRev M readTs o.sinceTs now (seekKeyOf o seek)) :=
    (sortedDesc_reverse hs).sublist hsub
  have hsound := (C05_sound M hs readTs o.sinceTs now o.prefix_ (seekKeyOf o seek)).2
  rw [takeWhile_eq_filter_mem (R := fun a b => entCmp b a = .lt) _ _ hsp
    (fun a ha b _ hab hb => closure_rev o seek hok hrev a b (hsound a ha).2.2.2 hab hb)]
  refine ⟨hsp.sublist List.filter_sublist, ?_⟩
  intro x
  simp only [List.mem_filter, scanMem, seekSide, hrev, hall, Bool.false_eq_true, if_true, false_or]
  constructor
  · rintro ⟨hx, hvp⟩
    obtain ⟨hm, hnew, hlive, hle⟩ := hsound x hx
    have hw : inWindow readTs o.sinceTs x = true :=
      (List.mem_filter.mp (newestLE_some_mem hnew).1).2
    rw [newestVisible_relevant o readTs M x.key hvp] at hnew
    exact ⟨⟨hm, by simp [relevant, hw, hvp]⟩, hle, hnew, hlive⟩
  · rintro ⟨⟨hm, hrel⟩, hle, hnew, hlive⟩
    simp only [relevant, Bool.and_eq_true] at hrel
    rw [← newestVisible_relevant o readTs M x.key hrel.2] at hnew
    exact ⟨C05_complete_rev M hs readTs o.sinceTs now _ x hnew hlive hle, hrel.2⟩

theorem scanOut_all (o : IterOpts) (readTs now : Nat) (seek : Option Bytes) (M : List Ent)
    (hs : SortedEnts M) (hn : NoHidden o M) (hok : PickOk o seek) (hall : o.allVersions = true) :
    (if o.reverse then SortedDesc (scanOut o readTs now seek M) else SortedEnts (scanOut o readTs now seek M)) ∧
    ∀ x, x ∈ scanOut o readTs now seek M ↔ scanMem o readTs now seek (M.filter (relevant o readTs)) x := by
  unfold scanOut
  have hmem : ∀ x ∈ seekList M o readTs seek, x ∈ M := by
    intro x hx
    rw [seekList_eq] at hx
    unfold seekFrom at hx
    split at hx
    · split at hx
      · exact List.mem_reverse.mp hx
      · exact hx
    · split at hx
      · exact (List.dropWhile_sublist _).subset hx
      · exact List.mem_reverse.mp ((List.dropWhile_sublist _).subset hx)
  rw [C05_allversions M o readTs now _ seek hall (hn.of_mem hmem) (by omega), validPrefix_eq, seekList_eq]
  cases hrev : o.reverse with
  | false =>
    simp only [Bool.false_eq_true, if_false, specAllVersions]
    have hsub : (((seekFrom M false readTs (seekKeyOf o seek)).takeWhile
        (fun e => o.prefix_.isPrefixOf e.key)).filter (inWindow readTs o.sinceTs)).Sublist M := by
      refine List.filter_sublist.trans ((List.takeWhile_sublist _).trans ?_)
      unfold seekFrom
      split
      · exact List.Sublist.refl _
      · exact List.dropWhile_sublist _
    have hsp := hs.sublist hsub
    have hcore : ∀ x, x ∈ ((seekFrom M false readTs (seekKeyOf o seek)).takeWhile
        (fun e => o.prefix_.isPrefixOf e.key)).filter (inWindow readTs o.sinceTs) ↔
        (x ∈ M ∧ cmpBytes x.key (seekKeyOf o seek) ≠ .lt ∧ o.prefix_.isPrefixOf x.key = true) ∧
          inWindow readTs o.sinceTs x = true := by
      intro x
      rw [List.mem_filter]
      constructor
      · rintro ⟨h1, h2⟩
        exact ⟨(mem_seekPrefix_fwd hs readTs _ _ hok.1 x (inWindow_le h2)).mp h1, h2⟩
      · rintro ⟨h1, h2⟩
        exact ⟨(mem_seekPrefix_fwd hs readTs _ _ hok.1 x (inWindow_le h2)).mpr h1, h2⟩
    rw [takeWhile_eq_filter_mem (R := fun a b => entCmp a b = .lt) _ _ hsp
      (fun a ha b _ hab hb => closure_fwd o a b ((hcore a).mp ha).1.2.2 hab hb)]
    refine ⟨hsp.filter _, ?_⟩
    intro x
    rw [List.mem_filter, hcore]
    simp only [scanMem, seekSide, hrev, hall, Bool.false_eq_true, if_false, true_or, and_true,
      List.mem_filter, relevant, Bool.and_eq_true]
    constructor
    · rintro ⟨⟨⟨hm, hge, _⟩, hw⟩, hvp⟩; exact ⟨⟨hm, hw, hvp⟩, hge⟩
    · rintro ⟨⟨hm, hw, hvp⟩, hge⟩; exact ⟨⟨⟨hm, hge, vpOk_prefix hvp⟩, hw⟩, hvp⟩
  | true =>
    simp only [if_true, specAllVersions]
    have hsub : ((seekFrom M true readTs (seekKeyOf o seek)).filter (inWindow readTs o.sinceTs)).Sublist
        M.reverse := by
      refine List.filter_sublist.trans ?_
      rw [seekFrom_rev_eq]
      split
      · exact List.Sublist.refl _
      · exact List.dropWhile_sublist _
    have hsp : SortedDesc ((seekFrom M true readTs (seekKeyOf o seek)).filter (inWindow readTs o.sinceTs)) :=
      (sortedDesc_reverse hs).sublist hsub
    rw [takeWhile_eq_filter_mem (R := fun a b => entCmp b a = .lt) _ _ hsp
      (fun a ha b _ hab hb => closure_rev o seek hok hrev a b
        ((mem_seekFrom_rev hs readTs _ a).mp (List.mem_filter.mp ha).1).2 hab hb)]
    refine ⟨hsp.sublist List.filter_sublist, ?_⟩
    intro x
    simp only [List.mem_filter, mem_seekFrom_rev hs, scanMem, seekSide, hrev, hall, if_true, true_or,
      and_true, relevant, Bool.and_eq_true]
    constructor
    · rintro ⟨⟨⟨hm, hle⟩, hw⟩, hvp⟩; exact ⟨⟨hm, hw, hvp⟩, hle⟩
    · rintro ⟨⟨hm, hw, hvp⟩, hle⟩; exact ⟨⟨⟨hm, hle⟩, hw⟩, hvp⟩

/-- **the result of a scan is a function of the relevant part of the stream** -/
theorem scanOut_congr (o : IterOpts) (readTs now : Nat) (seek : Option Bytes) (M1 M2 : List Ent)
    (hs1 : SortedEnts M1) (hs2 : SortedEnts M2) (hn1 : NoHidden o M1) (hn2 : NoHidden o M2)
    (hok : PickOk o seek) (hW : M1.filter (relevant o readTs) = M2.filter (relevant o readTs)) :
    scanOut o readTs now seek M1 = scanOut o readTs now seek M2 := by
  have hasc : ∀ a b c : Ent, entCmp a b = .lt → entCmp b c = .lt → entCmp a c = .lt :=
    fun _ _ _ => entCmp_lt_trans
  cases hall : o.allVersions with
  | true =>
    obtain ⟨p1, m1⟩ := scanOut_all o readTs now seek M1 hs1 hn1 hok hall
    obtain ⟨p2, m2⟩ := scanOut_all o readTs now seek M2 hs2 hn2 hok hall
    have hm : ∀ x, x ∈ scanOut o readTs now seek M1 ↔ x ∈ scanOut o readTs now seek M2 := by
      intro x; rw [m1, m2, hW]
    cases hrev : o.reverse with
    | false =>
      simp only [hrev, Bool.false_eq_true, if_false] at p1 p2
      exact pairwise_ext entCmp_lt_irrefl hasc p1 p2 hm
    | true =>
      simp only [hrev, if_true] at p1 p2
      exact pairwise_ext (R := fun a b => entCmp b a = .lt) entCmp_lt_irrefl
        (fun a b c h1 h2 => entCmp_lt_trans h2 h1) p1 p2 hm
  | false =>
    cases hrev : o.reverse with
    | false =>
      obtain ⟨p1, m1⟩ := scanOut_fwd o readTs now seek M1 hs1 hn1 hok hrev hall
      obtain ⟨p2, m2⟩ := scanOut_fwd o readTs now seek M2 hs2 hn2 hok hrev hall
      exact pairwise_ext entCmp_lt_irrefl hasc p1 p2 (by intro x; rw [m1, m2, hW])
    | true =>
      obtain ⟨p1, m1⟩ := scanOut_rev o readTs now seek M1 hs1 hn1 hok hrev hall
      obtain ⟨p2, m2⟩ := scanOut_rev o readTs now seek M2 hs2 hn2 hok hrev hall
      exact pairwise_ext (R := fun a b => entCmp b a = .lt) entCmp_lt_irrefl
        (fun a b c h1 h2 => entCmp_lt_trans h2 h1) p1 p2 (by intro x; rw [m1, m2, hW])


theorem filterSince_sublist (o : IterOpts) (l : List Tbl) : (filterSince o l).Sublist l := by
  unfold filterSince; split
  · exact List.filter_sublist
  · exact List.Sublist.refl _

/-- `pickTables` only ever removes tables (no invariant needed) -/
theorem pickTables_sublist (o : IterOpts) (dnh : Tbl → Bool) (all : List Tbl) :
    (pickTables o dnh all).Sublist all := by
  unfold pickTables
  split
  · exact filterSince_sublist o all
  · dsimp only
    split
    · exact List.nil_sublist _
    · split
      · exact (filterSince_sublist o _).trans ((List.take_sublist _ _).trans (List.drop_sublist _ _))
      · exact (filterSince_sublist o _).trans
          (List.filter_sublist.trans ((List.takeWhile_sublist _).trans (List.drop_sublist _ _)))

theorem mem_pickedSources {s : Lsm} {o : IterOpts} {dnh : Tbl → Bool} {src : List Ent}
    (h : src ∈ s.pickedSources o dnh) : ∀ e ∈ src, ∃ src' ∈ s.sources, e ∈ src' := by
  intro e he
  unfold Lsm.pickedSources at h
  unfold Lsm.sources
  rcases List.mem_append.mp h with h | h
  · exact ⟨src, List.mem_append_left _ h, he⟩
  · cases hl : s.levels with
    | nil => rw [hl] at h; cases h
    | cons l0 rest =>
      rw [hl] at h
      simp only
      rcases List.mem_append.mp h with h | h
      · obtain ⟨t, ht, rfl⟩ := List.mem_map.mp h
        have ht' := (List.mem_filter.mp (List.mem_reverse.mp ht)).1
        exact ⟨t.ents, List.mem_append_right _ (List.mem_append_left _
          (List.mem_map.mpr ⟨t, List.mem_reverse.mpr ht', rfl⟩)), he⟩
      · obtain ⟨tbls, ht, rfl⟩ := List.mem_map.mp h
        obtain ⟨l, hl', hel⟩ := List.mem_flatten.mp he
        obtain ⟨t, htp, rfl⟩ := List.mem_map.mp hl'
        have htt := (pickTables_sublist o dnh tbls).subset htp
        exact ⟨(tbls.map (·.ents)).flatten, List.mem_append_right _ (List.mem_append_right _
          (List.mem_map.mpr ⟨tbls, ht, rfl⟩)),
          List.mem_flatten.mpr ⟨t.ents, List.mem_map.mpr ⟨t, htt, rfl⟩, hel⟩⟩

/-- no source holds an entry hidden as internal -/
def NoHiddenSrc (o : IterOpts) (srcs : List (List Ent)) : Prop :=
  o.internalAccess = true ∨ ∀ src ∈ srcs, ∀ e ∈ src, badgerPrefix.isPrefixOf e.ikey = false

theorem NoHiddenSrc.merged {o : IterOpts} {srcs : List (List Ent)} (h : NoHiddenSrc o srcs) :
    NoHidden o (mergeAll srcs) := by
  rcases h with h | h
  · exact .inl h
  · right
    intro e he
    obtain ⟨src, hsrc, hes⟩ := mem_mergeAll_imp he
    exact h src hsrc e hes

/-- **Table picking is invisible**: under `LsmInv`, a bloom answer without false negatives and
    the side conditions `PickOk` (seek key has the prefix; reverse key iterator seeks the key
    itself), the iterator over the picked tables yields exactly what the iterator over all
    sources yields — forward, reverse, `AllVersions`, key iterators, any `SinceTs`. -/
theorem C05_iteratePicked_eq (d : Db) (id : Nat) (o : IterOpts) (seek : Option Bytes) (dnh : Tbl → Bool)
    (hinv : LsmInv d.lsm) (hb : BloomSound o dnh) (hok : PickOk o seek)
    (hn : ∀ t, d.findTxn id = some t → NoHiddenSrc o (pendingSource t :: d.lsm.sources)) :
    d.iteratePicked id o seek dnh = d.iterate id o seek := by
  unfold Db.iteratePicked Db.iterate
  cases ht : d.findTxn id with
  | none => rfl
  | some t =>
    show some (scanOut o t.readTs d.now seek (mergeAll (pendingSource t :: d.lsm.pickedSources o dnh))) =
      some (scanOut o t.readTs d.now seek (mergeAll (pendingSource t :: d.lsm.sources)))
    congr 1
    have hP := pendingSource_sorted t
    have hs1 : ∀ src ∈ pendingSource t :: d.lsm.sources, SortedEnts src := by
      intro src h; rcases List.mem_cons.mp h with rfl | h
      · exact hP
      · exact sources_sorted hinv src h
    have hs2 : ∀ src ∈ pendingSource t :: d.lsm.pickedSources o dnh, SortedEnts src := by
      intro src h; rcases List.mem_cons.mp h with rfl | h
      · exact hP
      · exact pickedSources_sorted hinv o dnh src h
    have hn1 := hn t ht
    have hn2 : NoHiddenSrc o (pendingSource t :: d.lsm.pickedSources o dnh) := by
      rcases hn1 with h | h
      · exact .inl h
      · right
        intro src hsrc e he
        rcases List.mem_cons.mp hsrc with rfl | hsrc
        · exact h _ (List.mem_cons_self ..) e he
        · obtain ⟨src', hs', he'⟩ := mem_pickedSources hsrc e he
          exact h src' (List.mem_cons_of_mem _ hs') e he'
    exact scanOut_congr o t.readTs d.now seek _ _ (mergeAll_sorted hs2) (mergeAll_sorted hs1)
      hn2.merged hn1.merged hok (relevant_stream_eq hinv o dnh t.readTs hb _ hP)

/-- `pickTables` is complete: a table of a well-formed level that is not picked holds no
    relevant entry. -/
theorem C05_pickTables_complete (o : IterOpts) (dnh : Tbl → Bool) (readTs : Nat) (i : Nat)
    (tbls : List Tbl) (hi : 1 ≤ i) (hok : LevelOk i tbls) (hb : BloomSound o dnh) (t : Tbl)
    (ht : t ∈ tbls) (hnp : t ∉ pickTables o dnh tbls) :
    ∀ e ∈ t.ents, relevant o readTs e = false := by
  rw [C05_pickTables_eq_filter o dnh tbls (fun t ht => (hok.1 t ht).1) (hok.2 hi)] at hnp
  have hp : pickTable o dnh t = false := by
    cases h : pickTable o dnh t with
    | false => rfl
    | true => exact absurd (List.mem_filter.mpr ⟨ht, h⟩) hnp
  exact C05_pickTable_complete o dnh readTs t (hok.1 t ht).2 hb hp

/-- `Rewind` (and `Seek` with an empty key) always satisfies the side conditions, except for a
    reverse key iterator on the empty key. -/
theorem C05_pickOk_rewind (o : IterOpts) (seek : Option Bytes) (h : seek = none ∨ seek = some [])
    (hk : o.prefixIsKey = true → o.reverse = true → o.prefix_ ≠ []) : PickOk o seek := by
  refine ⟨C05_rewind_key o seek h, fun h1 h2 => ⟨?_, hk h1 h2⟩⟩
  rcases h with rfl | rfl <;> simp [seekKeyOf]


/-- a state with two level-0 tables `{a@1}` (older) and `{b@1}` (newer) and a read-only
    transaction at read timestamp 1 -/
def pickExDb : Db :=
  { opts := {}, nextTs := 2,
    lsm := { mem := [], imm := [],
             levels := [[{ ents := [⟨[0x61], 1, 0, 0, 0, [1]⟩], id := 1 },
                         { ents := [⟨[0x62], 1, 0, 0, 0, [2]⟩], id := 2 }], []] },
    txns := [{ id := 1, readTs := 1, update := false }] }

example : LsmInv pickExDb.lsm := by decide

theorem pickEx_streams :
    mergeAll ([] :: pickExDb.lsm.sources) =
      [⟨[0x61], 1, 0, 0, 0, [1]⟩, ⟨[0x62], 1, 0, 0, 0, [2]⟩] ∧
    mergeAll ([] :: pickExDb.lsm.pickedSources { prefix_ := [0x62] } (fun _ => false)) =
      [⟨[0x62], 1, 0, 0, 0, [2]⟩] := by
  have h1 : pickExDb.lsm.sources =
      [[], [⟨[0x62], 1, 0, 0, 0, [2]⟩], [⟨[0x61], 1, 0, 0, 0, [1]⟩], []] := by decide
  have h2 : pickExDb.lsm.pickedSources { prefix_ := [0x62] } (fun _ => false) =
      [[], [⟨[0x62], 1, 0, 0, 0, [2]⟩], []] := by decide
  rw [h1, h2]
  constructor <;> simp [mergeAll, merge2, entCmp, kvCmp, cmpBytes]

/-- **Outside the side conditions the two scans differ** (forward `Seek("a")` with prefix `"b"`):
    the unfiltered scan stops at once at `a` (no prefix), the picked scan never sees table `{a}`
    and yields `b`. The code behaves like `iteratePicked`. -/
theorem C05_pick_differs_outside :
    pickExDb.iterate 1 { prefix_ := [0x62] } (some [0x61]) = some [] ∧
    pickExDb.iteratePicked 1 { prefix_ := [0x62] } (some [0x61]) (fun _ => false) =
      some [⟨[0x62], 1, 0, 0, 0, [2]⟩] ∧
    ¬ PickOk { prefix_ := [0x62] } (some [0x61]) := by
  have e1 : pickExDb.iterate 1 { prefix_ := [0x62] } (some [0x61]) =
      some (scanOut { prefix_ := [0x62] } 1 0 (some [0x61]) (mergeAll ([] :: pickExDb.lsm.sources))) := rfl
  have e2 : pickExDb.iteratePicked 1 { prefix_ := [0x62] } (some [0x61]) (fun _ => false) =
      some (scanOut { prefix_ := [0x62] } 1 0 (some [0x61])
        (mergeAll ([] :: pickExDb.lsm.pickedSources { prefix_ := [0x62] } (fun _ => false)))) := rfl
  rw [e1, e2, pickEx_streams.1, pickEx_streams.2]
  refine ⟨by decide, by decide, ?_⟩
  simp [PickOk, seekKeyOf]

-- non-vacuity of `C05_iteratePicked_eq`: the same state, `Rewind` with prefix "b" — every
-- hypothesis holds (table `{a}` is not picked), so the two iterators agree.
example :
    pickExDb.iteratePicked 1 { prefix_ := [0x62] } none (fun _ => false) =
      pickExDb.iterate 1 { prefix_ := [0x62] } none :=
  C05_iteratePicked_eq pickExDb 1 { prefix_ := [0x62] } none (fun _ => false) (by decide)
    (fun _ h => by cases h) (C05_pickOk_rewind _ none (.inl rfl) (fun h => by cases h))
    (fun t ht => .inr (by
      have : t = { id := 1, readTs := 1, update := false } := by
        have h : pickExDb.findTxn 1 = some { id := 1, readTs := 1, update := false } := rfl
        rw [h] at ht; exact (Option.some.inj ht).symm
      subst this; decide))

example : pickTable { prefix_ := [0x62] } (fun _ => false) { ents := [⟨[0x61], 1, 0, 0, 0, [1]⟩] } = false ∧
    pickTable { prefix_ := [0x62] } (fun _ => false) { ents := [⟨[0x62, 0x00], 1, 0, 0, 0, [1]⟩] } = true ∧
    pickTable { sinceTs := 5 } (fun _ => false) { ents := [⟨[0x62], 4, 0, 0, 0, [1]⟩] } = false ∧
    pickTable { sinceTs := 5 } (fun _ => false) { ents := [⟨[0x62], 5, 0, 0, 0, [1]⟩] } = true := by decide

end Badger
