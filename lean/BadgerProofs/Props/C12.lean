import BadgerProofs.Props.C01
import BadgerProofs.Props.C14
import BadgerProofs.Lemmas.LsmReads
/-!
# C12 — flush and compaction preserve what every read returns
-/
namespace Badger

/-- (B) flushing does not change any read. `FlushOk` (no internal key shared between the memtable
    and an immutable memtable) is needed only because the model's `flush` moves `mem` past `imm`;
    it is vacuous for `imm = []`. -/
theorem C12_flush_reads {s : Lsm} (h : LsmInv s) (hf : FlushOk s) (id : Nat) (k : Bytes) (ts : Nat) :
    (s.flush id).get k ts = s.get k ts := by
  rw [C01_get_spec (C14_flush_inv h id), C01_get_spec h]
  rcases LL.flush_eq_self_or s id with he | ⟨l0, rest, hl, _, he⟩
  · rw [he]
  · rw [he, LL.allEntries_flush, LL.allEntries_cons hl]
    simp only [LL.newestLE_append]
    rw [← LL.pick_assoc, ← LL.pick_assoc (newestLE s.mem k ts)]
    congr 1
    apply LL.pick_comm_of_ne
    intro x y hx hy
    obtain ⟨x1, x2, _, _⟩ := LL.newestLE_some hx
    obtain ⟨y1, y2, _, _⟩ := LL.newestLE_some hy
    obtain ⟨m, hm, hym⟩ := List.mem_flatten.mp x1
    exact fun hv => hf y y1 m (List.mem_reverse.mp hm) x hym (y2.trans x2.symm) hv.symm

theorem C12_flush_reads_noimm {s : Lsm} (h : LsmInv s) (hi : s.imm = []) (id : Nat) (k : Bytes) (ts : Nat) :
    (s.flush id).get k ts = s.get k ts :=
  C12_flush_reads h (by intro e _ m hm; rw [hi] at hm; simp at hm) id k ts

/-- without `FlushOk` the model's `flush` can change a read (the memtable jumps behind an
    immutable memtable holding the same internal key). Not reachable in the harness: `imm` is
    always empty there. -/
theorem C12_flush_imm_dup_changes_read :
    ∃ s : Lsm, LsmInv s ∧ Layered s ∧ (s.flush 0).get [1] 5 ≠ s.get [1] 5 := by
  refine ⟨{ mem := [⟨[1], 5, 0, 0, 0, [1]⟩], imm := [[⟨[1], 5, 0, 0, 0, [2]⟩]], levels := [[]] }, ?_, ?_, ?_⟩ <;> decide

example : LsmInv C01_exState ∧ (C01_exState.flush 7).get [1] 9 = C01_exState.get [1] 9 := by decide

/-! ## compaction

Two families of statements. The `_weak` ones use exactly what survives every step of the engine:
`LayeredX` (recency across sources with L0 taken as one source), the side condition `TopsOldest`
for L0 → Lbase and `TblsFun` for L0 → L0. The unsuffixed ones are the corollaries for a state whose
L0 is in age order (`Layered`), where `TopsOldest` is automatic. -/

/-- (C) L0 → Lbase preserves every read at `ts ≥ discardTs`, provided the L0 tables left behind hold
    only newer versions of the keys of the tops (`TopsOldest`). Since the F28 repair of
    `fillTablesL0ToLbase` the picker guarantees more, whatever the order of L0: the tables left
    behind share no user key with the tops (`C12_validChoice_noLeftBehind`, C12Choice.lean). -/
theorem C12_compact_reads_L0Lbase {s s' : Lsm} {cd : CompactDef} {d n now' now ts : Nat} {k : Bytes}
    (h : LsmInv s) (hv : VerBound s) (hl : LayeredX s) (hc : CompactOk s cd) (hk : IsL0Lbase s cd)
    (hto : TopsOldest s cd)
    (hdp : cd.dropPrefixes = []) (hs : s.compact cd d n now' = some s') (hts : d ≤ ts) (hnow : now' ≤ now) :
    visible now (s'.get k ts) = visible now (s.get k ts) := by
  obtain ⟨h0, hpos, _, hempty, _⟩ := hk
  apply LL.compact_reads_two h hv hl hc (fun _ => hto) hdp hs hts hnow (by omega)
  apply LL.readLv_eq_none
  intro tbls htb t ht
  exfalso
  obtain ⟨j, hj, rfl⟩ := List.getElem_of_mem htb
  simp only [List.length_take, List.length_drop] at hj
  rw [List.getElem_take, List.getElem_drop] at ht
  have hj2 : cd.thisLevel + 1 + j < s.levels.length := by omega
  have := hempty (cd.thisLevel + 1 + j) (by omega) (by omega)
  rw [List.getD_eq_getElem?_getD, List.getElem?_eq_getElem hj2] at this
  simp only [Option.getD_some] at this
  rw [this] at ht
  simp at ht

/-- (C) Li → Li+1 (`i ≥ 1`) preserves every read at `ts ≥ discardTs`. -/
theorem C12_compact_reads_LiLnext {s s' : Lsm} {cd : CompactDef} {d n now' now ts : Nat} {k : Bytes}
    (h : LsmInv s) (hv : VerBound s) (hl : LayeredX s) (hc : CompactOk s cd) (hk : IsLiLnext s cd)
    (hdp : cd.dropPrefixes = []) (hs : s.compact cd d n now' = some s') (hts : d ≤ ts) (hnow : now' ≤ now) :
    visible now (s'.get k ts) = visible now (s.get k ts) := by
  obtain ⟨h1, hnx, _, _⟩ := hk
  apply LL.compact_reads_two h hv hl hc (fun h0 => by omega) hdp hs hts hnow (by omega)
  have : cd.nextLevel - cd.thisLevel - 1 = 0 := by omega
  rw [this]; rfl

/-- (C) Lmax → Lmax preserves every read at `ts ≥ discardTs`. -/
theorem C12_compact_reads_Lmax {s s' : Lsm} {cd : CompactDef} {d n now' now ts : Nat} {k : Bytes}
    (h : LsmInv s) (hv : VerBound s) (hl : LayeredX s) (hc : CompactOk s cd) (hk : IsLmax s cd)
    (hdp : cd.dropPrefixes = []) (hs : s.compact cd d n now' = some s') (hts : d ≤ ts) (hnow : now' ≤ now) :
    visible now (s'.get k ts) = visible now (s.get k ts) :=
  LL.compact_reads_same h hv hl hc hdp hs hts hnow hk.2.1 (by rw [hk.2.1]; exact hk.1)

/-- (C) L0 → L0 preserves every read at `ts ≥ discardTs`, provided an internal key determines the
    entry within L0 (`TblsFun`). Since the F1 repair (badger commit d24306c, mirrored in
    `compactOutput`: `hasOverlap = true` for L0 → L0) no marker is dropped, so no side condition on
    the tables left out of the compaction is needed, and no recency hypothesis either. `TblsFun` IS
    still needed, only because `replaceTables` re-sorts L0 by `Smallest` (F2,
    `C12_L0_order_scrambled`).

    Historical note. Before d24306c `hasOverlap` was computed from the levels `≥ 1` only and the
    unconditional statement was false (finding F1, former theorem `C12_L0L0_resurrects`): in the
    state `C12_f1State` below — L0 = [ {1@1 ↦ 42}, {1@2 delete marker} ], L1 empty — the compaction
    of `top = [1]` alone with `discardTs = 5`, `numKeep = 1` dropped the marker `1@2`, produced no
    table at all and left L0 = [ {1@1 ↦ 42} ]: the read of key 1 at `ts = 9` went from "absent" to
    42. With the repair the marker is kept (`C12_L0L0_f1_repaired`). -/
theorem C12_compact_reads_L0L0_fun {s s' : Lsm} {cd : CompactDef} {d n now' now ts : Nat} {k : Bytes}
    (h : LsmInv s) (hv : VerBound s) (hc : CompactOk s cd) (hk : IsL0L0 s cd)
    (hfun : TblsFun (cdThisT s cd))
    (hdp : cd.dropPrefixes = []) (hs : s.compact cd d n now' = some s') (hts : d ≤ ts) (hnow : now' ≤ now) :
    visible now (s'.get k ts) = visible now (s.get k ts) :=
  LL.compact_reads_l0l0 h hv hc hk (LL.tblsFun_chunk hfun) hdp hs hts hnow

/-- the same under "no internal key occurs in two different L0 tables" -/
theorem C12_compact_reads_L0L0 {s s' : Lsm} {cd : CompactDef} {d n now' now ts : Nat} {k : Bytes}
    (h : LsmInv s) (hv : VerBound s) (hc : CompactOk s cd) (hk : IsL0L0 s cd)
    (hdist : TblsDistinct (cdThisT s cd))
    (hdp : cd.dropPrefixes = []) (hs : s.compact cd d n now' = some s') (hts : d ≤ ts) (hnow : now' ≤ now) :
    visible now (s'.get k ts) = visible now (s.get k ts) :=
  C12_compact_reads_L0L0_fun h hv hc hk
    (LL.tblsFun_of_distinct (fun t ht => ((LL.this_level h hc.1).2.1 t ht).2) hdist) hdp hs hts hnow

/-- (C) every well-formed compaction preserves every read at a timestamp `ts ≥ discardTs`, as seen
    at any clock `now ≥` the compaction's clock — in the form that composes over arbitrary runs. -/
theorem C12_compact_reads_weak {s s' : Lsm} {cd : CompactDef} {d n now' now ts : Nat} {k : Bytes}
    (h : LsmInv s) (hv : VerBound s) (hl : LayeredX s) (hc : CompactOk s cd)
    (hto : IsL0Lbase s cd → TopsOldest s cd) (hfun : IsL0L0 s cd → TblsFun (cdThisT s cd))
    (hdp : cd.dropPrefixes = []) (hs : s.compact cd d n now' = some s') (hts : d ≤ ts) (hnow : now' ≤ now) :
    visible now (s'.get k ts) = visible now (s.get k ts) := by
  rcases hc.2 with hk | hk | hk | hk
  · exact C12_compact_reads_L0Lbase h hv hl hc hk (hto hk) hdp hs hts hnow
  · exact C12_compact_reads_LiLnext h hv hl hc hk hdp hs hts hnow
  · exact C12_compact_reads_L0L0_fun h hv hc hk (hfun hk) hdp hs hts hnow
  · exact C12_compact_reads_Lmax h hv hl hc hk hdp hs hts hnow

/-- (C) the main statement: under the structural invariant, `uint64` versions, recency (`Layered`:
    L0 in age order) and a well-formed compaction of ANY kind — for L0 → L0 with distinct internal
    keys across the L0 tables — every read at `ts ≥ discardTs` is preserved. `0 < ts` and
    `CutsAtKeyChange` are not needed. -/
theorem C12_compact_reads {s s' : Lsm} {cd : CompactDef} {d n now' now ts : Nat} {k : Bytes}
    (h : LsmInv s) (hv : VerBound s) (hl : Layered s) (hc : CompactOk s cd)
    (hdist : IsL0L0 s cd → TblsDistinct (cdThisT s cd))
    (hdp : cd.dropPrefixes = []) (hs : s.compact cd d n now' = some s') (hts : d ≤ ts) (hnow : now' ≤ now) :
    visible now (s'.get k ts) = visible now (s.get k ts) :=
  C12_compact_reads_weak h hv (LL.layeredX_of_layered hl) hc
    (fun hk => LL.topsOldest_of_layered h hl hc.1 hk)
    (fun hk => LL.tblsFun_of_distinct (fun t ht => ((LL.this_level h hc.1).2.1 t ht).2) (hdist hk))
    hdp hs hts hnow

/-! ## finding F28: L0 out of age order (repaired in the picker, see `C12Choice.lean`) -/

/-- the F28 state: L0 = [ {1@2 delete marker}, {1@1 ↦ 42} ] — the NEWER table first, as after a reopen
    (`Open` sorts L0 by file id, and the output of an L0 → L0 compaction gets a new id although it
    holds the oldest data) -/
def C12_f28State : Lsm :=
  { mem := [], imm := [],
    levels := [[{ ents := [⟨[1], 2, 1, 0, 0, []⟩] }, { ents := [⟨[1], 1, 0, 0, 0, [42]⟩] }], []] }
def C12_f28Cd : CompactDef :=
  { thisLevel := 0, nextLevel := 1, top := [0], bot := [], outSizes := [], dropPrefixes := [] }
def C12_f28State' : Lsm :=
  { mem := [], imm := [], levels := [[{ ents := [⟨[1], 1, 0, 0, 0, [42]⟩] }], []] }

/-- `TopsOldest` is needed (finding F28): compacting the prefix `[0]` of the F28 state to L1 drops the
    marker (`hasOverlap` looks only below the output level) while the older `1@1 ↦ 42` stays in L0 and
    becomes visible again. `CompactOk` admits this choice; the repaired picker does not
    (`C12_f28_picker_rejects`). -/
theorem C12_L0Lbase_needs_topsOldest :
    LsmInv C12_f28State ∧ VerBound C12_f28State ∧ LayeredX C12_f28State ∧ KeyVerUnique C12_f28State ∧
      CompactOk C12_f28State C12_f28Cd ∧ IsL0Lbase C12_f28State C12_f28Cd ∧ ¬ TopsOldest C12_f28State C12_f28Cd ∧
      C12_f28State.compact C12_f28Cd 5 1 0 = some C12_f28State' ∧
      visible 0 (C12_f28State'.get [1] 9) ≠ visible 0 (C12_f28State.get [1] 9) := by
  refine ⟨by decide, by decide, by decide, by decide, by decide, by decide, by decide, by lsm_decide, by decide⟩

/-! ## finding F1 (repaired in badger commit d24306c): the old witness -/

def C12_f1State : Lsm :=
  { mem := [], imm := [],
    levels := [[{ ents := [⟨[1], 1, 0, 0, 0, [42]⟩] }, { ents := [⟨[1], 2, 1, 0, 0, []⟩] }], []] }
/-- the old witness had `outSizes := []` (the marker was dropped and no table written) -/
def C12_f1Cd : CompactDef :=
  { thisLevel := 0, nextLevel := 0, top := [1], bot := [], outSizes := [1], dropPrefixes := [] }
def C12_f1State' : Lsm :=
  { mem := [], imm := [],
    levels := [[{ ents := [⟨[1], 2, 1, 0, 0, []⟩] }, { ents := [⟨[1], 1, 0, 0, 0, [42]⟩] }], []] }

/-- on the F1 witness the repaired compaction keeps the delete marker and the read is unchanged -/
theorem C12_L0L0_f1_repaired :
    LsmInv C12_f1State ∧ VerBound C12_f1State ∧ CompactOk C12_f1State C12_f1Cd ∧ IsL0L0 C12_f1State C12_f1Cd ∧
      TblsDistinct (cdThisT C12_f1State C12_f1Cd) ∧
      C12_f1State.compact C12_f1Cd 5 1 0 = some C12_f1State' ∧
      visible 0 (C12_f1State'.get [1] 9) = visible 0 (C12_f1State.get [1] 9) ∧
      visible 0 (C12_f1State.get [1] 9) = none := by
  refine ⟨by decide, by decide, by decide, by decide, by decide, by lsm_decide, by decide, by decide⟩

/-! ## known finding F2: `replaceTables` re-sorts L0 by `Smallest` -/

def C12_f2State : Lsm :=
  { mem := [], imm := [],
    levels := [[{ ents := [⟨[2], 1, 0, 0, 0, [10]⟩] },
                { ents := [⟨[1], 2, 0, 0, 0, [0]⟩, ⟨[2], 1, 0, 0, 0, [11]⟩] },
                { ents := [⟨[3], 1, 0, 0, 0, [0]⟩] }], []] }
def C12_f2Cd : CompactDef :=
  { thisLevel := 0, nextLevel := 0, top := [2], bot := [], outSizes := [1], dropPrefixes := [] }
def C12_f2State' : Lsm :=
  { mem := [], imm := [],
    levels := [[{ ents := [⟨[1], 2, 0, 0, 0, [0]⟩, ⟨[2], 1, 0, 0, 0, [11]⟩] },
                { ents := [⟨[2], 1, 0, 0, 0, [10]⟩] },
                { ents := [⟨[3], 1, 0, 0, 0, [0]⟩] }], []] }

/-- F2: with a duplicated internal key `2@1` in two L0 tables (values 10 in the older, 11 in the
    newer table) an L0 → L0 compaction of an unrelated table re-sorts L0 by `Smallest`, the older
    table moves behind the newer one and the read returns the stale value. -/
theorem C12_L0_order_scrambled :
    ∃ (s s' : Lsm) (cd : CompactDef) (d n now ts : Nat) (k : Bytes),
      LsmInv s ∧ VerBound s ∧ Layered s ∧ CompactOk s cd ∧ IsL0L0 s cd ∧ cd.dropPrefixes = [] ∧
      s.compact cd d n now = some s' ∧ d ≤ ts ∧
      visible now (s'.get k ts) ≠ visible now (s.get k ts) :=
  ⟨C12_f2State, C12_f2State', C12_f2Cd, 0, 1, 0, 5, [2], by decide, by decide, by decide, by decide, by decide,
    rfl, by lsm_decide, by decide, by decide⟩

example : C12_f2State.get [2] 5 = some ⟨[2], 1, 0, 0, 0, [11]⟩ ∧
    C12_f2State'.get [2] 5 = some ⟨[2], 1, 0, 0, 0, [10]⟩ := by decide


/-- F2 is exactly a violation of `TblsFun` / `KeyVerUnique` -/
example : ¬ TblsFun (cdThisT C12_f2State C12_f2Cd) ∧ ¬ KeyVerUnique C12_f2State := by decide

/-- F2, positive part: if no internal key occurs in two different L0 tables, the order of the L0
    tables does not affect any read (`levelHandler.get` keeps a strict maximum). -/
theorem C12_L0_order_irrelevant_distinct {s : Lsm} {l0 l0' : List Tbl} {rest : List (List Tbl)}
    (h : LsmInv s) (hl : s.levels = l0 :: rest) (hp : l0'.Perm l0) (hd : TblsDistinct l0) (k : Bytes) (ts : Nat) :
    ({ s with levels := l0' :: rest } : Lsm).get k ts = s.get k ts := by
  have h0 := h.level (i := 0) (tbls := l0) (by rw [hl]; rfl)
  have hinv2 : LsmInvW ({ s with levels := l0' :: rest } : Lsm) := by
    refine ⟨h.1, h.2.1, ?_, ?_⟩
    · rintro ⟨i, tbls⟩ hpz
      have hi := (LL.mem_zipIdx _ _ _).mp hpz
      cases i with
      | zero =>
        simp at hi; subst hi
        exact ⟨fun t ht => (h0.1 t (hp.subset ht)).2, by simp⟩
      | succ j =>
        simp at hi
        exact LL.levelOk_weaken (h.level (i := j + 1) (by rw [hl]; simpa using hi))
    · intro e he
      apply h.2.2.2 e
      rw [LL.mem_allEntries] at he ⊢
      rcases he with he | he | ⟨i, tbls, t, hi, ht, het⟩
      · exact .inl he
      · exact .inr (.inl he)
      · right; right
        cases i with
        | zero =>
          simp at hi; subst hi
          exact ⟨0, l0, t, by rw [hl]; rfl, hp.subset ht, het⟩
        | succ j =>
          simp at hi
          exact ⟨j + 1, tbls, t, by rw [hl]; simpa using hi, ht, het⟩
  rw [LL.get_eq_newestLE hinv2, LL.get_eq_newestLE (LL.lsmInv_weaken h), LL.newestLE_allEntries,
    LL.newestLE_allEntries, hl]
  have hmem : LL.memEnts ({ s with levels := l0' :: rest } : Lsm) = LL.memEnts s := rfl
  rw [hmem]
  simp only [LL.readLv]
  rw [LL.nl_chunk0_perm hp.symm hd]

/-! non-vacuity of the L0 → L0 statement: a compaction of two of three L0 tables; the marker `1@2`
    is kept (`hasOverlap = true`), the version below it is dropped -/
def C12_l0State : Lsm :=
  { mem := [⟨[1], 9, 0, 0, 0, [9]⟩], imm := [],
    levels := [[{ ents := [⟨[1], 1, 0, 0, 0, [42]⟩, ⟨[2], 1, 0, 0, 0, [7]⟩] }, { ents := [⟨[3], 1, 0, 0, 0, [3]⟩] },
                { ents := [⟨[1], 2, 1, 0, 0, []⟩] }], []] }
def C12_l0Cd : CompactDef :=
  { thisLevel := 0, nextLevel := 0, top := [0, 2], bot := [], outSizes := [2], dropPrefixes := [] }
def C12_l0State' : Lsm :=
  { mem := [⟨[1], 9, 0, 0, 0, [9]⟩], imm := [],
    levels := [[{ ents := [⟨[1], 2, 1, 0, 0, []⟩, ⟨[2], 1, 0, 0, 0, [7]⟩] }, { ents := [⟨[3], 1, 0, 0, 0, [3]⟩] }], []] }

example : LsmInv C12_l0State ∧ VerBound C12_l0State ∧ Layered C12_l0State ∧ KeyVerUnique C12_l0State ∧
    CompactOk C12_l0State C12_l0Cd ∧ IsL0L0 C12_l0State C12_l0Cd ∧
    TblsDistinct (cdThisT C12_l0State C12_l0Cd) ∧
    C12_l0State.compact C12_l0Cd 5 1 0 = some C12_l0State' := by
  refine ⟨by decide, by decide, by decide, by decide, by decide, by decide, by decide, by lsm_decide⟩

/-! non-vacuity of `C12_compact_reads`: one concrete instance per kind of compaction -/

/-- L0 → L2 with a non-empty bottom run; the tombstone `1@3` and the version below it are dropped
    (`hasOverlap = false`: nothing below, and the L0 table left behind holds another key) -/
def C12_exBase : Lsm :=
  { mem := [], imm := [],
    levels := [[{ ents := [⟨[1], 3, 1, 0, 0, []⟩] }, { ents := [⟨[2], 5, 0, 0, 0, [5]⟩] }], [],
               [{ ents := [⟨[1], 1, 0, 0, 0, [1]⟩] }, { ents := [⟨[3], 1, 0, 0, 0, [3]⟩] }]] }
def C12_exBaseCd : CompactDef :=
  { thisLevel := 0, nextLevel := 2, top := [0], bot := [0], outSizes := [], dropPrefixes := [] }
def C12_exBase' : Lsm :=
  { mem := [], imm := [],
    levels := [[{ ents := [⟨[2], 5, 0, 0, 0, [5]⟩] }], [], [{ ents := [⟨[3], 1, 0, 0, 0, [3]⟩] }]] }

example : LsmInv C12_exBase ∧ VerBound C12_exBase ∧ Layered C12_exBase ∧ CompactOk C12_exBase C12_exBaseCd ∧
    IsL0Lbase C12_exBase C12_exBaseCd ∧ C12_exBase.compact C12_exBaseCd 4 1 0 = some C12_exBase' ∧
    visible 0 (C12_exBase'.get [1] 4) = visible 0 (C12_exBase.get [1] 4) := by
  refine ⟨by decide, by decide, by decide, by decide, by decide, by lsm_decide, by decide⟩

/-- L1 → L2 -/
def C12_exLi : Lsm :=
  { mem := [], imm := [],
    levels := [[], [{ ents := [⟨[1], 2, 0, 0, 0, [2]⟩] }],
               [{ ents := [⟨[1], 1, 0, 0, 0, [1]⟩] }, { ents := [⟨[2], 1, 0, 0, 0, [7]⟩] }]] }
def C12_exLiCd : CompactDef :=
  { thisLevel := 1, nextLevel := 2, top := [0], bot := [0], outSizes := [2], dropPrefixes := [] }
def C12_exLi' : Lsm :=
  { mem := [], imm := [],
    levels := [[], [], [{ ents := [⟨[1], 2, 0, 0, 0, [2]⟩, ⟨[1], 1, 0, 0, 0, [1]⟩] }, { ents := [⟨[2], 1, 0, 0, 0, [7]⟩] }]] }

example : LsmInv C12_exLi ∧ VerBound C12_exLi ∧ Layered C12_exLi ∧ CompactOk C12_exLi C12_exLiCd ∧
    IsLiLnext C12_exLi C12_exLiCd ∧ C12_exLi.compact C12_exLiCd 0 1 0 = some C12_exLi' := by
  refine ⟨by decide, by decide, by decide, by decide, by decide, by lsm_decide⟩

/-- Lmax → Lmax: the tombstone `1@2` of the last level is dropped -/
def C12_exMax : Lsm :=
  { mem := [], imm := [],
    levels := [[], [{ ents := [⟨[1], 2, 1, 0, 0, []⟩] }, { ents := [⟨[2], 1, 0, 0, 0, [7]⟩] }]] }
def C12_exMaxCd : CompactDef :=
  { thisLevel := 1, nextLevel := 1, top := [0], bot := [1], outSizes := [1], dropPrefixes := [] }
def C12_exMax' : Lsm :=
  { mem := [], imm := [], levels := [[], [{ ents := [⟨[2], 1, 0, 0, 0, [7]⟩] }]] }

example : LsmInv C12_exMax ∧ VerBound C12_exMax ∧ Layered C12_exMax ∧ CompactOk C12_exMax C12_exMaxCd ∧
    IsLmax C12_exMax C12_exMaxCd ∧ C12_exMax.compact C12_exMaxCd 5 1 0 = some C12_exMax' := by
  refine ⟨by decide, by decide, by decide, by decide, by decide, by lsm_decide⟩

/-- a read after a write: the new entry is seen first (`memPut` replaces an equal internal key) -/
theorem C12_put_reads {s : Lsm} (h : LsmInv s) {e : Ent} (he : 0 < e.ver) (k : Bytes) (ts : Nat) :
    (s.putEnt e).get k ts = newestLE (e :: s.allEntries) k ts :=
  LL.put_get h he k ts

/-! ## snapshot stability: a read at `ts` is unaffected by everything that happens afterwards -/

/-- reflexive-transitive closure of a step relation -/
inductive RunOf (R : Lsm → Lsm → Prop) : Lsm → Lsm → Prop
  | refl (s : Lsm) : RunOf R s s
  | step {s s' s'' : Lsm} (r : RunOf R s s') (st : R s' s'') : RunOf R s s''

/-- one step of the storage engine as seen by a reader at timestamp `ts` (wall clock `≤ now`):
    a later commit (fresh, larger version), a memtable flush, or a compaction of ANY kind whose
    `discardTs` does not exceed `ts`; an L0 → Lbase step carries the side condition `TopsOldest`
    (automatic while L0 is in age order, see `LsmStepAged`). -/
inductive LsmStep (ts now : Nat) : Lsm → Lsm → Prop
  | put (s : Lsm) (e : Ent) (hts : ts < e.ver) (hmax : e.ver ≤ maxU64)
      (hnew : ∀ x ∈ s.allEntries, x.key = e.key → x.ver < e.ver) : LsmStep ts now s (s.putEnt e)
  | flush (s : Lsm) (id : Nat) : LsmStep ts now s (s.flush id)
  | compact (s s' : Lsm) (cd : CompactDef) (d n now' : Nat) (hc : CompactOk s cd)
      (hto : IsL0Lbase s cd → TopsOldest s cd)
      (hdp : cd.dropPrefixes = []) (hs : s.compact cd d n now' = some s')
      (hcut : ∀ new0, splitSizes cd.outSizes (compactOutput s cd d n now').1 = some new0 →
        CutsAtKeyChange (withIds new0 cd.outIds))
      (hts : d ≤ ts) (hnow : now' ≤ now) : LsmStep ts now s s'

/-- the steps that keep L0 in age order: no L0 → L0 compaction, and then no side condition -/
inductive LsmStepAged (ts now : Nat) : Lsm → Lsm → Prop
  | put (s : Lsm) (e : Ent) (hts : ts < e.ver) (hmax : e.ver ≤ maxU64)
      (hnew : ∀ x ∈ s.allEntries, x.key = e.key → x.ver < e.ver) : LsmStepAged ts now s (s.putEnt e)
  | flush (s : Lsm) (id : Nat) : LsmStepAged ts now s (s.flush id)
  | compact (s s' : Lsm) (cd : CompactDef) (d n now' : Nat) (hc : CompactOk s cd) (hnot : ¬ IsL0L0 s cd)
      (hdp : cd.dropPrefixes = []) (hs : s.compact cd d n now' = some s')
      (hcut : ∀ new0, splitSizes cd.outSizes (compactOutput s cd d n now').1 = some new0 →
        CutsAtKeyChange (withIds new0 cd.outIds))
      (hts : d ≤ ts) (hnow : now' ≤ now) : LsmStepAged ts now s s'

/-- what every step of the engine preserves and what suffices for the reads: the structural
    invariant, `uint64` versions, recency across sources with L0 taken as one source (`LayeredX` —
    the part of `Layered` that survives the L0 → L0 merge-and-re-sort), uniqueness of internal keys
    (which makes the order of the L0 tables irrelevant), no immutable memtable. -/
def LsmGood (s : Lsm) : Prop := LsmInv s ∧ VerBound s ∧ LayeredX s ∧ KeyVerUnique s ∧ s.imm = []

instance (s : Lsm) : Decidable (LsmGood s) := by unfold LsmGood; infer_instance

theorem C12_step_stable {ts now : Nat} {s s' : Lsm} (hg : LsmGood s) (st : LsmStep ts now s s') :
    LsmGood s' ∧ ∀ k, visible now (s'.get k ts) = visible now (s.get k ts) := by
  obtain ⟨h, hv, hl, hu, himm⟩ := hg
  cases st with
  | put e hts hmax hnew =>
    have hpos : 0 < e.ver := by omega
    have hnew' : ∀ x ∈ s.allEntries, x.key = e.key → x.ver ≤ e.ver := fun x hx hk => Nat.le_of_lt (hnew x hx hk)
    refine ⟨⟨LL.put_inv h hpos, LL.put_verBound hv hmax, LL.put_layeredX hl hnew', LL.put_keyVerUnique hu hnew,
      himm⟩, ?_⟩
    intro k
    rw [LL.put_get h hpos, LL.newestLE_cons, C01_get_spec h]
    have : LL.cand k ts e = none := by
      unfold LL.cand; rw [if_neg]; rintro ⟨_, hle⟩; omega
    rw [this]; rfl
  | flush id =>
    refine ⟨⟨C14_flush_inv h id, ?_, LL.flush_layeredX hl himm id, LL.flush_keyVerUnique hu id, ?_⟩, ?_⟩
    · exact fun x hx => hv x ((LL.mem_allEntries_flush s id x).mp hx)
    · rcases LL.flush_eq_self_or s id with he | ⟨_, _, _, _, he⟩ <;> rw [he] <;> exact himm
    · intro k; rw [C12_flush_reads_noimm h himm]
  | compact _ cd d n now' hc hto hdp hs hcut hts hnow =>
    refine ⟨⟨C14_compact_inv h hv hc hs hcut, C14_compact_verBound h hv hc hs, LL.compact_layeredX h hl hc hto hs,
      LL.compact_keyVerUnique h hu hc hs, ?_⟩, ?_⟩
    · obtain ⟨_, _, rfl⟩ := LL.compact_some hs; exact himm
    · intro k
      exact C12_compact_reads_weak h hv hl hc hto (fun _ => LL.tblsFun_of_unique hu h hc.1) hdp hs hts hnow

/-- Snapshot stability: starting from a good state, after any number of later commits, flushes and
    compactions of every kind (L0 → L0 included; `discardTs ≤ ts`) every read at `ts` returns what it
    returned before, and the state is still good. This is C01 + C12 + C14 composed. -/
theorem C12_snapshot_stable {ts now : Nat} {s s' : Lsm} (hg : LsmGood s) (r : RunOf (LsmStep ts now) s s') :
    LsmGood s' ∧ ∀ k, visible now (s'.get k ts) = visible now (s.get k ts) := by
  induction r with
  | refl => exact ⟨hg, fun _ => rfl⟩
  | step _ st ih =>
    obtain ⟨hg', hr⟩ := ih
    obtain ⟨hg'', hr'⟩ := C12_step_stable hg' st
    exact ⟨hg'', fun k => (hr' k).trans (hr k)⟩

/-- and what it returns is the specification's answer computed on the *original* state -/
theorem C12_snapshot_spec {ts now : Nat} {s s' : Lsm} (hg : LsmGood s) (r : RunOf (LsmStep ts now) s s')
    (k : Bytes) : visible now (s'.get k ts) = s.specGet k ts now := by
  rw [(C12_snapshot_stable hg r).2 k, C01_read_spec hg.1]

/-- while L0 stays in age order (no L0 → L0 step) the side condition of L0 → Lbase is automatic:
    an aged step from an aged state is a step, and the state stays aged -/
theorem C12_step_aged {ts now : Nat} {s s' : Lsm} (hg : LsmGood s) (hl : Layered s)
    (st : LsmStepAged ts now s s') : LsmStep ts now s s' ∧ Layered s' := by
  obtain ⟨h, hv, _, _, himm⟩ := hg
  cases st with
  | put e hts hmax hnew =>
    exact ⟨.put s e hts hmax hnew, C14_put_layered hl (fun x hx hk => Nat.le_of_lt (hnew x hx hk))⟩
  | flush id => exact ⟨.flush s id, C14_flush_layered hl himm id⟩
  | compact _ cd d n now' hc hnot hdp hs hcut hts hnow =>
    exact ⟨.compact s _ cd d n now' hc (fun hk => LL.topsOldest_of_layered h hl hc.1 hk) hdp hs hcut hts hnow,
      C14_compact_layered h hl hc hnot hs⟩

theorem C12_snapshot_stable_aged {ts now : Nat} {s s' : Lsm} (hg : LsmGood s) (hl : Layered s)
    (r : RunOf (LsmStepAged ts now) s s') :
    LsmGood s' ∧ Layered s' ∧ ∀ k, visible now (s'.get k ts) = visible now (s.get k ts) := by
  induction r with
  | refl => exact ⟨hg, hl, fun _ => rfl⟩
  | step _ st ih =>
    obtain ⟨hg', hl', hr⟩ := ih
    obtain ⟨st', hl''⟩ := C12_step_aged hg' hl' st
    obtain ⟨hg'', hr'⟩ := C12_step_stable hg' st'
    exact ⟨hg'', hl'', fun k => (hr' k).trans (hr k)⟩

example : LsmGood C12_exBase ∧ Layered C12_exBase ∧ LsmGood C12_l0State := by decide

end Badger
