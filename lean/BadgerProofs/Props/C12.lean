import BadgerProofs.Props.C01
import BadgerProofs.Props.C14
import BadgerProofs.Lemmas.LsmReads
/-!
# C12 — flush and compaction preserve what every read returns
-/
namespace Badger

/-- (B) flushing does not change any read. `FlushOk` (no internal key shared between the memtable
    and an immutable memtable) is needed only because the model's `flush` moves `mem` past `imm`;
    it is vacuous for `imm = []`. -/
theorem C12_flush_reads {s : Lsm} (h : LsmInv s) (hf : FlushOk s) (id : Nat) (k : Bytes) (ts : Nat) :
    (s.flush id).get k ts = s.get k ts := by
  rw [C01_get_spec (C14_flush_inv h id), C01_get_spec h]
  rcases LL.flush_eq_self_or s id with he | ⟨l0, rest, hl, _, he⟩
  · rw [he]
  · rw [he, LL.allEntries_flush, LL.allEntries_cons hl]
    simp only [LL.newestLE_append]
    rw [← LL.pick_assoc, ← LL.pick_assoc (newestLE s.mem k ts)]
    congr 1
    apply LL.pick_comm_of_ne
    intro x y hx hy
    obtain ⟨x1, x2, _, _⟩ := LL.newestLE_some hx
    obtain ⟨y1, y2, _, _⟩ := LL.newestLE_some hy
    obtain ⟨m, hm, hym⟩ := List.mem_flatten.mp x1
    exact fun hv => hf y y1 m (List.mem_reverse.mp hm) x hym (y2.trans x2.symm) hv.symm

theorem C12_flush_reads_noimm {s : Lsm} (h : LsmInv s) (hi : s.imm = []) (id : Nat) (k : Bytes) (ts : Nat) :
    (s.flush id).get k ts = s.get k ts :=
  C12_flush_reads h (by intro e _ m hm; rw [hi] at hm; simp at hm) id k ts

/-- without `FlushOk` the model's `flush` can change a read (the memtable jumps behind an
    immutable memtable holding the same internal key). Not reachable in the harness: `imm` is
    always empty there. -/
theorem C12_flush_imm_dup_changes_read :
    ∃ s : Lsm, LsmInv s ∧ Layered s ∧ (s.flush 0).get [1] 5 ≠ s.get [1] 5 := by
  refine ⟨{ mem := [⟨[1], 5, 0, 0, 0, [1]⟩], imm := [[⟨[1], 5, 0, 0, 0, [2]⟩]], levels := [[]] }, ?_, ?_, ?_⟩ <;> decide

example : LsmInv C01_exState ∧ (C01_exState.flush 7).get [1] 9 = C01_exState.get [1] 9 := by decide

/-! ## compaction -/

/-- (C) L0 → Lbase preserves every read at `ts ≥ discardTs`. -/
theorem C12_compact_reads_L0Lbase {s s' : Lsm} {cd : CompactDef} {d n now' now ts : Nat} {k : Bytes}
    (h : LsmInv s) (hv : VerBound s) (hl : Layered s) (hc : CompactOk s cd) (hk : IsL0Lbase s cd)
    (hdp : cd.dropPrefixes = []) (hs : s.compact cd d n now' = some s') (hts : d ≤ ts) (hnow : now' ≤ now) :
    visible now (s'.get k ts) = visible now (s.get k ts) := by
  obtain ⟨h0, hpos, _, hempty, _⟩ := hk
  apply LL.compact_reads_two h hv hl hc hdp hs hts hnow (by omega)
  apply LL.readLv_eq_none
  intro tbls htb t ht
  exfalso
  obtain ⟨j, hj, rfl⟩ := List.getElem_of_mem htb
  simp only [List.length_take, List.length_drop] at hj
  rw [List.getElem_take, List.getElem_drop] at ht
  have hj2 : cd.thisLevel + 1 + j < s.levels.length := by omega
  have := hempty (cd.thisLevel + 1 + j) (by omega) (by omega)
  rw [List.getD_eq_getElem?_getD, List.getElem?_eq_getElem hj2] at this
  simp only [Option.getD_some] at this
  rw [this] at ht
  simp at ht

/-- (C) Li → Li+1 (`i ≥ 1`) preserves every read at `ts ≥ discardTs`. -/
theorem C12_compact_reads_LiLnext {s s' : Lsm} {cd : CompactDef} {d n now' now ts : Nat} {k : Bytes}
    (h : LsmInv s) (hv : VerBound s) (hl : Layered s) (hc : CompactOk s cd) (hk : IsLiLnext s cd)
    (hdp : cd.dropPrefixes = []) (hs : s.compact cd d n now' = some s') (hts : d ≤ ts) (hnow : now' ≤ now) :
    visible now (s'.get k ts) = visible now (s.get k ts) := by
  obtain ⟨_, hnx, _, _⟩ := hk
  apply LL.compact_reads_two h hv hl hc hdp hs hts hnow (by omega)
  have : cd.nextLevel - cd.thisLevel - 1 = 0 := by omega
  rw [this]; rfl

/-- (C) Lmax → Lmax preserves every read at `ts ≥ discardTs`. -/
theorem C12_compact_reads_Lmax {s s' : Lsm} {cd : CompactDef} {d n now' now ts : Nat} {k : Bytes}
    (h : LsmInv s) (hv : VerBound s) (hl : Layered s) (hc : CompactOk s cd) (hk : IsLmax s cd)
    (hdp : cd.dropPrefixes = []) (hs : s.compact cd d n now' = some s') (hts : d ≤ ts) (hnow : now' ≤ now) :
    visible now (s'.get k ts) = visible now (s.get k ts) :=
  LL.compact_reads_same h hv hl hc hdp hs hts hnow hk.2.1 (by rw [hk.2.1]; exact hk.1)

/-- (C) every well-formed compaction other than L0 → L0 preserves every read at a timestamp
    `ts ≥ discardTs`, as seen at any clock `now ≥` the compaction's clock. Hypotheses beyond the
    assignment's sketch: `VerBound` (versions fit `uint64`; the overlap tests widen ranges to
    `key@MaxUint64 … key@0`). `0 < ts` is not needed. -/
theorem C12_compact_reads {s s' : Lsm} {cd : CompactDef} {d n now' now ts : Nat} {k : Bytes}
    (h : LsmInv s) (hv : VerBound s) (hl : Layered s) (hc : CompactOk s cd) (hnot : ¬ IsL0L0 s cd)
    (hdp : cd.dropPrefixes = []) (hs : s.compact cd d n now' = some s') (hts : d ≤ ts) (hnow : now' ≤ now) :
    visible now (s'.get k ts) = visible now (s.get k ts) := by
  rcases hc.2 with hk | hk | hk | hk
  · exact C12_compact_reads_L0Lbase h hv hl hc hk hdp hs hts hnow
  · exact C12_compact_reads_LiLnext h hv hl hc hk hdp hs hts hnow
  · exact absurd hk hnot
  · exact C12_compact_reads_Lmax h hv hl hc hk hdp hs hts hnow

end Badger
