import BadgerProofs.Props.C01
import BadgerProofs.Props.C14
/-!
# C12 — flush and compaction preserve what every read returns
-/
namespace Badger

/-- (B) flushing does not change any read. `FlushOk` (no internal key shared between the memtable
    and an immutable memtable) is needed only because the model's `flush` moves `mem` past `imm`;
    it is vacuous for `imm = []`. -/
theorem C12_flush_reads {s : Lsm} (h : LsmInv s) (hf : FlushOk s) (id : Nat) (k : Bytes) (ts : Nat) :
    (s.flush id).get k ts = s.get k ts := by
  rw [C01_get_spec (C14_flush_inv h id), C01_get_spec h]
  rcases LL.flush_eq_self_or s id with he | ⟨l0, rest, hl, _, he⟩
  · rw [he]
  · rw [he, LL.allEntries_flush, LL.allEntries_cons hl]
    simp only [LL.newestLE_append]
    rw [← LL.pick_assoc, ← LL.pick_assoc (newestLE s.mem k ts)]
    congr 1
    apply LL.pick_comm_of_ne
    intro x y hx hy
    obtain ⟨x1, x2, _, _⟩ := LL.newestLE_some hx
    obtain ⟨y1, y2, _, _⟩ := LL.newestLE_some hy
    obtain ⟨m, hm, hym⟩ := List.mem_flatten.mp x1
    exact fun hv => hf y y1 m (List.mem_reverse.mp hm) x hym (y2.trans x2.symm) hv.symm

theorem C12_flush_reads_noimm {s : Lsm} (h : LsmInv s) (hi : s.imm = []) (id : Nat) (k : Bytes) (ts : Nat) :
    (s.flush id).get k ts = s.get k ts :=
  C12_flush_reads h (by intro e _ m hm; rw [hi] at hm; simp at hm) id k ts

/-- without `FlushOk` the model's `flush` can change a read (the memtable jumps behind an
    immutable memtable holding the same internal key). Not reachable in the harness: `imm` is
    always empty there. -/
theorem C12_flush_imm_dup_changes_read :
    ∃ s : Lsm, LsmInv s ∧ Layered s ∧ (s.flush 0).get [1] 5 ≠ s.get [1] 5 := by
  refine ⟨{ mem := [⟨[1], 5, 0, 0, 0, [1]⟩], imm := [[⟨[1], 5, 0, 0, 0, [2]⟩]], levels := [[]] }, ?_, ?_, ?_⟩ <;> decide

example : LsmInv C01_exState ∧ (C01_exState.flush 7).get [1] 9 = C01_exState.get [1] 9 := by decide

end Badger
