import BadgerProofs.Props.C02Db
import BadgerProofs.Props.C29
/-!
# C29 at database level: `DropAll` as a step of every history

`DbReach.dropall` (Props/C01Db.lean) makes `DB.DropAll` (`Db.dropAll`, the function the mvcc driver
runs for the `dropall` op) a step of the composed reachability relation: the tree is emptied, the
oracle / watermarks / open transactions stay, and the committed history starts afresh.  Hence every
composed theorem (C01_db_snapshot, C02_db_commit_reads_current, C03_db_commit_fresh, C05_db_scan_*,
C11_db_commit_above_stored, C34_db_discard_below_open, …) holds for histories that contain any
number of DropAll calls anywhere.  The corollaries below are the C29 clauses "after DropAll the
database is empty" and "the database keeps accepting writes afterwards".
-/
namespace Badger

/-- **after DropAll the database is empty**: nothing is stored … -/
theorem C29_db_dropall_nothing_stored (d : Db) : d.dropAll.lsm.allEntries = [] := by
  exact C29_dropAll_empty d.lsm

/-- … and every `Get` of every transaction (open before the drop or begun after it) that has no
    pending write of the key answers "not found", in the state right after the drop and — by
    `C01_db_snapshot` over the new history — until the key is committed again. -/
theorem C29_db_dropall_reads_empty {o : Opts} {hist : List Ent} {d : Db} (hm : o.managed = false)
    (hmem : o.inMemory = false) (r : DbReach o hist d) {id : Nat} {t : TxnM} {k : Bytes}
    (hf : d.dropAll.findTxn id = some t) (hk : k.isEmpty = false) (hdisc : t.discarded = false)
    (hpend : (if t.update then t.pending.find? (·.key == k) else none) = none) :
    (d.dropAll.txnGet id k).2 = .notfound := by
  have := C01_db_snapshot hm (DbReach.dropall r hmem) hf hk hdisc hpend
  rw [this]
  rfl

/-- **the database keeps accepting writes**: the commit after a DropAll gets a timestamp above every
    version committed before the drop as well (timestamps do not restart). -/
theorem C29_db_dropall_commit_fresh {o : Opts} {hist : List Ent} {d : Db} (hm : o.managed = false)
    (hmem : o.inMemory = false) (r : DbReach o hist d) (id : Nat) :
    ∀ e ∈ d.dropAll.commitHist id, (∀ x ∈ hist, x.ver < e.ver) ∧ e.ver = d.nextTs := by
  intro e he
  have h := DbL.inv_of_reach hm r
  have hv := (C03_db_commit_fresh hm (DbReach.dropall r hmem) id e he).1
  have hn : d.dropAll.nextTs = d.nextTs := rfl
  refine ⟨fun x hx => ?_, by rw [hv, hn]⟩
  have := h.l.histLt x hx
  omega

end Badger
