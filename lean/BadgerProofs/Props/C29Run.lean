import BadgerProofs.Props.C29Reads
/-!
# C29 — "every other key is unchanged" for the whole `DropPrefix` run

Composition of the per-step results of `C29Reads.lean` along `Lsm.dropPrefixRun`:

1. `flushAll` (all memtables become L0 tables, oldest first) keeps the read-precedence order of
   the sources: `allEntries` is literally unchanged, and so are the invariants;
2. the groups of one level are rewritten one after the other; each rewrite has the shape
   `IsDropGroup` in the state it runs in (the positions of the group's tables form a contiguous
   block, because everything written so far lies key-wise before the group);
3. the final L0 → base compaction is an ordinary L0 → Lbase compaction carrying `dropPrefixes`
   (`compact_reads_two_pfx`, the `dropPrefixes`-aware version of `LL.compact_reads_two`).
-/
namespace Badger

/-! ## 1. `flushAll` -/

theorem flatten_filter_nonempty (l : List (List Ent)) :
    (l.filter (fun m => !m.isEmpty)).flatten = l.flatten := by
  induction l with
  | nil => rfl
  | cons m l ih =>
    rw [List.filter_cons]
    cases m with
    | nil => simpa using ih
    | cons a m => simp [ih]

def flushTables (s : Lsm) (ids : List Nat) : List Tbl :=
  (zipIdx ((s.imm ++ [s.mem]).filter (fun m => !m.isEmpty))).map
    (fun (p : Nat × List Ent) => ({ ents := p.2, id := ids.getD p.1 0 } : Tbl))

theorem flushTables_ents (s : Lsm) (ids : List Nat) :
    (flushTables s ids).map (·.ents) = (s.imm ++ [s.mem]).filter (fun m => !m.isEmpty) := by
  unfold flushTables
  rw [List.map_map]
  exact LL.zipIdx_map_snd _

theorem flushAll_eq {s : Lsm} {l0 : List Tbl} {rest : List (List Tbl)} (hl : s.levels = l0 :: rest)
    (ids : List Nat) :
    s.flushAll ids = { mem := [], imm := [], levels := (l0 ++ flushTables s ids) :: rest } := by
  unfold Lsm.flushAll flushTables
  rw [hl]

theorem allEntries_flushAll {s : Lsm} (h0 : 0 < s.levels.length) (ids : List Nat) :
    (s.flushAll ids).allEntries = s.allEntries := by
  cases hl : s.levels with
  | nil => rw [hl] at h0; cases h0
  | cons l0 rest =>
    rw [flushAll_eq hl]
    unfold Lsm.allEntries Lsm.sources
    simp only [hl, List.reverse_nil, List.reverse_append, List.map_append, List.flatten_append,
      List.flatten_cons, List.flatten_nil, List.nil_append, List.append_assoc]
    have : (List.map (fun x => x.ents) (flushTables s ids).reverse).flatten = s.mem ++ s.imm.reverse.flatten := by
      rw [List.map_reverse, flushTables_ents, ← List.filter_reverse, flatten_filter_nonempty]
      simp
    rw [this, List.append_assoc]

theorem mem_flushTables {s : Lsm} {ids : List Nat} {t : Tbl} (ht : t ∈ flushTables s ids) :
    t.ents ≠ [] ∧ (t.ents = s.mem ∨ t.ents ∈ s.imm) := by
  have : t.ents ∈ (flushTables s ids).map (·.ents) := List.mem_map.mpr ⟨t, ht, rfl⟩
  rw [flushTables_ents, List.mem_filter, List.mem_append] at this
  obtain ⟨hm, hne⟩ := this
  refine ⟨?_, ?_⟩
  · intro h; rw [h] at hne; simp at hne
  · rcases hm with h | h
    · exact .inr h
    · exact .inl (by simpa using h)

theorem flushAll_inv {s : Lsm} (h : LsmInv s) (h0 : 0 < s.levels.length) (ids : List Nat) :
    LsmInv (s.flushAll ids) := by
  have hall := allEntries_flushAll h0 ids
  cases hl : s.levels with
  | nil => rw [hl] at h0; cases h0
  | cons l0 rest =>
    rw [flushAll_eq hl] at hall ⊢
    refine ⟨sortedEnts_nil, fun m hm => (by cases hm), ?_, fun e he => h.2.2.2 e (hall ▸ he)⟩
    rintro ⟨i, tbls⟩ hp
    have hi := (LL.mem_zipIdx _ _ _).mp hp
    simp only at hi ⊢
    cases i with
    | zero =>
      simp only [List.getElem?_cons_zero, Option.some.injEq] at hi
      subst hi
      refine ⟨?_, fun h1 => by omega⟩
      intro t ht
      rcases List.mem_append.mp ht with h1 | h1
      · exact (h.level (i := 0) (by rw [hl]; rfl)).1 t h1
      · obtain ⟨hne, hsrc⟩ := mem_flushTables h1
        refine ⟨hne, ?_⟩
        rcases hsrc with h2 | h2
        · rw [h2]; exact h.1
        · exact h.2.1 _ h2
    | succ j =>
      simp only [List.getElem?_cons_succ] at hi
      exact h.level (i := j + 1) (by rw [hl]; simpa using hi)

theorem flushAll_verBound {s : Lsm} (hv : VerBound s) (h0 : 0 < s.levels.length) (ids : List Nat) :
    VerBound (s.flushAll ids) := by
  intro e he
  rw [allEntries_flushAll h0 ids] at he
  exact hv e he

theorem flushAll_layeredX {s : Lsm} (hl : LayeredX s) (h0 : 0 < s.levels.length) (ids : List Nat) :
    LayeredX (s.flushAll ids) := by
  obtain ⟨_, p2, p3⟩ := (LL.layeredX_iff s).mp hl
  cases hlv : s.levels with
  | nil => rw [hlv] at h0; cases h0
  | cons l0 rest =>
    rw [flushAll_eq hlv, LL.layeredX_iff]
    refine ⟨by simp, ?_, ?_⟩
    · intro x hx
      simp [LL.memEnts] at hx
    · intro i i' tbls tbls' t t' hi hi' hlt ht ht' x hx e he hk
      simp only at hi hi'
      have hi'' : s.levels[i']? = some tbls' := by
        cases i' with
        | zero => omega
        | succ j => rw [hlv]; simpa using hi'
      cases i with
      | zero =>
        simp only [List.getElem?_cons_zero, Option.some.injEq] at hi
        subst hi
        rcases List.mem_append.mp ht with h1 | h1
        · exact p3 0 i' l0 tbls' t t' (by rw [hlv]; rfl) hi'' hlt h1 ht' x hx e he hk
        · obtain ⟨_, hsrc⟩ := mem_flushTables h1
          have hxm : x ∈ LL.memEnts s := by
            rw [LL.mem_memEnts]
            rcases hsrc with h2 | h2
            · exact ⟨s.mem, by simp, h2 ▸ hx⟩
            · exact ⟨t.ents, by simp [h2], hx⟩
          exact p2 x hxm i' tbls' t' hi'' ht' e he hk
      | succ j =>
        have : s.levels[j + 1]? = some tbls := by rw [hlv]; simpa using hi
        exact p3 (j + 1) i' tbls tbls' t t' this hi'' hlt ht ht' x hx e he hk


/-! ## 2. the groups of one level -/

/-- positions (in `cur`) of the tables of a group -/
def groupPos (cur grp : List Tbl) : List Nat :=
  (zipIdx cur).filterMap (fun (p : Nat × Tbl) => if p.2 ∈ grp then some p.1 else none)

theorem mem_groupPos {cur grp : List Tbl} {j : Nat} :
    j ∈ groupPos cur grp ↔ ∃ t, cur[j]? = some t ∧ t ∈ grp := mem_groupPositions

theorem groupPos_incr (cur grp : List Tbl) : (groupPos cur grp).Pairwise (· < ·) := by
  have h1 : ((zipIdx cur).map (·.1)).Pairwise (· < ·) := by
    unfold zipIdx
    rw [List.map_fst_zip (by simp)]
    exact List.pairwise_lt_range
  have h2 : (zipIdx cur).Pairwise (fun p q => p.1 < q.1) := List.pairwise_map.mp h1
  unfold groupPos
  apply List.Pairwise.filterMap _ _ h2
  intro a a' haa b hb b' hb'
  by_cases h : a.2 ∈ grp <;> by_cases h' : a'.2 ∈ grp <;> simp_all

/-- the compaction a group step issues -/
def groupCd (s : Lsm) (lvl : Nat) (ps : List Bytes) (grp : List Tbl) (st : DropStep) : CompactDef :=
  { thisLevel := lvl, nextLevel := lvl, top := [], bot := groupPos (s.levels.getD lvl []) grp,
    outSizes := st.outSizes, outIds := st.outIds, dropPrefixes := ps }

theorem dropGroupStep_eq (s : Lsm) (lvl : Nat) (ps : List Bytes) (numKeep : Nat) (grp : List Tbl)
    (st : DropStep) :
    s.dropGroupStep lvl ps numKeep grp st =
      if (groupPos (s.levels.getD lvl []) grp).length != grp.length then none
      else s.compact (groupCd s lvl ps grp st) st.discardTs numKeep st.now := rfl

/-- the groups are runs in increasing order, all inside the level -/
def GChain (len : Nat) : Nat → List (List Nat) → Prop
  | _, [] => True
  | c, g :: gs => ∃ a m, g = List.range' a m ∧ c ≤ a ∧ a + m ≤ len ∧ GChain len (a + m) gs

theorem dropGroupsAux_chain (ps : List Bytes) (ts : List Tbl) (i a n c : Nat) (h : a + n = i) (hc : c ≤ a) :
    GChain (i + ts.length) c (dropGroupsAux ps i ts (List.range' a n)) := by
  induction ts generalizing i a n c with
  | nil =>
    unfold dropGroupsAux finishGroup
    cases n with
    | zero => simp [GChain]
    | succ n =>
      simp only [List.range'_succ, List.isEmpty_cons, Bool.false_eq_true, if_false, GChain]
      exact ⟨a, n + 1, by simp [List.range'_succ], hc, by simp; omega, trivial⟩
  | cons t ts ih =>
    rw [dropGroupsAux]
    split
    · have : List.range' a n ++ [i] = List.range' a (n + 1) := by
        rw [List.range'_concat, Nat.one_mul, h]
      rw [this]
      have := ih (i + 1) a (n + 1) c (by omega) hc
      rwa [show i + 1 + ts.length = i + (t :: ts).length by simp; omega] at this
    · have hrest := fun c' (hc' : c' ≤ i + 1) => ih (i + 1) (i + 1) 0 c' (by omega) hc'
      simp only [List.range'_zero] at hrest
      unfold finishGroup
      cases n with
      | zero =>
        simp only [List.range'_zero, List.isEmpty_nil, if_true, List.nil_append]
        have := hrest c (by omega)
        rwa [show i + 1 + ts.length = i + (t :: ts).length by simp; omega] at this
      | succ n =>
        simp only [List.range'_succ, List.isEmpty_cons, Bool.false_eq_true, if_false, List.cons_append,
          List.nil_append, GChain]
        refine ⟨a, n + 1, by simp [List.range'_succ], hc, by simp; omega, ?_⟩
        have := hrest (a + (n + 1)) (by omega)
        rwa [show i + 1 + ts.length = i + (t :: ts).length by simp; omega] at this

theorem dropGroups_chain (T : List Tbl) (ps : List Bytes) : GChain T.length 0 (dropGroups T ps) := by
  have := dropGroupsAux_chain ps T 0 0 0 0 rfl (Nat.le_refl _)
  simpa [dropGroups] using this

/-- where the tables of the level come from during the pass over the original level `T`, with
    everything before index `c` already handled: original tables, or new tables made of entries of
    original tables before `c` -/
def RunInv (T : List Tbl) (c : Nat) (cur : List Tbl) : Prop :=
  ∀ u ∈ cur, (∃ j : Nat, T[j]? = some u) ∨
    (∀ y ∈ u.ents, ∃ (j : Nat) (t : Tbl), j < c ∧ T[j]? = some t ∧ y ∈ t.ents)

theorem sep_asymm {u v : Tbl} (hu : u.ents ≠ []) (hv : v.ents ≠ []) (h1 : LL.Sep LL.keyLt u v)
    (h2 : LL.Sep LL.keyLt v u) : False := by
  obtain ⟨x, hx⟩ := List.exists_mem_of_ne_nil _ hu
  obtain ⟨y, hy⟩ := List.exists_mem_of_ne_nil _ hv
  exact LL.klt_asymm (h1 x hx y hy) (h2 y hy x hx)

/-- the step of the pass on the group `[a, a+m)` of the original level has the shape
    `IsDropGroup` in the current state -/
theorem group_isDropGroup {s : Lsm} {lvl : Nat} {ps : List Bytes} {st : DropStep} {T : List Tbl}
    {c a m : Nat} (h : LsmInv s) (h1 : 1 ≤ lvl) (hlt : lvl < s.levels.length) (hTkd : KeyDisjoint T)
    (hinv : RunInv T c (s.levels.getD lvl [])) (hca : c ≤ a) :
    IsDropGroup s (groupCd s lvl ps (pickIdx T (List.range' a m)) st) where
  lvl1 := h1
  lt := hlt
  same := rfl
  top := rfl
  incr := groupPos_incr _ _
  convex := by
    intro j hj
    simp only [groupCd] at hj ⊢
    have hlv : s.levels[lvl]? = some (s.levels.getD lvl []) := LL.levels_getD hlt
    obtain ⟨hok, hkd⟩ := h.level hlv
    have hpw := List.pairwise_iff_getElem.mp (hkd h1)
    have hTpw := List.pairwise_iff_getElem.mp hTkd
    by_cases hjl : j < (s.levels.getD lvl []).length
    · -- the table at `j` is not in the group: it is key-wise before or after the whole group
      have hu : (s.levels.getD lvl [])[j] ∉ pickIdx T (List.range' a m) := by
        intro hmem
        exact hj (mem_groupPos.mpr ⟨_, List.getElem?_eq_getElem hjl, hmem⟩)
      have humem : (s.levels.getD lvl [])[j] ∈ s.levels.getD lvl [] := List.getElem_mem hjl
      have hside : (∀ v ∈ pickIdx T (List.range' a m), LL.Sep LL.keyLt (s.levels.getD lvl [])[j] v) ∨
          (∀ v ∈ pickIdx T (List.range' a m), LL.Sep LL.keyLt v (s.levels.getD lvl [])[j]) := by
        rcases hinv _ humem with ⟨i, hi⟩ | hnew
        · obtain ⟨hil, hie⟩ := List.getElem?_eq_some_iff.mp hi
          have hnotin : ¬ (a ≤ i ∧ i < a + m) := by
            intro hin
            exact hu (LL.mem_pickIdx.mpr ⟨i, List.mem_range'_1.mpr hin, hi⟩)
          by_cases hia : i < a
          · left
            intro v hv
            obtain ⟨i', hi'm, hi'⟩ := LL.mem_pickIdx.mp hv
            obtain ⟨hi'l, rfl⟩ := List.getElem?_eq_some_iff.mp hi'
            rw [List.mem_range'_1] at hi'm
            rw [← hie]
            exact hTpw i i' hil hi'l (by omega)
          · right
            intro v hv
            obtain ⟨i', hi'm, hi'⟩ := LL.mem_pickIdx.mp hv
            obtain ⟨hi'l, rfl⟩ := List.getElem?_eq_some_iff.mp hi'
            rw [List.mem_range'_1] at hi'm
            rw [← hie]
            exact hTpw i' i hi'l hil (by omega)
        · left
          intro v hv y hy z hz
          obtain ⟨i', hi'm, hi'⟩ := LL.mem_pickIdx.mp hv
          obtain ⟨hi'l, rfl⟩ := List.getElem?_eq_some_iff.mp hi'
          rw [List.mem_range'_1] at hi'm
          obtain ⟨i, t, hic, hit, hyt⟩ := hnew y hy
          obtain ⟨hil, rfl⟩ := List.getElem?_eq_some_iff.mp hit
          exact hTpw i i' hil hi'l (by omega) y hyt z hz
      have hune := (hok _ humem).1
      rcases hside with hs | hs
      · left
        intro j' hj'
        obtain ⟨v, hjv, hvg⟩ := mem_groupPos.mp hj'
        obtain ⟨hj'l, rfl⟩ := List.getElem?_eq_some_iff.mp hjv
        rcases Nat.lt_trichotomy j j' with hlt' | heq | hgt
        · exact hlt'
        · subst heq; exact absurd hvg hu
        · exact absurd (hpw j' j hj'l hjl hgt)
            (fun h2 => sep_asymm hune (hok _ (List.getElem_mem hj'l)).1 (hs _ hvg) h2)
      · right
        intro j' hj'
        obtain ⟨v, hjv, hvg⟩ := mem_groupPos.mp hj'
        obtain ⟨hj'l, rfl⟩ := List.getElem?_eq_some_iff.mp hjv
        rcases Nat.lt_trichotomy j j' with hlt' | heq | hgt
        · exact absurd (hpw j j' hjl hj'l hlt')
            (fun h2 => sep_asymm hune (hok _ (List.getElem_mem hj'l)).1 h2 (hs _ hvg))
        · subst heq; exact absurd hvg hu
        · exact hgt
    · right
      intro j' hj'
      obtain ⟨v, hjv, _⟩ := mem_groupPos.mp hj'
      have := (List.getElem?_eq_some_iff.mp hjv).1
      omega


/-- the implementation cut the output tables of this compaction where the user key changes -/
def StepCuts (s : Lsm) (cd : CompactDef) (d n now : Nat) : Prop :=
  ∀ new0, splitSizes cd.outSizes (compactOutput s cd d n now).1 = some new0 →
    CutsAtKeyChange (withIds new0 cd.outIds)

/-- … for every group rewrite of a pass over one level -/
def groupsCuts (lvl : Nat) (ps : List Bytes) (numKeep : Nat) : List (List Tbl) → Lsm → List DropStep → Prop
  | g :: gs, s, st :: steps =>
    StepCuts s (groupCd s lvl ps g st) st.discardTs numKeep st.now ∧
      (match s.dropGroupStep lvl ps numKeep g st with
       | some s' => groupsCuts lvl ps numKeep gs s' steps
       | none => True)
  | _, _, _ => True

/-- what a (partial) pass establishes -/
structure RunOut (ps : List Bytes) (steps : List DropStep) (lvl : Nat) (s s' : Lsm) : Prop where
  inv : LsmInv s'
  ver : VerBound s'
  lay : LayeredX s'
  reads : ∀ (k : Bytes) (ts now : Nat), hasAnyPrefix k ps = false →
    (∀ st ∈ steps, st.discardTs ≤ ts ∧ st.now ≤ now) → s'.specGet k ts now = s.specGet k ts now
  sub : ∀ e ∈ s'.allEntries, e ∈ s.allEntries
  mem : s'.mem = s.mem
  imm : s'.imm = s.imm
  len : s'.levels.length = s.levels.length
  other : ∀ j, j ≠ lvl → s'.levels[j]? = s.levels[j]?

theorem level_after {s s' : Lsm} {cd : CompactDef} {d n now : Nat} (g : IsDropGroup s cd)
    (hs : s.compact cd d n now = some s') :
    ∃ new0, splitSizes cd.outSizes (compactOutput s cd d n now).1 = some new0 ∧
      ∀ t, t ∈ s'.levels.getD cd.thisLevel [] ↔
        t ∈ removeIdx (cdNextT s cd) cd.bot ∨ t ∈ withIds new0 cd.outIds := by
  obtain ⟨new0, hsp, rfl⟩ := LL.compact_some hs
  refine ⟨new0, hsp, ?_⟩
  intro t
  have hg := LL.newLevels_get (s := s) (cd := cd) new0 g.lt (DG.next_lt g) cd.thisLevel
  rw [if_neg (fun e => e.2 g.same.symm), if_pos g.same.symm] at hg
  have hlv : ({ s with levels := LL.newLevels s cd new0 } : Lsm).levels.getD cd.thisLevel [] =
      LL.newNext s cd new0 := getD_of_getElem? (s := { s with levels := LL.newLevels s cd new0 }) hg
  rw [hlv]
  unfold LL.newNext
  rw [LL.mem_sortBySmallest, if_pos g.same.symm, g.top, List.nil_append, List.mem_append]

theorem groupsRun_reads {T : List Tbl} (hTkd : KeyDisjoint T) {lvl : Nat} {ps : List Bytes} {numKeep : Nat}
    (h1 : 1 ≤ lvl) :
    ∀ (gs : List (List Nat)) (c : Nat) (s : Lsm) (steps : List DropStep) (s' : Lsm) (steps' : List DropStep),
      GChain T.length c gs → LsmInv s → VerBound s → LayeredX s → lvl < s.levels.length →
      RunInv T c (s.levels.getD lvl []) →
      groupsCuts lvl ps numKeep (gs.map (pickIdx T)) s steps →
      Lsm.dropGroupsRun lvl ps numKeep (gs.map (pickIdx T)) s steps = some (s', steps') →
      RunOut ps steps lvl s s' ∧ (∀ st ∈ steps', st ∈ steps) := by
  intro gs
  induction gs with
  | nil =>
    intro c s steps s' steps' _ h hv hl _ _ _ hrun
    simp only [List.map_nil, Lsm.dropGroupsRun, Option.some.injEq, Prod.mk.injEq] at hrun
    obtain ⟨rfl, rfl⟩ := hrun
    exact ⟨⟨h, hv, hl, fun _ _ _ _ _ => rfl, fun _ h => h, rfl, rfl, rfl, fun _ _ => rfl⟩, fun _ h => h⟩
  | cons g gs ih =>
    intro c s steps s' steps' hch h hv hl hlt hinv hcuts hrun
    obtain ⟨a, m, rfl, hca, _, hch'⟩ := hch
    cases steps with
    | nil => simp [Lsm.dropGroupsRun] at hrun
    | cons st steps1 =>
      simp only [List.map_cons] at hrun hcuts
      rw [Lsm.dropGroupsRun] at hrun
      cases hds : s.dropGroupStep lvl ps numKeep (pickIdx T (List.range' a m)) st with
      | none => rw [hds] at hrun; cases hrun
      | some s1 =>
        rw [hds] at hrun
        simp only at hrun
        simp only [groupsCuts, hds] at hcuts
        obtain ⟨hcut, hcuts'⟩ := hcuts
        rw [dropGroupStep_eq] at hds
        split at hds
        · cases hds
        · have g := group_isDropGroup (ps := ps) (st := st) (m := m) h h1 hlt hTkd hinv hca
          have i1 := C29_group_step_inv h g hds hcut
          have v1 := C29_group_step_verBound h hv g hds
          have l1 := C29_group_step_layeredX h hl g hds
          obtain ⟨m1, im1, len1, o1, _⟩ := compact_same_level (cd := groupCd s lvl ps _ st) hlt rfl rfl hds
          -- the invariant of the pass after this step
          have hinv1 : RunInv T (a + m) (s1.levels.getD lvl []) := by
            obtain ⟨new0, hsp, hmem⟩ := level_after g hds
            intro u hu
            rcases (hmem u).mp hu with hkept | hnew
            · obtain ⟨j, hj, _⟩ := LL.mem_removeIdx.mp hkept
              rcases hinv u (List.mem_of_getElem? hj) with ho | hn
              · exact .inl ho
              · right
                intro y hy
                obtain ⟨i, t, hic, hit, hyt⟩ := hn y hy
                exact ⟨i, t, by omega, hit, hyt⟩
            · right
              intro y hy
              have hyo := ((DG.new_tables h g hsp).1 u hnew).2 y hy
              obtain ⟨t0, ht0, hyt0⟩ := LL.mem_botEnts.mp (DG.out_mem_bots g hyo)
              obtain ⟨j', hj'm, hj'⟩ := LL.mem_pickIdx.mp ht0
              obtain ⟨t, hjt, htg⟩ := mem_groupPos.mp hj'm
              have : t0 = t := by
                have h2 : (s.levels.getD lvl [])[j']? = some t0 := hj'
                rw [hjt] at h2; exact (Option.some.inj h2).symm
              subst this
              obtain ⟨i, him, hit⟩ := LL.mem_pickIdx.mp htg
              rw [List.mem_range'_1] at him
              exact ⟨i, t0, by omega, hit, hyt0⟩
          obtain ⟨o2, hsub⟩ := ih (a + m) s1 steps1 s' steps' hch' i1 v1 l1 (by omega) hinv1
            hcuts' hrun
          refine ⟨⟨o2.inv, o2.ver, o2.lay, ?_, fun e he => C29_group_step_subset h g hds e (o2.sub e he),
            o2.mem.trans m1, o2.imm.trans im1,
            o2.len.trans len1, fun j hj => (o2.other j hj).trans (o1 j hj)⟩, ?_⟩
          · intro k ts now hk hb
            have hbst := hb st List.mem_cons_self
            exact (o2.reads k ts now hk (fun st' hst' => hb st' (List.mem_cons_of_mem _ hst'))).trans
              (C29_group_step_reads h hv hl g hds hk hbst.1 hbst.2)
          exact fun st' hst' => List.mem_cons_of_mem _ (hsub st' hst')


/-- the cut condition for the pass over one level … -/
def levelCuts (s : Lsm) (lvl : Nat) (ps : List Bytes) (numKeep : Nat) (steps : List DropStep) : Prop :=
  groupsCuts lvl ps numKeep
    ((dropGroups (s.levels.getD lvl []) ps).map (fun g => pickIdx (s.levels.getD lvl []) g)) s steps

theorem levelRun_reads {s s' : Lsm} {lvl : Nat} {ps : List Bytes} {numKeep : Nat} {steps steps' : List DropStep}
    (h : LsmInv s) (hv : VerBound s) (hl : LayeredX s) (h1 : 1 ≤ lvl)
    (hlt : lvl < s.levels.length) (hcuts : levelCuts s lvl ps numKeep steps)
    (hrun : s.dropLevelRun lvl ps numKeep steps = some (s', steps')) :
    RunOut ps steps lvl s s' ∧ (∀ st ∈ steps', st ∈ steps) := by
  unfold Lsm.dropLevelRun at hrun
  unfold levelCuts at hcuts
  have hlv : s.levels[lvl]? = some (s.levels.getD lvl []) := LL.levels_getD hlt
  have hkd := (h.level hlv).2 h1
  apply groupsRun_reads hkd h1 (dropGroups (s.levels.getD lvl []) ps) 0 s steps s' steps'
    (dropGroups_chain _ _) h hv hl hlt _ hcuts hrun
  intro u hu
  obtain ⟨j, hj, rfl⟩ := List.getElem_of_mem hu
  exact .inl ⟨j, List.getElem?_eq_getElem hj⟩

theorem dropLevelRun_nil {s : Lsm} {lvl : Nat} (hnil : s.levels.getD lvl [] = []) (ps : List Bytes)
    (numKeep : Nat) (steps : List DropStep) : s.dropLevelRun lvl ps numKeep steps = some (s, steps) := by
  unfold Lsm.dropLevelRun
  rw [hnil]
  rfl

/-- … and for the passes over all levels `≥ 1` -/
def levelsCuts (ps : List Bytes) (numKeep : Nat) : List Nat → Lsm → List DropStep → Prop
  | [], _, _ => True
  | l :: ls, s, steps =>
    levelCuts s l ps numKeep steps ∧
      (match s.dropLevelRun l ps numKeep steps with
       | some (s', steps') => levelsCuts ps numKeep ls s' steps'
       | none => True)

/-- what the passes over the levels `≥ 1` establish -/
structure LevelsOut (ps : List Bytes) (steps : List DropStep) (lvls : List Nat) (s s' : Lsm) : Prop where
  inv : LsmInv s'
  ver : VerBound s'
  lay : LayeredX s'
  reads : ∀ (k : Bytes) (ts now : Nat), hasAnyPrefix k ps = false →
    (∀ st ∈ steps, st.discardTs ≤ ts ∧ st.now ≤ now) → s'.specGet k ts now = s.specGet k ts now
  sub : ∀ e ∈ s'.allEntries, e ∈ s.allEntries
  mem : s'.mem = s.mem
  imm : s'.imm = s.imm
  len : s'.levels.length = s.levels.length
  other : ∀ j, j ∉ lvls → s'.levels[j]? = s.levels[j]?
  empty : ∀ j, s.levels.getD j [] = [] → s'.levels.getD j [] = []

theorem levelsRun_reads {ps : List Bytes} {numKeep : Nat} :
    ∀ (lvls : List Nat) (s : Lsm) (steps : List DropStep) (s' : Lsm) (steps' : List DropStep),
      (∀ l ∈ lvls, 1 ≤ l ∧ l < s.levels.length) → LsmInv s → VerBound s → LayeredX s →
      levelsCuts ps numKeep lvls s steps →
      Lsm.dropLevelsRun ps numKeep lvls s steps = some (s', steps') →
      LevelsOut ps steps lvls s s' ∧ (∀ st ∈ steps', st ∈ steps) := by
  intro lvls
  induction lvls with
  | nil =>
    intro s steps s' steps' _ h hv hl _ hrun
    simp only [Lsm.dropLevelsRun, Option.some.injEq, Prod.mk.injEq] at hrun
    obtain ⟨rfl, rfl⟩ := hrun
    exact ⟨⟨h, hv, hl, fun _ _ _ _ _ => rfl, fun _ h => h, rfl, rfl, rfl, fun _ _ => rfl, fun _ h => h⟩,
      fun _ h => h⟩
  | cons l ls ih =>
    intro s steps s' steps' hrange h hv hl hcuts hrun
    rw [Lsm.dropLevelsRun] at hrun
    cases h1 : s.dropLevelRun l ps numKeep steps with
    | none => rw [h1] at hrun; cases hrun
    | some r =>
      obtain ⟨s1, steps1⟩ := r
      rw [h1] at hrun
      simp only at hrun
      simp only [levelsCuts, h1] at hcuts
      obtain ⟨hr1, hr2⟩ := hrange l List.mem_cons_self
      obtain ⟨o1, hsub1⟩ := levelRun_reads h hv hl hr1 hr2 hcuts.1 h1
      obtain ⟨o2, hsub2⟩ := ih s1 steps1 s' steps'
        (fun l' hl' => by rw [o1.len]; exact hrange l' (List.mem_cons_of_mem _ hl'))
        o1.inv o1.ver o1.lay hcuts.2 hrun
      refine ⟨⟨o2.inv, o2.ver, o2.lay,
        fun k ts now hk hb => (o2.reads k ts now hk (fun st hst => hb st (hsub1 st hst))).trans
          (o1.reads k ts now hk hb),
        fun e he => o1.sub e (o2.sub e he), o2.mem.trans o1.mem, o2.imm.trans o1.imm,
        o2.len.trans o1.len, ?_, ?_⟩, fun st hst => hsub1 st (hsub2 st hst)⟩
      · intro j hj
        have hj1 : j ≠ l := fun e => hj (e ▸ List.mem_cons_self)
        have hj2 : j ∉ ls := fun e => hj (List.mem_cons_of_mem _ e)
        exact (o2.other j hj2).trans (o1.other j hj1)
      · intro j hj
        apply o2.empty j
        by_cases hjl : j = l
        · subst hjl
          rw [dropLevelRun_nil hj] at h1
          simp only [Option.some.injEq, Prod.mk.injEq] at h1
          rw [← h1.1]; exact hj
        · rw [getD_congr (o1.other j hjl)]; exact hj

/-! ## 3. compactions with `dropPrefixes` on the ordinary shapes -/

namespace PF

variable {s : Lsm} {cd : CompactDef}

/-- what the compaction merges, with the `keepTable` skip -/
def mergedV (s : Lsm) (cd : CompactDef) : List Ent :=
  mergeAll ((if cd.thisLevel == 0 then (cdTops s cd).reverse.map (·.ents) else (cdTops s cd).map (·.ents)) ++
    [DG.validEnts s cd])

theorem output_eq (s : Lsm) (cd : CompactDef) (d n now : Nat) :
    (compactOutput s cd d n now).1 = subcompact (DG.params s cd d n now) (mergedV s cd) := rfl

theorem sources_sorted (h : LsmInv s) (hc : CompactOk s cd) :
    ∀ src ∈ (if cd.thisLevel == 0 then (cdTops s cd).reverse.map (·.ents) else (cdTops s cd).map (·.ents)) ++
      [DG.validEnts s cd], SortedEnts src := by
  intro src hsrc
  rcases List.mem_append.mp hsrc with h1 | h1
  · exact LL.merged_sources_sorted h hc src (List.mem_append_left _ h1)
  · simp only [List.mem_singleton] at h1
    subst h1
    exact (LL.botEnts_sorted h hc).sublist DG.validEnts_sublist

theorem mergedV_sorted (h : LsmInv s) (hc : CompactOk s cd) : SortedEnts (mergedV s cd) :=
  C12_merge_sorted (sources_sorted h hc)

theorem nl_validEnts (h : LsmInv s) (hc : CompactOk s cd) {k : Bytes}
    (hk : hasAnyPrefix k cd.dropPrefixes = false) (ts : Nat) :
    newestLE (DG.validEnts s cd) k ts = newestLE (LL.botEnts s cd) k ts := by
  unfold DG.validEnts LL.botEnts
  apply DG.newestLE_flatten_filter
  intro t ht hsk e he hek
  have hsk' : skippedByKeepTable cd.dropPrefixes t = true := by simpa using hsk
  have hts : SortedEnts t.ents := ((LL.next_level h hc.1).2.1 t (LL.bots_mem ht)).2
  have := C29_keepTable_sound hts hsk' e he
  rw [hek, hk] at this; cases this

theorem nl_mergedV (h : LsmInv s) (hc : CompactOk s cd) {k : Bytes}
    (hk : hasAnyPrefix k cd.dropPrefixes = false) (ts : Nat) :
    newestLE (mergedV s cd) k ts = newestLE (LL.cdMerged s cd) k ts := by
  unfold mergedV LL.cdMerged
  rw [C12_merge_reads (sources_sorted h hc), C12_merge_reads (LL.merged_sources_sorted h hc),
    List.flatten_append, List.flatten_append, newestLE_append, newestLE_append]
  simp only [List.flatten_cons, List.flatten_nil, List.append_nil]
  rw [nl_validEnts h hc hk]

theorem mem_mergedV {e : Ent} (he : e ∈ mergedV s cd) : e ∈ LL.topEnts s cd ∨ e ∈ LL.botEnts s cd := by
  have := C12_merge_mem_flatten he
  rw [List.flatten_append, LL.topSrcs_flatten] at this
  rcases List.mem_append.mp this with h1 | h1
  · left
    obtain ⟨t, ht, hx⟩ := LL.mem_lvlChunk.mp h1
    exact LL.mem_topEnts.mpr ⟨t, ht, hx⟩
  · right
    simp only [List.flatten_cons, List.flatten_nil, List.append_nil] at h1
    exact DG.mem_validEnts h1

/-- `LL.reads_core` for a compaction carrying `dropPrefixes`, for a key without a dropped prefix -/
theorem reads_core_pfx {d n now' now ts : Nat} {k : Bytes} (h : LsmInv s)
    (hv : VerBound s) (hc : CompactOk s cd) (hk : hasAnyPrefix k cd.dropPrefixes = false)
    (hn : 1 ≤ cd.nextLevel) (hts : d ≤ ts) (hnow : now' ≤ now) {U Z : Option Ent}
    (hZ : LL.cdHasOverlap s cd = false → ∀ e ∈ LL.topEnts s cd ++ LL.botEnts s cd, e.key = k → Z = none)
    (hU : ∀ x e, U = some x → e ∈ LL.topEnts s cd ++ LL.botEnts s cd → e.key = k → e.ver ≤ x.ver) :
    visible now (LL.pick U (LL.pick (newestLE (compactOutput s cd d n now').1 k ts)
        (LL.pick (newestLE (LL.keptEnts s cd) k ts) Z))) =
      visible now (LL.pick U (LL.pick (newestLE (LL.cdMerged s cd) k ts)
        (LL.pick (newestLE (LL.keptEnts s cd) k ts) Z))) := by
  rw [output_eq]
  apply LL.read_fallthrough
  have hp : (DG.params s cd d n now').discardTs ≤ ts := hts
  have hkp : hasAnyPrefix k (DG.params s cd d n now').dropPrefixes = false := hk
  rcases C29_filter_other_keys_refined (mergedV_sorted h hc) hp hkp with heq | ⟨hnone, hov, e, he, hdead⟩
  · exact .inl (heq.trans (nl_mergedV h hc hk ts))
  · right
    rw [nl_mergedV h hc hk] at he
    obtain ⟨m1, m2, _, _⟩ := LL.newestLE_some he
    have hin : e ∈ LL.topEnts s cd ++ LL.botEnts s cd := List.mem_append.mpr (LL.mem_merged m1)
    refine ⟨hnone, e, he, deletedOrExpired_mono hnow hdead, ?_, fun x hx => hU x e hx hin m2⟩
    have h1 := LL.kept_no_key h hv hc hn hin ts
    rw [m2] at h1
    rw [h1, hZ hov e hin m2]; rfl

/-- `LL.compact_reads_two` (L0 → Lbase, Li → Li+1) for a compaction carrying `dropPrefixes` -/
theorem compact_reads_two_pfx {s' : Lsm} {d n now' now ts : Nat} {k : Bytes} (h : LsmInv s)
    (hv : VerBound s) (hl : LayeredX s) (hc : CompactOk s cd) (hto : cd.thisLevel = 0 → TopsOldest s cd)
    (hk : hasAnyPrefix k cd.dropPrefixes = false)
    (hs : s.compact cd d n now' = some s') (hts : d ≤ ts) (hnow : now' ≤ now)
    (hpq : cd.thisLevel < cd.nextLevel)
    (hM : LL.readLv k ts (cd.thisLevel + 1)
      ((s.levels.drop (cd.thisLevel + 1)).take (cd.nextLevel - cd.thisLevel - 1)) = none) :
    visible now (s'.get k ts) = visible now (s.get k ts) := by
  have hinvW := LL.compact_invW h hv hc hs
  obtain ⟨new0, hsp, rfl⟩ := LL.compact_some hs
  have hne : cd.thisLevel ≠ cd.nextLevel := by omega
  have hn : 1 ≤ cd.nextLevel := by omega
  have hq := hc.1.2.1
  rw [LL.get_eq_newestLE hinvW, LL.get_eq_newestLE (LL.lsmInv_weaken h), LL.newestLE_allEntries,
    LL.newestLE_allEntries]
  have hmem : LL.memEnts ({ s with levels := LL.newLevels s cd new0 } : Lsm) = LL.memEnts s := rfl
  rw [hmem]
  simp only
  have hnl : LL.newLevels s cd new0 =
      (s.levels.set cd.nextLevel (LL.newNext s cd new0)).set cd.thisLevel (removeIdx (cdThisT s cd) cd.top) := by
    unfold LL.newLevels; rw [if_neg hne]
  rw [hnl, LL.readLv_two k ts hpq hq, LL.readLv_two_self k ts hpq hq, LL.thisT_eq (by omega), LL.nextT_eq hq, hM,
    LL.nl_this_split h hc hne, LL.nl_next_old h hc hne hn, LL.nl_next_new h hv hc hsp hn]
  have core := reads_core_pfx (s := s) (cd := cd) (d := d) (n := n) (now' := now') (now := now) (ts := ts) (k := k)
    h hv hc hk hn hts hnow
    (U := LL.pick (LL.pick (newestLE (LL.memEnts s) k ts) (LL.readLv k ts 0 (s.levels.take cd.thisLevel)))
      (newestLE (LL.lvlChunk cd.thisLevel (removeIdx (cdThisT s cd) cd.top)) k ts))
    (Z := LL.readLv k ts (cd.nextLevel + 1) (s.levels.drop (cd.nextLevel + 1)))
    (by
      intro hov e he hk
      have := LL.below_no_key h hv hc hov he ts
      rwa [hk] at this)
    (by
      intro x e hx he hk
      rcases LL.pick_some hx with ⟨h1, _⟩ | ⟨h1, _⟩
      · exact LL.upper_rec h hl hc (by omega) h1 he hk
      · obtain ⟨m1, m2, _, _⟩ := LL.newestLE_some h1
        obtain ⟨t, ht, hxt⟩ := LL.mem_lvlChunk.mp m1
        rcases LL.input_level h hc.1 he with ⟨_, _, _, _, h5⟩ | ⟨t', h2, h3, h4, _⟩
        · exact LL.rem_vs_tops h hc hto hne ht hxt h5 (m2.trans hk.symm)
        · exact LL.layeredX_levels hl (LL.this_level h hc.1).1 h2 hpq ((LL.removeIdx_sublist _ _).subset ht) h3 hxt h4
            (m2.trans hk.symm))
  rw [LL.nl_merged h hc] at core
  simp only [LL.pick_assoc, LL.pick_none_left] at core ⊢
  exact core

end PF


/-! ## the final L0 → base compaction of `DropPrefix` -/

/-- the compaction `dropL0Run` issues -/
def l0Cd (s : Lsm) (ps : List Bytes) (base : Nat) (st : DropStep) : CompactDef :=
  { thisLevel := 0, nextLevel := base, top := List.range (s.levels.getD 0 []).length,
    bot := match keyRangeOf (s.levels.getD 0 []) with
      | some (lo, hi) =>
        List.range' (overlapRange (s.levels.getD base []) lo hi).1
          ((overlapRange (s.levels.getD base []) lo hi).2 - (overlapRange (s.levels.getD base []) lo hi).1)
      | none => [],
    outSizes := st.outSizes, outIds := st.outIds, dropPrefixes := ps }

theorem dropL0Run_eq (s : Lsm) (ps : List Bytes) (base numKeep : Nat) (st : DropStep) (steps : List DropStep)
    (hne : (s.levels.getD 0 []).isEmpty = false) (hb : (base == 0) = false) :
    s.dropL0Run ps base numKeep (st :: steps) =
      match s.compact (l0Cd s ps base st) st.discardTs numKeep st.now with
      | some s' => some (s', steps)
      | none => none := by
  unfold Lsm.dropL0Run
  simp only [hne, hb, Bool.false_eq_true, if_false]
  rfl

/-- the two `sort.Search` predicates of `overlappingTables` -/
def ovL (lo : Ent) (t : Tbl) : Bool := match t.biggest with
  | some b => entCmp lo b != .gt
  | none => false
def ovR (hi : Ent) (t : Tbl) : Bool := match t.smallest with
  | some a => entCmp hi a == .lt
  | none => false

theorem overlapRange_eq (T : List Tbl) (lo hi : Ent) :
    overlapRange T lo hi = (T.findIdx (ovL lo), T.findIdx (ovR hi)) := rfl

theorem tblOverlaps_eq {t : Tbl} (hok : TblOk t) (lo hi : Ent) :
    tblOverlaps lo hi t = (ovL lo t && !ovR hi t) := by
  obtain ⟨a, ha⟩ := LL.smallest_some hok.1
  obtain ⟨b, hb⟩ := LL.biggest_some hok.1
  unfold tblOverlaps ovL ovR
  rw [ha, hb]
  rfl

theorem ov_mono {T : List Tbl} (hok : ∀ t ∈ T, TblOk t) (hkd : KeyDisjoint T) (lo hi : Ent) {i j : Nat}
    (hi' : i < T.length) (hj : j < T.length) (hij : i < j) :
    (ovL lo T[i] = true → ovL lo T[j] = true) ∧ (ovR hi T[i] = true → ovR hi T[j] = true) := by
  have hsep := List.pairwise_iff_getElem.mp hkd i j hi' hj hij
  obtain ⟨ai, hai⟩ := LL.smallest_some (hok _ (List.getElem_mem hi')).1
  obtain ⟨bi, hbi⟩ := LL.biggest_some (hok _ (List.getElem_mem hi')).1
  obtain ⟨aj, haj⟩ := LL.smallest_some (hok _ (List.getElem_mem hj)).1
  obtain ⟨bj, hbj⟩ := LL.biggest_some (hok _ (List.getElem_mem hj)).1
  have hb : entCmp bi bj = .lt :=
    (LL.entCmp_lt_iff _ _).mpr (.inl (hsep bi (LL.biggest_mem hbi) bj (LL.biggest_mem hbj)))
  have ha : entCmp ai aj = .lt :=
    (LL.entCmp_lt_iff _ _).mpr (.inl (hsep ai (LL.smallest_mem hai) aj (LL.smallest_mem haj)))
  unfold ovL ovR
  rw [hai, hbi, haj, hbj]
  constructor
  · intro h
    simp only [bne_iff_ne, ne_eq] at h ⊢
    cases hc : entCmp lo bi with
    | gt => exact absurd hc h
    | lt => rw [entCmp_lt_trans hc hb]; simp
    | eq => rw [entCmp_lt_of_eq_of_lt hc hb]; simp
  · intro h
    simp only [beq_iff_eq] at h ⊢
    exact entCmp_lt_trans h ha

/-- `overlappingTables` returns exactly the tables that intersect the range -/
theorem overlapRange_exact {T : List Tbl} (hok : ∀ t ∈ T, TblOk t) (hkd : KeyDisjoint T) (lo hi : Ent)
    {j : Nat} (hj : j < T.length) :
    j ∈ List.range' (overlapRange T lo hi).1 ((overlapRange T lo hi).2 - (overlapRange T lo hi).1) ↔
      tblOverlaps lo hi T[j] = true := by
  rw [overlapRange_eq, tblOverlaps_eq (hok _ (List.getElem_mem hj)), List.mem_range'_1]
  simp only
  have hL : T.findIdx (ovL lo) ≤ j ↔ ovL lo T[j] = true := by
    constructor
    · intro hle
      have hlt : T.findIdx (ovL lo) < T.length := by omega
      have h0 : ovL lo T[T.findIdx (ovL lo)] = true := List.findIdx_getElem
      rcases Nat.lt_or_ge (T.findIdx (ovL lo)) j with h1 | h1
      · exact (ov_mono hok hkd lo hi hlt hj h1).1 h0
      · have : T.findIdx (ovL lo) = j := by omega
        simpa [this] using h0
    · intro hp
      apply Nat.le_of_not_lt
      intro hlt
      have := List.not_of_lt_findIdx hlt
      rw [hp] at this; cases this
  have hR : j < T.findIdx (ovR hi) ↔ ovR hi T[j] = false := by
    constructor
    · exact fun hlt => List.not_of_lt_findIdx hlt
    · intro hp
      apply Nat.lt_of_not_le
      intro hle
      have hlt : T.findIdx (ovR hi) < T.length := by omega
      have h0 : ovR hi T[T.findIdx (ovR hi)] = true := List.findIdx_getElem
      have : ovR hi T[j] = true := by
        rcases Nat.lt_or_ge (T.findIdx (ovR hi)) j with h1 | h1
        · exact (ov_mono hok hkd lo hi hlt hj h1).2 h0
        · have : T.findIdx (ovR hi) = j := by omega
          simpa [this] using h0
      rw [hp] at this; cases this
  rw [Bool.and_eq_true, Bool.not_eq_true', ← hL, ← hR]
  omega


theorem l0Cd_tops (s : Lsm) (ps : List Bytes) (base : Nat) (st : DropStep) :
    cdTops s (l0Cd s ps base st) = s.levels.getD 0 [] := by
  unfold cdTops cdThisT l0Cd
  simp only
  rw [LL.pickIdx_range _ _ (Nat.le_refl _), List.take_length]

theorem range'_headD (l n : Nat) :
    List.range' l n = List.range' ((List.range' l n).headD 0) (List.range' l n).length ∧
      ((List.range' l n).headD 0 + (List.range' l n).length = if n = 0 then 0 else l + n) := by
  cases n with
  | zero => simp
  | succ n => simp [List.range'_succ]

/-- the final compaction of `DropPrefix` is a well-formed L0 → Lbase compaction -/
theorem l0Cd_ok {s : Lsm} (h : LsmInv s) {ps : List Bytes} {base : Nat} (st : DropStep)
    (hne : s.levels.getD 0 [] ≠ []) (hb0 : 0 < base) (hbl : base < s.levels.length)
    (hbetween : ∀ j, 0 < j → j < base → s.levels.getD j [] = []) :
    CompactOk s (l0Cd s ps base st) ∧ IsL0Lbase s (l0Cd s ps base st) ∧ TopsOldest s (l0Cd s ps base st) := by
  have h0 : 0 < s.levels.length := by omega
  have hlvT : s.levels[base]? = some (s.levels.getD base []) := LL.levels_getD hbl
  obtain ⟨hokT, hkdT⟩ := h.level hlvT
  have hnext : cdNextT s (l0Cd s ps base st) = s.levels.getD base [] := rfl
  have hthis : cdThisT s (l0Cd s ps base st) = s.levels.getD 0 [] := rfl
  have hexact : BotExact s (l0Cd s ps base st) := by
    unfold BotExact
    rw [l0Cd_tops, hnext]
    cases hkr : keyRangeOf (s.levels.getD 0 []) with
    | none => simp only [l0Cd, hkr]
    | some r =>
      obtain ⟨lo, hi⟩ := r
      simp only
      intro j hj
      have : (l0Cd s ps base st).bot = List.range' (overlapRange (s.levels.getD base []) lo hi).1
          ((overlapRange (s.levels.getD base []) lo hi).2 - (overlapRange (s.levels.getD base []) lo hi).1) := by
        simp only [l0Cd, hkr]
      have hgd : (s.levels.getD base []).getD j default = (s.levels.getD base [])[j] := by
        rw [List.getD_eq_getElem?_getD, List.getElem?_eq_getElem hj]; rfl
      rw [this, overlapRange_exact hokT (hkdT hb0) lo hi hj, hgd]
  have hl0 : IsL0Lbase s (l0Cd s ps base st) := by
    refine ⟨rfl, hb0, ?_, ?_, hexact⟩
    · simp [l0Cd]
    · intro j hj1 hj2; exact hbetween j hj2 hj1
  have hbase : CdBase s (l0Cd s ps base st) := by
    refine ⟨h0, hbl, ?_, ?_, ?_, ?_, ?_⟩
    · intro i hi
      rw [hthis]
      simpa [l0Cd] using hi
    · simp only [l0Cd]; exact List.pairwise_lt_range
    · simp only [l0Cd]
      intro hnil
      have : (s.levels.getD 0 []).length = 0 := by simpa using hnil
      exact hne (List.eq_nil_of_length_eq_zero this)
    · cases hkr : keyRangeOf (s.levels.getD 0 []) with
      | none =>
        have : (l0Cd s ps base st).bot = [] := by simp only [l0Cd, hkr]
        rw [this]; rfl
      | some r =>
        obtain ⟨lo, hi⟩ := r
        simp only [l0Cd, hkr]
        exact (range'_headD _ _).1
    · rw [hnext]
      cases hkr : keyRangeOf (s.levels.getD 0 []) with
      | none =>
        have : (l0Cd s ps base st).bot = [] := by simp only [l0Cd, hkr]
        rw [this]; simp
      | some r =>
        obtain ⟨lo, hi⟩ := r
        simp only [l0Cd, hkr]
        rw [(range'_headD _ _).2, overlapRange_eq]
        simp only
        have := @List.findIdx_le_length _ (ovR hi) (s.levels.getD base [])
        split <;> omega
  refine ⟨⟨hbase, .inl hl0⟩, hl0, ?_⟩
  intro t ht
  rw [hthis] at ht
  simp only [l0Cd] at ht
  rw [LL.removeIdx_range, List.drop_length] at ht
  cases ht

/-- **the last step of `DropPrefix`** (all of L0 into the base level, with `dropPrefixes`) leaves
    the reads of the keys without a dropped prefix unchanged -/
theorem l0Run_reads {s s' : Lsm} {ps : List Bytes} {base numKeep : Nat} {steps steps' : List DropStep}
    {k : Bytes} {ts now : Nat} (h : LsmInv s) (hv : VerBound s) (hl : LayeredX s)
    (hbl : base < s.levels.length) (hbetween : ∀ j, 0 < j → j < base → s.levels.getD j [] = [])
    (hk : hasAnyPrefix k ps = false) (hb : ∀ st ∈ steps, st.discardTs ≤ ts ∧ st.now ≤ now)
    (hrun : s.dropL0Run ps base numKeep steps = some (s', steps')) :
    visible now (s'.get k ts) = visible now (s.get k ts) := by
  by_cases hemp : (s.levels.getD 0 []).isEmpty = true
  · unfold Lsm.dropL0Run at hrun
    simp only [hemp, if_true, Option.some.injEq, Prod.mk.injEq] at hrun
    rw [← hrun.1]
  · have hemp' : (s.levels.getD 0 []).isEmpty = false := by simpa using hemp
    have hne : s.levels.getD 0 [] ≠ [] := by
      intro h0; rw [h0] at hemp'; simp at hemp'
    by_cases hb0 : (base == 0) = true
    · unfold Lsm.dropL0Run at hrun
      simp only [hemp', Bool.false_eq_true, if_false, hb0, if_true] at hrun
      cases hrun
    · have hb0' : (base == 0) = false := by simpa using hb0
      have hbpos : 0 < base := by
        have : base ≠ 0 := by simpa using hb0
        omega
      cases steps with
      | nil =>
        unfold Lsm.dropL0Run at hrun
        simp only [hemp', Bool.false_eq_true, if_false, hb0'] at hrun
        cases hrun
      | cons st steps1 =>
        rw [dropL0Run_eq s ps base numKeep st steps1 hemp' hb0'] at hrun
        cases hc : s.compact (l0Cd s ps base st) st.discardTs numKeep st.now with
        | none => rw [hc] at hrun; cases hrun
        | some s2 =>
          rw [hc] at hrun
          simp only [Option.some.injEq, Prod.mk.injEq] at hrun
          obtain ⟨rfl, _⟩ := hrun
          obtain ⟨hok, hl0, hto⟩ := l0Cd_ok h (ps := ps) st hne hbpos hbl hbetween
          have hbst := hb st List.mem_cons_self
          apply PF.compact_reads_two_pfx h hv hl hok (fun _ => hto) hk hc hbst.1 hbst.2 hbpos
          apply LL.readLv_eq_none
          intro tbls htb t ht
          exfalso
          obtain ⟨j, hj, rfl⟩ := List.getElem_of_mem htb
          simp only [List.length_take, List.length_drop] at hj
          rw [List.getElem_take, List.getElem_drop] at ht
          have hj2 : 0 + 1 + j < s.levels.length := by
            have : (l0Cd s ps base st).thisLevel = 0 := rfl
            have : (l0Cd s ps base st).nextLevel = base := rfl
            omega
          have := hbetween (0 + 1 + j) (by omega) (by
            have : (l0Cd s ps base st).nextLevel = base := rfl
            have : (l0Cd s ps base st).thisLevel = 0 := rfl
            omega)
          rw [List.getD_eq_getElem?_getD, List.getElem?_eq_getElem hj2] at this
          simp only [Option.getD_some] at this
          have hthis0 : (l0Cd s ps base st).thisLevel = 0 := rfl
          simp only [hthis0] at ht
          rw [this] at ht
          simp at ht


/-! ## 4. the whole run -/

/-- the implementation cut the output tables of every same-level rewrite of the run where the
    user key changes (`addKeys` does; the harness checks it on every real compaction). The final
    L0 → base compaction needs no such condition for the reads. -/
def DropCuts (s : Lsm) (ps : List Bytes) (flushIds : List Nat) (numKeep : Nat) (steps : List DropStep) : Prop :=
  levelsCuts ps numKeep (dropLevels (s.flushAll flushIds)) (s.flushAll flushIds) steps

theorem specGet_eq_get {s : Lsm} (h : LsmInvW s) (k : Bytes) (ts now : Nat) :
    s.specGet k ts now = visible now (s.get k ts) := by
  unfold Lsm.specGet; rw [LL.get_eq_newestLE h]

/-- **C29 — every other key is unchanged.** After `DropPrefix(ps)` (`Lsm.dropPrefixRun`: flush of
    all memtables, same-level rewrites of the table groups of every level `≥ 1` bottom-up, L0 into
    the base level) a read of any key *without* a dropped prefix, at a timestamp at or above every
    discard watermark the compactions used and on a clock not before theirs, returns what it
    returned before. Hypotheses: the structural invariant, `uint64` versions, recency across sources
    (`LayeredX`), nothing between L0 and the base level, and `DropCuts`. -/
theorem C29_others_unchanged {s s' : Lsm} {ps : List Bytes} {flushIds : List Nat} {base numKeep : Nat}
    {steps : List DropStep} {k : Bytes} {ts now : Nat}
    (h : LsmInv s) (hv : VerBound s) (hl : LayeredX s) (h0 : 0 < s.levels.length)
    (hbl : base < s.levels.length) (hbetween : ∀ j, 0 < j → j < base → s.levels.getD j [] = [])
    (hcuts : DropCuts s ps flushIds numKeep steps)
    (hrun : s.dropPrefixRun ps flushIds base numKeep steps = some s')
    (hk : hasAnyPrefix k ps = false) (hb : ∀ st ∈ steps, st.discardTs ≤ ts ∧ st.now ≤ now) :
    visible now (s'.get k ts) = visible now (s.get k ts) := by
  unfold Lsm.dropPrefixRun at hrun
  split at hrun
  · simp only [Option.some.injEq] at hrun
    rw [← hrun]
  · simp only at hrun
    have i1 := flushAll_inv h h0 flushIds
    have v1 := flushAll_verBound hv h0 flushIds
    have l1 := flushAll_layeredX hl h0 flushIds
    obtain ⟨_, _, fl, fo⟩ := flushAll_spec h0 flushIds
    cases h2 : Lsm.dropLevelsRun ps numKeep (dropLevels (s.flushAll flushIds)) (s.flushAll flushIds) steps with
    | none => rw [h2] at hrun; cases hrun
    | some r =>
      obtain ⟨s2, steps2⟩ := r
      rw [h2] at hrun
      simp only at hrun
      obtain ⟨o2, hsub⟩ := levelsRun_reads _ _ _ _ _
        (fun l hl' => mem_dropLevels.mp hl') i1 v1 l1 hcuts h2
      cases h3 : s2.dropL0Run ps base numKeep steps2 with
      | none => rw [h3] at hrun; cases hrun
      | some r3 =>
        obtain ⟨s3, steps3⟩ := r3
        rw [h3] at hrun
        cases steps3 with
        | cons _ _ => cases hrun
        | nil =>
          simp only [Option.some.injEq] at hrun
          subst hrun
          have hbetween2 : ∀ j, 0 < j → j < base → s2.levels.getD j [] = [] := by
            intro j hj1 hj2
            apply o2.empty j
            rw [getD_congr (fo j hj1)]
            exact hbetween j hj1 hj2
          have r3 := l0Run_reads (k := k) (ts := ts) (now := now) o2.inv o2.ver o2.lay
            (by rw [o2.len, fl]; exact hbl) hbetween2 hk (fun st hst => hb st (hsub st hst)) h3
          rw [r3, ← specGet_eq_get (LL.lsmInv_weaken o2.inv), o2.reads k ts now hk hb,
            ← specGet_eq_get (LL.lsmInv_weaken h)]
          unfold Lsm.specGet
          rw [allEntries_flushAll h0]

/-! ## sanity: the theorem applies to the sample run of `C29State.lean` -/

section Sanity
open C29Sample

theorem sample_stepCuts :
    StepCuts sF (groupCd sF 2 [[2]]
      [{ ents := [mk [2] 1, mk [2, 0] 1], id := 2 }, { ents := [mk [2, 1] 1, mk [3] 1], id := 3 }] st1)
      st1.discardTs 1 st1.now := by
  intro new0 h
  have hout : (compactOutput sF (groupCd sF 2 [[2]]
      [{ ents := [mk [2] 1, mk [2, 0] 1], id := 2 }, { ents := [mk [2, 1] 1, mk [3] 1], id := 3 }] st1)
      st1.discardTs 1 st1.now).1 = [mk [3] 1] := by
    simp only [compactOutput, mergeAll_eq_F]
    decide
  rw [hout] at h
  have : new0 = [{ ents := [mk [3] 1] }] := by
    simp [splitSizes, groupCd, st1] at h
    exact h.symm
  subst this
  simp [withIds, groupCd, st1, CutsAtKeyChange]

theorem sample_cuts : DropCuts s0 [[2]] [20, 21] 1 [st1, st2] := by
  unfold DropCuts
  rw [e1, e2]
  have hg : (dropGroups (sF.levels.getD 2 []) [[2]]).map (fun g => pickIdx (sF.levels.getD 2 []) g) =
      [[{ ents := [mk [2] 1, mk [2, 0] 1], id := 2 }, { ents := [mk [2, 1] 1, mk [3] 1], id := 3 }]] := by
    decide
  have hg1 : (dropGroups (sA.levels.getD 1 []) [[2]]).map (fun g => pickIdx (sA.levels.getD 1 []) g) = [] := by
    decide
  simp only [levelsCuts, e3, e4, levelCuts, hg, hg1, groupsCuts, and_true]
  refine ⟨sample_stepCuts, ?_⟩
  split <;> trivial

-- key `[1]` (no dropped prefix), read at `ts = 3 ≥ discardTs = 0`, clock 5
example : visible 5 (sEnd.get [1] 3) = visible 5 (s0.get [1] 3) :=
  C29_others_unchanged (by decide) (by decide) (by decide) (by decide) (by decide)
    (by intro j h1 h2; have : j = 1 := by omega
        subst this; rfl)
    sample_cuts C29_sample_run (by decide) (by decide)

end Sanity

end Badger
