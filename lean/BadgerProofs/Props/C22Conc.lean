import BadgerModel.SkipConc
import BadgerProofs.Lemmas.SkipList
/-!
# C22, concurrent half (safety part): every reachable state of any number of concurrent `Put`s,
under every schedule of their atomic steps, has strictly sorted (hence duplicate-free) level
chains with level `i+1` contained in level `i`, and every completed `Put` is present.

Model: `BadgerModel/SkipConc.lean` (each tower load, each CAS, each `setValue`, each `height`
access is a separate atomic step; the scheduler is arbitrary).

The argument is the one the code comments give: a node is linked between `prev` and `next`
only by a CAS that re-checks that `next` is still the successor of `prev`; the facts
`prev.key < key < next.key` were established by comparisons with immutable keys; nodes are
never unlinked.  Hence the chain stays strictly sorted.

Absence of assertion failures (`Pc.panic` unreachable) and which value wins a race are in
`C22ConcNP.lean`.  Not proved (see props/C22.json `partial`): linearizability of
`Get`/iterator results against the sorted-map specification, and progress.
-/
namespace Badger
namespace SkipConc
open Skiplist

/-- `r` is nil or a node with a key greater than `key` -/
def RefHi (key : Bytes) (r : SkRef) : Prop :=
  r = .nil ∨ ∃ b, r = .node b ∧ compareKeys key b = .lt

/-- what a goroutine knows about the shared list at its program point -/
def PcOK (s : Skiplist) (l : PutLocal) : Prop :=
  match l.pc with
  | .scan i before => PosAt s i l.key before
  | .linkScan i before _ => PosAt s i l.key before ∧ ∀ j, j < i → l.key ∈ s.level j
  | .cas i => ∀ j, j < i → l.key ∈ s.level j
  | .link i => ∀ j, j < i → l.key ∈ s.level j
  | .setval k => k = l.key ∧ l.key ∈ s.level 0
  | .done => 1 ≤ l.h → l.key ∈ s.level 0
  | _ => True

structure LocalOK (s : Skiplist) (l : PutLocal) : Prop where
  spl : ∀ i p n, (i, p, n) ∈ l.spl → PosAt s i l.key p ∧ RefHi l.key n
  pc : PcOK s l

/-- the invariant of the concurrent system -/
structure CInv (c : CState) : Prop where
  sorted : ∀ i, KSorted (c.s.level i)
  subset : ∀ i k, k ∈ c.s.level (i + 1) → k ∈ c.s.level i
  locals : ∀ l ∈ c.ts, LocalOK c.s l

/-- chains only grow -/
def Grows (s s' : Skiplist) : Prop := ∀ i k, k ∈ s.level i → k ∈ s'.level i

theorem posAt_grow {s s' : Skiplist} {i : Nat} {key : Bytes} {x : SkRef} (g : Grows s s')
    (h : PosAt s i key x) : PosAt s' i key x := by
  rcases h with h | ⟨k, h1, h2, h3⟩
  · exact .inl h
  · exact .inr ⟨k, h1, g i k h2, h3⟩

theorem LocalOK.grow {s s' : Skiplist} {l : PutLocal} (g : Grows s s') (h : LocalOK s l) :
    LocalOK s' l := by
  refine ⟨fun i p n hm => ⟨posAt_grow g (h.spl i p n hm).1, (h.spl i p n hm).2⟩, ?_⟩
  have hp := h.pc
  unfold PcOK at hp ⊢
  split <;> simp_all
  · exact posAt_grow g hp
  · exact ⟨posAt_grow g hp.1, fun j hj => g j _ (hp.2 j hj)⟩
  · exact fun j hj => g j _ (hp j hj)
  · exact fun j hj => g j _ (hp j hj)
  · exact g 0 _ hp.2
  · exact fun h1 => g 0 _ (hp h1)

theorem mem_after {x : SkRef} {c : List Bytes} {k : Bytes} (h : k ∈ after x c) : k ∈ c := by
  unfold after at h
  cases x with
  | head => exact h
  | nil => simp at h
  | node a =>
    simp only at h
    exact (List.dropWhile_sublist _).subset (List.mem_of_mem_tail h)

theorem getNext_mem {s : Skiplist} {x : SkRef} {i : Nat} {nk : Bytes}
    (h : s.getNext x i = .node nk) : nk ∈ s.level i := by
  unfold getNext at h
  cases hc : after x (s.level i) with
  | nil => rw [hc] at h; simp [refOfList] at h
  | cons a r =>
    rw [hc] at h
    simp only [refOfList, SkRef.node.injEq] at h
    subst h
    exact mem_after (hc ▸ List.mem_cons_self)

theorem scanStep_spec {s : Skiplist} {key : Bytes} {before : SkRef} {i : Nat}
    (hp : PosAt s i key before) :
    match scanStep s key before i with
    | .move nk => PosAt s i key (.node nk)
    | .found nk => nk = key ∧ key ∈ s.level i
    | .splice p n => PosAt s i key p ∧ RefHi key n := by
  unfold scanStep
  cases hg : s.getNext before i with
  | node nk =>
    have hm := getNext_mem hg
    simp only
    cases hc : compareKeys key nk with
    | eq => simp only; have := ck_eq hc; subst this; exact ⟨rfl, hm⟩
    | lt => exact ⟨hp, .inr ⟨nk, rfl, hc⟩⟩
    | gt => exact .inr ⟨nk, rfl, hm, hc⟩
  | head => exact ⟨hp, .inl rfl⟩
  | nil => exact ⟨hp, .inl rfl⟩

theorem lookupSpl_mem {spl : List (Nat × SkRef × SkRef)} {i : Nat} {p n : SkRef}
    (h : lookupSpl spl i = some (p, n)) : (i, p, n) ∈ spl := by
  unfold lookupSpl at h
  cases hf : spl.find? (fun e => e.1 == i) with
  | none => rw [hf] at h; simp at h
  | some e =>
    rw [hf] at h
    simp only [Option.map_some, Option.some.injEq] at h
    have h1 := List.mem_of_find?_eq_some hf
    have h2 := List.find?_some hf
    simp only [beq_iff_eq] at h2
    obtain ⟨a, b, c⟩ := e
    simp only at h2
    simp only [Prod.mk.injEq] at h
    rw [← h.1, ← h.2, ← h2]; exact h1

/-- a successful CAS keeps the chain strictly sorted and adds exactly `key` -/
theorem cas_chain {s : Skiplist} {i : Nat} {key : Bytes} {p nx : SkRef}
    (hs : KSorted (s.level i)) (hp : PosAt s i key p) (hn : RefHi key nx)
    (hcas : s.getNext p i = nx) :
    KSorted (insertAfter p key (s.level i)) ∧
    (∀ k, k ∈ insertAfter p key (s.level i) ↔ k = key ∨ k ∈ s.level i) ∧
    key ∉ s.level i := by
  obtain ⟨pre, rest, hc, rfl, hafter, hpre⟩ := hp.split hs
  unfold getNext at hcas
  rw [hafter] at hcas
  have hs' : KSorted (pre ++ rest) := hc ▸ hs
  have hrest : ∀ b ∈ rest, compareKeys key b = .lt := by
    cases rest with
    | nil => simp
    | cons b r =>
      have hb : compareKeys key b = .lt := by
        rcases hn with h | ⟨b', h1, h2⟩
        · rw [← hcas] at h; simp [refOfList] at h
        · rw [← hcas] at h1; simp only [refOfList, SkRef.node.injEq] at h1; rw [h1]; exact h2
      intro x hx
      rcases List.mem_cons.mp hx with h | h
      · subst h; exact hb
      · exact ck_trans hb (hs'.right.head_lt x h)
  have hnot : key ∉ s.level i := by
    rw [hc]; intro hm
    rcases List.mem_append.mp hm with h | h
    · have := hpre key h; rw [ck_refl] at this; cases this
    · have := hrest key h; rw [ck_refl] at this; cases this
  rw [hc, insertAfter_lastOf hs']
  refine ⟨?_, ?_, hc ▸ hnot⟩
  · unfold KSorted
    rw [List.pairwise_append]
    refine ⟨hs'.left, List.pairwise_cons.mpr ⟨hrest, hs'.right⟩, ?_⟩
    intro a ha b hb
    rcases List.mem_cons.mp hb with h | h
    · subst h; exact ck_lt_of_gt (hpre a ha)
    · exact hs'.append_lt a ha b h
  · intro k; simp only [List.mem_append, List.mem_cons]
    constructor
    · rintro (h | h | h)
      · exact .inr (.inl h)
      · exact .inl h
      · exact .inr (.inr h)
    · rintro (h | h | h)
      · exact .inr (.inl h)
      · exact .inl h
      · exact .inr (.inr h)

@[simp] theorem level_setValue (s : Skiplist) (k v : Bytes) (i : Nat) :
    (s.setValue k v).level i = s.level i := rfl

theorem grows_refl (s : Skiplist) : Grows s s := fun _ _ h => h

/-- one atomic step of one goroutine preserves everything -/
theorem stepPut_inv (s : Skiplist) (l : PutLocal)
    (hsorted : ∀ i, KSorted (s.level i)) (hsub : ∀ i k, k ∈ s.level (i + 1) → k ∈ s.level i)
    (hl : LocalOK s l) :
    (∀ i, KSorted ((stepPut s l).1.level i)) ∧
    (∀ i k, k ∈ (stepPut s l).1.level (i + 1) → k ∈ (stepPut s l).1.level i) ∧
    LocalOK (stepPut s l).1 (stepPut s l).2 ∧ Grows s (stepPut s l).1 := by
  have hsub0 : ∀ i k, k ∈ s.level i → k ∈ s.level 0 := by
    intro i
    induction i with
    | zero => exact fun _ h => h
    | succ i ih => exact fun k h => ih k (hsub i k h)
  obtain ⟨hspl, hpc⟩ := hl
  unfold PcOK at hpc
  unfold stepPut
  split
  · -- start
    refine ⟨hsorted, hsub, ⟨?_, ?_⟩, grows_refl s⟩
    · intro i p n hm
      simp only [List.mem_singleton, Prod.mk.injEq] at hm
      obtain ⟨_, rfl, rfl⟩ := hm
      exact ⟨.inl rfl, .inl rfl⟩
    · unfold PcOK; simp only
      by_cases h0 : s.height = 0
      · simp [h0]
      · simp only [h0, if_false]; exact .inl rfl
  · -- scan
    rename_i i before hpc'
    rw [hpc'] at hpc
    have hsc := scanStep_spec (s := s) (key := l.key) (before := before) (i := i) hpc
    split <;> rename_i heq <;> rw [heq] at hsc
    · exact ⟨hsorted, hsub, ⟨hspl, by unfold PcOK; exact hsc⟩, grows_refl s⟩
    · exact ⟨hsorted, hsub, ⟨hspl, by unfold PcOK; exact ⟨hsc.1, hsub0 i _ hsc.2⟩⟩, grows_refl s⟩
    · rename_i p n
      refine ⟨hsorted, hsub, ⟨?_, ?_⟩, grows_refl s⟩
      · intro i' p' n' hm
        rcases List.mem_cons.mp hm with h | h
        · simp only [Prod.mk.injEq] at h; obtain ⟨rfl, rfl, rfl⟩ := h; exact hsc
        · exact hspl i' p' n' h
      · unfold PcOK nextLevel; simp only
        by_cases h0 : i = 0
        · simp [h0]
        · simp only [h0, if_false]
          rcases hsc.1 with h | ⟨k, h1, h2, h3⟩
          · exact .inl h
          · refine .inr ⟨k, h1, ?_, h3⟩
            have : i = (i - 1) + 1 := by omega
            rw [this] at h2; exact hsub _ _ h2
  · -- setval
    rename_i k hpc'
    rw [hpc'] at hpc
    refine ⟨hsorted, hsub, ⟨hspl, ?_⟩, grows_refl s⟩
    unfold PcOK; simp only
    exact fun _ => hpc.2
  · -- loadH
    split
    · exact ⟨hsorted, hsub, ⟨hspl, by unfold PcOK; trivial⟩, grows_refl s⟩
    · exact ⟨hsorted, hsub, ⟨hspl, by unfold PcOK; simp⟩, grows_refl s⟩
  · -- casH
    split
    · exact ⟨hsorted, hsub, ⟨hspl, by unfold PcOK; simp⟩, fun _ _ h => h⟩
    · exact ⟨hsorted, hsub, ⟨hspl, by unfold PcOK; trivial⟩, grows_refl s⟩
  · -- link
    rename_i i hpc'
    rw [hpc'] at hpc
    split
    · rename_i hge
      refine ⟨hsorted, hsub, ⟨hspl, ?_⟩, grows_refl s⟩
      unfold PcOK; simp only
      intro h1; exact hpc 0 (by omega)
    · split
      · exact ⟨hsorted, hsub, ⟨hspl, by unfold PcOK; exact hpc⟩, grows_refl s⟩
      · split
        · exact ⟨hsorted, hsub, ⟨hspl, by unfold PcOK; exact ⟨.inl rfl, hpc⟩⟩, grows_refl s⟩
        · exact ⟨hsorted, hsub, ⟨hspl, by unfold PcOK; trivial⟩, grows_refl s⟩
  · -- linkScan
    rename_i i before retry hpc'
    rw [hpc'] at hpc
    have hsc := scanStep_spec (s := s) (key := l.key) (before := before) (i := i) hpc.1
    split <;> rename_i heq <;> rw [heq] at hsc
    · exact ⟨hsorted, hsub, ⟨hspl, by unfold PcOK; exact ⟨hsc, hpc.2⟩⟩, grows_refl s⟩
    · split
      · exact ⟨hsorted, hsub, ⟨hspl, by unfold PcOK; exact ⟨hsc.1, hsub0 i _ hsc.2⟩⟩, grows_refl s⟩
      · exact ⟨hsorted, hsub, ⟨hspl, by unfold PcOK; trivial⟩, grows_refl s⟩
    · refine ⟨hsorted, hsub, ⟨?_, by unfold PcOK; exact hpc.2⟩, grows_refl s⟩
      intro i' p' n' hm
      rcases List.mem_cons.mp hm with h | h
      · simp only [Prod.mk.injEq] at h; obtain ⟨rfl, rfl, rfl⟩ := h; exact hsc
      · exact hspl i' p' n' h
  · -- cas
    rename_i i hpc'
    rw [hpc'] at hpc
    split
    · exact ⟨hsorted, hsub, ⟨hspl, by unfold PcOK; trivial⟩, grows_refl s⟩
    · rename_i p nx hlk
      have hmem := lookupSpl_mem hlk
      obtain ⟨hp, hn⟩ := hspl i p nx hmem
      split
      · rename_i hcas
        have hcas' : s.getNext p i = nx := by simpa using hcas
        obtain ⟨hks, hmem', _⟩ := cas_chain (hsorted i) hp hn hcas'
        -- levels of the new shared state
        have hlev : ∀ j, (if i = 0 then (s.insertAt i p l.key).setValue l.key l.v
              else s.insertAt i p l.key).level j =
            if j = i then insertAfter p l.key (s.level i) else s.level j := by
          intro j; split <;> simp [level_insertAt]
        have hgrow : Grows s (if i = 0 then (s.insertAt i p l.key).setValue l.key l.v
              else s.insertAt i p l.key) := by
          intro j k hk
          rw [hlev j]
          by_cases hj : j = i
          · subst hj; simp only [if_true]; exact (hmem' k).mpr (.inr hk)
          · simp only [hj, if_false]; exact hk
        refine ⟨?_, ?_, ⟨?_, ?_⟩, hgrow⟩
        · intro j; rw [hlev j]; split
          · exact hks
          · exact hsorted j
        · intro j k hk
          rw [hlev (j + 1)] at hk
          rw [hlev j]
          by_cases h1 : j + 1 = i
          · simp only [h1, if_true] at hk
            have hji : j ≠ i := by omega
            simp only [hji, if_false]
            rcases (hmem' k).mp hk with h | h
            · subst h; exact hpc j (by omega)
            · exact hsub j k (h1 ▸ h)
          · simp only [h1, if_false] at hk
            by_cases h2 : j = i
            · simp only [h2, if_true]; exact (hmem' k).mpr (.inr (h2 ▸ hsub j k hk))
            · simp only [h2, if_false]; exact hsub j k hk
        · intro i' p' n' hm
          exact ⟨posAt_grow hgrow (hspl i' p' n' hm).1, (hspl i' p' n' hm).2⟩
        · unfold PcOK; simp only
          intro j hj
          by_cases hji : j = i
          · rw [hlev j]; simp only [hji, if_true]; exact (hmem' _).mpr (.inl rfl)
          · exact hgrow j _ (hpc j (by omega))
      · exact ⟨hsorted, hsub, ⟨hspl, by unfold PcOK; exact ⟨hp, hpc⟩⟩, grows_refl s⟩
  · exact ⟨hsorted, hsub, ⟨hspl, by unfold PcOK; rename_i h; rw [h] at hpc ⊢; exact hpc⟩, grows_refl s⟩
  · exact ⟨hsorted, hsub, ⟨hspl, by unfold PcOK; rename_i h; rw [h]; trivial⟩, grows_refl s⟩

theorem step_inv (c : CState) (t : Nat) (hc : CInv c) : CInv (step c t) := by
  unfold step
  cases ht : c.ts[t]? with
  | none => exact hc
  | some l =>
    have hlm : l ∈ c.ts := List.mem_of_getElem? ht
    obtain ⟨h1, h2, h3, h4⟩ := stepPut_inv c.s l hc.sorted hc.subset (hc.locals l hlm)
    refine ⟨h1, h2, ?_⟩
    intro l' hl'
    simp only at hl'
    rcases List.mem_or_eq_of_mem_set hl' with h | h
    · exact (hc.locals l' h).grow h4
    · subst h; exact h3

theorem init_inv (puts : List (Bytes × Bytes × Nat)) : CInv (initState puts) := by
  refine ⟨?_, ?_, ?_⟩
  · intro i; simp [initState, Skiplist.empty, level, KSorted]
  · intro i k h; simp [initState, Skiplist.empty, level] at h
  · intro l hl
    simp only [initState, List.mem_map] at hl
    obtain ⟨p, _, rfl⟩ := hl
    exact ⟨by simp, by unfold PcOK; trivial⟩

theorem run_inv (c : CState) (sched : List Nat) (hc : CInv c) : CInv (run c sched) := by
  induction sched generalizing c with
  | nil => exact hc
  | cons t ts ih => exact ih (step c t) (step_inv c t hc)

end SkipConc

open SkipConc in
/-- **Concurrent safety**: for any set of concurrent `Put`s (any keys, values, tower heights)
    and any interleaving of their atomic steps, every reachable state has, on every level, a
    strictly sorted key chain (in particular no duplicate key, so no reader can see an
    unsorted or duplicated entry), level `i+1` is contained in level `i`, and every `Put`
    that has returned (with `height ≥ 1`) has its key on level 0. -/
theorem C22_conc_sorted (puts : List (Bytes × Bytes × Nat)) (sched : List Nat) :
    let c := run (initState puts) sched
    (∀ i, (c.s.level i).Pairwise (fun a b => compareKeys a b = .lt)) ∧
    (∀ i, (c.s.level i).Nodup) ∧
    (∀ i k, k ∈ c.s.level (i + 1) → k ∈ c.s.level i) ∧
    (∀ l ∈ c.ts, l.pc = .done → 1 ≤ l.h → l.key ∈ c.s.level 0) := by
  intro c
  have hc : CInv c := run_inv _ sched (init_inv puts)
  refine ⟨hc.sorted, ?_, hc.subset, ?_⟩
  · intro i
    rw [List.nodup_iff_pairwise_ne]
    exact List.Pairwise.imp (fun h => ck_ne_of_lt h) (hc.sorted i)
  · intro l hl hd h1
    have := (hc.locals l hl).pc
    unfold PcOK at this
    rw [hd] at this
    exact this h1

open SkipConc in
/-- the forward scan a reader performs in any reachable state (`toList`) is strictly sorted -/
theorem C22_conc_scan_sorted (puts : List (Bytes × Bytes × Nat)) (sched : List Nat) :
    ((run (initState puts) sched).s.toList.map ItEntry.key).Pairwise
      (fun a b => compareKeys a b = .lt) := by
  have := (C22_conc_sorted puts sched).1 0
  simpa [Skiplist.toList, Function.comp_def] using this

namespace SkipConc

theorem stepPut_vals (s : Skiplist) (l : PutLocal) :
    ∃ newer, (stepPut s l).1.vals = newer ++ s.vals := by
  unfold stepPut
  split
  · exact ⟨[], rfl⟩                                   -- start
  · split <;> exact ⟨[], rfl⟩                         -- scan
  · exact ⟨[(_, _)], rfl⟩                             -- setval: one fresh slot
  · split <;> exact ⟨[], rfl⟩                         -- loadH
  · split <;> exact ⟨[], rfl⟩                         -- casH
  · split                                             -- link
    · exact ⟨[], rfl⟩
    · split
      · exact ⟨[], rfl⟩
      · split <;> exact ⟨[], rfl⟩
  · split                                             -- linkScan
    · exact ⟨[], rfl⟩
    · split <;> exact ⟨[], rfl⟩
    · exact ⟨[], rfl⟩
  · split                                             -- cas
    · exact ⟨[], rfl⟩
    · split
      · split                                         -- on level 0 the new node's slot is published
        · exact ⟨[(l.key, l.v)], rfl⟩
        · exact ⟨[], rfl⟩
      · exact ⟨[], rfl⟩
  · exact ⟨[], rfl⟩
  · exact ⟨[], rfl⟩

theorem run_vals (c : CState) (sched : List Nat) :
    ∃ newer, (run c sched).s.vals = newer ++ c.s.vals := by
  induction sched generalizing c with
  | nil => exact ⟨[], rfl⟩
  | cons t ts ih =>
    obtain ⟨n2, h2⟩ := ih (step c t)
    have h1 : ∃ n1, (step c t).s.vals = n1 ++ c.s.vals := by
      unfold step
      cases c.ts[t]? with
      | none => exact ⟨[], rfl⟩
      | some l => exact stepPut_vals c.s l
    obtain ⟨n1, h1⟩ := h1
    refine ⟨n2 ++ n1, ?_⟩
    show (run (step c t) ts).s.vals = _
    rw [h2, h1, List.append_assoc]

end SkipConc

open SkipConc in
/-- **Value slots are immutable**: from any state, whatever the goroutines do afterwards, the
    value log only grows at the front — every slot that existed (every `(offset, size)` word a
    reader may have loaded, counted from the old end) still holds the same bytes.  `setValue`
    and the publication of a new node allocate fresh slots.  (This is what makes it safe for
    `Get` / `Iterator.Value` to return a `ValueStruct` that aliases the arena.) -/
theorem C22_conc_value_immutable (c : CState) (sched : List Nat) :
    (∃ newer, (run c sched).s.vals = newer ++ c.s.vals) ∧
    ∀ (j : Nat) (slot : Bytes × Bytes), c.s.vals.reverse[j]? = some slot →
      (run c sched).s.vals.reverse[j]? = some slot := by
  obtain ⟨newer, h⟩ := run_vals c sched
  refine ⟨⟨newer, h⟩, ?_⟩
  intro j slot hj
  rw [h, List.reverse_append]
  have hlt : j < c.s.vals.reverse.length := by
    rcases Nat.lt_or_ge j c.s.vals.reverse.length with h' | h'
    · exact h'
    · rw [List.getElem?_eq_none h'] at hj; cases hj
  rw [List.getElem?_append_left hlt]
  exact hj

/-! non-vacuity: four goroutines, two of them putting the same key, one concrete schedule -/
section Examples
open SkipConc
private def k (c : UInt8) (ts : Nat) : Bytes := keyWithTs [c] ts
private def demo : CState :=
  initState [(k 0x62 5, [1], 2), (k 0x61 5, [2], 1), (k 0x62 5, [3], 3), (k 0x63 1, [4], 1)]
private def demoSched : List Nat := (List.range 120).map (fun i => (i * 7 + i / 3) % 4)

set_option maxRecDepth 100000 in
example : (run demo demoSched).ts.map (fun l => l.pc) = [.done, .done, .done, .done] := by decide
set_option maxRecDepth 100000 in
example : (run demo demoSched).s.level 0 = [k 0x61 5, k 0x62 5, k 0x63 1] := by decide
set_option maxRecDepth 100000 in
example : (run demo demoSched).s.level 2 = [k 0x62 5] := by decide
end Examples

end Badger
