import BadgerProofs.Props.C01Reach
import BadgerProofs.Lemmas.DbInv
import BadgerProofs.Lemmas.Txn
import BadgerModel.Reopen
import BadgerModel.Drop
/-!
# C01 / C03 / C34 composed: snapshot reads of the whole database model, for every history

`DbReach o hist d`: the database model `d` (`Mvcc.lean`: transactions, timestamp oracle, read
watermark, LSM tree) is reached from `Db.init o` in NORMAL mode by any finite sequence of
`begin`, `set`, `get`, iterator reads, `commit`, `discard`, memtable flushes, clock ticks and
compactions that the production pickers can choose, run with any discard timestamp not above
`discardAtOrBelow` (the read watermark); `hist` is the list of entries the successful commits wrote.

`C01_db_snapshot`: in every reachable state, `Txn.Get` of a transaction that is not discarded
returns the newest committed write `≤ readTs` over the whole commit history (absent if deleted or
expired) — with NO hypothesis about the state: that the discard watermark never passes the read
timestamp of an open transaction (C34), that commit timestamps are fresh and above every open
reader (C03), and that flushes / compactions keep the reads (C12) are all derived along the run.
-/
namespace Badger

/-- what a successful commit of `t` writes in normal mode: the pending writes at `nextTs` -/
def normalEnts (d : Db) (t : TxnM) : List Ent :=
  t.pending.map (fun e => d.lsmForm { e with ver := d.nextTs, emeta := setBit e.emeta bitTxn })

/-- the entries the commit of transaction `id` adds to the history (newest first) -/
def Db.commitHist (d : Db) (id : Nat) : List Ent :=
  match d.findTxn id, (d.commit id 0).2 with
  | some t, .ok _ => (normalEnts d t).reverse
  | _, _ => []

inductive DbReach (o : Opts) : List Ent → Db → Prop
  | init (now : Nat) : DbReach o [] (Db.init o now)
  | begin {hist : List Ent} {d : Db} (r : DbReach o hist d) (id : Nat) (upd : Bool) :
      DbReach o hist (d.begin id upd 0).1
  | set {hist : List Ent} {d : Db} (r : DbReach o hist d) (id : Nat) (e : Ent) (hv : e.ver = 0) :
      DbReach o hist (d.modify id e).1
  | get {hist : List Ent} {d : Db} (r : DbReach o hist d) (id : Nat) (k : Bytes) :
      DbReach o hist (d.txnGet id k).1
  | reads {hist : List Ent} {d : Db} (r : DbReach o hist d) (id : Nat) (t : TxnM) (rs : List Bytes)
      (hf : d.findTxn id = some t) : DbReach o hist (d.setTxn { t with reads := rs })
  | discard {hist : List Ent} {d : Db} (r : DbReach o hist d) (id : Nat) : DbReach o hist (d.discardTxn id)
  | commit {hist : List Ent} {d : Db} (r : DbReach o hist d) (id : Nat) (hmax : d.nextTs ≤ maxU64) :
      DbReach o (d.commitHist id ++ hist) (d.commit id 0).1
  | flush {hist : List Ent} {d : Db} (r : DbReach o hist d) (fid : Nat) :
      DbReach o hist { d with lsm := d.lsm.flush fid }
  | tick {hist : List Ent} {d : Db} (r : DbReach o hist d) (now' : Nat) (h : d.now ≤ now') :
      DbReach o hist { d with now := now' }
  /-- `Close` (flush of the memtable) + `Open` on the same directory. Premise: the timestamps do
      not go back, i.e. the newest committed version is still stored (`MaxVersion()` counts stored
      entries only; the excluded case is finding F29: timestamps reused after a restart). -/
  | reopen {hist : List Ent} {d : Db} (r : DbReach o hist d) (fid : Nat)
      (hnext : d.nextTs ≤ ({ d with lsm := d.lsm.flush fid } : Db).closeOpen.nextTs) :
      DbReach o hist ({ d with lsm := d.lsm.flush fid } : Db).closeOpen
  /-- `DB.DropAll` (on-disk databases; `Db.dropAll`, BadgerModel/Drop.lean): the tree is emptied, the
      oracle, the watermarks and the open transactions stay; the committed history starts afresh. -/
  | dropall {hist : List Ent} {d : Db} (r : DbReach o hist d) (hmem : o.inMemory = false) :
      DbReach o [] d.dropAll
  | compact {hist : List Ent} {d : Db} {s' : Lsm} (r : DbReach o hist d) (cd : CompactDef) (dts : Nat)
      (hd : dts ≤ d.discardAtOrBelow)
      (hi : ChoiceIdxOk d.lsm cd) (htop : cd.top ≠ []) (hvc : validChoice d.lsm cd = true)
      (hdp : cd.dropPrefixes = []) (hs : d.lsm.compact cd dts d.opts.numKeep d.now = some s')
      (hcut : ∀ new0, splitSizes cd.outSizes (compactOutput d.lsm cd dts d.opts.numKeep d.now).1 = some new0 →
        CutsAtKeyChange (withIds new0 cd.outIds)) :
      DbReach o hist { d with lsm := s' }

namespace DbL

/-- the LSM half of the invariant -/
structure InvL (o : Opts) (hist : List Ent) (d : Db) : Prop where
  opts : d.opts = o
  reach : ∃ dm nm, Reach o.maxLevels hist dm nm d.lsm ∧ dm ≤ d.readMark.doneUntil ∧ nm ≤ d.now
  histLt : ∀ x ∈ hist, x.ver < d.nextTs
  nextPos : 0 < d.nextTs

structure Inv (o : Opts) (hist : List Ent) (d : Db) : Prop where
  l : InvL o hist d
  w : InvW d.readMark d.nextTs d.txns

theorem InvL.frame {o : Opts} {hist : List Ent} {d d' : Db} (h : InvL o hist d) (ho : d'.opts = d.opts)
    (hl : d'.lsm = d.lsm) (hw : d.readMark.doneUntil ≤ d'.readMark.doneUntil) (hn : d.now ≤ d'.now)
    (ht : d.nextTs ≤ d'.nextTs) : InvL o hist d' := by
  obtain ⟨dm, nm, r, h1, h2⟩ := h.reach
  exact ⟨by rw [ho, h.opts], ⟨dm, nm, by rw [hl]; exact r, by omega, by omega⟩,
    fun x hx => by have := h.histLt x hx; omega, by have := h.nextPos; omega⟩

theorem find_mem {d : Db} {id : Nat} {t : TxnM} (h : d.findTxn id = some t) : t ∈ d.txns ∧ t.id = id := by
  unfold Db.findTxn at h
  exact ⟨List.mem_of_find?_eq_some h, by simpa using List.find?_some h⟩

theorem setTxn_txns (d : Db) (t : TxnM) : (d.setTxn t).txns = replaced d.txns t := rfl

/-- `setTxn` of a transaction that holds no more of the read mark than the one it replaces -/
theorem Inv.setTxn {o : Opts} {hist : List Ent} {d : Db} (h : Inv o hist d) {id : Nat} {t t' : TxnM}
    (hf : d.findTxn id = some t) (hid : t'.id = t.id) (hok : TxnOk d.nextTs t')
    (hopen : ∀ i, isOpen i t' = true → isOpen i t = true) : Inv o hist (d.setTxn t') :=
  ⟨h.l.frame rfl rfl (Nat.le_refl _) (Nat.le_refl _) (Nat.le_refl _),
    h.w.replace (find_mem hf).1 hid.symm hok hopen⟩

theorem init_inv (o : Opts) (now : Nat) : Inv o [] (Db.init o now) := by
  have hw : (({} : Wm).done 0) = { pend := [], doneUntil := 0 } := by
    simp [Wm.done, Wm.bump, Wm.bump.ins, Wm.advance, Wm.advance.go]
  refine ⟨⟨rfl, ⟨0, 0, Reach.init, Nat.zero_le _, Nat.zero_le _⟩, by simp, by simp [Db.init]⟩, ?_⟩
  show InvW (({} : Wm).done 0) 1 []
  rw [hw]
  exact ⟨⟨by simp [WmL.Sorted], by simp⟩, by simp, by simp, by simp [openCount], by simp⟩


variable {o : Opts} {hist : List Ent} {d : Db}

theorem managed_false (hm : o.managed = false) (h : Inv o hist d) : d.opts.managed = false := by
  rw [h.l.opts]; exact hm

theorem begin_inv (hm : o.managed = false) (h : Inv o hist d) (id : Nat) (upd : Bool) :
    Inv o hist (d.begin id upd 0).1 := by
  have hmd := managed_false hm h
  have hle : d.readMark.doneUntil ≤ d.nextTs - 1 := by have := h.w.untilLt; omega
  unfold Db.begin
  simp only [hmd, Bool.false_eq_true, if_false]
  refine ⟨h.l.frame rfl rfl (WmL.begin_mono h.w.ok _ hle) (Nat.le_refl _) (Nat.le_refl _), ?_⟩
  exact h.w.begin h.l.nextPos _ rfl
    ⟨by show d.nextTs - 1 < d.nextTs; have := h.l.nextPos; omega, by simp, by simp, by simp, rfl⟩


theorem txnOk_of_find (h : Inv o hist d) {id : Nat} {t : TxnM} (hf : d.findTxn id = some t) : TxnOk d.nextTs t :=
  h.w.txns t (find_mem hf).1

theorem set_inv (h : Inv o hist d) (id : Nat) (e : Ent) (hv : e.ver = 0) : Inv o hist (d.modify id e).1 := by
  unfold Db.modify
  cases hf : d.findTxn id with
  | none => exact h
  | some t =>
    have tok := txnOk_of_find h hf
    simp only []
    split; · exact h
    split; · exact h
    split; · exact h
    split; · exact h
    split; · exact h
    split; · exact h
    split; · exact h
    split; · exact h
    refine h.setTxn hf rfl ⟨tok.lt, tok.doneDisc, ?_, ?_, ?_⟩ (fun i hi => hi)
    · show (t.pending.filter (·.key != e.key) ++ [e]).Pairwise _
      refine List.pairwise_append.mpr ⟨tok.keys.sublist List.filter_sublist, by simp, ?_⟩
      intro a ha b hb
      have hb : b = e := by simpa using hb
      have := (List.mem_filter.mp ha).2
      rw [hb]; simpa using this
    · intro x hx
      have hx : x ∈ t.pending.filter (·.key != e.key) ++ [e] := hx
      rcases List.mem_append.mp hx with hx | hx
      · exact tok.vers x (List.mem_filter.mp hx).1
      · have : x = e := by simpa using hx
        rw [this]; exact hv
    · show (match t.pending.find? (·.key == e.key) with
        | some o => if o.ver != e.ver then t.dups ++ [o] else t.dups
        | none => t.dups) = []
      cases hfo : t.pending.find? (·.key == e.key) with
      | none => exact tok.nodups
      | some o =>
        have := tok.vers o (List.mem_of_find?_eq_some hfo)
        simp [this, hv, tok.nodups]


theorem get_inv (h : Inv o hist d) (id : Nat) (k : Bytes) : Inv o hist (d.txnGet id k).1 := by
  unfold Db.txnGet
  cases hf : d.findTxn id with
  | none => exact h
  | some t =>
    have tok := txnOk_of_find h hf
    simp only []
    split; · exact h
    split; · exact h
    split
    · split <;> exact h
    · have key : ∀ d' : Db, Inv o hist d' → Inv o hist (match d'.lsm.get k t.readTs with
          | none => (d', GetRes.notfound)
          | some e => if deletedOrExpired e.emeta e.exp d'.now then (d', GetRes.notfound)
                      else (d', GetRes.found e e.ver)).1 := by
        intro d' h'
        split
        · exact h'
        · split <;> exact h'
      apply key
      split
      · exact h.setTxn hf rfl ⟨tok.lt, tok.doneDisc, tok.keys, tok.vers, tok.nodups⟩ (fun i hi => hi)
      · exact h

theorem reads_inv (h : Inv o hist d) {id : Nat} {t : TxnM} (rs : List Bytes) (hf : d.findTxn id = some t) :
    Inv o hist (d.setTxn { t with reads := rs }) := by
  have tok := txnOk_of_find h hf
  exact h.setTxn hf rfl ⟨tok.lt, tok.doneDisc, tok.keys, tok.vers, tok.nodups⟩ (fun i hi => hi)

/-- `doneRead` followed by `setTxn` of the finished transaction (any other fields) -/
theorem finish_inv (hm : o.managed = false) (h : Inv o hist d) {id : Nat} {t t' : TxnM}
    (hf : d.findTxn id = some t) (hid : t'.id = t.id) (hdone : t'.doneRead = true)
    (hok : TxnOk d.nextTs t') : Inv o hist ((d.doneRead t).1.setTxn t') := by
  have hmd := managed_false hm h
  have ht := (find_mem hf).1
  unfold Db.doneRead
  cases hdr : t.doneRead
  · simp only [hmd, Bool.or_self, Bool.false_eq_true, if_false]
    have hle := h.w.until_le ht hdr
    refine ⟨h.l.frame rfl rfl (WmL.done_mono h.w.ok _ hle) (Nat.le_refl _) (Nat.le_refl _), ?_⟩
    exact h.w.finish ht hid.symm hdr hdone hok
  · simp only [Bool.true_or, if_true]
    exact h.setTxn hf hid hok (fun i hi => by simp [isOpen, hdone] at hi)

theorem discard_inv (hm : o.managed = false) (h : Inv o hist d) (id : Nat) : Inv o hist (d.discardTxn id) := by
  unfold Db.discardTxn
  cases hf : d.findTxn id with
  | none => exact h
  | some t =>
    have tok := txnOk_of_find h hf
    simp only []
    split
    · exact h
    · have := finish_inv hm h hf (t' := { (d.doneRead t).2 with discarded := true }) ?_ ?_ ?_
      · exact this
      · unfold Db.doneRead; split <;> rfl
      · unfold Db.doneRead; split <;> rfl
      · have e1 : (d.doneRead t).2 = { t with doneRead := true } := by unfold Db.doneRead; split <;> rfl
        rw [e1]
        exact ⟨tok.lt, fun _ => rfl, tok.keys, tok.vers, tok.nodups⟩


theorem flush_inv (h : Inv o hist d) (fid : Nat) : Inv o hist { d with lsm := d.lsm.flush fid } := by
  obtain ⟨dm, nm, r, h1, h2⟩ := h.l.reach
  exact ⟨⟨h.l.opts, ⟨dm, nm, Reach.flush r fid, h1, h2⟩, h.l.histLt, h.l.nextPos⟩, h.w⟩

theorem tick_inv (h : Inv o hist d) (now' : Nat) (hn : d.now ≤ now') : Inv o hist { d with now := now' } := by
  obtain ⟨dm, nm, r, h1, h2⟩ := h.l.reach
  exact ⟨⟨h.l.opts, ⟨dm, nm, r, h1, by show nm ≤ now'; omega⟩, h.l.histLt, h.l.nextPos⟩, h.w⟩

theorem compact_inv (hm : o.managed = false) (h : Inv o hist d) {s' : Lsm} (cd : CompactDef) (dts : Nat)
    (hd : dts ≤ d.discardAtOrBelow)
    (hi : ChoiceIdxOk d.lsm cd) (htop : cd.top ≠ []) (hvc : validChoice d.lsm cd = true)
    (hdp : cd.dropPrefixes = []) (hs : d.lsm.compact cd dts d.opts.numKeep d.now = some s')
    (hcut : ∀ new0, splitSizes cd.outSizes (compactOutput d.lsm cd dts d.opts.numKeep d.now).1 = some new0 →
      CutsAtKeyChange (withIds new0 cd.outIds)) : Inv o hist { d with lsm := s' } := by
  obtain ⟨dm, nm, r, h1, h2⟩ := h.l.reach
  have hmd := managed_false hm h
  have hd' : dts ≤ d.readMark.doneUntil := by
    unfold Db.discardAtOrBelow at hd; simpa [hmd] using hd
  refine ⟨⟨h.l.opts, ⟨max dm dts, max nm d.now, Reach.compact r cd dts d.opts.numKeep d.now hi htop hvc hdp hs hcut,
    ?_, ?_⟩, h.l.histLt, h.l.nextPos⟩, h.w⟩
  · show max dm dts ≤ d.readMark.doneUntil; omega
  · show max nm d.now ≤ d.now; omega

theorem replaced_replaced (ts : List TxnM) (t1 t2 : TxnM) (h : t1.id = t2.id) :
    replaced (replaced ts t1) t2 = replaced ts t2 := by
  unfold replaced
  simp [h, List.filter_filter]

theorem setTxn_setTxn (dX : Db) (t1 t2 : TxnM) (h : t1.id = t2.id) : (dX.setTxn t1).setTxn t2 = dX.setTxn t2 := by
  show ({ (dX.setTxn t1) with txns := replaced (replaced dX.txns t1) t2 } : Db) = { dX with txns := replaced dX.txns t2 }
  rw [replaced_replaced _ _ _ h]
  rfl

theorem discardTxn_setTxn_done (dX : Db) (t1 : TxnM) (id : Nat) (hid : t1.id = id) (hdone : t1.doneRead = true)
    (hdisc : t1.discarded = false) :
    (dX.setTxn t1).discardTxn id = dX.setTxn { t1 with discarded := true } := by
  unfold Db.discardTxn
  rw [← hid, findTxn_setTxn_self]
  simp only [hdisc, Bool.false_eq_true, if_false]
  unfold Db.doneRead
  simp only [hdone, Bool.true_or, if_true]
  exact setTxn_setTxn _ _ _ rfl

/-- the state after a successful commit, field by field -/
structure CommitOk (d : Db) (id : Nat) (t : TxnM) : Prop where
  res : (d.commit id 0).2 = .ok d.nextTs
  live : t.discarded = false
  opts : (d.commit id 0).1.opts = d.opts
  now : (d.commit id 0).1.now = d.now
  nextTs : (d.commit id 0).1.nextTs = d.nextTs + 1
  lsm : (d.commit id 0).1.lsm = (normalEnts d t).foldl (fun s e => s.putEnt e) d.lsm
  readMark : (d.commit id 0).1.readMark = (d.doneRead t).1.readMark
  txns : (d.commit id 0).1.txns = replaced d.txns { t with doneRead := true, discarded := true }

theorem commitEntries_normal (d : Db) (t : TxnM) (hv : ∀ e ∈ t.pending, e.ver = 0) (hd : t.dups = []) :
    commitEntries d t d.nextTs = normalEnts d t := by
  have hk : keepTogetherOf t = true := by
    unfold keepTogetherOf
    rw [hd, List.append_nil, List.all_eq_true]
    intro e he; simp [hv e he]
  unfold commitEntries normalEnts
  rw [hd, List.nil_append, hk]
  apply List.map_congr_left
  intro e he
  unfold finEnt
  simp [hv e he]

theorem commit_cases (hmd : d.opts.managed = false) {id : Nat} {t : TxnM} (hf : d.findTxn id = some t)
    (tok : TxnOk d.nextTs t) :
    ((∀ ts, (d.commit id 0).2 ≠ .ok ts) ∧ ((d.commit id 0).1 = d ∨ (d.commit id 0).1 = d.discardTxn id)) ∨
    CommitOk d id t := by
  have hc := commit_eq 0 hf
  by_cases c1 : t.pending.isEmpty = true
  · rw [if_pos c1] at hc
    left; rw [hc]; exact ⟨(by intro ts h; cases h), .inr rfl⟩
  rw [if_neg c1] at hc
  by_cases c2 : t.discarded = true
  · rw [if_pos c2] at hc
    left; rw [hc]; exact ⟨(by intro ts h; cases h), .inl rfl⟩
  rw [if_neg c2] at hc
  by_cases c3 : (keepPreOf t && d.opts.managed && 0 == 0) = true
  · rw [if_pos c3] at hc
    left; rw [hc]; exact ⟨(by intro ts h; cases h), .inl rfl⟩
  rw [if_neg c3] at hc
  by_cases c4 : (d.opts.detectConflicts && d.hasConflict t) = true
  · rw [if_pos c4] at hc
    left; rw [hc]; exact ⟨(by intro ts h; cases h), .inr rfl⟩
  rw [if_neg c4] at hc
  right
  have hdisc := c2
  have hdisc : t.discarded = false := by simpa using hdisc
  obtain ⟨h1, h2, h3, h4, h5, _⟩ := commitApply_spec d t id 0
  have hcts : commitTsOf d 0 = d.nextTs := by simp [commitTsOf, hmd]
  rw [hcts] at h1 h2
  refine ⟨by rw [hc]; exact h1, hdisc, by rw [hc]; exact h4, by rw [hc]; exact h5, by rw [hc]; simpa [hmd] using h3, ?_, ?_, ?_⟩ <;> rw [hc]
  · rw [h2, commitEntries_normal d t tok.vers tok.nodups, C01_foldl_putEnt]
  · unfold commitApply
    extract_lets d1 t1 d2 cts d3 d4 entries src d5
    rw [discardTxn_setTxn_done d5 t1 id (by show ((d.doneRead t).2).id = id; rw [doneRead_txn]; exact (findTxn_id hf : t.id = id))
      (by show ((d.doneRead t).2).doneRead = true; rw [doneRead_txn])
      (by show ((d.doneRead t).2).discarded = false; rw [doneRead_txn]; exact hdisc)]
    show d4.readMark = d1.readMark
    have e4 : d4.readMark = d3.readMark := by simp only [d4]; split <;> rfl
    have e3 : d3.readMark = d2.readMark := by simp only [d3]; split <;> rfl
    have e2 : d2.readMark = d1.readMark := by
      simp only [d2]; split
      · rfl
      · exact cleanup_readMark _
    rw [e4, e3, e2]
  · unfold commitApply
    extract_lets d1 t1 d2 cts d3 d4 entries src d5
    rw [discardTxn_setTxn_done d5 t1 id (by show ((d.doneRead t).2).id = id; rw [doneRead_txn]; exact (findTxn_id hf : t.id = id))
      (by show ((d.doneRead t).2).doneRead = true; rw [doneRead_txn])
      (by show ((d.doneRead t).2).discarded = false; rw [doneRead_txn]; exact hdisc)]
    show replaced d4.txns { t1 with discarded := true } = _
    have e4 : d4.txns = d3.txns := by simp only [d4]; split <;> rfl
    have e3 : d3.txns = d2.txns := by simp only [d3]; split <;> rfl
    have e2 : d2.txns = d1.txns := by
      simp only [d2]; split
      · rfl
      · exact cleanup_txns _
    have e1 : d1.txns = d.txns := doneRead_txns d t
    have et : t1 = { t with doneRead := true } := doneRead_txn d t
    rw [e4, e3, e2, e1, et]


theorem commitHist_nil {id : Nat} (h : ∀ ts, (d.commit id 0).2 ≠ .ok ts) : d.commitHist id = [] := by
  unfold Db.commitHist
  split
  · rename_i hres; exact absurd hres (h _)
  · rfl

theorem lsmForm_ver (d : Db) (e : Ent) : (d.lsmForm e).ver = e.ver := by unfold Db.lsmForm; split <;> rfl
theorem lsmForm_key (d : Db) (e : Ent) : (d.lsmForm e).key = e.key := by unfold Db.lsmForm; split <;> rfl

theorem normalEnts_ver (d : Db) (t : TxnM) : ∀ e ∈ normalEnts d t, e.ver = d.nextTs := by
  intro e he
  obtain ⟨x, _, rfl⟩ := List.mem_map.mp he
  rw [lsmForm_ver]

theorem normalEnts_keys (d : Db) (t : TxnM) (h : t.pending.Pairwise (fun a b => a.key ≠ b.key)) :
    (normalEnts d t).Pairwise (fun a b => a.key ≠ b.key) := by
  unfold normalEnts
  rw [List.pairwise_map]
  exact h.imp (fun hab => by rw [lsmForm_key, lsmForm_key]; exact hab)

theorem commit_inv (hm : o.managed = false) (h : Inv o hist d) (id : Nat) (hmax : d.nextTs ≤ maxU64) :
    Inv o (d.commitHist id ++ hist) (d.commit id 0).1 := by
  have hmd := managed_false hm h
  cases hf : d.findTxn id with
  | none =>
    have : d.commitHist id = [] := by unfold Db.commitHist; rw [hf]
    rw [this, commit_none 0 hf]; exact h
  | some t =>
    have tok := txnOk_of_find h hf
    rcases commit_cases hmd hf tok with ⟨hno, hd | hd⟩ | ok
    · rw [commitHist_nil hno, hd]; exact h
    · rw [commitHist_nil hno, hd]; exact discard_inv hm h id
    · have hh : d.commitHist id = (normalEnts d t).reverse := by unfold Db.commitHist; rw [hf, ok.res]
      rw [hh]
      -- the state in which only the read mark has been released
      have hF := finish_inv hm h hf (t' := { t with doneRead := true, discarded := true }) rfl rfl
        ⟨tok.lt, fun _ => rfl, tok.keys, tok.vers, tok.nodups⟩
      obtain ⟨dm, nm, R, h1, h2⟩ := hF.l.reach
      rw [setTxn_lsm, doneRead_lsm] at R
      rw [setTxn_now, doneRead_now] at h2
      rw [setTxn_readMark] at h1
      have R' := C01_reach_commit R (normalEnts d t) d.nextTs (normalEnts_ver d t) h.l.nextPos hmax
        (fun x hx => h.l.histLt x hx) (normalEnts_keys d t tok.keys)
      refine ⟨⟨by rw [ok.opts]; exact h.l.opts, ⟨dm, nm, ?_, ?_, ?_⟩, ?_, by rw [ok.nextTs]; omega⟩, ?_⟩
      · rw [ok.lsm]; exact R'
      · rw [ok.readMark]; exact h1
      · rw [ok.now]; exact h2
      · intro x hx
        rw [ok.nextTs]
        rcases List.mem_append.mp hx with hx | hx
        · have := normalEnts_ver d t x (List.mem_reverse.mp hx); omega
        · have := h.l.histLt x hx; omega
      · rw [ok.nextTs, ok.readMark, ok.txns]
        have := hF.w
        rw [setTxn_readMark, setTxn_txns, doneRead_txns, setTxn_nextTs, doneRead_nextTs] at this
        exact this.mono (Nat.le_succ _)

theorem insertById_perm (t : Tbl) (l : List Tbl) : (insertById t l).Perm (t :: l) := by
  induction l with
  | nil => exact List.Perm.refl _
  | cons x xs ih =>
    unfold insertById
    split
    · exact List.Perm.refl _
    · exact (List.Perm.cons x ih).trans (List.Perm.swap t x xs)

theorem sortTblsById_perm (l : List Tbl) : (sortTblsById l).Perm l := by
  induction l with
  | nil => exact List.Perm.refl _
  | cons x xs ih =>
    show (insertById x (sortTblsById xs)).Perm (x :: xs)
    exact (insertById_perm x _).trans (List.Perm.cons x ih)

theorem wm_done_fresh (mv : Nat) : (({} : Wm).done mv) = { pend := [], doneUntil := mv } := by
  simp [Wm.done, Wm.bump, Wm.bump.ins, Wm.advance, Wm.advance.go]

theorem closeOpen_fields (d : Db) :
    d.closeOpen.opts = d.opts ∧ d.closeOpen.now = d.now ∧ d.closeOpen.txns = [] ∧ d.closeOpen.committed = [] ∧
    d.closeOpen.readMark = { pend := [], doneUntil := d.closeOpen.nextTs - 1 } ∧ 0 < d.closeOpen.nextTs ∧
    (d.closeOpen.lsm = d.lsm ∨ ∃ l0 rest, d.lsm.levels = l0 :: rest ∧
      d.closeOpen.lsm = { d.lsm with levels := sortTblsById l0 :: rest }) := by
  refine ⟨rfl, rfl, rfl, rfl, ?_, Nat.succ_pos _, ?_⟩
  · show (({} : Wm).done _) = _
    rw [wm_done_fresh]; rfl
  · unfold Db.closeOpen
    cases hl : d.lsm.levels with
    | nil => left; rfl
    | cons l0 rest => right; exact ⟨l0, rest, rfl, rfl⟩

theorem reopen_inv (h : Inv o hist d) (fid : Nat)
    (hnext : d.nextTs ≤ ({ d with lsm := d.lsm.flush fid } : Db).closeOpen.nextTs) :
    Inv o hist ({ d with lsm := d.lsm.flush fid } : Db).closeOpen := by
  have h1 := flush_inv h fid
  obtain ⟨dm, nm, R, a, b⟩ := h1.l.reach
  have hlt := h.w.untilLt
  obtain ⟨fo, fn, ft, _, fr, fp, fl⟩ := closeOpen_fields ({ d with lsm := d.lsm.flush fid } : Db)
  generalize ({ d with lsm := d.lsm.flush fid } : Db).closeOpen = d' at *
  have hR : Reach o.maxLevels hist dm nm d'.lsm := by
    rcases fl with e | ⟨l0, rest, hl, e⟩
    · rw [e]; exact R
    · rw [e]; exact Reach.resort R hl (sortTblsById_perm l0)
  have a' : dm ≤ d.readMark.doneUntil := a
  have b' : nm ≤ d.now := b
  refine ⟨⟨by rw [fo]; exact h.l.opts, ⟨dm, nm, hR, ?_, by rw [fn]; exact b'⟩, ?_, fp⟩, ?_⟩
  · rw [fr]; show dm ≤ d'.nextTs - 1; omega
  · intro x hx
    have := h.l.histLt x hx
    omega
  · rw [fr, ft]
    exact ⟨⟨by simp [WmL.Sorted], by simp⟩, by show d'.nextTs - 1 < d'.nextTs; omega, by simp, by simp [openCount], by simp⟩

theorem reach_levels_length {nlev : Nat} {hist : List Ent} {dm nm : Nat} {s : Lsm}
    (r : Reach nlev hist dm nm s) : s.levels.length = nlev := by
  induction r with
  | init => simp [Lsm.init]
  | put _ e _ _ _ ih => exact ih
  | flush _ id ih =>
    rename_i s0
    unfold Lsm.flush
    split
    · exact ih
    · split
      · exact ih
      · rename_i l0 rest hl; rw [hl] at ih; simpa using ih
  | resort _ hl hp ih => rw [hl] at ih; simpa using ih
  | compact _ cd d n now' hi htop hvc hdp hs hcut ih =>
    obtain ⟨new0, _, rfl⟩ := LL.compact_some hs
    show (LL.newLevels _ cd new0).length = _
    unfold LL.newLevels
    split <;> simp [ih]

theorem dropall_inv (h : Inv o hist d) (hmem : o.inMemory = false) : Inv o [] d.dropAll := by
  obtain ⟨dm, nm, R, _, _⟩ := h.l.reach
  have hlen := reach_levels_length R
  have ho : d.dropAll.opts = d.opts := by
    unfold Db.dropAll
    have : d.opts.inMemory = false := by rw [h.l.opts]; exact hmem
    simp [this]
  have hl : d.dropAll.lsm = Lsm.init o.maxLevels := by
    show d.lsm.dropAll = _
    unfold Lsm.dropAll Lsm.init
    rw [← hlen]
    simp only [Lsm.mk.injEq, true_and]
    clear hlen R
    induction d.lsm.levels with
    | nil => rfl
    | cons a l ih => simp [List.replicate_succ, ih]
  refine ⟨⟨by rw [ho]; exact h.l.opts, ⟨0, 0, by rw [hl]; exact Reach.init, Nat.zero_le _, Nat.zero_le _⟩,
    (by intro x hx; cases hx), h.l.nextPos⟩, h.w⟩

theorem inv_of_reach (hm : o.managed = false) (r : DbReach o hist d) : Inv o hist d := by
  induction r with
  | init now => exact init_inv o now
  | begin _ id upd ih => exact begin_inv hm ih id upd
  | set _ id e hv ih => exact set_inv ih id e hv
  | get _ id k ih => exact get_inv ih id k
  | reads _ id t rs hf ih => exact reads_inv ih rs hf
  | discard _ id ih => exact discard_inv hm ih id
  | commit _ id hmax ih => exact commit_inv hm ih id hmax
  | flush _ fid ih => exact flush_inv ih fid
  | tick _ now' hn ih => exact tick_inv ih now' hn
  | reopen _ fid hnext ih => exact reopen_inv ih fid hnext
  | dropall _ hmem ih => exact dropall_inv ih hmem
  | compact _ cd dts hd hi htop hvc hdp hs hcut ih => exact compact_inv hm ih cd dts hd hi htop hvc hdp hs hcut

end DbL

/-! ## The theorems -/

/-- **C34 at database level**: in every reachable state the discard watermark is at or below the
    read timestamp of every transaction that has not been discarded — compactions can never drop
    a version an open transaction may still read. -/
theorem C34_db_discard_below_open {o : Opts} {hist : List Ent} {d : Db} (hm : o.managed = false)
    (r : DbReach o hist d) {id : Nat} {t : TxnM} (hf : d.findTxn id = some t) (hdisc : t.discarded = false) :
    d.discardAtOrBelow ≤ t.readTs := by
  have h := DbL.inv_of_reach hm r
  have tok := DbL.txnOk_of_find h hf
  have hopen : t.doneRead = false := by
    cases hd : t.doneRead
    · rfl
    · have := tok.doneDisc hd; rw [this] at hdisc; cases hdisc
  have := h.w.until_le (DbL.find_mem hf).1 hopen
  unfold Db.discardAtOrBelow
  rw [DbL.managed_false hm h]
  simpa using this

/-- **C01 for the whole database model, every history**: `Txn.Get` of a key the transaction has not
    written itself returns the newest committed write `≤ readTs` of the key over the whole commit
    history, absent if that is a delete marker or expired — in every state reachable by any
    sequence of transactions, flushes, clock ticks and picker-valid compactions at any discard
    timestamp up to the watermark. -/
theorem C01_db_snapshot {o : Opts} {hist : List Ent} {d : Db} (hm : o.managed = false)
    (r : DbReach o hist d) {id : Nat} {t : TxnM} {k : Bytes} (hf : d.findTxn id = some t)
    (hk : k.isEmpty = false) (hdisc : t.discarded = false)
    (hpend : (if t.update then t.pending.find? (·.key == k) else none) = none) :
    (d.txnGet id k).2 = getResOf (visible d.now (newestLE hist k t.readTs)) := by
  have h := DbL.inv_of_reach hm r
  obtain ⟨dm, nm, R, h1, h2⟩ := h.l.reach
  have hle := C34_db_discard_below_open hm r hf hdisc
  unfold Db.discardAtOrBelow at hle
  rw [DbL.managed_false hm h] at hle
  have hle : d.readMark.doneUntil ≤ t.readTs := by simpa using hle
  have R' : Reach d.opts.maxLevels hist dm nm d.lsm := by rw [h.l.opts]; exact R
  exact C01_reach_txnGet R' hf hk hdisc hpend (by omega) h2

/-- **C03 at database level**: a successful commit writes all its entries at ONE timestamp that is
    above every version committed before and above the read timestamp of every transaction in the
    table (so no open transaction can see part of it). -/
theorem C03_db_commit_fresh {o : Opts} {hist : List Ent} {d : Db} (hm : o.managed = false)
    (r : DbReach o hist d) (id : Nat) :
    ∀ e ∈ d.commitHist id, e.ver = d.nextTs ∧ (∀ x ∈ hist, x.ver < e.ver) ∧ ∀ t ∈ d.txns, t.readTs < e.ver := by
  have h := DbL.inv_of_reach hm r
  intro e he
  have hv : e.ver = d.nextTs := by
    unfold Db.commitHist at he
    split at he
    · exact DbL.normalEnts_ver d _ e (List.mem_reverse.mp he)
    · cases he
  refine ⟨hv, fun x hx => by have := h.l.histLt x hx; omega, fun t ht => by have := (h.w.txns t ht).lt; omega⟩

/-- **repeatable reads**: the commit of any transaction leaves the snapshot of every transaction in
    the table unchanged. -/
theorem C01_db_repeatable {o : Opts} {hist : List Ent} {d : Db} (hm : o.managed = false)
    (r : DbReach o hist d) (id : Nat) {t : TxnM} (ht : t ∈ d.txns) (k : Bytes) :
    newestLE (d.commitHist id ++ hist) k t.readTs = newestLE hist k t.readTs := by
  rw [LL.newestLE_append]
  have : newestLE (d.commitHist id) k t.readTs = none := by
    apply LL.newestLE_eq_none.mpr
    intro x hx hc
    have := (C03_db_commit_fresh hm r id x hx).2.2 t ht
    omega
  rw [this, LL.pick_none_left]

/-! ## non-vacuity: a concrete run — commit `[1] ↦ [7]`, then a reader begun afterwards sees it -/

def C01_dbOpts : Opts := { maxBatchCount := 1000, maxBatchSize := 100000 }
def C01_dbE : Ent := ⟨[1], 0, 0, 0, 0, [7]⟩
def C01_dbD2 : Db := (((Db.init C01_dbOpts 0).begin 1 true 0).1.modify 1 C01_dbE).1
def C01_dbD4 : Db := ((C01_dbD2.commit 1 0).1.begin 2 false 0).1

theorem C01_db_example_reach : DbReach C01_dbOpts (C01_dbD2.commitHist 1 ++ []) C01_dbD4 :=
  DbReach.begin (DbReach.commit (DbReach.set (DbReach.begin (DbReach.init 0) 1 true) 1 C01_dbE rfl) 1 (by decide)) 2 false

theorem C01_db_example_hist : (C01_dbD2.commitHist 1).map (fun e => (e.key, e.ver, e.val)) = [([1], 1, [7])] := by decide

theorem C01_db_example_read :
    (match (C01_dbD4.txnGet 2 [1]).2 with
      | .found e v => e.val == [7] && v == 1
      | _ => false) = true := by decide

end Badger
