import BadgerProofs.Lemmas.LsmChoice
import BadgerProofs.Props.C12
/-!
# C12 — the hypotheses of the compaction theorems follow from the run-time-checked picker predicate

`validChoice` (BadgerModel/Picker.lean) is evaluated by the mvcc driver on every compaction the
implementation performs. Here: `validChoice` (+ the index sanity `ChoiceIdxOk` that `validChoice`
does not look at) gives `CompactOk`; and the rule of the repaired `fillTablesL0ToLbase` (finding
F28: the chain-overlapping prefix, or ALL of L0 when a table behind the prefix overlaps its range)
gives `TopsOldest` in the strongest possible form — the L0 tables left behind share no user key
with the tables taken — with no assumption about the order of the L0 tables, which `Open` re-sorts
by file id. So the read-preservation theorem needs no hypothesis about the choice beyond
`validChoice`. (`L0SF` below, the shape of an L0 that is never re-sorted, is kept as a fact about
such runs; nothing depends on it any more.)
-/
namespace Badger

/-- (a) a choice the production pickers can make is a well-formed compaction. `ChoiceIdxOk` is
    exactly what `validChoice` does not inspect (levels exist, indices point at tables, `top` in
    level order, same-level compaction of a level `≥ 1` only on the last level); `VerBound` is needed
    because `BotExact` speaks about `tblOverlaps` on `key@MaxUint64 … key@0` while `overlapIdx`
    compares user keys. -/
theorem C12_validChoice_compactOk {s : Lsm} {cd : CompactDef} (h : LsmInv s) (hv : VerBound s)
    (hi : ChoiceIdxOk s cd) (htop : cd.top ≠ []) (hvc : validChoice s cd = true) : CompactOk s cd :=
  LL.validChoice_compactOk h hv hi htop hvc

/-- `ChoiceIdxOk` is needed: with a next level that does not exist `validChoice` still accepts, and
    `Lsm.compact` would silently lose the table. -/
theorem C12_validChoice_needs_idxOk :
    ∃ (s : Lsm) (cd : CompactDef), LsmInv s ∧ VerBound s ∧ cd.top ≠ [] ∧ validChoice s cd = true ∧
      ¬ CompactOk s cd :=
  ⟨{ mem := [], imm := [], levels := [[{ ents := [⟨[1], 1, 0, 0, 0, []⟩] }]] },
   { thisLevel := 0, nextLevel := 1, top := [0], bot := [], outSizes := [1], dropPrefixes := [] },
   by decide, by decide, by decide, by decide, by decide⟩

/-- L0 in age order is the special case `m = 0` of `L0SF` -/
theorem C14_l0sf_of_layered {s : Lsm} (hl : Layered s) : L0SF s := by
  refine ⟨0, Nat.zero_le _, ?_, ?_⟩
  · intro i j a b x y _ hj; omega
  · intro j j' a b hlt _ hj hj'
    have h4 := ((LL.layered_iff_X s).mp hl).2
    by_cases hlen : 0 < s.levels.length
    · exact h4 (s.levels.getD 0 []) j j' a b (LL.levels_getD hlen) hj hj' hlt
    · have : s.levels.getD 0 [] = [] := by
        cases hl' : s.levels with
        | nil => rfl
        | cons _ _ => rw [hl'] at hlen; simp at hlen
      rw [this] at hj; simp at hj

theorem C14_l0sf_init (n : Nat) : L0SF (Lsm.init n) := by
  refine ⟨0, Nat.zero_le _, ?_, ?_⟩
  · intro i j a b x y _ hj; omega
  · intro j j' a b _ _ hj
    have : (Lsm.init n).levels.getD 0 [] = [] := by
      cases n <;> simp [Lsm.init, List.replicate]
    rw [this] at hj; simp at hj

theorem C14_l0sf_put {s : Lsm} (hsf : L0SF s) (e : Ent) : L0SF (s.putEnt e) := hsf

theorem C14_l0sf_flush {s : Lsm} (hl : LayeredX s) (hsf : L0SF s) (id : Nat) : L0SF (s.flush id) :=
  LL.l0sf_flush hl hsf id

/-- every well-formed compaction keeps the shape: L0 → Lbase removes a prefix, L0 → L0 re-sorts the
    whole level by `Smallest`, the others do not touch level 0 -/
theorem C14_l0sf_compact {s s' : Lsm} {cd : CompactDef} {d n now : Nat} (h : LsmInv s) (hc : CompactOk s cd)
    (hsf : L0SF s) (hs : s.compact cd d n now = some s') : L0SF s' :=
  LL.l0sf_compact h hc hsf hs

/-- (a) the repaired picker (F28: the chain-overlapping prefix, or all of L0 when a table behind it
    overlaps) never leaves behind an L0 table whose key range overlaps the tables it takes -/
theorem C12_validChoice_noLeftBehind {s : Lsm} {cd : CompactDef} (htop : cd.top ≠ [])
    (hvc : validChoice s cd = true) (hk : IsL0Lbase s cd) : LL.cdLeftBehind s cd = false :=
  LL.validChoice_noLeftBehind hvc htop hk.1 (by have := hk.2.1; omega)

/-- (a) hence the side condition `TopsOldest` of the L0 → Lbase theorems: the tables left in L0
    share no user key with the tops — with NO assumption about the order of L0 (so it survives the
    re-sort by file id that `Open` performs). -/
theorem C12_validChoice_topsOldest {s : Lsm} {cd : CompactDef} (h : LsmInv s)
    (hth : cd.thisLevel < s.levels.length) (htop : cd.top ≠ []) (hvc : validChoice s cd = true)
    (hk : IsL0Lbase s cd) : TopsOldest s cd :=
  LL.topsOldest_of_noLeftBehind h hth hk.1 (C12_validChoice_noLeftBehind htop hvc hk)

/-- C12 with the choice hypothesis replaced by the run-time-checked predicate: every compaction the
    pickers can choose preserves every read at `ts ≥ discardTs`, in every state of the kind the
    engine maintains. -/
theorem C12_compact_reads_valid {s s' : Lsm} {cd : CompactDef} {d n now' now ts : Nat} {k : Bytes}
    (h : LsmInv s) (hv : VerBound s) (hl : LayeredX s) (hu : KeyVerUnique s)
    (hi : ChoiceIdxOk s cd) (htop : cd.top ≠ []) (hvc : validChoice s cd = true)
    (hdp : cd.dropPrefixes = []) (hs : s.compact cd d n now' = some s') (hts : d ≤ ts) (hnow : now' ≤ now) :
    visible now (s'.get k ts) = visible now (s.get k ts) := by
  have hc := C12_validChoice_compactOk h hv hi htop hvc
  exact C12_compact_reads_weak h hv hl hc (fun hk => C12_validChoice_topsOldest h hi.1 htop hvc hk)
    (fun _ => LL.tblsFun_of_unique hu h hc.1) hdp hs hts hnow

/-! ## finding F28 and its repair -/

def C12_f28CdAll : CompactDef :=
  { thisLevel := 0, nextLevel := 1, top := [0, 1], bot := [], outSizes := [], dropPrefixes := [] }
def C12_f28StateAll' : Lsm :=
  { mem := [], imm := [], levels := [[], []] }

/-- F28, repaired in the picker: on the F28 state (L0 = [ {1@2 marker}, {1@1 ↦ 42} ], newer table
    first) the choice `top = [0]` that resurrected `1@1` (`C12_L0Lbase_needs_topsOldest`) is no longer
    a choice of the picker — the table behind the prefix overlaps its range, so ALL of L0 is taken;
    that compaction drops the marker TOGETHER with the version it shadows and preserves the read. -/
theorem C12_f28_picker_rejects :
    validChoice C12_f28State C12_f28Cd = false ∧
    ChoiceIdxOk C12_f28State C12_f28CdAll ∧ validChoice C12_f28State C12_f28CdAll = true ∧
    C12_f28State.compact C12_f28CdAll 5 1 0 = some C12_f28StateAll' ∧
    visible 0 (C12_f28StateAll'.get [1] 9) = visible 0 (C12_f28State.get [1] 9) := by
  refine ⟨by decide, by decide, by decide, by lsm_decide, by decide⟩

/-! Why the picker had to change: the first candidate repair kept the picker and forced
`hasOverlap := true` in an L0 → Lbase compaction that leaves an overlapping L0 table behind. That
keeps the marker in THAT step but moves it BELOW the older version it shadows, destroying the
recency invariant every deeper compaction relies on. -/

/-- L0 as sorted by file id after a reopen: marker `1@5`, an unrelated table, the old `1@1 ↦ 42` -/
def C12_f28bS0 : Lsm :=
  { mem := [], imm := [],
    levels := [[{ ents := [⟨[1], 5, 1, 0, 0, []⟩] }, { ents := [⟨[3], 1, 0, 0, 0, [3]⟩] },
                { ents := [⟨[1], 1, 0, 0, 0, [42]⟩] }], [], []] }
def C12_f28bCdA : CompactDef :=
  { thisLevel := 0, nextLevel := 1, top := [0], bot := [], outSizes := [1], dropPrefixes := [] }
/-- what that candidate repair produced from `C12_f28bS0`: the marker, kept, now in L1 -/
def C12_f28bS1 : Lsm :=
  { mem := [], imm := [],
    levels := [[{ ents := [⟨[3], 1, 0, 0, 0, [3]⟩] }, { ents := [⟨[1], 1, 0, 0, 0, [42]⟩] }],
               [{ ents := [⟨[1], 5, 1, 0, 0, []⟩] }], []] }
def C12_f28bCdB : CompactDef :=
  { thisLevel := 1, nextLevel := 2, top := [0], bot := [], outSizes := [], dropPrefixes := [] }
def C12_f28bS2 : Lsm :=
  { mem := [], imm := [],
    levels := [[{ ents := [⟨[3], 1, 0, 0, 0, [3]⟩] }, { ents := [⟨[1], 1, 0, 0, 0, [42]⟩] }], [], []] }

/-- the `hasOverlap` repair of F28 is insufficient. Step A (L0 → L1 of the chain prefix `[0]` of
    `C12_f28bS0`, with `hasOverlap` forced to `true` because the table left behind overlaps) writes
    exactly the marker — the state `C12_f28bS1`, which is structurally fine but no longer `LayeredX`
    (the newer `1@5` lies below the older `1@1`). Step B, an ordinary picker-valid L1 → L2 compaction
    of that marker, finds nothing below (`hasOverlap = false`) and drops it: key 1 reads 42 again.
    (The repaired picker never makes step A: `validChoice C12_f28bS0 C12_f28bCdA = false`.) -/
theorem C12_f28_hasOverlap_repair_insufficient :
    -- step A under the candidate repair writes the marker …
    subcompact { discardTs := 6, numKeep := 1, hasOverlap := true, now := 0, dropPrefixes := [] }
      (LL.cdMerged C12_f28bS0 C12_f28bCdA) = [⟨[1], 5, 1, 0, 0, []⟩] ∧
    -- … into a state that is well formed but not layered,
    LsmInv C12_f28bS1 ∧ VerBound C12_f28bS1 ∧ KeyVerUnique C12_f28bS1 ∧ ¬ LayeredX C12_f28bS1 ∧
    -- from which an ordinary valid compaction resurrects the deleted key
    ChoiceIdxOk C12_f28bS1 C12_f28bCdB ∧ validChoice C12_f28bS1 C12_f28bCdB = true ∧
    C12_f28bS1.compact C12_f28bCdB 6 1 0 = some C12_f28bS2 ∧
    visible 0 (C12_f28bS0.get [1] 9) = none ∧ visible 0 (C12_f28bS1.get [1] 9) = none ∧
    visible 0 (C12_f28bS2.get [1] 9) = some ⟨[1], 1, 0, 0, 0, [42]⟩ ∧
    validChoice C12_f28bS0 C12_f28bCdA = false := by
  refine ⟨?_, by decide, by decide, by decide, by decide, by decide, by decide, by lsm_decide, by decide,
    by decide, by decide, by decide⟩
  simp only [LL.cdMerged, mergeAll_eq_F]; decide

/-! non-vacuity: the production choice on a three-table L0 whose first two tables chain-overlap -/
def C12_choiceState : Lsm :=
  { mem := [], imm := [],
    levels := [[{ ents := [⟨[1], 1, 0, 0, 0, []⟩, ⟨[3], 1, 0, 0, 0, []⟩] }, { ents := [⟨[2], 2, 0, 0, 0, []⟩] },
                { ents := [⟨[5], 3, 0, 0, 0, []⟩] }],
               [{ ents := [⟨[2], 1, 0, 0, 0, []⟩] }, { ents := [⟨[7], 1, 0, 0, 0, []⟩] }]] }
def C12_choiceCd : CompactDef :=
  { thisLevel := 0, nextLevel := 1, top := [0, 1], bot := [0], outSizes := [4], dropPrefixes := [] }

example : LsmInv C12_choiceState ∧ VerBound C12_choiceState ∧ ChoiceIdxOk C12_choiceState C12_choiceCd ∧
    validChoice C12_choiceState C12_choiceCd = true ∧ CompactOk C12_choiceState C12_choiceCd ∧
    TopsOldest C12_choiceState C12_choiceCd := by decide

end Badger
