import BadgerProofs.Lemmas.LsmChoice
import BadgerProofs.Props.C12
/-!
# C12 — the hypotheses of the compaction theorems follow from the run-time-checked picker predicate

`validChoice` (BadgerModel/Picker.lean) is evaluated by the mvcc driver on every compaction the
implementation performs. Here: `validChoice` (+ the index sanity `ChoiceIdxOk` that `validChoice`
does not look at) gives `CompactOk`; and the maximal chain-overlapping prefix that
`fillTablesL0ToLbase` takes gives `TopsOldest` on every level 0 of the shape `L0SF` that the engine
maintains (first a block ordered by smallest key — what `replaceTables` leaves after an L0 → L0
compaction —, then the tables flushed since, newest last). So the read-preservation theorem needs no
hypothesis about the choice beyond `validChoice`.
-/
namespace Badger

/-- (a) a choice the production pickers can make is a well-formed compaction. `ChoiceIdxOk` is
    exactly what `validChoice` does not inspect (levels exist, indices point at tables, `top` in
    level order, same-level compaction of a level `≥ 1` only on the last level); `VerBound` is needed
    because `BotExact` speaks about `tblOverlaps` on `key@MaxUint64 … key@0` while `overlapIdx`
    compares user keys. -/
theorem C12_validChoice_compactOk {s : Lsm} {cd : CompactDef} (h : LsmInv s) (hv : VerBound s)
    (hi : ChoiceIdxOk s cd) (htop : cd.top ≠ []) (hvc : validChoice s cd = true) : CompactOk s cd :=
  LL.validChoice_compactOk h hv hi htop hvc

/-- `ChoiceIdxOk` is needed: with a next level that does not exist `validChoice` still accepts, and
    `Lsm.compact` would silently lose the table. -/
theorem C12_validChoice_needs_idxOk :
    ∃ (s : Lsm) (cd : CompactDef), LsmInv s ∧ VerBound s ∧ cd.top ≠ [] ∧ validChoice s cd = true ∧
      ¬ CompactOk s cd :=
  ⟨{ mem := [], imm := [], levels := [[{ ents := [⟨[1], 1, 0, 0, 0, []⟩] }]] },
   { thisLevel := 0, nextLevel := 1, top := [0], bot := [], outSizes := [1], dropPrefixes := [] },
   by decide, by decide, by decide, by decide, by decide⟩

/-- L0 in age order is the special case `m = 0` of `L0SF` -/
theorem C14_l0sf_of_layered {s : Lsm} (hl : Layered s) : L0SF s := by
  refine ⟨0, Nat.zero_le _, ?_, ?_⟩
  · intro i j a b x y _ hj; omega
  · intro j j' a b hlt _ hj hj'
    have h4 := ((LL.layered_iff_X s).mp hl).2
    by_cases hlen : 0 < s.levels.length
    · exact h4 (s.levels.getD 0 []) j j' a b (LL.levels_getD hlen) hj hj' hlt
    · have : s.levels.getD 0 [] = [] := by
        cases hl' : s.levels with
        | nil => rfl
        | cons _ _ => rw [hl'] at hlen; simp at hlen
      rw [this] at hj; simp at hj

theorem C14_l0sf_init (n : Nat) : L0SF (Lsm.init n) := by
  refine ⟨0, Nat.zero_le _, ?_, ?_⟩
  · intro i j a b x y _ hj; omega
  · intro j j' a b _ _ hj
    have : (Lsm.init n).levels.getD 0 [] = [] := by
      cases n <;> simp [Lsm.init, List.replicate]
    rw [this] at hj; simp at hj

theorem C14_l0sf_put {s : Lsm} (hsf : L0SF s) (e : Ent) : L0SF (s.putEnt e) := hsf

theorem C14_l0sf_flush {s : Lsm} (hl : LayeredX s) (hsf : L0SF s) (id : Nat) : L0SF (s.flush id) :=
  LL.l0sf_flush hl hsf id

/-- every well-formed compaction keeps the shape: L0 → Lbase removes a prefix, L0 → L0 re-sorts the
    whole level by `Smallest`, the others do not touch level 0 -/
theorem C14_l0sf_compact {s s' : Lsm} {cd : CompactDef} {d n now : Nat} (h : LsmInv s) (hc : CompactOk s cd)
    (hsf : L0SF s) (hs : s.compact cd d n now = some s') : L0SF s' :=
  LL.l0sf_compact h hc hsf hs

/-- (a) the maximal-prefix rule of `fillTablesL0ToLbase` (`l0PrefixLen`) gives exactly the side
    condition `TopsOldest` of `C12_compact_reads_weak`, on every level 0 of shape `L0SF` — no
    `Layered`, no assumption that L0 is in age order. -/
theorem C12_validChoice_topsOldest {s : Lsm} {cd : CompactDef} (h : LsmInv s) (hsf : L0SF s)
    (hth : cd.thisLevel < s.levels.length) (htop : cd.top ≠ []) (hvc : validChoice s cd = true)
    (hk : IsL0Lbase s cd) : TopsOldest s cd := by
  obtain ⟨m, hm⟩ := hsf
  have h0 := hk.1
  have hthisT : cdThisT s cd = s.levels.getD 0 [] := by unfold cdThisT; rw [h0]
  rcases LL.validChoice_cases hvc htop with ⟨_, hn, _⟩ | ⟨_, _, ht, _, _⟩ | ⟨hne, _⟩ | ⟨hne, _⟩
  · have := hk.2.1; omega
  · by_cases hdp : cd.dropPrefixes.isEmpty = true
    · rw [if_pos hdp] at ht
      exact LL.topsOldest_of_prefix h (by rw [hthisT]; exact hm) hth ht htop
    · rw [if_neg hdp] at ht
      intro t htm
      rw [ht, LL.removeIdx_range] at htm
      simp at htm
  · exact absurd h0 hne
  · exact absurd h0 hne

/-- C12 with the choice hypothesis replaced by the run-time-checked predicate: every compaction the
    pickers can choose preserves every read at `ts ≥ discardTs`, in every state of the kind the
    engine maintains. -/
theorem C12_compact_reads_valid {s s' : Lsm} {cd : CompactDef} {d n now' now ts : Nat} {k : Bytes}
    (h : LsmInv s) (hv : VerBound s) (hl : LayeredX s) (hu : KeyVerUnique s) (hsf : L0SF s)
    (hi : ChoiceIdxOk s cd) (htop : cd.top ≠ []) (hvc : validChoice s cd = true)
    (hdp : cd.dropPrefixes = []) (hs : s.compact cd d n now' = some s') (hts : d ≤ ts) (hnow : now' ≤ now) :
    visible now (s'.get k ts) = visible now (s.get k ts) := by
  have hc := C12_validChoice_compactOk h hv hi htop hvc
  exact C12_compact_reads_weak h hv hl hc (fun hk => C12_validChoice_topsOldest h hsf hi.1 htop hvc hk)
    (fun _ => LL.tblsFun_of_unique hu h hc.1) hdp hs hts hnow

/-! non-vacuity: the production choice on a three-table L0 whose first two tables chain-overlap -/
def C12_choiceState : Lsm :=
  { mem := [], imm := [],
    levels := [[{ ents := [⟨[1], 1, 0, 0, 0, []⟩, ⟨[3], 1, 0, 0, 0, []⟩] }, { ents := [⟨[2], 2, 0, 0, 0, []⟩] },
                { ents := [⟨[5], 3, 0, 0, 0, []⟩] }],
               [{ ents := [⟨[2], 1, 0, 0, 0, []⟩] }, { ents := [⟨[7], 1, 0, 0, 0, []⟩] }]] }
def C12_choiceCd : CompactDef :=
  { thisLevel := 0, nextLevel := 1, top := [0, 1], bot := [0], outSizes := [4], dropPrefixes := [] }

example : LsmInv C12_choiceState ∧ VerBound C12_choiceState ∧ ChoiceIdxOk C12_choiceState C12_choiceCd ∧
    validChoice C12_choiceState C12_choiceCd = true ∧ CompactOk C12_choiceState C12_choiceCd ∧
    TopsOldest C12_choiceState C12_choiceCd := by decide

end Badger
