import BadgerModel.ManifestPb
import BadgerProofs.Lemmas.AuxManifest
import BadgerProofs.Lemmas.AuxPb
/-!
# C17 — MANIFEST replay reconstructs the table map exactly (`manifest.go`).

Parameters of every theorem: a `Codec` (`crc`, protobuf `enc`/`dec`, Go map order `ord`) with
the contracts `Codec.Valid` (`crc < 2^32`, `dec (enc cs) = some cs` for sets whose fields fit
their Go types, `ord` permutes). The concrete codec of the driver (real protobuf wire format,
bit-level CRC32-C) satisfies them: `C17_pbCodec_valid`.

* file level: `C17_atomic_sets` (a cut anywhere leaves exactly the complete frames applied),
  `C17_trunc` (cut inside the last frame), `C17_checksum_error`;
* history level: `C17_replay_exact` (any sequence of accepted `addChanges` calls, automatic
  rewrites included, any threshold).

**Finding F16 (fixed).** `ReplayManifestFile` used to compare a frame's length field with
`uint32(file size)` *before* trying to read the payload, so a file torn inside its last frame
whose payload length exceeded the size of what was left on disk was reported as an error rather
than as a truncation. Now the length is compared with the bytes left in the file and a longer
record is the torn tail it is: `C17_trunc` / `C17_atomic_sets` need no side condition any more,
`C17_truncStatement` is a theorem (`C17_trunc_all`), and `C17_F16_regression_witness` keeps the
input on which the old rule failed.
-/
namespace Badger

/-- The MANIFEST file holding the change sets `sets`. -/
def manifestFileOf (cd : Codec) (ext : Nat) (sets : List ChangeSet) : Bytes :=
  manifestHeader ext ++ framesOf cd sets

theorem enc_le_framesOf (cd : Codec) (sets : List ChangeSet) (cs : ChangeSet) (h : cs ∈ sets) :
    (cd.enc cs).length + 8 ≤ (framesOf cd sets).length := by
  induction sets with
  | nil => cases h
  | cons x xs ih =>
    rw [framesOf_cons, List.length_append, frame_length]
    rcases List.mem_cons.mp h with rfl | hx
    · omega
    · have := ih hx; omega

/-- Replay of header, complete frames `pre`, arbitrary tail `t`: the frames are applied and the
    loop continues on the tail. -/
theorem replay_frames_tail (cd : Codec) (hv : cd.Valid) (ext : Nat) (hext : ext < 2 ^ 16)
    (pre : List ChangeSet) (t : Bytes) (m : Manifest)
    (hall : applyAll Manifest.empty pre = some m) (hrange : ∀ s, s ∈ pre → ChangeSet.InRange s)
    (hsize : (manifestHeader ext ++ (framesOf cd pre ++ t)).length < 2 ^ 32) :
    replay cd (manifestHeader ext ++ (framesOf cd pre ++ t)) ext =
      replayRest cd t (8 + (framesOf cd pre).length) m := by
  rw [replay_header cd ext hext]
  have hl : (manifestHeader ext ++ (framesOf cd pre ++ t)).length = 8 + (framesOf cd pre ++ t).length := by
    simp
  rw [hl] at hsize
  apply replayRest_frames cd hv pre t 8 Manifest.empty m hall hrange
  intro cs hcs
  have := enc_le_framesOf cd pre cs hcs
  simp only [List.length_append] at hsize
  omega

/-- Replay of an intact file: every set applied, truncation offset = file size. -/
theorem replay_intact (cd : Codec) (hv : cd.Valid) (ext : Nat) (hext : ext < 2 ^ 16)
    (sets : List ChangeSet) (m : Manifest)
    (hall : applyAll Manifest.empty sets = some m) (hrange : ∀ s, s ∈ sets → ChangeSet.InRange s)
    (hsize : (manifestFileOf cd ext sets).length < 2 ^ 32) :
    replay cd (manifestFileOf cd ext sets) ext = .ok (m, (manifestFileOf cd ext sets).length) := by
  have h := replay_frames_tail cd hv ext hext sets [] m hall hrange (by simpa [manifestFileOf] using hsize)
  simp only [List.append_nil] at h
  unfold manifestFileOf
  rw [h, replayRest_short _ _ _ _ (by simp)]
  simp

theorem rawFrame_take (l c : Nat) (p : Bytes) (k : Nat) (hk : 8 ≤ k) :
    (rawFrame l c p).take k = rawFrame l c (p.take (k - 8)) := by
  unfold rawFrame
  rw [List.take_append]
  have h8 : (beBytes l 4 ++ beBytes c 4).length = 8 := by simp
  rw [h8, List.take_of_length_le (by omega)]

/-- **Atomicity of change sets.** Take the file of `pre ++ [cs] ++ …` and cut it `k` bytes into
    the frame of `cs` (`k = 0`: exactly at a frame boundary; `k` strictly less than the frame
    length). Replay succeeds with exactly the sets `pre` applied — nothing of `cs` — and the
    truncation offset is the end of the last complete frame. (`hl32`: the length field is a
    `uint32`.) -/
theorem C17_atomic_sets (cd : Codec) (hv : cd.Valid) (ext : Nat) (hext : ext < 2 ^ 16)
    (pre : List ChangeSet) (cs : ChangeSet) (k : Nat) (m : Manifest)
    (hall : applyAll Manifest.empty pre = some m) (hrange : ∀ s, s ∈ pre → ChangeSet.InRange s)
    (hk : k < (frame cd (cd.enc cs)).length)
    (hsize : (manifestFileOf cd ext pre ++ (frame cd (cd.enc cs)).take k).length < 2 ^ 32)
    (hl32 : (cd.enc cs).length < 2 ^ 32) :
    replay cd (manifestFileOf cd ext pre ++ (frame cd (cd.enc cs)).take k) ext =
      .ok (m, (manifestFileOf cd ext pre).length) := by
  unfold manifestFileOf at *
  rw [List.append_assoc] at hsize ⊢
  rw [replay_frames_tail cd hv ext hext pre _ m hall hrange hsize]
  have hoff : 8 + (framesOf cd pre).length = (manifestHeader ext ++ framesOf cd pre).length := by simp
  rw [hoff]
  rw [frame_length] at hk
  by_cases h8 : k < 8
  · apply replayRest_short
    simp only [List.length_take, frame_length]; omega
  · have h8' : 8 ≤ k := by omega
    rw [frame_eq_rawFrame, rawFrame_take _ _ _ _ h8']
    apply replayRest_tornPayload
    · exact hl32
    · simp only [List.length_take]; omega

/-- **Truncated tail.** The file of `pre ++ [last]` cut anywhere inside the frame of `last`:
    replay returns the manifest of `pre` and the end of the last complete frame. -/
theorem C17_trunc (cd : Codec) (hv : cd.Valid) (ext : Nat) (hext : ext < 2 ^ 16)
    (pre : List ChangeSet) (last : ChangeSet) (c : Nat) (m : Manifest)
    (hall : applyAll Manifest.empty pre = some m) (hrange : ∀ s, s ∈ pre → ChangeSet.InRange s)
    (hc1 : (manifestFileOf cd ext pre).length ≤ c)
    (hc2 : c < (manifestFileOf cd ext (pre ++ [last])).length)
    (hsize : c < 2 ^ 32) (hl32 : (cd.enc last).length < 2 ^ 32) :
    replay cd ((manifestFileOf cd ext (pre ++ [last])).take c) ext =
      .ok (m, (manifestFileOf cd ext pre).length) := by
  have hfile : manifestFileOf cd ext (pre ++ [last]) =
      manifestFileOf cd ext pre ++ frame cd (cd.enc last) := by
    simp [manifestFileOf, framesOf_append, framesOf_cons]
  rw [hfile] at hc2 ⊢
  rw [List.take_append, List.take_of_length_le hc1]
  have hlen : (manifestFileOf cd ext pre ++ (frame cd (cd.enc last)).take (c - (manifestFileOf cd ext pre).length)).length = c := by
    simp only [List.length_append, List.length_take, frame_length] at hc2 ⊢
    omega
  apply C17_atomic_sets cd hv ext hext pre last _ m hall hrange
  · simp only [List.length_append] at hc2; omega
  · rw [hlen]; exact hsize
  · exact hl32

/-- The statement C09/C17 ask for: **every** cut inside the last frame is a truncation (the only
    hypothesis beyond well-formedness is that the MANIFEST is smaller than 4 GiB, the range of the
    `uint32` length field). False before the fix of finding F16. -/
def C17_truncStatement (cd : Codec) : Prop :=
  ∀ (ext : Nat) (pre : List ChangeSet) (last : ChangeSet) (c : Nat) (m : Manifest),
    ext < 2 ^ 16 → applyAll Manifest.empty pre = some m →
    (∀ s, s ∈ pre → ChangeSet.InRange s) → ChangeSet.InRange last →
    (manifestFileOf cd ext (pre ++ [last])).length < 2 ^ 32 →
    (manifestFileOf cd ext pre).length ≤ c → c < (manifestFileOf cd ext (pre ++ [last])).length →
    replay cd ((manifestFileOf cd ext (pre ++ [last])).take c) ext =
      .ok (m, (manifestFileOf cd ext pre).length)

theorem C17_trunc_all (cd : Codec) (hv : cd.Valid) : C17_truncStatement cd := by
  intro ext pre last c m hext hall hrange _ hsz hc1 hc2
  have hl : (cd.enc last).length < 2 ^ 32 := by
    have := enc_le_framesOf cd (pre ++ [last]) last (by simp)
    simp only [manifestFileOf, List.length_append] at hsz
    omega
  exact C17_trunc cd hv ext hext pre last c m hall hrange hc1 hc2 (by omega) hl

/-- **Checksum mismatch.** After any complete frames, a frame whose stored CRC differs from the
    CRC of its payload (e.g. because payload bytes were altered) makes replay return the
    checksum error; no manifest is returned, so nothing of that set (or of the earlier ones)
    is applied. Whatever follows the frame is irrelevant. -/
theorem C17_checksum_error (cd : Codec) (hv : cd.Valid) (ext : Nat) (hext : ext < 2 ^ 16)
    (pre : List ChangeSet) (payload rest : Bytes) (storedCrc : Nat) (m : Manifest)
    (hall : applyAll Manifest.empty pre = some m) (hrange : ∀ s, s ∈ pre → ChangeSet.InRange s)
    (hc32 : storedCrc < 2 ^ 32)
    (hsize : (manifestFileOf cd ext pre ++ (rawFrame payload.length storedCrc payload ++ rest)).length < 2 ^ 32)
    (hbad : cd.crc payload ≠ storedCrc) :
    replay cd (manifestFileOf cd ext pre ++ (rawFrame payload.length storedCrc payload ++ rest)) ext =
      .error .badChecksum := by
  unfold manifestFileOf at *
  rw [List.append_assoc] at hsize ⊢
  rw [replay_frames_tail cd hv ext hext pre _ m hall hrange hsize]
  have hp : payload.length < 2 ^ 32 := by
    simp only [List.length_append, rawFrame, beBytes_length] at hsize; omega
  rw [replayRest_rawFrame cd _ _ _ _ _ _ rfl hp hc32, if_pos hbad]

/-! ## histories of `addChanges`, rewrites included -/

/-- A sequence of `addChanges` calls none of which returns an error. -/
def runAdds (cd : Codec) (mf : MFile) : List ChangeSet → Option MFile
  | [] => some mf
  | cs :: rest =>
    match mf.addChanges cd cs with
    | (mf', none) => runAdds cd mf' rest
    | (_, some _) => none

/-- Invariant of a `manifestFile`: the file is a header followed by frames of change sets that
    replay (from the empty manifest) to the in-memory manifest. -/
def MFile.Inv (cd : Codec) (lv cn : Bool) (mf : MFile) : Prop :=
  ∃ fsets m', mf.file = manifestFileOf cd mf.ext fsets ∧
    applyAll Manifest.empty fsets = some m' ∧ (∀ s, s ∈ fsets → ChangeSet.InRange s) ∧
    m'.EquivC cn mf.manifest ∧ m'.WF ∧ mf.manifest.WF ∧
    (lv = true → m'.LevelsOK ∧ mf.manifest.LevelsOK) ∧
    mf.pos = mf.file.length      -- the descriptor is at the end of the file: the next write appends

theorem ord_nil (cd : Codec) (hv : cd.Valid) : cd.ord [] = [] :=
  List.perm_nil.mp (hv.ord_perm [])

theorem asChanges_empty (cd : Codec) (hv : cd.Valid) : asChanges cd Manifest.empty = [] := by
  simp [asChanges, Manifest.empty, ord_nil cd hv]

theorem MFile.create_inv (cd : Codec) (hv : cd.Valid) (lv cn : Bool) (ext : Nat) (t : Int) :
    (MFile.create cd ext t).Inv cd lv cn := by
  refine ⟨[[]], Manifest.empty, ?_, rfl, ?_, ?_, Manifest.WF_empty, ?_, ?_, rfl⟩
  · simp [MFile.create, rewriteFile, manifestFileOf, framesOf, asChanges_empty cd hv]
  · intro s hs c hc
    simp only [List.mem_singleton] at hs
    subst hs
    cases hc
  · simp only [MFile.create, Manifest.clone, asChanges_empty cd hv, applyChangeSet]
    exact (Manifest.Equiv.refl _).toC cn
  · simp only [MFile.create, Manifest.clone, asChanges_empty cd hv, applyChangeSet]
    exact Manifest.WF_empty
  · intro _
    simp only [MFile.create, Manifest.clone, asChanges_empty cd hv, applyChangeSet]
    exact ⟨Manifest.LevelsOK_empty, Manifest.LevelsOK_empty⟩

theorem MFile.addChanges_inv (cd : Codec) (hv : cd.Valid) (lv cn : Bool) (mf mf' : MFile) (cs : ChangeSet)
    (hcs : ChangeSet.InRange cs) (hsl : lv = true → ∀ c, c ∈ cs → c.SmallLevel)
    (hinv : mf.Inv cd lv cn) (hadd : mf.addChanges cd cs = (mf', none)) :
    mf'.Inv cd lv cn ∧ mf'.ext = mf.ext ∧ mf'.threshold = mf.threshold := by
  obtain ⟨fsets, m', hfile, hall, hfr, heq, hw', hw, hlv, hpos⟩ := hinv
  unfold MFile.addChanges at hadd
  simp only at hadd
  rcases happ : applyChangeSet mf.manifest cs with ⟨m1, _ | e⟩
  · rw [happ] at hadd
    simp only at hadd
    obtain ⟨m1', happ', heq1⟩ := applyChangeSet_congrC cs cn heq.symm happ
    have hw1 : m1.WF := applyChangeSet_WF cs hcs hw happ
    have hw1' : m1'.WF := applyChangeSet_WF cs hcs hw' happ'
    split at hadd
    · -- rewrite
      cases hadd
      obtain ⟨m2, h2, hw2, heq2⟩ := applyChangeSet_asChanges cd hv m1 hw1
      refine ⟨⟨[asChanges cd m1], m2, ?_, ?_, ?_, heq2.toC cn, hw2, ⟨hw1.nodup, hw1.level_lt, hw1.range⟩, ?_, rfl⟩, rfl, rfl⟩
      · simp [rewriteFile, manifestFileOf, framesOf]
      · simp [applyAll, h2]
      · intro s hs
        simp only [List.mem_singleton] at hs
        subst hs
        exact asChanges_inRange cd hv m1 hw1
      · intro hl
        have hm1 : m1.LevelsOK := applyChangeSet_LevelsOK cs (hsl hl) (hlv hl).2 happ
        exact ⟨applyChangeSet_LevelsOK _ (asChanges_smallLevel cd hv m1 hw1) Manifest.LevelsOK_empty h2, hm1⟩
    · -- append
      cases hadd
      refine ⟨⟨fsets ++ [cs], m1', ?_, ?_, ?_, heq1.symm, hw1', hw1, fun hl =>
        ⟨applyChangeSet_LevelsOK cs (hsl hl) (hlv hl).1 happ', applyChangeSet_LevelsOK cs (hsl hl) (hlv hl).2 happ⟩, ?_⟩, rfl, rfl⟩
      · show writeAt mf.file mf.pos (frame cd (cd.enc cs)) = _
        rw [hpos, writeAt_end, hfile]
        simp [manifestFileOf, framesOf_append, framesOf_cons]
      · rw [applyAll_append, hall]
        simp [applyAll, happ']
      · intro s hs
        rcases List.mem_append.mp hs with h | h
        · exact hfr s h
        · simp only [List.mem_singleton] at h
          subst h
          exact hcs
      · show mf.pos + (frame cd (cd.enc cs)).length = (writeAt mf.file mf.pos (frame cd (cd.enc cs))).length
        rw [hpos, writeAt_end, List.length_append]
  · rw [happ] at hadd
    simp at hadd

theorem runAdds_inv (cd : Codec) (hv : cd.Valid) (lv : Bool) (mf mf' : MFile) (sets : List ChangeSet)
    (hsets : ∀ s, s ∈ sets → ChangeSet.InRange s)
    (hsl : lv = true → ∀ s, s ∈ sets → ∀ c, c ∈ s → c.SmallLevel)
    (hinv : mf.Inv cd lv true) (hrun : runAdds cd mf sets = some mf') : mf'.Inv cd lv true ∧ mf'.ext = mf.ext := by
  induction sets generalizing mf with
  | nil => simp only [runAdds] at hrun; cases hrun; exact ⟨hinv, rfl⟩
  | cons cs sets ih =>
    simp only [runAdds] at hrun
    rcases hadd : mf.addChanges cd cs with ⟨mf1, _ | e⟩
    · rw [hadd] at hrun
      obtain ⟨h1, hext, _⟩ := MFile.addChanges_inv cd hv lv true mf mf1 cs (hsets cs (by simp))
        (fun hl => hsl hl cs (by simp)) hinv hadd
      obtain ⟨h2, hext2⟩ := ih mf1 (fun s hs => hsets s (by simp [hs]))
        (fun hl s hs => hsl hl s (by simp [hs])) h1 hrun
      exact ⟨h2, hext2.trans hext⟩
    · rw [hadd] at hrun; simp at hrun

/-- **Replay is exact.** Start from a fresh MANIFEST (any external magic, any rewrite
    threshold), perform any sequence of `addChanges` calls that the code accepts (creates of
    fresh ids; deletes of known or unknown ids), with automatic rewrites wherever the rule
    fires. Then `ReplayManifestFile` on the resulting file succeeds, its truncation offset is
    the file size, and the manifest it returns has exactly the in-memory table map
    (id ↦ level, key id, compression) and the same `Creations` / `Deletions` counters. -/
theorem C17_replay_exact (cd : Codec) (hv : cd.Valid) (ext : Nat) (hext : ext < 2 ^ 16)
    (threshold : Int) (sets : List ChangeSet) (mf : MFile)
    (hsets : ∀ s, s ∈ sets → ChangeSet.InRange s)
    (hrun : runAdds cd (MFile.create cd ext threshold) sets = some mf)
    (hsize : mf.file.length < 2 ^ 32) :
    ∃ m, replay cd mf.file ext = .ok (m, mf.file.length) ∧
      (∀ id, m.lookup id = mf.manifest.lookup id) ∧
      m.creations = mf.manifest.creations ∧ m.deletions = mf.manifest.deletions := by
  obtain ⟨⟨fsets, m', hfile, hall, hfr, heq, _, _, _, _⟩, hext'⟩ :=
    runAdds_inv cd hv false _ mf sets hsets (by intro h; cases h) (MFile.create_inv cd hv false true ext threshold) hrun
  have hext'' : mf.ext = ext := hext'
  rw [hext''] at hfile
  refine ⟨m', ?_, heq.1, (heq.2 rfl).1, (heq.2 rfl).2⟩
  rw [hfile] at hsize ⊢
  exact replay_intact cd hv ext hext fsets m' hall hfr hsize

/-- **Level sets.** If moreover every CREATE uses a level below 256 (badger's `MaxLevels` is far
    smaller; `TableManifest.Level` is a `uint8` while `Levels` is indexed with the `uint32`),
    the replayed manifest also has exactly the in-memory per-level id sets — `Levels` may differ
    only in trailing empty levels (`levelAt` is `[]` beyond the end). -/
theorem C17_replay_exact_levels (cd : Codec) (hv : cd.Valid) (ext : Nat) (hext : ext < 2 ^ 16)
    (threshold : Int) (sets : List ChangeSet) (mf : MFile)
    (hsets : ∀ s, s ∈ sets → ChangeSet.InRange s)
    (hsl : ∀ s, s ∈ sets → ∀ c, c ∈ s → c.SmallLevel)
    (hrun : runAdds cd (MFile.create cd ext threshold) sets = some mf)
    (hsize : mf.file.length < 2 ^ 32) :
    ∃ m, replay cd mf.file ext = .ok (m, mf.file.length) ∧
      (∀ id, m.lookup id = mf.manifest.lookup id) ∧
      (∀ l id, id ∈ levelAt m.levels l ↔ id ∈ levelAt mf.manifest.levels l) ∧
      m.LevelsOK ∧ mf.manifest.LevelsOK := by
  obtain ⟨⟨fsets, m', hfile, hall, hfr, heq, _, _, hlv, _⟩, hext'⟩ :=
    runAdds_inv cd hv true _ mf sets hsets (fun _ => hsl) (MFile.create_inv cd hv true true ext threshold) hrun
  have hext'' : mf.ext = ext := hext'
  rw [hext''] at hfile
  obtain ⟨hl1, hl2⟩ := hlv rfl
  refine ⟨m', ?_, heq.1, levels_eq_of_lookup_eq hl1 hl2 heq.1, hl1, hl2⟩
  rw [hfile] at hsize ⊢
  exact replay_intact cd hv ext hext fsets m' hall hfr hsize

/-! ## histories with crashes: torn tail, reopen, further appends on the same handle -/

instance (t : Bytes) : Decidable (TornTail t) := by unfold TornTail; infer_instance

/-- A step of a longer history: an accepted `addChanges`, or a crash that leaves `tail` (a torn
    record: `TornTail`) behind the last complete frame, followed by a reopen
    (`helpOpenOrCreateManifestFile`: replay, truncate, seek to the end, clone). -/
inductive MStep where
  | add (cs : ChangeSet)
  | crashReopen (tail : Bytes)

def runSteps (cd : Codec) (mf : MFile) : List MStep → Option MFile
  | [] => some mf
  | .add cs :: rest =>
    match mf.addChanges cd cs with
    | (mf', none) => runSteps cd mf' rest
    | (_, some _) => none
  | .crashReopen tail :: rest =>
    if TornTail tail ∧ (mf.file ++ tail).length < 2 ^ 32 then
      match MFile.openExisting cd (mf.file ++ tail) mf.ext mf.threshold with
      | .ok (mf', _) => runSteps cd mf' rest
      | .error _ => none
    else none

/-- Reopening after a torn tail: the tail is dropped, the file is the one before the crash, the
    descriptor is at its end, and the in-memory manifest is a clone of the replayed one. -/
theorem MFile.reopen_inv (cd : Codec) (hv : cd.Valid) (lv cn : Bool) (mf : MFile) (tail : Bytes)
    (hext : mf.ext < 2 ^ 16) (hinv : mf.Inv cd lv cn)
    (htorn : TornTail tail) (hsize : (mf.file ++ tail).length < 2 ^ 32) :
    ∃ mf' m, MFile.openExisting cd (mf.file ++ tail) mf.ext mf.threshold = .ok (mf', m) ∧
      mf'.Inv cd lv false ∧ mf'.ext = mf.ext ∧ mf'.threshold = mf.threshold ∧ mf'.file = mf.file := by
  obtain ⟨fsets, m', hfile, hall, hfr, heq, hw', hw, hlv, hpos⟩ := hinv
  have hrep : replay cd (mf.file ++ tail) mf.ext = .ok (m', mf.file.length) := by
    rw [hfile] at hsize ⊢
    unfold manifestFileOf at *
    rw [List.append_assoc] at hsize ⊢
    rw [replay_frames_tail cd hv mf.ext hext fsets tail m' hall hfr hsize, replayRest_torn cd tail _ m' htorn]
    simp
  obtain ⟨m1, h1, hw1, heq1⟩ := applyChangeSet_asChanges cd hv m' hw'
  have hclone : m'.clone cd = m1 := by unfold Manifest.clone; rw [h1]
  refine ⟨{ file := mf.file, manifest := m1, threshold := mf.threshold, ext := mf.ext, pos := mf.file.length },
    m', ?_, ?_, rfl, rfl, rfl⟩
  · unfold MFile.openExisting
    rw [hrep]
    simp only [List.take_left' rfl, hclone]
  · refine ⟨fsets, m', hfile, hall, hfr, ?_, hw', hw1, ?_, rfl⟩
    · exact ⟨fun id => (heq1.1 id).symm, fun hc => by cases hc⟩
    · intro hl
      exact ⟨(hlv hl).1, applyChangeSet_LevelsOK _ (asChanges_smallLevel cd hv m' hw') Manifest.LevelsOK_empty h1⟩

theorem runSteps_inv (cd : Codec) (hv : cd.Valid) (lv : Bool) (mf mf' : MFile) (steps : List MStep)
    (hext : mf.ext < 2 ^ 16)
    (hsets : ∀ cs, MStep.add cs ∈ steps → ChangeSet.InRange cs)
    (hsl : lv = true → ∀ cs, MStep.add cs ∈ steps → ∀ c, c ∈ cs → c.SmallLevel)
    (hinv : mf.Inv cd lv false) (hrun : runSteps cd mf steps = some mf') :
    mf'.Inv cd lv false ∧ mf'.ext = mf.ext := by
  induction steps generalizing mf with
  | nil => simp only [runSteps] at hrun; cases hrun; exact ⟨hinv, rfl⟩
  | cons st steps ih =>
    cases st with
    | add cs =>
      simp only [runSteps] at hrun
      rcases hadd : mf.addChanges cd cs with ⟨mf1, _ | e⟩
      · rw [hadd] at hrun
        obtain ⟨h1, hext1, _⟩ := MFile.addChanges_inv cd hv lv false mf mf1 cs (hsets cs (by simp))
          (fun hl => hsl hl cs (by simp)) hinv hadd
        obtain ⟨h2, hext2⟩ := ih mf1 (by rw [hext1]; exact hext) (fun s hs => hsets s (by simp [hs]))
          (fun hl s hs => hsl hl s (by simp [hs])) h1 hrun
        exact ⟨h2, hext2.trans hext1⟩
      · rw [hadd] at hrun; simp at hrun
    | crashReopen tail =>
      simp only [runSteps] at hrun
      split at hrun
      · rename_i hc
        obtain ⟨mf1, m, hopen, h1, hext1, _, _⟩ := MFile.reopen_inv cd hv lv false mf tail hext hinv hc.1 hc.2
        rw [hopen] at hrun
        simp only at hrun
        obtain ⟨h2, hext2⟩ := ih mf1 (by rw [hext1]; exact hext) (fun s hs => hsets s (by simp [hs]))
          (fun hl s hs => hsl hl s (by simp [hs])) h1 hrun
        exact ⟨h2, hext2.trans hext1⟩
      · cases hrun

/-- **Replay is exact across crashes.** Start from a fresh MANIFEST; any sequence of accepted
    `addChanges` calls (rewrites included) and of crashes that tear the record being appended
    (any torn tail), each followed by a reopen and by further appends **on the reopened handle**.
    Then `ReplayManifestFile` on the final file succeeds with truncation offset = file size and
    returns exactly the in-memory table map. (The `Creations`/`Deletions` counters of a reopened
    `manifestFile` restart from its clone, so they are not compared here; see `C17_replay_exact`.)
    This is where the position of the file descriptor matters: `openExisting` seeks to the end of
    the truncated file, so the next append is contiguous (`writeAt` at `pos = len`). -/
theorem C17_replay_exact_reopen (cd : Codec) (hv : cd.Valid) (ext : Nat) (hext : ext < 2 ^ 16)
    (threshold : Int) (steps : List MStep) (mf : MFile)
    (hsets : ∀ cs, MStep.add cs ∈ steps → ChangeSet.InRange cs)
    (hrun : runSteps cd (MFile.create cd ext threshold) steps = some mf)
    (hsize : mf.file.length < 2 ^ 32) :
    ∃ m, replay cd mf.file ext = .ok (m, mf.file.length) ∧
      (∀ id, m.lookup id = mf.manifest.lookup id) ∧ mf.pos = mf.file.length := by
  obtain ⟨⟨fsets, m', hfile, hall, hfr, heq, _, _, _, hpos⟩, hext'⟩ :=
    runSteps_inv cd hv false _ mf steps hext hsets (by intro h; cases h)
      (MFile.create_inv cd hv false false ext threshold) hrun
  have hext'' : mf.ext = ext := hext'
  rw [hext''] at hfile
  refine ⟨m', ?_, heq.1, hpos⟩
  rw [hfile] at hsize ⊢
  exact replay_intact cd hv ext hext fsets m' hall hfr hsize

/-! ## concrete instances (real protobuf wire format, bit-level CRC32-C, ascending ids) -/

/-- The contracts of the parameters hold for the concrete codec: `proto.Unmarshal ∘ proto.Marshal`
    is the identity on change sets whose fields fit their Go types (proved on the wire-format
    model of `BadgerModel/ManifestPb.lean`), CRC32-C is below `2^32`, sorting permutes. -/
theorem C17_pbCodec_valid : pbCodec.Valid := pbCodec_valid

/-- `C17_replay_exact` for the protobuf / CRC32-C instance (no abstract parameter left). -/
theorem C17_replay_exact_pb (ext : Nat) (hext : ext < 2 ^ 16) (threshold : Int)
    (sets : List ChangeSet) (mf : MFile)
    (hsets : ∀ s, s ∈ sets → ChangeSet.InRange s)
    (hrun : runAdds pbCodec (MFile.create pbCodec ext threshold) sets = some mf)
    (hsize : mf.file.length < 2 ^ 32) :
    ∃ m, replay pbCodec mf.file ext = .ok (m, mf.file.length) ∧
      (∀ id, m.lookup id = mf.manifest.lookup id) ∧
      m.creations = mf.manifest.creations ∧ m.deletions = mf.manifest.deletions :=
  C17_replay_exact pbCodec pbCodec_valid ext hext threshold sets mf hsets hrun hsize

instance (c : Change) : Decidable c.InRange := by unfold Change.InRange; infer_instance

instance (cs : ChangeSet) : Decidable (ChangeSet.InRange cs) := by
  unfold ChangeSet.InRange; infer_instance

/-- Three creates: a 30-byte payload. -/
def c17Witness : ChangeSet :=
  [Change.create 1 1 1 1, Change.create 2 1 1 1, Change.create 3 1 1 1]

/-- The length check of `ReplayManifestFile` before the fix of finding F16: the length field of
    the frame at `frameStart` against `uint32(stat.Size())`. -/
def oldLengthCheckRejects (file : Bytes) (frameStart : Nat) : Bool :=
  decide (beNat ((file.drop frameStart).take 4) > file.length % 2 ^ 32)

/-- regression witness for finding F16 (fixed): a fresh MANIFEST (16 bytes) followed by the frame
    of `c17Witness` (8 + 30 bytes), cut at byte 25 (one byte into the payload). The old rule
    rejected the file — the length field (30) exceeds the size of the torn file (25) — and Open
    failed; now the record is the torn tail it is and replay truncates at byte 16. -/
theorem C17_F16_regression_witness :
    oldLengthCheckRejects ((manifestFileOf pbCodec 0 ([[]] ++ [c17Witness])).take 25) 16 = true ∧
    replay pbCodec ((manifestFileOf pbCodec 0 ([[]] ++ [c17Witness])).take 25) 0 =
      .ok (Manifest.empty, 16) := by decide

/-- `C17_truncStatement` for the concrete codec. -/
theorem C17_trunc_all_pb : C17_truncStatement pbCodec := C17_trunc_all pbCodec pbCodec_valid

-- the same file cut inside the 8-byte frame header, or later in the payload
example : replay pbCodec ((manifestFileOf pbCodec 0 ([[]] ++ [c17Witness])).take 23) 0 =
    .ok (Manifest.empty, 16) := by decide
example : replay pbCodec ((manifestFileOf pbCodec 0 ([[]] ++ [c17Witness])).take 31) 0 =
    .ok (Manifest.empty, 16) := by decide

/-- Non-vacuity of `C17_replay_exact`'s hypotheses and a run through the rewrite rule:
    threshold 0, creates 1 2 3, then deletes of 1 2 3 and an unknown id: the third call rewrites
    the file (deletions 4 > 0 and 4 > 10·(3−4)); a further set is appended after the rewrite. -/
def c17History : List ChangeSet :=
  [[Change.create 1 0 0 1, Change.create 2 1 7 2], [Change.create 3 6 0 0],
   [Change.delete 1, Change.delete 2, Change.delete 9, Change.delete 3],
   [Change.create 4 2 5 1]]

example : ∀ s, s ∈ c17History → ChangeSet.InRange s := by decide

set_option maxRecDepth 20000 in
example : (runAdds pbCodec (MFile.create pbCodec 0 0) c17History).map
    (fun mf => (mf.file.length, mf.manifest.tables, mf.manifest.creations, mf.manifest.deletions,
      replay pbCodec mf.file 0)) =
    some (34, [(4, ⟨2, 5, 1⟩)], 1, 0,
      .ok (⟨[[], [], [4]], [(4, ⟨2, 5, 1⟩)], 1, 0⟩, 34)) := by decide

-- why `C17_replay_exact_levels` needs levels < 256: a CREATE at level 300 is stored as
-- `TableManifest.Level = 44` but kept in `Levels[300]`; after a rewrite the file says level 44.
def c17Level300 : Option MFile :=
  runAdds pbCodec (MFile.create pbCodec 0 0) [[Change.create 1 300 0 0], [Change.delete 9]]

set_option maxRecDepth 40000 in
example : c17Level300.map (fun mf => (levelAt mf.manifest.levels 300, levelAt mf.manifest.levels 44)) =
    some ([1], []) := by decide
set_option maxRecDepth 40000 in
example : c17Level300.map (fun mf => mf.manifest.lookup 1) = some (some ⟨44, 0, 0⟩) := by decide
set_option maxRecDepth 40000 in
example : c17Level300.map (fun mf => match replay pbCodec mf.file 0 with
      | .ok r => (levelAt r.1.levels 300, levelAt r.1.levels 44)
      | .error _ => ([], [])) = some ([], [1]) := by decide

-- a crash history on the concrete codec: one set, a crash leaving 5 bytes of the next frame header,
-- reopen, one more set on the reopened handle: the file is contiguous and replays to both tables
set_option maxRecDepth 20000 in
example : (runSteps pbCodec (MFile.create pbCodec 0 10) [.add [Change.create 1 0 0 1],
      .crashReopen [0x00, 0x00, 0x00, 0x2a, 0xde], .add [Change.create 2 1 0 1]]).map
    (fun mf => (mf.file.length, mf.pos, (replay pbCodec mf.file 0).toOption.map (fun r => (r.1.tables.map (·.1), r.2)))) =
    some (46, 46, some ([2, 1], 46)) := by decide

-- checksum error on the concrete codec: one payload byte of the last frame altered
example : replay pbCodec
    (let f := manifestFileOf pbCodec 0 [[], [Change.create 1 0 0 1]]
     f.set 25 (f.getD 25 0 ^^^ 1)) 0 = .error .badChecksum := by decide

end Badger
