import BadgerModel.Mvcc
import BadgerProofs.Lemmas.Txn
import BadgerProofs.Props.C04
/-!
# C05 — iterators return the visible keys exactly once, in order, honoring options

Model: `seekList` (the merged internal iterator after `Seek`/`Rewind`), `parseItems` (the
`parseItem`/`Next` loop, forward with `lastKey`, reverse with the FILL loop), `validPrefix`
(`Valid`/`ValidForPrefix`), `Db.iterate`. Specification (Lemmas/Txn.lean): over the sorted merged
stream,

* `specScanFwd merged readTs since now prefix seekKey` — the entries from the first key
  `≥ seekKey`, up to the first key without the prefix, that are the newest version of their key
  inside the window `since < ver ≤ readTs` (`newestVisible`) and live;
* `specScanRev …` — the same filter over the reversed stream from the last key `≤ seekKey`;
* `specAllVersions stream readTs since` — every entry of the stream inside the window.

`C05_forward`, `C05_reverse`, `C05_allversions` are EQUALITIES between the model's loop and the
specification (fuel: the bound `Db.iterate` uses suffices, `C05_iterate_*`). The component
properties (`C05_exactly_once`, `C05_sound`, `C05_complete`, `C05_seek_lands`,
`C05_prefix_stop`) are corollaries stated over the specification and transported by the
equalities.

Hypotheses, all explicit:
* `SortedEnts merged` — holds for `mergeAll` of sorted sources (`mergeAll_sorted`, C21/C14);
* `NoHidden o merged` — `InternalAccess`, or no entry whose *encoded* key starts with
  `!badger!` (internal keys are skipped entry by entry: `C05_internal_hidden`);
* forward + prefix: the seek key has the prefix (always true for `Rewind`, `C05_rewind_key`).
  `Seek(k)` with a `k` outside the prefix is outside this statement; the model (= the code)
  then lands wherever the first entry `≥ k@readTs` is.

`C05_prefetch_irrelevant`: the model has no prefetch parameter at all — `parseItems` is a
function of the merged stream and the options only, so the yielded (key, version, meta)
sequence is trivially independent of `PrefetchValues`/`PrefetchSize`; values are C06.
(Stated here as a comment, not as a theorem, on purpose.)
-/
namespace Badger

/-! ## the three scans equal their specification -/

/-- `Rewind` (or `Seek` with an empty key) positions at the prefix, which has the prefix. -/
theorem C05_rewind_key (o : IterOpts) (seek : Option Bytes)
    (h : seek = none ∨ seek = some []) : o.prefix_.isPrefixOf (seekKeyOf o seek) = true := by
  rcases h with rfl | rfl <;> simp [seekKeyOf]

/-- **Forward iteration.** -/
theorem C05_forward (merged : List Ent) (o : IterOpts) (readTs now fuel : Nat) (seek : Option Bytes)
    (hs : SortedEnts merged) (hrev : o.reverse = false) (hall : o.allVersions = false)
    (hn : NoHidden o merged) (hsk : o.prefix_.isPrefixOf (seekKeyOf o seek) = true)
    (hf : (seekList merged o readTs seek).length ≤ fuel) :
    parseItems o readTs now fuel none (seekList merged o readTs seek) =
      specScanFwd merged readTs o.sinceTs now o.prefix_ (seekKeyOf o seek) := by
  have hsub : (seekList merged o readTs seek).Sublist merged := by
    rw [seekList_eq, hrev]; unfold seekFrom
    split
    · exact List.Sublist.refl _
    · exact List.dropWhile_sublist _
  rw [parseItems_fwd o readTs now hall hrev fuel none _ hf (hn.sublist hsub), seekList_eq, hrev]
  exact fwdCore_spec merged hs readTs o.sinceTs now o.prefix_ _ hsk

/-- **Reverse iteration**: the FILL loop returns, for each key in descending order, the newest
    version inside the window, if live. -/
theorem C05_reverse (merged : List Ent) (o : IterOpts) (readTs now fuel : Nat) (seek : Option Bytes)
    (hs : SortedEnts merged) (hrev : o.reverse = true) (hall : o.allVersions = false)
    (hn : NoHidden o merged.reverse)
    (hf : 2 * (seekList merged o readTs seek).length + 1 ≤ fuel) :
    parseItems o readTs now fuel none (seekList merged o readTs seek) =
      specScanRev merged readTs o.sinceTs now (seekKeyOf o seek) := by
  have hsub : (seekList merged o readTs seek).Sublist merged.reverse := by
    rw [seekList_eq, hrev]; unfold seekFrom
    split
    · exact List.Sublist.refl _
    · exact List.dropWhile_sublist _
  have hd : SortedDesc (seekList merged o readTs seek) := (sortedDesc_reverse hs).sublist hsub
  rw [(parseItems_rev o readTs now hall hrev fuel).2 none _ hd (hn.sublist hsub) hf, seekList_eq, hrev]
  exact revCore_spec merged hs readTs o.sinceTs now _

/-- **AllVersions**: every version inside the window — delete markers and expired entries
    included — in stream order (forward: up to the prefix boundary). -/
theorem C05_allversions (merged : List Ent) (o : IterOpts) (readTs now fuel : Nat)
    (seek : Option Bytes) (hall : o.allVersions = true)
    (hn : NoHidden o (seekList merged o readTs seek))
    (hf : (seekList merged o readTs seek).length ≤ fuel) :
    parseItems o readTs now fuel none (seekList merged o readTs seek) =
      specAllVersions
        (if o.reverse then seekList merged o readTs seek
         else (seekList merged o readTs seek).takeWhile (fun e => o.prefix_.isPrefixOf e.key))
        readTs o.sinceTs :=
  parseItems_all o readTs now hall fuel none _ hf hn

/-- In forward `AllVersions` mode the versions of a key come newest first (the output is
    strictly increasing in the internal-key order: key ascending, version descending), and no
    `(key, version)` is yielded twice. -/
theorem C05_allversions_order (merged : List Ent) (o : IterOpts) (readTs : Nat) (seek : Option Bytes)
    (hs : SortedEnts merged) (hrev : o.reverse = false) :
    SortedEnts (specAllVersions
      ((seekList merged o readTs seek).takeWhile (fun e => o.prefix_.isPrefixOf e.key))
      readTs o.sinceTs) := by
  apply hs.sublist
  refine List.filter_sublist.trans ((List.takeWhile_sublist _).trans ?_)
  rw [seekList_eq, hrev]; unfold seekFrom
  split
  · exact List.Sublist.refl _
  · exact List.dropWhile_sublist _

/-- `AllVersions` yields exactly the versions with `since < ver ≤ readTs` (`since = 0`: no
    lower bound), whatever their meta. -/
theorem C05_allversions_mem (stream : List Ent) (readTs since : Nat) (x : Ent) :
    x ∈ specAllVersions stream readTs since ↔
      x ∈ stream ∧ x.ver ≤ readTs ∧ (since = 0 ∨ since < x.ver) := by
  simp [specAllVersions, inWindow]

/-! ## internal keys -/

/-- Without `InternalAccess` no entry whose encoded key starts with `!badger!` is ever yielded
    (forward and `AllVersions` modes; the reverse FILL loop does not re-test the candidate it
    replaces, exactly as `iterator.go`, so there the statement needs keys of ≥ 8 bytes, where
    "internal" is a property of the user key alone — not claimed here). -/
theorem C05_internal_hidden (o : IterOpts) (readTs now : Nat) (hia : o.internalAccess = false)
    (hmode : o.allVersions = true ∨ o.reverse = false) (fuel : Nat) (lk : Option Bytes) (l : List Ent) :
    ∀ x ∈ parseItems o readTs now fuel lk l, badgerPrefix.isPrefixOf x.ikey = false := by
  induction fuel generalizing lk l with
  | zero => intro x hx; simp [parseItems] at hx
  | succ f ih =>
    intro x hx
    cases l with
    | nil => simp [parseItems] at hx
    | cons e rest =>
      rw [parseItems.eq_3] at hx
      simp only [hia, Bool.not_false, Bool.true_and] at hx
      split at hx
      · cases hx
      split at hx
      · exact ih _ _ x hx
      rename_i hint
      have hint' : badgerPrefix.isPrefixOf e.ikey = false := by
        rw [← Bool.not_eq_true]; exact hint
      split at hx
      · exact ih _ _ x hx
      split at hx
      · rcases List.mem_cons.mp hx with rfl | hx
        · exact hint'
        · exact ih _ _ x hx
      rename_i hnall
      have hr : o.reverse = false := by
        rcases hmode with h | h
        · exact absurd h hnall
        · exact h
      simp only [hr, Bool.not_false, if_true] at hx
      split at hx
      · exact ih _ _ x hx
      split at hx
      · exact ih _ _ x hx
      · rcases List.mem_cons.mp hx with rfl | hx
        · exact hint'
        · exact ih _ _ x hx

/-! ## component properties (over the specification) -/

/-- **Exactly once, in order (forward)**: the yielded user keys are strictly increasing. -/
theorem C05_exactly_once_fwd (merged : List Ent) (hs : SortedEnts merged) (readTs since now : Nat)
    (pfx sk : Bytes) :
    (specScanFwd merged readTs since now pfx sk).Pairwise (fun a b => cmpBytes a.key b.key = .lt) := by
  have hsub : (specScanFwd merged readTs since now pfx sk).Sublist merged :=
    List.filter_sublist.trans ((List.takeWhile_sublist _).trans (List.dropWhile_sublist _))
  have hsorted : SortedEnts (specScanFwd merged readTs since now pfx sk) := hs.sublist hsub
  refine List.Pairwise.imp_of_mem ?_ hsorted
  intro a b ha hb hab
  rcases (entCmp_lt_iff a b).mp hab with h | ⟨hk, hv⟩
  · exact h
  · have ya := (List.mem_filter.mp ha).2
    have yb := (List.mem_filter.mp hb).2
    have := yieldable_key_inj ya yb hk
    subst this; omega

/-- **Exactly once, in order (reverse)**: strictly decreasing user keys. -/
theorem C05_exactly_once_rev (merged : List Ent) (hs : SortedEnts merged) (readTs since now : Nat)
    (sk : Bytes) :
    (specScanRev merged readTs since now sk).Pairwise (fun a b => cmpBytes b.key a.key = .lt) := by
  have hsub : (specScanRev merged readTs since now sk).Sublist merged.reverse := by
    unfold specScanRev
    refine List.filter_sublist.trans ?_
    split
    · exact List.Sublist.refl _
    · exact List.dropWhile_sublist _
  have hsorted : SortedDesc (specScanRev merged readTs since now sk) :=
    (sortedDesc_reverse hs).sublist hsub
  refine List.Pairwise.imp_of_mem ?_ hsorted
  intro a b ha hb hab
  rcases (entCmp_lt_iff b a).mp hab with h | ⟨hk, hv⟩
  · exact h
  · have ya := (List.mem_filter.mp ha).2
    have yb := (List.mem_filter.mp hb).2
    have := yieldable_key_inj yb ya hk
    subst this; omega

/-- **Soundness**: every yielded item is an entry of the stream, the newest version of its key
    with `since < ver ≤ readTs`, live at `now`; its key is on the right side of the seek key and
    (forward) has the prefix. -/
theorem C05_sound (merged : List Ent) (hs : SortedEnts merged) (readTs since now : Nat) (pfx sk : Bytes) :
    (∀ x ∈ specScanFwd merged readTs since now pfx sk,
      x ∈ merged ∧ newestVisible merged readTs since x.key = some x ∧
      deletedOrExpired x.emeta x.exp now = false ∧ cmpBytes x.key sk ≠ .lt ∧
      pfx.isPrefixOf x.key = true) ∧
    (∀ x ∈ specScanRev merged readTs since now sk,
      x ∈ merged ∧ newestVisible merged readTs since x.key = some x ∧
      deletedOrExpired x.emeta x.exp now = false ∧ (sk.isEmpty = true ∨ cmpBytes x.key sk ≠ .gt)) := by
  constructor
  · intro x hx
    obtain ⟨h1, h2, h3, h4, h5⟩ := (mem_specScanFwd hs readTs since now pfx sk x).mp hx
    exact ⟨h1, h4, h5, h2, h3 x h1 h2 (.inl rfl)⟩
  · intro x hx
    obtain ⟨h1, h2, h3, h4⟩ := (mem_specScanRev hs readTs since now sk x).mp hx
    exact ⟨h1, h3, h4, h2⟩

/-- the newest in-window version of a key is the newest version `≤ readTs` when `since = 0` -/
theorem C05_newestVisible_since_zero (merged : List Ent) (readTs : Nat) (k : Bytes) :
    newestVisible merged readTs 0 k = newestLE merged k readTs := by
  unfold newestVisible
  apply newestLE_congr_filter
  rw [List.filter_filter]
  apply List.filter_congr
  intro x _
  simp only [inWindow, beq_self_eq_true, Bool.true_or, Bool.and_true]
  by_cases h : x.ver ≤ readTs <;> simp [h]

theorem cmpBytes_ne_lt_swap {a b : Bytes} (h : cmpBytes a b ≠ .lt) : cmpBytes b a ≠ .gt := by
  intro hc; exact h ((cmpBytes_gt_iff_lt b a).mp hc)

/-- **Completeness (forward)**: every key whose newest in-window version is live, at or after
    the seek key and with the prefix, is yielded — no visible key with the prefix at or after
    the seek position is omitted. (`hsk`: the seek key has the prefix.) -/
theorem C05_complete_fwd (merged : List Ent) (hs : SortedEnts merged) (readTs since now : Nat)
    (pfx sk : Bytes) (hsk : pfx.isPrefixOf sk = true) (y : Ent)
    (hnew : newestVisible merged readTs since y.key = some y)
    (hlive : deletedOrExpired y.emeta y.exp now = false)
    (hge : cmpBytes y.key sk ≠ .lt) (hp : pfx.isPrefixOf y.key = true) :
    y ∈ specScanFwd merged readTs since now pfx sk := by
  have hym : y ∈ merged := (List.mem_filter.mp (newestLE_some_mem hnew).1).1
  rw [mem_specScanFwd hs]
  refine ⟨hym, hge, ?_, hnew, hlive⟩
  intro z _ hzge hzy
  apply prefix_convex pfx sk z.key y.key hsk hp (cmpBytes_ne_lt_swap hzge)
  rcases hzy with rfl | hzy
  · rw [cmpBytes_refl]; simp
  · exact entCmp_lt_key_le hzy

/-- **Completeness (reverse)**: every key `≤` the seek key whose newest in-window version is
    live is yielded. -/
theorem C05_complete_rev (merged : List Ent) (hs : SortedEnts merged) (readTs since now : Nat)
    (sk : Bytes) (y : Ent)
    (hnew : newestVisible merged readTs since y.key = some y)
    (hlive : deletedOrExpired y.emeta y.exp now = false)
    (hle : sk.isEmpty = true ∨ cmpBytes y.key sk ≠ .gt) :
    y ∈ specScanRev merged readTs since now sk := by
  have hym : y ∈ merged := (List.mem_filter.mp (newestLE_some_mem hnew).1).1
  rw [mem_specScanRev hs]
  exact ⟨hym, hle, hnew, hlive⟩

/-- **Seek lands (forward)**: the first yielded key is `≥` the seek key and is the smallest
    visible key `≥` the seek key (with the prefix). -/
theorem C05_seek_lands_fwd (merged : List Ent) (hs : SortedEnts merged) (readTs since now : Nat)
    (pfx sk : Bytes) (hsk : pfx.isPrefixOf sk = true) (x : Ent)
    (hx : (specScanFwd merged readTs since now pfx sk).head? = some x) :
    cmpBytes x.key sk ≠ .lt ∧
    ∀ y, newestVisible merged readTs since y.key = some y →
      deletedOrExpired y.emeta y.exp now = false → cmpBytes y.key sk ≠ .lt →
      pfx.isPrefixOf y.key = true → cmpBytes x.key y.key ≠ .gt := by
  have hxm : x ∈ specScanFwd merged readTs since now pfx sk := List.mem_of_head? hx
  refine ⟨((C05_sound merged hs readTs since now pfx sk).1 x hxm).2.2.2.1, ?_⟩
  intro y h1 h2 h3 h4
  have hym := C05_complete_fwd merged hs readTs since now pfx sk hsk y h1 h2 h3 h4
  have hpw := C05_exactly_once_fwd merged hs readTs since now pfx sk
  cases hl : specScanFwd merged readTs since now pfx sk with
  | nil => rw [hl] at hx; cases hx
  | cons a tl =>
    rw [hl] at hx hym hpw
    simp only [List.head?_cons, Option.some.injEq] at hx
    subst hx
    rcases List.mem_cons.mp hym with rfl | hy
    · rw [cmpBytes_refl]; simp
    · rw [(List.pairwise_cons.mp hpw).1 y hy]; simp

/-- **Seek lands (reverse)**: the first yielded key is `≤` the seek key and is the largest
    visible key `≤` the seek key. -/
theorem C05_seek_lands_rev (merged : List Ent) (hs : SortedEnts merged) (readTs since now : Nat)
    (sk : Bytes) (x : Ent)
    (hx : (specScanRev merged readTs since now sk).head? = some x) :
    (sk.isEmpty = true ∨ cmpBytes x.key sk ≠ .gt) ∧
    ∀ y, newestVisible merged readTs since y.key = some y →
      deletedOrExpired y.emeta y.exp now = false → (sk.isEmpty = true ∨ cmpBytes y.key sk ≠ .gt) →
      cmpBytes y.key x.key ≠ .gt := by
  have hxm : x ∈ specScanRev merged readTs since now sk := List.mem_of_head? hx
  refine ⟨((C05_sound merged hs readTs since now [] sk).2 x hxm).2.2.2, ?_⟩
  intro y h1 h2 h3
  have hym := C05_complete_rev merged hs readTs since now sk y h1 h2 h3
  have hpw := C05_exactly_once_rev merged hs readTs since now sk
  cases hl : specScanRev merged readTs since now sk with
  | nil => rw [hl] at hx; cases hx
  | cons a tl =>
    rw [hl] at hx hym hpw
    simp only [List.head?_cons, Option.some.injEq] at hx
    subst hx
    rcases List.mem_cons.mp hym with rfl | hy
    · rw [cmpBytes_refl]; simp
    · rw [(List.pairwise_cons.mp hpw).1 y hy]; simp

/-- **Prefix boundary** (`Valid`/`ValidForPrefix`): everything the user sees has the prefix (for
    a key iterator: *is* the key); and in forward mode the scan already stops exactly at the
    boundary, so `Valid` cuts nothing (with `C05_complete_fwd`: nothing with the prefix at or
    after the seek position is omitted). -/
theorem C05_prefix_stop (o : IterOpts) (items : List Ent) :
    (∀ x ∈ validPrefix o items,
      (if o.prefixIsKey then x.key = o.prefix_ else o.prefix_.isPrefixOf x.key = true)) ∧
    (∀ (merged : List Ent) (readTs now : Nat) (sk : Bytes), SortedEnts merged → o.prefixIsKey = false →
      validPrefix o (specScanFwd merged readTs o.sinceTs now o.prefix_ sk) =
        specScanFwd merged readTs o.sinceTs now o.prefix_ sk) := by
  constructor
  · intro x hx
    unfold validPrefix at hx
    have : ∀ (p : Ent → Bool) (l : List Ent), ∀ x ∈ l.takeWhile p, p x = true := by
      intro p l
      induction l with
      | nil => intro x hx; cases hx
      | cons a r ih =>
        intro x hx
        rw [List.takeWhile_cons] at hx
        split at hx
        · rcases List.mem_cons.mp hx with rfl | hx
          · assumption
          · exact ih x hx
        · cases hx
    have h := this _ _ x hx
    by_cases hk : o.prefixIsKey = true
    · simpa [hk] using h
    · simpa [hk] using h
  · intro merged readTs now sk hs hk
    unfold validPrefix
    have tw : ∀ (p : Ent → Bool) (l : List Ent), (∀ x ∈ l, p x = true) → l.takeWhile p = l := by
      intro p l
      induction l with
      | nil => intro _; rfl
      | cons a r ih =>
        intro h
        rw [List.takeWhile_cons, h a (List.mem_cons_self ..), if_pos rfl,
          ih (fun x hx => h x (List.mem_cons_of_mem _ hx))]
    apply tw
    intro x hx
    simp only [hk, Bool.false_eq_true, if_false]
    exact ((C05_sound merged hs readTs o.sinceTs now o.prefix_ sk).1 x hx).2.2.2.2

/-! ## `Db.iterate` -/

/-- `Txn.NewIterator` + `Seek`/`Rewind` + the `Next` loop, forward: the items are the forward
    specification over the merged stream (pending writes first, then the LSM sources). -/
theorem C05_iterate_forward (d : Db) (id : Nat) (t : TxnM) (o : IterOpts) (seek : Option Bytes)
    (ht : d.findTxn id = some t) (hsrc : ∀ s ∈ d.lsm.sources, SortedEnts s)
    (hrev : o.reverse = false) (hall : o.allVersions = false)
    (hn : NoHidden o (mergeAll (pendingSource t :: d.lsm.sources)))
    (hsk : o.prefix_.isPrefixOf (seekKeyOf o seek) = true) :
    d.iterate id o seek =
      some (validPrefix o (specScanFwd (mergeAll (pendingSource t :: d.lsm.sources)) t.readTs o.sinceTs
        d.now o.prefix_ (seekKeyOf o seek))) := by
  have hs : SortedEnts (mergeAll (pendingSource t :: d.lsm.sources)) :=
    mergeAll_sorted (by
      intro s hs'
      rcases List.mem_cons.mp hs' with rfl | hs'
      · exact pendingSource_sorted t
      · exact hsrc s hs')
  unfold Db.iterate
  simp only [ht]
  rw [C05_forward _ o t.readTs d.now _ seek hs hrev hall hn hsk (by omega)]

/-- …and reverse. -/
theorem C05_iterate_reverse (d : Db) (id : Nat) (t : TxnM) (o : IterOpts) (seek : Option Bytes)
    (ht : d.findTxn id = some t) (hsrc : ∀ s ∈ d.lsm.sources, SortedEnts s)
    (hrev : o.reverse = true) (hall : o.allVersions = false)
    (hn : NoHidden o (mergeAll (pendingSource t :: d.lsm.sources)).reverse) :
    d.iterate id o seek =
      some (validPrefix o (specScanRev (mergeAll (pendingSource t :: d.lsm.sources)) t.readTs o.sinceTs
        d.now (seekKeyOf o seek))) := by
  have hs : SortedEnts (mergeAll (pendingSource t :: d.lsm.sources)) :=
    mergeAll_sorted (by
      intro s hs'
      rcases List.mem_cons.mp hs' with rfl | hs'
      · exact pendingSource_sorted t
      · exact hsrc s hs')
  unfold Db.iterate
  simp only [ht]
  rw [C05_reverse _ o t.readTs d.now _ seek hs hrev hall hn (by omega)]

/-! ## combined statements -/

/-- **Exactly once**: no user key is yielded twice and the keys are strictly monotone in the
    direction of iteration. -/
theorem C05_exactly_once (merged : List Ent) (hs : SortedEnts merged) (readTs since now : Nat)
    (pfx sk : Bytes) :
    (specScanFwd merged readTs since now pfx sk).Pairwise (fun a b => cmpBytes a.key b.key = .lt) ∧
    (specScanRev merged readTs since now sk).Pairwise (fun a b => cmpBytes b.key a.key = .lt) :=
  ⟨C05_exactly_once_fwd merged hs readTs since now pfx sk, C05_exactly_once_rev merged hs readTs since now sk⟩

/-- **Seek lands** on the first visible key `≥ seek` (forward), `≤ seek` (reverse). -/
theorem C05_seek_lands (merged : List Ent) (hs : SortedEnts merged) (readTs since now : Nat)
    (pfx sk : Bytes) (hsk : pfx.isPrefixOf sk = true) :
    (∀ x, (specScanFwd merged readTs since now pfx sk).head? = some x →
      cmpBytes x.key sk ≠ .lt ∧
      ∀ y, newestVisible merged readTs since y.key = some y →
        deletedOrExpired y.emeta y.exp now = false → cmpBytes y.key sk ≠ .lt →
        pfx.isPrefixOf y.key = true → cmpBytes x.key y.key ≠ .gt) ∧
    (∀ x, (specScanRev merged readTs since now sk).head? = some x →
      (sk.isEmpty = true ∨ cmpBytes x.key sk ≠ .gt) ∧
      ∀ y, newestVisible merged readTs since y.key = some y →
        deletedOrExpired y.emeta y.exp now = false → (sk.isEmpty = true ∨ cmpBytes y.key sk ≠ .gt) →
        cmpBytes y.key x.key ≠ .gt) :=
  ⟨fun x hx => C05_seek_lands_fwd merged hs readTs since now pfx sk hsk x hx,
   fun x hx => C05_seek_lands_rev merged hs readTs since now sk x hx⟩

/-! ## the pending overlay (serves C04) -/

/-- A pending write is the newest in-window version of its key in the iterator's merged stream
    (whenever `readTs` is inside the window), hence — by `C05_sound`/`C05_complete_*` — the
    iterator of the writing transaction shows the pending value, user meta, expiry or deletion
    for that key, and nothing else for that key. -/
theorem C05_pending_overlay (d : Db) (t : TxnM) (p : Ent) (since : Nat)
    (hsrc : ∀ s ∈ d.lsm.sources, SortedEnts s) (hp : p ∈ pendingSource t)
    (hw : since = 0 ∨ since < t.readTs) :
    newestVisible (mergeAll (pendingSource t :: d.lsm.sources)) t.readTs since p.key = some p := by
  obtain ⟨hmem, hver, hsorted, -, -⟩ := C04_iter_pending_first d t p hsrc hp
  unfold newestVisible
  rw [newestLE_sorted_some_iff (hsorted.filter _)]
  have hwin : inWindow t.readTs since p = true := by
    simp only [inWindow, Bool.and_eq_true, decide_eq_true_eq, Bool.or_eq_true, beq_iff_eq]
    rcases hw with h | h
    · exact ⟨by omega, .inl h⟩
    · exact ⟨by omega, .inr (by omega)⟩
  refine ⟨List.mem_filter.mpr ⟨hmem, hwin⟩, rfl, by omega, ?_⟩
  intro x _ _ hx
  omega

/-! ## non-vacuity -/

-- a sorted stream with keys that are prefixes of one another, a delete marker, an expired
-- entry and versions above readTs; forward, reverse, AllVersions, SinceTs, prefix, seek.
def exStream : List Ent :=
  [ ⟨[0x61], 9, 0, 0, 0, [9]⟩, ⟨[0x61], 5, 0, 0, 0, [5]⟩, ⟨[0x61], 2, 0, 0, 0, [2]⟩,
    ⟨[0x61, 0x00], 4, 1, 0, 0, []⟩, ⟨[0x61, 0x00], 3, 0, 0, 0, [3]⟩,
    ⟨[0x61, 0xff], 6, 0, 0, 50, [6]⟩, ⟨[0x61, 0xff], 1, 0, 0, 0, [1]⟩,
    ⟨[0x62], 7, 0, 0, 0, [7]⟩ ]

example : List.Pairwise (fun a b => entCmp a b = .lt) exStream := by decide

example :
    (parseItems {} 7 100 20 none (seekList exStream {} 7 none)).map (fun e => (e.key, e.ver)) =
      [([0x61], 5), ([0x62], 7)] ∧
    parseItems {} 7 100 20 none (seekList exStream {} 7 none) = specScanFwd exStream 7 0 100 [] [] ∧
    (parseItems { reverse := true } 7 10 20 none (seekList exStream { reverse := true } 7 none)).map
        (fun e => (e.key, e.ver)) = [([0x62], 7), ([0x61, 0xff], 6), ([0x61], 5)] ∧
    parseItems { reverse := true } 7 10 20 none (seekList exStream { reverse := true } 7 none) =
      specScanRev exStream 7 0 10 [] ∧
    (parseItems { prefix_ := [0x61], sinceTs := 4 } 7 100 20 none
        (seekList exStream { prefix_ := [0x61], sinceTs := 4 } 7 (some [0x61, 0x00]))).map
        (fun e => (e.key, e.ver)) = [] ∧
    (parseItems { allVersions := true, prefix_ := [0x61, 0x00] } 7 100 20 none
        (seekList exStream { allVersions := true, prefix_ := [0x61, 0x00] } 7 none)).map
        (fun e => (e.key, e.ver)) = [([0x61, 0x00], 4), ([0x61, 0x00], 3)] := by
  decide

end Badger
