import BadgerProofs.Props.C24
import BadgerModel.Reopen
namespace Badger

/-! ## F29: a re-open hands out commit timestamps again, an incremental backup skips them -/

def f29a : Ent := { key := [0x61], ver := 1, emeta := 64, umeta := 0, exp := 0, val := [0x0a] }
def f29b : Ent := { key := [0x62], ver := 2, emeta := 64, umeta := 0, exp := 0, val := [0x0b] }
def f29c : Ent := { key := [0x63], ver := 3, emeta := 64, umeta := 0, exp := 0, val := [0x0c] }
def f29j : Ent := { key := [0x6a], ver := 1, emeta := 64, umeta := 0, exp := 0, val := [0x77] }
/-- the source at the first backup: commits @1, @2, @3 -/
def f29S1 : List Ent := [f29a, f29b, f29c]
/-- after DropAll the tree is empty: Close + Open computes `nextTxnTs` from the stored entries -/
def f29Dropped : Db := { opts := {}, lsm := Lsm.init 7, nextTs := 4 }
/-- the source after the re-open and one more commit, which got timestamp 1 again -/
def f29S2 : List Ent := [f29j]

/-- negation witness for `C24_incremental` without `hchain`: the chain (full backup returning 3,
    incremental backup with `since = 3`) loses the key committed after the re-open, because its
    commit timestamp 1 is not above the version the first backup returned. -/
theorem C24_F29_reused_timestamp_witness :
    f29Dropped.closeOpen.nextTs = 1 ∧
    (let o : Opts := { maxBatchCount := 100, maxBatchSize := 10000 }
     let b1 := backupKVs f29S1 0 3 0
     let b2 := backupKVs f29S2 (maxVersionOf b1) 1 0
     let r2 := ((Db.init o 0).load b1).1.load b2
     maxVersionOf b1 = 3 ∧ b2 = [] ∧ r2.2 = true ∧
     visRead f29S2 [0x6a] 1 0 = some ([0x6a], 1, 0, 0, 0, [0x77]) ∧
     visRead r2.1.lsm.mem [0x6a] 1 0 = none) := by
  decide

end Badger
