import BadgerProofs.Props.C08
/-!
# C11 — commits after any re-open get timestamps above every stored version

`Open` sets `nextTxnTs` to one more than the largest version it finds: in the tables of the
MANIFEST (`Table.MaxVersion`) and in the replayed WALs, where only *complete* transactions
count (`memTable.maxVersion` is raised by the replay function, which `logFile.iterate` calls
for complete transactions only).

* `C11_open_ts` — for every directory image whatsoever (clean close, kill, power loss, read-only
  or read-write): if `Open` succeeds, every entry it finds has a version below `nextTxnTs`.
* `C11_after_crash` — in particular after a kill at any point of any history (with C08).
* `C11_shadow` — the first transaction committed after the re-open is stamped with a version
  above every stored version of every key, so a read at any later timestamp finds it first.
-/
namespace Badger

theorem C11_open_ts (ro : Bool) (img : Image) (r : RState) (h : recover ro img = .ok r) :
    ∀ e ∈ r.entries, e.ver < r.nextTxnTs := by
  unfold recover recoverF recoverG at h
  simp only at h
  repeat' split at h
  all_goals first | (cases h; done) | skip
  all_goals
    injection h with h
    subst h
    intro e he
    simp only [RState.entries, List.mem_append] at he
    show e.ver < max _ _ + 1
    rcases he with he | he
    · exact Nat.lt_succ_of_le (Nat.le_trans (maxVer_ge _ e he) (Nat.le_max_left _ _))
    · exact Nat.lt_succ_of_le (Nat.le_trans (maxVer_ge _ e he) (Nat.le_max_right _ _))

/-- after a kill at any point of any history the re-opened database hands out timestamps above
    every version it holds -/
theorem C11_after_crash (R : ViewRel) (c : Cfg) (h : List Sched) (hok : SchedHistOk R (MState.init c).p h) :
    ∃ r, recover false (crashKill ((MState.init c).exec h).fs) = .ok r ∧ ∀ e ∈ r.entries, e.ver < r.nextTxnTs := by
  obtain ⟨r, hr, _⟩ := C08_kill_safe R c h hok
  exact ⟨r, hr, C11_open_ts false _ r hr⟩

/-- the logical state `Open` starts from (`db.orc.nextTxnTs`, the new memtable, the tables) -/
def stateAfterOpen (c : Cfg) (r : RState) : PState :=
  { cfg := c, nextTs := r.nextTxnTs, cur := r.nextMemFid, nextMem := r.nextMemFid + 1,
    imm := r.imms.map (·.1),
    mtxns := r.imms.map (fun x => (x.1, [{ ts := 0, ents := x.2 }])),
    nextSst := r.nextSstId,
    tset := r.tables.map (fun t => (t.id, t.level)),
    tcont := r.tables.map (fun t => (t.id, t.ents)),
    vfid := r.vlogFid }

/-- the entries of the first commit after a re-open shadow every stored entry -/
theorem C11_shadow (ro : Bool) (img : Image) (r : RState) (c : Cfg) (h : recover ro img = .ok r)
    (ents : List CEnt) :
    ∀ n ∈ stamp (stateAfterOpen c r) ents, ∀ e ∈ r.entries, e.ver < n.ver := by
  intro n hn e he
  have := C11_open_ts ro img r h e he
  simp only [stamp, List.mem_map] at hn
  obtain ⟨x, _, hx⟩ := hn
  subst hx
  exact this

/-- non-vacuity: a directory holding a table with version 7 and a WAL with one complete
    (version 9) and one incomplete (version 12) transaction re-opens with `nextTxnTs = 10` -/
def demoImage : Image :=
  [(.manifest, { chunks := [.mhdr, .mset [.create 1 0]], size := .tight }),
   (.sst 1, { chunks := [.table [{ key := [1], ver := 7, del := false, val := [1] }]], size := .alloc }),
   (.mem 3, { chunks := [.hdr, .walEnt 9 { key := [2], ver := 9, del := false, val := [2] }, .walFin 9,
                         .walEnt 12 { key := [3], ver := 12, del := false, val := [3] }], size := .alloc }),
   (.vlog 1, { chunks := [.hdr], size := .alloc })]

example : (match recover false demoImage with
    | .ok r => (r.nextTxnTs, r.entries.map (·.ver))
    | .error _ => (0, [])) = (10, [9, 7]) := by decide

end Badger
