import BadgerModel.Backup
import BadgerProofs.Lemmas.StreamOrd
import BadgerProofs.Lemmas.BackupL
/-!
# C24 — Backup and Load round-trip the database, including incremental chains (backup.go)

Views are lists of entries in internal-key order (user key ascending, newest version first):
the merged view of the source (`mergeAll lsm.sources`) and the memtable of the restored DB.
-/
namespace Badger
open SO BL

/-! ## Specification side -/

/-- a read of a sorted view at `ts`: the first (= newest) version `≤ ts` of `k`. -/
def viewGet (view : List Ent) (k : Bytes) (ts : Nat) : Option Ent :=
  view.find? (fun e => e.key == k && decide (e.ver ≤ ts))

/-- the meta bits a reader can observe: the value-pointer bit (an artefact of the value
    threshold of the DB holding the entry) and the transaction bits are storage details. -/
def normMeta (m : Nat) : Nat := clearBit (clearBit (clearBit m bitValuePointer) bitTxn) bitFinTxn

/-- what a reader observes of an entry: key, version, meta (delete / discard-earlier / merge
    bits), user meta, expiry, value. -/
def userView (e : Ent) : Bytes × Nat × Nat × Nat × Nat × Bytes :=
  (e.key, e.ver, normMeta e.emeta, e.umeta, e.exp, e.val)

/-- the visible read: absent when the newest version is a delete marker or has expired. -/
def visRead (view : List Ent) (k : Bytes) (ts now : Nat) : Option (Bytes × Nat × Nat × Nat × Nat × Bytes) :=
  (visible now (viewGet view k ts)).map userView

/-- the versions of `k` a snapshot at `R` holds, newest first. -/
def versionsAt (view : List Ent) (k : Bytes) (R : Nat) : List Ent :=
  view.filter (fun e => e.key == k && decide (e.ver ≤ R))

/-- the version of the first retention boundary (deleted / expired / discard-earlier entry)
    in a version list, 0 when there is none: Backup stops there. -/
def boundaryVer (now : Nat) (g : List Ent) : Nat :=
  match g.find? (fun e => deletedOrExpired e.emeta e.exp now || hasBit e.emeta bitDiscardEarlier) with
  | some b => b.ver
  | none => 0

/-- the KVs of a backup run reading at its ONE timestamp `R` (`Stream.beginRun`; by `C25_concat`
    / `C24_split_irrelevant` the split into key ranges does not matter):
    `DB.Backup(w, since)` sets `SinceTs = since`. -/
def backupKVs (view : List Ent) (since R now : Nat) : List Ent :=
  produceRange view (backupCfg [] since since now) R now { left := [], right := [] }

/-- hypotheses under which `KVLoader` never meets `ErrTxnTooBig` -/
def LoadFits (o : Opts) (kvs : List Ent) : Prop :=
  2 ≤ o.maxBatchCount ∧ ∀ e ∈ kvs, loadEstimate o.threshold e < o.maxBatchSize

/-- a source view as the harness builds them: sorted, versions ≥ 1 (so `version - 1` does not
    wrap), no internal `!badger!` keys. -/
def GoodView (view : List Ent) : Prop :=
  SortedEnts view ∧ (∀ e ∈ view, 1 ≤ e.ver) ∧ (∀ e ∈ view, badgerPrefix.isPrefixOf e.ikey = false)

/-! ## Auxiliary facts -/
namespace C24Aux

theorem viewGet_cons (a : Ent) (l : List Ent) (k : Bytes) (ts : Nat) :
    viewGet (a :: l) k ts = if a.key = k ∧ a.ver ≤ ts then some a else viewGet l k ts := by
  by_cases h : a.key = k ∧ a.ver ≤ ts
  · rw [if_pos h]; unfold viewGet; rw [List.find?_cons]; simp [h.1, h.2]
  · rw [if_neg h]
    have hp : (a.key == k && decide (a.ver ≤ ts)) = false := by
      cases hq : (a.key == k && decide (a.ver ≤ ts)) with
      | false => rfl
      | true => simp at hq; exact absurd hq h
    unfold viewGet; rw [List.find?_cons, hp]

/-- a read of a sorted view: either no version `≤ ts` of the key exists, or the result is the
    one with the largest version. -/
theorem viewGet_cases {l : List Ent} (hs : SortedEnts l) (k : Bytes) (ts : Nat) :
    (viewGet l k ts = none ∧ ∀ y ∈ l, y.key = k → ts < y.ver) ∨
    (∃ n, viewGet l k ts = some n ∧ n ∈ l ∧ n.key = k ∧ n.ver ≤ ts ∧
        ∀ y ∈ l, y.key = k → y.ver ≤ ts → y.ver ≤ n.ver) := by
  induction l with
  | nil => left; exact ⟨rfl, by simp⟩
  | cons a l ih =>
    obtain ⟨h1, h2⟩ := sorted_cons.mp hs
    rw [viewGet_cons]
    by_cases h : a.key = k ∧ a.ver ≤ ts
    · rw [if_pos h]
      right
      refine ⟨a, rfl, by simp, h.1, h.2, ?_⟩
      intro y hy hyk _
      rcases List.mem_cons.mp hy with rfl | hy
      · exact Nat.le_refl _
      · have := elt_same_key_ver (h1 y hy) (by rw [h.1, hyk]); omega
    · rw [if_neg h]
      rcases ih h2 with ⟨g1, g2⟩ | ⟨n, g1, g2, g3, g4, g5⟩
      · left
        refine ⟨g1, ?_⟩
        intro y hy hyk
        rcases List.mem_cons.mp hy with rfl | hy
        · apply Nat.lt_of_not_le; intro hle; exact h ⟨hyk, hle⟩
        · exact g2 y hy hyk
      · right
        refine ⟨n, g1, List.mem_cons_of_mem _ g2, g3, g4, ?_⟩
        intro y hy hyk hyv
        rcases List.mem_cons.mp hy with rfl | hy
        · exact absurd ⟨hyk, hyv⟩ h
        · exact g5 y hy hyk hyv

theorem viewGet_eq_none {l : List Ent} {k : Bytes} {ts : Nat} (h : ∀ y ∈ l, y.key = k → ts < y.ver) :
    viewGet l k ts = none := by
  induction l with
  | nil => rfl
  | cons a l ih =>
    rw [viewGet_cons, if_neg]
    · exact ih (fun y hy => h y (List.mem_cons_of_mem _ hy))
    · rintro ⟨hk, hv⟩
      have := h a (by simp) hk; omega

theorem viewGet_eq_some {l : List Ent} (hs : SortedEnts l) {k : Bytes} {ts : Nat} {x : Ent} (hx : x ∈ l)
    (hk : x.key = k) (hv : x.ver ≤ ts) (hmax : ∀ y ∈ l, y.key = k → y.ver ≤ ts → y.ver ≤ x.ver) :
    viewGet l k ts = some x := by
  rcases viewGet_cases hs k ts with ⟨_, g⟩ | ⟨n, g1, g2, g3, g4, g5⟩
  · have := g x hx hk; omega
  · rw [g1]
    have h1 := hmax n g2 g3 g4
    have h2 := g5 x hx hk hv
    rw [sorted_unique hs g2 hx (g3.trans hk.symm) (by omega)]

theorem dead_lsmForm (d : Db) (e : Ent) (now : Nat) :
    deletedOrExpired (d.lsmForm e).emeta (d.lsmForm e).exp now = deletedOrExpired e.emeta e.exp now := by
  unfold Db.lsmForm deletedOrExpired
  split
  · simp only [hasDelete_clearVP]
  · simp only [hasDelete_setVP]

theorem dead_strip (now : Nat) (e : Ent) :
    deletedOrExpired (strip now e).emeta (strip now e).exp now = deletedOrExpired e.emeta e.exp now := by
  show deletedOrExpired (clearBit (clearBit e.emeta bitTxn) bitFinTxn) e.exp now = _
  unfold deletedOrExpired
  rw [hasDelete_clearTxn]

theorem normMeta_lsmForm (d : Db) (e : Ent) : normMeta (d.lsmForm e).emeta = normMeta e.emeta := by
  show nmeta _ = nmeta _
  unfold Db.lsmForm
  split
  · exact nmeta_clearVP _
  · exact nmeta_setVP _

/-- a reader cannot tell the restored form of an entry from the original. -/
theorem visible_restored (d : Db) (now : Nat) (e : Ent) :
    (visible now (some (d.lsmForm (strip now e)))).map userView = (visible now (some e)).map userView := by
  have hd : deletedOrExpired (d.lsmForm (strip now e)).emeta (d.lsmForm (strip now e)).exp now =
      deletedOrExpired e.emeta e.exp now := by rw [dead_lsmForm, dead_strip]
  simp only [visible, hd]
  cases hdead : deletedOrExpired e.emeta e.exp now with
  | true => simp
  | false =>
    simp only [Bool.false_eq_true, if_false, Option.map_some]
    congr 1
    unfold userView
    rw [lsmForm_key, lsmForm_ver, lsmForm_umeta, lsmForm_exp, lsmForm_val, normMeta_lsmForm]
    show (e.key, e.ver, nmeta (clearBit (clearBit e.emeta bitTxn) bitFinTxn), e.umeta, e.exp,
      if deletedOrExpired e.emeta e.exp now then [] else e.val) = (e.key, e.ver, nmeta e.emeta, e.umeta, e.exp, e.val)
    rw [hdead, nmeta_clearTxn]
    rfl

theorem foldl_max_ge (l : List Ent) : ∀ init : Nat,
    init ≤ l.foldl (fun m e => if m < e.ver then e.ver else m) init ∧
    ∀ e ∈ l, e.ver ≤ l.foldl (fun m e => if m < e.ver then e.ver else m) init := by
  induction l with
  | nil => intro init; simp
  | cons a l ih =>
    intro init
    simp only [List.foldl_cons]
    have hi : init ≤ (if init < a.ver then a.ver else init) ∧ a.ver ≤ (if init < a.ver then a.ver else init) := by
      split <;> omega
    generalize (if init < a.ver then a.ver else init) = init' at hi ⊢
    obtain ⟨g1, g2⟩ := ih init'
    refine ⟨by omega, ?_⟩
    intro e he
    rcases List.mem_cons.mp he with rfl | he
    · omega
    · exact g2 e he

theorem foldl_max_le (l : List Ent) (B : Nat) (h : ∀ e ∈ l, e.ver ≤ B) : ∀ init : Nat, init ≤ B →
    l.foldl (fun m e => if m < e.ver then e.ver else m) init ≤ B := by
  induction l with
  | nil => intro init hi; exact hi
  | cons a l ih =>
    intro init hi
    simp only [List.foldl_cons]
    apply ih (fun e he => h e (List.mem_cons_of_mem _ he))
    have := h a (by simp)
    split <;> omega

theorem maxVersionOf_ge {kvs : List Ent} {e : Ent} (h : e ∈ kvs) : e.ver ≤ maxVersionOf kvs :=
  (foldl_max_ge kvs 0).2 e h

theorem maxVersionOf_le {kvs : List Ent} {B : Nat} (h : ∀ e ∈ kvs, e.ver ≤ B) : maxVersionOf kvs ≤ B :=
  foldl_max_le kvs B h 0 (Nat.zero_le _)

theorem emit_key {now : Nat} {e x : Ent} (h : x ∈ emit now e) : x.key = e.key := by
  rcases mem_emit.mp h with rfl | ⟨_, rfl⟩ <;> rfl

theorem emit_cases {now : Nat} {e x : Ent} (h : x ∈ emit now e) :
    x = strip now e ∨ (bdry now e = true ∧ x.ver = verPred e.ver) := by
  rcases mem_emit.mp h with rfl | ⟨hde, rfl⟩
  · exact .inl rfl
  · right; refine ⟨?_, rfl⟩
    unfold bdry; rw [hde]; simp

theorem emit_ver_le {now : Nat} {e x : Ent} (hv : 1 ≤ e.ver) (h : x ∈ emit now e) : x.ver ≤ e.ver := by
  rcases emit_cases h with rfl | ⟨_, h2⟩
  · exact Nat.le_refl _
  · rw [h2]; exact Nat.le_of_lt (verPred_lt hv)

theorem backupKVs_eq (view : List Ent) (hg : GoodView view) (since R now : Nat) :
    backupKVs view since R now = bk now (view.filter (keepP since R)) :=
  produceRange_bk view hg.1 hg.2.2 since R now

theorem mem_backupKVs {view : List Ent} (hg : GoodView view) {since R now : Nat} {x : Ent}
    (hx : x ∈ backupKVs view since R now) :
    ∃ e ∈ view, e.ver ≤ R ∧ (since = 0 ∨ since < e.ver) ∧ x ∈ emit now e := by
  rw [backupKVs_eq view hg] at hx
  obtain ⟨e, he, _, hxe⟩ := mem_bk.mp hx
  obtain ⟨he1, he2⟩ := List.mem_filter.mp he
  obtain ⟨a, b⟩ := (keepP_iff _ _ _).mp he2
  exact ⟨e, he1, a, b, hxe⟩

theorem strip_mem_backupKVs {view : List Ent} (hg : GoodView view) {since R now : Nat} {n : Ent}
    (hn : n ∈ view) (hR : n.ver ≤ R) (hsn : since = 0 ∨ since < n.ver)
    (hl : ∀ x ∈ view, x.key = n.key → n.ver < x.ver → x.ver ≤ R → bdry now x = false) :
    strip now n ∈ backupKVs view since R now := by
  rw [backupKVs_eq view hg]
  refine mem_bk.mpr ⟨n, List.mem_filter.mpr ⟨hn, (keepP_iff _ _ _).mpr ⟨hR, hsn⟩⟩, ?_, mem_emit.mpr (.inl rfl)⟩
  rw [live_iff]
  intro x hx hk hv
  obtain ⟨hx1, hx2⟩ := List.mem_filter.mp hx
  exact hl x hx1 hk hv ((keepP_iff _ _ _).mp hx2).1

theorem foldl_put_eq (d : Db) (kvs m : List Ent) : kvs.foldl (put d) m = putAll (kvs.map d.lsmForm) m := by
  unfold putAll put
  rw [List.foldl_map]

/-- in a sorted list of versions of one key, the first boundary is the newest one. -/
theorem first_boundary_max (now : Nat) (k : Bytes) {x : Ent} : ∀ g : List Ent, SortedEnts g →
    (∀ y ∈ g, y.key = k) → x ∈ g → bdry now x = true →
    ∃ b, g.find? (bdry now) = some b ∧ x.ver ≤ b.ver := by
  intro g
  induction g with
  | nil => intro _ _ hx; simp at hx
  | cons a g ih =>
    intro hs hk hx hb
    obtain ⟨h1, h2⟩ := sorted_cons.mp hs
    rw [List.find?_cons]
    cases ha : bdry now a with
    | true =>
      refine ⟨a, rfl, ?_⟩
      rcases List.mem_cons.mp hx with rfl | hx
      · exact Nat.le_refl _
      · have := elt_same_key_ver (h1 x hx) (by rw [hk a (by simp), hk x (List.mem_cons_of_mem _ hx)]); omega
    | false =>
      rcases List.mem_cons.mp hx with rfl | hx
      · rw [ha] at hb; cases hb
      · exact ih h2 (fun y hy => hk y (List.mem_cons_of_mem _ hy)) hx hb

theorem boundary_le (now : Nat) {view : List Ent} (hs : SortedEnts view) {k : Bytes} {R : Nat} {x : Ent}
    (hx : x ∈ view) (hk : x.key = k) (hR : x.ver ≤ R) (hb : bdry now x = true) :
    x.ver ≤ boundaryVer now (versionsAt view k R) := by
  have hsg : SortedEnts (versionsAt view k R) := List.Pairwise.filter _ hs
  have hkg : ∀ y ∈ versionsAt view k R, y.key = k := by
    intro y hy
    have := (List.mem_filter.mp hy).2
    simp only [Bool.and_eq_true, beq_iff_eq] at this
    exact this.1
  have hxg : x ∈ versionsAt view k R := by
    apply List.mem_filter.mpr
    refine ⟨hx, ?_⟩
    simp [hk, hR]
  obtain ⟨b, hfind, hle⟩ := first_boundary_max now k _ hsg hkg hxg hb
  have hfun : (fun e : Ent => deletedOrExpired e.emeta e.exp now || hasBit e.emeta bitDiscardEarlier) = bdry now := rfl
  unfold boundaryVer
  rw [hfun, hfind]
  exact hle

/-! ### Instances for the non-vacuity examples -/

/-- a 5-entry source: key `01` has versions 5 (transaction bit set), 3 (discard-earlier), 2;
    key `02` has a delete marker at 4 above a value at 1. -/
def exView : List Ent :=
  [ { key := [1], ver := 5, emeta := 64, umeta := 7, exp := 0, val := [10] },
    { key := [1], ver := 3, emeta := 4, umeta := 0, exp := 0, val := [11] },
    { key := [1], ver := 2, emeta := 0, umeta := 0, exp := 0, val := [12] },
    { key := [2], ver := 4, emeta := 1, umeta := 0, exp := 0, val := [] },
    { key := [2], ver := 1, emeta := 0, umeta := 0, exp := 0, val := [13] } ]

/-- the same source after two more commits (versions 6 and 7) -/
def exView2 : List Ent :=
  [ { key := [1], ver := 7, emeta := 0, umeta := 0, exp := 0, val := [20] },
    { key := [1], ver := 5, emeta := 64, umeta := 7, exp := 0, val := [10] },
    { key := [1], ver := 3, emeta := 4, umeta := 0, exp := 0, val := [11] },
    { key := [1], ver := 2, emeta := 0, umeta := 0, exp := 0, val := [12] },
    { key := [2], ver := 4, emeta := 1, umeta := 0, exp := 0, val := [] },
    { key := [2], ver := 1, emeta := 0, umeta := 0, exp := 0, val := [13] },
    { key := [3], ver := 6, emeta := 0, umeta := 0, exp := 0, val := [21] } ]

/-- three entries per request at most: loading the 4 KVs of the backup needs two requests -/
def exOpts : Opts := { maxBatchCount := 3, maxBatchSize := 1000 }

end C24Aux
open C24Aux

/-! ## Theorems -/

/-- C24_load_ts: after `Load`, `nextTxnTs` is above every loaded version (and never lowered). -/
theorem C24_load_ts (d : Db) (kvs : List Ent) (h : (d.load kvs).2 = true) :
    d.nextTs ≤ (d.load kvs).1.nextTs ∧ ∀ e ∈ kvs, e.ver < (d.load kvs).1.nextTs :=
  load_nextTs d kvs h

/-- non-vacuity: a load that succeeds (the 4 KVs of the backup of `exView`, in two requests) -/
example : ((Db.init exOpts 0).load (backupKVs exView 0 5 0)).2 = true := by decide

/-- two loads in a row into an empty DB: both succeed, the memtable is the first batch (in its
    `writeToLSM` form) with the second applied on top by `memPut`. -/
theorem C24Aux.load_two (o : Opts) (now : Nat) (b1 b2 : List Ent) (hs : SortedEnts b1) (hf1 : LoadFits o b1)
    (hf2 : LoadFits o b2) :
    ∃ d1 d2, (Db.init o now).load b1 = (d1, true) ∧ d1.load b2 = (d2, true) ∧
      d1.lsm.mem = b1.map (Db.init o now).lsmForm ∧ d1.lsm.imm = [] ∧
      d1.lsm.levels = (Lsm.init o.maxLevels).levels ∧
      d2.lsm.mem = putAll (b2.map (Db.init o now).lsmForm) (b1.map (Db.init o now).lsmForm) := by
  obtain ⟨t1, e1⟩ := load_ok (Db.init o now) b1 hf1.1 hf1.2
  have hM1 : b1.foldl (put (Db.init o now)) (Db.init o now).lsm.mem = b1.map (Db.init o now).lsmForm := by
    rw [foldl_put_eq]
    show putAll _ [] = _
    rw [putAll_append _ [] (by simp) (sorted_map _ (lsmForm_key _) (lsmForm_ver _) hs)]
    simp
  rw [hM1] at e1
  obtain ⟨t2, e2⟩ := load_ok (mk (Db.init o now) (b1.map (Db.init o now).lsmForm) t1) b2 hf2.1 hf2.2
  refine ⟨_, _, e1, e2, rfl, rfl, rfl, ?_⟩
  show b2.foldl (put (Db.init o now)) (b1.map (Db.init o now).lsmForm) = _
  rw [foldl_put_eq]

/-- the restored memtable is exactly the backup's KVs in their `writeToLSM` form (batching into
    requests is irrelevant), nothing else is touched. -/
theorem C24_load_mem (o : Opts) (now : Nat) (kvs : List Ent) (hs : SortedEnts kvs) (hf : LoadFits o kvs) :
    ((Db.init o now).load kvs).2 = true ∧
    ((Db.init o now).load kvs).1.lsm.mem = kvs.map (Db.init o now).lsmForm ∧
    ((Db.init o now).load kvs).1.lsm.imm = [] ∧
    ((Db.init o now).load kvs).1.lsm.levels = (Lsm.init o.maxLevels).levels := by
  obtain ⟨d1, _, e1, _, m1, m2, m3, _⟩ := load_two o now kvs [] hs hf ⟨hf.1, by simp⟩
  rw [e1]
  exact ⟨rfl, m1, m2, m3⟩

/-- non-vacuity: the backup of `exView` (4 KVs, one of them the synthetic delete marker below the
    discard-earlier version) is sorted and fits. -/
example : SortedEnts (backupKVs exView 0 5 0) ∧ LoadFits exOpts (backupKVs exView 0 5 0) := by
  unfold SortedEnts LoadFits; decide

/-- the KVs of a single-snapshot backup of a good view are sorted (so the restored memtable is
    that list). -/
theorem C24_backup_sorted (view : List Ent) (hg : GoodView view) (since R now : Nat) :
    SortedEnts (backupKVs view since R now) := by
  rw [backupKVs_eq view hg]
  apply sorted_bk now _ (List.Pairwise.filter _ hg.1)
  intro e he
  exact hg.2.1 e (List.mem_filter.mp he).1

/-- non-vacuity: `exView` is a good view. -/
example : GoodView exView := by unfold GoodView SortedEnts; decide

/-- C24_full: load(backup s 0) serves, for every key and every `ts` from the key's first
    retention boundary up to the backup's read timestamp, the same visible read (version, meta
    bits, user meta, expiry, value) as the source. Below the boundary the restored DB has
    nothing (DESIGN §8.7). -/
theorem C24_full (view : List Ent) (hg : GoodView view) (o : Opts) (R now : Nat)
    (hf : LoadFits o (backupKVs view 0 R now)) (k : Bytes) (ts : Nat) (hts : ts ≤ R)
    (hb : boundaryVer now (versionsAt view k R) ≤ ts) :
    ((Db.init o now).load (backupKVs view 0 R now)).2 = true ∧
    visRead ((Db.init o now).load (backupKVs view 0 R now)).1.lsm.mem k ts now = visRead view k ts now := by
  obtain ⟨hs, hver, hint⟩ := hg
  have hg : GoodView view := ⟨hs, hver, hint⟩
  have hsb := C24_backup_sorted view hg 0 R now
  obtain ⟨hok, hmem, _, _⟩ := C24_load_mem o now _ hsb hf
  refine ⟨hok, ?_⟩
  rw [hmem]
  unfold visRead
  have hsm : SortedEnts ((backupKVs view 0 R now).map (Db.init o now).lsmForm) :=
    sorted_map _ (lsmForm_key _) (lsmForm_ver _) hsb
  -- the boundaries of `k` the snapshot holds are `≤ ts`
  have hbd : ∀ x ∈ view, x.key = k → x.ver ≤ R → bdry now x = true → x.ver ≤ ts := by
    intro x hx hk hR hb'
    have := boundary_le now hs hx hk hR hb'
    omega
  -- what the restored memtable holds for `k`
  have hmemR : ∀ y ∈ (backupKVs view 0 R now).map (Db.init o now).lsmForm, y.key = k →
      ∃ e ∈ view, e.key = k ∧ e.ver ≤ R ∧ (y.ver = e.ver ∨ (bdry now e = true ∧ y.ver < e.ver)) := by
    intro y hy hyk
    obtain ⟨y', hy', rfl⟩ := List.mem_map.mp hy
    obtain ⟨e, he, heR, _, hye⟩ := mem_backupKVs hg hy'
    rw [lsmForm_key, emit_key hye] at hyk
    refine ⟨e, he, hyk, heR, ?_⟩
    rw [lsmForm_ver]
    rcases emit_cases hye with rfl | ⟨hb', hv⟩
    · left; rfl
    · right; exact ⟨hb', by rw [hv]; exact verPred_lt (hver e he)⟩
  rcases viewGet_cases hs k ts with ⟨hnone, hall⟩ | ⟨n, hsome, hn, hnk, hnv, hmax⟩
  · rw [hnone, viewGet_eq_none]
    intro y hy hyk
    obtain ⟨e, he, hek, heR, hcase⟩ := hmemR y hy hyk
    have h1 := hall e he hek
    rcases hcase with h | ⟨hb', _⟩
    · omega
    · have := hbd e he hek heR hb'; omega
  · have hX : viewGet ((backupKVs view 0 R now).map (Db.init o now).lsmForm) k ts =
        some ((Db.init o now).lsmForm (strip now n)) := by
      apply viewGet_eq_some hsm
      · apply List.mem_map_of_mem
        apply strip_mem_backupKVs hg hn (by omega) (.inl rfl)
        intro x hx hk hv hxR
        cases hb' : bdry now x with
        | false => rfl
        | true =>
          have h1 := hbd x hx (hk.trans hnk) hxR hb'
          have h2 := hmax x hx (hk.trans hnk) h1
          omega
      · rw [lsmForm_key]; exact hnk
      · rw [lsmForm_ver]; exact hnv
      · intro y hy hyk hyv
        rw [lsmForm_ver]
        show y.ver ≤ n.ver
        obtain ⟨e, he, hek, heR, hcase⟩ := hmemR y hy hyk
        rcases hcase with h | ⟨hb', hlt⟩
        · have := hmax e he hek (by omega); omega
        · have h1 := hbd e he hek heR hb'
          have := hmax e he hek h1; omega
    rw [hX, hsome, visible_restored]

/-- non-vacuity: key `01` of `exView` read at 4 (its boundary is the discard-earlier version 3),
    and the read is a real value; key `02` read at its boundary 4 (a delete marker). -/
example : GoodView exView ∧ LoadFits exOpts (backupKVs exView 0 5 0) ∧ 4 ≤ 5 ∧
    boundaryVer 0 (versionsAt exView [1] 5) ≤ 4 ∧ boundaryVer 0 (versionsAt exView [2] 5) ≤ 4 := by
  unfold GoodView SortedEnts LoadFits; decide
example : visRead exView [1] 4 0 = some ([1], 3, 4, 0, 0, [11]) ∧ visRead exView [2] 4 0 = none := by decide

theorem C24Aux.incremental_aux (s1 s2 : List Ent) (h1 : GoodView s1) (h2 : GoodView s2) (o : Opts) (R1 R2 now : Nat)
    (hR : R1 ≤ R2)
    (hchain : s2.filter (fun e => decide (e.ver ≤ maxVersionOf (backupKVs s1 0 R1 now))) =
              s1.filter (fun e => decide (e.ver ≤ R1)))
    (hf1 : LoadFits o (backupKVs s1 0 R1 now))
    (hf2 : LoadFits o (backupKVs s2 (maxVersionOf (backupKVs s1 0 R1 now)) R2 now)) (k : Bytes) :
    ((Db.init o now).load (backupKVs s1 0 R1 now)).2 = true ∧
    (((Db.init o now).load (backupKVs s1 0 R1 now)).1.load
        (backupKVs s2 (maxVersionOf (backupKVs s1 0 R1 now)) R2 now)).2 = true ∧
    visRead (((Db.init o now).load (backupKVs s1 0 R1 now)).1.load
        (backupKVs s2 (maxVersionOf (backupKVs s1 0 R1 now)) R2 now)).1.lsm.mem k R2 now =
      visRead s2 k R2 now := by
  have sb1 := C24_backup_sorted s1 h1 0 R1 now
  have sb2 := C24_backup_sorted s2 h2 (maxVersionOf (backupKVs s1 0 R1 now)) R2 now
  -- the first backup's versions are `≤ R1`
  have hmaxR : maxVersionOf (backupKVs s1 0 R1 now) ≤ R1 := by
    apply maxVersionOf_le
    intro x hx
    obtain ⟨e, he, heR, _, hxe⟩ := mem_backupKVs h1 hx
    have := emit_ver_le (h1.2.1 e he) hxe
    omega
  have hmem1 : ∀ y ∈ backupKVs s1 0 R1 now, y.ver ≤ maxVersionOf (backupKVs s1 0 R1 now) :=
    fun y hy => maxVersionOf_ge hy
  generalize hb1 : backupKVs s1 0 R1 now = b1 at *
  generalize hmx : maxVersionOf b1 = max1 at *
  generalize hb2 : backupKVs s2 max1 R2 now = b2 at *
  obtain ⟨d1, d2, e1, e2, m1, _, _, m2⟩ := load_two o now b1 b2 sb1 hf1 hf2
  rw [e1]
  simp only []
  rw [e2]
  refine ⟨by first | rfl | trivial, by first | rfl | trivial, ?_⟩
  simp only []
  rw [m2]
  generalize hf : (Db.init o now).lsmForm = f at *
  have fkey : ∀ e, (f e).key = e.key := by intro e; rw [← hf]; exact lsmForm_key _ e
  have fver : ∀ e, (f e).ver = e.ver := by intro e; rw [← hf]; exact lsmForm_ver _ e
  have sM1 : SortedEnts (b1.map f) := sorted_map f fkey fver sb1
  have sL2 : SortedEnts (b2.map f) := sorted_map f fkey fver sb2
  have sM2 : SortedEnts (putAll (b2.map f) (b1.map f)) := sorted_putAll _ _ sM1
  -- the chain hypothesis, both ways
  have hc12 : ∀ e ∈ s1, e.ver ≤ R1 → e ∈ s2 ∧ e.ver ≤ max1 := by
    intro e he hv
    have : e ∈ s1.filter (fun e => decide (e.ver ≤ R1)) := List.mem_filter.mpr ⟨he, by simpa using hv⟩
    rw [← hchain] at this
    obtain ⟨a, b⟩ := List.mem_filter.mp this
    exact ⟨a, by simpa using b⟩
  have hc21 : ∀ e ∈ s2, e.ver ≤ max1 → e ∈ s1 ∧ e.ver ≤ R1 := by
    intro e he hv
    have : e ∈ s2.filter (fun e => decide (e.ver ≤ max1)) := List.mem_filter.mpr ⟨he, by simpa using hv⟩
    rw [hchain] at this
    obtain ⟨a, b⟩ := List.mem_filter.mp this
    exact ⟨a, by simpa using b⟩
  -- what the two batches hold for `k`
  have hin1 : ∀ y ∈ b1.map f, y.key = k → y.ver ≤ max1 ∧ ∃ e ∈ s2, e.key = k ∧ e.ver ≤ max1 ∧ y.ver ≤ e.ver := by
    intro y hy hyk
    obtain ⟨y', hy', rfl⟩ := List.mem_map.mp hy
    refine ⟨by rw [fver]; exact hmem1 y' hy', ?_⟩
    rw [← hb1] at hy'
    obtain ⟨e, he, heR, _, hye⟩ := mem_backupKVs h1 hy'
    obtain ⟨a, b⟩ := hc12 e he heR
    rw [fkey, emit_key hye] at hyk
    exact ⟨e, a, hyk, b, by rw [fver]; exact emit_ver_le (h1.2.1 e he) hye⟩
  have hin2 : ∀ y ∈ b2.map f, y.key = k →
      ∃ e ∈ s2, e.key = k ∧ e.ver ≤ R2 ∧ (max1 = 0 ∨ max1 < e.ver) ∧ y.ver ≤ e.ver := by
    intro y hy hyk
    obtain ⟨y', hy', rfl⟩ := List.mem_map.mp hy
    rw [← hb2] at hy'
    obtain ⟨e, he, heR, hsn, hye⟩ := mem_backupKVs h2 hy'
    rw [fkey, emit_key hye] at hyk
    exact ⟨e, he, hyk, heR, hsn, by rw [fver]; exact emit_ver_le (h2.2.1 e he) hye⟩
  unfold visRead
  rcases viewGet_cases h2.1 k R2 with ⟨hnone, hall⟩ | ⟨n, hsome, hn, hnk, hnv, hmax⟩
  · rw [hnone, viewGet_eq_none]
    intro y hy hyk
    exfalso
    rcases mem_putAll_sub _ _ sM1 y hy with hy | hy
    · obtain ⟨e, he, hek, heR, _, _⟩ := hin2 y hy hyk
      have := hall e he hek; omega
    · obtain ⟨_, e, he, hek, hem, _⟩ := hin1 y hy hyk
      have := hall e he hek; omega
  · have hX : viewGet (putAll (b2.map f) (b1.map f)) k R2 = some (f (strip now n)) := by
      by_cases hn1 : max1 < n.ver
      · -- the newest version is in the incremental backup
        apply viewGet_eq_some sM2
        · apply mem_putAll_new _ _ sM1 sL2
          apply List.mem_map_of_mem
          rw [← hb2]
          apply strip_mem_backupKVs h2 hn hnv (.inr hn1)
          intro x hx hk hv hxR
          have := hmax x hx (hk.trans hnk) hxR
          omega
        · rw [fkey]; exact hnk
        · rw [fver]; exact hnv
        · intro y hy hyk hyv
          rw [fver]
          show y.ver ≤ n.ver
          rcases mem_putAll_sub _ _ sM1 y hy with hy | hy
          · obtain ⟨e, he, hek, heR, _, hye⟩ := hin2 y hy hyk
            have := hmax e he hek heR; omega
          · have := (hin1 y hy hyk).1; omega
      · -- the newest version is at or below the first backup's maximum: the second backup
        -- has nothing for `k`, the first one starts `k`'s block with it
        have hn1' : n.ver ≤ max1 := Nat.le_of_not_lt hn1
        obtain ⟨hns1, hnR1⟩ := hc21 n hn hn1'
        have hno2 : ∀ y ∈ b2.map f, y.key = k → False := by
          intro y hy hyk
          obtain ⟨e, he, hek, heR, hsn, _⟩ := hin2 y hy hyk
          have h3 := hmax e he hek heR
          have h4 := h2.2.1 e he
          omega
        apply viewGet_eq_some sM2
        · apply mem_putAll_old _ _ sM1
          · apply List.mem_map_of_mem
            rw [← hb1]
            apply strip_mem_backupKVs h1 hns1 hnR1 (.inl rfl)
            intro x hx hk hv hxR
            obtain ⟨a, b⟩ := hc12 x hx hxR
            have := hmax x a (hk.trans hnk) (by omega)
            omega
          · intro y hy hsame
            apply hno2 y hy
            rw [← hsame.1, fkey]; exact hnk
        · rw [fkey]; exact hnk
        · rw [fver]; exact hnv
        · intro y hy hyk hyv
          rw [fver]
          show y.ver ≤ n.ver
          rcases mem_putAll_sub _ _ sM1 y hy with hy | hy
          · exact absurd (hno2 y hy hyk) id
          · obtain ⟨_, e, he, hek, hem, hye⟩ := hin1 y hy hyk
            have := hmax e he hek (by omega); omega
    rw [hX, hsome, ← hf, visible_restored]

/-- C24_incremental: a full backup at `R1` followed by an incremental one at `R2` taken with
    `since` = the version the first returned, loaded in that order into an empty DB, reproduce
    the source's final visible state — provided the history between them only grew above the
    returned version (a compaction that drops a delete marker breaks this: finding F19). Each
    backup reads one snapshot (`Stream.beginRun`, commit 5000444; `C24_split_irrelevant`). -/
theorem C24_incremental (s1 s2 : List Ent) (h1 : GoodView s1) (h2 : GoodView s2) (o : Opts) (R1 R2 now : Nat)
    (hR : R1 ≤ R2)
    (hchain : s2.filter (fun e => decide (e.ver ≤ maxVersionOf (backupKVs s1 0 R1 now))) =
              s1.filter (fun e => decide (e.ver ≤ R1)))
    (hf1 : LoadFits o (backupKVs s1 0 R1 now))
    (hf2 : LoadFits o (backupKVs s2 (maxVersionOf (backupKVs s1 0 R1 now)) R2 now)) (k : Bytes) :
    let b1 := backupKVs s1 0 R1 now
    let b2 := backupKVs s2 (maxVersionOf b1) R2 now
    let r1 := (Db.init o now).load b1
    let r2 := r1.1.load b2
    r1.2 = true ∧ r2.2 = true ∧ visRead r2.1.lsm.mem k R2 now = visRead s2 k R2 now := by
  intro b1 b2 r1 r2
  exact incremental_aux s1 s2 h1 h2 o R1 R2 now hR hchain hf1 hf2 k

/-- non-vacuity: full backup of `exView` at 5 (returns version 5), incremental backup of
    `exView2` at 7 with `since = 5`. -/
example : GoodView exView ∧ GoodView exView2 ∧ 5 ≤ 7 ∧
    exView2.filter (fun e => decide (e.ver ≤ maxVersionOf (backupKVs exView 0 5 0))) =
      exView.filter (fun e => decide (e.ver ≤ 5)) ∧
    LoadFits exOpts (backupKVs exView 0 5 0) ∧
    LoadFits exOpts (backupKVs exView2 (maxVersionOf (backupKVs exView 0 5 0)) 7 0) := by
  unfold GoodView SortedEnts LoadFits; decide
example : visRead exView2 [1] 7 0 = some ([1], 7, 0, 0, 0, [20]) ∧ visRead exView2 [2] 7 0 = none := by decide

/-! ## F19: an incremental backup misses a delete whose marker compaction already dropped -/

def f19k1 : Ent := { key := [0x6b], ver := 1, emeta := 64, umeta := 0, exp := 0, val := [0x76] }
def f19k2 : Ent := { key := [0x6b], ver := 2, emeta := 65, umeta := 0, exp := 0, val := [] }
def f19z3 : Ent := { key := [0x7a], ver := 3, emeta := 64, umeta := 0, exp := 0, val := [1] }
/-- the source at the first backup (`k = v @1`) … -/
def f19S1 : List Ent := [f19k1]
/-- … and after `delete k @2`, a commit `@3` and an L0 → Lmax compaction with discard
    timestamp 2 and no overlap below (`subcompact`): the marker and everything under it are gone. -/
def f19S2 : List Ent :=
  subcompact { discardTs := 2, numKeep := 1, hasOverlap := false, now := 0, dropPrefixes := [] } [f19k2, f19k1, f19z3]

/-- negation witness for `C24_incremental` without its hypothesis `hchain` (the history between
    two backups only grew): the source reads `k` as absent, the restored chain (full backup at 1,
    incremental backup with `since` = the returned version 1 at 3) still reads `k = v`. -/
theorem C24_F19_lost_tombstone_witness :
    f19S2 = [f19z3] ∧
    (let o : Opts := { maxBatchCount := 100, maxBatchSize := 10000 }
     let b1 := backupKVs f19S1 0 1 0
     let b2 := backupKVs f19S2 (maxVersionOf b1) 3 0
     let r2 := ((Db.init o 0).load b1).1.load b2
     maxVersionOf b1 = 1 ∧ r2.2 = true ∧
     visRead f19S2 [0x6b] 3 0 = none ∧
     visRead r2.1.lsm.mem [0x6b] 3 0 = some ([0x6b], 1, 0, 0, 0, [0x76])) := by
  decide

end Badger
