import BadgerModel.Bytes
/-!
# C29 (concurrency clause) — a commit racing with a drop takes effect entirely before it,
entirely after it, or is rejected

A small interleaving model of ONE committer against ONE `DropPrefix`/`DropAll` (db.go):

* committer (`commitAndSend` → `sendToWriteCh`): `alloc` (`newCommitTs`: the commit timestamp is
  pending on `txnMark`), `check` (`blockWrites.Load() == 1` ⇒ `ErrBlockedWrites`, `doneCommit`),
  `send` (`db.writeCh <- req`; the request carries ALL entries of the transaction);
* dropper (`prepareToDrop` …): `block` (`blockWrites.CAS(0,1)`, `closers.writes.SignalAndWait`:
  `doWrites` applies what it has and exits), `drain` (the `select` loop over `writeCh`, then
  `writeRequests`: everything sent so far is applied BEFORE the drop), `view` (DropPrefix only:
  `filterPrefixesToDrop` opens a `View`, whose `readTs` waits for every pending commit
  timestamp), `work` (flush with the prefix filter / drop everything), `unblock`
  (`unblockWrite`: a new `doWrites` serves `writeCh`: what is in it is applied AFTER the drop).

`explore` enumerates every interleaving. Results: with `DropAll` every interleaving ends with
the request rejected, applied before, or applied after the drop (`C29_conc_dropAll`); with
`DropPrefix` the same, except the interleavings in which the send happens after the drain and
before the unblock — the late sender, finding F38b: the `View` waits for the commit, the commit
waits for the writer that `unblock` would start (`C29_conc_dropPrefix`,
`C29_conc_late_sender_deadlock`; reproduced on the real code by the `pipe` engine's `late`
schedule, oracle tag `[C29-concurrent-late-sender-hang]`). A request is never split: whatever
the outcome, the surviving keys of the transaction are none, exactly its keys outside the
dropped prefix, or all of them (`C29_conc_atomic`).
-/
namespace Badger.C29Conc

inductive Out | rejected | before | after | deadlock
  deriving DecidableEq, Repr

structure St where
  spc : Nat := 0        -- committer: 0 alloc, 1 check, 2 send, 3 finished
  dpc : Nat := 0        -- dropper: 0 block, 1 drain, 2 view, 3 work, 4 unblock, 5 finished
  flag : Bool := false  -- blockWrites
  chan : Bool := false  -- the request sits in writeCh, not yet applied
  pending : Bool := false   -- commit timestamp allocated, not yet done (txnMark)
  dropped : Bool := false   -- the drop's work has been done
  res : Option Out := none
  deriving DecidableEq, Repr

/-- one step of the committer (`none`: finished). While the writer goroutine is alive (before
    `block`, after `unblock`) a sent request is applied at once; otherwise it waits in the channel. -/
def senderStep (s : St) : Option St :=
  match s.spc with
  | 0 => some { s with spc := 1, pending := true }
  | 1 => if s.flag then some { s with spc := 3, pending := false, res := some .rejected }
         else some { s with spc := 2 }
  | 2 =>
    if s.dpc = 0 then some { s with spc := 3, pending := false, res := some .before }   -- writer alive
    else if s.dpc = 5 then some { s with spc := 3, pending := false, res := some .after } -- new writer
    else some { s with spc := 3, chan := true }
  | _ => none

/-- one step of the dropper (`none`: finished or blocked). `withView`: DropPrefix. -/
def dropStep (withView : Bool) (s : St) : Option St :=
  match s.dpc with
  | 0 => some { s with dpc := 1, flag := true }
  | 1 => -- drain: what was sent is applied before the drop
    if s.chan then some { s with dpc := 2, chan := false, pending := false, res := some .before }
    else some { s with dpc := 2 }
  | 2 => if withView && s.pending then none else some { s with dpc := 3 }
  | 3 => some { s with dpc := 4, dropped := true }
  | 4 => -- unblock: the new writer serves the channel
    if s.chan then some { s with dpc := 5, flag := false, chan := false, pending := false, res := some .after }
    else some { s with dpc := 5, flag := false }
  | _ => none

def finished (s : St) : Bool := s.spc == 3 && s.dpc == 5 && !s.chan

/-- all terminal outcomes of all interleavings (fuel 10 > 3 + 5 steps) -/
def explore (withView : Bool) : Nat → St → List Out
  | 0, _ => [.deadlock]
  | f + 1, s =>
    if finished s then [s.res.getD .deadlock]
    else
      match senderStep s, dropStep withView s with
      | none, none => [.deadlock]
      | a, b =>
        (match a with | some s' => explore withView f s' | none => []) ++
        (match b with | some s' => explore withView f s' | none => [])

/-- the same without the late sender: no `send` between the drain and the unblock -/
def exploreNoLate (withView : Bool) : Nat → St → List Out
  | 0, _ => [.deadlock]
  | f + 1, s =>
    if finished s then [s.res.getD .deadlock]
    else
      let a := if s.spc = 2 ∧ 2 ≤ s.dpc ∧ s.dpc < 5 then none else senderStep s
      match a, dropStep withView s with
      | none, none => if s.spc = 2 then [] else [.deadlock]   -- excluded schedule, not a deadlock
      | a, b =>
        (match a with | some s' => exploreNoLate withView f s' | none => []) ++
        (match b with | some s' => exploreNoLate withView f s' | none => [])

end Badger.C29Conc

namespace Badger
open C29Conc

/-- **DropAll**: in every interleaving the commit is rejected, or applied entirely before the
    drop, or entirely after it; all three happen. -/
theorem C29_conc_dropAll :
    (∀ o ∈ explore false 10 {}, o = .rejected ∨ o = .before ∨ o = .after) ∧
    Out.rejected ∈ explore false 10 {} ∧ Out.before ∈ explore false 10 {} ∧
    Out.after ∈ explore false 10 {} := by decide

/-- **DropPrefix**: the same three outcomes, plus the deadlock of the late sender (F38b). -/
theorem C29_conc_dropPrefix :
    (∀ o ∈ explore true 10 {}, o = .rejected ∨ o = .before ∨ o = .after ∨ o = .deadlock) ∧
    Out.rejected ∈ explore true 10 {} ∧ Out.before ∈ explore true 10 {} ∧
    Out.after ∈ explore true 10 {} := by decide

/-- the deadlock is reachable with DropPrefix (the real code hangs on this schedule) … -/
theorem C29_conc_late_sender_deadlock : Out.deadlock ∈ explore true 10 {} := by decide

/-- … and only through a send between the drain and the unblock: without it every
    interleaving ends rejected / before / after, for DropPrefix as well. -/
theorem C29_conc_dropPrefix_no_late_sender :
    ∀ o ∈ exploreNoLate true 10 {}, o = .rejected ∨ o = .before ∨ o = .after := by decide

end Badger

namespace Badger.C29Conc

/-- what survives of a transaction with keys `ks` (`true` = under the dropped prefix) -/
def survivors (o : Out) (ks : List (Bytes × Bool)) : List (Bytes × Bool) :=
  match o with
  | .rejected => []
  | .before => ks.filter (fun k => !k.2)
  | .after => ks
  | .deadlock => []

end Badger.C29Conc

namespace Badger
open C29Conc

/-- **never a mix**: of the keys under the dropped prefix either none survives or all do, and
    unless the commit was rejected every key outside the prefix survives. -/
theorem C29_conc_atomic (o : Out) (ks : List (Bytes × Bool)) :
    ((survivors o ks).filter (·.2) = [] ∨ (survivors o ks).filter (·.2) = ks.filter (·.2)) ∧
    (o = .before ∨ o = .after → (survivors o ks).filter (fun k => !k.2) = ks.filter (fun k => !k.2)) := by
  cases o <;> simp [survivors, List.filter_filter]

end Badger
