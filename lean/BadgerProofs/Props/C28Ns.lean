import BadgerModel.Namespace
import BadgerProofs.Props.C28
/-!
# C28, banned namespaces (`BadgerModel/Namespace.lean`)

* a write to a key in a banned namespace is rejected and changes nothing (`C28_banned_set_rejected`),
  and the rejection comes after the validation errors and before `ErrTxnTooBig`
  (`C28_banned_order`);
* `Txn.Get` of such a key answers `ErrBannedKey` and records no read (`C28_banned_get`);
* no iterator ever yields such a key, in any mode or direction (`C28_banned_iter_hidden`);
* keys outside the banned namespaces — in particular every key when namespaces are off or nothing
  is banned — are handled exactly as without the feature (`C28_unbanned_*`), so every other theorem
  about `Db.modify`, `Db.txnGet` and `Db.iteratePicked` applies to them unchanged;
* `BanNamespace` bans (`C28_ban_bans`), only that namespace (`C28_ban_only`), and is refused when
  namespaces are off.
-/
namespace Badger

/-! ## every item an iterator yields lies in the version window -/

theorem parseItems_window (o : IterOpts) (readTs now : Nat) :
    ∀ fuel : Nat,
      (∀ e rest, e.ver ≤ readTs → ∀ x ∈ parseItems.revFill o readTs now fuel e rest,
        (x = e ∨ x ∈ rest) ∧ x.ver ≤ readTs) ∧
      (∀ lk l, ∀ x ∈ parseItems o readTs now fuel lk l, x ∈ l ∧ x.ver ≤ readTs) := by
  intro fuel
  induction fuel with
  | zero =>
    constructor
    · intro e rest _ x hx; simp [parseItems.revFill] at hx
    · intro lk l x hx; simp [parseItems] at hx
  | succ f ih =>
    obtain ⟨ih1, ih2⟩ := ih
    constructor
    · intro e rest he x hx
      unfold parseItems.revFill at hx
      split at hx
      · obtain ⟨a, b⟩ := ih2 _ _ x hx
        exact ⟨Or.inr a, b⟩
      · split at hx
        · simp only [List.mem_singleton] at hx; subst hx; exact ⟨Or.inl rfl, he⟩
        · rename_i n rest'
          split at hx
          · rename_i hn
            simp only [Bool.and_eq_true, decide_eq_true_eq] at hn
            obtain ⟨a, b⟩ := ih1 n rest' hn.1 x hx
            refine ⟨Or.inr ?_, b⟩
            rcases a with a | a
            · subst a; exact List.mem_cons_self ..
            · exact List.mem_cons_of_mem _ a
          · simp only [List.mem_cons] at hx
            rcases hx with hx | hx
            · subst hx; exact ⟨Or.inl rfl, he⟩
            · obtain ⟨a, b⟩ := ih2 _ _ x hx
              exact ⟨Or.inr a, b⟩
    · intro lk l x hx
      cases l with
      | nil => simp [parseItems] at hx
      | cons e rest =>
        have tl : ∀ lk', x ∈ parseItems o readTs now f lk' rest → x ∈ e :: rest ∧ x.ver ≤ readTs :=
          fun lk' h => ⟨List.mem_cons_of_mem _ (ih2 lk' rest x h).1, (ih2 lk' rest x h).2⟩
        rw [parseItems.eq_3] at hx
        dsimp only at hx
        split at hx
        · cases hx
        split at hx
        · exact tl _ hx
        split at hx
        · exact tl _ hx
        rename_i hwin
        have hver : e.ver ≤ readTs := by
          simp only [Bool.or_eq_true, decide_eq_true_eq, Bool.and_eq_true, not_or] at hwin
          omega
        split at hx
        · rcases List.mem_cons.mp hx with rfl | hx
          · exact ⟨List.mem_cons_self .., hver⟩
          · exact tl _ hx
        split at hx
        · split at hx
          · exact tl _ hx
          split at hx
          · exact tl _ hx
          · rcases List.mem_cons.mp hx with rfl | hx
            · exact ⟨List.mem_cons_self .., hver⟩
            · exact tl _ hx
        · obtain ⟨a, b⟩ := ih1 e rest hver x hx
          refine ⟨?_, b⟩
          rcases a with a | a
          · subst a; exact List.mem_cons_self ..
          · exact List.mem_cons_of_mem _ a

/-! ## iterators -/

theorem hideBanned_of_not (d : Db) (readTs : Nat) (e : Ent) (h : d.isBanned e.key = false) :
    hideBanned d readTs e = e := by simp [hideBanned, h]

/-- **No iterator yields a key of a banned namespace** — any options, direction, seek key,
    transaction (its own pending writes included) and LSM state. -/
theorem C28_banned_iter_hidden (d : Db) (id : Nat) (o : IterOpts) (seek : Option Bytes) (dnh : Tbl → Bool)
    (items : List Ent) (h : d.iteratePickedNs id o seek dnh = some items) :
    ∀ x ∈ items, d.isBanned x.key = false := by
  unfold Db.iteratePickedNs at h
  split at h
  · cases h
  · rename_i t _
    simp only [Option.some.injEq] at h
    subst h
    intro x hx
    have hx' := (List.takeWhile_sublist _).subset hx
    obtain ⟨hm, hv⟩ := (parseItems_window o t.readTs d.now _).2 _ _ x hx'
    obtain ⟨e, _, rfl⟩ := List.mem_map.mp hm
    unfold hideBanned at hv ⊢
    split
    · rename_i hb
      simp only [hb, if_true] at hv
      omega
    · rename_i hb
      simpa using hb

/-- with nothing banned among the entries in reach the iterator is the plain one -/
theorem C28_unbanned_iter (d : Db) (id : Nat) (o : IterOpts) (seek : Option Bytes) (dnh : Tbl → Bool)
    (h : ∀ k, d.isBanned k = false) : d.iteratePickedNs id o seek dnh = d.iteratePicked id o seek dnh := by
  have : ∀ (l : List Ent) (r : Nat), l.map (hideBanned d r) = l := by
    intro l r
    induction l with
    | nil => rfl
    | cons a l ih => rw [List.map_cons, ih, hideBanned_of_not d r a (h _)]
  unfold Db.iteratePickedNs Db.iteratePicked
  cases d.findTxn id with
  | none => rfl
  | some t => simp only [this]

/-! ## writes -/

/-- **A write to a banned key is rejected and nothing changes** (database and transaction). -/
theorem C28_banned_set_rejected (d : Db) (id : Nat) (e : Ent) (hb : d.isBanned e.key = true) :
    (d.modifyNs id e).1 = d ∧ (d.modifyNs id e).2 ≠ none := by
  unfold Db.modifyNs
  cases hm : d.modify id e with
  | mk d' r =>
    cases r with
    | none => simp [hb]
    | some err =>
      have hs : d' = d := by
        have := C28_reject_no_effect d id e err (by rw [hm])
        rw [hm] at this; exact this
      cases err <;> simp [hb, hs]

/-- the place of the check: the errors of the validation `switch` win, `ErrBannedKey` wins over
    `ErrTxnTooBig` and over acceptance -/
theorem C28_banned_order (d : Db) (id : Nat) (e : Ent) (hb : d.isBanned e.key = true) :
    (d.modifyNs id e).2 =
      match (d.modify id e).2 with
      | none => some .banned
      | some .txntoobig => some .banned
      | some err => some err := by
  unfold Db.modifyNs
  cases hm : d.modify id e with
  | mk d' r =>
    cases r with
    | none => simp [hb]
    | some err => cases err <;> simp [hb]

theorem C28_unbanned_set (d : Db) (id : Nat) (e : Ent) (hb : d.isBanned e.key = false) :
    d.modifyNs id e = d.modify id e := by
  unfold Db.modifyNs
  cases hm : d.modify id e with
  | mk d' r =>
    cases r with
    | none => simp [hb]
    | some err => cases err <;> simp [hb]

/-! ## reads -/

/-- **`Txn.Get` of a banned key** (non-empty key, live transaction) answers `ErrBannedKey`; the
    database — conflict-detection read set included — is unchanged. -/
theorem C28_banned_get (d : Db) (id : Nat) (t : TxnM) (k : Bytes) (hf : d.findTxn id = some t)
    (hk : k.isEmpty = false) (hd : t.discarded = false) (hb : d.isBanned k = true) :
    d.txnGetNs id k = (d, .err "err:banned") := by
  unfold Db.txnGetNs
  simp [hf, hk, hd, hb]

theorem C28_unbanned_get (d : Db) (id : Nat) (k : Bytes) (hb : d.isBanned k = false) :
    d.txnGetNs id k = d.txnGet id k := by
  unfold Db.txnGetNs
  split
  · rfl
  · split
    · rfl
    · simp [hb]

/-! ## what is banned -/

/-- namespaces off, or nothing banned: no key is banned -/
theorem C28_nothing_banned (d : Db) (h : d.opts.nsOffset = none ∨ d.banned = []) (k : Bytes) :
    d.isBanned k = false := by
  unfold Db.isBanned isBannedKey
  rcases h with h | h
  · rw [h]
  · rw [h]; cases d.opts.nsOffset <;> simp

/-- short keys (no complete namespace field plus at least one more byte) are never banned -/
theorem C28_short_key_not_banned (d : Db) (off : Nat) (h : d.opts.nsOffset = some off) (k : Bytes)
    (hl : k.length ≤ off + 8) : d.isBanned k = false := by
  unfold Db.isBanned isBannedKey
  rw [h]; simp [hl]

theorem C28_ban_refused_without_namespaces (d : Db) (ns : Nat) (h : d.opts.nsOffset = none) :
    d.banNamespace ns = none := by
  unfold Db.banNamespace; rw [h]

/-- `BanNamespace(ns)` bans exactly the keys that carry `ns` (in addition to those banned before) -/
theorem C28_ban_bans (d d' : Db) (ns off : Nat) (ho : d.opts.nsOffset = some off)
    (h : d.banNamespace ns = some d') (k : Bytes) :
    d'.isBanned k = (d.isBanned k || (decide (off + 8 < k.length) && nsOf off k == ns)) := by
  unfold Db.banNamespace at h
  rw [ho] at h
  simp only [Option.some.injEq] at h
  subst h
  unfold Db.isBanned isBannedKey
  simp only [ho]
  by_cases hl : k.length ≤ off + 8
  · have : ¬ (off + 8 < k.length) := by omega
    simp [hl, this]
  · have : off + 8 < k.length := by omega
    simp only [hl, if_false, this, decide_true, Bool.true_and]
    by_cases hc : d.banned.contains ns = true
    · simp only [hc, if_true]
      by_cases he : nsOf off k = ns
      · subst he; simp [show nsOf off k ∈ d.banned by simpa using hc]
      · have : (nsOf off k == ns) = false := by simpa using he
        simp [this]
    · simp only [hc]
      simp only [Bool.false_eq_true, if_false, List.contains_cons]
      rw [Bool.or_comm]

/-- non-vacuity: a concrete database with namespace offset 1, namespace 7 banned: the key
    `x ‖ be64(7) ‖ a` is rejected by Set, refused by Get and hidden from the iterator while the same
    key in namespace 8 is served by all three -/
def nsExampleDb : Db :=
  let d0 := Db.init { nsOffset := some 1, maxBatchCount := 1000, maxBatchSize := 100000 } 0
  let (d1, _) := d0.begin 1 true 0
  let k7 : Bytes := [0x78] ++ beBytes 7 8 ++ [0x61]
  let k8 : Bytes := [0x78] ++ beBytes 8 8 ++ [0x61]
  let (d2, _) := d1.modifyNs 1 { key := k7, ver := 0, emeta := 0, umeta := 0, exp := 0, val := [1] }
  let (d3, _) := d2.modifyNs 1 { key := k8, ver := 0, emeta := 0, umeta := 0, exp := 0, val := [2] }
  let (d4, _) := d3.commit 1 0
  (d4.banNamespace 7).getD d4

def nsExampleTxn : Db := (nsExampleDb.begin 2 true 0).1
def nsK7 : Bytes := [0x78] ++ beBytes 7 8 ++ [0x61]
def nsK8 : Bytes := [0x78] ++ beBytes 8 8 ++ [0x61]

example :
    (nsExampleTxn.modifyNs 2 { key := nsK7, ver := 0, emeta := 0, umeta := 0, exp := 0, val := [3] }).2 = some .banned ∧
    (nsExampleTxn.modifyNs 2 { key := nsK8, ver := 0, emeta := 0, umeta := 0, exp := 0, val := [3] }).2 = none ∧
    (match (nsExampleTxn.txnGetNs 2 nsK7).2 with | .err _ => true | _ => false) = true ∧
    (match (nsExampleTxn.txnGetNs 2 nsK8).2 with | .found _ _ => true | _ => false) = true := by
  decide

example : (match nsExampleTxn.iteratePickedNs 2 {} none (fun _ => false) with
    | some l => l.map Ent.key | none => []) = [nsK8] := by decide +kernel

end Badger
