import BadgerModel.Key
import BadgerProofs.Lemmas.Bytes
/-!
# C20 — internal key encoding round-trips and orders correctly (keys part).
Header / ValueStruct / valuePointer round-trips are in `C20b.lean`.
-/
namespace Badger

theorem keyWithTs_length (k : Bytes) (ts : Nat) : (keyWithTs k ts).length = k.length + 8 := by
  simp [keyWithTs]

theorem take_keyWithTs (k : Bytes) (ts : Nat) :
    (keyWithTs k ts).take ((keyWithTs k ts).length - 8) = k := by
  simp [keyWithTs]

theorem drop_keyWithTs (k : Bytes) (ts : Nat) :
    (keyWithTs k ts).drop ((keyWithTs k ts).length - 8) = beBytes (maxU64 - ts) 8 := by
  simp [keyWithTs]

/-- `ParseKey (KeyWithTs k ts) = k` (for every key, including the empty one: the Go code
    returns an empty slice of a non-nil array). -/
theorem C20_parseKey_keyWithTs (k : Bytes) (ts : Nat) : parseKey (keyWithTs k ts) = k := by
  unfold parseKey
  rw [take_keyWithTs, keyWithTs_length, if_neg (by omega)]

/-- `ParseTs (KeyWithTs k ts) = ts` for every non-empty user key and every `uint64` version. -/
theorem C20_parseTs_keyWithTs (k : Bytes) (ts : Nat) (hk : k ≠ []) (hts : ts ≤ maxU64) :
    parseTs (keyWithTs k ts) = ts := by
  unfold parseTs
  have hl : ¬ (keyWithTs k ts).length ≤ 8 := by
    rw [keyWithTs_length]; cases k with
    | nil => exact absurd rfl hk
    | cons _ _ => simp
  rw [if_neg hl, drop_keyWithTs, beNat_beBytes _ _ (by unfold maxU64; omega)]
  unfold maxU64 at *; omega

/-- The documented exception: an empty user key parses to version 0 (`len(key) <= 8`). -/
theorem C20_parseTs_empty_key (ts : Nat) : parseTs (keyWithTs [] ts) = 0 := by
  simp [parseTs, keyWithTs]

/-- Order: by user key byte-wise ascending, then by version descending. -/
theorem C20_compareKeys_order (a b : Bytes) (s t : Nat) (hs : s ≤ maxU64) (ht : t ≤ maxU64) :
    compareKeys (keyWithTs a s) (keyWithTs b t) =
      (match cmpBytes a b with
       | .eq => compare t s
       | o => o) := by
  unfold compareKeys
  rw [take_keyWithTs, take_keyWithTs, drop_keyWithTs, drop_keyWithTs]
  cases h : cmpBytes a b with
  | lt => rfl
  | gt => rfl
  | eq =>
    simp only
    rw [cmpBytes_beBytes _ _ 8 (by unfold maxU64; omega) (by unfold maxU64; omega)]
    unfold maxU64 at *
    rcases Nat.lt_trichotomy s t with h' | h' | h'
    · rw [Nat.compare_eq_gt.mpr h', Nat.compare_eq_gt.mpr (by omega)]
    · rw [Nat.compare_eq_eq.mpr h'.symm, Nat.compare_eq_eq.mpr (by omega)]
    · rw [Nat.compare_eq_lt.mpr h', Nat.compare_eq_lt.mpr (by omega)]

/-- `SameKey` ignores exactly the version. -/
theorem C20_sameKey (a b : Bytes) (s t : Nat) :
    sameKey (keyWithTs a s) (keyWithTs b t) = (a == b) := by
  unfold sameKey
  rw [C20_parseKey_keyWithTs, C20_parseKey_keyWithTs, keyWithTs_length, keyWithTs_length]
  by_cases h : a = b
  · subst h; simp
  · have : (a == b) = false := by simpa using h
    rw [this]; split <;> rfl

/-- Encoded keys are equal iff user key and version are equal (injectivity). -/
theorem C20_keyWithTs_inj (a b : Bytes) (s t : Nat) (hs : s ≤ maxU64) (ht : t ≤ maxU64)
    (h : keyWithTs a s = keyWithTs b t) : a = b ∧ s = t := by
  have h1 : a = b := by
    have := congrArg parseKey h
    rwa [C20_parseKey_keyWithTs, C20_parseKey_keyWithTs] at this
  subst h1
  refine ⟨rfl, ?_⟩
  have h2 := congrArg (fun k => beNat (k.drop (k.length - 8))) h
  simp only [drop_keyWithTs] at h2
  rw [beNat_beBytes _ _ (by unfold maxU64; omega), beNat_beBytes _ _ (by unfold maxU64; omega)] at h2
  unfold maxU64 at *; omega

-- non-vacuity: concrete instance
example : compareKeys (keyWithTs [0x61] 5) (keyWithTs [0x61] 7) = .gt := by decide
example : compareKeys (keyWithTs [0x61] 5) (keyWithTs [0x61, 0x61] 7) = .lt := by decide

end Badger
