import BadgerModel.Mvcc
import BadgerProofs.Lemmas.Txn
import BadgerProofs.Props.C01
/-!
# C06 — values and metadata read back exactly as written, wherever they are stored

Model: `Db.lsmForm` is `writeToLSM` (db.go:799): an entry whose value is shorter than the
threshold (or any entry of an in-memory database) is stored inline, `meta &^ bitValuePointer`;
otherwise a value pointer is stored, `meta | bitValuePointer`. The model keeps the value bytes
in the entry in both cases (the value log is the identity on values; its encoding round trip is
C16/C20), so "reads back exactly" is: `commit` stores `finEnt … e`, which differs from `e` only
in the version (commit timestamp), the transaction bit and the value-pointer bit.

The threshold is static in the model (`Opts.threshold`, `VLogPercentile = 0`); the decision is
taken once per entry from `(len value, threshold, inMemory)` (`C06_threshold_cached`).
-/
namespace Badger

/-- `writeToLSM` changes only the value-pointer bit: key, version, user meta, expiry, value and
    every other meta bit (`2^i`, `i ≠ 1`) are preserved; the pointer bit is set iff
    `len(value) ≥ threshold` on an on-disk database. -/
theorem C06_lsmForm_fields (d : Db) (e : Ent) :
    (d.lsmForm e).key = e.key ∧ (d.lsmForm e).ver = e.ver ∧ (d.lsmForm e).umeta = e.umeta ∧
    (d.lsmForm e).exp = e.exp ∧ (d.lsmForm e).val = e.val ∧
    (∀ i, i ≠ 1 → hasBit (d.lsmForm e).emeta (2 ^ i) = hasBit e.emeta (2 ^ i)) ∧
    (hasBit (d.lsmForm e).emeta bitValuePointer = true ↔
      (d.opts.threshold ≤ e.val.length ∧ d.opts.inMemory = false)) := by
  unfold Db.lsmForm
  split
  · rename_i h
    refine ⟨rfl, rfl, rfl, rfl, rfl, fun i hi => hasBit_clearVP _ i hi, ?_⟩
    simp only [hasBit_clearBit_self_vp, Bool.false_eq_true, false_iff]
    simp only [Bool.or_eq_true, decide_eq_true_eq] at h
    rcases h with h | h
    · omega
    · simp [h]
  · rename_i h
    refine ⟨rfl, rfl, rfl, rfl, rfl, fun i hi => hasBit_setVP _ i hi, ?_⟩
    simp only [hasBit_setBit_self_vp, true_iff]
    simp only [Bool.or_eq_true, decide_eq_true_eq, not_or, Bool.not_eq_true] at h
    exact ⟨by omega, h.2⟩

/-- The named flags of the public `Item` API survive `writeToLSM`. -/
theorem C06_lsmForm_flags (d : Db) (e : Ent) :
    hasBit (d.lsmForm e).emeta bitDelete = hasBit e.emeta bitDelete ∧
    hasBit (d.lsmForm e).emeta bitDiscardEarlier = hasBit e.emeta bitDiscardEarlier ∧
    hasBit (d.lsmForm e).emeta bitMerge = hasBit e.emeta bitMerge ∧
    hasBit (d.lsmForm e).emeta bitTxn = hasBit e.emeta bitTxn ∧
    hasBit (d.lsmForm e).emeta bitFinTxn = hasBit e.emeta bitFinTxn := by
  have h := (C06_lsmForm_fields d e).2.2.2.2.2.1
  exact ⟨h 0 (by decide), h 2 (by decide), h 3 (by decide), h 6 (by decide), h 7 (by decide)⟩

/-- One decision per entry: the inline/pointer choice is a function of the value length, the
    threshold and the in-memory flag only — the same test (`len(value) < threshold`) that
    `estimateSizeAndSetThreshold` used when the entry was accepted. -/
theorem C06_threshold_cached (d : Db) (e1 e2 : Ent) (h : e1.val.length = e2.val.length) :
    hasBit (d.lsmForm e1).emeta bitValuePointer = hasBit (d.lsmForm e2).emeta bitValuePointer ∧
    (estimateSize d.opts.threshold e1 - e1.key.length = estimateSize d.opts.threshold e2 - e2.key.length) ∧
    (d.opts.inMemory = false →
      ((estimateSize d.opts.threshold e1 = e1.key.length + 12 + 2 ∧ d.opts.threshold ≤ e1.val.length) ↔
        hasBit (d.lsmForm e1).emeta bitValuePointer = true)) := by
  have h1 := (C06_lsmForm_fields d e1).2.2.2.2.2.2
  have h2 := (C06_lsmForm_fields d e2).2.2.2.2.2.2
  refine ⟨?_, ?_, ?_⟩
  · rw [Bool.eq_iff_iff, h1, h2, h]
  · unfold estimateSize; rw [h]; split <;> omega
  · intro hm
    rw [h1]
    unfold estimateSize
    constructor
    · rintro ⟨-, h3⟩; exact ⟨h3, hm⟩
    · rintro ⟨h3, -⟩
      rw [if_neg (by omega)]
      exact ⟨rfl, h3⟩

/-! ## what `commit` stores -/

theorem finEnt_key (d : Db) (keep : Bool) (cts : Nat) (e : Ent) : (finEnt d keep cts e).key = e.key := by
  unfold finEnt
  rw [(C06_lsmForm_fields d _).1]
  split <;> split <;> rfl

theorem finEnt_ver (d : Db) (keep : Bool) (cts : Nat) (e : Ent) :
    (finEnt d keep cts e).ver = if e.ver = 0 then cts else e.ver := by
  unfold finEnt
  rw [(C06_lsmForm_fields d _).2.1]
  by_cases h : e.ver = 0 <;> cases keep <;> simp [h]

/-- The stored form of a committed entry: exactly the written value, user meta, expiry and
    delete / discard-earlier-versions / merge flags; version = the commit timestamp (or the
    entry's own non-zero version). -/
theorem C06_finEnt_fields (d : Db) (keep : Bool) (cts : Nat) (e : Ent) :
    (finEnt d keep cts e).key = e.key ∧
    (finEnt d keep cts e).ver = (if e.ver = 0 then cts else e.ver) ∧
    (finEnt d keep cts e).val = e.val ∧ (finEnt d keep cts e).umeta = e.umeta ∧
    (finEnt d keep cts e).exp = e.exp ∧
    hasBit (finEnt d keep cts e).emeta bitDelete = hasBit e.emeta bitDelete ∧
    hasBit (finEnt d keep cts e).emeta bitDiscardEarlier = hasBit e.emeta bitDiscardEarlier ∧
    hasBit (finEnt d keep cts e).emeta bitMerge = hasBit e.emeta bitMerge := by
  refine ⟨finEnt_key .., finEnt_ver .., ?_, ?_, ?_, ?_, ?_, ?_⟩
  all_goals unfold finEnt
  · rw [(C06_lsmForm_fields d _).2.2.2.2.1]; split <;> split <;> rfl
  · rw [(C06_lsmForm_fields d _).2.2.1]; split <;> split <;> rfl
  · rw [(C06_lsmForm_fields d _).2.2.2.1]; split <;> split <;> rfl
  · rw [(C06_lsmForm_flags d _).1]
    cases keep
    · simp only [Bool.false_eq_true, if_false]; split <;> rfl
    · simp only [if_true]; rw [hasBit_setTxn _ bitDelete (.inl rfl)]; split <;> rfl
  · rw [(C06_lsmForm_flags d _).2.1]
    cases keep
    · simp only [Bool.false_eq_true, if_false]; split <;> rfl
    · simp only [if_true]; rw [hasBit_setTxn _ bitDiscardEarlier (.inr (.inr (.inl rfl)))]; split <;> rfl
  · rw [(C06_lsmForm_flags d _).2.2.1]
    cases keep
    · simp only [Bool.false_eq_true, if_false]; split <;> rfl
    · simp only [if_true]; rw [hasBit_setTxn _ bitMerge (.inr (.inr (.inr rfl)))]; split <;> rfl

/-- Every pending write is in the memtable after the commit, in its stored form — whatever the
    duplicate writes are: `commitAndSend` emits `duplicateWrites` first, so a pending write
    overwrites an older duplicate of the same `(key, version)` (the order fixed for finding F8). -/
theorem C06_commit_pending_stored (d : Db) (id mts cts : Nat) (t : TxnM) (e : Ent)
    (hf : d.findTxn id = some t) (hok : (d.commit id mts).2 = .ok cts)
    (he : e ∈ t.pending) (hpk : t.pending.Pairwise (fun a b => a.key ≠ b.key)) :
    finEnt d (keepTogetherOf t) cts e ∈ (d.commit id mts).1.lsm.mem := by
  obtain ⟨t', hf', hg, hcts⟩ := commit_ok_inv hok
  rw [hf] at hf'; injection hf' with hf'; subst hf'
  have hl := (commit_goes mts hf hg).2.1
  rw [← hcts] at hl
  rw [hl]
  simp only [commitEntries, List.map_append, List.foldl_append]
  apply mem_foldl_memPut_of_distinct
  · rw [List.pairwise_map]
    refine hpk.imp ?_
    intro a b hab hc
    rw [finEnt_key, finEnt_key] at hc
    exact hab hc.1
  · exact List.mem_map_of_mem he

/-- After a successful commit, the newest version `≤ ts'` of a written key is the stored form of
    the transaction's pending entry, for every `ts'` from its version on, as long as nothing
    newer was there ("no later write to the key"). Hypotheses: the pending map has one entry
    per key (an invariant — `C06_pending_keys_distinct`) and the transaction holds no duplicate
    write (`SetEntryAt` with another version) for this key. -/
theorem C06_commit_newest (d : Db) (id mts cts ts' : Nat) (t : TxnM) (e : Ent)
    (hf : d.findTxn id = some t) (hok : (d.commit id mts).2 = .ok cts)
    (he : e ∈ t.pending) (hd : ∀ x ∈ t.dups, x.key ≠ e.key)
    (hpk : t.pending.Pairwise (fun a b => a.key ≠ b.key))
    (hold : ∀ x ∈ d.lsm.allEntries, x.key = e.key → x.ver < (if e.ver = 0 then cts else e.ver))
    (hts : (if e.ver = 0 then cts else e.ver) ≤ ts') :
    newestLE (d.commit id mts).1.lsm.allEntries e.key ts' =
      some (finEnt d (keepTogetherOf t) cts e) := by
  have hstored := C06_commit_pending_stored d id mts cts t e hf hok he hpk
  obtain ⟨t', hf', hg, hcts⟩ := commit_ok_inv hok
  rw [hf] at hf'; injection hf' with hf'; subst hf'
  have hl := (commit_goes mts hf hg).2.1
  rw [← hcts] at hl
  rw [hl] at hstored
  rw [hl, allEntries_eq, restEntries_mem]
  simp only at hstored ⊢
  apply newestLE_unique_max
  · exact List.mem_append_left _ hstored
  · exact finEnt_key ..
  · rw [finEnt_ver]; exact hts
  · intro y hy hyk hyv
    rw [finEnt_ver]
    have hrest : y ∈ d.lsm.mem ∨ y ∈ d.lsm.restEntries →
        y.ver < (if e.ver = 0 then cts else e.ver) := by
      intro h
      apply hold y _ hyk
      rw [allEntries_eq]
      rcases h with h | h
      · exact List.mem_append_left _ h
      · exact List.mem_append_right _ h
    rcases List.mem_append.mp hy with hy | hy
    · rcases mem_foldl_memPut hy with hy | hy
      · obtain ⟨e', he', rfl⟩ := mem_commitEntries.mp hy
        rw [finEnt_key] at hyk
        rcases List.mem_append.mp he' with he' | he'
        · have := pairwise_key_inj hpk he' he hyk
          subst this
          exact .inl rfl
        · exact absurd hyk (hd e' he')
      · exact .inr (hrest (.inl hy))
    · exact .inr (hrest (.inr hy))

/-- The pending map has one entry per key: established by `begin`, preserved by `modify`. -/
theorem C06_pending_keys_distinct (d : Db) (id : Nat) (t : TxnM) (e : Ent)
    (hf : d.findTxn id = some t) (hpk : t.pending.Pairwise (fun a b => a.key ≠ b.key)) :
    ∀ t', (d.modify id e).1.findTxn id = some t' → t'.pending.Pairwise (fun a b => a.key ≠ b.key) := by
  intro t' ht'
  rw [modify_eq e hf] at ht'
  cases hc : modCheck d t e with
  | some err => rw [hc] at ht'; simp only at ht'; rw [hf] at ht'; injection ht' with ht'; subst ht'; exact hpk
  | none =>
    rw [hc] at ht'
    simp only at ht'
    have hid : t.id = id := findTxn_id hf
    have := findTxn_setTxn_self d (modTxn d t e)
    rw [show (modTxn d t e).id = id from hid, ht'] at this
    injection this with this
    subst this
    simp only [modTxn]
    rw [List.pairwise_append]
    refine ⟨hpk.sublist List.filter_sublist, List.pairwise_singleton .., ?_⟩
    intro a ha b hb
    simp only [List.mem_filter, bne_iff_ne, ne_eq] at ha
    simp only [List.mem_singleton] at hb
    subst hb
    exact ha.2

/-- Read back through `DB.get` (any read-timestamp from the commit on, nothing newer written):
    given the snapshot-read theorem C01 for the post-commit state (`hget`, provided by
    `C01_get_spec` under the LSM invariant), the entry read has exactly the written value,
    user meta, expiry, version and flags. -/
theorem C06_commit_then_get (d : Db) (id mts cts ts' : Nat) (t : TxnM) (e : Ent)
    (hf : d.findTxn id = some t) (hok : (d.commit id mts).2 = .ok cts)
    (he : e ∈ t.pending) (hd : ∀ x ∈ t.dups, x.key ≠ e.key)
    (hpk : t.pending.Pairwise (fun a b => a.key ≠ b.key))
    (hold : ∀ x ∈ d.lsm.allEntries, x.key = e.key → x.ver < (if e.ver = 0 then cts else e.ver))
    (hts : (if e.ver = 0 then cts else e.ver) ≤ ts')
    (hget : (d.commit id mts).1.lsm.get e.key ts' =
      newestLE (d.commit id mts).1.lsm.allEntries e.key ts') :
    ∃ r, (d.commit id mts).1.lsm.get e.key ts' = some r ∧
      r.key = e.key ∧ r.ver = (if e.ver = 0 then cts else e.ver) ∧ r.val = e.val ∧
      r.umeta = e.umeta ∧ r.exp = e.exp ∧
      hasBit r.emeta bitDelete = hasBit e.emeta bitDelete ∧
      hasBit r.emeta bitDiscardEarlier = hasBit e.emeta bitDiscardEarlier ∧
      hasBit r.emeta bitMerge = hasBit e.emeta bitMerge := by
  rw [hget, C06_commit_newest d id mts cts ts' t e hf hok he hd hpk hold hts]
  exact ⟨_, rfl, C06_finEnt_fields d (keepTogetherOf t) cts e⟩

/-- The same with the snapshot-read theorem C01 plugged in: it suffices that the post-commit
    LSM state satisfies the structural invariant `LsmInv` (C14). -/
theorem C06_commit_then_get_inv (d : Db) (id mts cts ts' : Nat) (t : TxnM) (e : Ent)
    (hf : d.findTxn id = some t) (hok : (d.commit id mts).2 = .ok cts)
    (he : e ∈ t.pending) (hd : ∀ x ∈ t.dups, x.key ≠ e.key)
    (hpk : t.pending.Pairwise (fun a b => a.key ≠ b.key))
    (hold : ∀ x ∈ d.lsm.allEntries, x.key = e.key → x.ver < (if e.ver = 0 then cts else e.ver))
    (hts : (if e.ver = 0 then cts else e.ver) ≤ ts')
    (hinv : LsmInv (d.commit id mts).1.lsm) :
    ∃ r, (d.commit id mts).1.lsm.get e.key ts' = some r ∧
      r.key = e.key ∧ r.ver = (if e.ver = 0 then cts else e.ver) ∧ r.val = e.val ∧
      r.umeta = e.umeta ∧ r.exp = e.exp ∧
      hasBit r.emeta bitDelete = hasBit e.emeta bitDelete ∧
      hasBit r.emeta bitDiscardEarlier = hasBit e.emeta bitDiscardEarlier ∧
      hasBit r.emeta bitMerge = hasBit e.emeta bitMerge :=
  C06_commit_then_get d id mts cts ts' t e hf hok he hd hpk hold hts (C01_get_spec hinv e.key ts')

-- non-vacuity: a value at the threshold goes to the value log (pointer bit), one below stays
-- inline; in memory never; commit + get returns what was written.
example :
    let d : Db := Db.init { threshold := 2 } 0
    let e1 : Ent := { key := [1], ver := 0, emeta := 4, umeta := 9, exp := 77, val := [5, 6] }
    let e2 : Ent := { key := [1], ver := 0, emeta := 4, umeta := 9, exp := 77, val := [5] }
    hasBit (d.lsmForm e1).emeta bitValuePointer = true ∧
    hasBit (d.lsmForm e2).emeta bitValuePointer = false ∧
    hasBit (d.lsmForm e1).emeta bitDiscardEarlier = true := by decide

example :
    let d0 := Db.init { maxBatchCount := 100, maxBatchSize := 100000, threshold := 2 } 0
    let d1 := (d0.begin 1 true 0).1
    let e : Ent := { key := [0x61], ver := 0, emeta := 4, umeta := 7, exp := 0, val := [1, 2] }
    let d2 := (d1.modify 1 e).1
    let r := d2.commit 1 0
    (match r.2 with | .ok ts => ts == 1 | _ => false) = true ∧
    (match r.1.lsm.get [0x61] 1 with
      | some x => x.val == [1, 2] && x.umeta == 7 && x.ver == 1 && hasBit x.emeta bitDiscardEarlier
      | none => false) = true := by decide

end Badger
