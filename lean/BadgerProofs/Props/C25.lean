import BadgerModel.Stream
import BadgerProofs.Lemmas.StreamOrd
import BadgerProofs.Lemmas.StreamL
/-!
# C25 — a Stream run emits each chosen key exactly once, from one snapshot (stream.go)
-/
namespace Badger

/-! ## Specification side -/

/-- visibility of an entry to an `AllVersions` iterator at `ts` with `SinceTs = since`
    (`parseItem`: internal `!badger!` keys are skipped, versions above the read timestamp and
    at or below `SinceTs` are skipped). -/
def streamVis (since ts : Nat) (e : Ent) : Bool :=
  !(badgerPrefix.isPrefixOf e.ikey) && !(e.ver > ts || (since > 0 && e.ver ≤ since))

/-- ONE snapshot at `ts`: every entry with the prefix that a reader at `ts` sees, in
    internal-key order (user key ascending, newest version first). -/
def snapshotView (merged : List Ent) (pfx : Bytes) (since ts : Nat) : List Ent :=
  merged.filter (fun e => pfx.isPrefixOf e.key && streamVis since ts e)

/-- what the run must deliver for user key `k`: nothing when the snapshot has no version of
    `k` or `ChooseKey` rejects its newest version, else `KeyToList` of its versions. -/
def specEmit (cfg : StreamCfg) (view : List Ent) (k : Bytes) : List Ent :=
  match view.filter (fun e => e.key == k) with
  | [] => []
  | e :: g => if cfg.choose e then (cfg.ktl k (e :: g)).getD [] else []

/-- the retained-versions prefix `ToList` is specified to return for the versions `g` of one
    key (newest first): the live versions before the first deleted/expired one, cut after the
    first discard-earlier entry, and only the newest when one version is kept. -/
def retainedSpec (numKeep now : Nat) (g : List Ent) : List Ent :=
  let live := g.takeWhile (fun e => !deletedOrExpired e.emeta e.exp now)
  let cut := match live.findIdx? (fun e => hasBit e.emeta bitDiscardEarlier) with
    | some i => live.take (i + 1)
    | none => live
  if numKeep == 1 then cut.take 1 else cut

/-- the KV `ToList` builds from an item -/
def toKV (e : Ent) : Ent := { key := e.key, ver := e.ver, emeta := 0, umeta := e.umeta, exp := e.exp, val := e.val }

/-- `KeyToList` contract (stream.go: "the user MUST immediately return from this function on the
    first encounter with a mismatching key"): the result depends only on the leading run of
    versions of `key`, and every KV carries `key`. -/
def KtlLocal (ktl : Bytes → List Ent → Option (List Ent)) : Prop :=
  (∀ k g rest, (∀ e ∈ g, e.key = k) → (∀ e, rest.head? = some e → e.key ≠ k) → ktl k (g ++ rest) = ktl k g) ∧
  (∀ k it l, ktl k it = some l → ∀ e ∈ l, e.key = k)

open SO SL

/-! ## Example data (non-vacuity instances, F7 witness) -/

/-- a sum-preserving transfer `a: 10 → 9`, `b: 10 → 11` committed at version 2 -/
def f7Merged : List Ent :=
  [ { key := [0x61], ver := 2, emeta := 64, umeta := 0, exp := 0, val := [9] },
    { key := [0x61], ver := 1, emeta := 64, umeta := 0, exp := 0, val := [10] },
    { key := [0x62], ver := 2, emeta := 64, umeta := 0, exp := 0, val := [11] },
    { key := [0x62], ver := 1, emeta := 64, umeta := 0, exp := 0, val := [10] } ]

/-! ## Theorems -/

/-- C25_partition: for ANY list of split points (sorted by `DB.Ranges`; duplicates allowed;
    every split point is non-empty — split points are internal keys, at least 8 bytes long)
    every user key lies in exactly one of the consecutive half-open ranges. -/
theorem C25_partition (splits : List Bytes) (hne : ∀ s ∈ splits, s ≠ []) (k : Bytes) :
    ((splitRanges splits).filter (fun r => r.contains k)).length = 1 :=
  splitRanges_count splits hne k

example : (∀ s ∈ [[0x62, 0x01], [0x61], [0x62, 0x01]], s ≠ ([] : Bytes)) ∧
    (splitRanges [[0x62, 0x01], [0x61], [0x62, 0x01]]).length = 4 := by decide

/-! ### `ToList` -/

/-- the cut of `retainedSpec` written as a recursion -/
private theorem cut_cons (p : Ent → Bool) (e : Ent) (l : List Ent) :
    (match (e :: l).findIdx? p with | some i => (e :: l).take (i + 1) | none => e :: l) =
      e :: (if p e then [] else match l.findIdx? p with | some i => l.take (i + 1) | none => l) := by
  rw [List.findIdx?_cons]
  by_cases h : p e
  · simp [h]
  · simp only [h, Bool.false_eq_true, if_false]
    cases l.findIdx? p <;> simp

/-- C25_tolist_spec: `ToList` on the versions of one key = the retained-versions prefix. -/
theorem C25_tolist_spec (numKeep now : Nat) (k : Bytes) (g : List Ent) (hg : ∀ e ∈ g, e.key = k) :
    toList numKeep now k g = (retainedSpec numKeep now g).map toKV := by
  induction g with
  | nil => simp [toList, retainedSpec]
  | cons e rest ih =>
    have hk : e.key = k := hg e (by simp)
    have ih' := ih (fun x hx => hg x (List.mem_cons_of_mem _ hx))
    have hkv : ({ key := k, ver := e.ver, emeta := 0, umeta := e.umeta, exp := e.exp, val := e.val } : Ent) = toKV e := by
      simp [toKV, hk]
    unfold retainedSpec at ih' ⊢
    simp only [toList, hkv]
    by_cases hd : deletedOrExpired e.emeta e.exp now = true
    · simp [hd]
    · have hd' : deletedOrExpired e.emeta e.exp now = false := by simpa using hd
      have hne : (e.key != k) = false := by simp [hk]
      simp only [hd', hne, Bool.false_eq_true, if_false, List.takeWhile_cons, Bool.not_false, if_true]
      rw [cut_cons]
      by_cases h1 : (numKeep == 1) = true
      · simp [h1]
      · simp only [h1, Bool.false_eq_true, if_false] at ih' ⊢
        by_cases hb : hasBit e.emeta bitDiscardEarlier = true
        · simp [hb]
        · simp only [hb, Bool.false_eq_true, if_false, List.map_cons]
          rw [ih']

example : (∀ e ∈ f7Merged.take 2, e.key = [0x61]) ∧ toList 2 0 [0x61] (f7Merged.take 2) ≠ [] := by decide

/-- `ToList` honours the `KeyToList` contract. -/
theorem C25_toList_local (numKeep now : Nat) : KtlLocal (fun k it => some (toList numKeep now k it)) := by
  constructor
  · intro k g rest hg hr
    simp only [Option.some.injEq]
    induction g with
    | nil =>
      cases rest with
      | nil => rfl
      | cons e r =>
        have : e.key ≠ k := hr e rfl
        simp only [List.nil_append, toList]
        split
        · rfl
        · simp [this]
    | cons e g ih =>
      have ih' := ih (fun x hx => hg x (List.mem_cons_of_mem _ hx))
      simp only [List.cons_append, toList, ih']
  · intro k it l h e he
    simp only [Option.some.injEq] at h
    subst h
    induction it with
    | nil => simp [toList] at he
    | cons x xs ih =>
      simp only [toList] at he
      split at he
      · simp at he
      · split at he
        · simp at he
        · split at he
          · simp at he; rw [he]
          · split at he
            · simp at he; rw [he]
            · rcases List.mem_cons.mp he with h | h
              · rw [h]
              · exact ih h

example : KtlLocal (fun k it => some (toList 1 0 k it)) ∧ toList 1 0 [0x61] f7Merged ≠ [] :=
  ⟨C25_toList_local 1 0, by decide⟩

/-! ### the iterator of one producer -/

namespace C25L

/-- the `AllVersions` iterator with a prefix: scan to the first key without the prefix, keep
    the visible entries -/
theorem parseItems_stream (pfx : Bytes) (since ts now : Nat) (fuel : Nat) (lk : Option Bytes) (rem : List Ent)
    (hf : rem.length ≤ fuel) :
    parseItems { allVersions := true, prefix_ := pfx, sinceTs := since } ts now fuel lk rem =
      (rem.takeWhile (fun e => pfx.isPrefixOf e.key)).filter (streamVis since ts) := by
  induction rem generalizing fuel with
  | nil => cases fuel <;> simp [parseItems]
  | cons e rest ih =>
    cases fuel with
    | zero => simp at hf
    | succ fuel =>
      have ih' := ih fuel (by simpa using hf)
      simp only [parseItems, Bool.not_false, Bool.true_and]
      by_cases hp : pfx.isPrefixOf e.key = true
      · have hc : (!pfx.isEmpty && !pfx.isPrefixOf e.key) = false := by simp [hp]
        rw [hc]
        simp only [Bool.false_eq_true, if_false, List.takeWhile_cons, hp, if_true, List.filter_cons]
        by_cases hi : badgerPrefix.isPrefixOf e.ikey = true
        · have hvis : streamVis since ts e = false := by simp [streamVis, hi]
          simp only [hi, hvis, if_true, Bool.false_eq_true, if_false]
          exact ih'
        · by_cases hv : (decide (e.ver > ts) || (decide (since > 0) && decide (e.ver ≤ since))) = true
          · have hvis : streamVis since ts e = false := by
              unfold streamVis; rw [hv]; simp
            simp only [hi, hv, hvis, Bool.false_eq_true, if_false, if_true]
            exact ih'
          · have hvis : streamVis since ts e = true := by
              unfold streamVis
              have hi' : badgerPrefix.isPrefixOf e.ikey = false := Bool.eq_false_iff.mpr hi
              have hv' : (decide (e.ver > ts) || (decide (since > 0) && decide (e.ver ≤ since))) = false :=
                Bool.eq_false_iff.mpr hv
              rw [hi', hv']; rfl
            simp only [hi, hv, hvis, Bool.false_eq_true, if_false, if_true]
            rw [ih']
      · have hne : pfx.isEmpty = false := by
          cases pfx with
          | nil => simp [List.isPrefixOf] at hp
          | cons _ _ => rfl
        simp [hne, hp]

/-- the entries a forward seek to `(key, ts)` skips are, as far as visible, strictly below `key` -/
theorem seek_dropped_lt (key : Bytes) (since ts : Nat) (l : List Ent) :
    ∀ e ∈ l.takeWhile (fun e => kvCmp e.key e.ver key ts == .lt), streamVis since ts e = true → klt e.key key := by
  intro e he hv
  have := mem_takeWhile_imp he
  simp only [beq_iff_eq] at this
  rcases (kvCmp_lt_iff _ _ _ _).mp this with h | ⟨_, h⟩
  · exact h
  · exfalso
    unfold streamVis at hv
    have : decide (e.ver > ts) = true := by simpa using h
    rw [this] at hv; simp at hv

/-- the common part of `C25_rangeItems_eq`: seek to a key `≥ pfx`, scan the prefix block -/
theorem seek_view (merged : List Ent) (hs : SortedEnts merged) (pfx : Bytes) (since ts : Nat) (key : Bytes)
    (hk : ¬ klt key pfx) :
    let p := fun (e : Ent) => kvCmp e.key e.ver key ts == .lt
    let f := fun (e : Ent) => pfx.isPrefixOf e.key && streamVis since ts e
    (((merged.dropWhile p).takeWhile (fun e => pfx.isPrefixOf e.key)).filter (streamVis since ts) =
        (merged.dropWhile p).filter f) ∧
    snapshotView merged pfx since ts = (merged.takeWhile p).filter f ++ (merged.dropWhile p).filter f ∧
    (∀ e ∈ (merged.takeWhile p).filter f, klt e.key key) ∧
    (∀ e ∈ (merged.dropWhile p).filter f, ¬ klt e.key key) := by
  intro p f
  have hge := dropWhile_seek_ge key ts merged hs
  refine ⟨?_, ?_, ?_, ?_⟩
  · exact takeWhile_prefix_filter pfx _ _ (dropWhile_sorted hs) (fun e he => le_trans hk (hge e he))
  · unfold snapshotView
    rw [← List.filter_append, List.takeWhile_append_dropWhile]
  · intro e he
    obtain ⟨h1, h2⟩ := List.mem_filter.mp he
    simp only [f, Bool.and_eq_true] at h2
    exact seek_dropped_lt key since ts merged e h1 h2.2
  · intro e he
    exact hge e (List.mem_filter.mp he).1

theorem validPrefix_id (pfx : Bytes) (since : Nat) (v : Ent → Bool) (R : List Ent) :
    validPrefix { allVersions := true, prefix_ := pfx, sinceTs := since }
      ((R.takeWhile (fun e => pfx.isPrefixOf e.key)).filter v) =
      (R.takeWhile (fun e => pfx.isPrefixOf e.key)).filter v := by
  unfold validPrefix
  apply takeWhile_all
  intro e he
  have := mem_takeWhile_imp (List.mem_filter.mp he).1
  simpa using this

end C25L

open C25L in
/-- C25_rangeItems_eq: the iterator of a producer = the snapshot view from `left` on. -/
theorem C25_rangeItems_eq (merged : List Ent) (hs : SortedEnts merged) (pfx : Bytes) (since ts now : Nat)
    (left : Bytes) (hl : left = [] ∨ pfx.isPrefixOf left = true) :
    rangeItems merged pfx since ts now left =
      (snapshotView merged pfx since ts).dropWhile (fun e => cmpBytes e.key left == .lt) := by
  unfold rangeItems
  simp only
  rw [parseItems_stream _ _ _ _ _ _ _ (by omega), validPrefix_id]
  by_cases hle : left = []
  · subst hle
    have hq : ∀ l : List Ent, l.dropWhile (fun e => cmpBytes e.key [] == .lt) = l := by
      intro l; apply dropWhile_none; intro x _
      have := not_klt_nil x.key
      unfold klt at this; simp [this]
    rw [hq]
    by_cases hpe : pfx = []
    · subst hpe
      simp only [seekList, List.isEmpty_nil, if_true, Bool.false_eq_true, if_false]
      exact takeWhile_prefix_filter [] _ _ hs (fun e _ => not_klt_nil _)
    · have hne : pfx.isEmpty = false := by cases pfx <;> simp_all
      simp only [seekList, List.isEmpty_nil, if_true, hne, Bool.false_eq_true, if_false, Bool.not_false]
      obtain ⟨h1, h2, h3, _⟩ := seek_view merged hs pfx since ts pfx (klt_irrefl _)
      rw [h1, h2]
      have : (merged.takeWhile (fun e => kvCmp e.key e.ver pfx ts == .lt)).filter
          (fun e => pfx.isPrefixOf e.key && streamVis since ts e) = [] := by
        rw [List.filter_eq_nil_iff]
        intro e he hc
        have hlt := h3 e (List.mem_filter.mpr ⟨he, hc⟩)
        simp only [Bool.and_eq_true] at hc
        exact prefix_ge hc.1 hlt
      rw [this, List.nil_append]
  · have hpl : pfx.isPrefixOf left = true := by
      rcases hl with h | h
      · exact absurd h hle
      · exact h
    have hne : left.isEmpty = false := by cases left <;> simp_all
    simp only [seekList, hne, Bool.false_eq_true, if_false, Bool.not_false, if_true]
    obtain ⟨h1, h2, h3, h4⟩ := seek_view merged hs pfx since ts left (prefix_ge hpl)
    rw [h1, h2, dropWhile_append_all _ _ _ (fun e he => by simpa [klt] using h3 e he)]
    symm
    apply dropWhile_none
    intro e he
    have := h4 e he
    unfold klt at this; simp [this]

example : SortedEnts f7Merged ∧ (([0x62] : Bytes) = [] ∨ ([] : Bytes).isPrefixOf [0x62] = true) ∧
    rangeItems f7Merged [] 0 1 0 [0x62] ≠ [] := by
  unfold SortedEnts; decide

/-- the same with a non-empty prefix and a seek key that carries it -/
example : (([0x62] : Bytes) = [] ∨ ([0x62] : Bytes).isPrefixOf [0x62] = true) ∧
    (rangeItems f7Merged [0x62] 0 2 0 [0x62]).length = 2 := by decide

/-! ### one view, many ranges -/

/-- C25_concat: with all producers reading at ONE timestamp, the outputs of the ranges of any
    split, concatenated in range order, are the output of a single unsplit run. -/
theorem C25_concat (merged : List Ent) (hs : SortedEnts merged) (cfg : StreamCfg) (ts now : Nat)
    (splits : List Bytes) (hne : ∀ s ∈ splits, s ≠ []) (hpfx : ∀ s ∈ splits, cfg.prefix_.isPrefixOf s) :
    ((splitRanges splits).map (produceRange merged cfg ts now)).flatten =
      produceRange merged cfg ts now { left := [], right := [] } := by
  have hV := fun left hl => C25_rangeItems_eq merged hs cfg.prefix_ cfg.sinceTs ts now left hl
  have hmap : (splitRanges splits).map (produceRange merged cfg ts now) =
      (splitRanges splits).map (fun r => produceLoop cfg r.right none
        ((snapshotView merged cfg.prefix_ cfg.sinceTs ts).dropWhile (fun e => cmpBytes e.key r.left == .lt))) := by
    apply List.map_congr_left
    intro r hr
    unfold produceRange
    rw [hV]
    rcases mem_rangesFrom_left hr with h | h
    · exact .inl h
    · exact .inr (hpfx _ (mem_sortBytes.mp h))
  rw [hmap]
  unfold splitRanges
  rw [ranges_concat cfg _ [] _ (sorted_sortBytes _) (fun s _ => not_klt_nil s)
    (fun s h => hne s (mem_sortBytes.mp h))]
  unfold produceRange
  rw [hV [] (.inl rfl)]

example : SortedEnts f7Merged ∧ (∀ s ∈ [[0x62], [0x61, 0x00]], s ≠ ([] : Bytes)) ∧
    (∀ s ∈ [[0x62], [0x61, 0x00]], ([] : Bytes).isPrefixOf s) ∧
    ((splitRanges [[0x62], [0x61, 0x00]]).map (produceRange f7Merged (toListCfg 1 0 [] 0 (fun _ => true)) 2 0)).flatten.length = 2 := by
  unfold SortedEnts; decide

/-! ### per-key content of an unsplit run -/

namespace C25L

theorem specEmit_cons_ne (cfg : StreamCfg) (e : Ent) (rest : List Ent) (k : Bytes) (h : e.key ≠ k) :
    specEmit cfg (e :: rest) k = specEmit cfg rest k := by
  unfold specEmit
  have : (e.key == k) = false := by simpa using h
  simp only [List.filter_cons, this, Bool.false_eq_true, if_false]

theorem specEmit_none (cfg : StreamCfg) (V : List Ent) (k : Bytes) (h : ∀ e ∈ V, e.key ≠ k) :
    specEmit cfg V k = [] := by
  unfold specEmit
  have : V.filter (fun e => e.key == k) = [] := by
    rw [List.filter_eq_nil_iff]; intro e he hc; exact h e he (by simpa using hc)
  rw [this]

/-- at the first version of a key in a key-sorted view the loop emits what the specification
    prescribes for that key (this is where the `KeyToList` contract is used) -/
theorem specEmit_cons_eq (cfg : StreamCfg) (hk : KtlLocal cfg.ktl) (e : Ent) (rest : List Ent)
    (hs : KeySorted (e :: rest)) : specEmit cfg (e :: rest) e.key = emitKey cfg e rest := by
  obtain ⟨h1, h2⟩ := List.pairwise_cons.mp hs
  unfold specEmit emitKey
  simp only [List.filter_cons, beq_self_eq_true, if_true]
  rw [filter_key_eq_takeWhile e.key rest h2 h1]
  have hsplit : e :: rest = (e :: rest.takeWhile (fun x => x.key == e.key)) ++ rest.dropWhile (fun x => x.key == e.key) := by
    rw [List.cons_append, List.takeWhile_append_dropWhile]
  have := hk.1 e.key (e :: rest.takeWhile (fun x => x.key == e.key)) (rest.dropWhile (fun x => x.key == e.key))
    (by
      intro x hx
      rcases List.mem_cons.mp hx with rfl | hx
      · rfl
      · simpa using mem_takeWhile_imp hx)
    (by
      intro x hx
      have := head_dropWhile _ _ _ hx
      simpa using this)
  rw [← hsplit] at this
  rw [this]

theorem emitKey_filter (cfg : StreamCfg) (hk : KtlLocal cfg.ktl) (e : Ent) (rest : List Ent) (k : Bytes) :
    (emitKey cfg e rest).filter (fun x => x.key == k) = if e.key = k then emitKey cfg e rest else [] := by
  unfold emitKey
  by_cases hc : cfg.choose e = true
  · simp only [hc, if_true]
    cases hl : cfg.ktl e.key (e :: rest) with
    | none => simp
    | some l =>
      have hall := hk.2 _ _ _ hl
      simp only [Option.getD_some]
      by_cases hek : e.key = k
      · simp only [hek, if_true]
        rw [List.filter_eq_self]
        intro x hx; simp [hall x hx, hek]
      · simp only [hek, if_false]
        rw [List.filter_eq_nil_iff]
        intro x hx; simp [hall x hx, hek]
  · simp [hc]

/-- the unbounded loop over a key-sorted view delivers, for every key `k`, exactly `specEmit` —
    unless `k` is the key the loop has just finished (`prev`) -/
theorem produceLoop_filter (cfg : StreamCfg) (hk : KtlLocal cfg.ktl) (k : Bytes) (V : List Ent) (hs : KeySorted V)
    (prev : Option Bytes) (hp : ∀ p, prev = some p → ∀ e ∈ V, ¬ klt e.key p) :
    (produceLoop cfg [] prev V).filter (fun e => e.key == k) = if prev = some k then [] else specEmit cfg V k := by
  induction V generalizing prev with
  | nil => simp [produceLoop, specEmit]
  | cons e rest ih =>
    obtain ⟨h1, h2⟩ := List.pairwise_cons.mp hs
    have ihe := ih h2 (some e.key) (fun p hpe x hx => by cases hpe; exact h1 x hx)
    rw [produceLoop_cons]
    by_cases hpe : prev = some e.key
    · subst hpe
      simp only [beq_self_eq_true, if_true]
      rw [ihe]
      by_cases hek : e.key = k
      · simp [hek]
      · have : ¬ (some e.key = some k) := by simpa using hek
        simp only [this, if_false]
        rw [specEmit_cons_ne cfg e rest k hek]
    · have hb : (prev == some e.key) = false := by simpa using hpe
      simp only [hb, Bool.false_eq_true, if_false, List.isEmpty_nil, Bool.not_true, Bool.false_and,
        List.filter_append]
      rw [emitKey_filter cfg hk, ihe]
      by_cases hek : e.key = k
      · subst hek
        simp only [if_true, List.append_nil, hpe, if_false]
        rw [specEmit_cons_eq cfg hk e rest hs]
      · have : ¬ (some e.key = some k) := by simpa using hek
        simp only [hek, this, if_false, List.nil_append]
        by_cases hpk : prev = some k
        · simp only [hpk, if_true]
          apply specEmit_none
          intro x hx hxk
          have hke : ¬ klt e.key k := hp k hpk e (by simp)
          have hlt : klt k e.key := by
            rcases klt_tri k e.key with h | h | h
            · exact h
            · exact absurd h.symm hek
            · exact absurd h hke
          exact h1 x hx (hxk ▸ hlt)
        · simp only [hpk, if_false]
          rw [specEmit_cons_ne cfg e rest k hek]

end C25L

/-- C25_single_snapshot: for every split of the key space, every `NumGo`, every user key, the
    KVs a run delivers (over all ranges) are exactly what the ONE snapshot at the run's read
    timestamp `ts` prescribes — every chosen key once, no other key at all. (Since commit
    5000444 `Orchestrate` pins that timestamp for all producers, so this is unconditional; the
    behaviour before the fix is `streamRunPerProducer` below.) -/
theorem C25_single_snapshot (merged : List Ent) (hs : SortedEnts merged) (cfg : StreamCfg)
    (hk : KtlLocal cfg.ktl) (ts now : Nat)
    (splits : List Bytes) (hne : ∀ s ∈ splits, s ≠ []) (hpfx : ∀ s ∈ splits, cfg.prefix_.isPrefixOf s)
    (k : Bytes) :
    ((streamRun merged cfg now (splitRanges splits) ts).flatten).filter (fun e => e.key == k) =
      specEmit cfg (snapshotView merged cfg.prefix_ cfg.sinceTs ts) k := by
  unfold streamRun
  rw [C25_concat merged hs cfg ts now splits hne hpfx]
  unfold produceRange
  rw [C25_rangeItems_eq merged hs _ _ _ _ [] (.inl rfl)]
  have hq : ∀ l : List Ent, l.dropWhile (fun e => cmpBytes e.key [] == .lt) = l := by
    intro l; apply dropWhile_none; intro x _
    have := not_klt_nil x.key
    unfold klt at this; simp [this]
  rw [hq]
  have hsv : KeySorted (snapshotView merged cfg.prefix_ cfg.sinceTs ts) :=
    keySorted_of_sorted (List.Pairwise.sublist List.filter_sublist hs)
  rw [C25L.produceLoop_filter cfg hk k _ hsv none (fun p hp => by cases hp)]
  simp

example : SortedEnts f7Merged ∧ KtlLocal (toListCfg 1 0 [] 0 (fun _ => true)).ktl ∧
    (∀ s ∈ [[0x62]], s ≠ ([] : Bytes)) ∧ (∀ s ∈ [[0x62]], ([] : Bytes).isPrefixOf s) ∧
    specEmit (toListCfg 1 0 [] 0 (fun _ => true)) (snapshotView f7Merged [] 0 2) [0x62] ≠ [] :=
  ⟨by unfold SortedEnts; decide, C25_toList_local 1 0, by decide, by decide, by decide⟩

/-! ### the consumer -/

/-- C25_send_serial: `Send` is entered only by the single consumer loop: at most one call is
    in flight at any time, and the batches sent are all the KVs produced, in queue order. -/
theorem C25_send_serial (groups : List (List (List Ent))) :
    (∃ l, inflightAfter 0 (consume groups).2 = some l ∧ ∀ n ∈ l, n ≤ 1) ∧
    (consume groups).1.flatten = groups.flatten.flatten := by
  induction groups with
  | nil => simp [consume, inflightAfter]
  | cons g gs ih =>
    obtain ⟨⟨l, hl, hb⟩, hf⟩ := ih
    simp only [consume]
    by_cases he : g.flatten.isEmpty = true
    · simp only [he, if_true]
      refine ⟨⟨l, hl, hb⟩, ?_⟩
      rw [hf]
      simp [List.isEmpty_iff.mp he]
    · simp only [he, Bool.false_eq_true, if_false]
      refine ⟨⟨1 :: 0 :: l, ?_, ?_⟩, ?_⟩
      · simp [inflightAfter, hl]
      · intro n hn
        rcases List.mem_cons.mp hn with rfl | hn
        · exact Nat.le_refl _
        · rcases List.mem_cons.mp hn with rfl | hn
          · exact Nat.zero_le _
          · exact hb n hn
      · simp [hf]

example : (consume [[[f7Merged.head!], []], [[]], [f7Merged]]).2 =
    [SendEv.enter 1, SendEv.exit, SendEv.enter 4, SendEv.exit] := by decide

/-! ## F7 (fixed by 5000444): before the fix every producer goroutine had its own transaction -/ 

/-- the behaviour BEFORE commit 5000444: every producer goroutine created its own transaction,
    so range `i` was read at the timestamp `rts[i]` current when its producer started. -/
def streamRunPerProducer (merged : List Ent) (cfg : StreamCfg) (now : Nat) (ranges : List KeyRange)
    (rts : List Nat) : List (List Ent) :=
  (ranges.zip rts).map (fun (r, ts) => produceRange merged cfg ts now r)

/-- with equal timestamps the old behaviour is the new one -/
theorem C25_per_producer_const (merged : List Ent) (cfg : StreamCfg) (now ts : Nat) (ranges : List KeyRange)
    (rts : List Nat) (hlen : rts.length = ranges.length) (hall : ∀ r ∈ rts, r = ts) :
    streamRunPerProducer merged cfg now ranges rts = streamRun merged cfg now ranges ts := by
  unfold streamRunPerProducer streamRun
  induction ranges generalizing rts with
  | nil => simp
  | cons r rs ih =>
    cases rts with
    | nil => simp at hlen
    | cons t tl =>
      have ht : t = ts := hall t (by simp)
      subst ht
      simp only [List.zip_cons_cons, List.map_cons]
      rw [ih tl (by simpa using hlen) (fun x hx => hall x (List.mem_cons_of_mem _ hx))]

def f7Run (rts : List Nat) : List Ent :=
  (streamRunPerProducer f7Merged (toListCfg 1 0 [] 0 (fun _ => true)) 0 (splitRanges [[0x62]]) rts).flatten

/-- regression witness for finding F7 (fixed by 5000444): why the single timestamp matters. With
    per-producer transactions, the producer of range `[nil, b)` created its transaction before
    the transfer committed (read timestamp 1), the producer of `[b, nil)` after it (read
    timestamp 2): the run delivered `a = 10, b = 11`, which is the snapshot of no timestamp —
    while a run at ONE timestamp is a snapshot by `C25_single_snapshot`. -/
theorem C25_F7_regression_witness :
    (f7Run [1, 2]).map (fun e => (e.key, e.ver, e.val)) = [([0x61], 1, [10]), ([0x62], 2, [11])] ∧
    ∀ ts, ts ≤ 4 → f7Run [1, 2] ≠
      (streamRun f7Merged (toListCfg 1 0 [] 0 (fun _ => true)) 0 (splitRanges [[0x62]]) ts).flatten := by
  decide

end Badger
