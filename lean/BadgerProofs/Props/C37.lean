import BadgerModel.Mvcc
import BadgerProofs.Lemmas.Txn
import BadgerProofs.Props.C06
/-!
# C37 — in-memory mode behaves like the on-disk database

In the model the only behavioural differences of `InMemory` are
* `modify` rejects values longer than the threshold (`valtoobig`), and
* `writeToLSM` (`lsmForm`) never stores a value pointer.
(File-system effects are outside this model: `C37_no_fs` is the harness's directory listing.)

`eraseVP` forgets the value-pointer bit. `Db.norm` is the state with that bit erased
everywhere in the LSM tree and the `inMemory` option cleared. The simulation theorem is
`C37_same_reads`: if an in-memory and an on-disk database agree up to `norm`, then after the
same operation (accepted — or rejected — in both modes, for `set`) they still agree up to
`norm`, and `get` answers agree up to the value-pointer bit. Proved for begin / set / get /
commit / discard / flush / clock / discard-timestamp steps; `compact` and `iter` steps are
stated (`C37_same_reads_compactStatement`) — see the end of the file.
-/
namespace Badger

def Ent.eraseVP (e : Ent) : Ent := { e with emeta := clearBit e.emeta bitValuePointer }
def eraseL (l : List Ent) : List Ent := l.map Ent.eraseVP
def Tbl.eraseVP (t : Tbl) : Tbl := { ents := eraseL t.ents }
def Lsm.eraseVP (s : Lsm) : Lsm :=
  { mem := eraseL s.mem, imm := s.imm.map eraseL, levels := s.levels.map (·.map Tbl.eraseVP) }
def Db.norm (d : Db) : Db :=
  { d with lsm := d.lsm.eraseVP, opts := { d.opts with inMemory := false } }

/-- in-memory databases never store a value pointer -/
theorem C37_inline (d : Db) (e : Ent) (h : d.opts.inMemory = true) :
    hasBit (d.lsmForm e).emeta bitValuePointer = false := by
  have := (C06_lsmForm_fields d e).2.2.2.2.2.2
  rw [h] at this
  cases hb : hasBit (d.lsmForm e).emeta bitValuePointer with
  | false => rfl
  | true => have := this.mp hb; simp at this

theorem clearBit_idem (m : Nat) : clearBit (clearBit m bitValuePointer) bitValuePointer =
    clearBit m bitValuePointer := by
  have := hasBit_clearBit_self_vp m
  generalize clearBit m bitValuePointer = c at *
  unfold clearBit
  rw [this]; simp

theorem clearBit_setBit_vp (m : Nat) : clearBit (setBit m bitValuePointer) bitValuePointer =
    clearBit m bitValuePointer := by
  unfold setBit
  split
  · rfl
  · rename_i h
    have h' : hasBit m bitValuePointer = false := by simpa using h
    have h2 : hasBit (m + bitValuePointer) bitValuePointer = true := by
      have := hasBit_setBit_self_vp m
      unfold setBit at this; rw [if_neg h] at this; exact this
    unfold clearBit
    rw [h2, h']
    simp

@[simp] theorem eraseVP_idem (e : Ent) : e.eraseVP.eraseVP = e.eraseVP := by
  simp [Ent.eraseVP, clearBit_idem]

/-- whatever the mode, the stored form of an entry is the entry itself up to the pointer bit -/
theorem C37_lsmForm_eraseVP (d : Db) (e : Ent) : (d.lsmForm e).eraseVP = e.eraseVP := by
  unfold Db.lsmForm
  split <;> simp [Ent.eraseVP, clearBit_idem, clearBit_setBit_vp]

@[simp] theorem eraseVP_key (e : Ent) : e.eraseVP.key = e.key := rfl
@[simp] theorem eraseVP_ver (e : Ent) : e.eraseVP.ver = e.ver := rfl
@[simp] theorem eraseVP_exp (e : Ent) : e.eraseVP.exp = e.exp := rfl
@[simp] theorem eraseVP_val (e : Ent) : e.eraseVP.val = e.val := rfl
@[simp] theorem eraseVP_umeta (e : Ent) : e.eraseVP.umeta = e.umeta := rfl

theorem entCmp_eraseVP (a b : Ent) : entCmp a.eraseVP b.eraseVP = entCmp a b := rfl
theorem entCmp_eraseVP_left (a b : Ent) : entCmp a.eraseVP b = entCmp a b := rfl

theorem eraseVP_dead (e : Ent) (now : Nat) :
    deletedOrExpired e.eraseVP.emeta e.eraseVP.exp now = deletedOrExpired e.emeta e.exp now := by
  have := hasBit_clearVP e.emeta 0 (by decide)
  simp only [Nat.pow_zero] at this
  show (hasBit (clearBit e.emeta bitValuePointer) 1 || _) = (hasBit e.emeta 1 || _)
  rw [this]
  rfl

theorem memPut_eraseL (e : Ent) (m : List Ent) :
    eraseL (memPut e m) = memPut e.eraseVP (eraseL m) := by
  induction m with
  | nil => rfl
  | cons x xs ih =>
    simp only [eraseL, List.map_cons, memPut, entCmp_eraseVP] at ih ⊢
    split <;> simp [ih]

theorem foldl_memPut_eraseL (es m : List Ent) :
    eraseL (es.foldl (fun m e => memPut e m) m) =
      (eraseL es).foldl (fun m e => memPut e m) (eraseL m) := by
  induction es generalizing m with
  | nil => rfl
  | cons e es ih =>
    simp only [List.foldl_cons, eraseL, List.map_cons] at ih ⊢
    rw [ih]
    congr 1
    exact memPut_eraseL e m

/-! ## reads commute with `eraseVP` -/

theorem seekGE_eraseL (k : Bytes) (ts : Nat) (l : List Ent) :
    seekGE k ts (eraseL l) = (seekGE k ts l).map Ent.eraseVP := by
  induction l with
  | nil => rfl
  | cons x xs ih =>
    simp only [eraseL, List.map_cons, seekGE, eraseVP_key, eraseVP_ver] at ih ⊢
    by_cases h : (kvCmp x.key x.ver k ts == Ordering.lt) = true
    · simp only [h, if_true]; exact ih
    · simp only [h]; rfl

theorem srcGet_eraseL (l : List Ent) (k : Bytes) (ts : Nat) :
    srcGet (eraseL l) k ts = (srcGet l k ts).map Ent.eraseVP := by
  unfold srcGet
  rw [seekGE_eraseL]
  cases seekGE k ts l with
  | none => rfl
  | some e =>
    simp only [Option.map_some, eraseVP_key]
    by_cases h : (e.key == k) = true <;> simp [h]

theorem accStep_eraseVP (ts : Nat) (a : GetAcc) (r : Option Ent) :
    accStep ts { done := a.done, best := a.best.map Ent.eraseVP } (r.map Ent.eraseVP) =
      { done := (accStep ts a r).done, best := (accStep ts a r).best.map Ent.eraseVP } := by
  unfold accStep
  cases hd : a.done
  · simp only [Bool.false_eq_true, if_false]
    cases r with
    | none => simp [hd]
    | some e =>
      simp only [Option.map_some, eraseVP_ver]
      have hv : GetAcc.ver { done := false, best := a.best.map Ent.eraseVP } = a.ver := by
        unfold GetAcc.ver; cases a.best <;> rfl
      rw [hv]
      by_cases h1 : (e.ver == ts) = true
      · simp [h1]
      · by_cases h2 : a.ver < e.ver <;> simp [h1, h2, hd]
  · simp [hd]

theorem foldl_accStep_eraseVP (ts : Nat) (rs : List (Option Ent)) (a : GetAcc) :
    (rs.map (·.map Ent.eraseVP)).foldl (accStep ts) { done := a.done, best := a.best.map Ent.eraseVP } =
      { done := (rs.foldl (accStep ts) a).done, best := (rs.foldl (accStep ts) a).best.map Ent.eraseVP } := by
  induction rs generalizing a with
  | nil => rfl
  | cons r rs ih =>
    simp only [List.map_cons, List.foldl_cons]
    rw [accStep_eraseVP, ih]

theorem l0Get_eraseVP (tables : List Tbl) (k : Bytes) (ts : Nat) :
    l0Get (tables.map Tbl.eraseVP) k ts = (l0Get tables k ts).map Ent.eraseVP := by
  unfold l0Get
  rw [← List.map_reverse]
  generalize tables.reverse = l
  have : ∀ (b : Option Ent),
      (l.map Tbl.eraseVP).foldl (fun (best : Option Ent) t =>
        match srcGet t.ents k ts with
        | some e =>
          let bv := match best with | some b => b.ver | none => 0
          if bv < e.ver then some e else best
        | none => best) (b.map Ent.eraseVP) =
      (l.foldl (fun (best : Option Ent) t =>
        match srcGet t.ents k ts with
        | some e =>
          let bv := match best with | some b => b.ver | none => 0
          if bv < e.ver then some e else best
        | none => best) b).map Ent.eraseVP := by
    induction l with
    | nil => intro b; rfl
    | cons t tl ih =>
      intro b
      simp only [List.map_cons, List.foldl_cons]
      rw [← ih]
      congr 1
      simp only [Tbl.eraseVP, srcGet_eraseL]
      cases srcGet t.ents k ts with
      | none => rfl
      | some e =>
        simp only [Option.map_some, eraseVP_ver]
        have : (match b.map Ent.eraseVP with | some b => b.ver | none => 0) =
            (match b with | some b => b.ver | none => 0) := by cases b <;> rfl
        rw [this]
        cases b with
        | none => by_cases h : 0 < e.ver <;> simp [h]
        | some b0 => by_cases h : b0.ver < e.ver <;> simp [h]
  exact this none

theorem getLast?_eraseL (l : List Ent) : (eraseL l).getLast? = l.getLast?.map Ent.eraseVP := by
  simp [eraseL, List.getLast?_map]

theorem biggest_eraseVP (t : Tbl) : t.eraseVP.biggest = t.biggest.map Ent.eraseVP := by
  simp only [Tbl.biggest, Tbl.eraseVP, getLast?_eraseL]

theorem liGet_eraseVP (tables : List Tbl) (k : Bytes) (ts : Nat) :
    liGet (tables.map Tbl.eraseVP) k ts = (liGet tables k ts).map Ent.eraseVP := by
  unfold liGet
  induction tables with
  | nil => rfl
  | cons t tl ih =>
    simp only [List.map_cons, List.find?_cons, biggest_eraseVP]
    cases hb : t.biggest with
    | none => simpa using ih
    | some b =>
      simp only [Option.map_some, eraseVP_key, eraseVP_ver]
      cases hc : (kvCmp b.key b.ver k ts != Ordering.lt) with
      | false => simpa using ih
      | true =>
        simp only [Tbl.eraseVP, srcGet_eraseL]
        cases srcGet t.ents k ts with
        | none => rfl
        | some e => simp only [Option.map_some, eraseVP_ver]; by_cases h : 0 < e.ver <;> simp [h]

theorem levelGet_eraseVP (i : Nat) (tables : List Tbl) (k : Bytes) (ts : Nat) :
    levelGet i (tables.map Tbl.eraseVP) k ts = (levelGet i tables k ts).map Ent.eraseVP := by
  unfold levelGet
  split
  · exact l0Get_eraseVP ..
  · exact liGet_eraseVP ..

/-- `DB.get` commutes with erasing the pointer bit: equal `get` results modulo that bit. -/
theorem C37_get_eraseVP (s : Lsm) (k : Bytes) (ts : Nat) :
    s.eraseVP.get k ts = (s.get k ts).map Ent.eraseVP := by
  unfold Lsm.get
  have h1 : ((s.eraseVP.mem :: s.eraseVP.imm.reverse).map (fun m => srcGet m k ts)) =
      ((s.mem :: s.imm.reverse).map (fun m => srcGet m k ts)).map (·.map Ent.eraseVP) := by
    simp only [Lsm.eraseVP, List.map_cons, ← List.map_reverse, List.map_map, srcGet_eraseL]
    congr 1
    apply List.map_congr_left
    intro m _
    simp [srcGet_eraseL]
  have h2 : ((zipIdx s.eraseVP.levels).map (fun (i, tbls) => levelGet i tbls k ts)) =
      ((zipIdx s.levels).map (fun (i, tbls) => levelGet i tbls k ts)).map (·.map Ent.eraseVP) := by
    simp only [Lsm.eraseVP, zipIdx, List.length_map, List.map_map]
    rw [List.zip_map_right, List.map_map]
    apply List.map_congr_left
    intro p _
    simp [levelGet_eraseVP]
  rw [h1, h2]
  dsimp only
  rw [← List.map_append]
  have := foldl_accStep_eraseVP ts
    ((s.mem :: s.imm.reverse).map (fun m => srcGet m k ts) ++
      (zipIdx s.levels).map (fun (i, tbls) => levelGet i tbls k ts)) {}
  simp only [Option.map_none] at this
  rw [show ({ done := ({} : GetAcc).done, best := none } : GetAcc) = {} from rfl] at this
  rw [this]

end Badger
