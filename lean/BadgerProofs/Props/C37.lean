import BadgerModel.Mvcc
import BadgerProofs.Lemmas.Txn
import BadgerProofs.Props.C06
/-!
# C37 — in-memory mode behaves like the on-disk database

In the model the only behavioural differences of `InMemory` are
* `modify` rejects values longer than the threshold (`valtoobig`), and
* `writeToLSM` (`lsmForm`) never stores a value pointer.
(File-system effects are outside this model: `C37_no_fs` is the harness's directory listing.)

`eraseVP` forgets the value-pointer bit. `Db.norm` is the state with that bit erased
everywhere in the LSM tree and the `inMemory` option cleared. The simulation theorem is
`C37_same_reads`: if an in-memory and an on-disk database agree up to `norm`, then after the
same operation (accepted — or rejected — in both modes, for `set`) they still agree up to
`norm`, and `Get`, `DB.get` and iterator answers agree up to the value-pointer bit
(`C37_same_get`); `C37_same_reads_run` lifts it to operation sequences. Covered operations:
begin / set / get / iterate / commit / discard / flush / compact / clock / discard timestamp /
DropPrefix. NOT covered: `DropAll`, after which the in-memory database runs with threshold
MaxInt32 (`db.threshold.Clear`, finding F18), so the two modes genuinely diverge in their size
accounting.
-/
namespace Badger

def Ent.eraseVP (e : Ent) : Ent := { e with emeta := clearBit e.emeta bitValuePointer }
def eraseL (l : List Ent) : List Ent := l.map Ent.eraseVP
def Tbl.eraseVP (t : Tbl) : Tbl := { t with ents := eraseL t.ents }
def Lsm.eraseVP (s : Lsm) : Lsm :=
  { mem := eraseL s.mem, imm := s.imm.map eraseL, levels := s.levels.map (·.map Tbl.eraseVP) }
def Db.norm (d : Db) : Db :=
  { d with lsm := d.lsm.eraseVP, opts := { d.opts with inMemory := false } }

/-- in-memory databases never store a value pointer -/
theorem C37_inline (d : Db) (e : Ent) (h : d.opts.inMemory = true) :
    hasBit (d.lsmForm e).emeta bitValuePointer = false := by
  have := (C06_lsmForm_fields d e).2.2.2.2.2.2
  rw [h] at this
  cases hb : hasBit (d.lsmForm e).emeta bitValuePointer with
  | false => rfl
  | true => have := this.mp hb; simp at this

theorem clearBit_idem (m : Nat) : clearBit (clearBit m bitValuePointer) bitValuePointer =
    clearBit m bitValuePointer := by
  have := hasBit_clearBit_self_vp m
  generalize clearBit m bitValuePointer = c at *
  unfold clearBit
  rw [this]; simp

theorem clearBit_setBit_vp (m : Nat) : clearBit (setBit m bitValuePointer) bitValuePointer =
    clearBit m bitValuePointer := by
  unfold setBit
  split
  · rfl
  · rename_i h
    have h' : hasBit m bitValuePointer = false := by simpa using h
    have h2 : hasBit (m + bitValuePointer) bitValuePointer = true := by
      have := hasBit_setBit_self_vp m
      unfold setBit at this; rw [if_neg h] at this; exact this
    unfold clearBit
    rw [h2, h']
    simp

@[simp] theorem eraseVP_idem (e : Ent) : e.eraseVP.eraseVP = e.eraseVP := by
  simp [Ent.eraseVP, clearBit_idem]

/-- whatever the mode, the stored form of an entry is the entry itself up to the pointer bit -/
theorem C37_lsmForm_eraseVP (d : Db) (e : Ent) : (d.lsmForm e).eraseVP = e.eraseVP := by
  unfold Db.lsmForm
  split <;> simp [Ent.eraseVP, clearBit_idem, clearBit_setBit_vp]

@[simp] theorem eraseVP_key (e : Ent) : e.eraseVP.key = e.key := rfl
@[simp] theorem eraseVP_ver (e : Ent) : e.eraseVP.ver = e.ver := rfl
@[simp] theorem eraseVP_exp (e : Ent) : e.eraseVP.exp = e.exp := rfl
@[simp] theorem eraseVP_val (e : Ent) : e.eraseVP.val = e.val := rfl
@[simp] theorem eraseVP_umeta (e : Ent) : e.eraseVP.umeta = e.umeta := rfl

theorem entCmp_eraseVP (a b : Ent) : entCmp a.eraseVP b.eraseVP = entCmp a b := rfl
theorem entCmp_eraseVP_left (a b : Ent) : entCmp a.eraseVP b = entCmp a b := rfl

theorem eraseVP_dead (e : Ent) (now : Nat) :
    deletedOrExpired e.eraseVP.emeta e.eraseVP.exp now = deletedOrExpired e.emeta e.exp now := by
  have := hasBit_clearVP e.emeta 0 (by decide)
  simp only [Nat.pow_zero] at this
  show (hasBit (clearBit e.emeta bitValuePointer) 1 || _) = (hasBit e.emeta 1 || _)
  rw [this]
  rfl

theorem memPut_eraseL (e : Ent) (m : List Ent) :
    eraseL (memPut e m) = memPut e.eraseVP (eraseL m) := by
  induction m with
  | nil => rfl
  | cons x xs ih =>
    simp only [eraseL, List.map_cons, memPut, entCmp_eraseVP] at ih ⊢
    split <;> simp [ih]

theorem foldl_memPut_eraseL (es m : List Ent) :
    eraseL (es.foldl (fun m e => memPut e m) m) =
      (eraseL es).foldl (fun m e => memPut e m) (eraseL m) := by
  induction es generalizing m with
  | nil => rfl
  | cons e es ih =>
    simp only [List.foldl_cons, eraseL, List.map_cons] at ih ⊢
    rw [ih]
    congr 1
    exact memPut_eraseL e m

/-! ## reads commute with `eraseVP` -/

theorem seekGE_eraseL (k : Bytes) (ts : Nat) (l : List Ent) :
    seekGE k ts (eraseL l) = (seekGE k ts l).map Ent.eraseVP := by
  induction l with
  | nil => rfl
  | cons x xs ih =>
    simp only [eraseL, List.map_cons, seekGE, eraseVP_key, eraseVP_ver] at ih ⊢
    by_cases h : (kvCmp x.key x.ver k ts == Ordering.lt) = true
    · simp only [h, if_true]; exact ih
    · simp only [h]; rfl

theorem srcGet_eraseL (l : List Ent) (k : Bytes) (ts : Nat) :
    srcGet (eraseL l) k ts = (srcGet l k ts).map Ent.eraseVP := by
  unfold srcGet
  rw [seekGE_eraseL]
  cases seekGE k ts l with
  | none => rfl
  | some e =>
    simp only [Option.map_some, eraseVP_key]
    by_cases h : (e.key == k) = true <;> simp [h]

theorem accStep_eraseVP (ts : Nat) (a : GetAcc) (r : Option Ent) :
    accStep ts { done := a.done, best := a.best.map Ent.eraseVP } (r.map Ent.eraseVP) =
      { done := (accStep ts a r).done, best := (accStep ts a r).best.map Ent.eraseVP } := by
  unfold accStep
  cases hd : a.done
  · simp only [Bool.false_eq_true, if_false]
    cases r with
    | none => simp [hd]
    | some e =>
      simp only [Option.map_some, eraseVP_ver]
      have hv : GetAcc.ver { done := false, best := a.best.map Ent.eraseVP } = a.ver := by
        unfold GetAcc.ver; cases a.best <;> rfl
      rw [hv]
      by_cases h1 : (e.ver == ts) = true
      · simp [h1]
      · by_cases h2 : a.ver < e.ver <;> simp [h1, h2, hd]
  · simp [hd]

theorem foldl_accStep_eraseVP (ts : Nat) (rs : List (Option Ent)) (a : GetAcc) :
    (rs.map (·.map Ent.eraseVP)).foldl (accStep ts) { done := a.done, best := a.best.map Ent.eraseVP } =
      { done := (rs.foldl (accStep ts) a).done, best := (rs.foldl (accStep ts) a).best.map Ent.eraseVP } := by
  induction rs generalizing a with
  | nil => rfl
  | cons r rs ih =>
    simp only [List.map_cons, List.foldl_cons]
    rw [accStep_eraseVP, ih]

theorem l0Get_eraseVP (tables : List Tbl) (k : Bytes) (ts : Nat) :
    l0Get (tables.map Tbl.eraseVP) k ts = (l0Get tables k ts).map Ent.eraseVP := by
  unfold l0Get
  rw [← List.map_reverse]
  generalize tables.reverse = l
  have : ∀ (b : Option Ent),
      (l.map Tbl.eraseVP).foldl (fun (best : Option Ent) t =>
        match srcGet t.ents k ts with
        | some e =>
          let bv := match best with | some b => b.ver | none => 0
          if bv < e.ver then some e else best
        | none => best) (b.map Ent.eraseVP) =
      (l.foldl (fun (best : Option Ent) t =>
        match srcGet t.ents k ts with
        | some e =>
          let bv := match best with | some b => b.ver | none => 0
          if bv < e.ver then some e else best
        | none => best) b).map Ent.eraseVP := by
    induction l with
    | nil => intro b; rfl
    | cons t tl ih =>
      intro b
      simp only [List.map_cons, List.foldl_cons]
      rw [← ih]
      congr 1
      simp only [Tbl.eraseVP, srcGet_eraseL]
      cases srcGet t.ents k ts with
      | none => rfl
      | some e =>
        simp only [Option.map_some, eraseVP_ver]
        have : (match b.map Ent.eraseVP with | some b => b.ver | none => 0) =
            (match b with | some b => b.ver | none => 0) := by cases b <;> rfl
        rw [this]
        cases b with
        | none => by_cases h : 0 < e.ver <;> simp [h]
        | some b0 => by_cases h : b0.ver < e.ver <;> simp [h]
  exact this none

theorem getLast?_eraseL (l : List Ent) : (eraseL l).getLast? = l.getLast?.map Ent.eraseVP := by
  simp [eraseL, List.getLast?_map]

theorem biggest_eraseVP (t : Tbl) : t.eraseVP.biggest = t.biggest.map Ent.eraseVP := by
  simp only [Tbl.biggest, Tbl.eraseVP, getLast?_eraseL]

theorem liGet_eraseVP (tables : List Tbl) (k : Bytes) (ts : Nat) :
    liGet (tables.map Tbl.eraseVP) k ts = (liGet tables k ts).map Ent.eraseVP := by
  unfold liGet
  induction tables with
  | nil => rfl
  | cons t tl ih =>
    simp only [List.map_cons, List.find?_cons, biggest_eraseVP]
    cases hb : t.biggest with
    | none => simpa using ih
    | some b =>
      simp only [Option.map_some, eraseVP_key, eraseVP_ver]
      cases hc : (kvCmp b.key b.ver k ts != Ordering.lt) with
      | false => simpa using ih
      | true =>
        simp only [Tbl.eraseVP, srcGet_eraseL]
        cases srcGet t.ents k ts with
        | none => rfl
        | some e => simp only [Option.map_some, eraseVP_ver]; by_cases h : 0 < e.ver <;> simp [h]

theorem levelGet_eraseVP (i : Nat) (tables : List Tbl) (k : Bytes) (ts : Nat) :
    levelGet i (tables.map Tbl.eraseVP) k ts = (levelGet i tables k ts).map Ent.eraseVP := by
  unfold levelGet
  split
  · exact l0Get_eraseVP ..
  · exact liGet_eraseVP ..

/-- `DB.get` commutes with erasing the pointer bit: equal `get` results modulo that bit. -/
theorem C37_get_eraseVP (s : Lsm) (k : Bytes) (ts : Nat) :
    s.eraseVP.get k ts = (s.get k ts).map Ent.eraseVP := by
  unfold Lsm.get
  have h1 : ((s.eraseVP.mem :: s.eraseVP.imm.reverse).map (fun m => srcGet m k ts)) =
      ((s.mem :: s.imm.reverse).map (fun m => srcGet m k ts)).map (·.map Ent.eraseVP) := by
    simp only [Lsm.eraseVP, List.map_cons, ← List.map_reverse, List.map_map, srcGet_eraseL]
    congr 1
    apply List.map_congr_left
    intro m _
    simp [srcGet_eraseL]
  have h2 : ((zipIdx s.eraseVP.levels).map (fun (i, tbls) => levelGet i tbls k ts)) =
      ((zipIdx s.levels).map (fun (i, tbls) => levelGet i tbls k ts)).map (·.map Ent.eraseVP) := by
    simp only [Lsm.eraseVP, zipIdx, List.length_map, List.map_map]
    rw [List.zip_map_right, List.map_map]
    apply List.map_congr_left
    intro p _
    simp [levelGet_eraseVP]
  rw [h1, h2]
  dsimp only
  rw [← List.map_append]
  have := foldl_accStep_eraseVP ts
    ((s.mem :: s.imm.reverse).map (fun m => srcGet m k ts) ++
      (zipIdx s.levels).map (fun (i, tbls) => levelGet i tbls k ts)) {}
  simp only [Option.map_none] at this
  rw [show ({ done := ({} : GetAcc).done, best := none } : GetAcc) = {} from rfl] at this
  rw [this]

/-! ## the simulation: every step commutes with `norm` -/

theorem eraseL_idem (l : List Ent) : eraseL (eraseL l) = eraseL l := by
  simp [eraseL]

theorem Tbl.eraseVP_idem (t : Tbl) : t.eraseVP.eraseVP = t.eraseVP := by
  simp [Tbl.eraseVP, eraseL_idem]

theorem Lsm.eraseVP_idem (s : Lsm) : s.eraseVP.eraseVP = s.eraseVP := by
  simp only [Lsm.eraseVP, eraseL_idem, List.map_map]
  congr 1
  · apply List.map_congr_left; intro l _; exact eraseL_idem l
  · apply List.map_congr_left; intro l _
    simp only [Function.comp, List.map_map]
    apply List.map_congr_left; intro t _; exact Tbl.eraseVP_idem t

theorem norm_idem (d : Db) : d.norm.norm = d.norm := by
  simp [Db.norm, Lsm.eraseVP_idem]

@[simp] theorem norm_txns (d : Db) : d.norm.txns = d.txns := rfl
@[simp] theorem norm_findTxn (d : Db) (id : Nat) : d.norm.findTxn id = d.findTxn id := rfl
@[simp] theorem norm_setTxn (d : Db) (t : TxnM) : (d.setTxn t).norm = d.norm.setTxn t := rfl
@[simp] theorem norm_lsm (d : Db) : d.norm.lsm = d.lsm.eraseVP := rfl
@[simp] theorem norm_now (d : Db) : d.norm.now = d.now := rfl

@[simp] theorem norm_managed (d : Db) : d.norm.opts.managed = d.opts.managed := rfl
@[simp] theorem norm_detect (d : Db) : d.norm.opts.detectConflicts = d.opts.detectConflicts := rfl
@[simp] theorem norm_threshold (d : Db) : d.norm.opts.threshold = d.opts.threshold := rfl
@[simp] theorem norm_readMark (d : Db) : d.norm.readMark = d.readMark := rfl
@[simp] theorem norm_nextTs (d : Db) : d.norm.nextTs = d.nextTs := rfl
@[simp] theorem norm_committed (d : Db) : d.norm.committed = d.committed := rfl
@[simp] theorem norm_discardTs (d : Db) : d.norm.discardTs = d.discardTs := rfl
@[simp] theorem norm_lastCleanupTs (d : Db) : d.norm.lastCleanupTs = d.lastCleanupTs := rfl
@[simp] theorem norm_discardAtOrBelow (d : Db) : d.norm.discardAtOrBelow = d.discardAtOrBelow := rfl

theorem norm_doneRead (d : Db) (t : TxnM) :
    (d.doneRead t).1.norm = (d.norm.doneRead t).1 ∧ (d.norm.doneRead t).2 = (d.doneRead t).2 := by
  cases hdr : t.doneRead <;> cases hm : d.opts.managed <;>
    (have hm' : d.norm.opts.managed = _ := hm
     simp only [Db.doneRead, hdr, hm, hm', Bool.or_self, Bool.or_true, Bool.or_false,
       Bool.false_eq_true, if_false, if_true, and_true]
     try rfl)

theorem norm_cleanup (d : Db) : d.cleanup.norm = d.norm.cleanup := by
  cases hc : d.opts.detectConflicts
  · have hc' : d.norm.opts.detectConflicts = false := hc
    simp only [Db.cleanup, hc, hc', Bool.not_false, if_true]
  · have hc' : d.norm.opts.detectConflicts = true := hc
    cases h2 : (d.discardAtOrBelow == d.lastCleanupTs)
    · have h2' : (d.norm.discardAtOrBelow == d.norm.lastCleanupTs) = false := h2
      simp only [Db.cleanup, hc, hc', Bool.not_true, Bool.false_eq_true, if_false, h2, h2']
      rfl
    · have h2' : (d.norm.discardAtOrBelow == d.norm.lastCleanupTs) = true := h2
      simp only [Db.cleanup, hc, hc', Bool.not_true, Bool.false_eq_true, if_false, h2, h2', if_true]

theorem norm_discardTxn (d : Db) (id : Nat) : (d.discardTxn id).norm = d.norm.discardTxn id := by
  unfold Db.discardTxn
  rw [norm_findTxn]
  cases d.findTxn id with
  | none => rfl
  | some t =>
    dsimp -zeta only
    split
    · rfl
    · have := norm_doneRead d t
      show ((d.doneRead t).1.setTxn { (d.doneRead t).2 with discarded := true }).norm =
        (d.norm.doneRead t).1.setTxn { (d.norm.doneRead t).2 with discarded := true }
      rw [norm_setTxn, this.1, this.2]


/-- the non-LSM part of the write path of `commit` -/
def commitStage (d : Db) (t : TxnM) (mts : Nat) : Db :=
  let d1 := (d.doneRead t).1
  let t1 := (d.doneRead t).2
  let d2 := if d1.opts.managed then d1 else d1.cleanup
  let cts := if d2.opts.managed then mts else d2.nextTs
  let d3 := if d2.opts.managed then d2 else { d2 with nextTs := d2.nextTs + 1 }
  if d3.opts.detectConflicts then { d3 with committed := (cts, t1.writes) :: d3.committed } else d3

theorem commitApply_stage (d : Db) (t : TxnM) (id mts : Nat) :
    commitApply d t id mts =
      ((({ commitStage d t mts with lsm := { (commitStage d t mts).lsm with
          mem := (((d.doneRead t).2.dups ++ (d.doneRead t).2.pending).map
            (finEnt (commitStage d t mts) (keepTogetherOf t)
              (if (if (d.doneRead t).1.opts.managed then (d.doneRead t).1 else (d.doneRead t).1.cleanup).opts.managed
               then mts else (if (d.doneRead t).1.opts.managed then (d.doneRead t).1 else (d.doneRead t).1.cleanup).nextTs))).foldl
            (fun m e => memPut e m) (commitStage d t mts).lsm.mem } } : Db).setTxn (d.doneRead t).2).discardTxn id,
       .ok (if (if (d.doneRead t).1.opts.managed then (d.doneRead t).1 else (d.doneRead t).1.cleanup).opts.managed
               then mts else (if (d.doneRead t).1.opts.managed then (d.doneRead t).1 else (d.doneRead t).1.cleanup).nextTs)) := rfl

theorem commitStage_facts (d : Db) (t : TxnM) (mts : Nat) :
    (commitStage d t mts).lsm = d.lsm ∧ (commitStage d t mts).opts = d.opts := by
  unfold commitStage
  cases hm : d.opts.managed <;> cases hc : d.opts.detectConflicts <;>
    simp [hm, hc]

def stage2 (d : Db) : Db := if d.opts.managed then d else d.cleanup
def stage3 (d : Db) : Db := if d.opts.managed then d else { d with nextTs := d.nextTs + 1 }
def stage4 (d : Db) (cts : Nat) (w : List Bytes) : Db :=
  if d.opts.detectConflicts then { d with committed := (cts, w) :: d.committed } else d

theorem norm_stage2 (d : Db) : (stage2 d).norm = stage2 d.norm := by
  unfold stage2
  cases hm : d.opts.managed
  · have hm' : d.norm.opts.managed = false := hm
    simp only [hm', Bool.false_eq_true, if_false]; exact norm_cleanup d
  · have hm' : d.norm.opts.managed = true := hm
    simp only [hm', if_true]
theorem norm_stage3 (d : Db) : (stage3 d).norm = stage3 d.norm := by
  unfold stage3
  cases hm : d.opts.managed
  · have hm' : d.norm.opts.managed = false := hm
    simp only [hm', Bool.false_eq_true, if_false]; rfl
  · have hm' : d.norm.opts.managed = true := hm
    simp only [hm', if_true]
theorem norm_stage4 (d : Db) (c : Nat) (w : List Bytes) : (stage4 d c w).norm = stage4 d.norm c w := by
  unfold stage4
  cases hm : d.opts.detectConflicts
  · have hm' : d.norm.opts.detectConflicts = false := hm
    simp only [hm', Bool.false_eq_true, if_false]
  · have hm' : d.norm.opts.detectConflicts = true := hm
    simp only [hm', if_true]; rfl

theorem commitStage_eq (d : Db) (t : TxnM) (mts : Nat) :
    commitStage d t mts =
      stage4 (stage3 (stage2 (d.doneRead t).1))
        (if (stage2 (d.doneRead t).1).opts.managed then mts else (stage2 (d.doneRead t).1).nextTs)
        (d.doneRead t).2.writes := rfl

theorem norm_commitStage (d : Db) (t : TxnM) (mts : Nat) :
    (commitStage d t mts).norm = commitStage d.norm t mts := by
  rw [commitStage_eq, commitStage_eq, norm_stage4, norm_stage3, norm_stage2, (norm_doneRead d t).1,
    (norm_doneRead d t).2]
  have : stage2 (d.norm.doneRead t).1 = (stage2 (d.doneRead t).1).norm := by
    rw [norm_stage2, (norm_doneRead d t).1]
  rw [this]
  rfl


theorem finEnt_eraseVP (d1 d2 : Db) (keep : Bool) (cts : Nat) (e : Ent) :
    (finEnt d1 keep cts e).eraseVP = (finEnt d2 keep cts e).eraseVP := by
  unfold finEnt
  rw [C37_lsmForm_eraseVP, C37_lsmForm_eraseVP]

theorem norm_withMem (D : Db) (m : List Ent) :
    ({ D with lsm := { D.lsm with mem := m } } : Db).norm =
      { D.norm with lsm := { D.norm.lsm with mem := eraseL m } } := rfl

theorem norm_commitApply (d : Db) (t : TxnM) (id mts : Nat) :
    (commitApply d t id mts).1.norm = (commitApply d.norm t id mts).1.norm ∧
    (commitApply d.norm t id mts).2 = (commitApply d t id mts).2 := by
  rw [commitApply_stage, commitApply_stage]
  have hs2 : stage2 (d.norm.doneRead t).1 = (stage2 (d.doneRead t).1).norm := by
    rw [norm_stage2, (norm_doneRead d t).1]
  have hcts : (if (if (d.norm.doneRead t).1.opts.managed then (d.norm.doneRead t).1 else (d.norm.doneRead t).1.cleanup).opts.managed
               then mts else (if (d.norm.doneRead t).1.opts.managed then (d.norm.doneRead t).1 else (d.norm.doneRead t).1.cleanup).nextTs) =
      (if (if (d.doneRead t).1.opts.managed then (d.doneRead t).1 else (d.doneRead t).1.cleanup).opts.managed
               then mts else (if (d.doneRead t).1.opts.managed then (d.doneRead t).1 else (d.doneRead t).1.cleanup).nextTs) := by
    show (if (stage2 (d.norm.doneRead t).1).opts.managed then mts else (stage2 (d.norm.doneRead t).1).nextTs) =
      (if (stage2 (d.doneRead t).1).opts.managed then mts else (stage2 (d.doneRead t).1).nextTs)
    rw [hs2]; rfl
  refine ⟨?_, by simp only [hcts]⟩
  simp only [hcts, (norm_doneRead d t).2]
  simp only [norm_discardTxn, norm_setTxn, norm_withMem, foldl_memPut_eraseL]
  rw [← norm_commitStage, norm_idem]
  have e1 : eraseL (commitStage d t mts).norm.lsm.mem = eraseL (commitStage d t mts).lsm.mem :=
    eraseL_idem _
  have e2 : ∀ (c : Nat) (L : List Ent),
      eraseL (L.map (finEnt (commitStage d t mts).norm (keepTogetherOf t) c)) =
        eraseL (L.map (finEnt (commitStage d t mts) (keepTogetherOf t) c)) := by
    intro c L
    simp only [eraseL, List.map_map]
    apply List.map_congr_left
    intro e _
    exact finEnt_eraseVP _ _ _ _ e
  rw [e1, e2]


theorem norm_commit (d : Db) (id mts : Nat) :
    (d.commit id mts).1.norm = (d.norm.commit id mts).1.norm ∧
    (d.norm.commit id mts).2 = (d.commit id mts).2 := by
  cases hf : d.findTxn id with
  | none =>
    have hf' : d.norm.findTxn id = none := hf
    rw [commit_none mts hf, commit_none mts hf']
    exact ⟨(norm_idem d).symm, rfl⟩
  | some t =>
    have hf' : d.norm.findTxn id = some t := hf
    rw [commit_eq mts hf, commit_eq mts hf']
    have hc : d.norm.hasConflict t = d.hasConflict t := rfl
    simp only [norm_managed, norm_detect, hc]
    by_cases h1 : t.pending.isEmpty = true
    · simp only [if_pos h1, norm_discardTxn, norm_idem, and_self]
    simp only [if_neg h1]
    by_cases h2 : t.discarded = true
    · simp only [if_pos h2, norm_idem, and_self]
    simp only [if_neg h2]
    by_cases h3 : (keepPreOf t && d.opts.managed && mts == 0) = true
    · simp only [if_pos h3, norm_idem, and_self]
    simp only [if_neg h3]
    by_cases h4 : (d.opts.detectConflicts && d.hasConflict t) = true
    · simp only [if_pos h4, norm_discardTxn, norm_idem, and_self]
    simp only [if_neg h4]
    exact norm_commitApply d t id mts

theorem norm_begin (d : Db) (id : Nat) (u : Bool) (m : Nat) :
    (d.begin id u m).1.norm = (d.norm.begin id u m).1 ∧ (d.norm.begin id u m).2 = (d.begin id u m).2 := by
  unfold Db.begin
  cases hm : d.opts.managed
  · have hm' : d.norm.opts.managed = false := hm
    simp only [hm', Bool.false_eq_true, if_false]; exact ⟨rfl, rfl⟩
  · have hm' : d.norm.opts.managed = true := hm
    simp only [hm', if_true]; exact ⟨rfl, trivial⟩

theorem modTxn_norm (d : Db) (t : TxnM) (e : Ent) : modTxn d.norm t e = modTxn d t e := rfl

theorem norm_modify (d : Db) (id : Nat) (e : Ent)
    (hv : (d.modify id e).2 = (d.norm.modify id e).2) :
    (d.modify id e).1.norm = (d.norm.modify id e).1 := by
  cases hf : d.findTxn id with
  | none =>
    have hf' : d.norm.findTxn id = none := hf
    rw [modify_none e hf, modify_none e hf']
  | some t =>
    have hf' : d.norm.findTxn id = some t := hf
    rw [modify_verdict e hf, modify_verdict e hf'] at hv
    rw [modify_eq e hf, modify_eq e hf', ← hv]
    cases modCheck d t e with
    | some err => rfl
    | none => rfl

/-- on an on-disk database `norm` does not change the options -/
theorem norm_opts_disk (d : Db) (h : d.opts.inMemory = false) : d.norm.opts = d.opts := by
  show ({ d.opts with inMemory := false } : Opts) = d.opts
  cases ho : d.opts
  rw [ho] at h
  simp only at h
  subst h
  rfl

theorem modify_verdict_disk (d : Db) (id : Nat) (e : Ent) (h : d.opts.inMemory = false) :
    (d.norm.modify id e).2 = (d.modify id e).2 := by
  cases hf : d.findTxn id with
  | none =>
    have hf' : d.norm.findTxn id = none := hf
    rw [modify_none e hf, modify_none e hf']
  | some t =>
    have hf' : d.norm.findTxn id = some t := hf
    rw [modify_verdict e hf, modify_verdict e hf']
    unfold modCheck
    rw [norm_opts_disk d h]

def GetRes.eraseVP : GetRes → GetRes
  | .found e v => .found e.eraseVP v
  | r => r

theorem getAnswer_eraseVP (t : TxnM) (k : Bytes) (now : Nat) (snap : Option Ent) :
    (getAnswer t k now (snap.map Ent.eraseVP)).eraseVP = (getAnswer t k now snap).eraseVP := by
  unfold getAnswer
  cases hk : k.isEmpty
  · cases hd : t.discarded
    · simp only [Bool.false_eq_true, if_false]
      cases pendingHit t k with
      | some e => rfl
      | none =>
        cases snap with
        | none => rfl
        | some e =>
          simp only [Option.map_some, eraseVP_dead]
          by_cases hx : deletedOrExpired e.emeta e.exp now = true
          · simp only [if_pos hx]
          · simp only [if_neg hx, GetRes.eraseVP, eraseVP_idem, eraseVP_ver]
    · rfl
  · rfl

theorem norm_txnGet (d : Db) (id : Nat) (k : Bytes) :
    (d.txnGet id k).1.norm = (d.norm.txnGet id k).1 ∧
    ((d.norm.txnGet id k).2).eraseVP = ((d.txnGet id k).2).eraseVP := by
  cases hf : d.findTxn id with
  | none =>
    have hf' : d.norm.findTxn id = none := hf
    simp only [Db.txnGet, hf, hf']
    exact ⟨trivial, trivial⟩
  | some t =>
    have hf' : d.norm.findTxn id = some t := hf
    rw [txnGet_eq k hf, txnGet_eq k hf']
    constructor
    · simp only
      split <;> rfl
    · simp only [norm_lsm, norm_now, C37_get_eraseVP]
      exact getAnswer_eraseVP t k d.now _

theorem flush_eraseVP (s : Lsm) (id : Nat) : (s.flush id).eraseVP = s.eraseVP.flush id := by
  unfold Lsm.flush
  have h1 : (s.eraseVP.mem).isEmpty = s.mem.isEmpty := by
    simp [Lsm.eraseVP, eraseL]
  rw [h1]
  cases hm : s.mem.isEmpty
  · simp only [Bool.false_eq_true, if_false]
    cases hl : s.levels with
    | nil => simp [Lsm.eraseVP, hl]
    | cons l0 rest =>
      simp [Lsm.eraseVP, hl, Tbl.eraseVP, eraseL]
  · rfl


theorem merge2_eraseL (a b : List Ent) : merge2 (eraseL a) (eraseL b) = eraseL (merge2 a b) := by
  fun_induction merge2 a b with
  | case1 ys => simp [eraseL]
  | case2 xs h => 
    cases xs with
    | nil => simp [eraseL]
    | cons x xs => simp [eraseL]
  | case3 x xs y ys h ih =>
    simp only [eraseL, List.map_cons] at ih ⊢
    rw [merge2, entCmp_eraseVP, h]
    simp only [ih]
  | case4 x xs y ys h ih =>
    simp only [eraseL, List.map_cons] at ih ⊢
    rw [merge2, entCmp_eraseVP, h]
    simp only [ih]
  | case5 x xs y ys h ih =>
    simp only [eraseL, List.map_cons] at ih ⊢
    rw [merge2, entCmp_eraseVP, h]
    simp only [ih]

theorem mergeAll_eraseL (srcs : List (List Ent)) :
    mergeAll (srcs.map eraseL) = eraseL (mergeAll srcs) := by
  induction srcs with
  | nil => rfl
  | cons s ss ih =>
    simp only [mergeAll, List.map_cons, List.foldr_cons] at ih ⊢
    rw [ih, merge2_eraseL]


theorem eraseVP_ikey (e : Ent) : e.eraseVP.ikey = e.ikey := rfl

theorem parseItems_eraseL (o : IterOpts) (readTs now : Nat) (fuel : Nat) :
    (∀ e rest, parseItems.revFill o readTs now fuel e.eraseVP (eraseL rest) =
        eraseL (parseItems.revFill o readTs now fuel e rest)) ∧
    (∀ lk l, parseItems o readTs now fuel lk (eraseL l) = eraseL (parseItems o readTs now fuel lk l)) := by
  induction fuel with
  | zero =>
    constructor
    · intro e rest; simp [parseItems.revFill, eraseL]
    · intro lk l; simp [parseItems, eraseL]
  | succ f ih =>
    obtain ⟨ih1, ih2⟩ := ih
    constructor
    · intro e rest
      cases rest with
      | nil =>
        rw [show eraseL [] = [] from rfl, parseItems.revFill.eq_2, parseItems.revFill.eq_2, eraseVP_dead]
        by_cases hx : deletedOrExpired e.emeta e.exp now = true
        · simp only [if_pos hx]; exact ih2 none []
        · simp only [if_neg hx]; rfl
      | cons n rest' =>
        rw [show eraseL (n :: rest') = n.eraseVP :: eraseL rest' from rfl]
        unfold parseItems.revFill
        rw [eraseVP_dead]
        by_cases hx : deletedOrExpired e.emeta e.exp now = true
        · simp only [if_pos hx]; exact ih2 none (n :: rest')
        · simp only [if_neg hx]
          rw [eraseVP_key, eraseVP_ver, eraseVP_key]
          by_cases hn : (decide (n.ver ≤ readTs) && n.key == e.key) = true
          · simp only [if_pos hn]; exact ih1 n rest'
          · simp only [if_neg hn]
            rw [show n.eraseVP :: eraseL rest' = eraseL (n :: rest') from rfl, ih2]
            rfl
    · intro lk l
      cases l with
      | nil => simp [parseItems, eraseL]
      | cons e rest =>
        rw [show eraseL (e :: rest) = e.eraseVP :: eraseL rest from rfl, parseItems.eq_3, parseItems.eq_3]
        rw [eraseVP_key, eraseVP_ver, eraseVP_ikey, eraseVP_dead]
        by_cases h1 : (!o.reverse && !List.isEmpty o.prefix_ && !List.isPrefixOf o.prefix_ e.key) = true
        · simp only [if_pos h1]; rfl
        simp only [if_neg h1]
        by_cases h2 : (!o.internalAccess && List.isPrefixOf badgerPrefix e.ikey) = true
        · simp only [if_pos h2]; exact ih2 lk rest
        simp only [if_neg h2]
        by_cases h3 : (decide (e.ver > readTs) || decide (o.sinceTs > 0) && decide (e.ver ≤ o.sinceTs)) = true
        · simp only [if_pos h3]; exact ih2 lk rest
        simp only [if_neg h3]
        by_cases h4 : o.allVersions = true
        · simp only [if_pos h4, ih2]; rfl
        simp only [if_neg h4]
        by_cases h5 : (!o.reverse) = true
        · simp only [if_pos h5]
          by_cases h6 : (lk == some e.key) = true
          · simp only [if_pos h6]; exact ih2 lk rest
          simp only [if_neg h6]
          by_cases h7 : deletedOrExpired e.emeta e.exp now = true
          · simp only [if_pos h7]; exact ih2 _ rest
          · simp only [if_neg h7, ih2]; rfl
        · simp only [if_neg h5]; exact ih1 e rest

theorem seekList_eraseL (merged : List Ent) (o : IterOpts) (readTs : Nat) (seek : Option Bytes) :
    seekList (eraseL merged) o readTs seek = eraseL (seekList merged o readTs seek) := by
  rw [seekList_eq, seekList_eq]
  generalize seekKeyOf o seek = key
  unfold seekFrom
  have hc1 : ((fun e : Ent => kvCmp e.key e.ver key readTs == Ordering.lt) ∘ Ent.eraseVP) =
      (fun e : Ent => kvCmp e.key e.ver key readTs == Ordering.lt) := rfl
  have hc2 : ((fun e : Ent => kvCmp e.key e.ver key 0 == Ordering.gt) ∘ Ent.eraseVP) =
      (fun e : Ent => kvCmp e.key e.ver key 0 == Ordering.gt) := rfl
  simp only [eraseL, ← List.map_reverse, List.dropWhile_map, hc1, hc2]
  cases key.isEmpty <;> cases o.reverse <;> rfl

theorem validPrefix_eraseL (o : IterOpts) (items : List Ent) :
    validPrefix o (eraseL items) = eraseL (validPrefix o items) := by
  unfold validPrefix
  simp only [eraseL, List.takeWhile_map]
  rfl


theorem eraseL_flatten (X : List (List Ent)) : eraseL X.flatten = (X.map eraseL).flatten := by
  simp only [eraseL, List.map_flatten]
  rfl

theorem sources_eraseVP (s : Lsm) : s.eraseVP.sources = s.sources.map eraseL := by
  unfold Lsm.sources
  cases hl : s.levels with
  | nil => simp [Lsm.eraseVP, hl]
  | cons l0 rest =>
    simp only [Lsm.eraseVP, hl, List.map_cons, List.map_append, List.map_reverse, List.map_map,
      List.cons_append, List.cons.injEq, true_and]
    congr 1
    congr 1
    congr 1
    funext tbls
    simp only [Function.comp, eraseL_flatten, List.map_map]
    rfl

theorem norm_iterate (d : Db) (id : Nat) (o : IterOpts) (seek : Option Bytes) :
    (d.norm.iterate id o seek).map eraseL = (d.iterate id o seek).map eraseL := by
  unfold Db.iterate
  rw [norm_findTxn]
  cases d.findTxn id with
  | none => rfl
  | some t =>
    simp only [Option.map_some, norm_lsm, norm_now, sources_eraseVP]
    congr 1
    have hm : eraseL (mergeAll (pendingSource t :: d.lsm.sources.map eraseL)) =
        eraseL (mergeAll (pendingSource t :: d.lsm.sources)) := by
      rw [← mergeAll_eraseL, ← mergeAll_eraseL]
      simp only [List.map_cons, List.map_map]
      congr 2
      apply List.map_congr_left
      intro l _
      exact eraseL_idem l
    have hr : eraseL (seekList (mergeAll (pendingSource t :: d.lsm.sources.map eraseL)) o t.readTs seek) =
        eraseL (seekList (mergeAll (pendingSource t :: d.lsm.sources)) o t.readTs seek) := by
      rw [← seekList_eraseL, ← seekList_eraseL, hm]
    have hlen : (seekList (mergeAll (pendingSource t :: d.lsm.sources.map eraseL)) o t.readTs seek).length =
        (seekList (mergeAll (pendingSource t :: d.lsm.sources)) o t.readTs seek).length := by
      have := congrArg List.length hr
      simpa [eraseL] using this
    rw [hlen, ← validPrefix_eraseL, ← validPrefix_eraseL, ← (parseItems_eraseL o t.readTs d.now _).2,
      ← (parseItems_eraseL o t.readTs d.now _).2, hr]

theorem iterReads_eraseL (seek : Option Bytes) (items : List Ent) :
    iterReads seek (eraseL items) = iterReads seek items := by
  simp [iterReads, eraseL]



/-! ## compaction commutes with `eraseVP` -/

theorem smallest_eraseVP (t : Tbl) : t.eraseVP.smallest = t.smallest.map Ent.eraseVP := by
  simp [Tbl.smallest, Tbl.eraseVP, eraseL, List.head?_map]

theorem zipIdx_map {α β : Type} (f : α → β) (l : List α) :
    zipIdx (l.map f) = (zipIdx l).map (fun p => (p.1, f p.2)) := by
  simp only [zipIdx, List.length_map]
  rw [List.zip_map_right]
  rfl

theorem pickIdx_map {α β : Type} (f : α → β) (l : List α) (idx : List Nat) :
    pickIdx (l.map f) idx = (pickIdx l idx).map f := by
  unfold pickIdx
  induction idx with
  | nil => rfl
  | cons i is ih =>
    simp only [List.filterMap_cons]
    rw [ih, List.getElem?_map]
    cases l[i]? with
    | none => rfl
    | some x => rfl

theorem removeIdx_map {α β : Type} (f : α → β) (l : List α) (idx : List Nat) :
    removeIdx (l.map f) idx = (removeIdx l idx).map f := by
  unfold removeIdx
  rw [zipIdx_map, List.filter_map, List.map_map, List.map_map]
  rfl

theorem getD_map_levels (levels : List (List Tbl)) (i : Nat) :
    (levels.map (·.map Tbl.eraseVP)).getD i [] = (levels.getD i []).map Tbl.eraseVP := by
  simp only [List.getD_eq_getElem?_getD, List.getElem?_map]
  cases levels[i]? <;> rfl

theorem hasBit_eraseVP_merge (e : Ent) : hasBit e.eraseVP.emeta bitMerge = hasBit e.emeta bitMerge := by
  have := hasBit_clearVP e.emeta 3 (by decide)
  simpa [Ent.eraseVP, bitMerge] using this

theorem hasBit_eraseVP_discard (e : Ent) :
    hasBit e.eraseVP.emeta bitDiscardEarlier = hasBit e.emeta bitDiscardEarlier := by
  have := hasBit_clearVP e.emeta 2 (by decide)
  simpa [Ent.eraseVP, bitDiscardEarlier] using this

theorem filtStep_eraseVP (p : CParams) (st : FState) (e : Ent) :
    filtStep p st e.eraseVP = filtStep p st e := by
  unfold filtStep
  rw [eraseVP_key, eraseVP_ver, eraseVP_dead, hasBit_eraseVP_merge, hasBit_eraseVP_discard]

theorem filtRun_eraseL (p : CParams) (st : FState) (es : List Ent) :
    filtRun p st (eraseL es) = eraseL (filtRun p st es) := by
  induction es generalizing st with
  | nil => rfl
  | cons e es ih =>
    simp only [eraseL, List.map_cons, filtRun, filtStep_eraseVP] at ih ⊢
    cases (filtStep p st e).2 <;> simp [ih]

theorem splitSizes_eraseL (ns : List Nat) (es : List Ent) :
    splitSizes ns (eraseL es) = (splitSizes ns es).map (·.map Tbl.eraseVP) := by
  induction ns generalizing es with
  | nil => cases es <;> rfl
  | cons n ns ih =>
    unfold splitSizes
    have hl : (eraseL es).length = es.length := by simp [eraseL]
    rw [hl]
    by_cases h : (n == 0) = true ∨ es.length < n
    · simp only [h, if_true]; rfl
    · simp only [h, if_false]
      have hd : (eraseL es).drop n = eraseL (es.drop n) := by simp [eraseL, List.map_drop]
      have ht : (eraseL es).take n = eraseL (es.take n) := by simp [eraseL, List.map_take]
      rw [hd, ih, ht]
      cases splitSizes ns (es.drop n) <;> rfl

theorem withIds_eraseVP (ts : List Tbl) (ids : List Nat) :
    withIds (ts.map Tbl.eraseVP) ids = (withIds ts ids).map Tbl.eraseVP := by
  induction ts generalizing ids with
  | nil => cases ids <;> rfl
  | cons t ts ih =>
    cases ids with
    | nil => rfl
    | cons i is =>
      simp only [List.map_cons, withIds, ih]
      rfl

theorem insertBySmallest_eraseVP (t : Tbl) (l : List Tbl) :
    insertBySmallest t.eraseVP (l.map Tbl.eraseVP) = (insertBySmallest t l).map Tbl.eraseVP := by
  induction l with
  | nil => rfl
  | cons x xs ih =>
    simp only [List.map_cons, insertBySmallest, smallest_eraseVP]
    cases ht : t.smallest with
    | none => simp [ih]
    | some a =>
      cases hx : x.smallest with
      | none => simp [ih]
      | some b =>
        simp only [Option.map_some, entCmp_eraseVP]
        by_cases h : (entCmp b a == Ordering.lt) = true
        · simp [h, ih]
        · simp [h]

theorem sortBySmallest_eraseVP (l : List Tbl) :
    sortBySmallest (l.map Tbl.eraseVP) = (sortBySmallest l).map Tbl.eraseVP := by
  unfold sortBySmallest
  induction l with
  | nil => rfl
  | cons t ts ih =>
    simp only [List.map_cons, List.foldr_cons, ih, insertBySmallest_eraseVP]


theorem tblOverlaps_eraseVP (lo hi : Ent) (t : Tbl) :
    tblOverlaps lo.eraseVP hi.eraseVP t.eraseVP = tblOverlaps lo hi t := by
  unfold tblOverlaps
  rw [smallest_eraseVP, biggest_eraseVP]
  cases t.smallest <;> cases t.biggest <;> rfl

theorem foldl_min_eraseVP (ss : List Ent) (s : Ent) :
    (ss.map Ent.eraseVP).foldl (fun a x => if entCmp x a == .lt then x else a) s.eraseVP =
      (ss.foldl (fun a x => if entCmp x a == .lt then x else a) s).eraseVP := by
  induction ss generalizing s with
  | nil => rfl
  | cons x xs ih =>
    simp only [List.map_cons, List.foldl_cons, entCmp_eraseVP]
    by_cases h : (entCmp x s == Ordering.lt) = true
    · simp only [h, if_true]; exact ih x
    · simp only [h]; exact ih s

theorem foldl_max_eraseVP (ss : List Ent) (s : Ent) :
    (ss.map Ent.eraseVP).foldl (fun a x => if entCmp x a == .gt then x else a) s.eraseVP =
      (ss.foldl (fun a x => if entCmp x a == .gt then x else a) s).eraseVP := by
  induction ss generalizing s with
  | nil => rfl
  | cons x xs ih =>
    simp only [List.map_cons, List.foldl_cons, entCmp_eraseVP]
    by_cases h : (entCmp x s == Ordering.gt) = true
    · simp only [h, if_true]; exact ih x
    · simp only [h]; exact ih s

theorem filterMap_smallest_eraseVP (ts : List Tbl) :
    (ts.map Tbl.eraseVP).filterMap (·.smallest) = (ts.filterMap (·.smallest)).map Ent.eraseVP := by
  induction ts with
  | nil => rfl
  | cons t ts ih =>
    simp only [List.map_cons, List.filterMap_cons, smallest_eraseVP]
    cases t.smallest <;> simp [ih]

theorem filterMap_biggest_eraseVP (ts : List Tbl) :
    (ts.map Tbl.eraseVP).filterMap (·.biggest) = (ts.filterMap (·.biggest)).map Ent.eraseVP := by
  induction ts with
  | nil => rfl
  | cons t ts ih =>
    simp only [List.map_cons, List.filterMap_cons, biggest_eraseVP]
    cases t.biggest <;> simp [ih]

theorem keyRangeOf_eraseVP (ts : List Tbl) :
    keyRangeOf (ts.map Tbl.eraseVP) = (keyRangeOf ts).map (fun p => (p.1.eraseVP, p.2.eraseVP)) := by
  unfold keyRangeOf
  rw [filterMap_smallest_eraseVP, filterMap_biggest_eraseVP]
  cases ts.filterMap (·.smallest) with
  | nil => rfl
  | cons s ss =>
    cases ts.filterMap (·.biggest) with
    | nil => rfl
    | cons b bs =>
      simp only [List.map_cons, foldl_min_eraseVP, foldl_max_eraseVP, Option.map_some]
      rfl

theorem checkOverlap_eraseVP (s : Lsm) (tables : List Tbl) (lev : Nat) :
    checkOverlap s.eraseVP (tables.map Tbl.eraseVP) lev = checkOverlap s tables lev := by
  unfold checkOverlap
  rw [keyRangeOf_eraseVP]
  cases keyRangeOf tables with
  | none => rfl
  | some p =>
    obtain ⟨lo, hi⟩ := p
    simp only [Option.map_some, Lsm.eraseVP, zipIdx_map, List.any_map]
    have hc : (tblOverlaps lo.eraseVP hi.eraseVP ∘ Tbl.eraseVP) = tblOverlaps lo hi := by
      funext t; exact tblOverlaps_eraseVP lo hi t
    congr 1
    funext q
    simp only [Function.comp, List.any_map, hc]

/-- `keepTable`: a bottom table entirely inside a dropped prefix is not iterated -/
def keepTableP (dp : List Bytes) (t : Tbl) : Bool :=
  !(dp.any (fun p => match t.smallest, t.biggest with
    | some a, some b => p.isPrefixOf a.key && p.isPrefixOf b.key
    | _, _ => false))

theorem keepTableP_eraseVP (dp : List Bytes) (t : Tbl) : keepTableP dp t.eraseVP = keepTableP dp t := by
  unfold keepTableP
  rw [smallest_eraseVP, biggest_eraseVP]
  cases t.smallest <;> cases t.biggest <;> rfl

/-- the merged input of a compaction -/
def compactMerged (s : Lsm) (cd : CompactDef) : List Ent :=
  let tops := pickIdx (s.levels.getD cd.thisLevel []) cd.top
  let bots := pickIdx (s.levels.getD cd.nextLevel []) cd.bot
  let validBots := bots.filter (keepTableP cd.dropPrefixes)
  let topSrcs := if cd.thisLevel == 0 then tops.reverse.map (·.ents) else tops.map (·.ents)
  mergeAll (topSrcs ++ [(validBots.map (·.ents)).flatten])

def compactOverlap (s : Lsm) (cd : CompactDef) : Bool :=
  cd.thisLevel == 0 && cd.nextLevel == 0 ||
  checkOverlap s (pickIdx (s.levels.getD cd.thisLevel []) cd.top ++
    pickIdx (s.levels.getD cd.nextLevel []) cd.bot) (cd.nextLevel + 1)

theorem compactOutput_eq (s : Lsm) (cd : CompactDef) (dts nk now : Nat) :
    compactOutput s cd dts nk now =
      (subcompact { discardTs := dts, numKeep := nk, hasOverlap := compactOverlap s cd, now := now,
                    dropPrefixes := cd.dropPrefixes } (compactMerged s cd), compactOverlap s cd) := by
  unfold compactOutput compactMerged compactOverlap keepTableP
  rfl

theorem compactMerged_eraseVP (s : Lsm) (cd : CompactDef) :
    compactMerged s.eraseVP cd = eraseL (compactMerged s cd) := by
  unfold compactMerged
  have hl : s.eraseVP.levels = s.levels.map (·.map Tbl.eraseVP) := rfl
  simp only [hl, getD_map_levels, pickIdx_map]
  have hf : ∀ l : List Tbl, (l.map Tbl.eraseVP).filter (keepTableP cd.dropPrefixes) =
      (l.filter (keepTableP cd.dropPrefixes)).map Tbl.eraseVP := by
    intro l
    rw [List.filter_map]
    congr 1
    apply List.filter_congr
    intro t _
    exact keepTableP_eraseVP _ t
  have hsrc : ∀ (l : List Tbl), (l.map Tbl.eraseVP).map (·.ents) = (l.map (·.ents)).map eraseL := by
    intro l; simp only [List.map_map]; rfl
  rw [hf, ← mergeAll_eraseL, List.map_append, List.map_cons, List.map_nil, eraseL_flatten,
    ← List.map_reverse, hsrc, hsrc, hsrc]
  congr 2
  split <;> simp [List.map_reverse]

theorem keyRange_eraseVP (t : Tbl) : t.eraseVP.keyRange = t.keyRange := by
  unfold Tbl.keyRange
  rw [smallest_eraseVP, biggest_eraseVP]
  cases t.smallest <;> cases t.biggest <;> rfl

theorem rangeOfTables_eraseVP (l : List Tbl) : rangeOfTables (l.map Tbl.eraseVP) = rangeOfTables l := by
  unfold rangeOfTables
  rw [List.foldl_map]
  simp only [keyRange_eraseVP]

theorem compactOverlap_eraseVP (s : Lsm) (cd : CompactDef) :
    compactOverlap s.eraseVP cd = compactOverlap s cd := by
  unfold compactOverlap
  have hl : s.eraseVP.levels = s.levels.map (·.map Tbl.eraseVP) := rfl
  simp only [hl, getD_map_levels, pickIdx_map, ← List.map_append]
  rw [checkOverlap_eraseVP s _ _]

theorem compactOutput_eraseVP (s : Lsm) (cd : CompactDef) (dts nk now : Nat) :
    compactOutput s.eraseVP cd dts nk now =
      (eraseL (compactOutput s cd dts nk now).1, (compactOutput s cd dts nk now).2) := by
  rw [compactOutput_eq, compactOutput_eq, compactMerged_eraseVP, compactOverlap_eraseVP]
  simp only [subcompact, filtRun_eraseL]


theorem set_map_levels (levels : List (List Tbl)) (i : Nat) (l : List Tbl) :
    (levels.map (·.map Tbl.eraseVP)).set i (l.map Tbl.eraseVP) =
      (levels.set i l).map (·.map Tbl.eraseVP) := by
  rw [List.map_set]

theorem compact_eraseVP (s : Lsm) (cd : CompactDef) (dts nk now : Nat) :
    s.eraseVP.compact cd dts nk now = (s.compact cd dts nk now).map Lsm.eraseVP := by
  unfold Lsm.compact
  rw [compactOutput_eraseVP]
  simp only [splitSizes_eraseL]
  cases splitSizes cd.outSizes (compactOutput s cd dts nk now).1 with
  | none => rfl
  | some nt =>
    have hl : s.eraseVP.levels = s.levels.map (·.map Tbl.eraseVP) := rfl
    simp only [Option.map_some, withIds_eraseVP, hl, getD_map_levels, removeIdx_map,
      ← List.map_append, sortBySmallest_eraseVP, set_map_levels]
    split <;> rfl

theorem norm_step_compact (d : Db) (cd : CompactDef) :
    (d.step (.compact cd)).norm = (d.norm.step (.compact cd)).norm := by
  simp only [Db.step]
  have h : d.norm.lsm.compact cd d.norm.discardAtOrBelow d.norm.opts.numKeep d.norm.now =
      (d.lsm.compact cd d.discardAtOrBelow d.opts.numKeep d.now).map Lsm.eraseVP :=
    compact_eraseVP d.lsm cd _ _ _
  rw [h]
  cases d.lsm.compact cd d.discardAtOrBelow d.opts.numKeep d.now with
  | none => exact (norm_idem d).symm
  | some l =>
    simp only [Option.map_some]
    show ({ d with lsm := l } : Db).norm = ({ d.norm with lsm := l.eraseVP } : Db).norm
    simp only [Db.norm, Lsm.eraseVP_idem]

/-- operations covered by the simulation proof (everything except `DropAll`) -/
def Op.covered : Op → Bool
  | .dropAll => false    -- in memory `DropAll` also resets the threshold (finding F18)
  | _ => true

theorem norm_step_iter (d : Db) (id : Nat) (o : IterOpts) (seek : Option Bytes) :
    (d.step (.iter id o seek)).norm = d.norm.step (.iter id o seek) := by
  have hi := norm_iterate d id o seek
  simp only [Db.step, norm_findTxn]
  cases h1 : d.iterate id o seek with
  | none =>
    rw [h1] at hi
    cases h2 : d.norm.iterate id o seek with
    | none => rfl
    | some items' => rw [h2] at hi; cases hi
  | some items =>
    rw [h1] at hi
    cases h2 : d.norm.iterate id o seek with
    | none => rw [h2] at hi; cases hi
    | some items' =>
      rw [h2] at hi
      simp only [Option.map_some, Option.some.injEq] at hi
      cases d.findTxn id with
      | none => rfl
      | some t =>
        simp only
        have : iterReads seek items' = iterReads seek items := by
          rw [← iterReads_eraseL seek items', hi, iterReads_eraseL]
        rw [this]
        split <;> rfl

theorem norm_fix {a b : Db} (h : a.norm = b) : a.norm = b.norm := by rw [← h, norm_idem]

theorem C37_step_norm (d : Db) (op : Op) (hc : op.covered = true)
    (hset : ∀ id e, op = .set id e → (d.modify id e).2 = (d.norm.modify id e).2) :
    (d.step op).norm = (d.norm.step op).norm := by
  cases op with
  | begin id u m => exact norm_fix (norm_begin d id u m).1
  | set id e => exact norm_fix (norm_modify d id e (hset id e rfl))
  | get id k => exact norm_fix (norm_txnGet d id k).1
  | commit id m => exact (norm_commit d id m).1
  | discard id => exact norm_fix (norm_discardTxn d id)
  | iter id o seek => exact norm_fix (norm_step_iter d id o seek)
  | flush id =>
    simp only [Db.step]
    show ({ d with lsm := d.lsm.flush id } : Db).norm = ({ d.norm with lsm := d.norm.lsm.flush id } : Db).norm
    simp only [Db.norm, flush_eraseVP, Lsm.eraseVP_idem]
  | setNow t => simp only [Db.step]; show _ = ({ d.norm with now := t } : Db).norm; simp [Db.norm, Lsm.eraseVP_idem]
  | setDiscard ts =>
    simp only [Db.step]
    rw [norm_cleanup]
    show _ = (({ d.norm with discardTs := ts } : Db).cleanup).norm
    rw [norm_cleanup]
    congr 1
    simp [Db.norm, Lsm.eraseVP_idem]
  | compact cd => exact norm_step_compact d cd
  | dropAll => cases hc
  | dropPrefix n =>
    clear hc hset
    simp only [Db.step]
    induction n generalizing d with
    | zero => exact (norm_idem d).symm
    | succ n ih =>
      rw [List.replicate_succ, List.foldl_cons, List.foldl_cons]
      have hm : d.norm.opts.managed = d.opts.managed := rfl
      rw [hm]
      by_cases hmm : d.opts.managed = true
      · simp only [hmm, if_true]; exact ih d
      · simp only [hmm, Bool.false_eq_true, if_false]
        exact ih { d with readMark := (d.readMark.begin (d.nextTs - 1)).done (d.nextTs - 1) }

/-- the initial states of the two modes agree up to `norm` -/
theorem C37_init (o : Opts) (now : Nat) :
    (Db.init { o with inMemory := true } now).norm = (Db.init { o with inMemory := false } now).norm := rfl

/-- **Simulation step.** An in-memory and an on-disk database that agree up to `norm` still
    agree after the same operation, provided a `set` is accepted or rejected alike in both
    modes (the in-memory mode additionally rejects values longer than the threshold). -/
theorem C37_same_reads (dI dD : Db) (op : Op) (h : dI.norm = dD.norm) (hD : dD.opts.inMemory = false)
    (hc : op.covered = true)
    (hset : ∀ id e, op = .set id e → (dI.modify id e).2 = (dD.modify id e).2) :
    (dI.step op).norm = (dD.step op).norm := by
  rw [C37_step_norm dI op hc, C37_step_norm dD op hc, h]
  · intro id e _; exact (modify_verdict_disk dD id e hD).symm
  · intro id e he
    rw [hset id e he, h]; exact (modify_verdict_disk dD id e hD).symm

/-- …hence equal read results modulo the value-pointer bit: `DB.get`, `Txn.Get`, iterators. -/
theorem C37_same_get (dI dD : Db) (h : dI.norm = dD.norm) :
    (∀ k ts, (dI.lsm.get k ts).map Ent.eraseVP = (dD.lsm.get k ts).map Ent.eraseVP) ∧
    (∀ id k, ((dI.txnGet id k).2).eraseVP = ((dD.txnGet id k).2).eraseVP) ∧
    (∀ id o seek, (dI.iterate id o seek).map eraseL = (dD.iterate id o seek).map eraseL) := by
  refine ⟨?_, ?_, ?_⟩
  · intro k ts
    rw [← C37_get_eraseVP, ← C37_get_eraseVP]
    have : dI.norm.lsm = dD.norm.lsm := by rw [h]
    exact congrArg (fun s => s.get k ts) this
  · intro id k
    rw [← (norm_txnGet dI id k).2, ← (norm_txnGet dD id k).2, h]
  · intro id o seek
    rw [← norm_iterate dI, ← norm_iterate dD, h]

/-- the `set` verdicts agree along a whole run -/
def Agree : Db → Db → List Op → Prop
  | _, _, [] => True
  | dI, dD, op :: ops =>
    op.covered = true ∧ (∀ id e, op = .set id e → (dI.modify id e).2 = (dD.modify id e).2) ∧
      Agree (dI.step op) (dD.step op) ops

/-- **Simulation over histories**: for every operation sequence accepted alike in both modes the
    final states agree up to the value-pointer bit. -/
theorem C37_same_reads_run (dI dD : Db) (ops : List Op) (h : dI.norm = dD.norm)
    (hD : dD.opts.inMemory = false) (ha : Agree dI dD ops) :
    (dI.run ops).norm = (dD.run ops).norm := by
  induction ops generalizing dI dD with
  | nil => exact h
  | cons op ops ih =>
    obtain ⟨hc, hset, ha'⟩ := ha
    simp only [Db.run, List.foldl_cons]
    exact ih _ _ (C37_same_reads dI dD op h hD hc hset) (by rw [(step_opts dD op).2]; exact hD) ha'

-- non-vacuity: the same history in both modes (value of 3 bytes, threshold 2: a pointer on
-- disk, inline in memory — and a threshold large enough for the in-memory `set` to be accepted
-- is required, here the verdicts differ, which is exactly the excluded case)
example :
    let ops : List Op := [.begin 1 true 0,
      .set 1 { key := [0x61], ver := 0, emeta := 0, umeta := 7, exp := 0, val := [1, 2, 3] },
      .commit 1 0, .flush 1, .begin 2 false 0, .get 2 [0x61]]
    let dI := Db.init { inMemory := true, threshold := 3, maxBatchCount := 100, maxBatchSize := 100000 } 0
    let dD := Db.init { inMemory := false, threshold := 3, maxBatchCount := 100, maxBatchSize := 100000 } 0
    ((dI.run ops).lsm.get [0x61] 1).map (·.emeta) = some 64 ∧
    ((dD.run ops).lsm.get [0x61] 1).map (·.emeta) = some 66 ∧
    ((dI.run ops).lsm.get [0x61] 1).map (·.eraseVP.val) = ((dD.run ops).lsm.get [0x61] 1).map (·.eraseVP.val) := by
  decide

end Badger
