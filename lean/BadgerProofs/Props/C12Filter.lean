import BadgerProofs.Props.C13
/-!
# C12 (list level) — the compaction filter, the merge and `memPut` preserve reads

`newestLE es k ts` / `visible now` are the specification of a read (`Spec/Mvcc.lean`).

* filter: `subcompact` returns a sorted sublist, and a read at or above the discard watermark
  sees the same thing before and after (`C12_filter_reads`); the refined form
  `C12_filter_reads_refined` says *exactly* when the raw `newestLE` differs: only when the
  newest version `≤ ts` was a marker dead at `p.now`, dropped because `hasOverlap = false`, and
  then the filtered stream holds no version `≤ ts` of that key at all.
* merge: `mergeAll` of sorted sources is sorted, holds exactly the earliest-source copy of every
  `(key, ver)`, and serves the same reads as the sources searched in order.
* `memPut e m` is sorted insert-or-replace and reads like `e :: m`.
-/
namespace Badger

/-! ## (5) structure of the filter output -/

theorem filtRun_sublist (p : CParams) (st : FState) (es : List Ent) : (filtRun p st es).Sublist es := by
  induction es generalizing st with
  | nil => exact List.Sublist.refl _
  | cons e es ih =>
    rw [filtRun_cons]
    split
    · exact (ih _).cons_cons e
    · exact (ih _).cons e

/-- the filter only removes entries (no hypothesis on the stream or on `dropPrefixes`) -/
theorem C12_filter_sublist (p : CParams) (es : List Ent) : (subcompact p es).Sublist es :=
  filtRun_sublist p {} es

theorem C12_filter_sorted (p : CParams) {es : List Ent} (hs : SortedEnts es) :
    SortedEnts (subcompact p es) := hs.sublist (C12_filter_sublist p es)

theorem C12_filter_mem {p : CParams} {es : List Ent} {e : Ent} (h : e ∈ subcompact p es) : e ∈ es :=
  (C12_filter_sublist p es).subset h

/-! ## (4) reads through the filter -/

/-- dead on the compaction's clock ⇒ dead on any later clock -/
theorem deletedOrExpired_mono {m exp now₁ now₂ : Nat} (h : now₁ ≤ now₂)
    (hd : deletedOrExpired m exp now₁ = true) : deletedOrExpired m exp now₂ = true := by
  simp only [deletedOrExpired, Bool.or_eq_true, Bool.and_eq_true, bne_iff_ne, ne_eq,
    decide_eq_true_eq] at *
  rcases hd with hd | hd
  · exact .inl hd
  · exact .inr ⟨hd.1, by omega⟩

/-- **C12 (filter, refined)** — for a read at `ts ≥ discardTs` the filtered stream returns the
    very same entry as the input stream, except when that entry was a marker dead at `p.now`
    that the filter dropped because the key range has no overlap below (`hasOverlap = false`);
    in that case the filtered stream holds *nothing* for this read (every older version of the
    key went with the marker). -/
theorem C12_filter_reads_refined {p : CParams} {es : List Ent} (hs : SortedEnts es)
    (hp : p.dropPrefixes = []) {ts : Nat} (hts : p.discardTs ≤ ts) (k : Bytes) :
    newestLE (subcompact p es) k ts = newestLE es k ts ∨
      (newestLE (subcompact p es) k ts = none ∧ p.hasOverlap = false ∧
        ∃ e, newestLE es k ts = some e ∧ deletedOrExpired e.emeta e.exp p.now = true) := by
  have hso : SortedEnts (subcompact p es) := C12_filter_sorted p hs
  cases hr : newestLE es k ts with
  | none =>
    left
    rw [newestLE_eq_none_iff] at hr ⊢
    exact fun x hx => hr x (C12_filter_mem hx)
  | some e =>
    obtain ⟨hm, hk, hv, hmax⟩ := (newestLE_sorted_some_iff hs).mp hr
    -- `e` is not below a boundary: a stopper above it would be a newer candidate for the read
    have hnb : belowBoundary p es e = false := by
      cases hb : belowBoundary p es e with
      | false => rfl
      | true =>
        simp only [belowBoundary, List.any_eq_true, Bool.and_eq_true, decide_eq_true_eq] at hb
        obtain ⟨x, hx, ⟨hxk, hxv⟩, hst⟩ := hb
        simp only [stops, counted, Bool.and_eq_true, decide_eq_true_eq] at hst
        have := hmax x hx (hxk.trans hk) (by omega)
        omega
    by_cases hkeep : e ∈ subcompact p es
    · left
      rw [newestLE_sorted_some_iff hso]
      exact ⟨hkeep, hk, hv, fun x hx => hmax x (C12_filter_mem hx)⟩
    · right
      have hdrop : isBoundary p es e = true ∧ deadAt p e = true ∧ p.hasOverlap = false := by
        apply Classical.byContradiction
        intro hcon
        exact hkeep ((C13_keep_n hs hp e).mpr ⟨hm, hnb, hcon⟩)
      refine ⟨?_, hdrop.2.2, e, rfl, hdrop.2.1⟩
      rw [newestLE_eq_none_iff]
      intro x hx ⟨hxk, hxv⟩
      have hxe := (C13_keep_n hs hp x).mp hx
      have hle := hmax x hxe.1 hxk hxv
      have hne : x.ver ≠ e.ver := by
        intro h
        have := hs.eq_of_key_ver hxe.1 hm (hxk.trans hk.symm) h
        exact hkeep (this ▸ hx)
      have hbx : belowBoundary p es x = true := by
        simp only [belowBoundary, List.any_eq_true, Bool.and_eq_true, decide_eq_true_eq]
        refine ⟨e, hm, ⟨hk.trans hxk.symm, by omega⟩, ?_⟩
        have := hdrop.1
        simp only [isBoundary, Bool.and_eq_true] at this
        exact this.1
      rw [hxe.2.1] at hbx; cases hbx

/-- **C12 (filter)** — the compaction filter never changes what a read at or above the discard
    watermark returns, on any clock not earlier than the compaction's. -/
theorem C12_filter_reads {p : CParams} {es : List Ent} (hs : SortedEnts es)
    (hp : p.dropPrefixes = []) {ts now : Nat} (hts : p.discardTs ≤ ts) (hnow : p.now ≤ now)
    (k : Bytes) :
    visible now (newestLE (subcompact p es) k ts) = visible now (newestLE es k ts) := by
  rcases C12_filter_reads_refined hs hp hts k with h | ⟨h, _, e, he, hd⟩
  · rw [h]
  · rw [h, he]
    simp only [visible, deletedOrExpired_mono hnow hd, if_true]

/-! ## (6) the merge -/

theorem C12_merge_sorted {srcs : List (List Ent)} (h : ∀ s ∈ srcs, SortedEnts s) :
    SortedEnts (mergeAll srcs) := mergeAll_sorted h

/-- soundness: the merge invents nothing -/
theorem C12_merge_mem {e : Ent} {srcs : List (List Ent)} (h : e ∈ mergeAll srcs) :
    ∃ s ∈ srcs, e ∈ s := mem_mergeAll_imp h

theorem C12_merge_mem_flatten {e : Ent} {srcs : List (List Ent)} (h : e ∈ mergeAll srcs) :
    e ∈ srcs.flatten := by
  obtain ⟨s, hs, he⟩ := mem_mergeAll_imp h
  exact List.mem_flatten.mpr ⟨s, hs, he⟩

/-- exact membership, earliest source wins: `e` is in the merge iff it comes from a source such
    that no earlier source holds an entry with the same `(key, ver)`. -/
theorem C12_merge_mem_iff {e : Ent} {srcs : List (List Ent)} (h : ∀ s ∈ srcs, SortedEnts s) :
    e ∈ mergeAll srcs ↔
      ∃ pre s post, srcs = pre ++ s :: post ∧ e ∈ s ∧
        ∀ s' ∈ pre, ∀ y ∈ s', ¬(y.key = e.key ∧ y.ver = e.ver) := mem_mergeAll h

/-- completeness up to duplicates: every `(key, ver)` of every source occurs in the merge -/
theorem C12_merge_complete {srcs : List (List Ent)} (h : ∀ s ∈ srcs, SortedEnts s)
    {s : List Ent} (hs : s ∈ srcs) {e : Ent} (he : e ∈ s) :
    ∃ e' ∈ mergeAll srcs, e'.key = e.key ∧ e'.ver = e.ver := by
  induction srcs with
  | nil => cases hs
  | cons s0 rest ih =>
    have h0 := h s0 List.mem_cons_self
    have hrest : ∀ s' ∈ rest, SortedEnts s' := fun s' hs' => h s' (List.mem_cons_of_mem _ hs')
    rw [mergeAll_cons]
    by_cases hex : ∃ y ∈ s0, y.key = e.key ∧ y.ver = e.ver
    · obtain ⟨y, hy, hkv⟩ := hex
      exact ⟨y, (mem_merge2 h0 (mergeAll_sorted hrest)).mpr (.inl hy), hkv⟩
    · rcases List.mem_cons.mp hs with rfl | hs
      · exact absurd ⟨e, he, rfl, rfl⟩ hex
      · obtain ⟨e', he', hk, hv⟩ := ih hrest hs
        refine ⟨e', (mem_merge2 h0 (mergeAll_sorted hrest)).mpr (.inr ⟨he', ?_⟩), hk, hv⟩
        intro y hy hkv
        exact hex ⟨y, hy, hkv.1.trans hk, hkv.2.trans hv⟩

/-- the merge holds at most one entry per `(key, ver)` -/
theorem C12_merge_unique {srcs : List (List Ent)} (h : ∀ s ∈ srcs, SortedEnts s) {a b : Ent}
    (ha : a ∈ mergeAll srcs) (hb : b ∈ mergeAll srcs) (hk : a.key = b.key) (hv : a.ver = b.ver) :
    a = b := (mergeAll_sorted h).eq_of_key_ver ha hb hk hv

/-- **C12 (merge)** — the merged stream serves the same reads as the sources searched in order
    (plain equality: `merge2` keeps the left copy on equal `(key, ver)` and `newestLE` keeps the
    first maximal entry). -/
theorem C12_merge_reads {srcs : List (List Ent)} (h : ∀ s ∈ srcs, SortedEnts s) (k : Bytes)
    (ts : Nat) : newestLE (mergeAll srcs) k ts = newestLE srcs.flatten k ts :=
  newestLE_mergeAll h k ts

/-- two-way version -/
theorem C12_merge2_reads {a b : List Ent} (ha : SortedEnts a) (k : Bytes) (ts : Nat) :
    newestLE (merge2 a b) k ts = newestLE (a ++ b) k ts := by
  rw [newestLE_merge2 ha, newestLE_append]

/-! ## (7) `memPut` -/

theorem C12_memPut_sorted {e : Ent} {m : List Ent} (hs : SortedEnts m) : SortedEnts (memPut e m) :=
  memPut_sorted hs

/-- insert-or-replace -/
theorem C12_memPut_mem {e x : Ent} {m : List Ent} (hs : SortedEnts m) :
    x ∈ memPut e m ↔ x = e ∨ (x ∈ m ∧ ¬(x.key = e.key ∧ x.ver = e.ver)) := mem_memPut hs

/-- **C12 (memPut)** — exactly equal: a skiplist after `Put e` reads like the list with `e` put
    in front (where it wins the tie against the entry it replaces). Holds for any list. -/
theorem C12_memPut_reads (e : Ent) (m : List Ent) (k : Bytes) (ts : Nat) :
    newestLE (memPut e m) k ts = newestLE (e :: m) k ts := newestLE_memPut e m k ts

/-! ## non-vacuity / sanity -/

section Sanity

private def mk (k : Nat) (v : Nat) (m : Nat) (exp : Nat := 0) (val : Nat := 0) : Ent :=
  { key := [UInt8.ofNat k], ver := v, emeta := m, umeta := 0, exp := exp, val := [UInt8.ofNat val] }

private def sample : List Ent :=
  [mk 1 12 0, mk 1 9 0, mk 1 7 0, mk 1 5 0, mk 2 6 bitDelete, mk 2 4 0]

private def prm (ov : Bool) : CParams :=
  { discardTs := 10, numKeep := 2, hasOverlap := ov, now := 100, dropPrefixes := [] }

-- hypotheses of C12_filter_reads(_refined) are satisfiable, and both disjuncts occur
example : SortedEnts sample ∧ (prm false).dropPrefixes = [] ∧ (prm false).discardTs ≤ 10 := by decide
example : newestLE (subcompact (prm false) sample) [1] 11 = newestLE sample [1] 11 := by decide
example : newestLE (subcompact (prm false) sample) [2] 11 = none ∧
    newestLE sample [2] 11 = some (mk 2 6 bitDelete) := by decide
-- below the discard watermark the filter *does* change reads (so `discardTs ≤ ts` is needed)
example : newestLE (subcompact (prm false) sample) [1] 6 = none ∧
    newestLE sample [1] 6 = some (mk 1 5 0) := by decide
-- and on an earlier clock an expired-and-dropped entry would still be visible (`p.now ≤ now` is needed)
example : visible 40 (newestLE (subcompact (prm false) [mk 3 9 0 50]) [3] 11) = none ∧
    visible 40 (newestLE [mk 3 9 0 50] [3] 11) = some (mk 3 9 0 50) := by decide

-- merge: hypotheses satisfiable
example : ∀ s ∈ [[mk 1 9 0 0 1, mk 2 4 0], [mk 1 9 0 0 2, mk 1 7 0]], SortedEnts s := by decide

-- memPut replaces
example : memPut (mk 1 9 0 0 7) [mk 1 12 0, mk 1 9 0, mk 2 4 0] =
    [mk 1 12 0, mk 1 9 0 0 7, mk 2 4 0] := by decide

end Sanity

end Badger
