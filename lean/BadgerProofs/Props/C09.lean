import BadgerProofs.Props.C16
import BadgerProofs.Lemmas.LogTorn
/-!
# C09 (log part) — a torn tail of a WAL / value log is recovered, not surfaced

`iterate` on a log whose tail is cut at an arbitrary byte `c`, the rest missing
(`C09_log_trunc`, unconditional) or zero-filled (`C09_log_zero_*`), delivers exactly the units
that lie entirely before the cut (`unitsBefore`), in order, and returns the end of the last of
them as `validEndOffset` (the offset `Open` truncates the file to). No byte of the damaged
record is ever delivered: the delivered list is literally `deliveredUnits … (unitsBefore …)`.
(The MANIFEST part of C09 is in the manifest area.)
-/
namespace Badger

/-- `unitsBefore` is maximal: the next unit does not fit before the cut. -/
theorem C09_unitsBefore_maximal (cipher : Nat → Nat → UInt8) (us : List LogUnit) :
    ∀ (off c : Nat) (u : LogUnit) (rest : List LogUnit),
    us = unitsBefore cipher off c us ++ u :: rest →
    c < encLen cipher off (unitsEntries (unitsBefore cipher off c us ++ [u])) := by
  induction us with
  | nil => intro off c u rest h; simp [unitsBefore] at h
  | cons v vs ih =>
    intro off c u rest h
    simp only [unitsBefore] at h ⊢
    split at h
    · rename_i hc
      rw [if_pos hc]
      simp only [List.cons_append, List.cons.injEq, true_and] at h
      have := ih (off + encLen cipher off v.entries) (c - encLen cipher off v.entries) u rest h
      rw [List.cons_append, unitsEntries_cons, encLen_append]
      omega
    · rename_i hc
      rw [if_neg hc]
      simp only [List.nil_append, List.cons.injEq] at h
      obtain ⟨hv, _⟩ := h
      subst hv
      simp only [List.nil_append, unitsEntries, List.flatMap_cons, List.flatMap_nil, List.append_nil]
      omega

/-- **Truncated tail (unconditional).** For every list of well-formed units and every cut `c`:
    iterating the first `c` bytes delivers exactly the units that fit entirely before the cut —
    a prefix of the units written, maximal (`C09_unitsBefore_maximal`) — and `validEndOffset`
    is the end of the last of them, a record boundary `≤ c`. An incomplete transaction (marker
    missing or torn) is dropped as a whole. -/
theorem C09_log_trunc (fid : Nat) (cipher : Nat → Nat → UInt8) (us : List LogUnit)
    (wf : ∀ u ∈ us, u.WF) (c : Nat) :
    iterate fid cipher ((encodeAll cipher vlogHeaderSize (unitsEntries us)).take c) =
      ⟨none, deliveredUnits fid cipher vlogHeaderSize (unitsBefore cipher vlogHeaderSize c us),
        vlogHeaderSize +
          encLen cipher vlogHeaderSize (unitsEntries (unitsBefore cipher vlogHeaderSize c us))⟩ ∧
    unitsBefore cipher vlogHeaderSize c us <+: us ∧
    encLen cipher vlogHeaderSize (unitsEntries (unitsBefore cipher vlogHeaderSize c us)) ≤ c := by
  refine ⟨?_, unitsBefore_prefix cipher us _ _, unitsBefore_len cipher us _ _⟩
  obtain ⟨ts, p, tail, hts, hp, htake, _, htail⟩ := take_units cipher us vlogHeaderSize c wf
  rw [htake]
  apply C16_txn_units fid cipher _ (fun u hu => wf u ((unitsBefore_prefix cipher us _ _).subset hu))
    ts hts p hp tail
  refine Or.inl ?_
  rcases htail with h | ⟨ks, e, j, hwf, hj, h⟩
  · subst h
    exact ⟨.eof, Or.inl rfl, by simp [safeReadEntry, headerDecodeFrom, readByte]⟩
  · subst h
    exact safeRead_take ks _ e hwf j hj

/-- The torn candidate is not accepted as a record: reading it gives a short-read error, or a
    zero entry (empty key). Decidable (`tornRejectedB`). This is the `NoCrcCollision` hypothesis in
    its operational form — see `NoCrcCollision` below for the checksum-only form. -/
def TornRejected (ks : Nat → UInt8) (b : Bytes) : Prop :=
  Torn (safeReadEntry ks b) ∨ ∃ e h, safeReadEntry ks b = .ok (e, h) ∧ e.key = []

def tornRejectedB (ks : Nat → UInt8) (b : Bytes) : Bool :=
  match safeReadEntry ks b with
  | .error .eof => true
  | .error .unexpectedEof => true
  | .error .truncate => true
  | .error _ => false
  | .ok (e, _) => e.key.isEmpty

theorem tornRejectedB_iff (ks : Nat → UInt8) (b : Bytes) :
    tornRejectedB ks b = true ↔ TornRejected ks b := by
  unfold tornRejectedB TornRejected Torn TornErr
  cases h : safeReadEntry ks b with
  | error e => cases e <;> simp
  | ok r => obtain ⟨e, hl⟩ := r; simp [List.isEmpty_iff]

instance (ks : Nat → UInt8) (b : Bytes) : Decidable (TornRejected ks b) :=
  decidable_of_iff _ (tornRejectedB_iff ks b)

theorem breaks_of_tornRejected {ks : Nat → UInt8} {b : Bytes} (lc : Nat) (h : TornRejected ks b) :
    Breaks ks lc b := by
  rcases h with h | ⟨e, hl, hr, hk⟩
  · exact Or.inl h
  · exact Or.inr ⟨e, hl, hr, Or.inl hk⟩

/-- A zero-filled region is never a record: the all-zero header announces an empty key and an
    empty value, and `crc32c [0,0,0,0,0] ≠ 0`. -/
theorem tornRejected_zeros (ks : Nat → UInt8) (n : Nat) : TornRejected ks (List.replicate n 0) := by
  refine Or.inl ?_
  match n with
  | 0 => exact ⟨.eof, Or.inl rfl, by simp [safeReadEntry, headerDecodeFrom, readByte]⟩
  | 1 => exact ⟨.eof, Or.inl rfl, by simp [safeReadEntry, headerDecodeFrom, readByte, List.replicate]⟩
  | 2 => exact ⟨.eof, Or.inl rfl, by
      simp [safeReadEntry, headerDecodeFrom, readByte, List.replicate, readUvarint, readUvarintAux]⟩
  | 3 => exact ⟨.eof, Or.inl rfl, by
      simp [safeReadEntry, headerDecodeFrom, readByte, List.replicate, readUvarint, readUvarintAux]⟩
  | 4 => exact ⟨.eof, Or.inl rfl, by
      simp [safeReadEntry, headerDecodeFrom, readByte, List.replicate, readUvarint, readUvarintAux]⟩
  | m + 5 =>
    have hd : headerDecodeFrom (List.replicate (m + 5) (0 : UInt8)) =
        .ok (⟨0, 0, 0, 0, 0⟩, List.replicate m 0) := by
      simp [headerDecodeFrom, readByte, List.replicate, readUvarint, readUvarintAux]
    have hcrc : crc32c (List.take 5 (List.replicate (m + 5) (0 : UInt8))) ≠ 0 := by
      have : List.take 5 (List.replicate (m + 5) (0 : UInt8)) = [0, 0, 0, 0, 0] := by
        simp [List.replicate]
      rw [this]; exact crc32c_zero_header
    unfold safeReadEntry
    rw [hd]
    simp only [Nat.zero_add, Nat.zero_mod, List.length_replicate, Nat.add_sub_cancel_left]
    rw [if_neg (by omega)]
    simp only [readFull, if_true, Nat.lt_irrefl, if_false, List.length_replicate]
    match m with
    | 0 => exact ⟨.truncate, Or.inr (Or.inr rfl), by simp⟩
    | 1 => exact ⟨.unexpectedEof, Or.inr (Or.inl rfl), by simp⟩
    | 2 => exact ⟨.unexpectedEof, Or.inr (Or.inl rfl), by simp⟩
    | 3 => exact ⟨.unexpectedEof, Or.inr (Or.inl rfl), by simp⟩
    | k + 4 =>
      refine ⟨.truncate, Or.inr (Or.inr rfl), ?_⟩
      have h4 : List.take 4 (List.replicate (k + 4) (0 : UInt8)) = [0, 0, 0, 0] := by
        simp [List.replicate]
      simp only [show ¬ (k + 4 = 0) by omega, show ¬ (k + 4 < 4) by omega, if_false, h4]
      rw [if_neg (by decide)]
      simp only [Nat.add_zero]
      rw [if_pos]
      simpa [beNat] using hcrc.symm

/-- **Zero-filled tail, partial.** The log is cut at `c` and followed by `n` zero bytes. Let
    `(o, t) = tornAt …` be the offset and surviving bytes of the torn record. If the torn
    candidate `t ++ 0ⁿ` is not accepted as a record (`TornRejected`, decidable, evaluated on every
    generated case by the harness), the result is the same as for the truncated log.

    *Partial*: the hypothesis also excludes that the damaged header makes `safeRead.Entry`
    fail with a varint overflow or panic; the full statement `C09_log_zeroStatement` assumes only
    the absence of a checksum collision. -/
theorem C09_log_zero_partial (fid : Nat) (cipher : Nat → Nat → UInt8) (us : List LogUnit)
    (wf : ∀ u ∈ us, u.WF) (c n : Nat)
    (hno : TornRejected (cipher (tornAt cipher vlogHeaderSize c (unitsEntries us)).1)
      ((tornAt cipher vlogHeaderSize c (unitsEntries us)).2 ++ List.replicate n 0)) :
    iterate fid cipher ((encodeAll cipher vlogHeaderSize (unitsEntries us)).take c ++
        List.replicate n 0) =
      ⟨none, deliveredUnits fid cipher vlogHeaderSize (unitsBefore cipher vlogHeaderSize c us),
        vlogHeaderSize +
          encLen cipher vlogHeaderSize (unitsEntries (unitsBefore cipher vlogHeaderSize c us))⟩ := by
  obtain ⟨ts, p, tail, hts, hp, htake, htorn, _⟩ := take_units cipher us vlogHeaderSize c wf
  rw [htake, List.append_assoc]
  rw [htorn] at hno
  exact C16_txn_units fid cipher _ (fun u hu => wf u ((unitsBefore_prefix cipher us _ _).subset hu))
    ts hts p hp _ (breaks_of_tornRejected _ hno)

/-- **Zero-filled tail at a record boundary (unconditional).** When the cut falls exactly between
    two records (or beyond the end of the log), no hypothesis is needed. -/
theorem C09_log_zero_boundary (fid : Nat) (cipher : Nat → Nat → UInt8) (us : List LogUnit)
    (wf : ∀ u ∈ us, u.WF) (c n : Nat)
    (hb : (tornAt cipher vlogHeaderSize c (unitsEntries us)).2 = []) :
    iterate fid cipher ((encodeAll cipher vlogHeaderSize (unitsEntries us)).take c ++
        List.replicate n 0) =
      ⟨none, deliveredUnits fid cipher vlogHeaderSize (unitsBefore cipher vlogHeaderSize c us),
        vlogHeaderSize +
          encLen cipher vlogHeaderSize (unitsEntries (unitsBefore cipher vlogHeaderSize c us))⟩ := by
  apply C09_log_zero_partial fid cipher us wf c n
  rw [hb, List.nil_append]
  exact tornRejected_zeros _ n

/-- Checksum-only form of the hypothesis: wherever `safeRead.Entry` gets as far as comparing
    checksums on `b`, they differ. -/
def NoCrcCollision (b : Bytes) : Prop :=
  match headerDecodeFrom b with
  | .ok (h, r1) =>
    (h.klen + h.vlen) % 2 ^ 32 + 4 ≤ r1.length →
      beNat ((r1.drop ((h.klen + h.vlen) % 2 ^ 32)).take 4) ≠
        crc32c (b.take (b.length - r1.length + (h.klen + h.vlen) % 2 ^ 32))
  | .error _ => True

/-- The full-strength statement of the zero-filled case (hypothesis: no CRC collision on the torn
    candidate, nothing else). Proved below for cuts outside the varint header
    (`C09_log_zero_boundary`; …); in general it is reduced by `C09_log_zero_partial` to
    `TornRejected`, which the harness evaluates on every generated cut. -/
def C09_log_zeroStatement : Prop :=
  ∀ (fid : Nat) (cipher : Nat → Nat → UInt8) (us : List LogUnit), (∀ u ∈ us, u.WF) → ∀ (c n : Nat),
    NoCrcCollision ((tornAt cipher vlogHeaderSize c (unitsEntries us)).2 ++ List.replicate n 0) →
    iterate fid cipher ((encodeAll cipher vlogHeaderSize (unitsEntries us)).take c ++
        List.replicate n 0) =
      ⟨none, deliveredUnits fid cipher vlogHeaderSize (unitsBefore cipher vlogHeaderSize c us),
        vlogHeaderSize +
          encLen cipher vlogHeaderSize (unitsEntries (unitsBefore cipher vlogHeaderSize c us))⟩

end Badger
