import BadgerProofs.Props.C16
import BadgerProofs.Lemmas.LogZero
/-!
# C09 (log part) — a torn tail of a WAL / value log is recovered, not surfaced

`iterate` on a log whose tail is cut at an arbitrary byte `c`, the rest missing
(`C09_log_trunc`, unconditional) or zero-filled (`C09_log_zero_*`), delivers exactly the units
that lie entirely before the cut (`unitsBefore`), in order, and returns the end of the last of
them as `validEndOffset` (the offset `Open` truncates the file to). No byte of the damaged
record is ever delivered: the delivered list is literally `deliveredUnits … (unitsBefore …)`.
(The MANIFEST part of C09 is in the manifest area.)
-/
namespace Badger

/-- `unitsBefore` is maximal: the next unit does not fit before the cut. -/
theorem C09_unitsBefore_maximal (cipher : Nat → Nat → UInt8) (us : List LogUnit) :
    ∀ (off c : Nat) (u : LogUnit) (rest : List LogUnit),
    us = unitsBefore cipher off c us ++ u :: rest →
    c < encLen cipher off (unitsEntries (unitsBefore cipher off c us ++ [u])) := by
  induction us with
  | nil => intro off c u rest h; simp [unitsBefore] at h
  | cons v vs ih =>
    intro off c u rest h
    simp only [unitsBefore] at h ⊢
    split at h
    · rename_i hc
      rw [if_pos hc]
      simp only [List.cons_append, List.cons.injEq, true_and] at h
      have := ih (off + encLen cipher off v.entries) (c - encLen cipher off v.entries) u rest h
      rw [List.cons_append, unitsEntries_cons, encLen_append]
      omega
    · rename_i hc
      rw [if_neg hc]
      simp only [List.nil_append, List.cons.injEq] at h
      obtain ⟨hv, _⟩ := h
      subst hv
      simp only [List.nil_append, unitsEntries, List.flatMap_cons, List.flatMap_nil, List.append_nil]
      omega

/-- **Truncated tail (unconditional).** For every list of well-formed units and every cut `c`:
    iterating the first `c` bytes delivers exactly the units that fit entirely before the cut —
    a prefix of the units written, maximal (`C09_unitsBefore_maximal`) — and `validEndOffset`
    is the end of the last of them, a record boundary `≤ c`. An incomplete transaction (marker
    missing or torn) is dropped as a whole. -/
theorem C09_log_trunc (fid : Nat) (cipher : Nat → Nat → UInt8) (us : List LogUnit)
    (wf : ∀ u ∈ us, u.WF) (c : Nat) :
    iterate fid cipher ((encodeAll cipher vlogHeaderSize (unitsEntries us)).take c) =
      ⟨none, deliveredUnits fid cipher vlogHeaderSize (unitsBefore cipher vlogHeaderSize c us),
        vlogHeaderSize +
          encLen cipher vlogHeaderSize (unitsEntries (unitsBefore cipher vlogHeaderSize c us))⟩ ∧
    unitsBefore cipher vlogHeaderSize c us <+: us ∧
    encLen cipher vlogHeaderSize (unitsEntries (unitsBefore cipher vlogHeaderSize c us)) ≤ c := by
  refine ⟨?_, unitsBefore_prefix cipher us _ _, unitsBefore_len cipher us _ _⟩
  obtain ⟨ts, p, tail, hts, hp, htake, _, htail⟩ := take_units cipher us vlogHeaderSize c wf
  rw [htake]
  apply C16_txn_units fid cipher _ (fun u hu => wf u ((unitsBefore_prefix cipher us _ _).subset hu))
    ts hts p hp tail
  refine Or.inl ?_
  rcases htail with h | ⟨ks, e, j, hwf, hj, h⟩
  · subst h
    exact ⟨.eof, Or.inl rfl, by simp [safeReadEntry, headerDecodeFrom, readByte]⟩
  · subst h
    exact safeRead_take ks _ e hwf j hj

/-- **Zero-filled tail, operational form.** The log is cut at `c` and followed by `n` zero bytes.
    Let `(o, t) = tornAt …` be the offset and surviving bytes of the torn record. If the torn
    candidate `t ++ 0ⁿ` is not accepted as a record (`TornRejected`, decidable), the result is the
    same as for the truncated log. `C09_log_zero` below discharges `TornRejected` from the
    checksum-only hypothesis `NoCrcCollision`. -/
theorem C09_log_zero_operational (fid : Nat) (cipher : Nat → Nat → UInt8) (us : List LogUnit)
    (wf : ∀ u ∈ us, u.WF) (c n : Nat)
    (hno : TornRejected (cipher (tornAt cipher vlogHeaderSize c (unitsEntries us)).1)
      ((tornAt cipher vlogHeaderSize c (unitsEntries us)).2 ++ List.replicate n 0)) :
    iterate fid cipher ((encodeAll cipher vlogHeaderSize (unitsEntries us)).take c ++
        List.replicate n 0) =
      ⟨none, deliveredUnits fid cipher vlogHeaderSize (unitsBefore cipher vlogHeaderSize c us),
        vlogHeaderSize +
          encLen cipher vlogHeaderSize (unitsEntries (unitsBefore cipher vlogHeaderSize c us))⟩ := by
  obtain ⟨ts, p, tail, hts, hp, htake, htorn, _⟩ := take_units cipher us vlogHeaderSize c wf
  rw [htake, List.append_assoc]
  rw [htorn] at hno
  exact C16_txn_units fid cipher _ (fun u hu => wf u ((unitsBefore_prefix cipher us _ _).subset hu))
    ts hts p hp _ (breaks_of_tornRejected _ hno)

/-- **Zero-filled tail at a record boundary (unconditional).** When the cut falls exactly between
    two records (or beyond the end of the log), no hypothesis is needed. -/
theorem C09_log_zero_boundary (fid : Nat) (cipher : Nat → Nat → UInt8) (us : List LogUnit)
    (wf : ∀ u ∈ us, u.WF) (c n : Nat)
    (hb : (tornAt cipher vlogHeaderSize c (unitsEntries us)).2 = []) :
    iterate fid cipher ((encodeAll cipher vlogHeaderSize (unitsEntries us)).take c ++
        List.replicate n 0) =
      ⟨none, deliveredUnits fid cipher vlogHeaderSize (unitsBefore cipher vlogHeaderSize c us),
        vlogHeaderSize +
          encLen cipher vlogHeaderSize (unitsEntries (unitsBefore cipher vlogHeaderSize c us))⟩ := by
  apply C09_log_zero_operational fid cipher us wf c n
  rw [hb, List.nil_append]
  exact tornRejected_zeros _ n

/-- **Zero-filled tail, full strength.** The log is cut at `c` and followed by `n` zero bytes.
    Under the sole hypothesis that the torn candidate record (`tornAt`: the surviving bytes of the
    first record that does not lie entirely before the cut, completed by the zeros) has no CRC
    collision — wherever `safeRead.Entry` gets as far as comparing checksums on it, they differ —
    `iterate` delivers exactly the units before the cut and returns the end of the last one.
    (`NoCrcCollision` is decidable; it is false e.g. when the lost bytes were zeros anyway, in
    which case nothing was damaged.) -/
theorem C09_log_zero (fid : Nat) (cipher : Nat → Nat → UInt8) (us : List LogUnit)
    (wf : ∀ u ∈ us, u.WF) (c n : Nat)
    (hno : NoCrcCollision ((tornAt cipher vlogHeaderSize c (unitsEntries us)).2 ++ List.replicate n 0)) :
    iterate fid cipher ((encodeAll cipher vlogHeaderSize (unitsEntries us)).take c ++
        List.replicate n 0) =
      ⟨none, deliveredUnits fid cipher vlogHeaderSize (unitsBefore cipher vlogHeaderSize c us),
        vlogHeaderSize +
          encLen cipher vlogHeaderSize (unitsEntries (unitsBefore cipher vlogHeaderSize c us))⟩ := by
  apply C09_log_zero_operational fid cipher us wf c n
  obtain ⟨ts, p, tail, _, _, _, htorn, htail⟩ := take_units cipher us vlogHeaderSize c wf
  rw [htorn] at hno ⊢
  simp only at hno ⊢
  rcases htail with h | ⟨ks, e, j, hwf, _, h⟩
  · subst h; simpa using tornRejected_zeros _ n
  · subst h; exact tornRejected_take_zeros ks _ e hwf j n hno

-- non-vacuity: a concrete cut log. Two units; the cut falls inside the end marker of the second.
set_option maxRecDepth 100000 in
example : (iterate 1 (fun _ => noKs)
    ((encodeAll (fun _ => noKs) 20 (unitsEntries exUnits)).take 70 ++ List.replicate 30 0)).endOffset = 40 := by
  decide

end Badger
