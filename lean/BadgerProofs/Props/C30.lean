import BadgerModel.Sequence
/-!
# C30 — sequence numbers are unique and increasing, across objects, restarts and crashes

The lease machine of `BadgerModel/Sequence.lean`. `updateLease` is today's code (lease fields
assigned after `db.Update` returned nil — badger commit 54a0fc5, the fix of finding F9),
`updateLeaseOld` the code before that commit (fields assigned inside the closure).

* `C30_unique`, `C30_monotone`: today's code, for every operation sequence (any number of
  objects, any transaction outcomes `ok | conflict`, drops, restarts/crashes).
* `C30_unique_old_counterexample`, `C30_monotone_old_counterexample`: the old code violated both
  as soon as one `updateLease` transaction got `ErrConflict` (finding F9, historical witness;
  `corpus/C30/f09.ops` is the same script as a regression test).
* `C30_unique_old_no_conflict`, `C30_monotone_old_no_conflict`: the old code was right on runs
  without a refused lease transaction.

Hypothesis `RunOk`: no lease computation overflows `uint64` (the code computes
`next + seq.bandwidth` in `uint64`; after `2^64` numbers uniqueness is impossible anyway).
-/
namespace Badger

/-- the lease computed by this step does not wrap around `2^64` -/
def SeqSys.StepOk (s : SeqSys) : SeqOp → Prop
  | .new _ bw _ => s.stored.getD 0 + bw < 2 ^ 64
  | .next id _ => ∀ o, s.find id = some o → s.stored.getD 0 + o.bandwidth < 2 ^ 64
  | _ => True

def RunOk (lf : LeaseFn) : SeqSys → List SeqOp → Prop
  | _, [] => True
  | s, op :: ops => s.StepOk op ∧ RunOk lf (s.step lf op) ops

/-- no number is handed out twice (by any object, before or after any restart) -/
def SeqSys.Unique (s : SeqSys) : Prop := (s.handed.map (·.2)).Nodup

/-- every object's numbers are strictly increasing -/
def SeqSys.Monotone (s : SeqSys) : Prop := ∀ id, (s.handedBy id).Pairwise (· < ·)

def SeqOp.out? : SeqOp → Option TxnOut
  | .new _ _ o => some o
  | .next _ o => some o
  | .release _ o => some o
  | _ => none

/-- every transaction of the run commits -/
def NoConflict (ops : List SeqOp) : Prop := ∀ op ∈ ops, op.out? = some .ok ∨ op.out? = none

def C30_uniqueStatement (lf : LeaseFn) : Prop :=
  ∀ ops, RunOk lf {} ops → (SeqSys.run lf {} ops).Unique

def C30_monotoneStatement (lf : LeaseFn) : Prop :=
  ∀ ops, RunOk lf {} ops → (SeqSys.run lf {} ops).Monotone

/-! ## `put` / `find` / `handedBy` -/

theorem SeqSys.mem_put {s : SeqSys} {o x : SeqObj} :
    x ∈ (s.put o).objs ↔ x = o ∨ (x ∈ s.objs ∧ x.id ≠ o.id) := by
  simp [SeqSys.put, List.mem_filter]

theorem SeqSys.find_some {s : SeqSys} {id : Nat} {o : SeqObj} (h : s.find id = some o) :
    o ∈ s.objs ∧ o.id = id := by
  unfold SeqSys.find at h
  exact ⟨List.mem_of_find?_eq_some h, by simpa using List.find?_some h⟩

theorem SeqSys.mem_handedBy {s : SeqSys} {id a : Nat} :
    a ∈ s.handedBy id ↔ ∃ p ∈ s.handed, p.1 = id ∧ p.2 = a := by
  simp [SeqSys.handedBy, List.mem_filter, and_assoc]

theorem SeqSys.handedBy_congr {s s' : SeqSys} (hh : s'.handed = s.handed) (id : Nat) :
    s'.handedBy id = s.handedBy id := by
  unfold SeqSys.handedBy; rw [hh]

theorem SeqSys.handedBy_append {s s' : SeqSys} {i v : Nat} (hh : s'.handed = s.handed ++ [(i, v)])
    (id : Nat) : s'.handedBy id = s.handedBy id ++ (if i = id then [v] else []) := by
  unfold SeqSys.handedBy; rw [hh]
  by_cases hi : i = id <;> simp [List.filter_append, hi]

/-! ## The invariant of the lease machine (today's `updateLease`)

`S = s.stored.getD 0` is the stored lease. Live objects hold the half-open interval
`[next, leased)` of numbers they may still hand out without a transaction. -/

structure SeqSys.Inv (s : SeqSys) : Prop where
  sLt : s.stored.getD 0 < 2 ^ 64
  bwPos : ∀ o ∈ s.objs, 0 < o.bandwidth
  liveUsed : ∀ o ∈ s.objs, o.id ∈ s.usedIds
  handUsed : ∀ p ∈ s.handed, p.1 ∈ s.usedIds
  nextLe : ∀ o ∈ s.objs, o.next ≤ o.leased
  /-- a non-empty remaining interval lies below the stored lease -/
  leaseLe : ∀ o ∈ s.objs, o.next < o.leased → o.leased ≤ s.stored.getD 0
  /-- every number handed out lies below the stored lease -/
  handLt : ∀ p ∈ s.handed, p.2 < s.stored.getD 0
  /-- no number handed out lies in a remaining interval -/
  notIn : ∀ o ∈ s.objs, ∀ p ∈ s.handed, ¬ (o.next ≤ p.2 ∧ p.2 < o.leased)
  /-- remaining intervals of distinct objects are disjoint -/
  disj : ∀ o ∈ s.objs, ∀ p ∈ s.objs, o.id ≠ p.id → o.next < o.leased → p.next < p.leased →
    o.leased ≤ p.next ∨ p.leased ≤ o.next
  uniq : (s.handed.map (·.2)).Nodup
  /-- what an object handed out lies below its `next` -/
  own : ∀ o ∈ s.objs, ∀ p ∈ s.handed, p.1 = o.id → p.2 < o.next
  mono : ∀ id, (s.handedBy id).Pairwise (· < ·)

theorem SeqSys.inv_init : ({} : SeqSys).Inv := by
  constructor <;> simp [SeqSys.handedBy]

/-- objects disappear (drop, restart), are reordered, or fresh *empty* objects appear -/
theorem SeqSys.inv_weaken {s s' : SeqSys} (h : s.Inv)
    (hst : s'.stored = s.stored) (hh : s'.handed = s.handed)
    (hu : ∀ i ∈ s.usedIds, i ∈ s'.usedIds)
    (hobjs : ∀ x ∈ s'.objs, x ∈ s.objs ∨
      (x.next = x.leased ∧ 0 < x.bandwidth ∧ x.id ∉ s.usedIds ∧ x.id ∈ s'.usedIds)) :
    s'.Inv := by
  constructor
  · rw [hst]; exact h.sLt
  · intro x hx
    rcases hobjs x hx with hx | ⟨_, hb, _, _⟩
    · exact h.bwPos x hx
    · exact hb
  · intro x hx
    rcases hobjs x hx with hx | ⟨_, _, _, hi⟩
    · exact hu _ (h.liveUsed x hx)
    · exact hi
  · intro p hp; rw [hh] at hp; exact hu _ (h.handUsed p hp)
  · intro x hx
    rcases hobjs x hx with hx | ⟨he, _, _, _⟩
    · exact h.nextLe x hx
    · omega
  · intro x hx hlt
    rw [hst]
    rcases hobjs x hx with hx | ⟨he, _, _, _⟩
    · exact h.leaseLe x hx hlt
    · omega
  · intro p hp; rw [hh] at hp; rw [hst]; exact h.handLt p hp
  · intro x hx p hp
    rw [hh] at hp
    rcases hobjs x hx with hx | ⟨he, _, _, _⟩
    · exact h.notIn x hx p hp
    · omega
  · intro x hx y hy hne hxl hyl
    rcases hobjs x hx with hx | ⟨he, _, _, _⟩
    · rcases hobjs y hy with hy | ⟨he, _, _, _⟩
      · exact h.disj x hx y hy hne hxl hyl
      · omega
    · omega
  · rw [hh]; exact h.uniq
  · intro x hx p hp hid
    rw [hh] at hp
    rcases hobjs x hx with hx | ⟨_, _, hn, _⟩
    · exact h.own x hx p hp hid
    · exact absurd (hid ▸ h.handUsed p hp) hn
  · intro id; rw [SeqSys.handedBy_congr hh]; exact h.mono id

/-- a committed lease transaction: the object `o'` now holds `[S, S + bandwidth)` and the
    stored lease is `S + bandwidth` -/
theorem SeqSys.inv_lease {s s' : SeqSys} {o' : SeqObj} (h : s.Inv)
    (hbw : 0 < o'.bandwidth)
    (hlt : s.stored.getD 0 + o'.bandwidth < 2 ^ 64)
    (hn : o'.next = s.stored.getD 0)
    (hl : o'.leased = u64 (s.stored.getD 0 + o'.bandwidth))
    (hst : s'.stored = some (u64 (s.stored.getD 0 + o'.bandwidth)))
    (hh : s'.handed = s.handed)
    (hu : ∀ i ∈ s.usedIds, i ∈ s'.usedIds)
    (hid : o'.id ∈ s'.usedIds)
    (hobjs : ∀ x ∈ s'.objs, x = o' ∨ x ∈ s.objs) :
    s'.Inv := by
  have hu64 : u64 (s.stored.getD 0 + o'.bandwidth) = s.stored.getD 0 + o'.bandwidth :=
    Nat.mod_eq_of_lt hlt
  rw [hu64] at hl hst
  have hS' : s'.stored.getD 0 = s.stored.getD 0 + o'.bandwidth := by rw [hst]; rfl
  constructor
  · rw [hS']; exact hlt
  · intro x hx
    rcases hobjs x hx with rfl | hx
    · exact hbw
    · exact h.bwPos x hx
  · intro x hx
    rcases hobjs x hx with rfl | hx
    · exact hid
    · exact hu _ (h.liveUsed x hx)
  · intro p hp; rw [hh] at hp; exact hu _ (h.handUsed p hp)
  · intro x hx
    rcases hobjs x hx with rfl | hx
    · omega
    · exact h.nextLe x hx
  · intro x hx hxl
    rw [hS']
    rcases hobjs x hx with rfl | hx
    · omega
    · have := h.leaseLe x hx hxl; omega
  · intro p hp; rw [hh] at hp; rw [hS']; have := h.handLt p hp; omega
  · intro x hx p hp
    rw [hh] at hp
    rcases hobjs x hx with rfl | hx
    · have := h.handLt p hp; omega
    · exact h.notIn x hx p hp
  · intro x hx y hy hne hxl hyl
    rcases hobjs x hx with rfl | hx
    · rcases hobjs y hy with rfl | hy
      · exact absurd rfl hne
      · have := h.leaseLe y hy hyl; omega
    · rcases hobjs y hy with rfl | hy
      · have := h.leaseLe x hx hxl; omega
      · exact h.disj x hx y hy hne hxl hyl
  · rw [hh]; exact h.uniq
  · intro x hx p hp hpid
    rw [hh] at hp
    rcases hobjs x hx with rfl | hx
    · have := h.handLt p hp; omega
    · exact h.own x hx p hp hpid
  · intro id; rw [SeqSys.handedBy_congr hh]; exact h.mono id

/-- `Next` inside a lease: the object `o` with a non-empty interval hands out `o.next` -/
theorem SeqSys.inv_hand {s s' : SeqSys} {o : SeqObj} (h : s.Inv) (ho : o ∈ s.objs)
    (hlt : o.next < o.leased)
    (hst : s'.stored = s.stored) (hu : s'.usedIds = s.usedIds)
    (hh : s'.handed = s.handed ++ [(o.id, o.next)])
    (hobjs : ∀ x ∈ s'.objs, x = { o with next := u64 (o.next + 1) } ∨ (x ∈ s.objs ∧ x.id ≠ o.id)) :
    s'.Inv := by
  have hle := h.leaseLe o ho hlt
  have hS := h.sLt
  have hu64 : u64 (o.next + 1) = o.next + 1 := Nat.mod_eq_of_lt (by omega)
  rw [hu64] at hobjs
  have hmem : ∀ p ∈ s'.handed, p ∈ s.handed ∨ p = (o.id, o.next) := by
    intro p hp; rw [hh] at hp; simpa using hp
  constructor
  · rw [hst]; exact hS
  · intro x hx
    rcases hobjs x hx with rfl | ⟨hx, _⟩
    · exact h.bwPos o ho
    · exact h.bwPos x hx
  · intro x hx
    rw [hu]
    rcases hobjs x hx with rfl | ⟨hx, _⟩
    · exact h.liveUsed o ho
    · exact h.liveUsed x hx
  · intro p hp
    rw [hu]
    rcases hmem p hp with hp | rfl
    · exact h.handUsed p hp
    · exact h.liveUsed o ho
  · intro x hx
    rcases hobjs x hx with rfl | ⟨hx, _⟩
    · show o.next + 1 ≤ o.leased; omega
    · exact h.nextLe x hx
  · intro x hx hxl
    rw [hst]
    rcases hobjs x hx with rfl | ⟨hx, _⟩
    · exact hle
    · exact h.leaseLe x hx hxl
  · intro p hp
    rw [hst]
    rcases hmem p hp with hp | rfl
    · exact h.handLt p hp
    · show o.next < _; omega
  · intro x hx p hp
    rcases hobjs x hx with rfl | ⟨hx, hne⟩
    · rcases hmem p hp with hp | rfl
      · have := h.notIn o ho p hp
        show ¬ (o.next + 1 ≤ p.2 ∧ p.2 < o.leased); omega
      · show ¬ (o.next + 1 ≤ o.next ∧ o.next < o.leased); omega
    · rcases hmem p hp with hp | rfl
      · exact h.notIn x hx p hp
      · show ¬ (x.next ≤ o.next ∧ o.next < x.leased)
        intro ⟨h1, h2⟩
        have := h.disj o ho x hx (fun e => hne e.symm) hlt (by omega)
        omega
  · intro x hx y hy hne hxl hyl
    rcases hobjs x hx with rfl | ⟨hx, hxne⟩
    · rcases hobjs y hy with rfl | ⟨hy, hyne⟩
      · exact absurd rfl hne
      · have := h.disj o ho y hy (fun e => hyne e.symm) hlt hyl
        show o.leased ≤ y.next ∨ y.leased ≤ o.next + 1; omega
    · rcases hobjs y hy with rfl | ⟨hy, hyne⟩
      · have := h.disj x hx o ho hxne hxl hlt
        show x.leased ≤ o.next + 1 ∨ o.leased ≤ x.next; omega
      · exact h.disj x hx y hy hne hxl hyl
  · rw [hh, List.map_append, List.nodup_append]
    refine ⟨h.uniq, by simp, ?_⟩
    intro a ha b hb
    simp only [List.map_cons, List.map_nil, List.mem_singleton] at hb
    obtain ⟨p, hp, rfl⟩ := List.mem_map.1 ha
    have := h.notIn o ho p hp
    omega
  · intro x hx p hp hpid
    rcases hobjs x hx with rfl | ⟨hx, hne⟩
    · rcases hmem p hp with hp | rfl
      · have := h.own o ho p hp hpid
        show p.2 < o.next + 1; omega
      · show o.next < o.next + 1; omega
    · rcases hmem p hp with hp | rfl
      · exact h.own x hx p hp hpid
      · exact absurd hpid.symm hne
  · intro id
    rw [SeqSys.handedBy_append hh, List.pairwise_append]
    refine ⟨h.mono id, by split <;> simp, ?_⟩
    intro a ha b hb
    split at hb
    · rename_i hid
      simp only [List.mem_singleton] at hb
      obtain ⟨p, hp, hp1, rfl⟩ := SeqSys.mem_handedBy.1 ha
      have := h.own o ho p hp (hp1.trans hid.symm)
      omega
    · simp at hb

/-- a committed `Release` of object `o` -/
theorem SeqSys.inv_release {s s' : SeqSys} {o : SeqObj} {num : Nat} (h : s.Inv) (ho : o ∈ s.objs)
    (hnum : s.stored = some num)
    (hst : s'.stored = if (num == o.leased) = true then some o.next else some num)
    (hu : s'.usedIds = s.usedIds) (hh : s'.handed = s.handed)
    (hobjs : ∀ x ∈ s'.objs, x = { o with leased := o.next } ∨ (x ∈ s.objs ∧ x.id ≠ o.id)) :
    s'.Inv := by
  have hS : s.stored.getD 0 = num := by rw [hnum]; rfl
  have hnl := h.nextLe o ho
  have hsl := h.sLt
  -- the three facts about the new stored value
  have key : s'.stored.getD 0 < 2 ^ 64 ∧
      (∀ x ∈ s.objs, x.id ≠ o.id → x.next < x.leased → x.leased ≤ s'.stored.getD 0) ∧
      (∀ p ∈ s.handed, p.2 < s'.stored.getD 0) := by
    by_cases hc : num = o.leased
    · have hS' : s'.stored.getD 0 = o.next := by rw [hst]; simp [hc]
      rw [hS']
      refine ⟨by omega, ?_, ?_⟩
      · intro x hx hne hxl
        have h1 := h.leaseLe x hx hxl
        by_cases hol : o.next < o.leased
        · have := h.disj o ho x hx (fun e => hne e.symm) hol hxl; omega
        · omega
      · intro p hp
        have h1 := h.handLt p hp
        have h2 := h.notIn o ho p hp
        omega
    · have hS' : s'.stored.getD 0 = num := by rw [hst]; simp [hc]
      rw [hS', ← hS]
      exact ⟨hsl, fun x hx _ hxl => h.leaseLe x hx hxl, h.handLt⟩
  obtain ⟨k1, k2, k3⟩ := key
  constructor
  · exact k1
  · intro x hx
    rcases hobjs x hx with rfl | ⟨hx, _⟩
    · exact h.bwPos o ho
    · exact h.bwPos x hx
  · intro x hx
    rw [hu]
    rcases hobjs x hx with rfl | ⟨hx, _⟩
    · exact h.liveUsed o ho
    · exact h.liveUsed x hx
  · intro p hp; rw [hh] at hp; rw [hu]; exact h.handUsed p hp
  · intro x hx
    rcases hobjs x hx with rfl | ⟨hx, _⟩
    · exact Nat.le_refl _
    · exact h.nextLe x hx
  · intro x hx hxl
    rcases hobjs x hx with rfl | ⟨hx, hne⟩
    · exact absurd hxl (Nat.lt_irrefl _)
    · exact k2 x hx hne hxl
  · intro p hp; rw [hh] at hp; exact k3 p hp
  · intro x hx p hp
    rw [hh] at hp
    rcases hobjs x hx with rfl | ⟨hx, _⟩
    · show ¬ (o.next ≤ p.2 ∧ p.2 < o.next); omega
    · exact h.notIn x hx p hp
  · intro x hx y hy hne hxl hyl
    rcases hobjs x hx with rfl | ⟨hx, _⟩
    · exact absurd hxl (Nat.lt_irrefl _)
    · rcases hobjs y hy with rfl | ⟨hy, _⟩
      · exact absurd hyl (Nat.lt_irrefl _)
      · exact h.disj x hx y hy hne hxl hyl
  · rw [hh]; exact h.uniq
  · intro x hx p hp hpid
    rw [hh] at hp
    rcases hobjs x hx with rfl | ⟨hx, _⟩
    · exact h.own o ho p hp hpid
    · exact h.own x hx p hp hpid
  · intro id; rw [SeqSys.handedBy_congr hh]; exact h.mono id

/-! ## One step, a run -/

theorem SeqSys.inv_step {s : SeqSys} (h : s.Inv) (op : SeqOp) (hok : s.StepOk op) :
    (s.step updateLease op).Inv := by
  cases op with
  | new id bw out =>
    simp only [SeqSys.step, SeqSys.getSequence]
    split
    · exact h
    · rename_i hc
      simp only [Bool.or_eq_true, List.contains_eq_mem, decide_eq_true_eq, beq_iff_eq,
        not_or] at hc
      obtain ⟨hfresh, hbw⟩ := hc
      cases out with
      | ok =>
        refine SeqSys.inv_lease h
          (o' := { id := id, next := s.stored.getD 0,
                   leased := u64 (s.stored.getD 0 + bw), bandwidth := bw })
          (Nat.pos_of_ne_zero hbw) hok rfl rfl rfl rfl ?_ ?_ ?_
        · intro i hi; exact List.mem_cons_of_mem _ hi
        · exact List.mem_cons_self
        · intro x hx
          simpa [updateLease] using hx
      | conflict r =>
        refine SeqSys.inv_weaken h rfl rfl ?_ ?_
        · intro i hi; exact List.mem_cons_of_mem _ hi
        · intro x hx
          simp only [updateLease, List.mem_cons] at hx
          rcases hx with rfl | hx
          · exact .inr ⟨rfl, Nat.pos_of_ne_zero hbw, hfresh, List.mem_cons_self⟩
          · exact .inl hx
  | next id out =>
    simp only [SeqSys.step, SeqSys.next]
    split
    · exact h
    · rename_i o hf
      obtain ⟨ho, hoid⟩ := SeqSys.find_some hf
      have hok' := hok o hf
      subst hoid
      split
      · rename_i hge
        have hnl := h.nextLe o ho
        cases out with
        | ok =>
          simp only [updateLease, Bool.not_true, Bool.false_eq_true, if_false]
          -- first the lease, then a `Next` inside the new lease
          have h1 : ({ s.put { o with next := s.stored.getD 0,
                                      leased := u64 (s.stored.getD 0 + o.bandwidth) } with
                       stored := some (u64 (s.stored.getD 0 + o.bandwidth)) } : SeqSys).Inv := by
            refine SeqSys.inv_lease h
              (o' := { o with next := s.stored.getD 0,
                              leased := u64 (s.stored.getD 0 + o.bandwidth) })
              (h.bwPos o ho) hok' rfl rfl rfl rfl (fun i hi => hi) (h.liveUsed o ho) ?_
            intro x hx
            rcases SeqSys.mem_put.1 hx with rfl | ⟨hx, _⟩
            · exact .inl rfl
            · exact .inr hx
          have hu64 : u64 (s.stored.getD 0 + o.bandwidth) = s.stored.getD 0 + o.bandwidth :=
            Nat.mod_eq_of_lt hok'
          have hb := h.bwPos o ho
          refine SeqSys.inv_hand h1
            (o := { o with next := s.stored.getD 0,
                           leased := u64 (s.stored.getD 0 + o.bandwidth) })
            (SeqSys.mem_put.2 (.inl rfl)) (by show s.stored.getD 0 < u64 _; omega)
            rfl rfl rfl ?_
          intro x hx
          rcases SeqSys.mem_put.1 hx with rfl | ⟨hx, hne⟩
          · exact .inl rfl
          · exact .inr ⟨hx, hne⟩
        | conflict r =>
          simp only [updateLease, Bool.not_false, if_true]
          refine SeqSys.inv_weaken h rfl rfl (fun i hi => hi) ?_
          intro x hx
          rcases SeqSys.mem_put.1 hx with rfl | ⟨hx, _⟩
          · exact .inl ho
          · exact .inl hx
      · rename_i hlt
        refine SeqSys.inv_hand h ho (by omega) rfl rfl rfl ?_
        intro x hx
        rcases SeqSys.mem_put.1 hx with rfl | ⟨hx, hne⟩
        · exact .inl rfl
        · exact .inr ⟨hx, hne⟩
  | release id out =>
    simp only [SeqSys.step, SeqSys.release]
    split
    · exact h
    · rename_i o hf
      obtain ⟨ho, hoid⟩ := SeqSys.find_some hf
      split
      · exact h
      · split
        · exact h
        · rename_i num hnum
          refine SeqSys.inv_release h ho hnum (s' := { s.put { o with leased := o.next } with
              stored := if (num == o.leased) = true then some o.next else some num })
            rfl rfl rfl ?_
          intro x hx
          rcases SeqSys.mem_put.1 hx with rfl | ⟨hx, hne⟩
          · exact .inl rfl
          · exact .inr ⟨hx, hne⟩
  | drop id =>
    refine SeqSys.inv_weaken h rfl rfl (fun i hi => hi) ?_
    intro x hx
    exact .inl (List.mem_filter.1 hx).1
  | restart =>
    refine SeqSys.inv_weaken h rfl rfl (fun i hi => hi) ?_
    intro x hx
    simp [SeqSys.step, SeqSys.restart] at hx

theorem SeqSys.inv_run (ops : List SeqOp) : ∀ (s : SeqSys), s.Inv → RunOk updateLease s ops →
    (SeqSys.run updateLease s ops).Inv := by
  induction ops with
  | nil => intro s h _; exact h
  | cons op ops ih =>
    intro s h hr
    simp only [SeqSys.run, List.foldl_cons]
    exact ih _ (SeqSys.inv_step h op hr.1) hr.2

/-! ## C30 for today's code -/

/-- **C30 (uniqueness)**: no number is handed out twice, over any number of
    objects, conflicts, releases, drops and restarts. -/
theorem C30_unique : C30_uniqueStatement updateLease :=
  fun ops h => (SeqSys.inv_run ops {} SeqSys.inv_init h).uniq

/-- **C30 (monotonicity)**: every object's numbers are strictly increasing. -/
theorem C30_monotone : C30_monotoneStatement updateLease :=
  fun ops h => (SeqSys.inv_run ops {} SeqSys.inv_init h).mono

/-! ## The code before commit 54a0fc5, runs without a refused transaction -/

theorem SeqSys.step_old_eq (s : SeqSys) (op : SeqOp) (h : op.out? = some .ok ∨ op.out? = none) :
    s.step updateLeaseOld op = s.step updateLease op := by
  cases op with
  | new id bw out =>
    have : out = .ok := by simpa [SeqOp.out?] using h
    subst this; rfl
  | next id out =>
    have : out = .ok := by simpa [SeqOp.out?] using h
    subst this; rfl
  | release id out => rfl
  | drop id => rfl
  | restart => rfl

theorem old_eq_today (ops : List SeqOp) : ∀ (s : SeqSys), NoConflict ops →
    (RunOk updateLeaseOld s ops → RunOk updateLease s ops) ∧
    SeqSys.run updateLeaseOld s ops = SeqSys.run updateLease s ops := by
  induction ops with
  | nil => intro s _; exact ⟨fun h => h, rfl⟩
  | cons op ops ih =>
    intro s hc
    have hop := SeqSys.step_old_eq s op (hc op List.mem_cons_self)
    have := ih (s.step updateLease op) (fun o ho => hc o (List.mem_cons_of_mem _ ho))
    constructor
    · intro hr
      refine ⟨hr.1, this.1 ?_⟩
      have h2 := hr.2
      rwa [hop] at h2
    · simp only [SeqSys.run, List.foldl_cons]
      rw [hop]; exact this.2

/-- **C30 (uniqueness, the code before commit 54a0fc5)** when every transaction of the run commits. -/
theorem C30_unique_old_no_conflict (ops : List SeqOp) (hc : NoConflict ops)
    (h : RunOk updateLeaseOld {} ops) : (SeqSys.run updateLeaseOld {} ops).Unique := by
  obtain ⟨h1, h2⟩ := old_eq_today ops {} hc
  rw [h2]; exact C30_unique ops (h1 h)

/-- **C30 (monotonicity, the code before commit 54a0fc5)** when every transaction of the run commits. -/
theorem C30_monotone_old_no_conflict (ops : List SeqOp) (hc : NoConflict ops)
    (h : RunOk updateLeaseOld {} ops) : (SeqSys.run updateLeaseOld {} ops).Monotone := by
  obtain ⟨h1, h2⟩ := old_eq_today ops {} hc
  rw [h2]; exact C30_monotone ops (h1 h)

/-! ## Today's code with a refused lease transaction (finding F9)

`RunOk` is decidable, so the concrete runs below are checked by evaluation. -/

instance SeqSys.decStepOk (s : SeqSys) : (op : SeqOp) → Decidable (s.StepOk op)
  | .new _ bw _ => inferInstanceAs (Decidable (s.stored.getD 0 + bw < 2 ^ 64))
  | .next id _ =>
    inferInstanceAs (Decidable (∀ o, o ∈ s.find id → s.stored.getD 0 + o.bandwidth < 2 ^ 64))
  | .release _ _ => isTrue trivial
  | .drop _ => isTrue trivial
  | .restart => isTrue trivial

instance decRunOk (lf : LeaseFn) : (s : SeqSys) → (ops : List SeqOp) → Decidable (RunOk lf s ops)
  | _, [] => isTrue trivial
  | s, op :: ops => @instDecidableAnd _ _ (s.decStepOk op) (decRunOk lf (s.step lf op) ops)

instance (ops : List SeqOp) : Decidable (NoConflict ops) :=
  inferInstanceAs (Decidable (∀ op ∈ ops, op.out? = some .ok ∨ op.out? = none))

/-- F9 witness (replayed on the real code): objects 1 and 2 with bandwidth 1. Object 2 renews
    its lease to `[2,3)` and hands out 2; object 1's lease transaction had read 2 but got
    `ErrConflict`: it keeps the phantom lease `[2,3)` and hands out 2 as well. -/
def f9UniqueOps : List SeqOp :=
  [.new 1 1 .ok, .new 2 1 .ok, .next 1 .ok, .next 2 .ok, .next 2 .ok,
   .next 1 (.conflict (some 2)), .next 1 .ok]

example : (SeqSys.run updateLeaseOld {} f9UniqueOps).handed = [(1, 0), (2, 1), (2, 2), (1, 2)] := by
  decide

/-- **C30 was violated by the code before commit 54a0fc5 (uniqueness)**: after one `ErrConflict` in `updateLeaseOld`
    two objects hand out the same number. -/
theorem C30_unique_old_counterexample : ¬ C30_uniqueStatement updateLeaseOld := by
  intro h
  have h1 : (SeqSys.run updateLeaseOld {} f9UniqueOps).Unique := h f9UniqueOps (by decide)
  revert h1
  unfold SeqSys.Unique
  decide

/-- F9 witness for monotonicity: object 1 (bandwidth 3) hands out 0,1,2; object 2 (bandwidth 1)
    leases `[3,4)`; object 1's renewal had read 3 but got `ErrConflict`: phantom lease `[3,6)`,
    it hands out 3,4,5, then renews for real from the stored value 4 and hands out 4 after 5. -/
def f9MonotoneOps : List SeqOp :=
  [.new 1 3 .ok, .next 1 .ok, .next 1 .ok, .next 1 .ok, .new 2 1 .ok,
   .next 1 (.conflict (some 3)), .next 1 .ok, .next 1 .ok, .next 1 .ok, .next 1 .ok]

example : (SeqSys.run updateLeaseOld {} f9MonotoneOps).handedBy 1 = [0, 1, 2, 3, 4, 5, 4] := by
  decide

/-- **C30 was violated by the code before commit 54a0fc5 (monotonicity)**: after one `ErrConflict` in
    `updateLeaseOld` an object hands out a number smaller than an earlier one. -/
theorem C30_monotone_old_counterexample : ¬ C30_monotoneStatement updateLeaseOld := by
  intro h
  have h1 : (SeqSys.run updateLeaseOld {} f9MonotoneOps).Monotone := h f9MonotoneOps (by decide)
  have h2 := h1 1
  revert h2
  decide

/-! ## Non-vacuity -/

/-- three objects, a refused `GetSequence`, a refused renewal, a refused and a committed
    `Release`, a drop and a restart -/
def exOps : List SeqOp :=
  [.new 1 2 .ok, .new 2 3 (.conflict none), .next 1 .ok, .next 2 (.conflict (some 0)),
   .next 2 .ok, .next 1 .ok, .next 1 (.conflict (some 5)), .next 1 .ok, .release 2 (.conflict none),
   .release 1 .ok, .next 2 .ok, .drop 2, .new 3 4 .ok, .next 3 .ok, .restart, .next 3 .ok,
   .new 4 1 .ok, .next 4 .ok, .next 4 .ok, .release 4 .ok, .new 5 2 .ok, .next 5 .ok]

/-- the hypotheses of `C30_unique` / `C30_monotone` hold for `exOps` … -/
example : RunOk updateLease {} exOps := by decide

/-- … and numbers really are handed out (by four objects, across the restart) -/
example : (SeqSys.run updateLease {} exOps).handed =
    [(1, 0), (2, 2), (1, 1), (1, 5), (2, 3), (3, 6), (4, 10), (4, 11), (5, 12)] := by decide

example : (SeqSys.run updateLease {} exOps).Unique := C30_unique exOps (by decide)
example : (SeqSys.run updateLease {} exOps).Monotone := C30_monotone exOps (by decide)

/-- a conflict-free run for the `old_no_conflict` theorems -/
def exOpsOk : List SeqOp :=
  [.new 1 2 .ok, .new 2 3 .ok, .next 1 .ok, .next 2 .ok, .next 1 .ok, .next 1 .ok,
   .release 1 .ok, .next 2 .ok, .drop 2, .restart, .new 3 1 .ok, .next 3 .ok, .next 3 .ok]

example : NoConflict exOpsOk ∧ RunOk updateLeaseOld {} exOpsOk := by decide
example : (SeqSys.run updateLeaseOld {} exOpsOk).handed =
    [(1, 0), (2, 2), (1, 1), (1, 5), (2, 3), (3, 6), (3, 7)] := by decide
example : (SeqSys.run updateLeaseOld {} exOpsOk).Unique :=
  C30_unique_old_no_conflict exOpsOk (by decide) (by decide)
example : (SeqSys.run updateLeaseOld {} exOpsOk).Monotone :=
  C30_monotone_old_no_conflict exOpsOk (by decide) (by decide)

/-- the overflow hypothesis is not trivially true: a lease reaching `2^64` is rejected -/
example : ¬ RunOk updateLease {} [.new 1 (2 ^ 64 - 1) .ok, .new 2 1 .ok] := by decide

/-! ## `seq.lock` across Release's transaction is load-bearing -/

/-- bandwidth 10, three numbers handed out, then `Release` with a `Next` slipping in between its
    read and its write (impossible while `Release` holds `seq.lock`), then `Next` again -/
def relUnlockedRun : SeqSys :=
  let s := SeqSys.run updateLease {} [.new 1 10 .ok, .next 1 .ok, .next 1 .ok, .next 1 .ok]
  SeqSys.run updateLease (s.releaseInterleavedNext 1) [.next 1 .ok]

/-- if a `Next` could run between Release's read of `seq.next/seq.leased` and its write-back,
    the number it hands out would be handed out again by the very next `Next` (and by any other
    object or after a restart): uniqueness needs `Release` to hold `seq.lock` across its
    transaction. With the lock the same calls are `C30_unique` (`releaseThenNext`). -/
theorem C30_release_lock_needed : ¬ relUnlockedRun.Unique ∧ ¬ relUnlockedRun.Monotone := by
  constructor
  · unfold SeqSys.Unique
    decide
  · intro h
    have := h 1
    revert this
    decide

example : relUnlockedRun.handed = [(1, 0), (1, 1), (1, 2), (1, 3), (1, 3)] := by decide

/-- under the lock: Release, then Next — a run of the machine, hence unique -/
example : ((SeqSys.run updateLease {} [.new 1 10 .ok, .next 1 .ok, .next 1 .ok, .next 1 .ok]).releaseThenNext
    updateLease 1).1.handed = [(1, 0), (1, 1), (1, 2), (1, 3)] := by decide

theorem releaseThenNext_eq_run (lf : LeaseFn) (s : SeqSys) (id : Nat) :
    (s.releaseThenNext lf id).1 = SeqSys.run lf s [.release id .ok, .next id .ok] := rfl

end Badger
