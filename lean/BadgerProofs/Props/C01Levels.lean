/-!
# A point lookup that overlaps compactions misses nothing (C01 / C12, the reader–compactor protocol)

`levelsController.get` walks the levels top-down (`for _, h := range s.levels`), taking each level's
read lock only while it looks at that level; compactions run concurrently.  A compaction publishes
its output on the NEXT level (`nextLevel.replaceTables`) before it removes its input from THIS level
(`thisLevel.deleteTables`) — the regenerated fact `ord_compact_replace_delete` — and data only ever
moves downwards.

Abstractly: `occ t l` says that (a version of) the entry sits on level `l` at time `t`.
* `Alive`: at every time the entry is on some level `≤ n` (a compaction never removes the last copy:
  it adds below before it deletes above);
* `Down`: whatever level holds it at time `t+1`, the same or a shallower level held it at time `t`
  (nothing moves upwards, nothing appears from nowhere).
The reader visits level `j` at time `visit j`, with `visit` non-decreasing.  Then some visit finds
the entry.  With the compactor's two steps reversed (`Alive` fails) or a reader walking bottom-up
there are runs in which it is missed (the two witnesses at the end).
-/
namespace Badger.LevelRace

def Alive (n : Nat) (occ : Nat → Nat → Prop) : Prop := ∀ t, ∃ l, l ≤ n ∧ occ t l
def Down (occ : Nat → Nat → Prop) : Prop := ∀ t l, occ (t + 1) l → ∃ l', l' ≤ l ∧ occ t l'

/-- over any stretch of time the shallowest level holding the entry does not get shallower -/
theorem down_le {occ : Nat → Nat → Prop} (hd : Down occ) (t d l : Nat) (h : occ (t + d) l) :
    ∃ l', l' ≤ l ∧ occ t l' := by
  induction d generalizing l with
  | zero => exact ⟨l, Nat.le_refl _, h⟩
  | succ d ih =>
    obtain ⟨l1, h1, o1⟩ := hd (t + d) l h
    obtain ⟨l2, h2, o2⟩ := ih l1 o1
    exact ⟨l2, Nat.le_trans h2 h1, o2⟩

end Badger.LevelRace

namespace Badger
open LevelRace

/-- **The level scan of the code finds the entry**: levels visited in increasing order at
    non-decreasing times, under any interleaving of compactions that add below before they delete
    above and only move data down. -/
theorem C01_levelscan_finds (n : Nat) (occ : Nat → Nat → Prop) (visit : Nat → Nat)
    (ha : Alive n occ) (hd : Down occ) (hmono : ∀ j, visit j ≤ visit (j + 1)) :
    ∃ j, j ≤ n ∧ occ (visit j) j := by
  -- otherwise the shallowest occupied level stays strictly ahead of the reader, down to level n
  refine Classical.byContradiction fun hno => ?_
  have hno' : ∀ j, j ≤ n → ¬ occ (visit j) j := fun j hj h => hno ⟨j, hj, h⟩
  have ahead : ∀ j, j ≤ n → ∀ l, occ (visit j) l → j < l := by
    intro j
    induction j with
    | zero =>
      intro _ l hl
      rcases Nat.eq_zero_or_pos l with rfl | hp
      · exact absurd hl (hno' 0 (Nat.zero_le _))
      · exact hp
    | succ j ih =>
      intro hj l hl
      have hle : visit j ≤ visit (j + 1) := hmono j
      obtain ⟨d, hd'⟩ : ∃ d, visit (j + 1) = visit j + d := ⟨visit (j + 1) - visit j, by omega⟩
      rw [hd'] at hl
      obtain ⟨l', hl', ol'⟩ := down_le hd (visit j) d l hl
      have := ih (by omega) l' ol'
      have hne : l ≠ j + 1 := by
        intro he; subst he
        rw [← hd'] at hl
        exact hno' (j + 1) hj hl
      omega
  obtain ⟨l, hl, ol⟩ := ha (visit n)
  have := ahead n (Nat.le_refl _) l ol
  omega

/-- reader walking BOTTOM-UP (deepest level first): an entry that moves from level 0 to level 1
    between the two visits is seen on neither — although the compactor behaves (`Alive`, `Down`). -/
theorem C01_levelscan_bottom_up_misses :
    ∃ (occ : Nat → Nat → Prop) (visit : Nat → Nat), Alive 1 occ ∧ Down occ ∧
      -- level 1 visited at time 0, level 0 visited at time 2
      visit 1 = 0 ∧ visit 0 = 2 ∧ ¬ occ (visit 1) 1 ∧ ¬ occ (visit 0) 0 := by
  -- time 0: on level 0; time 1: on both (added below); time ≥ 2: on level 1 only
  refine ⟨fun t l => (t = 0 ∧ l = 0) ∨ (t = 1 ∧ l ≤ 1) ∨ (2 ≤ t ∧ l = 1),
    fun j => if j = 1 then 0 else 2, ?_, ?_, rfl, rfl, ?_, ?_⟩
  · intro t
    rcases Nat.lt_or_ge t 1 with h | h
    · exact ⟨0, by omega, Or.inl ⟨by omega, rfl⟩⟩
    · rcases Nat.lt_or_ge t 2 with h2 | h2
      · exact ⟨1, by omega, Or.inr (Or.inl ⟨by omega, by omega⟩)⟩
      · exact ⟨1, by omega, Or.inr (Or.inr ⟨h2, rfl⟩)⟩
  · intro t l h
    rcases h with ⟨h1, _⟩ | ⟨h1, h2⟩ | ⟨h1, h2⟩
    · omega
    · exact ⟨0, by omega, Or.inl ⟨by omega, rfl⟩⟩
    · rcases Nat.lt_or_ge t 2 with ht | ht
      · exact ⟨1, by omega, Or.inr (Or.inl ⟨by omega, by omega⟩)⟩
      · exact ⟨1, by omega, Or.inr (Or.inr ⟨ht, rfl⟩)⟩
  · simp
  · simp

/-- compactor with its two steps REVERSED (input deleted before the output is published): at the
    time in between the entry is on no level, and the top-down reader of the code misses it. -/
theorem C01_levelscan_delete_first_misses :
    ∃ (occ : Nat → Nat → Prop) (visit : Nat → Nat), Down occ ∧ (∀ j, visit j ≤ visit (j + 1)) ∧
      occ 0 0 ∧ ¬ ∃ j, j ≤ 1 ∧ occ (visit j) j := by
  -- time 0: level 0; time 1: nowhere; time ≥ 2: level 1.  The reader does both visits at time 1.
  refine ⟨fun t l => (t = 0 ∧ l = 0) ∨ (2 ≤ t ∧ l = 1 ∧ False), fun _ => 1, ?_, fun _ => Nat.le_refl _,
    Or.inl ⟨rfl, rfl⟩, ?_⟩
  · intro t l h
    rcases h with ⟨h1, _⟩ | ⟨_, _, hf⟩
    · omega
    · exact hf.elim
  · rintro ⟨j, _, h⟩
    rcases h with ⟨h1, _⟩ | ⟨_, _, hf⟩
    · exact Nat.one_ne_zero h1
    · exact hf

end Badger
