import BadgerProofs.Props.C01Db
import BadgerProofs.Props.C13Reach
/-!
# C13 at database level: what every reachable state still stores

In normal mode the discard watermark is the read watermark (`discardAtOrBelow`), which never passes
the read timestamp of an open transaction (`C34_db_discard_below_open`). Hence, in every reachable
state and whatever compactions ran: every committed version above the watermark is still stored,
and so is, for every key, the newest live version at or below any timestamp `≥` the watermark —
in particular everything an open transaction can read.
-/
namespace Badger

theorem C13_db_above_watermark {o : Opts} {hist : List Ent} {d : Db} (hm : o.managed = false)
    (r : DbReach o hist d) : ∀ e ∈ hist, d.discardAtOrBelow < e.ver → e ∈ d.lsm.allEntries := by
  have h := DbL.inv_of_reach hm r
  obtain ⟨dm, nm, R, h1, h2⟩ := h.l.reach
  intro e he hv
  unfold Db.discardAtOrBelow at hv
  rw [DbL.managed_false hm h] at hv
  have hv : d.readMark.doneUntil < e.ver := by simpa using hv
  exact C13_reach_above R e he (by omega)

theorem C13_db_newest_retained {o : Opts} {hist : List Ent} {d : Db} (hm : o.managed = false)
    (r : DbReach o hist d) {ts now : Nat} (hts : d.discardAtOrBelow ≤ ts) (hnow : d.now ≤ now)
    {k : Bytes} {e : Ent} (he : visible now (newestLE hist k ts) = some e) :
    e ∈ d.lsm.allEntries ∧ d.lsm.get k ts = some e := by
  have h := DbL.inv_of_reach hm r
  obtain ⟨dm, nm, R, h1, h2⟩ := h.l.reach
  unfold Db.discardAtOrBelow at hts
  rw [DbL.managed_false hm h] at hts
  have hts : d.readMark.doneUntil ≤ ts := by simpa using hts
  exact C13_reach_newest R (by omega) (by omega) he

/-- what an open transaction can read is still stored -/
theorem C13_db_open_txn_reads_retained {o : Opts} {hist : List Ent} {d : Db} (hm : o.managed = false)
    (r : DbReach o hist d) {id : Nat} {t : TxnM} (hf : d.findTxn id = some t) (hdisc : t.discarded = false)
    {k : Bytes} {e : Ent} (he : visible d.now (newestLE hist k t.readTs) = some e) :
    e ∈ d.lsm.allEntries :=
  (C13_db_newest_retained hm r (C34_db_discard_below_open hm r hf hdisc) (Nat.le_refl _) he).1

end Badger
