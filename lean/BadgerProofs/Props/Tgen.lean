import BadgerModel.Extracted
import BadgerModel.Mvcc
/-!
# T-gen: facts regenerated from /repo's sources on every run (`BadgerModel/Extracted.lean`)
re-proved equal to what the hand-written model assumes. A changed constant or a flipped
comparison operator at one of the named decision sites makes one of these `decide`s fail.
Each property lists the theorems relevant to it (prefix `Cxx_tgen_`).
-/
namespace Badger
open Extracted

/-- meta bits used by every layer of the model -/
theorem tgen_bits :
    Extracted.bitDelete = Badger.bitDelete ∧ Extracted.bitValuePointer = Badger.bitValuePointer ∧
    Extracted.bitDiscardEarlierVersions = Badger.bitDiscardEarlier ∧ Extracted.bitMergeEntry = Badger.bitMerge ∧
    Extracted.bitTxn = Badger.bitTxn ∧ Extracted.bitFinTxn = Badger.bitFinTxn := by decide

theorem C01_tgen_get_ops :
    op_dbget_version_eq = "==" ∧ op_dbget_max = "<" ∧ op_lcget_max = "<" ∧ op_lhget_max = "<" := by decide
/-- the read path scans *every* memtable and level (no early `break`; the only early `return` is the
    exact-version hit), which is what `Lsm.get`'s fold over all sources mirrors -/
theorem C01_tgen_get_shape :
    n_break_lcget = 0 ∧ n_return_lcget = 4 ∧ n_break_dbget = 0 ∧ n_return_dbget = 3 ∧
    n_break_lhget = 0 ∧ n_return_lhget = 1 := by decide
theorem C01_tgen_bits : Extracted.bitDelete = Badger.bitDelete := by decide

theorem C12_tgen_filter_ops :
    op_subcompact_version_discard = "<=" ∧ op_subcompact_numversions = "==" ∧ op_l0l0_min_tables = "<" ∧
    Extracted.bitDelete = Badger.bitDelete ∧ Extracted.bitDiscardEarlierVersions = Badger.bitDiscardEarlier ∧
    Extracted.bitMergeEntry = Badger.bitMerge := by decide
theorem C13_tgen_filter_ops :
    op_subcompact_version_discard = "<=" ∧ op_subcompact_numversions = "==" ∧
    Extracted.bitDiscardEarlierVersions = Badger.bitDiscardEarlier ∧ Extracted.bitMergeEntry = Badger.bitMerge := by decide

theorem C05_tgen_iter_ops :
    op_parseItem_version_readts = ">" ∧ op_parseItem_since = "<=" ∧
    Extracted.badgerPrefixBytes = Badger.badgerPrefix := by decide

theorem C33_tgen_expiry_op : op_expired = "<=" ∧ Extracted.bitDelete = Badger.bitDelete := by decide

theorem C06_tgen_threshold_ops :
    op_writeToLSM_threshold = "<" ∧ op_estimate_threshold = "<" ∧
    Extracted.bitValuePointer = Badger.bitValuePointer := by decide

theorem C20_tgen_key_ops : op_parseTs_len = "<=" ∧ op_parseKey_len = "<" := by decide

theorem C28_tgen_limits :
    Extracted.maxKeySize = 65000 ∧ op_modify_keylen = ">" ∧ op_modify_vallen = ">" ∧
    op_modify_inmem_vallen = ">" ∧ op_checkSize_count = ">=" ∧ op_checkSize_size = ">=" ∧
    Extracted.perEntryPad = 10 ∧ Extracted.txnKeyLen = Badger.txnKeyLen ∧
    Extracted.badgerPrefixBytes = Badger.badgerPrefix := by decide

/-- the reservation for the end-of-transaction marker (since the fix of finding F6 it covers the
    marker's maximum size: 8 version bytes + 20 decimal digits + 2 meta bytes) and the model's
    `Db.begin` uses the same number -/
theorem C28_tgen_fin_reserve : Extracted.finReservePad = 30 ∧ 8 + 20 + 2 ≤ Extracted.finReservePad := by decide

theorem C02_tgen_oracle_ops : op_hasConflict_ts = "<=" ∧ op_cleanup_ts = "<=" := by decide
/-- `oracle.discardAtOrBelow` returns `o.discardTs` in managed mode (first `return`, under
    `if o.isManaged`) and `o.readMark.DoneUntil()` otherwise — exactly `Oracle.discardAtOrBelow` of
    `BadgerModel/Oracle.lean`; an offset or another watermark at either site changes the string -/
theorem C34_tgen_discardAtOrBelow :
    ret_discardAtOrBelow = "o.discardTs | o.readMark.DoneUntil()" ∧
    ord_discardAtOrBelow_managed_first = "before" := by decide
theorem C03_tgen_txn_bits : Extracted.bitTxn = Badger.bitTxn ∧ Extracted.bitFinTxn = Badger.bitFinTxn := by decide
theorem C36_tgen_bits : Extracted.bitTxn = Badger.bitTxn := by decide
theorem C37_tgen_threshold_ops : op_writeToLSM_threshold = "<" ∧ op_modify_inmem_vallen = ">" := by decide
theorem C04_tgen_bits : Extracted.bitDelete = Badger.bitDelete := by decide
theorem C14_tgen_l0l0 : op_l0l0_min_tables = "<" := by decide
/-! Orderings of effects inside one function (`ord_*`: first occurrence of statement A relative to
    statement B in the source of that function). The models perform these effects in this order. -/
theorem C15_tgen_clamp_before_scan : ord_rewrite_clamp_scan = "before" := by decide
/-- the #2286 clamp in `subcompact` is guarded by `gcActive` alone — it applies to a compaction into
    ANY level (a marker is dropped whenever nothing below the target level overlaps, not only in the
    last level) — and lowers `discardTs` to a positive smaller `gcDiscardTs`: `GcDb.discardTs` -/
theorem C15_tgen_clamp_cond :
    cond_subcompact_gc_clamp = "s.kv.gcActive.Load()" ∧
    cond_subcompact_gc_clamp_inner = "gcMax > 0 && gcMax < discardTs" := by decide
theorem C10_tgen_manifest_order :
    ord_flush_manifest_wal = "before" ∧ ord_compact_manifest_replace = "before" ∧
    ord_compact_replace_delete = "before" := by decide
/-- SyncWrites: the WAL a request was written to is msynced inside `writeToLSM` — per request,
    after its `mt.Put`s, on the memtable that is current *for that request* (`ensureRoomForWrite`
    runs before every `writeToLSM` and may rotate the memtable in the middle of a batch) — and
    `writeRequests` acknowledges (`done(nil)`) only afterwards; the value log is msynced by
    `valueLog.write`. This is the `sync (.mem fid)` atom closing `walProg` of every request. -/
theorem C10_tgen_sync_per_request :
    has_writeToLSM_syncwal = "yes" ∧ has_writeRequests_syncwal = "no" ∧ ord_writeToLSM_put_sync = "before" ∧
    ord_writeRequests_room_lsm = "before" ∧ ord_writeRequests_lsm_done = "before" ∧
    has_vlogwrite_sync = "yes" := by decide
theorem C07_tgen_manifest_order :
    ord_flush_manifest_wal = "before" ∧ ord_compact_manifest_replace = "before" := by decide
theorem C03_tgen_commit_order :
    ord_commit_lock_ts = "before" ∧ ord_commit_ts_send = "before" ∧ ord_commit_wait_done = "before" := by decide
/-! Order of the validation checks and effects of `Txn.modify` (the model's `Db.modify` performs them in
    this order: which error a rejected write gets is part of C28), of `Txn.Get` (pending write,
    read tracking, snapshot: C04) and of `Txn.Commit`. -/
theorem C28_tgen_modify_order : ord_modify_checks = "ascending" := by decide
theorem C04_tgen_get_order : ord_get_steps = "ascending" := by decide
theorem C02_tgen_get_tracks_reads : ord_get_steps = "ascending" := by decide
theorem C03_tgen_commit_steps : ord_commit_steps = "ascending" := by decide
/-! every extraction site was found in the source (an extractor that silently falls back to a default
    would otherwise keep a theorem true after the code moved) -/
theorem C20_tgen_constants_found :
    bitDelete_found = true ∧ bitValuePointer_found = true ∧ bitDiscardEarlierVersions_found = true ∧
    bitMergeEntry_found = true ∧ bitTxn_found = true ∧ bitFinTxn_found = true ∧
    vlogHeaderSize_found = true ∧ maxHeaderSize_found = true ∧
    Extracted.badgerPrefixLen = Badger.badgerPrefix.length := by decide
theorem C28_tgen_limits_found :
    maxKeySize_found = true ∧ finReservePad_found = true ∧ perEntryPad_found = true ∧
    kvWriteChCapacity_found = true ∧ 0 < Extracted.kvWriteChCapacity ∧
    Extracted.txnKeyBytes.length = Badger.txnKeyLen := by decide
theorem C17_tgen_manifest_found :
    manifestDeletionsRewriteThreshold_found = true ∧ manifestDeletionsRatio_found = true := by decide
theorem C01_tgen_get_found :
    n_break_lcget_found = true ∧ n_return_lcget_found = true ∧ n_break_dbget_found = true ∧
    n_return_dbget_found = true ∧ n_break_lhget_found = true ∧ n_return_lhget_found = true := by decide
/-- banned namespaces: `isBanned` guards with `NamespaceOffset < 0` and `len(key) <= off+8`
    (`isBannedKey`), `Txn.Get` checks it between the discarded test and the pending lookup
    (`Db.txnGetNs`), `parseItem` checks it on the user key between the version window test and the
    mode-specific logic (`hideBanned`), `BanNamespace` writes the marker at version 1 and then adds
    the namespace to the in-memory set (`Db.banNamespace`). -/
theorem C28_tgen_banned :
    op_isbanned_len = "<=" ∧ op_isbanned_off = "<" ∧ ord_get_banned = "ascending" ∧
    ord_parseitem_banned = "ascending" ∧ has_ban_add = "yes" ∧ ord_ban_steps = "ascending" := by decide
/-- reader / flusher protocol (`Props/C01Flush.lean`): readers pick the memtables before the level
    tables (`NewIterator`, `DB.get`), the flusher publishes the L0 table before it retires the
    memtable. -/
theorem C01_tgen_reader_flusher_order :
    ord_newiterator_mem_levels = "ascending" ∧ ord_dbget_mem_levels = "ascending" ∧
    ord_flusher_l0_imm = "ascending" := by decide
theorem C12_tgen_reader_flusher_order :
    ord_newiterator_mem_levels = "ascending" ∧ ord_dbget_mem_levels = "ascending" ∧
    ord_flusher_l0_imm = "ascending" := by decide
theorem C31_tgen_reader_flusher_order :
    ord_newiterator_mem_levels = "ascending" ∧ ord_flusher_l0_imm = "ascending" := by decide
/-- C34: outside `newCommitTs`/`doneCommit` the commit watermark is only ever moved to a timestamp
    that is already used up: `Open` marks `MaxVersion()` done before it increments the next timestamp,
    `Load` marks `nextTxnTs - 1`. -/
theorem C34_tgen_marks_below_next :
    has_load_txnmark_prev = "yes" ∧ ord_open_marks_increment = "ascending" := by decide
/-- C38: `valueLog.rewrite` decides under `filesLock` and deletes the file after releasing it
    (no lock-order cycle `filesLock → file lock` against readers, which take `file lock → filesLock`). -/
theorem C38_tgen_gc_lock_order :
    has_rewrite_deferred_unlock = "no" ∧ ord_rewrite_unlock_delete = "ascending" := by decide
/-- the entry `valueLog.rewrite` writes back (`ne`) carries the record's meta with ONLY the
    value-pointer and transaction bits removed (one assignment to `ne.meta`), its user meta and its
    expiry: `wbEnt` of `BadgerModel/Vlog.lean`. In particular the merge-operand bit and the
    discard-earlier bit survive a GC (C13: a merge operand is never counted against
    NumVersionsToKeep; C31: the operator folds all operands). -/
theorem C15_tgen_writeback_fields :
    has_rewrite_meta_keep = "yes" ∧ has_rewrite_umeta_copy = "yes" ∧ has_rewrite_exp_copy = "yes" ∧
    n_rewrite_meta_assign = 1 := by decide
theorem C13_tgen_writeback_meta : has_rewrite_meta_keep = "yes" ∧ n_rewrite_meta_assign = 1 := by decide
theorem C31_tgen_writeback_meta : has_rewrite_meta_keep = "yes" ∧ n_rewrite_meta_assign = 1 := by decide
/-- C06 / C33: what GC writes back carries the user meta and the expiry of the entry it moves -/
theorem C06_tgen_writeback_fields :
    has_rewrite_meta_keep = "yes" ∧ has_rewrite_umeta_copy = "yes" ∧ has_rewrite_exp_copy = "yes" := by decide
theorem C33_tgen_writeback_expiry : has_rewrite_exp_copy = "yes" := by decide
/-- C12 / C36 rest on the same shape of the read path as C01: every level is consulted (no early
    `break`), so a compaction that moves a version to another level cannot change which version a
    `Get` returns (seed family lcget-break, C12f). -/
theorem C12_tgen_get_shape :
    n_break_lcget = 0 ∧ n_return_lcget = 4 ∧ n_break_dbget = 0 ∧ n_break_lhget = 0 := by decide
theorem C36_tgen_get_shape :
    n_break_lcget = 0 ∧ n_return_lcget = 4 ∧ n_break_dbget = 0 ∧ n_break_lhget = 0 := by decide
/-- reader / compactor protocol (`Props/C01Levels.lean`): lookups and iterator creation walk the levels
    from 0 downwards; a compaction publishes on the next level before it deletes from this level. -/
theorem C01_tgen_level_scan_order :
    has_lcget_range_levels = "yes" ∧ has_appenditers_range_levels = "yes" ∧
    ord_compact_replace_delete = "before" := by decide
theorem C12_tgen_level_scan_order :
    has_lcget_range_levels = "yes" ∧ has_appenditers_range_levels = "yes" ∧
    ord_compact_replace_delete = "before" := by decide
/-- C17: a MANIFEST rewrite starts from an EMPTY temporary file (`Manifest.lean`'s rewrite writes the
    whole image; a leftover tail would be replayed as a torn record and cut off later change sets). -/
theorem C17_tgen_rewrite_truncates : has_rewrite_opentrunc = "yes" := by decide
/-- C26 / C06: inline-or-pointer is decided once per entry, by the threshold `valueLog.write` saw
    (`skipVlogAndSetThreshold` memoizes it); the StreamWriter's sorted writer and `writeToLSM` ask
    the entry. -/
theorem C26_tgen_threshold_memo : has_sw_threshold_memo = "yes" ∧ has_lsm_threshold_memo = "yes" := by decide
theorem C06_tgen_threshold_memo : has_sw_threshold_memo = "yes" ∧ has_lsm_threshold_memo = "yes" := by decide
/-- C37 / C24: an inline value is stored with the value-pointer bit cleared, in ONE place for every
    mode (`Db.lsmForm`); a backup carries the raw meta byte of its source. -/
theorem C37_tgen_writetolsm_clears_vptr :
    has_writetolsm_clears_vptr = "yes" ∧ n_writetolsm_put = 2 := by decide
theorem C24_tgen_writetolsm_clears_vptr :
    has_writetolsm_clears_vptr = "yes" ∧ n_writetolsm_put = 2 := by decide
/-- C11 / C07: every entry a table builder adds — stale (deleted, expired, discarded) or not — counts
    towards the table's MaxVersion, from which `Open` seeds the next timestamp (`Db.maxVersion`
    folds over ALL stored entries). -/
theorem C11_tgen_table_maxversion :
    has_addhelper_maxversion = "yes" ∧ has_addinternal_maxversion = "no" := by decide
theorem C07_tgen_table_maxversion :
    has_addhelper_maxversion = "yes" ∧ has_addinternal_maxversion = "no" := by decide

/-- `compactStatus` as transcribed in BadgerModel/CompactStatus.lean: `compareAndAdd` tests this level
    then the next level and only then appends; `delete` removes `nextRange` only for different level
    handlers and a non-empty range (observation O-cs1 rests on this); `fillTablesL0ToL0` skips the
    tables of running compactions. -/
theorem C14_tgen_cstatus :
    cond_caa_tests = "thisLevel.overlapsWith(cd.thisRange) | nextLevel.overlapsWith(cd.nextRange)" ∧
    ord_caa_tests_appends = "before" ∧
    cond_cstatus_delete_next = "cd.thisLevel != cd.nextLevel && !cd.nextRange.isEmpty()" ∧
    has_l0l0_being_compacted_skip = "yes" := by decide
theorem C12_tgen_cstatus :
    cond_caa_tests = "thisLevel.overlapsWith(cd.thisRange) | nextLevel.overlapsWith(cd.nextRange)" ∧
    ord_caa_tests_appends = "before" := by decide

/-- `getKeyRange` returns the empty range for no tables and otherwise
    `[ParseKey(smallest)@MaxUint64, ParseKey(biggest)@0]`: `getKeyRangeOf` in Props/C14Status.lean. -/
theorem C14_tgen_getKeyRange :
    ret_getKeyRange = "keyRange{} | keyRange{ left: y.KeyWithTs(y.ParseKey(smallest), math.MaxUint64), right: y.KeyWithTs(y.ParseKey(biggest), 0), }" := rfl

end Badger
