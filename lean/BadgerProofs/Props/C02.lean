import BadgerModel.Oracle
import BadgerProofs.Lemmas.Oracle
import BadgerProofs.Lemmas.OracleManaged
/-!
# C02 — read-write transactions are serializable (SSI conflict detection), oracle level

Model: `BadgerModel/Oracle.lean` (`Oracle`, `Sys`, `Label`, `OReach`). Every theorem quantifies over
all reachable states `OReach false true n s` of a database opened in **normal mode** with
**DetectConflicts** at `MaxVersion() = n`: any number of transactions, any interleaving of
begin / WaitForMark / read / write / commit / discard / doneCommit steps and of the two watermark
`process` goroutines (which may lag arbitrarily behind the marks sent), plus `cleanup` at
arbitrary moments. `s.hist` is the ghost history of *every* transaction that obtained a commit
timestamp (`allocated` in DESIGN §6; never pruned), in allocation order.

Fingerprints are arbitrary numbers: "up to 64-bit fingerprint collisions" is built in (a
collision is a genuine overlap for the model).

Managed mode (`OReach true true n s`): `C02_sound_managed` / `C02_complete_managed` under the API
contract "`discardTs ≤ readTs` of the committing transaction" (stated hypothesis; without it the
statement is false by design, `C02_managed_needs_contract`).
-/
namespace Badger

/-- **The invariant linking the read mark to open transactions.** In every reachable state the
    read watermark, once its channel is drained, has a pending count at `r` equal to the number
    of transactions that hold the read mark at read timestamp `r` (begun, `doneRead` not yet
    called). Hence (`C34_not_ahead`) `readMark.DoneUntil()` — now or later — is `≤` the read
    timestamp of every such transaction. -/
theorem C02_readMark_counts {d : Bool} {n : Nat} {s : Sys} (h : OReach false d n s) (r : Nat) :
    s.o.readMark.virt.pending.val r = ((s.txns.countP (holdsAt r) : Nat) : Int) ∧
    (∀ x ∈ s.txns, x.holdsRead = true → s.o.readMark.doneUntil ≤ x.t.readTs) := by
  have hI := h.inv
  refine ⟨?_, fun x hx hh => hI.readMark_le x hx hh⟩
  rw [hI.rmTracks.virt, hI.rmVirt.cnt]
  exact hI.rmCnt r

/-- **`cleanupCommittedTransactions` is safe.** (a) the pruning bound never exceeds the read
    watermark: `lastCleanupTs ≤ readMark.DoneUntil()`; (b) every transaction still holding the read
    mark (in particular every open update transaction) has `readTs ≥ readMark.DoneUntil()`;
    (c) therefore every history entry with a commit timestamp above such a transaction's read
    timestamp is still present in `committedTxns`: nothing it could conflict with was pruned. -/
theorem C02_cleanup_safe {n : Nat} {s : Sys} (h : OReach false true n s) :
    s.o.lastCleanupTs ≤ s.o.readMark.doneUntil ∧
    (∀ x ∈ s.txns, x.holdsRead = true → s.o.readMark.doneUntil ≤ x.t.readTs) ∧
    (∀ x ∈ s.txns, x.holdsRead = true → ∀ c ∈ s.hist, x.t.readTs < c.ts →
      (⟨c.ts, c.conflictKeys⟩ : CommittedTxn) ∈ s.o.committedTxns) ∧
    s.o.committedTxns =
      (s.hist.filter (fun c => decide (s.o.lastCleanupTs < c.ts))).map (fun c => ⟨c.ts, c.conflictKeys⟩) := by
  have hI := h.inv
  refine ⟨hI.cleanupLe, fun x hx hh => hI.readMark_le x hx hh,
    fun x hx hh c hc hlt => hI.cleanup_safe x hx hh c hc hlt, ?_⟩
  have := hI.committed
  simp only [if_true] at this
  rw [this]; rfl

/-- **Soundness of conflict detection.** In every reachable state, if `Commit` of an active
    transaction `x` would be accepted (`newCommitTs` returns a timestamp `ts`), then no transaction
    that obtained a commit timestamp in `(x.readTs, ts)` wrote a fingerprint that `x` read. -/
theorem C02_sound {n : Nat} {s : Sys} (h : OReach false true n s) (tid : Nat) (x : TxnSt)
    (hx : s.txns[tid]? = some x) (hph : x.phase = .active) (ts : Nat)
    (hok : s.commitResult tid = some (.ok ts)) :
    ts = s.o.nextTxnTs ∧
    ∀ c ∈ s.hist, x.t.readTs < c.ts → c.ts < ts ∧ ∀ fp ∈ x.t.reads, fp ∉ c.conflictKeys := by
  have hI := h.inv
  have hxm := List.mem_of_getElem? hx
  have hdr := hI.doneRead_false x hxm (by rw [hph]; decide)
  have hh : x.holdsRead = true := by simp [TxnSt.holdsRead, hph, hdr]
  simp only [Sys.commitResult, hx, Option.some.injEq] at hok
  cases hc : s.o.hasConflict x.t with
  | true =>
    have e : s.o.newCommitTs x.t = (s.o, x.t, .conflict) := by simp [Oracle.newCommitTs, hc]
    rw [e] at hok; cases hok
  | false =>
    rw [hI.newCommitTs_eq x hxm (by rw [hph]; decide) hc] at hok
    simp only [CommitResult.ok.injEq] at hok
    refine ⟨hok.symm, fun c hcm hlt => ⟨?_, fun fp hfp => ?_⟩⟩
    · rw [← hok]; exact (hI.histLt c hcm).2
    · exact (Oracle.hasConflict_eq_false _ _).mp hc _ (hI.cleanup_safe x hxm hh c hcm hlt) hlt fp hfp

/-- **Completeness (no false aborts up to fingerprint collisions).** If `Commit` of `x` is
    rejected, some transaction that obtained a commit timestamp after `x.readTs` did write a
    fingerprint that `x` read. (Stated over the history of *allocated* timestamps: a transaction
    whose `sendToWriteCh` failed after `newCommitTs` stays in `committedTxns`, DESIGN F11.) -/
theorem C02_complete {d : Bool} {n : Nat} {s : Sys} (h : OReach false d n s) (tid : Nat) (x : TxnSt)
    (hx : s.txns[tid]? = some x) (hcf : s.commitResult tid = some .conflict) :
    ∃ fp ∈ x.t.reads, ∃ c ∈ s.hist, x.t.readTs < c.ts ∧ fp ∈ c.conflictKeys := by
  have hI := h.inv
  simp only [Sys.commitResult, hx, Option.some.injEq] at hcf
  cases hc : s.o.hasConflict x.t with
  | true =>
    obtain ⟨c, hcm, hlt, fp, hfp, hmem⟩ := (Oracle.hasConflict_eq_true _ _).mp hc
    have hcmt := hI.committed
    cases d with
    | false => simp at hcmt; rw [hcmt] at hcm; simp at hcm
    | true =>
      simp only [if_true] at hcmt
      rw [hcmt] at hcm
      obtain ⟨c0, hc0, e⟩ := List.mem_map.mp hcm
      subst e
      exact ⟨fp, hfp, c0, (List.mem_filter.mp hc0).1, hlt, hmem⟩
  | false =>
    -- without a conflict `newCommitTs` cannot answer `conflict`
    exfalso
    unfold Oracle.newCommitTs at hcf
    rw [if_neg (by simp [hc]), if_pos (by simp [hI.notManaged])] at hcf
    simp only at hcf
    split at hcf
    · cases hcf
    · split at hcf <;> cases hcf

/-- **A rejected commit leaves no trace in the oracle**: whatever the state (reachable or not),
    when `newCommitTs` reports a conflict the oracle is returned unchanged — `nextTxnTs`,
    `committedTxns`, `lastCleanupTs` and both watermarks (no `doneRead`, no `txnMark.Begin`). -/
theorem C02_conflict_no_trace (o : Oracle) (t : Txn) (hcf : (o.newCommitTs t).2.2 = .conflict) :
    (o.newCommitTs t).1 = o ∧ (o.newCommitTs t).2.1 = t := by
  unfold Oracle.newCommitTs at hcf ⊢
  split
  · exact ⟨rfl, rfl⟩
  · rename_i hc
    rw [if_neg hc] at hcf
    exfalso
    split at hcf
    · simp only at hcf
      split at hcf
      · cases hcf
      · split at hcf <;> cases hcf
    · simp only at hcf
      split at hcf <;> cases hcf

/-- … and at the level of the transition system: the step of a rejected `Commit` changes neither
    the oracle nor the history (the transaction merely waits for its deferred `Discard`). -/
theorem C02_conflict_no_trace_step {d : Bool} {n : Nat} {s s' : Sys} (h : OReach false d n s) (tid : Nat)
    (hcf : s.commitResult tid = some .conflict) (hs : s.step (.commit tid) = some s') :
    s'.o.nextTxnTs = s.o.nextTxnTs ∧ s'.o.committedTxns = s.o.committedTxns ∧
    s'.o.lastCleanupTs = s.o.lastCleanupTs ∧ s'.hist = s.hist ∧ s'.doneCommits = s.doneCommits ∧
    s'.rmSent = s.rmSent ∧ s'.tmSent = s.tmSent := by
  have hI := h.inv
  have hg1 : ¬ (s.crashed = true ∨ s.o.isManaged = true) := by simp [hI.notManaged, hI.live]
  simp only [Sys.step] at hs
  rw [if_neg hg1] at hs
  cases hx : s.txns[tid]? with
  | none => rw [hx] at hs; simp at hs
  | some x =>
    rw [hx] at hs
    simp only [Sys.commitResult, hx, Option.some.injEq] at hcf
    simp only at hs
    split at hs
    · simp at hs
    · have hnt := C02_conflict_no_trace s.o x.t hcf
      rw [hcf] at hs
      simp only [Option.some.injEq] at hs
      subst hs
      simp only [hnt.1]
      simp

/-- **Serializability in commit-timestamp order (fingerprint level).** In every reachable
    state, for every transaction `h` of the history and every fingerprint it read, the committed
    writers of that fingerprint visible at its snapshot (`ts ≤ h.readTs`) are exactly the writers
    that precede it in commit-timestamp order (`ts < h.ts`): re-executing the history serially in
    commit-timestamp order, `h` reads the same versions it read at its snapshot. (No write skew /
    lost update on tracked reads; range phantoms are outside the statement, DESIGN §8.1.) -/
theorem C02_serial {n : Nat} {s : Sys} (h : OReach false true n s) (e : HistEntry) (he : e ∈ s.hist)
    (fp : Nat) (hfp : fp ∈ e.reads) :
    s.hist.filter (fun c => decide (fp ∈ c.conflictKeys ∧ c.ts ≤ e.readTs)) =
    s.hist.filter (fun c => decide (fp ∈ c.conflictKeys ∧ c.ts < e.ts)) ∧
    e.readTs < e.ts := by
  have hI := h.inv
  -- a transaction's read timestamp is below its commit timestamp
  have hlt : ∀ e ∈ s.hist, e.readTs < e.ts := by
    -- carried by reachability: prove it by induction on `OReach` directly
    clear hfp he e
    induction h with
    | init => simp [Sys.opened]
    | @step s1 s2 l hr hstep ih =>
      have hI1 := hr.inv
      have hg1 : ¬ (s1.crashed = true ∨ s1.o.isManaged = true) := by simp [hI1.notManaged, hI1.live]
      have hg2 : ¬ (s1.crashed = true) := by simp [hI1.live]
      have same : s2.hist = s1.hist → ∀ e ∈ s2.hist, e.readTs < e.ts := fun hh e he => ih (hr.inv) e (hh ▸ he)
      cases l with
      | commit tid =>
        simp only [Sys.step] at hstep
        rw [if_neg hg1] at hstep
        cases hx : s1.txns[tid]? with
        | none => rw [hx] at hstep; simp at hstep
        | some x =>
          rw [hx] at hstep
          simp only at hstep
          split at hstep
          · simp at hstep
          · rename_i hcond
            have hph : x.phase = .active := by
              by_cases h' : x.phase = .active
              · exact h'
              · exact absurd (.inl h') hcond
            have hxm := List.mem_of_getElem? hx
            cases hc : s1.o.hasConflict x.t with
            | true =>
              have e' : s1.o.newCommitTs x.t = (s1.o, x.t, .conflict) := by simp [Oracle.newCommitTs, hc]
              rw [e'] at hstep
              simp only [Option.some.injEq] at hstep
              subst hstep
              exact same rfl
            | false =>
              rw [hI1.newCommitTs_eq x hxm (by rw [hph]; decide) hc] at hstep
              simp only [Option.some.injEq] at hstep
              subst hstep
              intro e he
              rcases List.mem_append.mp he with he | he
              · exact ih hr.inv e he
              · simp at he; subst he; exact hI1.readTsLt x hxm
      | begin u =>
        simp only [Sys.step] at hstep; rw [if_neg hg1] at hstep
        simp only [Option.some.injEq] at hstep; subst hstep; exact same rfl
      | waitCheck tid =>
        simp only [Sys.step] at hstep; rw [if_neg hg2] at hstep
        cases hx : s1.txns[tid]? with
        | none => rw [hx] at hstep; simp at hstep
        | some x =>
          rw [hx] at hstep; simp only at hstep
          split at hstep
          · simp at hstep
          · split at hstep <;> (simp only [Option.some.injEq] at hstep; subst hstep; exact same rfl)
      | procTxnMark =>
        simp only [Sys.step] at hstep; rw [if_neg hg2] at hstep
        cases hp : s1.o.txnMark.process with
        | none => rw [hp] at hstep; simp at hstep
        | some r => rw [hp] at hstep; simp only [Option.some.injEq] at hstep; subst hstep; exact same rfl
      | procReadMark =>
        simp only [Sys.step] at hstep; rw [if_neg hg2] at hstep
        cases hp : s1.o.readMark.process with
        | none => rw [hp] at hstep; simp at hstep
        | some r => rw [hp] at hstep; simp only [Option.some.injEq] at hstep; subst hstep; exact same rfl
      | read tid fp =>
        simp only [Sys.step] at hstep; rw [if_neg hg2] at hstep
        cases hx : s1.txns[tid]? with
        | none => rw [hx] at hstep; simp at hstep
        | some x =>
          rw [hx] at hstep; simp only at hstep
          split at hstep
          · simp at hstep
          · split at hstep <;> (simp only [Option.some.injEq] at hstep; subst hstep; exact same rfl)
      | write tid fp =>
        simp only [Sys.step] at hstep; rw [if_neg hg2] at hstep
        cases hx : s1.txns[tid]? with
        | none => rw [hx] at hstep; simp at hstep
        | some x =>
          rw [hx] at hstep; simp only at hstep
          split at hstep
          · simp at hstep
          · simp only [Option.some.injEq] at hstep; subst hstep; exact same rfl
      | discard tid =>
        simp only [Sys.step] at hstep; rw [if_neg hg2] at hstep
        cases hx : s1.txns[tid]? with
        | none => rw [hx] at hstep; simp at hstep
        | some x =>
          rw [hx] at hstep; simp only at hstep
          split at hstep
          · simp at hstep
          · split at hstep <;> (simp only [Option.some.injEq] at hstep; subst hstep; exact same rfl)
      | doneCommit ts =>
        simp only [Sys.step] at hstep
        split at hstep
        · simp at hstep
        · simp only [Option.some.injEq] at hstep; subst hstep; exact same rfl
      | beginAt r u => simp [Sys.step, hI1.notManaged] at hstep
      | commitAt tid ts => simp [Sys.step, hI1.notManaged] at hstep
      | setDiscardTs ts => simp [Sys.step, hI1.notManaged] at hstep
      | cleanup =>
        simp only [Sys.step] at hstep; rw [if_neg hg2] at hstep
        split at hstep <;> (simp only [Option.some.injEq] at hstep; subst hstep; exact same rfl)
  refine ⟨?_, hlt e he⟩
  apply List.filter_congr
  intro c hc
  have hel := hlt e he
  by_cases hk : fp ∈ c.conflictKeys
  · simp only [hk, true_and, decide_eq_decide]
    constructor
    · intro h1; omega
    · intro h2
      -- a writer of `fp` strictly between the snapshot and the commit would contradict `ssi`
      rcases Nat.lt_or_ge e.readTs c.ts with h3 | h3
      · exact absurd hk (hI.ssi rfl e he c hc h3 h2 fp hfp)
      · exact h3
  · simp [hk]


/-! ## Managed mode -/

/-- **Soundness in managed mode, under the API contract.** In every reachable state of a managed
    database with conflict detection, if `CommitAt(ts)` of an active transaction `x` is accepted and
    the discard timestamp has not been moved past `x`'s read timestamp (`discardTs ≤ x.readTs`, the
    documented contract of `SetDiscardTs`), then no transaction committed with a timestamp above
    `x.readTs` wrote a fingerprint that `x` read. -/
theorem C02_sound_managed {n : Nat} {s : Sys} (h : OReach true true n s) (tid : Nat) (x : TxnSt)
    (hx : s.txns[tid]? = some x) (ts cts : Nat) (hcontract : s.o.discardTs ≤ x.t.readTs)
    (hok : (s.o.newCommitTs { x.t with commitTs := ts }).2.2 = .ok cts) :
    cts = ts ∧ ∀ c ∈ s.hist, x.t.readTs < c.ts → ∀ fp ∈ x.t.reads, fp ∉ c.conflictKeys := by
  have hI := ReachM.inv h
  rw [Oracle.newCommitTs_managed _ _ hI.managed hI.detect] at hok
  by_cases hcf : s.o.hasConflict { x.t with commitTs := ts } = true
  · rw [if_pos hcf] at hok; cases hok
  · rw [if_neg hcf] at hok
    split at hok
    · cases hok
    · simp only [CommitResult.ok.injEq] at hok
      refine ⟨hok.symm, fun c hc hlt fp hfp => ?_⟩
      have hcf' : s.o.hasConflict { x.t with commitTs := ts } = false := by simpa using hcf
      have hle := hI.lcLe
      have hin := hI.kept c hc (by omega)
      exact (Oracle.hasConflict_eq_false _ _).mp hcf' _ hin hlt fp hfp

/-- **Completeness in managed mode**: a rejected `CommitAt` has a witness in the history. -/
theorem C02_complete_managed {n : Nat} {s : Sys} (h : OReach true true n s) (t : Txn)
    (hcf : (s.o.newCommitTs t).2.2 = .conflict) :
    ∃ fp ∈ t.reads, ∃ c ∈ s.hist, t.readTs < c.ts ∧ fp ∈ c.conflictKeys := by
  have hI := ReachM.inv h
  rw [Oracle.newCommitTs_managed _ _ hI.managed hI.detect] at hcf
  by_cases hc : s.o.hasConflict t = true
  · obtain ⟨c, hcm, hlt, fp, hfp, hmem⟩ := (Oracle.hasConflict_eq_true _ _).mp hc
    obtain ⟨c0, hc0, e⟩ := hI.fromHist c hcm
    subst e
    exact ⟨fp, hfp, c0, hc0, hlt, hmem⟩
  · rw [if_neg hc] at hcf
    split at hcf <;> cases hcf

/-- The contract is needed: transaction 0 reads fingerprint 1 at read timestamp 5, transaction 1
    commits a write of 1 at 7, the user moves `discardTs` to 9 (past 0's read timestamp), and
    `CommitAt(10)` of transaction 0 is accepted although 7 ∈ (5, 10) wrote what it read. -/
theorem C02_managed_needs_contract :
    ((Sys.opened true true 0).runLabels
      [.beginAt 5 true, .read 0 1, .write 0 2, .beginAt 5 true, .write 1 1, .commitAt 1 7,
       .setDiscardTs 9]).map (fun s => ((s.txns[0]?).map (fun x => (s.o.newCommitTs { x.t with commitTs := 10 }).2.2),
         s.hist.map (fun c => (c.ts, c.conflictKeys)), s.o.discardTs)) =
    some (some (.ok 10), [(7, [1])], 9) := by decide

/-- `OReach true true n` puts no order on `commitAt` timestamps (they are caller-chosen): the
    managed-mode theorems cover non-monotonic histories. Witness (seeded/C02-hasconflict-break):
    0 reads fingerprint 1 at read timestamp 5, 1 overwrites it at 10, an unrelated commit lands at 3
    — the history is `[10, 3]` — and `CommitAt(11)` of 0 is rejected. -/
theorem C02_managed_nonmonotonic_witness :
    ((Sys.opened true true 0).runLabels
      [.beginAt 5 true, .read 0 1, .write 0 1, .beginAt 5 true, .write 1 1, .commitAt 1 10,
       .beginAt 2 true, .write 2 2, .commitAt 2 3]).map
      (fun s => ((s.txns[0]?).map (fun x => (s.o.newCommitTs { x.t with commitTs := 11 }).2.2),
        s.hist.map (·.ts))) = some (some .conflict, [10, 3]) := by decide

/-! ## Non-vacuity: concrete reachable histories -/

/-- Two update transactions start at read timestamp 0; 0 reads fingerprint 7 and writes 8, 1 writes
    7 and commits (ts 1); then `Commit` of 0 is rejected (it read 7, written at 1 > 0). -/
def exConflict : List Label :=
  [.begin true, .waitCheck 0, .begin true, .waitCheck 1, .read 0 7, .write 0 8, .write 1 7,
   .commit 1, .procReadMark, .procReadMark]

example : ((Sys.opened false true 0).runLabels exConflict).isSome = true := by decide
example : (((Sys.opened false true 0).runLabels exConflict).bind (·.commitResult 0)) = some .conflict := by
  decide
/-- The same schedule where transaction 0 read another key: accepted at timestamp 2, and the
    premises of `C02_sound`/`C02_serial` are met by a non-empty history. -/
def exOk : List Label :=
  [.begin true, .waitCheck 0, .begin true, .waitCheck 1, .read 0 9, .write 0 8, .write 1 7,
   .commit 1, .procReadMark, .procReadMark, .cleanup]

example : (((Sys.opened false true 0).runLabels exOk).bind (·.commitResult 0)) = some (.ok 2) := by decide
example : (((Sys.opened false true 0).runLabels (exOk ++ [.commit 0])).map (fun s => s.hist.map (·.ts))) =
    some [1, 2] := by decide
/-- A long-running reader (transaction 0, read timestamp 0) keeps the entry of commit 1 alive
    across cleanups: `committedTxns` still holds it after `cleanup`, although transaction 1 is done. -/
example : (((Sys.opened false true 0).runLabels exOk).map (fun s => (s.o.committedTxns.map (·.ts), s.o.lastCleanupTs))) =
    some ([1], 0) := by decide
/-- Once the reader is gone, commit 1 is applied, a later reader (read timestamp 1) has come and
    gone and the read mark has caught up, the entry is pruned. -/
example : (((Sys.opened false true 0).runLabels
      (exOk ++ [.discard 0, .doneCommit 1, .procTxnMark, .procTxnMark, .procTxnMark, .begin false,
        .waitCheck 2, .discard 2, .procReadMark, .procReadMark, .procReadMark, .procReadMark,
        .procReadMark, .cleanup])).map
        (fun s => (s.o.committedTxns.map (·.ts), s.o.lastCleanupTs))) = some ([], 1) := by decide

end Badger
