import BadgerModel.Table
import BadgerProofs.Lemmas.TableSeek
import BadgerProofs.Lemmas.Concat
import BadgerProofs.Lemmas.ConcatSeek
/-!
# C18 — SSTables return exactly the entries they were built from

Model: `BadgerModel/Block.lean`, `BadgerModel/Table.lean` (namespace `Badger.Tbl`), mirroring
`table/builder.go`, `table/table.go`, `table/iterator.go` branch by branch. The theorems are
over *all* entry lists, block sizes, checksum modes and all compression / encryption function
pairs satisfying the inverse laws `Env.Lawful` (so `C18_roundtrip_codec` is built into every
statement: `env` and the `compress` / `encrypt` flags of `o` are universally quantified).

Hypotheses that every theorem about a built table shares (`Built`):
* `es ≠ []` (an empty builder produces no table at all),
* keys are non-empty and at most 65531 bytes long — see `C18_overlong_key_panics` for why
  65535 is not enough: `setIdx` computes `headerSize + h.diff` in `uint16`,
* `expiresAt < 2^64`,
* the table is smaller than 4 GiB (block offsets and lengths are `uint32`): `hraw`, `hdata`,
* the builder did not hit one of its asserts: `buildTable … = some (some tf)`
  (`C18_build_total` shows that it does not for inputs below 2 GiB).
-/
namespace Badger
open Tbl

/-- The common hypotheses: `tf` is the table the builder produces from `es`. -/
structure Tbl.Built (env : Env) (K : Nat) (o : Opts) (es : List Entry) (tf : TableFile) : Prop where
  lawful : env.Lawful
  cksum_len : ∀ d, (env.cksum d).length ≤ K
  ne : es ≠ []
  keys : ∀ e ∈ es, e.key ≠ [] ∧ e.key.length ≤ 65531
  exp : ∀ e ∈ es, e.vs.expiresAt < 2 ^ 64
  raw : entriesSize es + 4 * es.length + 8 + K < 4294967296
  built : buildTable env o es = some (some tf)
  data : tf.data.length < 4294967296

theorem Tbl.Built.tableOK {env : Env} {K : Nat} {o : Opts} {es : List Entry} {tf : TableFile}
    (h : Built env K o es tf) :
    ∃ G, G.flatten = es ∧ (∀ g ∈ G, g ≠ []) ∧ G ≠ [] ∧ TableOK env ⟨o, tf⟩ G ∧
      tf.index.keyCount = u32 es.length ∧ tf.index.maxVersion = maxVersionOf es ∧
      tf.index.bloom = (if o.bloom then env.mkFilter (es.map (fun e => env.hash (parseKey e.key))) else []) := by
  obtain ⟨G, hG, hne, hok, h1, h2, h3⟩ :=
    build_tableOK h.lawful K h.cksum_len h.ne h.keys h.raw h.built h.data
  refine ⟨G, hG, hne, ?_, hok, h1, h2, h3⟩
  intro hnil; subst hnil; exact h.ne (by simpa using hG.symm)

/-! ## Block level -/

/-- **C18_block_key_any_order.** Take the block the builder produces from any run of entries
    `es` (`addHelper`* then `finishBlock`), read it back (`Table.block` tail parsing with
    checksum verification, `setBlock`). Then after ANY sequence of `setIdx` probes `ps`
    (indices in any order, repeated, out of range) a further probe of index `i` leaves exactly
    the `i`-th original key in the key buffer `it.key`, and the encoded `i`-th value in
    `it.val`; no probe sequence panics. The `prevOverlap` reuse of the key buffer is correct
    for every probe order. -/
theorem C18_block_key_any_order (cksum : Bytes → Bytes) (verify : Bytes → Bytes → Bool)
    (hv : ∀ d, verify d (cksum d) = true) (es : List Entry) (cur : BBlock)
    (hne : es ≠ []) (hkeys : ∀ e ∈ es, e.key ≠ [] ∧ e.key.length ≤ 65531)
    (hb : BBlock.addEntries {} es = some cur)
    (hsize : (cur.finish cksum).length < 4294967296) :
    ∃ b it0, parseBlock true verify (cur.finish cksum) = .ok b ∧
      ({} : BlockIter).setBlock b = some it0 ∧
      ∀ (ps : List Int) (i : Nat) (e : Entry), es[i]? = some e →
        ∃ it, it0.probeAll (ps ++ [(i : Int)]) = some it ∧
          it.key = e.key ∧ it.val = encVS e.vs ∧ it.err = none := by
  have hcur : cur = specBlock es := by
    have := addEntries_spec es [] cur (by simpa using fun e he => (hkeys e he).1) hb
    simpa using this
  subst hcur
  have hoffs : ∀ x ∈ (specBlock es).entryOffsets, x < 4294967296 := by
    intro x hx
    simp only [specBlock, List.mem_map] at hx
    obtain ⟨y, _, rfl⟩ := hx
    exact Nat.mod_lt _ (by decide)
  obtain ⟨b, hpb, hsl, heo, _⟩ := parseBlock_finish cksum verify true hv (specBlock es) hoffs hsize
  have hdl : (blockData es).length < 4294967296 := by
    have := finish_length cksum (specBlock es)
    have e2 : (specBlock es).data.length = (blockData es).length := rfl
    omega
  have wf : BlockWF es := by
    refine ⟨?_, fun e he => (hkeys e he).2, hdl⟩
    obtain ⟨e0, r, rfl⟩ := List.exists_cons_of_ne_nil hne
    exact (hkeys e0 (by simp)).1
  have hbo : (blockOffs es).map u32 = blockOffs es := blockOffs_map_u32 es hdl
  refine ⟨b, { data := blockData es, entryOffsets := b.entryOffsets }, hpb, ?_, ?_⟩
  · unfold BlockIter.setBlock
    rw [hsl]; rfl
  · intro ps i e he
    have inv0 : BlockInv es ({ data := blockData es, entryOffsets := b.entryOffsets } : BlockIter) :=
      ⟨rfl, by rw [heo]; exact hbo, Or.inl rfl, by simp, by simp, by simp⟩
    obtain ⟨it1, hp1, inv1⟩ := probeAll_inv wf ps _ inv0
    obtain ⟨it2, hset, _, hk, hval, _, herr⟩ := setIdx_ok wf inv1 i e he
    refine ⟨it2, ?_, hk, hval, herr⟩
    rw [probeAll_append, hp1, Option.bind_some]
    simp [BlockIter.probeAll, hset]

/-- `ValueStruct.Decode ∘ Encode = id` (used to read `it.val`). -/
theorem C18_value_roundtrip (v : VS) (h : v.expiresAt < 2 ^ 64) : decodeVS (encVS v) = some v :=
  decodeVS_encVS v h

/-! ## Whole table: iteration -/

/-- **C18_entries.** For every non-empty entry list (sortedness is not even needed here), every
    block size / checksum mode / bloom setting and every lawful compression and encryption
    pair, `for it.Rewind(); it.Valid(); it.Next()` over the opened built table yields exactly
    the input entries — key bytes, meta, userMeta, expiresAt, value — and with the `REVERSED`
    flag exactly the reverse. (`fuel` bounds the loop; any bound above the number of entries
    gives the same list, i.e. the iterator becomes invalid right after the last entry.) -/
theorem C18_entries {env : Env} {K : Nat} {o : Opts} {es : List Entry} {tf : TableFile}
    (h : Built env K o es tf) (fuel : Nat) (hfuel : es.length < fuel) :
    (TableCore.mk o tf).entries env false fuel = some es ∧
    (TableCore.mk o tf).entries env true fuel = some es.reverse := by
  obtain ⟨G, hG, hne, hGne, ok, _⟩ := h.tableOK
  have hexp : ∀ g ∈ G, ∀ e ∈ g, e.vs.expiresAt < 2 ^ 64 := by
    intro g hg e he
    exact h.exp e (by rw [← hG]; exact List.mem_flatten.mpr ⟨g, hg, he⟩)
  have hGpos : 0 < G.length := List.length_pos_iff.mpr hGne
  constructor
  · obtain ⟨g, hg⟩ := getElem?_some_of_lt G 0 hGpos
    obtain ⟨e, he⟩ := getElem?_some_of_lt g 0 (List.length_pos_iff.mpr (hne g (List.mem_of_getElem? hg)))
    obtain ⟨it', hrw, hat, hrev⟩ := seekToFirst_ok ok ({ reversed := false } : TIter) g e hg he
    unfold TableCore.entries
    have : ({ reversed := false } : TIter).apiRewind env ⟨o, tf⟩ = some it' := by
      simp [TIter.apiRewind, hrw]
    rw [this, Option.bind_some]
    have hsplit := drop_flatten_of_get G 0 g hg
    simp only [List.drop_zero, Nat.zero_add] at hsplit
    have := scan_fwd ok hne hexp _ 0 0 g e it' hat (by rw [hrev]) rfl fuel
      (by simp only [List.drop_zero, Nat.zero_add]; rw [← hsplit, hG]; exact hfuel)
    simp only [List.drop_zero, Nat.zero_add] at this
    rw [this, ← hsplit, hG]
  · obtain ⟨g, hg⟩ := getElem?_some_of_lt G (G.length - 1) (by omega)
    have hgpos := List.length_pos_iff.mpr (hne g (List.mem_of_getElem? hg))
    obtain ⟨e, he⟩ := getElem?_some_of_lt g (g.length - 1) (by omega)
    obtain ⟨it', hrw, hat, hrev⟩ := seekToLast_ok ok ({ reversed := true } : TIter) g e hg he
    unfold TableCore.entries
    have : ({ reversed := true } : TIter).apiRewind env ⟨o, tf⟩ = some it' := by
      simp [TIter.apiRewind, hrw]
    rw [this, Option.bind_some]
    have hsplit := take_succ_flatten_of_get G (G.length - 1) g hg
    have h1 : G.length - 1 + 1 = G.length := by omega
    rw [h1, List.take_length] at hsplit
    have htk : g.take (g.length - 1 + 1) = g := List.take_of_length_le (by omega)
    have := scan_rev ok hne hexp _ (G.length - 1) (g.length - 1) g e it' hat (by rw [hrev]) rfl fuel
      (by rw [htk, ← hsplit, hG]; exact hfuel)
    rw [this, htk, ← hsplit, hG]

/-! ## Seek -/

/-- `Sorted` (every earlier key `<` every later key) is the same as the usual adjacent
    formulation "each key is `<` its successor", because `compareKeys` is transitive. -/
theorem C18_sorted_of_adjacent : ∀ (es : List Entry),
    (∀ (i : Nat) a b, es[i]? = some a → es[i + 1]? = some b → compareKeys a.key b.key = .lt) →
    Sorted es := by
  intro es
  induction es with
  | nil => intro _; exact List.Pairwise.nil
  | cons x xs ih =>
    intro h
    have hxs : Sorted xs := ih (fun i a b ha hb => h (i + 1) a b (by simpa using ha) (by simpa using hb))
    refine List.Pairwise.cons ?_ hxs
    intro b hb
    cases xs with
    | nil => simp at hb
    | cons y ys =>
      have hxy : compareKeys x.key y.key = .lt := h 0 x y (by simp) (by simp)
      rcases List.mem_cons.mp hb with rfl | hb'
      · exact hxy
      · have hyb : compareKeys y.key b.key = .lt := (List.pairwise_cons.mp hxs).1 b hb'
        exact compareKeys_lt_trans _ _ _ hxy hyb

/-- **C18_seek.** On the opened built table of a strictly increasing entry list, `seek(key)`
    from ANY iterator state and for ANY key (before the first, after the last, between blocks,
    present or absent) lands on the first entry `≥ key` in `compareKeys` order — the naive
    linear-scan answer `es.find? (· ≥ key)` — and is invalid iff there is none. -/
theorem C18_seek {env : Env} {K : Nat} {o : Opts} {es : List Entry} {tf : TableFile}
    (h : Built env K o es tf) (hs : Sorted es) (h8 : ∀ e ∈ es, 8 ≤ e.key.length)
    (it : TIter) (key : Bytes) (hkey : 8 ≤ key.length) :
    ∃ it', it.seek env ⟨o, tf⟩ key = some it' ∧
      it'.entry? = es.find? (fun e => compareKeys e.key key != .lt) := by
  obtain ⟨G, hG, hne, hGne, ok, _⟩ := h.tableOK
  have h8' : ∀ g ∈ G, ∀ e ∈ g, 8 ≤ e.key.length := by
    intro g hg e he
    exact h8 e (by rw [← hG]; exact List.mem_flatten.mpr ⟨g, hg, he⟩)
  obtain ⟨p, it', hseek, _, hpn, hA, hB, hin, hout⟩ :=
    seekFrom_ok ok hne hGne (by rw [hG]; exact hs) h8' it key hkey
  rw [hG] at hpn hA hB hin hout
  refine ⟨it', hseek, ?_⟩
  have hfind := find?_index (fun e : Entry => compareKeys e.key key != .lt) es p
    (by intro k e hk he; simp [hA k e hk he])
    (by intro e he; simpa using hB e he)
  rw [hfind]
  rcases Nat.lt_or_ge p es.length with hp | hp
  · obtain ⟨j, r, g, e, hat, hpe⟩ := hin hp
    have hfe := flatten_getElem? G j r g e hat.gj hat.gr
    rw [hG, ← hpe] at hfe
    rw [hfe]
    obtain ⟨hv, hd, hent⟩ := at_entry hat (h.exp e (List.mem_of_getElem? hfe))
    simp [TIter.entry?, hv, hd, hent]
  · have hpe : p = es.length := by omega
    obtain ⟨g, e, hpast⟩ := hout hpe
    rw [List.getElem?_eq_none (by omega)]
    simp [TIter.entry?, TIter.valid, hpast.err]

/-- **C18_seekForPrev.** `seekForPrev(key)` from any iterator state and any key lands on the
    last entry `≤ key` (the naive answer on the reversed list), invalid iff every entry is
    `> key`. -/
theorem C18_seekForPrev {env : Env} {K : Nat} {o : Opts} {es : List Entry} {tf : TableFile}
    (h : Built env K o es tf) (hs : Sorted es) (h8 : ∀ e ∈ es, 8 ≤ e.key.length)
    (it : TIter) (key : Bytes) (hkey : 8 ≤ key.length) :
    ∃ it', it.seekForPrev env ⟨o, tf⟩ key = some it' ∧
      it'.entry? = es.reverse.find? (fun e => compareKeys e.key key != .gt) := by
  obtain ⟨G, hG, hne, hGne, ok, _⟩ := h.tableOK
  have h8' : ∀ g ∈ G, ∀ e ∈ g, 8 ≤ e.key.length := by
    intro g hg e he
    exact h8 e (by rw [← hG]; exact List.mem_flatten.mpr ⟨g, hg, he⟩)
  obtain ⟨it', hseek, _, hcases⟩ :=
    seekForPrev_ok ok hne hGne (by rw [hG]; exact hs) h8' it key hkey
  rw [hG] at hcases
  refine ⟨it', hseek, ?_⟩
  rcases hcases with ⟨q, e, j, r, g, hfe, hle, hhi, hat, _⟩ | ⟨hall, herr⟩
  · have hP : (fun e : Entry => compareKeys e.key key != .gt) e = true := by
      simp only [bne_iff_ne, ne_eq]
      intro hgt; exact hle ((compareKeys_gt_iff _ _).mp hgt)
    have := find?_reverse_index (fun e : Entry => compareKeys e.key key != .gt) es q e hfe hP
      (by intro k e' hk he'
          have := hhi k e' hk he'
          simp [(compareKeys_gt_iff _ _).mpr this])
    rw [this]
    obtain ⟨hv, hd, hent⟩ := at_entry hat (h.exp e (List.mem_of_getElem? hfe))
    simp [TIter.entry?, hv, hd, hent]
  · have : es.reverse.find? (fun e => compareKeys e.key key != .gt) = none := by
      rw [List.find?_eq_none]
      intro x hx
      rw [List.mem_reverse] at hx
      simp [(compareKeys_gt_iff _ _).mpr (hall x hx)]
    rw [this]
    simp [TIter.entry?, TIter.valid, herr]

/-- `Iterator.Seek` with the `REVERSED` flag: forward iterators seek to the first `≥ key`,
    reversed ones to the last `≤ key`. -/
theorem C18_apiSeek {env : Env} {K : Nat} {o : Opts} {es : List Entry} {tf : TableFile}
    (h : Built env K o es tf) (hs : Sorted es) (h8 : ∀ e ∈ es, 8 ≤ e.key.length)
    (it : TIter) (key : Bytes) (hkey : 8 ≤ key.length) :
    ∃ it', it.apiSeek env ⟨o, tf⟩ key = some it' ∧
      it'.entry? = (if it.reversed then es.reverse.find? (fun e => compareKeys e.key key != .gt)
                    else es.find? (fun e => compareKeys e.key key != .lt)) := by
  unfold TIter.apiSeek
  cases hr : it.reversed with
  | false => simpa using C18_seek h hs h8 it key hkey
  | true => simpa using C18_seekForPrev h hs h8 it key hkey

/-! ## Opening, metadata, checksums -/

theorem Tbl.maxVersionOf_ge (es : List Entry) : ∀ e ∈ es, parseTs e.key ≤ maxVersionOf es := by
  have gen : ∀ (es : List Entry) (m : Nat),
      m ≤ es.foldl (fun m e => if parseTs e.key > m then parseTs e.key else m) m ∧
      ∀ e ∈ es, parseTs e.key ≤ es.foldl (fun m e => if parseTs e.key > m then parseTs e.key else m) m := by
    intro es
    induction es with
    | nil => intro m; simp
    | cons x xs ih =>
      intro m
      simp only [List.foldl_cons, List.mem_cons]
      obtain ⟨h1, h2⟩ := ih (if parseTs x.key > m then parseTs x.key else m)
      by_cases hgt : parseTs x.key > m
      · simp only [hgt, if_true] at h1 h2 ⊢
        refine ⟨by omega, ?_⟩
        intro e he
        rcases he with rfl | he
        · exact h1
        · exact h2 e he
      · simp only [hgt, if_false] at h1 h2 ⊢
        refine ⟨h1, ?_⟩
        intro e he
        rcases he with rfl | he
        · omega
        · exact h2 e he
  exact (gen es 0).2

theorem Tbl.maxVersionOf_mem (es : List Entry) (hne : es ≠ []) :
    ∃ e ∈ es, maxVersionOf es = parseTs e.key := by
  have gen : ∀ (es : List Entry) (m : Nat),
      es.foldl (fun m e => if parseTs e.key > m then parseTs e.key else m) m = m ∨
      ∃ e ∈ es, es.foldl (fun m e => if parseTs e.key > m then parseTs e.key else m) m = parseTs e.key := by
    intro es
    induction es with
    | nil => intro m; simp
    | cons x xs ih =>
      intro m
      simp only [List.foldl_cons, List.mem_cons]
      rcases ih (if parseTs x.key > m then parseTs x.key else m) with h | ⟨e, he, h⟩
      · rw [h]
        split
        · exact Or.inr ⟨x, Or.inl rfl, rfl⟩
        · exact Or.inl rfl
      · exact Or.inr ⟨e, Or.inr he, h⟩
  rcases gen es 0 with h | h
  · obtain ⟨e0, r, rfl⟩ := List.exists_cons_of_ne_nil hne
    refine ⟨e0, by simp, ?_⟩
    have := maxVersionOf_ge (e0 :: r) e0 (by simp)
    unfold maxVersionOf at *
    omega
  · exact h

/-- **C18_meta.** `OpenInMemoryTable` / `OpenTable` (any `ChkMode`, including the table-level
    `VerifyChecksum` of `OnTableRead` / `OnTableAndBlockRead`) succeeds on the built table, and
    `Smallest()` is the first added key, `Biggest()` the last added key, `KeyCount()` the number
    of entries, `MaxVersion()` the maximum of `ParseTs` over the keys; `DoesNotHave` is false
    for the hash of every added user key, for any bloom implementation without false
    negatives (and always false when the filter is off). -/
theorem C18_meta {env : Env} {K : Nat} {o : Opts} {es : List Entry} {tf : TableFile}
    (h : Built env K o es tf) (inMemory : Bool) :
    ∃ t, openTable env o tf inMemory = .ok t ∧ t.core = ⟨o, tf⟩ ∧
      (∀ e0, es[0]? = some e0 → t.smallest = e0.key) ∧
      (∀ el, es[es.length - 1]? = some el → t.biggest = el.key) ∧
      t.keyCount = es.length ∧
      (∀ e ∈ es, parseTs e.key ≤ t.maxVersion) ∧ (∃ e ∈ es, t.maxVersion = parseTs e.key) ∧
      ((∀ hs x, x ∈ hs → env.mayContain (env.mkFilter hs) x = true) →
        ∀ e ∈ es, t.doesNotHave env (env.hash (parseKey e.key)) = false) := by
  obtain ⟨G, hG, hne, hGne, ok, hkc, hmv, hbl⟩ := h.tableOK
  have hGpos : 0 < G.length := List.length_pos_iff.mpr hGne
  obtain ⟨g0, hg0⟩ := getElem?_some_of_lt G 0 hGpos
  obtain ⟨ko, hko, hkk⟩ := ok.keys 0 g0 hg0
  obtain ⟨e0, he0, hb0, hf0⟩ := base_get hne hg0
  obtain ⟨gl, hgl⟩ := getElem?_some_of_lt G (G.length - 1) (by omega)
  have hglpos := List.length_pos_iff.mpr (hne gl (List.mem_of_getElem? hgl))
  obtain ⟨el, hel⟩ := getElem?_some_of_lt gl (gl.length - 1) (by omega)
  obtain ⟨it', hrw, hat, _⟩ := seekToLast_ok ok ({ reversed := true } : TIter) gl el hgl hel
  have hrw' : ({ reversed := true } : TIter).apiRewind env ⟨o, tf⟩ = some it' := by
    simp [TIter.apiRewind, hrw]
  have hvalid : it'.valid = true := by simp [TIter.valid, hat.err]
  have hopen : openTable env o tf inMemory = .ok ⟨⟨o, tf⟩, ko.key, it'.key⟩ := by
    unfold openTable
    have hko' : tf.index.offsets[0]? = some ko := hko
    simp only [hko', hrw', hvalid, Bool.not_true, Bool.false_eq_true, if_false]
    rw [verifyChecksum_ok ok]
    split <;> rfl
  have hflast := flatten_getElem? G (G.length - 1) (gl.length - 1) gl el hgl hel
  have hlastidx : (G.take (G.length - 1)).flatten.length + (gl.length - 1) = es.length - 1 := by
    have := take_succ_flatten_length G (G.length - 1) gl hgl
    have h2 : G.length - 1 + 1 = G.length := by omega
    rw [h2, List.take_length, hG] at this
    omega
  rw [hlastidx, hG] at hflast
  simp only [List.take_zero, List.flatten_nil, List.length_nil] at hf0
  rw [hG] at hf0
  have hlen : es.length < 4294967296 := by have := h.raw; omega
  refine ⟨_, hopen, rfl, ?_, ?_, ?_, ?_, ?_, ?_⟩
  · intro e hE; rw [hf0] at hE; cases hE; rw [hkk, hb0]
  · intro e hE; rw [hflast] at hE; cases hE; exact hat.key
  · show tf.index.keyCount = es.length
    rw [hkc]; exact u32_of_lt hlen
  · intro e he
    show parseTs e.key ≤ tf.index.maxVersion
    rw [hmv]; exact maxVersionOf_ge es e he
  · show ∃ e ∈ es, tf.index.maxVersion = parseTs e.key
    rw [hmv]; exact maxVersionOf_mem es h.ne
  · intro hbloom e he
    unfold Table.doesNotHave Table.hasBloomFilter
    show (if (!decide (tf.index.bloom.length > 0)) = true then false
      else !env.mayContain tf.index.bloom (env.hash (parseKey e.key))) = false
    rw [hbl]
    cases hob : o.bloom with
    | false => simp
    | true =>
      have := hbloom (es.map (fun e => env.hash (parseKey e.key))) (env.hash (parseKey e.key))
        (List.mem_map.mpr ⟨e, he, rfl⟩)
      simp [this]

/-- **C18_checksum_ok.** `Table.VerifyChecksum` passes on the built table (every block is
    read back and its checksum verifies), in every `ChkMode`. -/
theorem C18_checksum_ok {env : Env} {K : Nat} {o : Opts} {es : List Entry} {tf : TableFile}
    (h : Built env K o es tf) : (TableCore.mk o tf).verifyChecksum env = some true := by
  obtain ⟨G, _, _, _, ok, _⟩ := h.tableOK
  exact verifyChecksum_ok ok

/-- **C18_roundtrip_codec.** The results do not depend on the codec: two tables built from
    the same entries with different lawful compression / encryption functions (and possibly
    different options) iterate identically, and equal the input. -/
theorem C18_roundtrip_codec {env₁ env₂ : Env} {K₁ K₂ : Nat} {o₁ o₂ : Opts} {es : List Entry}
    {tf₁ tf₂ : TableFile} (h₁ : Built env₁ K₁ o₁ es tf₁) (h₂ : Built env₂ K₂ o₂ es tf₂)
    (fuel : Nat) (hfuel : es.length < fuel) (rev : Bool) :
    (TableCore.mk o₁ tf₁).entries env₁ rev fuel = (TableCore.mk o₂ tf₂).entries env₂ rev fuel ∧
    (TableCore.mk o₁ tf₁).entries env₁ rev fuel = some (if rev then es.reverse else es) := by
  have a := C18_entries h₁ fuel hfuel
  have b := C18_entries h₂ fuel hfuel
  cases rev with
  | false => exact ⟨by rw [a.1, b.1], by simpa using a.1⟩
  | true => exact ⟨by rw [a.2, b.2], by simpa using a.2⟩

/-! ## ConcatIterator -/

/-- A table description: options, entries, built file. -/
abbrev Tbl.TabSpec := Opts × List Entry × TableFile

theorem Tbl.exists_groups {env : Env} {K : Nat} : ∀ (tabs : List TabSpec),
    (∀ x ∈ tabs, Built env K x.1 x.2.1 x.2.2) →
    ∃ Gs : List (List (List Entry)), Gs.length = tabs.length ∧ flatAll Gs = (tabs.map (·.2.1)).flatten ∧
      ∀ (i : Nat) x G, tabs[i]? = some x → Gs[i]? = some G →
        TableOK env ⟨x.1, x.2.2⟩ G ∧ (∀ g ∈ G, g ≠ []) ∧ G ≠ [] ∧
        (∀ g ∈ G, ∀ e ∈ g, e.vs.expiresAt < 2 ^ 64) ∧ G.flatten = x.2.1 := by
  intro tabs
  induction tabs with
  | nil => intro _; exact ⟨[], rfl, rfl, by intro i x G h; simp at h⟩
  | cons x xs ih =>
    intro hb
    obtain ⟨Gs, hlen, hflat, hall⟩ := ih (fun y hy => hb y (by simp [hy]))
    have hx := hb x (by simp)
    obtain ⟨G, hG, hne, hGne, ok, _⟩ := hx.tableOK
    refine ⟨G :: Gs, by simp [hlen], ?_, ?_⟩
    · simp only [flatAll, List.map_cons, List.flatten_cons] at hflat ⊢
      rw [hG, hflat]
    · intro i y G' hy hG'
      cases i with
      | zero =>
        simp only [List.getElem?_cons_zero, Option.some.injEq] at hy hG'
        subst hy; subst hG'
        refine ⟨ok, hne, hGne, ?_, hG⟩
        intro g hg e he
        exact hx.exp e (by rw [← hG]; exact List.mem_flatten.mpr ⟨g, hg, he⟩)
      | succ i =>
        simp only [List.getElem?_cons_succ] at hy hG'
        exact hall i y G' hy hG'

/-- **C18_concat.** A `ConcatIterator` over any list of built tables iterates, forward, the
    concatenation of their entry lists, and reversed, its reverse: `Rewind`, lazy `setIdx`,
    `Next` crossing into the following (preceding) table. -/
theorem C18_concat {env : Env} {K : Nat} (tabs : List TabSpec)
    (hb : ∀ x ∈ tabs, Built env K x.1 x.2.1 x.2.2) (ts : List Table)
    (hcore : ts.map (·.core) = tabs.map (fun x => ⟨x.1, x.2.2⟩))
    (fuel : Nat) (hfuel : ((tabs.map (·.2.1)).flatten).length < fuel) :
    concatEntries env ts false fuel = some (tabs.map (·.2.1)).flatten ∧
    concatEntries env ts true fuel = some (tabs.map (·.2.1)).flatten.reverse := by
  obtain ⟨Gs, hlen, hflat, hall⟩ := exists_groups tabs hb
  have hlts : ts.length = tabs.length := by
    have := congrArg List.length hcore; simpa using this
  have hts : TabsOK env ts Gs := by
    refine ⟨by rw [hlts, hlen], ?_⟩
    intro i t G ht hG
    obtain ⟨x, hx⟩ := getElem?_some_of_lt tabs i (by rw [← hlts]; exact lt_of_getElem?_some ht)
    have hc : t.core = ⟨x.1, x.2.2⟩ := by
      have h1 : (ts.map (·.core))[i]? = some t.core := by simp [ht]
      rw [hcore] at h1
      simp only [List.getElem?_map, hx, Option.map_some, Option.some.injEq] at h1
      exact h1.symm
    obtain ⟨ok, hne, hGne, hexp, _⟩ := hall i x G hx hG
    exact ⟨by rw [hc]; exact ok, hne, hGne, hexp⟩
  have := concatEntries_ok hts fuel (by rw [hflat]; exact hfuel)
  rw [hflat] at this
  exact this

/-- **C18_concat_seek.** `ConcatIterator.Seek` over opened built tables whose concatenated
    entries are strictly increasing (disjoint, increasing key ranges): from any iterator state,
    a forward iterator lands on the first entry `≥ key` of the whole concatenation, a reversed
    one on the last entry `≤ key`; invalid iff there is none. (`sort.Search` on `Biggest()` /
    `Smallest()`, lazy `setIdx`, then the table-level `Seek`.) -/
theorem C18_concat_seek {env : Env} {K : Nat} (tabs : List TabSpec)
    (hb : ∀ x ∈ tabs, Built env K x.1 x.2.1 x.2.2) (ts : List Table) (hlen : ts.length = tabs.length)
    (hopen : ∀ (i : Nat) x t, tabs[i]? = some x → ts[i]? = some t →
      ∃ inMem, openTable env x.1 x.2.2 inMem = .ok t)
    (hs : Sorted (tabs.map (·.2.1)).flatten) (h8 : ∀ e ∈ (tabs.map (·.2.1)).flatten, 8 ≤ e.key.length)
    (s : CIter) (hinv : CInv ts s) (key : Bytes) (hkey : 8 ≤ key.length) :
    ∃ s', s.seek env ts key = some s' ∧ CInv ts s' ∧
      s'.entry? = (if s.reversed
        then (tabs.map (·.2.1)).flatten.reverse.find? (fun e => compareKeys e.key key != .gt)
        else (tabs.map (·.2.1)).flatten.find? (fun e => compareKeys e.key key != .lt)) := by
  obtain ⟨Gs, hlenG, hflat, hall⟩ := exists_groups tabs hb
  have hts : TabsOK2 env ts Gs := by
    refine ⟨by rw [hlen, hlenG], ?_⟩
    intro i t G ht hG
    obtain ⟨x, hx⟩ := getElem?_some_of_lt tabs i (by rw [← hlen]; exact lt_of_getElem?_some ht)
    obtain ⟨ok, hne, hGne, hexp, hGf⟩ := hall i x G hx hG
    obtain ⟨im, him⟩ := hopen i x t hx ht
    have hbx := hb x (List.mem_of_getElem? hx)
    obtain ⟨t', ht', hcore, hsm, hbg, _⟩ := C18_meta hbx im
    rw [him] at ht'
    cases ht'
    have hpos : 0 < x.2.1.length := List.length_pos_iff.mpr hbx.ne
    obtain ⟨e0, he0⟩ := getElem?_some_of_lt x.2.1 0 hpos
    obtain ⟨el, hel⟩ := getElem?_some_of_lt x.2.1 (x.2.1.length - 1) (by omega)
    refine ⟨⟨by rw [hcore]; exact ok, hne, hGne, hexp⟩, ⟨el, by rw [hGf]; exact hel, hbg el hel⟩,
      ⟨e0, by rw [hGf]; exact he0, hsm e0 he0⟩⟩
  rw [← hflat] at hs h8 ⊢
  cases hr : s.reversed with
  | false =>
    obtain ⟨s', h1, h2, _, h4⟩ := cseek_fwd hts hs h8 hinv hr key hkey
    exact ⟨s', h1, h2, by simpa using h4⟩
  | true =>
    obtain ⟨s', h1, h2, _, h4⟩ := cseek_rev hts hs h8 hinv hr key hkey
    exact ⟨s', h1, h2, by simpa using h4⟩

/-- A fresh `NewConcatIterator` satisfies the invariant `CInv` required by `C18_concat_seek`
    (and `Seek` re-establishes it, so any sequence of seeks is covered). -/
theorem C18_concat_new_inv (ts : List Table) (rev : Bool) : CInv ts (newConcat ts rev) :=
  cinv_new ts rev

/-! ## The builder asserts -/

theorem Tbl.u32_le (n : Nat) : u32 n ≤ n := Nat.mod_le _ _

theorem Tbl.addEntry_total (cur : BBlock) (key : Bytes) (v : VS) (hk : key.length ≤ 65531) :
    ∃ c, cur.addEntry key v = some c := by
  unfold BBlock.addEntry
  have h1 : (if cur.baseKey.length = 0 then key else keyDiff key cur.baseKey).length ≤ key.length := by
    split
    · exact Nat.le_refl _
    · simp [keyDiff]
  have h2 : key.length - (if cur.baseKey.length = 0 then key else keyDiff key cur.baseKey).length ≤ 65535 := by omega
  have h3 : (if cur.baseKey.length = 0 then key else keyDiff key cur.baseKey).length ≤ 65535 := by omega
  simp only [h2, h3, not_true_eq_false, if_false]
  exact ⟨_, rfl⟩

theorem Tbl.add_total {env : Env} {o : Opts} {b : Builder} {done : List (List Entry)} {cur : List Entry}
    (inv : BuilderInv env b done cur) (e : Entry) (hk : e.key.length ≤ 65531)
    (hsz : 2 * entriesSize cur + (4 + e.key.length + (encVS e.vs).length) + 4 * cur.length + 64 < 4294967296) :
    ∃ b', b.add env o e.key e.vs 0 = some b' := by
  unfold Builder.add
  simp only [Bool.false_eq_true, if_false]
  have hdl : b.cur.data.length ≤ entriesSize cur := by
    rw [inv.cur_eq]; exact blockData_length_le cur
  have hn : b.cur.entryOffsets.length = cur.length := by rw [inv.cur_eq, specBlock_offs_length]
  have hes : encodedSize e.vs ≤ (encVS e.vs).length := by
    unfold encodedSize encVS
    have := u32_le (e.vs.value.length + 2 + (putUvarint e.vs.expiresAt).length)
    simp only [List.length_cons, List.length_append]
    omega
  have hsf : ∃ r, shouldFinishBlock o.blockSize o.encrypt b.cur e.key e.vs = some r := by
    unfold shouldFinishBlock
    by_cases h0 : b.cur.entryOffsets.length = 0
    · simp [h0]
    · simp only [h0, if_false]
      have a1 : u32 ((u32 b.cur.entryOffsets.length + 1) * 4 + 4 + 8 + 4) < 4294967295 := by
        have := u32_le ((u32 b.cur.entryOffsets.length + 1) * 4 + 4 + 8 + 4)
        have := u32_le b.cur.entryOffsets.length
        omega
      simp only [a1, not_true_eq_false, if_false]
      have e1 := u32_le ((b.cur.entryOffsets.length + 1) * 4 + 4 + 8 + 4)
      have e2 := u32_le b.cur.data.length
      have e3 := u32_le e.key.length
      have e4 := u32_le (u32 b.cur.data.length + 6 + u32 e.key.length + encodedSize e.vs +
        u32 ((b.cur.entryOffsets.length + 1) * 4 + 4 + 8 + 4))
      have e5 := u32_le (u32 (u32 b.cur.data.length + 6 + u32 e.key.length + encodedSize e.vs +
        u32 ((b.cur.entryOffsets.length + 1) * 4 + 4 + 8 + 4)) + 16)
      have a2 : b.cur.data.length + (if o.encrypt = true then
          u32 (u32 (u32 b.cur.data.length + 6 + u32 e.key.length + encodedSize e.vs +
            u32 ((b.cur.entryOffsets.length + 1) * 4 + 4 + 8 + 4)) + 16)
          else u32 (u32 b.cur.data.length + 6 + u32 e.key.length + encodedSize e.vs +
            u32 ((b.cur.entryOffsets.length + 1) * 4 + 4 + 8 + 4))) < 4294967295 := by
        split <;> omega
      simp only [a2, not_true_eq_false, if_false]
      exact ⟨_, rfl⟩
  obtain ⟨r, hr⟩ := hsf
  rw [hr]
  cases r with
  | false =>
    simp only
    unfold Builder.addHelper
    obtain ⟨c, hc⟩ := addEntry_total b.cur e.key e.vs hk
    rw [hc]; exact ⟨_, rfl⟩
  | true =>
    simp only
    unfold Builder.addHelper
    obtain ⟨c, hc⟩ := addEntry_total ({} : BBlock) e.key e.vs hk
    simp only [hc]; exact ⟨_, rfl⟩

theorem Tbl.addAll_total {env : Env} {o : Opts} : ∀ (es : List Entry) {b : Builder}
    {done : List (List Entry)} {cur : List Entry},
    BuilderInv env b done cur → (∀ e ∈ es, e.key ≠ [] ∧ e.key.length ≤ 65531) →
    2 * (entriesSize (done.flatten ++ cur) + entriesSize es) + 4 * ((done.flatten ++ cur).length + es.length) + 64 < 4294967296 →
    ∃ b', Builder.addAll env o b es = some b' := by
  intro es
  induction es with
  | nil => intro b done cur _ _ _; exact ⟨b, rfl⟩
  | cons e es ih =>
    intro b done cur inv hk hsz
    simp only [Builder.addAll]
    have hcur : entriesSize cur ≤ entriesSize (done.flatten ++ cur) ∧ cur.length ≤ (done.flatten ++ cur).length := by
      rw [entriesSize_append]; simp
    have hcons : entriesSize (e :: es) = (4 + e.key.length + (encVS e.vs).length) + entriesSize es := by
      simp [entriesSize]
    rw [hcons] at hsz
    simp only [List.length_cons] at hsz
    obtain ⟨b1, hadd⟩ := add_total (o := o) inv e (hk e (by simp)).2 (by omega)
    rw [hadd]
    obtain ⟨d1, c1, inv1, _, hfl1⟩ := add_inv inv e (hk e (by simp)).1 hadd
    apply ih inv1 (fun x hx => hk x (by simp [hx]))
    rw [hfl1, entriesSize_append, List.length_append]
    have : entriesSize [e] = 4 + e.key.length + (encVS e.vs).length := by simp [entriesSize]
    rw [this]
    simp only [List.length_singleton]
    omega

/-- **C18_build_total.** No builder assert (`y.AssertTrue` in `addHelper` /
    `shouldFinishBlock`) fires for inputs below 2 GiB with keys of at most 65531 bytes, and a
    non-empty input yields a table: the hypothesis `built` of `Built` is satisfiable for
    every such input. -/
theorem C18_build_total (env : Env) (o : Opts) (es : List Entry) (hne : es ≠ [])
    (hk : ∀ e ∈ es, e.key ≠ [] ∧ e.key.length ≤ 65531)
    (hsz : 2 * entriesSize es + 4 * es.length + 64 < 4294967296) :
    ∃ tf, buildTable env o es = some (some tf) := by
  obtain ⟨b, hb⟩ := addAll_total (env := env) (o := o) es (builderInv_init env) hk (by simpa [entriesSize] using hsz)
  obtain ⟨done, cur, inv, hcur, _⟩ := addAll_inv es (builderInv_init env) (fun e he => (hk e he).1) hb
  unfold buildTable
  rw [hb]
  obtain ⟨hbl, _, _⟩ := finishBlock_inv inv (hcur hne)
  unfold Builder.done
  have : ¬ ((b.finishBlock env).blockList.length = 0) := by rw [hbl]; simp
  simp only [this, if_false]
  exact ⟨_, rfl⟩

/-! ## A key the builder accepts and the iterator cannot decode (finding) -/

/-- **C18_overlong_key_panics.** `addHelper` only asserts `len(diffKey) <= math.MaxUint16`, but
    `setIdx` computes `headerSize + h.diff` in `uint16`: a first key of a block with
    65532..65535 bytes is accepted by the builder and makes the very first `setIdx(0)` (hence
    `OpenTable`, which computes `Biggest()`) panic with a slice-bounds error. Replayed on the
    real code in `corpus/C18/overlong.ops` (65524-byte user key). Unreachable through the DB
    API, which limits user keys to 65000 bytes. -/
theorem C18_overlong_key_panics (key : Bytes) (v : VS) (h1 : 65532 ≤ key.length) (h2 : key.length ≤ 65535) :
    ∃ cur, ({} : BBlock).addEntry key v = some cur ∧
      ({ data := cur.data, entryOffsets := cur.entryOffsets } : BlockIter).setIdx 0 = none := by
  have hadd : ({} : BBlock).addEntry key v =
      some { data := hdr 0 key.length ++ key ++ encVS v, baseKey := key, entryOffsets := [u32 0] } := by
    unfold BBlock.addEntry
    have a : ¬ ¬ (key.length - key.length ≤ 65535) := by omega
    have b : ¬ ¬ (key.length ≤ 65535) := by omega
    simp [a, b]
  refine ⟨_, hadd, ?_⟩
  unfold BlockIter.setIdx
  simp only [List.length_cons, List.length_nil]
  have hr : ¬ ((0 : Int) ≥ ((0 + 1 : Nat) : Int) ∨ (0 : Int) < 0) := by omega
  simp only [hr, if_false]
  have hdb : ({ data := hdr 0 key.length ++ key ++ encVS v, entryOffsets := [u32 0], idx := 0, err := none } :
      BlockIter).decodeBase = none := by
    unfold BlockIter.decodeBase
    simp only [List.length_nil, if_true]
    rw [List.append_assoc, slice_prefix _ _ 4 (by simp [hdr_length]), Option.bind_some,
      hdr_drop2 _ _ (by omega)]
    unfold slice
    have : u16 (4 + key.length) < 4 := by unfold u16; omega
    have : ¬ (4 ≤ u16 (4 + key.length) ∧
        u16 (4 + key.length) ≤ (hdr 0 key.length ++ (key ++ encVS v)).length) := by omega
    rw [if_neg this]
  rw [hdb]; rfl

/-! ## Non-vacuity: the hypotheses are satisfiable by a concrete table -/

namespace Tbl.Example

/-- A lawful environment: empty checksum, identity compression, "encryption" that appends a
    16-byte IV slot. -/
def env : Env where
  cksum := fun _ => []
  verify := fun _ ck => ck == []
  comp := id
  decomp := some
  enc := fun _ b => b ++ List.replicate 16 0
  dec := fun b => some (b.take (b.length - 16))
  hash := fun k => k.length
  mkFilter := fun hs => hs.map (fun h => UInt8.ofNat h)
  mayContain := fun f h => f.contains (UInt8.ofNat h)

theorem env_lawful : env.Lawful where
  verify_cksum := by intro d; rfl
  decomp_comp := by intro b; rfl
  dec_enc := by intro i b; simp [env]
  enc_len := by intro i b; simp [env]

def k (c : UInt8) (ts : Nat) : Bytes := keyWithTs [0x61, c] ts

def es : List Entry :=
  [⟨k 0x61 7, ⟨1, 2, 0, [9, 9, 9]⟩⟩, ⟨k 0x61 5, ⟨0, 0, 300, []⟩⟩, ⟨k 0x62 1, ⟨3, 4, 0, [1]⟩⟩]

def o : Opts := { blockSize := 90, compress := true, encrypt := true, bloom := true, chkMode := 3 }

example : Sorted es := by
  unfold Sorted es
  decide

example : ∀ e ∈ es, e.key ≠ [] ∧ e.key.length ≤ 65531 ∧ 8 ≤ e.key.length ∧ e.vs.expiresAt < 2 ^ 64 := by
  decide

set_option maxRecDepth 100000 in
/-- The concrete instance satisfies `Built` (three entries in two blocks — the first with two entries sharing a key prefix —, compressed + encrypted). -/
example : ∃ tf, Built env 0 o es tf ∧ tf.index.offsets.length = 2 := by
  obtain ⟨tf, htf⟩ := C18_build_total env o es (by decide) (by decide) (by decide)
  have hdata : tf.data.length < 4294967296 ∧ tf.index.offsets.length = 2 := by
    have : buildTable env o es = some (some tf) := htf
    have h2 : ∃ tf', buildTable env o es = some (some tf') ∧ tf'.data.length < 4294967296 ∧
        tf'.index.offsets.length = 2 := by
      refine ⟨_, rfl, ?_, ?_⟩ <;> decide
    obtain ⟨tf', h3, h4⟩ := h2
    rw [this] at h3
    cases h3; exact h4
  exact ⟨tf, ⟨env_lawful, by intro d; simp [env], by decide, by decide, by decide, by decide, htf, hdata.1⟩, hdata.2⟩

end Tbl.Example

end Badger
