import BadgerProofs.Props.C08
/-!
# C07 — Close and re-open preserves all content; read-only opens change nothing

`DB.close` hands the active memtable to the flusher (`flushChan <- mt; imm = append(imm, mt)`,
the atom `pushImm`), waits until the flusher has turned it into a table and deleted its WAL,
closes the value log (msync, `ftruncate` of the newest file to its write offset), msyncs the
tables and fsyncs the directory. In the protocol machine that is: the step `pushImm`, flusher
steps until no immutable memtable is left, and operations that do not change what a `.mem`,
`.sst` or MANIFEST file holds. A *closed* state is a reachable state with `curOpen = false` and
`imm = []`: no `.mem` file exists.

* `C07_reopen_same` — for every history that ends in a closed state, `Open` (read-write or
  read-only) succeeds and finds entries that read like the commits written before the close —
  the same thing the open database served (`C07_same_as_before`).
* `C07_ro_pure` — on such a directory (no table file outside the MANIFEST: every compaction has
  finished deleting its inputs) a read-only `Open` performs no mutating `FsOp` at all (its only
  operation is the directory fsync of `newLevelsController`); reads perform none by definition.
-/
namespace Badger

theorem openMems_nil (ro : Bool) : openMems false ro [] = .ok ([], []) := rfl

theorem listFiles_none (F : KFs) (mk : Nat → Path) (B : Nat) (h : ∀ n, F (mk n) = none) :
    listFiles F mk B = [] := by
  unfold listFiles
  rw [List.filterMap_eq_nil_iff]
  intro n _
  simp [h n]

/-- `Open` (either mode) of a directory without `.mem` files -/
theorem recoverF_ok_nomem (ro : Bool) (F : KFs) (B : Nat) (tset : List (Nat × Nat)) (cont : Nat → List CEnt)
    (hm : ManifestOk F tset)
    (ht : ∀ x ∈ tset, ∃ f, F (.sst x.1) = some f ∧ f.chunks = [.table (cont x.1)])
    (hw : ∀ n, F (.mem n) = none)
    (hv : ∀ n f, F (.vlog n) = some f → f.size ≠ .zero) :
    ∃ r, recoverF ro F B = .ok r ∧
      r.tables = tset.map (fun x => { id := x.1, level := x.2, ents := cont x.1 }) ∧ r.imms = [] ∧
      (ro = true → r.ops = ((listFiles F .sst B).filter (fun x => (aget x.1 tset).isNone)).map
        (fun x => FsOp.unlink (.sst x.1)) ++ [.syncDir] ++
        (match openVlogs false true (lastFid (listFiles F .vlog B)) (listFiles F .vlog B) with
         | .ok ops => ops | .error _ => [])) := by
  obtain ⟨sets, sz, hf, hr⟩ := hm
  have hvl : ∀ x ∈ listFiles F .vlog B, x.2.size ≠ .zero := by
    intro x hx; exact hv x.1 x.2 ((mem_listFiles F .vlog B x).mp hx).2
  obtain ⟨vops, hov⟩ := openVlogs_ok ro (lastFid (listFiles F .vlog B)) _ hvl
  have hot := openTables_ok F cont tset ht
  have hmems : listFiles F .mem B = [] := listFiles_none F .mem B hw
  unfold recoverF recoverG
  simp only [hf, replayManifest, hr, hmems, openMems_nil, hot, hov]
  refine ⟨_, rfl, rfl, rfl, ?_⟩
  intro hro
  subst hro
  simp [hov]

/-- in read-only mode `valueLog.open` touches nothing -/
theorem openVlogs_ro_nil (m : Nat) (l : List (Nat × Inode)) (ops : List FsOp)
    (h : openVlogs false true m l = .ok ops) : ops = [] := by
  induction l generalizing ops with
  | nil => simp [openVlogs] at h; exact h
  | cons x xs ih =>
    obtain ⟨fid, f⟩ := x
    simp only [openVlogs] at h
    split at h
    · cases h
    · cases hr : openVlogs false true m xs with
      | error e => rw [hr] at h; cases h
      | ok o =>
        rw [hr] at h
        have := ih o hr
        subst this
        simp at h
        exact h

/-- a closed state: no `.mem` file exists -/
theorem closed_no_mem (R : ViewRel) (s : PState) (F : KFs) (h : Inv R s F) (hc : s.curOpen = false) (hi : s.imm = []) :
    ∀ n, F (.mem n) = none := by
  intro n
  cases hF : F (.mem n) with
  | none => rfl
  | some f =>
    have : (memView F n).isSome := by simp [memView, hF]
    rcases h.mem.memKnown n this with h1 | ⟨h1, _⟩
    · rw [hi] at h1; simp at h1
    · rw [hc] at h1; cases h1

theorem recover_closed (R : ViewRel) (s : PState) (fs : Fs) (ro : Bool) (h : Inv R s fs.file)
    (hc : s.curOpen = false) (hi : s.imm = []) :
    ∃ r, recover ro (crashKill fs) = .ok r ∧ (∀ e, e ∈ r.entries ↔ e ∈ s.lsmEnts) ∧
      (ro = true → (∀ n, (fs.file (.sst n)).isSome → (aget n s.tset).isSome) → r.ops = [.syncDir]) := by
  have hfile : Image.file (crashKill fs) = fs.file := by funext p; exact crashKill_file fs p
  have hnm := closed_no_mem R s fs.file h hc hi
  obtain ⟨r, hr, ht, him, hops⟩ := recoverF_ok_nomem ro fs.file (crashKill fs).bound s.tset s.tableEnts h.manifest
    h.sst.tables hnm h.vlogNZ
  refine ⟨r, ?_, ?_, ?_⟩
  · unfold recover; rw [hfile]; exact hr
  · intro e
    unfold RState.entries PState.lsmEnts
    rw [him, ht, hi, hc]
    have htab : ((s.tset.map (fun x => ({ id := x.1, level := x.2, ents := s.tableEnts x.1 } : RTable))).map (·.ents))
        = s.tset.map (fun x => s.tableEnts x.1) := by
      rw [List.map_map]; rfl
    rw [htab]
    simp
  · intro hro hno
    rw [hops hro]
    have hfil : (listFiles fs.file .sst (crashKill fs).bound).filter (fun x => (aget x.1 s.tset).isNone) = [] := by
      rw [List.filter_eq_nil_iff]
      intro x hx
      have := (mem_listFiles fs.file .sst _ x).mp hx
      have h2 := hno x.1 (by rw [this.2]; rfl)
      cases hg : aget x.1 s.tset with
      | none => rw [hg] at h2; cases h2
      | some _ => simp
    rw [hfil]
    cases hv : openVlogs false true (lastFid (listFiles fs.file .vlog (crashKill fs).bound))
        (listFiles fs.file .vlog (crashKill fs).bound) with
    | error e => simp
    | ok ops => have := openVlogs_ro_nil _ _ _ hv; subst this; simp

/-- C07: after any history that ends closed, `Open` — read-write or read-only — succeeds and
    finds what the commits before the close wrote. -/
theorem C07_reopen_same (R : ViewRel) (c : Cfg) (h : List Sched) (ro : Bool)
    (hok : SchedHistOk R (MState.init c).p h)
    (hc : ((MState.init c).exec h).p.curOpen = false) (hi : ((MState.init c).exec h).p.imm = []) :
    ∃ r, recover ro (crashKill ((MState.init c).exec h).fs) = .ok r ∧
      R.r r.entries (txnsEnts (((MState.init c).exec h).p.commits.take ((MState.init c).exec h).p.done)) := by
  obtain ⟨hwf, hinv⟩ := init_inv R c
  obtain ⟨_, hI⟩ := exec_inv R (MState.init c) h hwf hinv hok
  obtain ⟨r, hr, hm, _⟩ := recover_closed R _ _ ro hI hc hi
  exact ⟨r, hr, R.trans _ _ _ (R.of_mem_iff _ _ hm) hI.logic.view⟩

/-- … which is what the database served at the moment it was closed: if the closing steps
    `h2` (handing the memtable to the flusher, flusher steps) complete no further commit, the
    re-opened database reads like the open one did after `h1`. -/
theorem C07_same_as_before (R : ViewRel) (c : Cfg) (h1 h2 : List Sched) (ro : Bool)
    (hok : SchedHistOk R (MState.init c).p (h1 ++ h2))
    (hc : ((MState.init c).exec (h1 ++ h2)).p.curOpen = false) (hi : ((MState.init c).exec (h1 ++ h2)).p.imm = [])
    (hd : ((MState.init c).exec (h1 ++ h2)).p.done = ((MState.init c).exec h1).p.done)
    (hcm : ((MState.init c).exec (h1 ++ h2)).p.commits = ((MState.init c).exec h1).p.commits) :
    ∃ r, recover ro (crashKill ((MState.init c).exec (h1 ++ h2)).fs) = .ok r ∧
      R.r r.entries ((MState.init c).exec h1).p.lsmEnts := by
  obtain ⟨r, hr, hv⟩ := C07_reopen_same R c (h1 ++ h2) ro hok hc hi
  refine ⟨r, hr, ?_⟩
  rw [hd, hcm] at hv
  obtain ⟨hwf, hinv⟩ := init_inv R c
  have hok1 : SchedHistOk R (MState.init c).p h1 := by
    have := SchedHistOk_take R _ (h1 ++ h2) h1.length hok
    simpa using this
  obtain ⟨_, hI1⟩ := exec_inv R (MState.init c) h1 hwf hinv hok1
  exact R.trans _ _ _ hv (R.symm _ _ hI1.logic.view)

/-- C07: a read-only `Open` of a closed directory without orphan tables performs exactly one
    operation, the directory fsync — nothing that creates, changes, renames or deletes a file. -/
theorem C07_ro_pure (R : ViewRel) (c : Cfg) (h : List Sched)
    (hok : SchedHistOk R (MState.init c).p h)
    (hc : ((MState.init c).exec h).p.curOpen = false) (hi : ((MState.init c).exec h).p.imm = [])
    (hno : ∀ n, (((MState.init c).exec h).fs.file (.sst n)).isSome → (aget n ((MState.init c).exec h).p.tset).isSome) :
    ∃ r, recover true (crashKill ((MState.init c).exec h).fs) = .ok r ∧ ∀ op ∈ r.ops, op.mutating = false := by
  obtain ⟨hwf, hinv⟩ := init_inv R c
  obtain ⟨_, hI⟩ := exec_inv R (MState.init c) h hwf hinv hok
  obtain ⟨r, hr, _, hops⟩ := recover_closed R _ _ true hI hc hi
  refine ⟨r, hr, ?_⟩
  rw [hops rfl hno]
  intro op hop
  simp at hop; subst hop; rfl

/-! ### non-vacuity: a commit, then the closing steps -/

/-- commit one entry; `Close`: hand the memtable to the flusher (`flushReq`, first atom
    `pushImm`) and let the flusher run (7 atoms) -/
def closeDemo : List Sched :=
  [.commit [demoEnt 1 1] false, .w, .w, .w, .w, .w, .w, .w, .flushReq, .w, .f, .f, .f, .f, .f, .f, .f]

set_option maxHeartbeats 1000000 in
example : ((MState.init {}).exec closeDemo).p.curOpen = false ∧ ((MState.init {}).exec closeDemo).p.imm = [] ∧
    ((MState.init {}).exec closeDemo).p.tset = [(1, 0)] ∧
    (crashKill ((MState.init {}).exec closeDemo).fs).map (·.1) = [.sst 1, .vlog 1, .keyRegistry, .manifest] := by
  decide +kernel

end Badger
