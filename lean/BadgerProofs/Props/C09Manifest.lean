import BadgerProofs.Props.C17
/-!
# C09 (MANIFEST part) — a torn tail of the MANIFEST is recovered, not surfaced.

* `C09_manifest_trunc`: last frame cut at any byte, **rest missing**: `Open`
  (`helpOpenOrCreateManifestFile`) succeeds, recovers exactly the change sets before the
  damage and truncates the file at the end of the last complete frame, for **every** cut
  (`C09_manifest_trunc_all`; before the fix of finding F16 a cut after the frame header failed
  when the payload length exceeded the torn file's size: `C09_manifest_F16_regression_witness`).
* zero-filled rest: `C09_manifest_zero_after_complete` (zeros after a complete frame are read
  as empty change sets: fine), `C09_manifest_zeroStatement` is **false** for the code as it
  is (finding F5): `C09_manifest_zero_counterexample`.
-/
namespace Badger

/-- **Torn tail, rest missing.** The MANIFEST of `pre ++ [last]` cut at any byte `c` inside the
    frame of `last`: opening it succeeds, the replayed manifest is the one after `pre`, the file
    is truncated to the end of the last complete frame and the in-memory manifest is a clone of
    the replayed one. -/
theorem C09_manifest_trunc (cd : Codec) (hv : cd.Valid) (ext : Nat) (hext : ext < 2 ^ 16) (threshold : Int)
    (pre : List ChangeSet) (last : ChangeSet) (c : Nat) (m : Manifest)
    (hall : applyAll Manifest.empty pre = some m) (hrange : ∀ s, s ∈ pre → ChangeSet.InRange s)
    (hc1 : (manifestFileOf cd ext pre).length ≤ c)
    (hc2 : c < (manifestFileOf cd ext (pre ++ [last])).length)
    (hsize : c < 2 ^ 32) (hl32 : (cd.enc last).length < 2 ^ 32) :
    MFile.openExisting cd ((manifestFileOf cd ext (pre ++ [last])).take c) ext threshold =
      .ok ({ file := manifestFileOf cd ext pre, manifest := m.clone cd, threshold, ext,
             pos := (manifestFileOf cd ext pre).length }, m) := by
  unfold MFile.openExisting
  rw [C17_trunc cd hv ext hext pre last c m hall hrange hc1 hc2 hsize hl32]
  simp only
  have hfile : manifestFileOf cd ext (pre ++ [last]) =
      manifestFileOf cd ext pre ++ frame cd (cd.enc last) := by
    simp [manifestFileOf, framesOf_append, framesOf_cons]
  rw [hfile, List.take_take, Nat.min_eq_left hc1, List.take_left' rfl]

/-- The statement asked for by C09 ("cut at any byte, rest missing"): Open succeeds and recovers
    the sets before the damage (MANIFEST smaller than 4 GiB: `uint32` length field). -/
def C09_manifest_truncStatement (cd : Codec) : Prop :=
  ∀ (ext : Nat) (threshold : Int) (pre : List ChangeSet) (last : ChangeSet) (c : Nat) (m : Manifest),
    ext < 2 ^ 16 → applyAll Manifest.empty pre = some m →
    (∀ s, s ∈ pre → ChangeSet.InRange s) → ChangeSet.InRange last →
    (manifestFileOf cd ext (pre ++ [last])).length < 2 ^ 32 →
    (manifestFileOf cd ext pre).length ≤ c → c < (manifestFileOf cd ext (pre ++ [last])).length →
    ∃ mf, MFile.openExisting cd ((manifestFileOf cd ext (pre ++ [last])).take c) ext threshold = .ok (mf, m)

theorem C09_manifest_trunc_all (cd : Codec) (hv : cd.Valid) : C09_manifest_truncStatement cd := by
  intro ext threshold pre last c m hext hall hrange _ hsz hc1 hc2
  have hl : (cd.enc last).length < 2 ^ 32 := by
    have := enc_le_framesOf cd (pre ++ [last]) last (by simp)
    simp only [manifestFileOf, List.length_append] at hsz
    omega
  exact ⟨_, C09_manifest_trunc cd hv ext hext threshold pre last c m hall hrange hc1 hc2 (by omega) hl⟩

/-- regression witness for finding F16 (fixed), at the level of Open: the image the old length
    check rejected (see `C17_F16_regression_witness`) now opens, truncated to its 16 intact bytes. -/
theorem C09_manifest_F16_regression_witness :
    oldLengthCheckRejects ((manifestFileOf pbCodec 0 ([[]] ++ [c17Witness])).take 25) 16 = true ∧
    (MFile.openExisting pbCodec ((manifestFileOf pbCodec 0 ([[]] ++ [c17Witness])).take 25) 0 0).toOption.map
      (fun r => (r.1.file.length, r.1.pos, r.2)) = some (16, 16, Manifest.empty) := by decide

/-! ## zero-filled tails -/

theorem replicate_zero_frame (n : Nat) :
    List.replicate (8 + n) (0 : UInt8) = rawFrame 0 0 [] ++ List.replicate n 0 := by
  have : rawFrame 0 0 [] = List.replicate 8 (0 : UInt8) := by decide
  rw [this, List.replicate_append_replicate]

/-- Zeros at a frame boundary: every 8 zero bytes are an empty change set (`len = 0`,
    `crc32c("") = 0`), the remaining `< 8` bytes are a short read. -/
theorem replayRest_zeros (cd : Codec) (hcrc0 : cd.crc [] = 0) (hdec0 : cd.dec [] = some [])
    (n off : Nat) (b : Manifest) :
    replayRest cd (List.replicate n 0) off b = .ok (b, off + 8 * (n / 8)) := by
  induction n using Nat.strongRecOn generalizing off with
  | _ n ih =>
    by_cases h8 : n < 8
    · rw [replayRest_short _ _ _ _ (by simpa using h8)]
      have : n / 8 = 0 := Nat.div_eq_of_lt h8
      simp [this]
    · obtain ⟨k, rfl⟩ : ∃ k, n = 8 + k := ⟨n - 8, by omega⟩
      rw [replicate_zero_frame k,
        replayRest_rawFrame cd 0 0 [] _ off b rfl (by decide) (by decide)]
      rw [if_neg (by simp [hcrc0]), hdec0]
      simp only [applyChangeSet]
      rw [ih k (by omega)]
      have : (8 + k) / 8 = 1 + k / 8 := by omega
      rw [this]
      congr 2
      omega

/-- **Zero-filled after a complete frame** (e.g. a pre-allocated or zero-extended file): replay
    succeeds with the manifest of the complete sets. (The truncation offset then includes the
    zero "frames".) Needs `crc("") = 0` and `dec("") = []`, true for CRC32-C / protobuf. -/
theorem C09_manifest_zero_after_complete (cd : Codec) (hv : cd.Valid)
    (hcrc0 : cd.crc [] = 0) (hdec0 : cd.dec [] = some [])
    (ext : Nat) (hext : ext < 2 ^ 16) (sets : List ChangeSet) (n : Nat) (m : Manifest)
    (hall : applyAll Manifest.empty sets = some m) (hrange : ∀ s, s ∈ sets → ChangeSet.InRange s)
    (hsize : (manifestFileOf cd ext sets ++ List.replicate n 0).length < 2 ^ 32) :
    replay cd (manifestFileOf cd ext sets ++ List.replicate n 0) ext =
      .ok (m, (manifestFileOf cd ext sets).length + 8 * (n / 8)) := by
  unfold manifestFileOf at *
  rw [List.append_assoc] at hsize ⊢
  rw [replay_frames_tail cd hv ext hext sets _ m hall hrange hsize, replayRest_zeros cd hcrc0 hdec0]
  simp

/-- The statement asked for by C09 for the zero-filled variant: last frame cut after `k` bytes,
    followed by `n` zero bytes ⇒ replay succeeds with the manifest of the earlier sets. -/
def C09_manifest_zeroStatement (cd : Codec) : Prop :=
  ∀ (ext : Nat) (pre : List ChangeSet) (last : ChangeSet) (k n : Nat) (m : Manifest),
    ext < 2 ^ 16 → applyAll Manifest.empty pre = some m →
    (∀ s, s ∈ pre → ChangeSet.InRange s) → ChangeSet.InRange last →
    k < (frame cd (cd.enc last)).length →
    ∃ off, replay cd (manifestFileOf cd ext pre ++ (frame cd (cd.enc last)).take k ++ List.replicate n 0) ext =
      .ok (m, off)

/-- The 28-byte witness: header, the empty set of a fresh MANIFEST, one set creating table 1
    (payload `0a 02 08 01`), cut 10 bytes into that frame (2 payload bytes left) and refilled
    with 2 zero bytes: the stored CRC no longer matches. -/
theorem C09_manifest_zero_counterexample_replay :
    replay pbCodec (manifestFileOf pbCodec 0 [[]] ++ (frame pbCodec (pbCodec.enc [Change.create 1 0 0 0])).take 10
      ++ List.replicate 2 0) 0 = .error .badChecksum := by decide

/-- **Finding F5**: `C09_manifest_zeroStatement` is false for the code as it is. -/
theorem C09_manifest_zero_counterexample : ¬ C09_manifest_zeroStatement pbCodec := by
  intro h
  obtain ⟨off, h1⟩ := h 0 [[]] [Change.create 1 0 0 0] 10 2 Manifest.empty (by decide) (by decide)
    (by intro s hs; simp only [List.mem_singleton] at hs; subst hs; decide) (by decide) (by decide)
  rw [C09_manifest_zero_counterexample_replay] at h1
  cases h1

-- the other classes of F5 on the same witness: cut inside the CRC field …
example : replay pbCodec (manifestFileOf pbCodec 0 [[]] ++ (frame pbCodec (pbCodec.enc [Change.create 1 0 0 0])).take 6
    ++ List.replicate 6 0) 0 = .error .badChecksum := by decide
-- … cut inside the length field (payload < 256 bytes: those bytes are zero anyway): fine
example : replay pbCodec (manifestFileOf pbCodec 0 [[]] ++ (frame pbCodec (pbCodec.enc [Change.create 1 0 0 0])).take 3
    ++ List.replicate 9 0) 0 = .ok (Manifest.empty, 24) := by decide
-- … not enough zeros to complete the frame: a plain truncation
example : replay pbCodec (manifestFileOf pbCodec 0 [[]] ++ (frame pbCodec (pbCodec.enc [Change.create 1 0 0 0])).take 10
    ++ List.replicate 1 0) 0 = .ok (Manifest.empty, 16) := by decide
-- the premises of `C09_manifest_zero_after_complete` hold for the concrete codec
example : pbCodec.crc [] = 0 ∧ pbCodec.dec [] = some [] := by decide
-- non-vacuity of `C09_manifest_trunc` (cut 5 bytes into the last frame of the C17 history file)
example : (MFile.openExisting pbCodec ((manifestFileOf pbCodec 0 ([[]] ++ [c17Witness])).take 21) 0 5).toOption.map
    (fun r => (r.1.file.length, r.2)) = some (16, Manifest.empty) := by decide

end Badger
