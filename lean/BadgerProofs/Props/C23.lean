import BadgerModel.Crypto
import BadgerProofs.Lemmas.Log
import BadgerProofs.Props.C16
/-!
# C23 — encryption at rest is transparent and keeps plaintext off disk

The cipher is an arbitrary `E : key → counter block → 16 bytes` (AES is trusted, DESIGN §3).
What is proved: XOR-stream involution, transparency of log records / table blocks / stored
data keys for *any* `E`, exact disjointness of the CTR counter ranges of the records of a log
file (including the carry into the base IV), the classification of every write that carries
user bytes, the behaviour of `Open` with a wrong key, and that data-key and master-key
rotation keep old data readable.

What is *not* a theorem (labelled in props/C23.json): freshness of the random IVs
(`crypto/rand`) and secrecy of the cipher.

**Finding F23a, fixed by 497bf84.** Before the fix, with an encryption key and
`EncryptionKeyRotationDuration` longer than the time since the Unix epoch (e.g. `math.MaxInt64`,
"never rotate"), `LatestDataKey` returned `kr.dataKeys[0]` = nil on a fresh registry and every
WAL, value-log and table file was written in plaintext. Since the fix the last key is reused
only if it exists; `C23_no_plaintext` proves the full statement with no side condition and
`C23_F23a_regression_witness` keeps the old rule's counterexample.
-/
namespace Badger
open Crypto

/-- **Involution.** `XORBlock` with the same key and IV is its own inverse, for every cipher. -/
theorem C23_xor_involution (E : BlockFn) (key : Bytes) (iv : Nat) (b : Bytes) :
    xorStream E key iv (xorStream E key iv b) = b := by
  unfold xorStream; exact xorFrom_invol _ b 0

theorem xorStream_length (E : BlockFn) (key : Bytes) (iv : Nat) (b : Bytes) :
    (xorStream E key iv b).length = b.length := by
  unfold xorStream; exact xorFrom_length _ b 0

/-- **Transparent, log records** (`.mem` and `.vlog`): decoding what `encodeEntry` wrote at
    offset `off` of a file with data key `key` and base IV `base` returns the entry, for every
    cipher (instance of `C16_roundtrip` at the key stream `ks E key (base ‖ off)`). -/
theorem C23_transparent (E : BlockFn) (key : Bytes) (base off : Nat) (e : Entry) (rest : Bytes)
    (hkv : e.key.length + e.value.length < 2 ^ 32) (hexp : e.expiresAt < 2 ^ 64) :
    decodeEntry (ks E key (logIV base off))
      (encodeEntry (ks E key (logIV base off)) e ++ rest) = some e :=
  C16_roundtrip _ e rest hkv hexp

theorem beNat_append (a b : Bytes) : beNat (a ++ b) = beNat a * 256 ^ b.length + beNat b := by
  induction a with
  | nil => simp [beNat]
  | cons x xs ih =>
    simp only [List.cons_append, beNat, ih, List.length_append]
    rw [Nat.pow_add, Nat.add_mul, Nat.mul_assoc, Nat.add_assoc]

/-- **Transparent, table blocks and index**: `Table.decrypt (Builder.encrypt data) = data`. -/
theorem C23_transparent_block (E : BlockFn) (key : Bytes) (iv : Nat) (data : Bytes)
    (hiv : iv < 2 ^ 128) : decryptBlob E key (encryptBlob E key iv data) = data := by
  unfold decryptBlob encryptBlob
  have hl : (xorStream E key iv data ++ beBytes iv 16).length - 16 = (xorStream E key iv data).length := by
    simp
  rw [hl, List.drop_left, List.take_left, beNat_beBytes _ _ (by simpa using hiv)]
  exact C23_xor_involution E key iv data

/-- **Transparent, key registry**: a data key read back with the master key it was stored
    under is the data key. -/
theorem C23_transparent_registry (E : BlockFn) (master : Bytes) (k : DataKey) :
    loadDataKey E master (storeDataKey E master k) = k := by
  unfold loadDataKey storeDataKey maybeXor
  by_cases h : master = []
  · simp [h]
  · simp [h, C23_xor_involution]

/-! ## IVs and counter ranges -/

/-- The byte-level IV of `generateIV` is the number `base·2^32 + offset`. -/
theorem C23_generateIV (baseIV : Bytes) (off : Nat) (hb : baseIV.length = 12) (ho : off < 2 ^ 32) :
    beNat (generateIV baseIV off) = logIV (beNat baseIV) off ∧ (generateIV baseIV off).length = 16 := by
  unfold generateIV logIV
  have ht : baseIV.take 12 = baseIV := by rw [← hb]; exact List.take_length
  rw [ht, beNat_append, beBytes_length, Nat.mod_eq_of_lt ho, beNat_beBytes _ _ (by simpa using ho)]
  refine ⟨by omega, by simp [hb]⟩

theorem blocks_le (l : Nat) : blocks l ≤ l := by unfold blocks; omega

/-- **CTR counter ranges of two records of one log file are disjoint.** Records at offsets
    `o1 < o2` of one file (same data key, same 12-byte base IV), whose encrypted parts have
    `l1` and `l2` bytes: the first record ends before the second begins (`o1 + l1 ≤ o2`; in the
    file even `o1 + header + l1 + 4 ≤ o2`) and the file stays below 4 GiB (`o2 + l2 ≤ 2^32`, the
    offsets are `uint32`). Then no 128-bit counter block is used by both, i.e. no key-stream
    block is reused — the carry of `offset + block` into the base-IV part cannot happen. -/
theorem C23_ctr_disjoint (base o1 l1 o2 l2 : Nat) (hb : base < 2 ^ 96)
    (h12 : o1 + l1 ≤ o2) (hend : o2 + l2 ≤ 2 ^ 32) (j1 j2 : Nat) (hj1 : j1 < blocks l1)
    (hj2 : j2 < blocks l2) :
    ctrOf (logIV base o1) j1 ≠ ctrOf (logIV base o2) j2 := by
  unfold ctrOf logIV ctrMod
  have b1 := blocks_le l1
  have b2 := blocks_le l2
  have hbig : base * 2 ^ 32 + 2 ^ 32 ≤ 2 ^ 128 := by
    have : (base + 1) * 2 ^ 32 ≤ 2 ^ 96 * 2 ^ 32 := Nat.mul_le_mul_right _ hb
    rw [Nat.add_mul] at this
    have e : (2:Nat) ^ 96 * 2 ^ 32 = 2 ^ 128 := (Nat.pow_add 2 96 32).symm
    omega
  rw [Nat.mod_eq_of_lt (by omega), Nat.mod_eq_of_lt (by omega)]
  omega

/-- Records of two log files with different base IVs never share a counter block either. -/
theorem C23_ctr_disjoint_files (b1 b2 o1 l1 o2 l2 : Nat) (hb1 : b1 < 2 ^ 96) (hb2 : b2 < 2 ^ 96)
    (hne : b1 ≠ b2) (h1 : o1 + l1 ≤ 2 ^ 32) (h2 : o2 + l2 ≤ 2 ^ 32) (j1 j2 : Nat)
    (hj1 : j1 < blocks l1) (hj2 : j2 < blocks l2) :
    ctrOf (logIV b1 o1) j1 ≠ ctrOf (logIV b2 o2) j2 := by
  unfold ctrOf logIV ctrMod
  have c1 := blocks_le l1
  have c2 := blocks_le l2
  have hbig : ∀ b, b < 2 ^ 96 → b * 2 ^ 32 + 2 ^ 32 ≤ 2 ^ 128 := by
    intro b hb
    have : (b + 1) * 2 ^ 32 ≤ 2 ^ 96 * 2 ^ 32 := Nat.mul_le_mul_right _ hb
    rw [Nat.add_mul] at this
    have e : (2:Nat) ^ 96 * 2 ^ 32 = 2 ^ 128 := (Nat.pow_add 2 96 32).symm
    omega
  have := hbig b1 hb1
  have := hbig b2 hb2
  rw [Nat.mod_eq_of_lt (by omega), Nat.mod_eq_of_lt (by omega)]
  intro h
  have q1 : (b1 * 2 ^ 32 + o1 + j1) / 2 ^ 32 = b1 := by
    rw [Nat.add_assoc, Nat.mul_comm, Nat.mul_add_div (by omega), Nat.div_eq_of_lt (by omega)]; rfl
  have q2 : (b2 * 2 ^ 32 + o2 + j2) / 2 ^ 32 = b2 := by
    rw [Nat.add_assoc, Nat.mul_comm, Nat.mul_add_div (by omega), Nat.div_eq_of_lt (by omega)]; rfl
  rw [h, q2] at q1
  exact hne q1.symm

/-- The hypothesis `o1 + l1 ≤ o2` is what the file layout gives: a record is longer than its
    encrypted part (header ≥ 5 bytes, CRC 4 bytes). -/
theorem C23_record_longer (e : Entry) : e.key.length + e.value.length + 6 ≤ recLen e := by
  unfold recLen headerEncode
  simp only [List.length_cons]
  omega

-- the bound is needed: beyond 4 GiB the offset wraps and a counter block is reused
example : ctrOf (logIV 5 (2 ^ 32 - 1)) 1 = ctrOf (logIV 6 0) 0 := by decide
-- and two records overlapping in the file would share a block
example : ctrOf (logIV 5 100) 1 = ctrOf (logIV 5 101) 0 := by decide
-- non-vacuity of the disjointness theorem: two adjacent 40-byte records
example : ctrOf (logIV 7 20) 2 ≠ ctrOf (logIV 7 69) 0 :=
  C23_ctr_disjoint 7 20 40 69 40 (by omega) (by omega) (by omega) 2 0 (by decide) (by decide)

/-! ## Symbolic payloads are the bytes of the record model -/

/-- The three runs of bytes of `logRecordWrites` are exactly `encodeEntry` of the record model
    (`BadgerModel/Log.lean`) under the key stream of the file's data key and `base ‖ offset`. -/
theorem C23_log_record_bytes (E : BlockFn) (master : Bytes) (keyOf : Nat → Bytes) (kind : FileKind)
    (k : DataKey) (base off : Nat) (e : Entry) :
    ((logRecordWrites kind (some k) base off e
        (beBytes (crc32c (encodeBody (ks E (keyOf k.id) (logIV base off)) e)) 4)).map
      (fun w => realize E master keyOf w.payload)).flatten =
    encodeEntry (ks E (keyOf k.id) (logIV base off)) e := by
  simp [logRecordWrites, realize, encodeEntry, encodeBody, xorStream]

/-! ## No plaintext -/

namespace Crypto

theorem lookup_new (l : List DataKey) (dk : DataKey) :
    (l.filter (fun k => k.id != dk.id) ++ [dk]).find? (fun k => k.id == dk.id) = some dk := by
  rw [List.find?_append]
  have : (l.filter (fun k => k.id != dk.id)).find? (fun k => k.id == dk.id) = none := by
    rw [List.find?_eq_none]
    intro x hx
    have := (List.mem_filter.mp hx).2
    simpa using this
  simp [this]

/-- With a master key, `LatestDataKey` always yields a data key — for every registry state,
    clock and rotation interval (this is what fix 497bf84 established). -/
theorem latest_some (r : Registry) (now : Nat) (fk : Bytes) (fiv : Nat) (hm : r.master ≠ []) :
    ((r.latestDataKey now fk fiv).2).isSome = true ∧
    (r.latestDataKey now fk fiv).1.master = r.master := by
  unfold Registry.latestDataKey Registry.newDataKey
  simp only [hm, if_false]
  split
  · split <;> exact ⟨rfl, rfl⟩
  · exact ⟨rfl, rfl⟩

def AllEnc (ws : List Write) : Prop := ∀ w ∈ ws, w.user = true → w.payload.isEnc = true

theorem allEnc_append {a b : List Write} (ha : AllEnc a) (hb : AllEnc b) : AllEnc (a ++ b) := by
  intro w hw hu
  rcases List.mem_append.mp hw with h | h
  · exact ha w h hu
  · exact hb w h hu

theorem allEnc_newKey (E : BlockFn) (r r' : Registry) (dk : Option DataKey) :
    AllEnc (newKeyWrites E r r' dk) := by
  intro w hw hu
  unfold newKeyWrites at hw
  split at hw
  · cases hw
  · cases dk with
    | none => cases hw
    | some k => simp at hw; subst hw; rfl

theorem allEnc_blob (k : DataKey) (iv : Nat) (d : Bytes) : AllEnc (blobWrites (some k) iv d) := by
  intro w hw hu
  simp [blobWrites] at hw
  rcases hw with h | h <;> subst h
  · rfl
  · simp at hu

theorem allEnc_table (k : DataKey) (bs : List (Nat × Bytes)) (iiv : Nat) (idx footer : Bytes) :
    AllEnc (tableWrites (some k) bs iiv idx footer) := by
  unfold tableWrites
  refine allEnc_append (allEnc_append ?_ (allEnc_blob k iiv idx)) ?_
  · intro w hw hu
    rw [List.mem_flatten] at hw
    obtain ⟨l, hl, hwl⟩ := hw
    rw [List.mem_map] at hl
    obtain ⟨⟨iv, d⟩, _, rfl⟩ := hl
    exact allEnc_blob k iv d w hwl hu
  · intro w hw hu
    simp at hw; subst hw; simp at hu

theorem allEnc_logRecord (kind : FileKind) (k : DataKey) (base off : Nat) (e : Entry) (crc : Bytes) :
    AllEnc (logRecordWrites kind (some k) base off e crc) := by
  intro w hw hu
  simp [logRecordWrites] at hw
  rcases hw with h | h | h <;> subst h
  · simp at hu
  · rfl
  · simp at hu

theorem allEnc_logHeader (kind : FileKind) (dk : Option DataKey) (base : Nat) :
    AllEnc (logHeaderWrites kind dk base) := by
  intro w hw hu
  simp [logHeaderWrites] at hw; subst hw; simp at hu

/-- every open log file was bootstrapped with a data key -/
def LogsKeyed (d : Db) : Prop := ∀ lf ∈ d.logs, lf.dk.isSome = true

theorem runWrites_allEnc (E : BlockFn) (evs : List Ev) :
    ∀ (d : Db), d.reg.master ≠ [] → LogsKeyed d → AllEnc (runWrites E d evs) := by
  induction evs with
  | nil => intro d _ _ w hw; cases hw
  | cons ev evs ih =>
    intro d hm hl
    simp only [runWrites]
    cases ev with
    | newLog kind now fk fiv base =>
      obtain ⟨hs, hm'⟩ := latest_some d.reg now fk fiv hm
      refine allEnc_append ?_ ?_
      · simp only [step]
        exact allEnc_append (allEnc_newKey E _ _ _) (allEnc_logHeader _ _ _)
      · apply ih
        · simp only [step]; rw [hm']; exact hm
        · intro lf hlf
          simp only [step] at hlf
          rcases List.mem_append.mp hlf with h | h
          · exact hl lf h
          · simp at h; subst h; exact hs
    | append i e crc =>
      simp only [step]
      cases hi : d.logs[i]? with
      | none =>
        simp only
        exact allEnc_append (by intro w hw; cases hw) (ih d hm hl)
      | some lf =>
        simp only
        have hmem : lf ∈ d.logs := List.mem_of_getElem? hi
        have hk := hl lf hmem
        refine allEnc_append ?_ ?_
        · cases hdk : lf.dk with
          | none => rw [hdk] at hk; cases hk
          | some k => exact allEnc_logRecord _ _ _ _ _ _
        · apply ih
          · exact hm
          · intro lf' hlf'
            simp only at hlf'
            rcases List.mem_or_eq_of_mem_set hlf' with h | h
            · exact hl lf' h
            · subst h; exact hk
    | table now fk fiv bs iiv idx footer =>
      obtain ⟨hs, hm'⟩ := latest_some d.reg now fk fiv hm
      refine allEnc_append ?_ ?_
      · simp only [step]
        refine allEnc_append (allEnc_newKey E _ _ _) ?_
        cases hdk : (d.reg.latestDataKey now fk fiv).2 with
        | none => rw [hdk] at hs; cases hs
        | some k => exact allEnc_table _ _ _ _ _
      · apply ih
        · simp only [step]; rw [hm']; exact hm
        · exact hl
    | manifest b =>
      refine allEnc_append ?_ (ih d hm hl)
      intro w hw hu
      simp [step] at hw; subst hw; simp at hu

end Crypto

/-- The full statement of "no plaintext": with an encryption key configured, in every history
    every write that carries user key or value bytes goes through the cipher. -/
def C23_no_plaintextStatement : Prop :=
  ∀ (E : BlockFn) (master : Bytes) (rot : Int) (evs : List Ev), master ≠ [] →
    ∀ w ∈ runWrites E ⟨Registry.empty master rot, []⟩ evs, w.user = true → w.payload.isEnc = true

/-- **No plaintext** (full statement, no side condition since fix 497bf84). With an encryption
    key, for every cipher, every rotation interval, every clock and every history of log-file
    creations, appends, table builds (flushes, compactions, stream writers) and MANIFEST changes:
    every write carrying user key / value bytes — the `key ‖ value` part of every WAL and
    value-log record, every table block, and the table index with its block base keys and bloom
    filter — is an `Enc` payload. Plaintext by design and free of user bytes: record headers
    (meta, user meta, key/value lengths, expiry) and CRCs, log-file headers (key id, base IV),
    block/index IVs, table footers, MANIFEST, LOCK. -/
theorem C23_no_plaintext : C23_no_plaintextStatement := by
  intro E master rot evs hm
  exact runWrites_allEnc E evs ⟨Registry.empty master rot, []⟩ hm (by intro lf h; cases h)

/-- Regression witness for finding F23a (fixed by 497bf84). Under the OLD rule
    (`latestDataKeyOld`: age test first, then `kr.dataKeys[kr.nextKeyID]` whatever it is) a fresh
    registry with a master key, rotation interval `math.MaxInt64` ns and the clock in 2026 hands
    out NO data key — the log file is then bootstrapped with key id 0 and `logRecordWrites`
    emits the entry's `key ‖ value` as a `Plain` payload — while the rule in the tree creates
    data key 1. -/
theorem C23_F23a_regression_witness :
    ((Registry.empty [1] (2 ^ 63 - 1)).latestDataKeyOld 1790000000000000000 [9] 3).2 = none ∧
    (logRecordWrites .vlog none 4 20 ⟨[107], [118], 0, 0, 0⟩ []).any
      (fun w => w.user && !w.payload.isEnc) = true ∧
    (((Registry.empty [1] (2 ^ 63 - 1)).latestDataKey 1790000000000000000 [9] 3).2.map (·.id)) = some 1 := by
  decide

-- non-vacuity: user writes exist and are encrypted, also with the "never rotate" interval
example : (runWrites (fun _ _ _ => 0) ⟨Registry.empty [1] (2 ^ 63 - 1), []⟩
    [.newLog .vlog 1790000000000000000 [9] 3 4, .append 0 ⟨[107], [118], 0, 0, 0⟩ []]).any
      (fun w => w.user && w.payload.isEnc) = true := by decide

/-! ## Wrong key -/

/-- The 12-byte sanity text distinguishes the two keys under this registry IV (fails for a
    cipher/key pair with probability 2⁻⁹⁶; an assumption about AES, not about badger). -/
def SanityDistinguishes (E : BlockFn) (key key' : Bytes) (iv : Nat) : Prop :=
  maybeXor E key' iv (maybeXor E key iv sanityText) ≠ sanityText

/-- **Wrong key.** A directory whose registry was written with `key` (possibly none) and opened
    with a different key `key'` of valid length (possibly none): `Open` fails with
    `ErrEncryptionKeyMismatch`, and the only file it wrote to is the LOCK pid file (written and
    removed): no registry, MANIFEST, memtable, value-log or table write. -/
theorem C23_wrong_key (E : BlockFn) (key key' : Bytes) (rot : Int) (iv fiv : Nat)
    (keys : List DataKey) (hlen : validKeyLen key' = true)
    (hd : SanityDistinguishes E key key' iv) :
    (openRegistry E key' rot fiv ⟨some (writeKeyRegistry E key iv keys)⟩).1 = .error .keyMismatch ∧
    ∀ w ∈ (openRegistry E key' rot fiv ⟨some (writeKeyRegistry E key iv keys)⟩).2, w.kind = .lock := by
  have hv : validRegistry E key' (writeKeyRegistry E key iv keys) = false := by
    unfold validRegistry writeKeyRegistry
    simp only
    exact beq_false_of_ne hd
  unfold openRegistry readKeyRegistry
  simp [hlen, hv]

/-- The right key opens the registry and yields exactly the data keys that were stored. -/
theorem C23_right_key (E : BlockFn) (key : Bytes) (rot : Int) (iv fiv : Nat) (keys : List DataKey)
    (hlen : validKeyLen key = true) :
    ∃ r, (openRegistry E key rot fiv ⟨some (writeKeyRegistry E key iv keys)⟩).1 = .ok r ∧
      r.dataKeys = keys ∧ r.master = key := by
  have hinv : ∀ b, maybeXor E key iv (maybeXor E key iv b) = b := by
    intro b; unfold maybeXor; by_cases h : key = [] <;> simp [h, C23_xor_involution]
  have hv : validRegistry E key (writeKeyRegistry E key iv keys) = true := by
    unfold validRegistry writeKeyRegistry
    simp only [hinv]; exact beq_self_eq_true _
  unfold openRegistry readKeyRegistry
  simp only [hlen, hv]
  refine ⟨_, rfl, ?_, rfl⟩
  simp only [writeKeyRegistry, List.map_map]
  have : (loadDataKey E key ∘ storeDataKey E key) = id := by
    funext k; exact C23_transparent_registry E key k
  rw [this]; simp

/-! ## Rotation -/

theorem find?_filter_ne (l : List DataKey) (id n : Nat) (hne : id ≠ n) :
    (l.filter (fun k => k.id != n)).find? (fun k => k.id == id) = l.find? (fun k => k.id == id) := by
  induction l with
  | nil => rfl
  | cons x xs ih =>
    by_cases hx : x.id = n
    · have h1 : (x.id != n) = false := by simp [hx]
      have h2 : (x.id == id) = false := by simp; omega
      rw [List.filter_cons, h1, List.find?_cons, h2]
      simpa using ih
    · have h1 : (x.id != n) = true := by simp [hx]
      rw [List.filter_cons, h1]
      simp only [if_true, List.find?_cons, ih]

/-- **Data-key rotation keeps old keys.** Whatever `LatestDataKey` does (reuse or create), every
    data key that could be looked up before is looked up unchanged afterwards (ids of new keys
    are larger than all existing ids), so every file written under it stays decodable
    (`C23_transparent`, `C23_transparent_block`). -/
theorem C23_rotation (r : Registry) (now : Nat) (fk : Bytes) (fiv : Nat) (id : Nat) (k : DataKey)
    (hids : ∀ k' ∈ r.dataKeys, k'.id ≤ r.nextKeyID) (hk : r.lookup id = some k) :
    (r.latestDataKey now fk fiv).1.lookup id = some k ∧
    (∀ k' ∈ (r.latestDataKey now fk fiv).1.dataKeys, k'.id ≤ (r.latestDataKey now fk fiv).1.nextKeyID) := by
  have hnew : (r.newDataKey now fk fiv).1.lookup id = some k ∧
      (∀ k' ∈ (r.newDataKey now fk fiv).1.dataKeys, k'.id ≤ (r.newDataKey now fk fiv).1.nextKeyID) := by
    unfold Registry.newDataKey
    have hmem : k ∈ r.dataKeys := List.mem_of_find?_eq_some hk
    have hkid : k.id = id := by
      have := List.find?_some hk; simpa using this
    have hle := hids k hmem
    constructor
    · simp only [Registry.lookup]
      rw [List.find?_append]
      have hf : (r.dataKeys.filter (fun k' => k'.id != r.nextKeyID + 1)).find? (fun k' => k'.id == id) = some k := by
        rw [find?_filter_ne _ _ _ (by omega)]; exact hk
      rw [hf]; rfl
    · intro k' hk'
      show k'.id ≤ r.nextKeyID + 1
      rcases List.mem_append.mp hk' with h | h
      · have := hids k' (List.mem_filter.mp h).1; omega
      · simp at h; subst h; exact Nat.le_refl _
  unfold Registry.latestDataKey
  by_cases hm : r.master = []
  · simp only [hm, if_true]; exact ⟨hk, hids⟩
  · simp only [hm, if_false]
    split
    · split
      · exact ⟨hk, hids⟩
      · exact hnew
    · exact hnew

theorem le_maxNat {l : List Nat} {x : Nat} (h : x ∈ l) : x ≤ maxNat l := by
  induction l with
  | nil => cases h
  | cons y ys ih =>
    simp only [maxNat]
    rcases List.mem_cons.mp h with e | e
    · subst e; exact Nat.le_max_left _ _
    · exact Nat.le_trans (ih e) (Nat.le_max_right _ _)

/-- The side condition of `C23_rotation` holds for every registry read from a file (and
    trivially for a fresh one): no key id exceeds `nextKeyID`. -/
theorem C23_rotation_ids_of_read (E : BlockFn) (master : Bytes) (rot : Int) (f : RegFile) (r : Registry)
    (h : readKeyRegistry E master rot f = .ok r) : ∀ k ∈ r.dataKeys, k.id ≤ r.nextKeyID := by
  unfold readKeyRegistry at h
  split at h
  · cases h
  · cases h
    intro k hk
    exact le_maxNat (List.mem_map_of_mem hk)

/-- **Master-key rotation** (`badger rotate`): reading the registry with the old key and
    rewriting it with the new key succeeds, touches only the registry, and a subsequent open
    with the new key sees exactly the same data keys (same ids, same key material) — so every
    data file, none of which is rewritten, stays readable. -/
theorem C23_rotation_master (E : BlockFn) (oldKey newKey : Bytes) (iv fiv : Nat) (rot : Int)
    (keys : List DataKey) :
    ∃ f', rotateMaster E oldKey newKey fiv (writeKeyRegistry E oldKey iv keys) = .ok f' ∧
      ∃ r', readKeyRegistry E newKey rot f' = .ok r' ∧ r'.dataKeys = keys := by
  have hinv : ∀ key iv' b, maybeXor E key iv' (maybeXor E key iv' b) = b := by
    intro key iv' b; unfold maybeXor; by_cases h : key = [] <;> simp [h, C23_xor_involution]
  have hv : ∀ key iv' ks, validRegistry E key (writeKeyRegistry E key iv' ks) = true := by
    intro key iv' ks
    unfold validRegistry writeKeyRegistry
    simp only [hinv]; exact beq_self_eq_true _
  have hrt : ∀ key ks, List.map (loadDataKey E key) (List.map (storeDataKey E key) ks) = ks := by
    intro key ks
    rw [List.map_map]
    have : (loadDataKey E key ∘ storeDataKey E key) = id := by
      funext k; exact C23_transparent_registry E key k
    rw [this]; simp
  unfold rotateMaster readKeyRegistry
  simp only [hv, Bool.not_true, Bool.false_eq_true, if_false]
  refine ⟨_, rfl, ?_⟩
  simp only [hv, Bool.not_true, Bool.false_eq_true, if_false]
  refine ⟨_, rfl, ?_⟩
  simp only [writeKeyRegistry, hrt]

-- non-vacuity: a toy cipher for which the sanity text distinguishes two keys
private def toyE : BlockFn := fun key ctr j => UInt8.ofNat (key.length + ctr + j)
example : SanityDistinguishes toyE (List.replicate 16 1) (List.replicate 32 1) 5 := by
  unfold SanityDistinguishes; decide
example : SanityDistinguishes toyE (List.replicate 16 1) [] 5 := by
  unfold SanityDistinguishes; decide

end Badger
