import BadgerProofs.Props.C01Reach
/-!
# C36 / C12 — finding F27: a managed-mode write BELOW an existing version

The reachability theorems (`Reach.put`) require every write to be above the committed versions of
its own key (`hfresh`). Managed mode lets the caller break that: `CommitAt(5)` after `CommitAt(10)`
on the same key. This file runs the excluded point on the model (the implementation behaves the
same way: `corpus/mvcc/f27_write_below_tombstone.ops`): the tombstone `k@10` sits in L0, the later
write `k@5` in the memtable ABOVE it; the picker-valid compaction of the L0 table to the last level
at `discardTs = 10` drops the tombstone (nothing below), and the read of `k` at `ts = 12 ≥ discardTs`
changes from absent to `k@5`.
-/
namespace Badger

def C36_belowS : Lsm :=
  { mem := [⟨[0x6b], 5, 0, 0, 0, [1]⟩], imm := [],
    levels := [[{ ents := [⟨[0x6b], 10, 1, 0, 0, []⟩], id := 1 }], [], [], []] }
def C36_belowCd : CompactDef :=
  { thisLevel := 0, nextLevel := 3, top := [0], bot := [], outSizes := [], outIds := [], dropPrefixes := [] }
def C36_belowS' : Lsm := { mem := [⟨[0x6b], 5, 0, 0, 0, [1]⟩], imm := [], levels := [[], [], [], []] }

theorem C36_write_below_counterexample :
    LsmInv C36_belowS ∧ validChoice C36_belowS C36_belowCd = true ∧
    C36_belowS.compact C36_belowCd 10 1 0 = some C36_belowS' ∧
    visible 0 (C36_belowS.get [0x6b] 12) = none ∧
    visible 0 (C36_belowS'.get [0x6b] 12) = some ⟨[0x6b], 5, 0, 0, 0, [1]⟩ ∧
    ¬ LayeredX C36_belowS :=
  ⟨by decide, by decide, by lsm_decide, by decide, by decide, by decide⟩

end Badger
