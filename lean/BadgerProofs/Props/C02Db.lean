import BadgerProofs.Props.C01Db
/-!
# C02 at value level, for every history of the database model (normal mode, conflict detection on)

`C02_db_commit_reads_current`: when `Commit` of a read-write transaction succeeds in a reachable
state, no key it has read (`Get`, iterator items, `Seek` keys: `t.reads`) has a committed version
above its read timestamp — so every value it read is still the current one at its commit point
(`C02_db_serial_point`: reading at `readTs` or at `commitTs − 1` gives the same answer), which makes
the history of successful commits serializable in commit-timestamp order at the level of VALUES
(the oracle-level statement on fingerprints is `C02_serial`).

The invariant: every committed entry above the read watermark is recorded in `committedTxns` with
its key (`Covers`); `cleanupCommittedTransactions` only forgets commits at or below the watermark,
and the watermark is at or below the read timestamp of every open transaction (C34).
-/
namespace Badger
namespace DbL

/-- the keys of the pending writes are among the conflict keys -/
def WritesOk (t : TxnM) : Prop := ∀ e ∈ t.pending, e.key ∈ t.writes

/-- every committed entry above the read watermark is recorded in `committedTxns` -/
def Covers (hist : List Ent) (d : Db) : Prop :=
  ∀ x ∈ hist, d.readMark.doneUntil < x.ver → ∃ p ∈ d.committed, p.1 = x.ver ∧ x.key ∈ p.2

structure Inv2 (hist : List Ent) (d : Db) : Prop where
  wr : ∀ t ∈ d.txns, WritesOk t
  cov : Covers hist d

variable {o : Opts} {hist : List Ent} {d : Db}

theorem Inv2.same {d' : Db} (h2 : Inv2 hist d) (hc : d'.committed = d.committed)
    (hu : d.readMark.doneUntil ≤ d'.readMark.doneUntil) (hw : ∀ t ∈ d'.txns, WritesOk t) : Inv2 hist d' := by
  refine ⟨hw, ?_⟩
  intro x hx hlt
  obtain ⟨p, hp, h⟩ := h2.cov x hx (by omega)
  exact ⟨p, by rw [hc]; exact hp, h⟩

theorem wr_replaced (h2 : Inv2 hist d) (t' : TxnM) (hw : WritesOk t') : ∀ t ∈ replaced d.txns t', WritesOk t := by
  intro t ht
  rcases mem_replaced ht with rfl | ht
  · exact hw
  · exact h2.wr t ht

theorem doneRead_mono (hm : o.managed = false) (h : Inv o hist d) {id : Nat} {t : TxnM} (hf : d.findTxn id = some t) :
    d.readMark.doneUntil ≤ (d.doneRead t).1.readMark.doneUntil := by
  have hmd := managed_false hm h
  unfold Db.doneRead
  cases hdr : t.doneRead
  · simp only [hmd, Bool.or_self, Bool.false_eq_true, if_false]
    exact WmL.done_mono h.w.ok _ (h.w.until_le (find_mem hf).1 hdr)
  · simp only [Bool.true_or, if_true]; exact Nat.le_refl _

theorem discard_inv2 (hm : o.managed = false) (h : Inv o hist d) (h2 : Inv2 hist d) (id : Nat) :
    Inv2 hist (d.discardTxn id) := by
  unfold Db.discardTxn
  cases hf : d.findTxn id with
  | none => exact h2
  | some t =>
    simp only []
    split
    · exact h2
    · refine h2.same ?_ ?_ ?_
      · show ((d.doneRead t).1.setTxn _).committed = d.committed
        rw [setTxn_committed, doneRead_committed]
      · show d.readMark.doneUntil ≤ ((d.doneRead t).1.setTxn _).readMark.doneUntil
        rw [setTxn_readMark]; exact doneRead_mono hm h hf
      · show ∀ t' ∈ replaced (d.doneRead t).1.txns _, WritesOk t'
        rw [doneRead_txns]
        apply wr_replaced h2
        rw [doneRead_txn]
        exact h2.wr t (find_mem hf).1

theorem cleanup_keeps (d : Db) (p : Nat × List Bytes) (hp : p ∈ d.committed) (h : d.discardAtOrBelow < p.1) :
    p ∈ d.cleanup.committed := by
  unfold Db.cleanup
  split; · exact hp
  dsimp only
  split; · exact hp
  show p ∈ d.committed.filter _
  apply List.mem_filter.mpr
  refine ⟨hp, ?_⟩
  obtain ⟨ts, keys⟩ := p
  simpa using h

/-- `committedTxns` after a successful commit -/
theorem commit_committed (hmd : d.opts.managed = false) (hdet : d.opts.detectConflicts = true) {id : Nat} {t : TxnM}
    (hf : d.findTxn id = some t) (hg : commitGoes d t 0 = true) :
    (d.commit id 0).1.committed = (d.nextTs, t.writes) :: (d.doneRead t).1.cleanup.committed := by
  rw [commit_goes_eq 0 hf hg]
  unfold commitApply
  extract_lets d1 t1 d2 cts d3 d4 entries src d5
  have hdisc : t.discarded = false := by
    simp only [commitGoes, Bool.and_eq_true, Bool.not_eq_true'] at hg
    simpa using hg.1.1.2
  rw [discardTxn_setTxn_done d5 t1 id (by show ((d.doneRead t).2).id = id; rw [doneRead_txn]; exact (findTxn_id hf : t.id = id))
    (by show ((d.doneRead t).2).doneRead = true; rw [doneRead_txn])
    (by show ((d.doneRead t).2).discarded = false; rw [doneRead_txn]; exact hdisc)]
  show d4.committed = _
  have ho1 : d1.opts = d.opts := doneRead_opts d t
  have e2 : d2 = d1.cleanup := by simp only [d2, ho1, hmd]; rfl
  have ho2 : d2.opts = d.opts := by rw [e2, cleanup_opts, ho1]
  have e3 : d3 = { d2 with nextTs := d2.nextTs + 1 } := by simp only [d3, ho2, hmd]; rfl
  have ho3 : d3.opts = d.opts := by rw [e3]; exact ho2
  have e4 : d4 = { d3 with committed := (cts, t1.writes) :: d3.committed } := by simp only [d4, ho3, hdet]; rfl
  have ec : cts = d.nextTs := by
    simp only [cts, ho2, hmd]
    rw [e2, cleanup_nextTs]; exact doneRead_nextTs d t
  have et : t1 = { t with doneRead := true } := doneRead_txn d t
  rw [e4, ec, et, e3, e2]


theorem begin_inv2 (hm : o.managed = false) (h : Inv o hist d) (h2 : Inv2 hist d) (id : Nat) (upd : Bool) :
    Inv2 hist (d.begin id upd 0).1 := by
  have hmd := managed_false hm h
  have hle : d.readMark.doneUntil ≤ d.nextTs - 1 := by have := h.w.untilLt; omega
  unfold Db.begin
  simp only [hmd, Bool.false_eq_true, if_false]
  refine h2.same rfl (WmL.begin_mono h.w.ok _ hle) ?_
  exact wr_replaced h2 _ (by intro e he; simp at he)

theorem set_inv2 (hdet : o.detectConflicts = true) (h : Inv o hist d) (h2 : Inv2 hist d) (id : Nat) (e : Ent) :
    Inv2 hist (d.modify id e).1 := by
  cases hf : d.findTxn id with
  | none => rw [modify_none e hf]; exact h2
  | some t =>
    rw [modify_eq e hf]
    cases modCheck d t e with
    | some err => exact h2
    | none =>
      refine h2.same rfl (Nat.le_refl _) (wr_replaced h2 _ ?_)
      have hd : d.opts.detectConflicts = true := by rw [h.l.opts]; exact hdet
      intro x hx
      have hx : x ∈ t.pending.filter (·.key != e.key) ++ [e] := hx
      show x.key ∈ (if d.opts.detectConflicts then e.key :: t.writes else t.writes)
      rw [hd]; simp only [if_true]
      rcases List.mem_append.mp hx with hx | hx
      · exact List.mem_cons_of_mem _ (h2.wr t (find_mem hf).1 x (List.mem_filter.mp hx).1)
      · have : x = e := by simpa using hx
        rw [this]; exact List.mem_cons_self

theorem get_inv2 (h2 : Inv2 hist d) (id : Nat) (k : Bytes) : Inv2 hist (d.txnGet id k).1 := by
  unfold Db.txnGet
  cases hf : d.findTxn id with
  | none => exact h2
  | some t =>
    simp only []
    split; · exact h2
    split; · exact h2
    split
    · split <;> exact h2
    · have key : ∀ d' : Db, Inv2 hist d' → Inv2 hist (match d'.lsm.get k t.readTs with
          | none => (d', GetRes.notfound)
          | some e => if deletedOrExpired e.emeta e.exp d'.now then (d', GetRes.notfound)
                      else (d', GetRes.found e e.ver)).1 := by
        intro d' h'
        split
        · exact h'
        · split <;> exact h'
      apply key
      split
      · exact h2.same rfl (Nat.le_refl _) (wr_replaced h2 _ (h2.wr t (find_mem hf).1))
      · exact h2

theorem reads_inv2 (h2 : Inv2 hist d) {id : Nat} {t : TxnM} (rs : List Bytes) (hf : d.findTxn id = some t) :
    Inv2 hist (d.setTxn { t with reads := rs }) :=
  h2.same rfl (Nat.le_refl _) (wr_replaced h2 _ (h2.wr t (find_mem hf).1))

theorem commit_inv2 (hm : o.managed = false) (hdet : o.detectConflicts = true) (h : Inv o hist d) (h2 : Inv2 hist d)
    (id : Nat) : Inv2 (d.commitHist id ++ hist) (d.commit id 0).1 := by
  have hmd := managed_false hm h
  have hd : d.opts.detectConflicts = true := by rw [h.l.opts]; exact hdet
  cases hf : d.findTxn id with
  | none =>
    have : d.commitHist id = [] := by unfold Db.commitHist; rw [hf]
    rw [this, commit_none 0 hf]; exact h2
  | some t =>
    have tok := txnOk_of_find h hf
    rcases commit_cases hmd hf tok with ⟨hno, hd' | hd'⟩ | ok
    · rw [commitHist_nil hno, hd']; exact h2
    · rw [commitHist_nil hno, hd']; exact discard_inv2 hm h h2 id
    · have hh : d.commitHist id = (normalEnts d t).reverse := by unfold Db.commitHist; rw [hf, ok.res]
      have hg : commitGoes d t 0 = true := by
        obtain ⟨t', hf', hg', _⟩ := commit_ok_inv ok.res
        rw [hf] at hf'; cases hf'; exact hg'
      have hcm := commit_committed hmd hd hf hg
      have hmono := doneRead_mono hm h hf
      rw [hh]
      refine ⟨?_, ?_⟩
      · rw [ok.txns]
        apply wr_replaced h2
        exact h2.wr t (find_mem hf).1
      · intro x hx hlt
        rw [ok.readMark] at hlt
        rw [hcm]
        rcases List.mem_append.mp hx with hx | hx
        · -- an entry of this commit
          have hx' := List.mem_reverse.mp hx
          refine ⟨(d.nextTs, t.writes), List.mem_cons_self, (normalEnts_ver d t x hx').symm, ?_⟩
          obtain ⟨e, he, rfl⟩ := List.mem_map.mp hx'
          rw [lsmForm_key]
          exact h2.wr t (find_mem hf).1 e he
        · obtain ⟨p, hp, h1, h2'⟩ := h2.cov x hx (by omega)
          refine ⟨p, List.mem_cons_of_mem _ (cleanup_keeps _ p ?_ ?_), h1, h2'⟩
          · rw [doneRead_committed]; exact hp
          · unfold Db.discardAtOrBelow
            rw [doneRead_opts, hmd]
            simp only [Bool.false_eq_true, if_false]
            omega

theorem inv2_of_reach (hm : o.managed = false) (hdet : o.detectConflicts = true) (r : DbReach o hist d) :
    Inv2 hist d := by
  induction r with
  | init now => exact ⟨by intro t ht; simp [Db.init] at ht, by intro x hx; simp at hx⟩
  | begin r id upd ih => exact begin_inv2 hm (inv_of_reach hm r) ih id upd
  | set r id e hv ih => exact set_inv2 hdet (inv_of_reach hm r) ih id e
  | get _ id k ih => exact get_inv2 ih id k
  | reads _ id t rs hf ih => exact reads_inv2 ih rs hf
  | discard r id ih => exact discard_inv2 hm (inv_of_reach hm r) ih id
  | commit r id hmax ih => exact commit_inv2 hm hdet (inv_of_reach hm r) ih id
  | flush _ fid ih => exact ih.same rfl (Nat.le_refl _) ih.wr
  | tick _ now' hn ih => exact ih.same rfl (Nat.le_refl _) ih.wr
  | @reopen hist d r fid hnext ih =>
    -- nothing of committedTxns survives, and nothing needs to: every committed version is at or
    -- below the new read watermark (= MaxVersion = nextTs - 1)
    have h := inv_of_reach hm r
    obtain ⟨_, _, ft, _, fr, _, _⟩ := closeOpen_fields ({ d with lsm := d.lsm.flush fid } : Db)
    refine ⟨(by rw [ft]; intro t ht; cases ht), ?_⟩
    intro x hx hlt
    rw [fr] at hlt
    have := h.l.histLt x hx
    have hlt' : ({ d with lsm := d.lsm.flush fid } : Db).closeOpen.nextTs - 1 < x.ver := hlt
    omega
  | dropall _ hmem ih => exact ⟨ih.wr, by intro x hx; cases hx⟩
  | compact _ cd dts hd hi htop hvc hdp hs hcut ih => exact ih.same rfl (Nat.le_refl _) ih.wr

end DbL

/-- **C02, value level, every history**: if `Commit` of transaction `id` succeeds in a reachable
    state, then no key the transaction has read has a committed version above its read timestamp. -/
theorem C02_db_commit_reads_current {o : Opts} {hist : List Ent} {d : Db} (hm : o.managed = false)
    (hdet : o.detectConflicts = true) (r : DbReach o hist d) {id cts : Nat} {t : TxnM}
    (hf : d.findTxn id = some t) (hok : (d.commit id 0).2 = .ok cts) :
    ∀ k ∈ t.reads, ∀ x ∈ hist, x.key = k → x.ver ≤ t.readTs := by
  have h := DbL.inv_of_reach hm r
  have h2 := DbL.inv2_of_reach hm hdet r
  have hd : d.opts.detectConflicts = true := by rw [h.l.opts]; exact hdet
  obtain ⟨t', hf', hg, _⟩ := commit_ok_inv hok
  rw [hf] at hf'; cases hf'
  simp only [commitGoes, Bool.and_eq_true, Bool.not_eq_true'] at hg
  obtain ⟨⟨⟨_, hdisc⟩, _⟩, hnc⟩ := hg
  have hdisc : t.discarded = false := by simpa using hdisc
  have hnc : d.hasConflict t = false := by simpa [hd] using hnc
  have hle := C34_db_discard_below_open hm r hf hdisc
  unfold Db.discardAtOrBelow at hle
  rw [DbL.managed_false hm h] at hle
  have hle : d.readMark.doneUntil ≤ t.readTs := by simpa using hle
  intro k hk x hx hxk
  apply Classical.byContradiction
  intro hgt
  have hgt : t.readTs < x.ver := by omega
  obtain ⟨p, hp, h1, h2'⟩ := h2.cov x hx (by omega)
  have : d.hasConflict t = true := by
    unfold Db.hasConflict
    have hne : t.reads.isEmpty = false := by cases hr : t.reads <;> simp_all
    rw [hne]; simp only [Bool.false_eq_true, if_false]
    apply List.any_eq_true.mpr
    refine ⟨p, hp, ?_⟩
    obtain ⟨ts, keys⟩ := p
    simp only at h1 h2'
    simp only [Bool.and_eq_true, decide_eq_true_eq, List.any_eq_true]
    exact ⟨by omega, k, hk, by rw [← hxk]; simpa using h2'⟩
  rw [this] at hnc; cases hnc

theorem foldl_congr_mem {α β : Type} (f g : β → α → β) (l : List α) (b : β)
    (h : ∀ b, ∀ x ∈ l, f b x = g b x) : l.foldl f b = l.foldl g b := by
  induction l generalizing b with
  | nil => rfl
  | cons x xs ih =>
    simp only [List.foldl_cons]
    rw [h b x List.mem_cons_self]
    exact ih _ (fun b y hy => h b y (List.mem_cons_of_mem _ hy))

/-- …hence every key it read has the same newest version at its read timestamp and at any later
    timestamp (in particular just below its commit timestamp): the transaction could have run
    entirely at its commit point. -/
theorem C02_db_serial_point {o : Opts} {hist : List Ent} {d : Db} (hm : o.managed = false)
    (hdet : o.detectConflicts = true) (r : DbReach o hist d) {id cts : Nat} {t : TxnM}
    (hf : d.findTxn id = some t) (hok : (d.commit id 0).2 = .ok cts) (k : Bytes) (hk : k ∈ t.reads)
    (ts : Nat) (hts : t.readTs ≤ ts) :
    newestLE hist k ts = newestLE hist k t.readTs := by
  have hcur := C02_db_commit_reads_current hm hdet r hf hok k hk
  unfold newestLE
  apply foldl_congr_mem
  intro best x hx
  by_cases hxk : x.key = k
  · have := hcur x hx hxk
    have e1 : (x.ver ≤ ts) = True := by simp; omega
    have e2 : (x.ver ≤ t.readTs) = True := by simp; omega
    simp only [hxk, e1, e2]
  · simp [hxk]

/-! non-vacuity: T1 reads key 1, T2 writes key 1 and commits, T1's commit is refused; a third
    transaction that reads key 1 afterwards and writes key 2 commits. -/
def C02_dbOpts : Opts := { maxBatchCount := 1000, maxBatchSize := 100000 }
def C02_dbA : Db :=
  let d := ((Db.init C02_dbOpts 0).begin 1 true 0).1
  let d := (d.txnGet 1 [1]).1
  let d := (d.begin 2 true 0).1
  let d := (d.modify 2 ⟨[1], 0, 0, 0, 0, [9]⟩).1
  let d := (d.commit 2 0).1
  (d.modify 1 ⟨[2], 0, 0, 0, 0, [8]⟩).1
def C02_dbB : Db :=
  let d := ((C02_dbA.commit 1 0).1.begin 3 true 0).1
  let d := (d.txnGet 3 [1]).1
  (d.modify 3 ⟨[2], 0, 0, 0, 0, [7]⟩).1

theorem C02_db_example :
    (match (C02_dbA.commit 1 0).2 with | .conflict => true | _ => false) = true ∧
    (match (C02_dbB.commit 3 0).2 with | .ok ts => ts == 2 | _ => false) = true := by decide

end Badger
