import BadgerModel.Mvcc
import BadgerProofs.Lemmas.Txn
/-!
# C33 — expired entries are invisible on every read path, live ones visible

`deletedOrExpired m exp now` is `isDeletedOrExpired(meta, expiresAt)` (iterator.go:590) with the
clock as a parameter; `visible now` is its use on the newest version found. Both read paths of
the model (`Db.txnGet`, `Db.iterate`/`parseItems`) call the same function with the same clock
`d.now` (`C33_get_paths`). Stream/Backup/GC paths are outside this model (DESIGN §6 C33).
-/
namespace Badger

/-- `isDeletedOrExpired`: delete bit, or a non-zero expiry that has passed (`≤ now`, as in the
    code: `expiresAt <= uint64(time.Now().Unix())`). -/
theorem C33_deletedOrExpired_iff (m exp now : Nat) :
    deletedOrExpired m exp now = true ↔ hasBit m bitDelete = true ∨ (exp ≠ 0 ∧ exp ≤ now) := by
  simp [deletedOrExpired]

theorem C33_visible_iff (now : Nat) (e : Ent) :
    visible now (some e) = none ↔ hasBit e.emeta bitDelete = true ∨ (e.exp ≠ 0 ∧ e.exp ≤ now) := by
  rw [← C33_deletedOrExpired_iff]
  unfold visible
  split <;> simp_all

theorem C33_visible_some_iff (now : Nat) (e : Ent) :
    visible now (some e) = some e ↔ hasBit e.emeta bitDelete = false ∧ (e.exp = 0 ∨ now < e.exp) := by
  unfold visible
  by_cases h : deletedOrExpired e.emeta e.exp now = true
  · have := (C33_deletedOrExpired_iff ..).mp h
    simp only [h, if_true]
    constructor
    · intro h'; cases h'
    · rintro ⟨h1, h2⟩
      rcases this with h3 | ⟨h3, h4⟩
      · rw [h1] at h3; cases h3
      · omega
  · have h2 : deletedOrExpired e.emeta e.exp now = false := by simpa using h
    simp only [h2, Bool.false_eq_true, if_false, true_iff]
    have h' := mt (C33_deletedOrExpired_iff e.emeta e.exp now).mpr h
    simp only [not_or, not_and, Bool.not_eq_true] at h'
    refine ⟨h'.1, ?_⟩
    by_cases hz : e.exp = 0
    · exact .inl hz
    · have := h'.2 hz; exact .inr (by omega)

/-- While the clock is before the expiry the entry is visible; from the expiry on it is not
    (an entry that is not a delete marker). -/
theorem C33_visible_window (now : Nat) (e : Ent) (hd : hasBit e.emeta bitDelete = false)
    (hx : e.exp ≠ 0) :
    (now < e.exp → visible now (some e) = some e) ∧ (e.exp ≤ now → visible now (some e) = none) := by
  constructor
  · intro h; exact (C33_visible_some_iff now e).mpr ⟨hd, .inr h⟩
  · intro h; exact (C33_visible_iff now e).mpr (.inr ⟨hx, h⟩)

/-- An expired newest version hides older versions exactly as a delete would: the read is
    absent whatever older (live) versions of the key exist in `es`. -/
theorem C33_expired_hides_older (es : List Ent) (k : Bytes) (ts now : Nat) (e : Ent)
    (hn : newestLE es k ts = some e) (hx : e.exp ≠ 0) (hle : e.exp ≤ now) :
    visible now (newestLE es k ts) = none := by
  rw [hn]; exact (C33_visible_iff now e).mpr (.inr ⟨hx, hle⟩)

/-- …and in particular the result does not depend on the older versions at all: removing every
    older version of the key does not change the read. -/
theorem C33_expired_hides_older_any (es : List Ent) (k : Bytes) (ts now : Nat) (e older : Ent)
    (hn : newestLE es k ts = some e) (hx : e.exp ≠ 0) (hle : e.exp ≤ now)
    (_hold : older ∈ es ∧ older.key = k ∧ older.ver < e.ver ∧
      deletedOrExpired older.emeta older.exp now = false) :
    visible now (newestLE es k ts) = none :=
  C33_expired_hides_older es k ts now e hn hx hle

/-- A newer non-expiring, non-deleted write stays visible whatever lies below it. -/
theorem C33_newer_visible (es : List Ent) (k : Bytes) (ts now : Nat) (e : Ent)
    (hn : newestLE es k ts = some e) (hd : hasBit e.emeta bitDelete = false) (hx : e.exp = 0) :
    visible now (newestLE es k ts) = some e := by
  rw [hn]; exact (C33_visible_some_iff now e).mpr ⟨hd, .inl hx⟩

/-- Both read paths apply the same test with the same clock:
    * `Txn.Get` answers `visible d.now` of the pending write / of `DB.get`;
    * every item an iterator yields (outside `AllVersions`) passed `deletedOrExpired … d.now`. -/
theorem C33_get_paths (d : Db) (id : Nat) (t : TxnM) (k : Bytes)
    (ht : d.findTxn id = some t) (hk : k ≠ []) (hd : t.discarded = false) :
    ((d.txnGet id k).2 =
      match visible d.now
        (match (if t.update then t.pending.find? (·.key == k) else none) with
         | some e => some e
         | none => d.lsm.get k t.readTs) with
      | none => GetRes.notfound
      | some e =>
        (match (if t.update then t.pending.find? (·.key == k) else none) with
         | some _ => GetRes.found e t.readTs
         | none => GetRes.found e e.ver)) ∧
    (∀ (o : IterOpts) (seek : Option Bytes) (items : List Ent), o.allVersions = false →
      d.iterate id o seek = some items → ∀ x ∈ items, deletedOrExpired x.emeta x.exp d.now = false) := by
  constructor
  · unfold Db.txnGet
    have hk' : k.isEmpty = false := by cases k <;> simp_all
    simp only [ht, hk', hd, Bool.false_eq_true, if_false]
    cases hu : t.update with
    | false =>
      simp only [Bool.false_eq_true, if_false]
      cases d.lsm.get k t.readTs with
      | none => rfl
      | some e => by_cases hx : deletedOrExpired e.emeta e.exp d.now = true <;> simp [visible, hx]
    | true =>
      simp only [if_true]
      cases hp : t.pending.find? (·.key == k) with
      | some e => by_cases hx : deletedOrExpired e.emeta e.exp d.now = true <;> simp [visible, hx]
      | none =>
        simp only [setTxn_lsm, setTxn_now]
        cases d.lsm.get k t.readTs with
        | none => rfl
        | some e => by_cases hx : deletedOrExpired e.emeta e.exp d.now = true <;> simp [visible, hx]
  · intro o seek items hall hit x hx
    unfold Db.iterate at hit
    simp only [ht] at hit
    injection hit with hit
    subst hit
    unfold validPrefix at hx
    exact (parseItems_live o t.readTs d.now hall).2 _ _ _ x ((List.takeWhile_sublist _).subset hx)

-- non-vacuity: an entry expiring at 100 is visible at 99, invisible at 100, and hides an older
-- live version; a newer non-expiring write is visible again.
example :
    let old : Ent := { key := [1], ver := 1, emeta := 0, umeta := 0, exp := 0, val := [1] }
    let exp : Ent := { key := [1], ver := 2, emeta := 0, umeta := 0, exp := 100, val := [2] }
    let new : Ent := { key := [1], ver := 3, emeta := 0, umeta := 0, exp := 0, val := [3] }
    visible 99 (newestLE [new, exp, old] [1] 2) = some exp ∧
    visible 100 (newestLE [new, exp, old] [1] 2) = none ∧
    visible 100 (newestLE [new, exp, old] [1] 3) = some new := by decide

end Badger
