import BadgerProofs.Props.C01Reach
import BadgerProofs.Props.C13
/-!
# C13 — retention at the level of the whole store and of the commit HISTORY

`C13.lean` characterises what one run of the compaction filter keeps. Here the filter theorems are
lifted to `Lsm.compact` (an entry of the state survives a compaction iff it is not an input or the
filter keeps it) and composed over `Reach` (`C01Reach.lean`): no version above every discard
timestamp any compaction used is ever lost, and the newest live version at or below a read
timestamp `≥` the watermark is still stored.
-/
namespace Badger
namespace LL

theorem mem_topSrcs {s : Lsm} {cd : CompactDef} {t : Tbl} (ht : t ∈ cdTops s cd) :
    t.ents ∈ (if cd.thisLevel == 0 then (cdTops s cd).reverse.map (·.ents) else (cdTops s cd).map (·.ents)) := by
  split
  · exact List.mem_map.mpr ⟨t, List.mem_reverse.mpr ht, rfl⟩
  · exact List.mem_map.mpr ⟨t, ht, rfl⟩

/-- every input entry of a compaction is in the merged stream (copies of an internal key are equal) -/
theorem mem_merged_of_input {s : Lsm} {cd : CompactDef} (h : LsmInv s) (hu : KeyVerUnique s)
    (hc : CompactOk s cd) {e : Ent} (he : e ∈ topEnts s cd ++ botEnts s cd) : e ∈ cdMerged s cd := by
  have hsrc := merged_sources_sorted h hc
  have hin : ∀ x ∈ topEnts s cd ++ botEnts s cd, x ∈ s.allEntries := by
    intro x hx
    rcases input_level h hc.1 hx with ⟨t, h1, h2, h3, _⟩ | ⟨t, h1, h2, h3, _⟩
    · exact mem_allEntries.mpr (.inr (.inr ⟨_, _, t, h1, h2, h3⟩))
    · exact mem_allEntries.mpr (.inr (.inr ⟨_, _, t, h1, h2, h3⟩))
  have hex : ∃ src ∈ (if cd.thisLevel == 0 then (cdTops s cd).reverse.map (·.ents)
      else (cdTops s cd).map (·.ents)) ++ [botEnts s cd], e ∈ src := by
    rcases List.mem_append.mp he with h1 | h1
    · obtain ⟨t, ht, het⟩ := mem_topEnts.mp h1
      exact ⟨t.ents, List.mem_append_left _ (mem_topSrcs ht), het⟩
    · exact ⟨botEnts s cd, List.mem_append_right _ (by simp), h1⟩
  obtain ⟨src, hsm, hes⟩ := hex
  obtain ⟨e', he', hk, hv⟩ := C12_merge_complete hsrc hsm hes
  have he'in : e' ∈ s.allEntries := hin e' (List.mem_append.mpr (mem_merged he'))
  have : e' = e := hu e' he'in e (hin e he) hk hv
  rw [← this]; exact he'

/-- an entry of the state survives a compaction if it is not an input, or the filter keeps it -/
theorem compact_survives {s s' : Lsm} {cd : CompactDef} {d n now : Nat} (h : LsmInv s)
    (hc : CompactOk s cd) (hs : s.compact cd d n now = some s') {e : Ent} (he : e ∈ s.allEntries)
    (hkeep : e ∈ topEnts s cd ++ botEnts s cd → e ∈ (compactOutput s cd d n now).1) :
    e ∈ s'.allEntries := by
  obtain ⟨new0, hsp, rfl⟩ := compact_some hs
  obtain ⟨hthis, _⟩ := this_level h hc.1
  obtain ⟨hnext, _⟩ := next_level h hc.1
  obtain ⟨hflat, _⟩ := splitSizes_spec hsp
  -- an input entry that the filter keeps lands in a new table of the next level
  have hout : e ∈ topEnts s cd ++ botEnts s cd →
      e ∈ ({ s with levels := newLevels s cd new0 } : Lsm).allEntries := by
    intro hin
    have ho := hkeep hin
    rw [← hflat, ← withIds_map_ents new0 cd.outIds] at ho
    obtain ⟨l, hl, hel⟩ := List.mem_flatten.mp ho
    obtain ⟨t, ht, rfl⟩ := List.mem_map.mp hl
    refine mem_allEntries.mpr (.inr (.inr ⟨cd.nextLevel, newNext s cd new0, t, ?_, ?_, hel⟩))
    · simp only
      rw [newLevels_get new0 hc.1.1 hc.1.2.1, if_neg (fun hh => hh.2 hh.1.symm), if_pos rfl]
    · rw [newNext_eq]; exact mem_sortBySmallest.mpr (List.mem_append_right _ ht)
  rw [mem_allEntries] at he
  rcases he with he | he | ⟨i, tbls, t, hi, ht, het⟩
  · exact mem_allEntries.mpr (.inl he)
  · exact mem_allEntries.mpr (.inr (.inl he))
  · by_cases hin : i = cd.nextLevel
    · -- a table of the next level: kept, or an input
      subst hin
      rw [hnext] at hi; cases hi
      rcases (mem_pick_or_remove _ (keptIdx cd) t).mp ht with h1 | h1
      · apply hout
        unfold keptIdx at h1
        by_cases hsame : cd.thisLevel = cd.nextLevel
        · rw [if_pos hsame, pickIdx_append] at h1
          rcases List.mem_append.mp h1 with h2 | h2
          · refine List.mem_append_left _ (mem_topEnts.mpr ⟨t, ?_, het⟩)
            unfold cdTops; rw [← nextT_eq_thisT (s := s) hsame.symm]; exact h2
          · exact List.mem_append_right _ (mem_botEnts.mpr ⟨t, h2, het⟩)
        · rw [if_neg hsame] at h1
          exact List.mem_append_right _ (mem_botEnts.mpr ⟨t, h1, het⟩)
      · refine mem_allEntries.mpr (.inr (.inr ⟨cd.nextLevel, newNext s cd new0, t, ?_, ?_, het⟩))
        · simp only
          rw [newLevels_get new0 hc.1.1 hc.1.2.1, if_neg (fun hh => hh.2 hh.1.symm), if_pos rfl]
        · rw [newNext_eq]; exact mem_sortBySmallest.mpr (List.mem_append_left _ h1)
    · by_cases hit : i = cd.thisLevel
      · -- a table of the level of the tops (a different level): stays, or is a top
        subst hit
        rw [hthis] at hi; cases hi
        rcases (mem_pick_or_remove _ cd.top t).mp ht with h1 | h1
        · exact hout (List.mem_append_left _ (mem_topEnts.mpr ⟨t, h1, het⟩))
        · refine mem_allEntries.mpr (.inr (.inr ⟨cd.thisLevel, _, t, ?_, h1, het⟩))
          simp only
          rw [newLevels_get new0 hc.1.1 hc.1.2.1, if_pos ⟨rfl, hin⟩]
      · refine mem_allEntries.mpr (.inr (.inr ⟨i, tbls, t, ?_, ht, het⟩))
        simp only
        rw [newLevels_get new0 hc.1.1 hc.1.2.1, if_neg (fun hh => hit hh.1), if_neg hin]
        exact hi

/-- the merged stream and the filter parameters of a compaction, for use with the theorems of C13 -/
def cdParams (s : Lsm) (cd : CompactDef) (d n now : Nat) : CParams :=
  { discardTs := d, numKeep := n, hasOverlap := cdHasOverlap s cd, now := now, dropPrefixes := [] }

theorem compactOutput_mem_iff {s : Lsm} {cd : CompactDef} (hdp : cd.dropPrefixes = []) (d n now : Nat) (e : Ent) :
    e ∈ (compactOutput s cd d n now).1 ↔ e ∈ subcompact (cdParams s cd d n now) (cdMerged s cd) := by
  rw [compactOutput_eq hdp]; rfl

theorem mem_memPut_self' (e : Ent) (m : List Ent) : e ∈ memPut e m := by
  induction m with
  | nil => simp [memPut]
  | cons y ys ih =>
    simp only [memPut]
    split <;> simp [ih]

theorem put_keeps {s : Lsm} (hm : SortedEnts s.mem) {e x : Ent} (hx : x ∈ s.allEntries)
    (hne : ¬ (x.key = e.key ∧ x.ver = e.ver)) : x ∈ (s.putEnt e).allEntries := by
  rw [mem_allEntries] at hx ⊢
  rcases hx with h1 | h1 | h1
  · left
    refine (mem_memPut' hm).mpr (.inr ⟨h1, ?_⟩)
    intro heq
    obtain ⟨hk, hver⟩ := (LL.entCmp_eq_iff _ _).mp heq
    exact hne ⟨hk.symm, hver.symm⟩
  · exact .inr (.inl h1)
  · exact .inr (.inr h1)

/-- a duplicate-free list inside another list is not longer -/
theorem nodup_subset_length_le {l1 l2 : List Ent} (hn : l1.Nodup) (hsub : ∀ x ∈ l1, x ∈ l2) :
    l1.length ≤ l2.length := by
  induction l1 generalizing l2 with
  | nil => simp
  | cons a l ih =>
    obtain ⟨ha, hl⟩ := List.nodup_cons.mp hn
    have hal2 : a ∈ l2 := hsub a (by simp)
    have := ih hl (l2 := l2.erase a) (by
      intro x hx
      have hxa : x ≠ a := fun h => ha (h ▸ hx)
      exact (List.mem_erase_of_ne hxa).mpr (hsub x (List.mem_cons_of_mem _ hx)))
    rw [List.length_erase_of_mem hal2] at this
    have : 0 < l2.length := List.length_pos_of_mem hal2
    simp only [List.length_cons]; omega

theorem sorted_nodup {l : List Ent} (hs : SortedEnts l) : l.Nodup := by
  rw [sorted_iff] at hs
  unfold List.Nodup
  refine hs.imp ?_
  intro a b hab heq
  subst heq
  exact elt_irrefl _ hab

end LL

/-! ## one compaction -/

/-- **C13 at state level** — a compaction never removes a stored version newer than its discard
    timestamp: not from the tables it leaves alone, and not from the ones it merges. -/
theorem C13_compact_above {s s' : Lsm} {cd : CompactDef} {d n now : Nat} (h : LsmInv s) (hu : KeyVerUnique s)
    (hc : CompactOk s cd) (hdp : cd.dropPrefixes = []) (hs : s.compact cd d n now = some s') {e : Ent}
    (he : e ∈ s.allEntries) (hv : d < e.ver) : e ∈ s'.allEntries := by
  apply LL.compact_survives h hc hs he
  intro hin
  rw [LL.compactOutput_mem_iff hdp]
  exact C13_keep_above (p := LL.cdParams s cd d n now) (LL.merged_sorted h hc) rfl
    (LL.mem_merged_of_input h hu hc hin) hv

/-- **C13 at state level, NumVersionsToKeep** — `C13_keep_newest` lifted to `Lsm.compact`: a stored
    entry survives if, among the versions of its key that the compaction merges, no strictly newer
    counted one is dead or discard-earlier, fewer than `numKeep` counted ones are newer, and the entry
    itself is live (or `hasOverlap`, or not counted). -/
theorem C13_compact_keep_newest {s s' : Lsm} {cd : CompactDef} {d n now : Nat} (h : LsmInv s)
    (hu : KeyVerUnique s) (hc : CompactOk s cd) (hdp : cd.dropPrefixes = [])
    (hs : s.compact cd d n now = some s') {e : Ent} (he : e ∈ s.allEntries)
    (p : CParams) (hp : p = LL.cdParams s cd d n now)
    (hlive : ∀ x ∈ LL.cdMerged s cd, x.key = e.key → e.ver < x.ver → counted p x = true →
      deadAt p x = false ∧ hasBit x.emeta bitDiscardEarlier = false)
    (hn : countedBefore p (LL.cdMerged s cd) e < n)
    (hself : deadAt p e = false ∨ LL.cdHasOverlap s cd = true ∨ counted p e = false) :
    e ∈ s'.allEntries := by
  subst hp
  apply LL.compact_survives h hc hs he
  intro hin
  rw [LL.compactOutput_mem_iff hdp]
  exact C13_keep_newest (p := LL.cdParams s cd d n now) (LL.merged_sorted h hc) rfl
    (LL.mem_merged_of_input h hu hc hin) hlive hn hself

/-! ## over the history of commits -/

/-- **C13 over `Reach`** — no committed version above every discard timestamp any compaction used is
    ever lost, whatever commits, flushes and picker-valid compactions happened. -/
theorem C13_reach_above {nlev : Nat} {hist : List Ent} {dm nm : Nat} {s : Lsm} (r : Reach nlev hist dm nm s) :
    ∀ e ∈ hist, dm < e.ver → e ∈ s.allEntries := by
  induction r with
  | init => intro e he; simp at he
  | @put hist dm nm s r e hpos hmax hfresh ih =>
    obtain ⟨⟨h, _⟩, _, _⟩ := C01_reach_inv r
    intro x hx hv
    rcases List.mem_cons.mp hx with rfl | hx'
    · exact LL.mem_allEntries.mpr (.inl (LL.mem_memPut_self' _ _))
    · apply LL.put_keeps h.1 (ih x hx' hv)
      rintro ⟨hkey, hver⟩
      have := hfresh x hx' hkey
      omega
  | @flush hist dm nm s r id ih =>
    intro x hx hv
    exact (LL.mem_allEntries_flush s id x).mpr (ih x hx hv)
  | resort _ hl hp ih =>
    intro x hx hv
    exact (LL.mem_allEntries_resort hl hp x).mpr (ih x hx hv)
  | @compact hist dm nm s s' r cd d n now' hi htop hvc hdp hs hcut ih =>
    obtain ⟨⟨h, hv, _, hu, _⟩, _, _⟩ := C01_reach_inv r
    have hc := C12_validChoice_compactOk h hv hi htop hvc
    intro x hx hxv
    exact C13_compact_above h hu hc hdp hs (ih x hx (by omega)) (by omega)

/-- **C13 over `Reach`** — the newest committed version `≤ ts` of a key, if it is live, is still
    stored, for every `ts ≥` the largest discard timestamp used (clock `≥` every compaction's clock).
    In particular (`ts = dm`) the newest live version at or below the watermark survives. -/
theorem C13_reach_newest {nlev : Nat} {hist : List Ent} {dm nm : Nat} {s : Lsm} (r : Reach nlev hist dm nm s)
    {ts now : Nat} (hts : dm ≤ ts) (hnow : nm ≤ now) {k : Bytes} {e : Ent}
    (he : visible now (newestLE hist k ts) = some e) : e ∈ s.allEntries ∧ s.get k ts = some e := by
  rw [← C01_reach_reads r hts hnow k] at he
  have hg : s.get k ts = some e := by
    cases hg : s.get k ts with
    | none => rw [hg] at he; simp [visible] at he
    | some x =>
      rw [hg] at he
      simp only [visible] at he
      split at he
      · cases he
      · exact he
  exact ⟨(C01_get_some (C01_reach_good r).1 hg).1, hg⟩

/-- everything stored was committed, so with `C13_reach_above`: above the watermark the stored
    versions are exactly the committed ones -/
theorem C13_reach_above_iff {nlev : Nat} {hist : List Ent} {dm nm : Nat} {s : Lsm} (r : Reach nlev hist dm nm s)
    {e : Ent} (hv : dm < e.ver) : e ∈ s.allEntries ↔ e ∈ hist :=
  ⟨fun h => (C01_reach_inv r).2.2 e h, fun h => C13_reach_above r e h hv⟩

/-! ## NumVersionsToKeep over the history -/

/-- never deleted and never expiring -/
def AlwaysLive (x : Ent) : Prop := ∀ now, deletedOrExpired x.emeta x.exp now = false

/-- the committed versions of `e`'s key that are strictly newer than `e` -/
def newerInHist (hist : List Ent) (e : Ent) : List Ent :=
  hist.filter (fun x => decide (x.key = e.key ∧ e.ver < x.ver))

/-- the history-level reading of "keep the `n` newest versions": `e` and every committed version of
    its key above it are live, none above it carries discard-earlier, and fewer than `n` committed
    versions of the key are newer than `e` -/
def KeptByN (hist : List Ent) (n : Nat) (e : Ent) : Prop :=
  AlwaysLive e ∧
  (∀ x ∈ hist, x.key = e.key → e.ver < x.ver → AlwaysLive x ∧ hasBit x.emeta bitDiscardEarlier = false) ∧
  (newerInHist hist e).length < n

/-- **C13, one picker-valid compaction from a reachable state, NumVersionsToKeep** — whatever its
    discard timestamp and clock, a compaction with `numKeep = n` keeps every stored entry that is among
    the `n` newest committed versions of its key (all live, no discard-earlier above it). -/
theorem C13_reach_step_keep_n {nlev : Nat} {hist : List Ent} {dm nm : Nat} {s s' : Lsm}
    (r : Reach nlev hist dm nm s) {cd : CompactDef} {d n now' : Nat} (hi : ChoiceIdxOk s cd)
    (htop : cd.top ≠ []) (hvc : validChoice s cd = true) (hdp : cd.dropPrefixes = [])
    (hs : s.compact cd d n now' = some s') {e : Ent} (he : e ∈ s.allEntries) (hk : KeptByN hist n e) :
    e ∈ s'.allEntries := by
  obtain ⟨⟨h, hv, _, hu, _⟩, _, hsub⟩ := C01_reach_inv r
  have hc := C12_validChoice_compactOk h hv hi htop hvc
  obtain ⟨hlive_e, hlive, hcount⟩ := hk
  have hmh : ∀ x ∈ LL.cdMerged s cd, x ∈ hist := by
    intro x hx
    have hin : x ∈ LL.topEnts s cd ++ LL.botEnts s cd := List.mem_append.mpr (LL.mem_merged hx)
    rcases LL.input_level h hc.1 hin with ⟨t, h1, h2, h3, _⟩ | ⟨t, h1, h2, h3, _⟩
    · exact hsub x (LL.mem_allEntries.mpr (.inr (.inr ⟨_, _, t, h1, h2, h3⟩)))
    · exact hsub x (LL.mem_allEntries.mpr (.inr (.inr ⟨_, _, t, h1, h2, h3⟩)))
  apply C13_compact_keep_newest h hu hc hdp hs he (LL.cdParams s cd d n now') rfl
  · intro x hx hkx hvx _
    obtain ⟨hl, hde⟩ := hlive x (hmh x hx) hkx hvx
    exact ⟨hl now', hde⟩
  · -- the counted newer versions in the merged stream are distinct committed newer versions
    have h1 : countedBefore (LL.cdParams s cd d n now') (LL.cdMerged s cd) e ≤
        ((LL.cdMerged s cd).filter (fun x => decide (x.key = e.key ∧ e.ver < x.ver))).length := by
      unfold countedBefore
      apply LL.nodup_subset_length_le
      · exact (LL.sorted_nodup (LL.merged_sorted h hc)).sublist List.filter_sublist
      · intro x hx
        obtain ⟨hxm, hxp⟩ := List.mem_filter.mp hx
        simp only [Bool.and_eq_true] at hxp
        exact List.mem_filter.mpr ⟨hxm, hxp.1⟩
    have h2 : ((LL.cdMerged s cd).filter (fun x => decide (x.key = e.key ∧ e.ver < x.ver))).length ≤
        (newerInHist hist e).length := by
      apply LL.nodup_subset_length_le
      · exact (LL.sorted_nodup (LL.merged_sorted h hc)).sublist List.filter_sublist
      · intro x hx
        obtain ⟨hxm, hxp⟩ := List.mem_filter.mp hx
        exact List.mem_filter.mpr ⟨hmh x hxm, hxp⟩
    omega
  · exact .inl (hlive_e now')

/-- runs all of whose compactions use `numKeep ≥ N` (`Reach` does not record `numKeep`) -/
inductive ReachK (nlev N : Nat) : List Ent → Nat → Nat → Lsm → Prop
  | init : ReachK nlev N [] 0 0 (Lsm.init nlev)
  | put {hist : List Ent} {dm nm : Nat} {s : Lsm} (r : ReachK nlev N hist dm nm s) (e : Ent)
      (hpos : 0 < e.ver) (hmax : e.ver ≤ maxU64)
      (hfresh : ∀ x ∈ hist, x.key = e.key → x.ver < e.ver) : ReachK nlev N (e :: hist) dm nm (s.putEnt e)
  | flush {hist : List Ent} {dm nm : Nat} {s : Lsm} (r : ReachK nlev N hist dm nm s) (id : Nat) :
      ReachK nlev N hist dm nm (s.flush id)
  | resort {hist : List Ent} {dm nm : Nat} {s : Lsm} (r : ReachK nlev N hist dm nm s) {l0 l0' : List Tbl}
      {rest : List (List Tbl)} (hl : s.levels = l0 :: rest) (hp : l0'.Perm l0) :
      ReachK nlev N hist dm nm { s with levels := l0' :: rest }
  | compact {hist : List Ent} {dm nm : Nat} {s s' : Lsm} (r : ReachK nlev N hist dm nm s) (cd : CompactDef)
      (d n now' : Nat) (hN : N ≤ n) (hi : ChoiceIdxOk s cd) (htop : cd.top ≠ []) (hvc : validChoice s cd = true)
      (hdp : cd.dropPrefixes = []) (hs : s.compact cd d n now' = some s')
      (hcut : ∀ new0, splitSizes cd.outSizes (compactOutput s cd d n now').1 = some new0 →
        CutsAtKeyChange (withIds new0 cd.outIds)) :
      ReachK nlev N hist (max dm d) (max nm now') s'

theorem ReachK.toReach {nlev N : Nat} {hist : List Ent} {dm nm : Nat} {s : Lsm}
    (r : ReachK nlev N hist dm nm s) : Reach nlev hist dm nm s := by
  induction r with
  | init => exact .init
  | put _ e hpos hmax hfresh ih => exact .put ih e hpos hmax hfresh
  | flush _ id ih => exact .flush ih id
  | resort _ hl hp ih => exact .resort ih hl hp
  | compact _ cd d n now' _ hi htop hvc hdp hs hcut ih => exact .compact ih cd d n now' hi htop hvc hdp hs hcut

theorem KeptByN.tail {x : Ent} {hist : List Ent} {n : Nat} {e : Ent} (h : KeptByN (x :: hist) n e) :
    KeptByN hist n e := by
  obtain ⟨h1, h2, h3⟩ := h
  refine ⟨h1, fun y hy => h2 y (List.mem_cons_of_mem _ hy), ?_⟩
  have : (newerInHist hist e).length ≤ (newerInHist (x :: hist) e).length := by
    unfold newerInHist
    rw [List.filter_cons]
    split <;> simp
  omega

/-- **C13 over the history, NumVersionsToKeep** — if every compaction keeps at least `N` versions,
    then every committed entry that is among the `N` newest committed versions of its key (they all
    live, no discard-earlier above it) is still stored — independently of all discard timestamps. -/
theorem C13_reachK_keep_n {nlev N : Nat} {hist : List Ent} {dm nm : Nat} {s : Lsm}
    (r : ReachK nlev N hist dm nm s) : ∀ e ∈ hist, KeptByN hist N e → e ∈ s.allEntries := by
  induction r with
  | init => intro e he; simp at he
  | @put hist dm nm s r e hpos hmax hfresh ih =>
    obtain ⟨⟨h, _⟩, _, _⟩ := C01_reach_inv r.toReach
    intro x hx hk
    rcases List.mem_cons.mp hx with rfl | hx'
    · exact LL.mem_allEntries.mpr (.inl (LL.mem_memPut_self' _ _))
    · apply LL.put_keeps h.1 (ih x hx' hk.tail)
      rintro ⟨hkey, hver⟩
      have := hfresh x hx' hkey
      omega
  | @flush hist dm nm s r id ih =>
    intro x hx hk
    exact (LL.mem_allEntries_flush s id x).mpr (ih x hx hk)
  | resort _ hl hp ih =>
    intro x hx hk
    exact (LL.mem_allEntries_resort hl hp x).mpr (ih x hx hk)
  | @compact hist dm nm s s' r cd d n now' hN hi htop hvc hdp hs hcut ih =>
    intro x hx hk
    refine C13_reach_step_keep_n r.toReach hi htop hvc hdp hs (ih x hx hk) ?_
    exact ⟨hk.1, hk.2.1, Nat.lt_of_lt_of_le hk.2.2 hN⟩

/-! non-vacuity on the concrete run of `C01Reach.lean`:
    `init 2` → commit `1@1` → flush → the pickers' L0 → L1 compaction with `discardTs = 0` -/
theorem C13_reachRun : Reach 2 [C01_reachE] 0 0 C01_reachS3 := by
  have r1 : Reach 2 [C01_reachE] 0 0 ((Lsm.init 2).putEnt C01_reachE) :=
    Reach.put Reach.init C01_reachE (by decide) (by decide) (by simp)
  have r2 : Reach 2 [C01_reachE] 0 0 C01_reachS2 := Reach.flush r1 5
  have hsplit : splitSizes C01_reachCd.outSizes (compactOutput C01_reachS2 C01_reachCd 0 1 0).1 =
      some [{ ents := [C01_reachE] }] := by
    simp only [compactOutput, mergeAll_eq_F]; decide
  exact Reach.compact r2 C01_reachCd 0 1 0 (by decide) (by decide) (by decide) rfl (by lsm_decide)
    (by intro new0 h; rw [hsplit] at h; cases h; simp [withIds, C01_reachCd, CutsAtKeyChange])

example : C01_reachE ∈ C01_reachS3.allEntries :=
  C13_reach_above C13_reachRun C01_reachE (by simp) (by decide)

example : C01_reachE ∈ C01_reachS3.allEntries ∧ C01_reachS3.get [1] 4 = some C01_reachE :=
  C13_reach_newest C13_reachRun (ts := 4) (now := 0) (by decide) (by decide) (k := [1]) (by decide)

theorem C13_reachRunK : ReachK 2 1 [C01_reachE] 0 0 C01_reachS3 := by
  have r1 : ReachK 2 1 [C01_reachE] 0 0 ((Lsm.init 2).putEnt C01_reachE) :=
    ReachK.put ReachK.init C01_reachE (by decide) (by decide) (by simp)
  have r2 : ReachK 2 1 [C01_reachE] 0 0 C01_reachS2 := ReachK.flush r1 5
  have hsplit : splitSizes C01_reachCd.outSizes (compactOutput C01_reachS2 C01_reachCd 0 1 0).1 =
      some [{ ents := [C01_reachE] }] := by
    simp only [compactOutput, mergeAll_eq_F]; decide
  exact ReachK.compact r2 C01_reachCd 0 1 0 (by decide) (by decide) (by decide) (by decide) rfl (by lsm_decide)
    (by intro new0 h; rw [hsplit] at h; cases h; simp [withIds, C01_reachCd, CutsAtKeyChange])

example : C01_reachE ∈ C01_reachS3.allEntries := by
  apply C13_reachK_keep_n C13_reachRunK C01_reachE (by simp)
  refine ⟨?_, ?_, by decide⟩
  · intro now; simp [C01_reachE, deletedOrExpired, hasBit, bitDelete]
  · intro x hx hk hv; simp at hx; subst hx; omega

end Badger
