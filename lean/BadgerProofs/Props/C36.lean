import BadgerModel.Mvcc
import BadgerProofs.Lemmas.Txn
import BadgerProofs.Props.C06
import BadgerProofs.Props.C03Model
/-!
# C36 — managed mode honors caller-chosen timestamps

Managed mode (`managed_db.go`): `NewTransactionAt(readTs)` uses the caller's read timestamp and
never touches the read watermark; `CommitAt(commitTs)` writes at exactly `commitTs` (entries
with an explicit non-zero version keep it — `keepTogether = false`, txn.go:535); `SetDiscardTs`
only moves the oracle's `discardTs`.

"A read at a chosen timestamp sees exactly the newest write at or below it" is the read
refinement C01 (`C01_get_spec`, agent-lsm) instantiated with the caller's timestamp; what is
specific to managed mode is proved here. The discard timestamp influences reads only through
compaction (C12/C13).
-/
namespace Badger

/-- `NewTransactionAt`: exactly the caller's timestamp; no read mark, no change of `nextTs`. -/
theorem C36_begin_readTs (d : Db) (id : Nat) (u : Bool) (ts : Nat) (hm : d.opts.managed = true) :
    (d.begin id u ts).2 = ts ∧ (d.begin id u ts).1.readMark = d.readMark ∧
    (d.begin id u ts).1.nextTs = d.nextTs ∧ (d.begin id u ts).1.lsm = d.lsm ∧
    ∃ t, (d.begin id u ts).1.findTxn id = some t ∧ t.readTs = ts ∧ t.update = u ∧ t.pending = [] := by
  unfold Db.begin
  simp only [hm, if_true]
  exact ⟨trivial, rfl, rfl, rfl, _, findTxn_setTxn_self _ _, rfl, rfl, rfl⟩

/-- a read at the chosen timestamp goes to `DB.get` with exactly that timestamp -/
theorem C36_read_at (d : Db) (id : Nat) (t : TxnM) (k : Bytes)
    (ht : d.findTxn id = some t) (hk : k ≠ []) (hd : t.discarded = false)
    (hp : t.update = true → t.pending.find? (·.key == k) = none) :
    (d.txnGet id k).2 = (match visible d.now (d.lsm.get k t.readTs) with
      | none => GetRes.notfound
      | some e => .found e e.ver) := by
  unfold Db.txnGet
  have hk' : k.isEmpty = false := by cases k <;> simp_all
  simp only [ht, hk', hd, Bool.false_eq_true, if_false]
  cases hu : t.update with
  | false =>
    simp only [Bool.false_eq_true, if_false]
    cases d.lsm.get k t.readTs with
    | none => rfl
    | some e => by_cases hx : deletedOrExpired e.emeta e.exp d.now = true <;> simp [visible, hx]
  | true =>
    simp only [if_true, hp hu, setTxn_lsm, setTxn_now]
    cases d.lsm.get k t.readTs with
    | none => rfl
    | some e => by_cases hx : deletedOrExpired e.emeta e.exp d.now = true <;> simp [visible, hx]

/-- `CommitAt`: the answer is exactly the caller's commit timestamp, `nextTs` is untouched, and
    every entry of the transaction is stored at exactly that timestamp — or at its own explicit
    non-zero version (`SetEntryAt`). -/
theorem C36_commit_ts_exact (d : Db) (id mts cts : Nat) (t : TxnM) (hm : d.opts.managed = true)
    (hf : d.findTxn id = some t) (hok : (d.commit id mts).2 = .ok cts) :
    cts = mts ∧ (d.commit id mts).1.nextTs = d.nextTs ∧
    (∀ e ∈ t.pending ++ t.dups, ∃ x ∈ (d.commit id mts).1.lsm.mem,
        x.key = e.key ∧ x.ver = (if e.ver = 0 then mts else e.ver)) ∧
    (∀ x ∈ (d.commit id mts).1.lsm.mem, x ∈ d.lsm.mem ∨
        ∃ e ∈ t.pending ++ t.dups, x.key = e.key ∧ x.ver = (if e.ver = 0 then mts else e.ver) ∧
          x.val = e.val ∧ x.umeta = e.umeta ∧ x.exp = e.exp) := by
  obtain ⟨t', hf', hg, hcts⟩ := commit_ok_inv hok
  rw [hf] at hf'; injection hf' with hf'; subst hf'
  have hc : cts = mts := by simpa [commitTsOf, hm] using hcts
  have hn := (commit_goes mts hf hg).2.2.1
  simp only [hm, if_true] at hn
  refine ⟨hc, hn, ?_, ?_⟩
  · have := (C03_commit_atomic d id mts cts t hf hok).1
    rw [hc] at this; exact this
  · intro x hx
    rw [(commit_goes mts hf hg).2.1, ← hcts] at hx
    rcases mem_foldl_memPut hx with hx | hx
    · right
      obtain ⟨e, he, rfl⟩ := mem_commitEntries.mp hx
      have := C06_finEnt_fields d (keepTogetherOf t) cts e
      rw [show (if e.ver = 0 then cts else e.ver) = (if e.ver = 0 then mts else e.ver) by rw [hc]] at this
      exact ⟨e, he, this.1, this.2.1, this.2.2.1, this.2.2.2.1, this.2.2.2.2.1⟩
    · exact .inl hx

/-- a zero commit timestamp is refused when transaction markers would be written -/
theorem C36_zero_commit_ts (d : Db) (id : Nat) (t : TxnM) (hm : d.opts.managed = true)
    (hf : d.findTxn id = some t) (hp : t.pending ≠ []) (hd : t.discarded = false)
    (hv : ∀ e ∈ t.pending, e.ver = 0) :
    d.commit id 0 = (d, .err "err:zerocommitts") := by
  rw [commit_eq 0 hf]
  have h1 : t.pending.isEmpty = false := by cases h : t.pending <;> simp_all
  have h2 : keepPreOf t = true := by
    simp only [keepPreOf, List.all_eq_true, beq_iff_eq]; exact hv
  simp [h1, hd, h2, hm]

/-- `SetDiscardTs` (the `setdiscard` step: assignment + `cleanupCommittedTransactions`) changes
    neither the LSM tree nor the clock nor any transaction: every `Get` and every iteration
    returns what it returned before, at every timestamp. -/
theorem C36_discard_monotone_reads (d : Db) (ts : Nat) :
    (d.step (.setDiscard ts)).lsm = d.lsm ∧ (d.step (.setDiscard ts)).now = d.now ∧
    (d.step (.setDiscard ts)).txns = d.txns ∧
    (∀ k rts, (d.step (.setDiscard ts)).lsm.get k rts = d.lsm.get k rts) ∧
    (∀ id o seek, (d.step (.setDiscard ts)).iterate id o seek = d.iterate id o seek) ∧
    (∀ id k, ((d.step (.setDiscard ts)).txnGet id k).2 = (d.txnGet id k).2) := by
  have h1 : (d.step (.setDiscard ts)).lsm = d.lsm := by simp [Db.step]
  have h2 : (d.step (.setDiscard ts)).now = d.now := by simp [Db.step]
  have h3 : (d.step (.setDiscard ts)).txns = d.txns := by simp [Db.step]
  have h4 : ∀ id, (d.step (.setDiscard ts)).findTxn id = d.findTxn id := by
    intro id; simp only [Db.findTxn, h3]
  refine ⟨h1, h2, h3, fun k rts => by rw [h1], ?_, ?_⟩
  · intro id o seek
    simp only [Db.iterate, h4, h1, h2]
  · intro id k
    unfold Db.txnGet
    rw [h4]
    cases d.findTxn id with
    | none => rfl
    | some t =>
      dsimp -zeta only
      split
      · rfl
      split
      · rfl
      split
      · rw [h2]; split <;> rfl
      · cases hu : t.update with
        | false =>
          simp only [Bool.false_eq_true, if_false, h1, h2]
          split
          · rfl
          · split <;> rfl
        | true =>
          simp only [if_true, setTxn_lsm, setTxn_now, h1, h2]
          split
          · rfl
          · split <;> rfl

-- non-vacuity: managed commits at caller-chosen, non-monotonic timestamps 7 then 5, with an
-- explicit per-entry version 3; reads at 6 and at 7.
example :
    let d0 := Db.init { managed := true, maxBatchCount := 100, maxBatchSize := 100000 } 0
    let d1 := (d0.begin 1 true 0).1
    let d2 := (d1.modify 1 { key := [0x61], ver := 0, emeta := 0, umeta := 0, exp := 0, val := [7] }).1
    let r1 := d2.commit 1 7
    let d3 := (r1.1.begin 2 true 0).1
    let d4 := (d3.modify 2 { key := [0x61], ver := 0, emeta := 0, umeta := 0, exp := 0, val := [5] }).1
    let d5 := (d4.modify 2 { key := [0x62], ver := 3, emeta := 0, umeta := 0, exp := 0, val := [3] }).1
    let r2 := d5.commit 2 5
    (match r1.2, r2.2 with | .ok a, .ok b => a == 7 && b == 5 | _, _ => false) = true ∧
    (r2.1.lsm.get [0x61] 6).map (·.val) = some [5] ∧
    (r2.1.lsm.get [0x61] 7).map (·.val) = some [7] ∧
    (r2.1.lsm.get [0x62] 4).map (·.ver) = some 3 ∧ r2.1.nextTs = 1 := by decide

end Badger
