import BadgerModel.WritePipe
import BadgerProofs.Lemmas.WritePipe
import BadgerProofs.Props.C34
/-!
# C03 — write pipeline: channel order, apply order, atomic visibility, visibility after ack

Model: `BadgerModel/WritePipe.lean` (committers: `lock; newCommitTs; enqueue; unlock; wait; doneCommit`,
`doWrites`/`writeRequests`: `dequeue k; put …; signal`, one memtable `Put` per step) on top of the
oracle transition system. `PReach d n p`: every reachable state, any number of committers and
readers, any interleaving, normal mode.
-/
namespace Badger

/-- **Write-channel order = commit-timestamp order.** In every reachable state the requests sitting
    in `writeCh` are in strictly increasing commit-timestamp order and all above everything already
    taken out of the channel; more precisely the sequence of *all* requests ever enqueued (finished
    batches, batch in flight, channel) is strictly increasing, and it is the allocation history of
    the oracle — without the timestamps of commits rejected by `sendToWriteCh` (`p.rejected`) — minus
    at most the timestamp just given to the committer holding `writeChLock`. -/
theorem C03_channel_order {d : Bool} {n : Nat} {p : Pipe} (h : PReach d n p) :
    p.writeCh.Pairwise (fun a b => a.ts < b.ts) ∧
    (∀ a ∈ p.finished ++ p.batch.getD [], ∀ b ∈ p.writeCh, a.ts < b.ts) ∧
    p.enq.Pairwise (fun a b => a.ts < b.ts) ∧
    (p.sys.hist.map (·.ts)).filter (fun t => !p.rejected.contains t) = p.enq.map (·.ts) ++ p.stampedTs ∧
    p.stampedTs.length ≤ 1 := by
  have hI := h.inv
  have hs := hI.enqSorted
  have hs' := hs
  simp only [Pipe.enq] at hs'
  obtain ⟨_, h2, h3⟩ := List.pairwise_append.mp hs'
  refine ⟨h2, h3, hs, hI.histEnq, ?_⟩
  simp only [Pipe.stampedTs]
  split
  · split <;> simp
  · simp

/-- **Apply order.** (a) Entries reach the memtable in non-decreasing commit-timestamp order.
    (b) While an entry of the request with timestamp `c` is the next to be put, every request with a
    smaller timestamp that was ever enqueued is fully applied. (c) What is in the memtable is
    exactly: all entries of the finished batches, then a prefix of the batch in flight. -/
theorem C03_apply_order {d : Bool} {n : Nat} {p : Pipe} (h : PReach d n p) :
    p.memtable.Pairwise (fun a b => a.2 ≤ b.2) ∧
    (∀ k c rest, p.pending = (k, c) :: rest → ∀ q ∈ p.enq, q.ts < c →
      ∀ key ∈ q.keys, (key, q.ts) ∈ p.memtable) ∧
    (∃ applied, p.memtable = p.finished.flatMap Req.entries ++ applied ∧
      applied ++ p.pending = (p.batch.getD []).flatMap Req.entries) := by
  have hI := h.inv
  obtain ⟨applied, hm1, hm2⟩ := hI.memFlat
  have hs := hI.enqSorted
  simp only [Pipe.enq] at hs
  obtain ⟨hfb, hw, hfbw⟩ := List.pairwise_append.mp hs
  have hall : (p.memtable ++ p.pending).Pairwise (fun a b => a.2 ≤ b.2) := by
    rw [hm1, List.append_assoc, hm2, ← List.flatMap_append]
    exact entries_sorted _ hfb
  refine ⟨(List.pairwise_append.mp hall).1, ?_, applied, hm1, hm2⟩
  intro k c rest hp q hq hlt key hkey
  -- (k, c) belongs to a request of the batch in flight
  have hkc : (k, c) ∈ (p.batch.getD []).flatMap Req.entries := by
    rw [← hm2, hp]; simp
  obtain ⟨qc, hqc, hqce⟩ := List.mem_flatMap.mp hkc
  have hcts : c = qc.ts := ((mem_entries qc (k, c)).mp hqce).1
  -- q is not in the channel: those are above the batch
  have hq' : q ∈ p.finished ++ p.batch.getD [] := by
    simp only [Pipe.enq] at hq
    rcases List.mem_append.mp hq with hq | hq
    · exact hq
    · exfalso
      have := hfbw qc (List.mem_append.mpr (.inr hqc)) q hq
      omega
  have hent : (key, q.ts) ∈ p.memtable ++ p.pending := by
    rw [hm1, List.append_assoc, hm2, ← List.flatMap_append]
    exact List.mem_flatMap.mpr ⟨q, hq', (mem_entries q _).mpr ⟨rfl, hkey⟩⟩
  rcases List.mem_append.mp hent with hm | hpnd
  · exact hm
  · exfalso
    rw [hp] at hpnd hall
    have hp2 := (List.pairwise_append.mp hall).2.1
    rcases List.mem_cons.mp hpnd with he | hr
    · cases he; omega
    · have := (List.pairwise_cons.mp hp2).1 _ hr
      simp only at this; omega

/-- A commit whose request has been signalled is fully in the memtable. -/
theorem PInv.applied_of_signalled {d n p} (hI : PInv d n p) (e : HistEntry) (he : e ∈ p.sys.hist)
    (hsig : e.ts ∈ p.signalled) : ∀ k ∈ e.conflictKeys, (k, e.ts) ∈ p.memtable := by
  intro k hk
  rw [hI.sigEq] at hsig
  obtain ⟨q, hq, hqt⟩ := List.mem_map.mp hsig
  obtain ⟨e', he', h1, h2⟩ := hI.keysEnq q (by simp [Pipe.enq, hq])
  have : e' = e := pairwise_ts_inj (·.ts) _ hI.sysInv.histSorted e' e he' he (by rw [h1, hqt])
  subst this
  obtain ⟨applied, hm1, _⟩ := hI.memFlat
  rw [hm1]
  apply List.mem_append.mpr; left
  exact List.mem_flatMap.mpr ⟨q, hq, (mem_entries q _).mpr ⟨by simp [hqt], by rw [← h2]; exact hk⟩⟩

/-- A commit that has been reported done was rejected by `sendToWriteCh` (nothing of it is ever
    written) or is fully in the memtable. -/
theorem PInv.applied_of_done {d n p} (hI : PInv d n p) (e : HistEntry) (he : e ∈ p.sys.hist)
    (hd : e.ts ∈ p.sys.doneCommits) :
    e.ts ∈ p.rejected ∨ ∀ k ∈ e.conflictKeys, (k, e.ts) ∈ p.memtable := by
  rcases hI.ackSub _ hd with h | h
  · exact .inr (hI.applied_of_signalled e he h)
  · exact .inl h

/-- Nothing of a rejected commit is ever enqueued. -/
theorem PInv.enq_not_rejected {d n p} (hI : PInv d n p) (q : Req) (hq : q ∈ p.enq) : q.ts ∉ p.rejected := by
  have hmem : q.ts ∈ p.liveTs := by
    rw [hI.histEnq]; exact List.mem_append.mpr (.inl (List.mem_map.mpr ⟨q, hq, rfl⟩))
  have := (List.mem_filter.mp hmem).2
  simpa using this

/-- **Atomic visibility.** In every reachable state, for every transaction whose `NewTransaction`
    has returned with read timestamp `r`: (a) every commit with timestamp `≤ r` is *fully* applied
    (all its entries are in the memtable) — or was rejected by `sendToWriteCh`, in which case nothing
    of it is ever written (`C03_rejected_no_trace_pipe`); (b) every commit with timestamp `> r` is entirely
    invisible (its entries carry version `> r`); (c) conversely every memtable entry visible at `r`
    (version `≤ r`) belongs to a fully applied transaction. So no reader observes part of a
    transaction, although the memtable itself passes through partially applied states
    (`C03_partial_state_exists`). -/
theorem C03_atomic_visibility {d : Bool} {n : Nat} {p : Pipe} (h : PReach d n p) (tid : Nat) (x : TxnSt)
    (hx : p.sys.txns[tid]? = some x)
    (hret : x.phase = .active ∨ x.phase = .closing ∨ x.phase = .closed) :
    (∀ e ∈ p.sys.hist, e.ts ≤ x.t.readTs →
      e.ts ∈ p.rejected ∨ ∀ k ∈ e.conflictKeys, (k, e.ts) ∈ p.memtable) ∧
    (∀ e ∈ p.sys.hist, x.t.readTs < e.ts → ∀ k ∈ e.conflictKeys, ¬ ((k, e.ts) : Nat × Nat).2 ≤ x.t.readTs) ∧
    (∀ kv ∈ p.memtable, kv.2 ≤ x.t.readTs → ∃ e ∈ p.sys.hist, e.ts = kv.2 ∧ kv.1 ∈ e.conflictKeys ∧
      e.ts ∉ p.rejected ∧ ∀ k ∈ e.conflictKeys, (k, e.ts) ∈ p.memtable) := by
  have hI := h.inv
  have happ := C34_readTs_sees_applied hI.reach tid x hx hret
  have part1 : ∀ e ∈ p.sys.hist, e.ts ≤ x.t.readTs →
      e.ts ∈ p.rejected ∨ ∀ k ∈ e.conflictKeys, (k, e.ts) ∈ p.memtable :=
    fun e he hle => hI.applied_of_done e he (happ e he hle)
  refine ⟨part1, fun e _ hlt k _ => by simp only; omega, ?_⟩
  intro kv hkv hle
  obtain ⟨applied, hm1, hm2⟩ := hI.memFlat
  have hin : kv ∈ (p.finished ++ p.batch.getD []).flatMap Req.entries := by
    rw [List.flatMap_append, ← hm2, ← List.append_assoc, ← hm1]
    exact List.mem_append.mpr (.inl hkv)
  obtain ⟨q, hq, hqe⟩ := List.mem_flatMap.mp hin
  obtain ⟨hv, hkey⟩ := (mem_entries q kv).mp hqe
  have hqe : q ∈ p.enq := by simp only [Pipe.enq]; exact List.mem_append.mpr (.inl hq)
  obtain ⟨e, he, h1, h2⟩ := hI.keysEnq q hqe
  have hnr : e.ts ∉ p.rejected := by rw [h1]; exact hI.enq_not_rejected q hqe
  refine ⟨e, he, by rw [h1, hv], by rw [h2]; exact hkey, hnr, ?_⟩
  rcases part1 e he (by rw [h1, ← hv]; exact hle) with hr | ha
  · exact absurd hr hnr
  · exact ha

/-- **Visible after acknowledgement.** Once `Commit` of transaction `tid` has returned (its
    committer has run `doneCommit(ts)`), `ts` is recorded as done, all its entries are in the
    memtable, and every transaction that starts from now on gets a read timestamp `≥ ts` (and, by
    `C03_atomic_visibility`, sees all of it). -/
theorem C03_acked_visible {d : Bool} {n : Nat} {p : Pipe} (h : PReach d n p) (tid ts : Nat)
    (hack : p.cph tid = .acked ts) :
    ts ∈ p.sys.doneCommits ∧ ts ≤ p.sys.o.readTsBegin.2 ∧
    ∃ e ∈ p.sys.hist, e.ts = ts ∧ ∀ k ∈ e.conflictKeys, (k, ts) ∈ p.memtable := by
  have hI := h.inv
  obtain ⟨hd, hsig⟩ := hI.acked tid ts hack
  obtain ⟨e, he, rfl⟩ := List.mem_map.mp (hI.sysInv.doneSub ts hd)
  refine ⟨hd, ?_, e, he, rfl, hI.applied_of_signalled e he hsig⟩
  have := (hI.sysInv.histLt e he).2
  simp only [Oracle.readTsBegin]; omega

/-- **A commit rejected by `sendToWriteCh` leaves no trace in the pipeline and its timestamp stays
    consumed.** For every timestamp `t` handed out to a commit that was then rejected
    (`ErrBlockedWrites`, `ErrTxnTooBig`): no request with `t` is or was ever in the write channel, no
    memtable entry (applied or pending) carries version `t`; `t` is in the allocation history, has
    been reported done (readers do not wait for it) and — `C03_ts_unique_increasing` — is never
    handed out again: `t < nextTxnTs`, and `txnMark.DoneUntil() < nextTxnTs`
    (`C34_marks_below_next`), so the next commit is not considered applied before it is written. -/
theorem C03_rejected_no_trace_pipe {d : Bool} {n : Nat} {p : Pipe} (h : PReach d n p) (t : Nat)
    (ht : t ∈ p.rejected) :
    (∀ q ∈ p.enq, q.ts ≠ t) ∧ (∀ kv ∈ p.memtable ++ p.pending, kv.2 ≠ t) ∧
    t ∈ p.sys.hist.map (·.ts) ∧ t ∈ p.sys.doneCommits ∧ t < p.sys.o.nextTxnTs ∧
    p.sys.o.txnMark.doneUntil < p.sys.o.nextTxnTs := by
  have hI := h.inv
  obtain ⟨h1, h2⟩ := hI.rejHist t ht
  have hq : ∀ q ∈ p.enq, q.ts ≠ t := fun q hq e => hI.enq_not_rejected q hq (e ▸ ht)
  refine ⟨hq, ?_, h1, h2, ?_, (C34_marks_below_next hI.reach).1⟩
  · intro kv hkv e
    obtain ⟨applied, hm1, hm2⟩ := hI.memFlat
    have hin : kv ∈ (p.finished ++ p.batch.getD []).flatMap Req.entries := by
      rw [List.flatMap_append, ← hm2, ← List.append_assoc, ← hm1]; exact hkv
    obtain ⟨q, hq', hqe⟩ := List.mem_flatMap.mp hin
    have := ((mem_entries q kv).mp hqe).1
    exact hq q (by simp only [Pipe.enq]; exact List.mem_append.mpr (.inl hq')) (by rw [← this, e])
  · obtain ⟨e, he, ee⟩ := List.mem_map.mp h1
    rw [← ee]; exact (hI.sysInv.histLt e he).2

/-- The seeded scenario in the model: commit 0 is applied (ts 1), commit 1 is rejected after it got
    ts 2 (the timestamp stays consumed, `txnMark` moves to 2 only because 2 *was* handed out), commit 2
    gets the fresh ts 3 and is in flight; a reader started now has read timestamp 3 and is parked. -/
def exRejectA : List PLabel :=
  [.sys .procTxnMark, .sys (.begin true), .sys (.waitCheck 0), .sys (.write 0 1), .lock 0, .stamp 0,
   .enqueue 0, .unlock 0, .dequeue 1, .put, .signal, .ack 0]
def exRejectB : List PLabel :=
  [.sys (.begin true), .sys .procTxnMark, .sys .procTxnMark, .sys (.waitCheck 1), .sys (.write 1 9),
   .lock 1, .stamp 1, .reject 1]
def exRejectC : List PLabel :=
  [.sys (.begin true), .sys .procTxnMark, .sys .procTxnMark, .sys (.waitCheck 2), .sys (.write 2 1),
   .lock 2, .stamp 2, .enqueue 2, .unlock 2,
   .sys (.begin false), .sys (.waitCheck 3), .sys .procTxnMark, .sys .procTxnMark]

example :
    ((Pipe.opened true 0).runLabels (exRejectA ++ exRejectB ++ exRejectC)).map
      (fun p => (p.rejected, p.sys.o.nextTxnTs, p.sys.o.txnMark.doneUntil)) = some ([2], 4, 2) ∧
    ((Pipe.opened true 0).runLabels (exRejectA ++ exRejectB ++ exRejectC)).map
      (fun p => (p.memtable, p.sys.txns.map (fun x => (x.phase, x.t.readTs)))) =
    some ([(1, 1)], [(.closed, 0), (.closed, 1), (.closed, 2), (.parked, 3)]) := by decide

/-- The oracle inside a reachable pipeline state is a reachable oracle state: every theorem of
    `Props/C34.lean`, `Props/C02.lean`, `Props/C03.lean` applies to `p.sys` (the pipeline only
    restricts *when* `commit`/`doneCommit` happen). -/
theorem C03_pipeline_sys_reachable {d : Bool} {n : Nat} {p : Pipe} (h : PReach d n p) :
    OReach false d n p.sys := h.inv.reach

/-- The memtable does pass through partially applied states: transaction 0 writes keys 1 and 2;
    after one `put` only `(1, ts 1)` is in the memtable — and a reader that starts at that moment is
    parked (its read timestamp is 1 and commit 1 is not done), exactly what `C03_atomic_visibility`
    relies on. -/
theorem C03_partial_state_exists :
    ((Pipe.opened true 0).runLabels
      [.sys .procTxnMark, .sys (.begin true), .sys (.waitCheck 0), .sys (.write 0 1), .sys (.write 0 2),
       .lock 0, .stamp 0, .enqueue 0, .unlock 0, .dequeue 1, .put,
       .sys (.begin false), .sys (.waitCheck 1), .sys .procTxnMark, .sys .procTxnMark]).map
      (fun p => (p.memtable, p.pending, p.sys.txns.map (·.phase))) =
    some ([(1, 1)], [(2, 1)], [.closed, .parked]) := by decide

/-- … and the same run completed: both entries applied, request signalled, `doneCommit`, the reader
    released with read timestamp 1. -/
example :
    ((Pipe.opened true 0).runLabels
      [.sys .procTxnMark, .sys (.begin true), .sys (.waitCheck 0), .sys (.write 0 1), .sys (.write 0 2),
       .lock 0, .stamp 0, .enqueue 0, .unlock 0, .dequeue 1, .put,
       .sys (.begin false), .sys (.waitCheck 1), .sys .procTxnMark, .sys .procTxnMark,
       .put, .signal, .ack 0, .sys .procTxnMark]).map
      (fun p => (p.memtable, p.sys.doneCommits, p.sys.txns.map (fun x => (x.phase, x.t.readTs)))) =
    some ([(1, 1), (2, 1)], [1], [(.closed, 0), (.active, 1)]) := by decide

end Badger
