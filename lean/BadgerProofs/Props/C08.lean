import BadgerProofs.Lemmas.CrashMain
/-!
# C08 — a crash (process kill) at any point recovers a commit prefix holding every
# acknowledged commit

Model: `BadgerModel/Fs.lean` (`crashKill`: the page cache survives), `Protocol.lean` (the
small-step machine: writer thread, flusher goroutine, one persistence event per step) and
`Recover.lean` (`Open` as a function of the directory image).

A history is a list of scheduler choices (`Sched`): start a commit / a memtable rotation / a
compaction, let the writer execute its next persistence event, let the flusher execute its
next persistence event. Every interleaving of the two threads at event granularity is a
history and every prefix of a history is a history, so "for every history" is "for every crash
point between two persistence events of every workload".

* `C08_kill_safe` — after every history the directory opens without error and what `Open`
  finds reads like the first `k` issued commits, `acked ≤ k ≤ issued` (whole transactions only).
* `C08_kill_safe_events` — the same, phrased over the emitted `FsOp` sequence cut after any
  number `n` of persistence events.
* `C08_syscall_oldStatement` is the same claim for cuts between any two *system calls* and the
  `Open` of before the repair of finding F22; it is **false**: `z.OpenMmapFile` creates a log
  file with `open(O_CREAT)` and sizes it with a second call, `z.MmapFile.Delete` truncates to 0
  before unlinking, and `Open` refused a zero-length `.mem` / `.vlog` file
  (`C08_syscall_counterexample`). `C08_f22_repaired`: the repaired `Open` accepts both images.
-/
namespace Badger

/-- C08 for every history of the protocol machine (every crash point between two events). -/
theorem C08_kill_safe (R : ViewRel) (c : Cfg) (h : List Sched) (hok : SchedHistOk R (MState.init c).p h) :
    ∃ r, recover false (crashKill ((MState.init c).exec h).fs) = .ok r ∧
      ∃ k, ((MState.init c).exec h).p.acked ≤ k ∧ k ≤ ((MState.init c).exec h).p.commits.length ∧
        R.r r.entries (txnsEnts (((MState.init c).exec h).p.commits.take k)) := by
  obtain ⟨hwf, hinv⟩ := init_inv R c
  obtain ⟨_, hI⟩ := exec_inv R (MState.init c) h hwf hinv hok
  obtain ⟨r, hr, hm, _⟩ := recover_of_inv R _ _ hI
  refine ⟨r, hr, ((MState.init c).exec h).p.done, hI.logic.acked_le, hI.logic.done_le, ?_⟩
  exact R.trans _ _ _ (R.of_mem_iff _ _ hm) hI.logic.view

/-! ### the same over the emitted `FsOp` sequence -/

theorem exec_fs (m : MState) (h : List Sched) : (m.exec h).fs = m.fs.run (m.p.atoms h).flatten := by
  induction h generalizing m with
  | nil => rfl
  | cons x h ih =>
    show ((m.step x).exec h).fs = _
    rw [ih]
    simp [MState.step, PState.atoms, Fs.run, List.foldl_append]

theorem exec_p (m : MState) (h : List Sched) : (m.exec h).p = h.foldl (fun p x => (p.step x).2) m.p := by
  induction h generalizing m with
  | nil => rfl
  | cons x h ih => show ((m.step x).exec h).p = _; rw [ih]; rfl

theorem atoms_take (p : PState) (h : List Sched) (n : Nat) : (p.atoms h).take n = p.atoms (h.take n) := by
  induction h generalizing p n with
  | nil => simp [PState.atoms]
  | cons x h ih =>
    cases n with
    | zero => simp [PState.atoms]
    | succ n => simp [PState.atoms, ih]

theorem SchedHistOk_take (R : ViewRel) (p : PState) (h : List Sched) (n : Nat) (hok : SchedHistOk R p h) :
    SchedHistOk R p (h.take n) := by
  induction h generalizing p n with
  | nil => simpa using hok
  | cons x h ih =>
    cases n with
    | zero => simp [SchedHistOk]
    | succ n =>
      rw [List.take_succ_cons, SchedHistOk_cons]
      rw [SchedHistOk_cons] at hok
      exact ⟨hok.1, ih _ _ hok.2⟩

/-- C08 over the sequence of persistence events a history emits: cut it after any `n` events
    (`n` larger than the history = no crash), kill the process, open the directory. The commits
    issued / acknowledged by then are those of the prefix `h.take n`. -/
theorem C08_kill_safe_events (R : ViewRel) (c : Cfg) (h : List Sched) (hok : SchedHistOk R (MState.init c).p h) (n : Nat) :
    ∃ r, recover false (crashKill ((MState.init c).fs.run (((MState.init c).p.atoms h).take n).flatten)) = .ok r ∧
      ∃ k, ((MState.init c).exec (h.take n)).p.acked ≤ k ∧
        k ≤ ((MState.init c).exec (h.take n)).p.commits.length ∧
        R.r r.entries (txnsEnts (((MState.init c).exec (h.take n)).p.commits.take k)) := by
  have := C08_kill_safe R c (h.take n) (SchedHistOk_take R _ h n hok)
  rw [exec_fs, ← atoms_take] at this
  exact this

/-! ### crash points between any two system calls (finding F22, repaired) -/

def isError {ε α : Type} : Except ε α → Bool
  | .error _ => true
  | .ok _ => false

def errOf {α : Type} : Except RecErr α → Option RecErr
  | .error e => some e
  | .ok _ => none

/-- C08 with crash points between any two system calls, for the code as it is: `Open` never
    fails. (`create p; extend p` and `truncate p 0; unlink p` are single persistence events but
    two system calls; between them a log file has length zero.) Stated, checked on the two
    F22 scenarios below and by the harness on every such image; the general proof (the
    invariant of `C08_kill_safe` at system-call granularity) is not done. -/
def C08_syscall_statement : Prop :=
  ∀ (c : Cfg) (h : List Sched) (n : Nat),
    isError (recover false (crashKill ((MState.init c).fs.run (((MState.init c).p.atoms h).flatten.take n)))) = false

/-- the same claim for `Open` before the repair of F22 (a zero-length `.mem` / `.vlog` file was
    an error: `recoverOld`) -/
def C08_syscall_oldStatement : Prop :=
  ∀ (c : Cfg) (h : List Sched) (n : Nat),
    isError (recoverOld false (crashKill ((MState.init c).fs.run (((MState.init c).p.atoms h).flatten.take n)))) = false

/-- the regression witness: a memtable rotation, killed between `open(O_CREAT)` and `ftruncate`
    of the new `.mem` file (inside `z.OpenMmapFile`): the old `Open` answered "while opening fid:
    2 … Create a new file". Replay: corpus/C08/f22.ops. -/
def f22History : List Sched := [.flushReq, .w, .w]

theorem C08_f22_witness :
    errOf (recoverOld false (crashKill ((MState.init {}).fs.run (((MState.init {}).p.atoms f22History).flatten.take 1))))
      = some (.zeroLengthLog (.mem 2)) := by
  decide +kernel

theorem C08_syscall_counterexample : ¬ C08_syscall_oldStatement := by
  intro h
  have h1 := h {} f22History 1
  have h2 := C08_f22_witness
  cases hr : recoverOld false (crashKill ((MState.init {}).fs.run (((MState.init {}).p.atoms f22History).flatten.take 1))) with
  | error e => rw [hr] at h1; simp [isError] at h1
  | ok r => rw [hr] at h2; simp [errOf] at h2

/-- the second half of F22: a kill between `ftruncate(0)` and `unlink` inside
    `z.MmapFile.Delete` of a flushed WAL -/
theorem C08_f22_witness_delete :
    isError (recoverOld false (crashKill ((MState.init {}).fs.run
      (((MState.init {}).p.atoms [.flushReq, .w, .w, .w, .w, .f]).flatten.take 5))) ) = true := by
  decide +kernel

/-- after the repair both images open -/
theorem C08_f22_repaired :
    isError (recover false (crashKill ((MState.init {}).fs.run (((MState.init {}).p.atoms f22History).flatten.take 1)))) = false ∧
    isError (recover false (crashKill ((MState.init {}).fs.run
      (((MState.init {}).p.atoms [.flushReq, .w, .w, .w, .w, .f]).flatten.take 5)))) = false := by
  decide +kernel

/-! ### non-vacuity -/

def demoEnt (k : UInt8) (v : UInt8) : CEnt := { key := [k], ver := 0, del := false, val := [v] }

/-- a commit, a memtable rotation, the flush of the rotated memtable (table 1) -/
def demoFlush : List Sched :=
  [.commit [demoEnt 1 1] false, .w, .w, .w, .w, .w, .w, .w, .flushReq, .w, .w, .w, .w, .w, .f, .f, .f, .f, .f, .f, .f]

/-- … followed by a compaction of table 1 into table 2 and a commit in flight -/
def demoHistory : List Sched :=
  demoFlush ++ [.compact [1] [(1, [{ key := [1], ver := 1, del := false, val := [1] }])],
    .w, .w, .w, .w, .w, .w, .w, .commit [demoEnt 2 2] false, .w, .w]

set_option maxHeartbeats 1000000 in
example : ((MState.init {}).exec demoFlush).p.acked = 1 ∧
    ((MState.init {}).exec demoFlush).p.tset = [(1, 0)] ∧
    ((MState.init {}).exec demoFlush).p.tableEnts 1 = [{ key := [1], ver := 1, del := false, val := [1] }] := by
  decide

theorem SchedHistOk_append (R : ViewRel) (p : PState) (a b : List Sched) :
    SchedHistOk R p (a ++ b) ↔ SchedHistOk R p a ∧ SchedHistOk R (a.foldl (fun p x => (p.step x).2) p) b := by
  induction a generalizing p with
  | nil => simp [SchedHistOk]
  | cons x a ih => simp only [List.cons_append, SchedHistOk, List.foldl_cons, ih, and_assoc]

set_option maxHeartbeats 1000000 in
/-- a history with a compaction that is admissible for the set view (the output table holds
    exactly the entries of the input table) -/
example : SchedHistOk setView (MState.init {}).p demoHistory := by
  unfold demoHistory
  rw [SchedHistOk_append]
  refine ⟨by simp [demoFlush, SchedHistOk], ?_⟩
  have ht : (demoFlush.foldl (fun p x => (p.step x).2) (MState.init {}).p).tableEnts 1 =
      [{ key := [1], ver := 1, del := false, val := [1] }] := by decide
  simp only [SchedHistOk, and_true, List.map, List.flatten, ht]
  intro e; simp

/-- histories without compactions are admissible for every view -/
example (R : ViewRel) : SchedHistOk R (MState.init {}).p demoFlush := by
  simp [demoFlush, SchedHistOk]

end Badger
