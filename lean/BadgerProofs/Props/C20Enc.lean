import BadgerModel.Header
import BadgerProofs.Lemmas.Varint
/-!
# C20 — encodings part: uvarint, entry header, `y.ValueStruct`, `valuePointer`.
(Keys: `C20.lean`.) All theorems are for every field value of the Go types
(`uint32` lengths, `uint64` expiry) and any trailing bytes.
-/
namespace Badger

/-- `binary.Uvarint(PutUvarint(n) ++ rest) = (n, len)` for every `uint64` and every `rest`. -/
theorem C20_uvarint_roundtrip (n : Nat) (rest : Bytes) (hn : n < 2 ^ 64) :
    uvarint (putUvarint n ++ rest) = (n, ((putUvarint n).length : Int)) :=
  uvarint_put n rest hn

/-- The streaming decoder (`binary.ReadUvarint`) agrees and consumes exactly the encoding. -/
theorem C20_readUvarint_roundtrip (n : Nat) (rest : Bytes) (hn : n < 2 ^ 64) :
    readUvarint (putUvarint n ++ rest) = .ok (n, rest) :=
  readUvarint_put n rest hn

/-- `y.sizeVarint` is exactly the encoded length. -/
theorem C20_sizeVarint (n : Nat) : sizeVarint n = (putUvarint n).length :=
  sizeVarintF_eq 9 n

/-- An encoded varint has 1..10 bytes. -/
theorem C20_putUvarint_length (n : Nat) : 1 ≤ (putUvarint n).length ∧ (putUvarint n).length ≤ 10 :=
  ⟨putUvarint_length_pos n, putUvarint_length_le n⟩

theorem sliceFrom_append_length (a b : Bytes) (i : Int) (h : i = a.length) :
    sliceFrom (a ++ b) i = some b := by
  subst h
  unfold sliceFrom
  rw [if_neg (by simp; omega)]
  simp

/-- A header over the Go field types. -/
def Header.WF (h : Header) : Prop := h.klen < 2 ^ 32 ∧ h.vlen < 2 ^ 32 ∧ h.expiresAt < 2 ^ 64

theorem headerEncode_length (h : Header) :
    (headerEncode h).length =
      2 + (putUvarint h.klen).length + (putUvarint h.vlen).length + (putUvarint h.expiresAt).length := by
  simp [headerEncode]; omega

/-- `header.Decode(header.Encode(h) ++ rest) = (h, len)` for all field values. -/
theorem C20_header_roundtrip (h : Header) (rest : Bytes) (wf : h.WF) :
    headerDecode (headerEncode h ++ rest) = some (h, ((headerEncode h).length : Int)) := by
  obtain ⟨hk, hv, he⟩ := wf
  obtain ⟨klen, vlen, exp, m, um⟩ := h
  simp only at hk hv he
  have e0 : headerEncode ⟨klen, vlen, exp, m, um⟩ ++ rest =
      m :: um :: (putUvarint klen ++ (putUvarint vlen ++ (putUvarint exp ++ rest))) := by
    simp [headerEncode]
  rw [e0]
  have s1 : sliceFrom (m :: um :: (putUvarint klen ++ (putUvarint vlen ++ (putUvarint exp ++ rest)))) 2
      = some (putUvarint klen ++ (putUvarint vlen ++ (putUvarint exp ++ rest))) :=
    sliceFrom_append_length [m, um] _ 2 rfl
  have s2 : sliceFrom (m :: um :: (putUvarint klen ++ (putUvarint vlen ++ (putUvarint exp ++ rest))))
      (2 + ((putUvarint klen).length : Int)) = some (putUvarint vlen ++ (putUvarint exp ++ rest)) := by
    have := sliceFrom_append_length (m :: um :: putUvarint klen)
      (putUvarint vlen ++ (putUvarint exp ++ rest)) (2 + ((putUvarint klen).length : Int))
      (by simp; omega)
    simpa using this
  have s3 : sliceFrom (m :: um :: (putUvarint klen ++ (putUvarint vlen ++ (putUvarint exp ++ rest))))
      (2 + ((putUvarint klen).length : Int) + ((putUvarint vlen).length : Int))
      = some (putUvarint exp ++ rest) := by
    have := sliceFrom_append_length (m :: um :: (putUvarint klen ++ putUvarint vlen))
      (putUvarint exp ++ rest) (2 + ((putUvarint klen).length : Int) + ((putUvarint vlen).length : Int))
      (by simp; omega)
    simpa using this
  simp only [headerDecode, s1, uvarint_put klen _ (by omega), s2, uvarint_put vlen _ (by omega), s3,
    uvarint_put exp _ he]
  rw [Nat.mod_eq_of_lt hk, Nat.mod_eq_of_lt hv]
  congr 2
  simp [headerEncode]; omega

/-- `header.DecodeFrom` (stream) reads the same header, consumes exactly the encoding —
    so `reader.bytesRead = header.Decode`'s result — and leaves `rest` unread. -/
theorem C20_header_decodeFrom (h : Header) (rest : Bytes) (wf : h.WF) :
    headerDecodeFrom (headerEncode h ++ rest) = .ok (h, rest) := by
  obtain ⟨hk, hv, he⟩ := wf
  obtain ⟨klen, vlen, exp, m, um⟩ := h
  simp only at hk hv he
  have e0 : headerEncode ⟨klen, vlen, exp, m, um⟩ ++ rest =
      m :: um :: (putUvarint klen ++ (putUvarint vlen ++ (putUvarint exp ++ rest))) := by
    simp [headerEncode]
  rw [e0]
  simp only [headerDecodeFrom, readByte, readUvarint_put klen _ (by omega),
    readUvarint_put vlen _ (by omega), readUvarint_put exp _ he]
  rw [Nat.mod_eq_of_lt hk, Nat.mod_eq_of_lt hv]

/-- `Decode` and `DecodeFrom` agree on every well-formed input: same header, and the count
    returned by `Decode` is the number of bytes `DecodeFrom` consumed. -/
theorem C20_header_decode_agree (h : Header) (rest : Bytes) (wf : h.WF) :
    ∃ h' r, headerDecodeFrom (headerEncode h ++ rest) = .ok (h', r) ∧
      headerDecode (headerEncode h ++ rest) =
        some (h', (((headerEncode h ++ rest).length - r.length : Nat) : Int)) := by
  refine ⟨h, rest, C20_header_decodeFrom h rest wf, ?_⟩
  rw [C20_header_roundtrip h rest wf]
  simp

/-- The truncation of `klen`/`vlen` to `uint32` on decode: a header written with a 64-bit length
    field decodes to the low 32 bits (the Go code does `uint32(klen)`). -/
theorem C20_header_decode_truncates (klen vlen exp : Nat) (m um : UInt8) (rest : Bytes)
    (hk : klen < 2 ^ 64) (hv : vlen < 2 ^ 64) (he : exp < 2 ^ 64) :
    headerDecodeFrom (headerEncode ⟨klen, vlen, exp, m, um⟩ ++ rest) =
      .ok (⟨klen % 2 ^ 32, vlen % 2 ^ 32, exp, m, um⟩, rest) := by
  have e0 : headerEncode ⟨klen, vlen, exp, m, um⟩ ++ rest =
      m :: um :: (putUvarint klen ++ (putUvarint vlen ++ (putUvarint exp ++ rest))) := by
    simp [headerEncode]
  rw [e0]
  simp only [headerDecodeFrom, readByte, readUvarint_put klen _ hk,
    readUvarint_put vlen _ hv, readUvarint_put exp _ he]

/-- `ValueStruct.Decode(Encode(v)) = v` (Decode infers the value length from the slice). -/
theorem C20_valueStruct_roundtrip (v : ValueStruct) (he : v.expiresAt < 2 ^ 64) :
    vsDecode (vsEncode v) = some v := by
  obtain ⟨m, um, exp, val⟩ := v
  simp only at he
  simp only [vsEncode, vsDecode, uvarint_put exp val he]
  have := sliceFrom_append_length (m :: um :: putUvarint exp) val (2 + ((putUvarint exp).length : Int))
    (by simp; omega)
  simp only [List.cons_append] at this
  rw [this]

/-- `EncodedSize` is exactly the number of bytes `Encode` writes. -/
theorem C20_valueStruct_encodedSize (v : ValueStruct) : vsEncodedSize v = (vsEncode v).length := by
  simp [vsEncodedSize, vsEncode, C20_sizeVarint]; omega

/-- `valuePointer.Decode(Encode(p) ++ rest) = p` for all `uint32` fields. -/
theorem C20_valuePointer_roundtrip (p : ValuePointer) (rest : Bytes)
    (hf : p.fid < 2 ^ 32) (hl : p.len < 2 ^ 32) (ho : p.offset < 2 ^ 32) :
    vpDecode (vpEncode p ++ rest) = some p := by
  obtain ⟨f, l, o⟩ := p
  simp only at hf hl ho
  unfold vpDecode vpEncode
  rw [if_neg (by simp; omega)]
  have h4 : (256 : Nat) ^ 4 = 2 ^ 32 := by decide
  have d8 : List.drop 8 (leBytes f 4 ++ leBytes l 4 ++ leBytes o 4 ++ rest) = leBytes o 4 ++ rest := by
    rw [List.append_assoc (leBytes f 4 ++ leBytes l 4)]
    exact List.drop_left' (by simp)
  have d4 : List.drop 4 (leBytes f 4 ++ leBytes l 4 ++ leBytes o 4 ++ rest) =
      leBytes l 4 ++ (leBytes o 4 ++ rest) := by
    rw [List.append_assoc, List.append_assoc]
    exact List.drop_left' (by simp)
  rw [d8, d4]
  simp [leNat_leBytes _ 4 (h4 ▸ hf), leNat_leBytes _ 4 (h4 ▸ hl), leNat_leBytes _ 4 (h4 ▸ ho)]

theorem C20_valuePointer_size (p : ValuePointer) : (vpEncode p).length = 12 := by
  simp [vpEncode]

-- non-vacuity / concrete instances (boundary values of the varints)
example : uvarint (putUvarint (2 ^ 64 - 1) ++ [0xff]) = (2 ^ 64 - 1, 10) := by decide
example : putUvarint 300 = [0xac, 0x02] := by decide
example : sizeVarint (2 ^ 63) = 10 := by decide
example : headerDecode (headerEncode ⟨2 ^ 32 - 1, 128, 2 ^ 64 - 1, 0x40, 7⟩ ++ [1, 2]) =
    some (⟨2 ^ 32 - 1, 128, 2 ^ 64 - 1, 0x40, 7⟩, 19) := by decide
example : headerDecodeFrom (headerEncode ⟨2 ^ 32 + 5, 0, 0, 0, 0⟩) = .ok (⟨5, 0, 0, 0, 0⟩, []) := by
  rfl
example : vsDecode (vsEncode ⟨1, 2, 16384, [9, 9]⟩) = some ⟨1, 2, 16384, [9, 9]⟩ := by decide
example : vpEncode ⟨1, 2, 3⟩ = [1, 0, 0, 0, 2, 0, 0, 0, 3, 0, 0, 0] := by decide
-- what the Go decoders do on inputs no encoder produces (mirrored, not "fixed"):
example : uvarint [0xff, 0xff, 0xff, 0xff, 0xff, 0xff, 0xff, 0xff, 0xff, 0x02] = (0, -10) := by decide
example : headerDecode [0, 0, 0x80] = some (⟨0, 0, 0, 0, 0⟩, 2) := by decide

end Badger
